/-
C15 — RAC readers survive hostile files: bounded work, no panic, in-file ranges.

Property theorems over `Model/Rac/ChunkReader.lean`, which mirrors `lib/rac/chunk_reader.go`
as repaired by /verif/fixes/C15-*.patch.  Everything is for EVERY byte string `f` and EVERY
claimed size: `Reachable f claimed r` says `r` is a `ChunkReader` state that some sequence of
`NextChunk` / `SeekToChunkContaining` calls reaches after `initialize`.
Helper lemmas live in `Proof/C15Node.lean`, `Proof/C15Resolve.lean`, `Proof/C15Reader.lean`.
-/
import WuffsVerif.Proof.C15Walk
import WuffsVerif.Proof.C15Stale

namespace WuffsVerif.Props.C15
open WuffsVerif.Rac.ChunkReader

/-! ## reachable reader states -/

inductive Reachable (f : File) (claimed : Int) : Reader → Prop
  | opened : Reachable f claimed (openReader f claimed)
  | next {r : Reader} : Reachable f claimed r → Reachable f claimed r.next.1
  | seek {r : Reader} (d : Int) : Reachable f claimed r → Reachable f claimed (r.seek d).1

/-- Sticky errors: once `err` is set, every method returns it and changes nothing. -/
theorem sticky_errors (r : Reader) (e : Err) (h : r.err = some e) :
    r.next = (r, .err e) ∧ (∀ d, r.seek d = (r, some e)) ∧ r.decompressedSize = .error e := by
  refine ⟨?_, ?_, ?_⟩
  · unfold Reader.next; rw [h]
  · intro d; unfold Reader.seek; rw [h]
  · unfold Reader.decompressedSize; rw [h]

/-- Every reachable state without a sticky error satisfies the reader invariant, and never
changes the file, the sizes or the root location found by `initialize`. -/
theorem reachable_inv {f : File} {claimed : Int} {r : Reader} (hr : Reachable f claimed r)
    (he : r.err = none) : ReaderInv r ∧ SameFile (openReader f claimed) r := by
  induction hr with
  | opened => exact ⟨openReader_inv f claimed he, ⟨rfl, rfl, rfl, rfl, rfl⟩⟩
  | @next r0 _ ih =>
    cases he0 : r0.err with
    | some e =>
      have := (sticky_errors r0 e he0).1
      rw [this] at he; simp only at he; rw [he0] at he; cases he
    | none =>
      obtain ⟨inv, sf⟩ := ih he0
      have g := next_good r0 inv he0
      cases hres : r0.next.2 with
      | chunk c =>
        obtain ⟨a1, _, a3, _⟩ := g.chunk c hres
        exact ⟨a1, ⟨a3.1.trans sf.1, a3.2.1.trans sf.2.1, a3.2.2.1.trans sf.2.2.1,
          a3.2.2.2.1.trans sf.2.2.2.1, a3.2.2.2.2.trans sf.2.2.2.2⟩⟩
      | eof =>
        obtain ⟨a1, _, a3, _⟩ := g.eof hres
        exact ⟨a1, ⟨a3.1.trans sf.1, a3.2.1.trans sf.2.1, a3.2.2.1.trans sf.2.2.1,
          a3.2.2.2.1.trans sf.2.2.2.1, a3.2.2.2.2.trans sf.2.2.2.2⟩⟩
      | err e => have := g.err e hres; rw [this] at he; cases he
      | spin => exact absurd hres g.no_spin
  | @seek r0 d _ ih =>
    cases he0 : r0.err with
    | some e =>
      have := (sticky_errors r0 e he0).2.1 d
      rw [this] at he; simp only at he; rw [he0] at he; cases he
    | none =>
      obtain ⟨inv, sf⟩ := ih he0
      obtain ⟨a1, a3⟩ := seek_inv r0 inv d he
      exact ⟨a1, ⟨a3.1.trans sf.1, a3.2.1.trans sf.2.1, a3.2.2.1.trans sf.2.2.1,
        a3.2.2.2.1.trans sf.2.2.2.1, a3.2.2.2.2.trans sf.2.2.2.2⟩⟩

/-! ## bounded work -/

/-- **resolve_terminates.**  `resolveSeekPosition` (with the spec's anti-loop rule) finishes:
along the descent the pair `(DPtrMax, COffset)` decreases lexicographically, DPtrMax is a
function of the node's offset, so no offset is visited twice, and every visited offset carries
the three magic bytes with room for a 32-byte node before `CompressedSize`.  Hence the loop
makes fewer `loadAndValidate` calls (each reads at most 4 + 4096 bytes) than there are such
offsets in the file (`nodeStarts`, at most `CompressedSize - 31`): work proportional to the
file — in fact to the number of places in it that look like the start of an index node.
`Outcome.fuel` is the model's "still looping".
The 32-byte self-referential file that hangs the unrepaired code is the `example` below. -/
theorem resolve_terminates {f : File} {claimed : Int} {r : Reader} (hr : Reachable f claimed r)
    (he : r.err = none) (hp : r.seekPos < r.dsize) :
    r.resolve ≠ .fuel ∧ r.resolve ≠ .err .panic ∧
    (∀ l, r.resolve = .ok l → l.loads < nodeStarts r.file r.csize ∧ l.loads < r.csize) ∧
    nodeStarts r.file r.csize + 31 ≤ r.csize := by
  obtain ⟨inv, _⟩ := reachable_inv hr he
  obtain ⟨⟨hok, hnp, hnf⟩, hrank, hns⟩ := resolve_spec r inv hp
  have hle := nodeStarts_le r.file r.csize
  have h32 := inv.csize_ge
  refine ⟨hnf hrank, hnp, ?_, by omega⟩
  intro l hl
  have := (hok l hl).2
  omega

/-- **next_terminates.**  `NextChunk` never spins and never panics, in any reachable state:
three rounds of its outer loop are enough (at most one `resolveSeekPosition` per call). -/
theorem next_terminates {f : File} {claimed : Int} {r : Reader} (hr : Reachable f claimed r)
    (he : r.err = none) : r.next.2 ≠ .spin ∧ r.next.2 ≠ .err .panic := by
  obtain ⟨inv, _⟩ := reachable_inv hr he
  have g := next_good r inv he
  exact ⟨g.no_spin, g.no_panic⟩

/-! ## `findChunkContaining` -/

/-- **findChunkContaining_correct.**  On a node that passed `valid`, for `DOff[0] ≤ d < DOffMax`,
the binary search does not panic and returns the largest `i < arity` with `DOff[i] ≤ d`;
element `i` contains `d`. -/
theorem findChunkContaining_correct (n : Node) (hv : n.valid = true) (d dBias : Nat)
    (hlo : dBias ≤ d) (hhi : d < dBias + n.dPtrMax) :
    ∃ i, n.findChunkContaining d dBias = some i ∧ i < n.arity ∧
      dBias + n.dPtr i ≤ d ∧ d < dBias + n.dPtr (i + 1) ∧
      (∀ j, j < n.arity → dBias + n.dPtr j ≤ d → j ≤ i) :=
  n.find_spec (n.facts_of_valid hv) d dBias hlo hhi

/-! ## chunks -/

/-- **chunk_wellformed.**  Every chunk that `NextChunk` returns without error, in any reachable
state of any file: the primary compressed range is well-formed and inside the claimed file
size (`0 ≤ lo` holds by typing: offsets are naturals), the decompressed range is non-empty,
inside the decompressed size, and contains the position being resolved. -/
theorem chunk_wellformed {f : File} {claimed : Int} {r : Reader} (hr : Reachable f claimed r)
    (c : Chunk) (hc : r.next.2 = .chunk c) :
    c.cpLo ≤ c.cpHi ∧ (c.cpHi : Int) ≤ claimed ∧ c.dLo < c.dHi ∧ c.dHi ≤ r.dsize ∧
    c.dLo ≤ r.seekPos ∧ r.seekPos < c.dHi ∧ r.next.1.seekPos = c.dHi := by
  cases he : r.err with
  | some e => rw [(sticky_errors r e he).1] at hc; cases hc
  | none =>
    obtain ⟨inv, sf⟩ := reachable_inv hr he
    obtain ⟨_, _, _, _, hg, h1, h2, h3, _⟩ := (next_good r inv he).chunk c hc
    have hcs : r.csize = claimed.toNat := by
      have := sf.2.1
      rw [this]
      unfold openReader
      split
      · -- a failed open has a sticky error, contradiction with `he`
        exfalso
        have h0 : (openReader f claimed).err = some .badCSize := by
          unfold openReader; simp only [*, ↓reduceIte]; rfl
        have := inv.csize_ge
        rw [sf.2.1] at this
        unfold openReader at this
        simp only [*, ↓reduceIte, Reader.failed] at this
        omega
      · simp only
        split
        · exfalso
          have := inv.csize_ge
          rw [sf.2.1] at this
          unfold openReader at this
          simp only [*, ↓reduceIte, Reader.failed] at this
          omega
        · split
          · exfalso
            have := inv.csize_ge
            rw [sf.2.1] at this
            unfold openReader at this
            simp only [*, ↓reduceIte, Reader.failed] at this
            omega
          · rfl
    refine ⟨hg.1, ?_, hg.2.2.1, hg.2.2.2, h1, h2, h3⟩
    have := hg.2.1
    have h32 := inv.csize_ge
    omega

/-- The first chunk of a fresh reader starts at DSpace offset 0. -/
theorem first_chunk_at_zero (f : File) (claimed : Int) (c : Chunk)
    (hc : (openReader f claimed).next.2 = .chunk c) : c.dLo = 0 := by
  have := (chunk_wellformed (Reachable.opened (f := f) (claimed := claimed)) c hc).2.2.2.2.1
  have h0 : (openReader f claimed).seekPos = 0 := by
    unfold openReader
    split
    · rfl
    simp only
    split
    · rfl
    split <;> rfl
  omega

/-- **walk_ascending_no_gap** (the part of "ascending, contiguous" proved so far; see
`walk_contiguous` below for the rest): of two successive chunks, the second
starts at or before the end of the first and ends strictly after it. -/
theorem walk_ascending_no_gap {f : File} {claimed : Int} {r : Reader} (hr : Reachable f claimed r)
    (c1 c2 : Chunk) (h1 : r.next.2 = .chunk c1) (h2 : r.next.1.next.2 = .chunk c2) :
    c2.dLo ≤ c1.dHi ∧ c1.dHi < c2.dHi := by
  have w1 := chunk_wellformed hr c1 h1
  have w2 := chunk_wellformed (Reachable.next hr) c2 h2
  omega

theorem reachable_landed {f : File} {claimed : Int} {r : Reader} (hr : Reachable f claimed r) :
    LandedInv r := by
  induction hr with
  | opened =>
    intro he hn
    exfalso
    by_cases hc : claimed < 32
    · simp [openReader, hc, Reader.failed_err] at he
    cases hfr : findRootNode f claimed.toNat with
    | error e => simp [openReader, hc, hfr, Reader.failed_err] at he
    | ok p =>
      obtain ⟨off, n⟩ := p
      by_cases hver : (n.version != 1) = true
      · simp [openReader, hc, hfr, hver, Reader.failed_err] at he
      · simp [openReader, hc, hfr, hver] at hn
  | @next r0 hr0 ih =>
    cases he0 : r0.err with
    | some e => rw [(sticky_errors r0 e he0).1]; exact ih
    | none => exact next_landed r0 (reachable_inv hr0 he0).1 he0 ih
  | @seek r0 d _ ih => exact seek_landed r0 d ih

/-- **walk_contiguous.**  Successive chunks of a walk are contiguous in DSpace: the next chunk
starts exactly where the previous one ended — whether `NextChunk` continues inside the
current node, walks down into a sibling branch node, or re-resolves from the root after
exhausting the node.  (The proof uses path determinism: the descent for any position of a
leaf element ends on that element, `resolveAt_same`.) -/
theorem walk_contiguous {f : File} {claimed : Int} {r : Reader} (hr : Reachable f claimed r)
    (c1 c2 : Chunk) (h1 : r.next.2 = .chunk c1) (h2 : r.next.1.next.2 = .chunk c2) :
    c2.dLo = c1.dHi := by
  cases he : r.err with
  | some e => rw [(sticky_errors r e he).1] at h1; cases h1
  | none =>
    obtain ⟨inv, _⟩ := reachable_inv hr he
    obtain ⟨inv1, he1, _, hn1, hg1, _, _, hsp1, ⟨i1, hel1, _⟩⟩ := (next_good r inv he).chunk c1 h1
    have hland := reachable_landed (Reachable.next hr) he1 hn1
    rcases next_chunk_cases r.next.1 inv1 he1 c2 h2 with ⟨_, hlo, _⟩ | ⟨l2, a1, a2, a3, a4, _⟩
    · rw [hlo, hsp1]
    · -- re-resolved at b = c1.dHi; suppose the landing element starts before b
      obtain ⟨p0, l1, hp0, hl1, e1, e2, e3⟩ := hland
      obtain ⟨linv2, li2, lleaf2, llo2, lhi2⟩ := a3
      have hninv1 := (inv1.cur hn1).1
      have hg := isElem_good hninv1 hel1
      obtain ⟨hi1, hne1, hleaf1, hc1⟩ := hel1
      have hc2lo : c2.dLo = l2.dBias + l2.node.dPtr l2.nextChunk := by rw [a4]; rfl
      rw [hc2lo, ← hsp1]
      rcases Nat.lt_or_ge (l2.dBias + l2.node.dPtr l2.nextChunk) r.next.1.seekPos with hlt | hge
      · exfalso
        -- x = b - 1 lies in both leaf elements, so both descents end at the same place
        have hb : r.next.1.seekPos = c1.dHi := hsp1
        have s2 := resolveAt_same r.next.1 inv1 r.next.1.seekPos (r.next.1.seekPos - 1) a2 l2 a1
          l2.nextChunk li2 lleaf2 (by omega) (by omega)
        have s1 := resolveAt_same r.next.1 inv1 p0 (r.next.1.seekPos - 1) hp0 l1 hl1
          i1 (by rw [e1]; exact hi1) (by rw [e1]; exact hleaf1)
          (by rw [e1, e3]; have := hg.2.1; have := hg.1.2.2.1; omega)
          (by rw [e1, e3]; have := hg.2.2; omega)
        rw [s2] at s1
        have heq : l2 = { l1 with nextChunk := i1 } := by
          have h3 : ({ l2 with nextChunk := l2.nextChunk } : Landing) = l2 := rfl
          rw [h3] at s1
          exact Outcome.ok.inj s1
        have hnode : l2.node = r.next.1.node := by rw [heq]; exact e1
        have hdb : l2.dBias = r.next.1.dBias := by rw [heq]; exact e3
        have hnc : l2.nextChunk = i1 := by rw [heq]
        rw [hnode, hdb, hnc] at lhi2
        have := hg.2.2
        omega
      · omega

/-- **walk_ends_at_dsize.**  If a chunk is followed by `io.EOF`, the chunk ends exactly at the
decompressed size reported by `DecompressedSize`. -/
theorem walk_ends_at_dsize {f : File} {claimed : Int} {r : Reader} (hr : Reachable f claimed r)
    (c : Chunk) (h1 : r.next.2 = .chunk c) (h2 : r.next.1.next.2 = .eof) : c.dHi = r.dsize := by
  cases he : r.err with
  | some e => rw [(sticky_errors r e he).1] at h1; cases h1
  | none =>
    obtain ⟨inv, _⟩ := reachable_inv hr he
    obtain ⟨inv1, he1, sf1, _, hg, _, _, h3, _⟩ := (next_good r inv he).chunk c h1
    obtain ⟨_, _, _, h4, h5, _⟩ := (next_good r.next.1 inv1 he1).eof h2
    have := hg.2.2.2
    rw [sf1.2.2.1] at h4
    omega

/-- `io.EOF` is only returned at or beyond the decompressed size, and is repeatable. -/
theorem eof_only_at_end {f : File} {claimed : Int} {r : Reader} (hr : Reachable f claimed r)
    (he : r.err = none) (h : r.next.2 = .eof) : r.dsize ≤ r.seekPos ∧ r.next.1.err = none := by
  obtain ⟨inv, _⟩ := reachable_inv hr he
  obtain ⟨_, h2, _, h4, h5, _⟩ := (next_good r inv he).eof h
  exact ⟨by omega, h2⟩

/-! ## no panic, determinism -/

/-- **no_panic.**  No reachable state carries the model's "Go run-time panic" error, so no
method call ever returns it: `findChunkContaining`'s `panic("could not find containing
chunk")` is unreachable, for every file. -/
theorem no_panic {f : File} {claimed : Int} {r : Reader} (hr : Reachable f claimed r) :
    r.err ≠ some .panic ∧ r.next.2 ≠ .err .panic := by
  have herr : ∀ {r : Reader}, Reachable f claimed r → r.err ≠ some .panic := by
    intro r hr
    induction hr with
    | opened => exact openReader_err_ne_panic f claimed
    | @next r0 hr0 ih =>
      cases he0 : r0.err with
      | some e => rw [(sticky_errors r0 e he0).1]; exact ih
      | none =>
        have g := next_good r0 (reachable_inv hr0 he0).1 he0
        intro hp
        cases hres : r0.next.2 with
        | chunk c => have := (g.chunk c hres).2.1; rw [this] at hp; cases hp
        | eof => have := (g.eof hres).2.1; rw [this] at hp; cases hp
        | err e =>
          have := g.err e hres
          rw [this] at hp
          cases hp
          exact g.no_panic hres
        | spin => exact g.no_spin hres
    | @seek r0 d _ ih =>
      unfold Reader.seek
      cases he0 : r0.err with
      | some e => simp only; exact ih
      | none =>
        simp only
        by_cases hd : d < 0
        · simp only [hd, ↓reduceIte]; intro h; cases h
        · simp only [hd, ↓reduceIte]; intro h; cases h
  refine ⟨herr hr, ?_⟩
  cases he : r.err with
  | some e =>
    rw [(sticky_errors r e he).1]
    simp only
    intro h
    cases h
    exact herr hr he
  | none => exact (next_terminates hr he).2

/-- **decode_deterministic** (chunk level): what `NextChunk` returns after
`SeekToChunkContaining(d)` depends only on the file, the claimed size and `d` — not on the
calls made before.  (That the model is a function of the bytes is trivially true in Lean;
this is the statement with content: no hidden state survives a seek.) -/
theorem seek_next_deterministic {f : File} {claimed : Int} {r1 r2 : Reader}
    (h1 : Reachable f claimed r1) (h2 : Reachable f claimed r2)
    (he1 : r1.err = none) (he2 : r2.err = none) (d : Int) :
    (r1.seek d).1.next.2 = (r2.seek d).1.next.2 := by
  obtain ⟨inv1, sf1⟩ := reachable_inv h1 he1
  obtain ⟨inv2, sf2⟩ := reachable_inv h2 he2
  by_cases hd : d < 0
  · have e1 : (r1.seek d).1.err = some .negSeek := by
      unfold Reader.seek; rw [he1]; simp only [hd, ↓reduceIte]
    have e2 : (r2.seek d).1.err = some .negSeek := by
      unfold Reader.seek; rw [he2]; simp only [hd, ↓reduceIte]
    rw [(sticky_errors _ _ e1).1, (sticky_errors _ _ e2).1]
  · rw [next_after_seek r1 inv1 he1 d hd, next_after_seek r2 inv2 he2 d hd]
    apply resolvedValue_congr
    · exact ⟨sf1.1.trans sf2.1.symm, sf1.2.1.trans sf2.2.1.symm, sf1.2.2.1.trans sf2.2.2.1.symm,
        sf1.2.2.2.1.trans sf2.2.2.2.1.symm, sf1.2.2.2.2.trans sf2.2.2.2.2.symm⟩
    · rfl

/-- **walk_equals_seek.**  The chunk that a walk returns is the chunk a seek to any of its
offsets returns: sequential and random access see the same chunk stream. -/
theorem walk_equals_seek {f : File} {claimed : Int} {r : Reader} (hr : Reachable f claimed r)
    (c : Chunk) (h : r.next.2 = .chunk c) (x : Nat) (hx1 : c.dLo ≤ x) (hx2 : x < c.dHi) :
    (r.next.1.seek (x : Int)).1.next.2 = .chunk c := by
  cases he : r.err with
  | some e => rw [(sticky_errors r e he).1] at h; cases h
  | none =>
    obtain ⟨inv, _⟩ := reachable_inv hr he
    obtain ⟨inv1, he1, _, hn1, hg1, _, _, _, ⟨i1, hel1, _⟩⟩ := (next_good r inv he).chunk c h
    obtain ⟨p0, l1, hp0, hl1, e1, e2, e3⟩ := reachable_landed (Reachable.next hr) he1 hn1
    have hninv1 := (inv1.cur hn1).1
    have hg := isElem_good hninv1 hel1
    obtain ⟨hi1, hne1, hleaf1, hc1⟩ := hel1
    have s1 := resolveAt_same r.next.1 inv1 p0 x hp0 l1 hl1 i1 (by rw [e1]; exact hi1)
      (by rw [e1]; exact hleaf1) (by rw [e1, e3]; have := hg.2.1; omega)
      (by rw [e1, e3]; have := hg.2.2; omega)
    have hx : ¬ ((x : Int) < 0) := by omega
    rw [next_after_seek r.next.1 inv1 he1 (x : Int) hx]
    simp only [Int.toNat_natCast]
    unfold resolvedValue
    have hlt : ¬ (x ≥ r.next.1.dsize) := by
      have := hg1.2.2.2
      have h3 : r.next.1.dsize = r.dsize := by
        have := (next_good r inv he).chunk c h
        exact this.2.2.1.2.2.1
      omega
    simp only [hlt, ↓reduceIte]
    have hr' : Reader.resolve { r.next.1 with needResolve := true, seekPos := x } = resolveAt r.next.1 x := rfl
    rw [hr', s1]
    simp only
    rw [hc1, e1, e2, e3]

/-! ## no out-of-range index, no stale bytes, no overflow -/

/-- **no_index_oob.**  (1) For a node of arity `a ≤ 255` (a byte), every byte index the
accessors compute for an element `i < a`, including the 8-byte windows that `u48LE`/`u64LE`
slice, is below `nodeSize a ≤ 4096`: no Go index panic.  (2) If byte 3 of the buffer is the
arity that was loaded (`size = nodeSize arity`, which `NodeInv.consistent` records for every
node the reader uses), then `valid`, `codec`, `findChunkContaining`, `chunk` and the
accessors used by the descent do not depend on the stale bytes of `currNode` beyond the
node: replacing them by anything (`withStale s`) changes nothing.  Without the repair
C15-stale-root-arity this fails (directed case `stale-root` of the harness). -/
theorem no_index_oob :
    (∀ a i, a ≤ 255 → i < a →
      nodeSize a ≤ 4096 ∧ 8 * i + 7 < nodeSize a ∧ 8 * (i + 1) + 7 < nodeSize a ∧
      8 * a + 8 + 8 * i + 7 < nodeSize a ∧ 16 * a + 8 + 7 < nodeSize a) ∧
    (∀ (n : Node) (s : Nat → Nat), n.size = nodeSize n.arity →
      (n.withStale s).valid = n.valid ∧ (n.withStale s).codec = n.codec ∧
      (n.withStale s).arity = n.arity ∧
      (n.withStale s).cPtrMax = n.cPtrMax ∧ (n.withStale s).dPtrMax = n.dPtrMax ∧
      (n.withStale s).version = n.version ∧ (n.withStale s).codecByte = n.codecByte ∧
      (∀ d dBias, (n.withStale s).findChunkContaining d dBias = n.findChunkContaining d dBias) ∧
      (∀ i cBias dBias, i < n.arity →
        (n.withStale s).chunk i cBias dBias = n.chunk i cBias dBias ∧
        (n.withStale s).isLeaf i = n.isLeaf i ∧ (n.withStale s).dSize i = n.dSize i ∧
        (n.withStale s).cPtr i = n.cPtr i ∧ (n.withStale s).sTag i = n.sTag i ∧
        (n.withStale s).dPtr i = n.dPtr i)) := by
  refine ⟨?_, ?_⟩
  · intro a i ha hi
    have := index_bounds a i ha hi
    exact ⟨this.1, this.2.1, this.2.2.1, this.2.2.2.1, this.2.2.2.2.1⟩
  · intro n s hc
    refine ⟨n.valid_ws s hc, n.codec_ws s hc, n.arity_ws s hc, n.cPtrMax_ws s hc, n.dPtrMax_ws s hc,
      n.version_ws s hc, n.codecByte_ws s hc, fun d dBias => n.find_ws s hc d dBias, ?_⟩
    intro i cBias dBias hi
    exact ⟨n.chunk_ws s hc i cBias dBias hi, n.isLeaf_ws s hc i hi, n.dSize_ws s hc i hi,
      n.cPtr_ws s hc i hi, n.sTag_ws s hc i hi, n.dPtr_ws s hc i (by omega)⟩

/-- **no_overflow.**  Sizes are below `2^48` and every range bound of a returned chunk is
below `2^49`, so the `int64` arithmetic of the Go code (sums of two such values, plus
`CLen * 1024 < 2^18`) never wraps: modelling `int64` by naturals loses nothing. -/
theorem no_overflow {f : File} {claimed : Int} {r : Reader} (hr : Reachable f claimed r)
    (c : Chunk) (hc : r.next.2 = .chunk c) :
    r.csize < 2 ^ 48 ∧ r.dsize < 2 ^ 48 ∧
    c.cpLo < 2 ^ 49 ∧ c.cpHi < 2 ^ 49 ∧ c.csLo < 2 ^ 49 ∧ c.csHi < 2 ^ 49 ∧
    c.ctLo < 2 ^ 49 ∧ c.ctHi < 2 ^ 49 ∧ c.dLo < 2 ^ 49 ∧ c.dHi < 2 ^ 49 := by
  cases he : r.err with
  | some e => rw [(sticky_errors r e he).1] at hc; cases hc
  | none =>
    obtain ⟨inv, sf⟩ := reachable_inv hr he
    have hcs : r.csize < 2 ^ 48 := by
      have he0 : (openReader f claimed).err = none := by
        cases h0 : (openReader f claimed).err with
        | none => rfl
        | some e0 =>
          -- a failed open stays failed: `r.err` could not be `none`
          exfalso
          have hall : ∀ {q : Reader}, Reachable f claimed q → q.err = some e0 := by
            intro q hq
            induction hq with
            | opened => exact h0
            | @next q0 _ ih => rw [(sticky_errors q0 e0 ih).1]; exact ih
            | @seek q0 d _ ih => rw [(sticky_errors q0 e0 ih).2.1 d]; exact ih
          rw [hall hr] at he; cases he
      have := openReader_csize_lt f claimed he0
      rw [sf.2.1]; exact this
    have hds : r.dsize < 2 ^ 48 := by
      obtain ⟨root, _, _, hd, _⟩ := inv.root
      rw [← hd]; exact root.dPtrMax_lt
    obtain ⟨inv1, _, sf1, hn1, hg, _, _, _, ⟨i, hel, _⟩⟩ := (next_good r inv he).chunk c hc
    have ninv := (inv1.cur hn1).1
    obtain ⟨_, _, _, hce⟩ := hel
    have hco := ninv.coff
    rw [sf1.2.1] at hco
    have h2 := r.next.1.node.cOffRange_lt (r.next.1.node.sTag i) r.next.1.cBias r.csize hco
    have h3 := r.next.1.node.cOffRange_lt (r.next.1.node.tTag i) r.next.1.cBias r.csize hco
    have e2 : c.csLo = (r.next.1.node.cOffRange (r.next.1.node.sTag i) r.next.1.cBias).1 := by rw [hce]; rfl
    have e3 : c.csHi = (r.next.1.node.cOffRange (r.next.1.node.sTag i) r.next.1.cBias).2 := by rw [hce]; rfl
    have e4 : c.ctLo = (r.next.1.node.cOffRange (r.next.1.node.tTag i) r.next.1.cBias).1 := by rw [hce]; rfl
    have e5 : c.ctHi = (r.next.1.node.cOffRange (r.next.1.node.tTag i) r.next.1.cBias).2 := by rw [hce]; rfl
    obtain ⟨g1, g2, g3, g4⟩ := hg
    refine ⟨hcs, hds, by omega, by omega, by omega, by omega, by omega, by omega, by omega, by omega⟩

/-! ## non-vacuity: a concrete two-level file (root at the end, one branch child) -/

/-- 4 magic bytes, a child node (two leaves: 4 and 6 bytes), the root (branch child, 5-byte leaf) -/
def exFile : File := File.ofList
  [114, 195, 99, 0, 114, 195, 99, 2, 95, 116, 0, 255, 4, 0, 0, 0, 0, 0, 0, 255, 10, 0, 0, 0, 0, 0, 0,
   0, 1, 0, 0, 0, 0, 0, 0, 255, 2, 0, 0, 0, 0, 0, 0, 255, 100, 0, 0, 0, 0, 0, 1, 2, 114, 195, 99, 2,
   126, 112, 0, 254, 10, 0, 0, 0, 0, 0, 0, 255, 15, 0, 0, 0, 0, 0, 0, 0, 4, 0, 0, 0, 0, 0, 0, 255, 3,
   0, 0, 0, 0, 0, 0, 255, 100, 0, 0, 0, 0, 0, 1, 2]

/-- the 32-byte file whose root lists itself as its only (branch) child -/
def selfLoopFile : File := File.ofList
  [114, 195, 99, 1, 89, 35, 0, 254, 7, 0, 0, 0, 0, 0, 0, 0, 0, 0, 0, 0, 0, 0, 0, 255, 32, 0, 0, 0,
   0, 0, 1, 1]

example : (openReader exFile 100).err = none ∧ (openReader exFile 100).dsize = 15 := by
  decide +kernel

/-- the root node of `exFile` (at offset 52): hypotheses of `findChunkContaining_correct` and of
`no_index_oob` (2) hold for it -/
def exRoot : Node := { file := exFile, off := 52, size := 48 }
example : exRoot.valid = true ∧ exRoot.size = nodeSize exRoot.arity ∧ exRoot.dPtrMax = 15 ∧
    exRoot.findChunkContaining 12 0 = some 1 ∧ exRoot.findChunkContaining 3 0 = some 0 := by
  decide +kernel
/-- a walk: the hypotheses of `walk_contiguous`, `walk_ends_at_dsize`, `walk_equals_seek` hold -/
example : Reachable exFile 100 (openReader exFile 100).next.1 := .next .opened
example : (openReader exFile 100).next.2 =
    .chunk ⟨0, 4, 1, 100, 100, 100, 100, 100, 255, 255, 0⟩ := by decide +kernel
example : (openReader exFile 100).next.1.next.2 =
    .chunk ⟨4, 10, 2, 100, 100, 100, 100, 100, 255, 255, 0⟩ := by decide +kernel
example : (openReader exFile 100).next.1.next.1.next.2 =
    .chunk ⟨10, 15, 3, 100, 100, 100, 100, 100, 255, 255, 0⟩ := by decide +kernel
example : (openReader exFile 100).next.1.next.1.next.1.next.2 = .eof := by decide +kernel
example : ((openReader exFile 100).seek 7).1.next.2 =
    .chunk ⟨4, 10, 2, 100, 100, 100, 100, 100, 255, 255, 0⟩ := by decide +kernel
/-- the self-referential root opens fine and is then rejected by the anti-loop rule -/
example : (openReader selfLoopFile 32).err = none ∧ (openReader selfLoopFile 32).dsize = 7 ∧
    (openReader selfLoopFile 32).next.2 = .err .badNode := by decide +kernel

end WuffsVerif.Props.C15
