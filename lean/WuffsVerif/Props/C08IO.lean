/-
C08 — the I/O buffer contract, over `Model/IOBuf.lean` (which mirrors internal/cgen/var.go,
the `io_limit` code of statement.go and the index movement of the built-in reader/writer methods).

A call is `load`, then ANY instruction list (a body, or a prefix of a body: leaving through `return`,
`yield` or an error skips the rest, including the restore code of enclosing `io_limit` blocks), then
`finalSave`. The theorems hold for every instruction list, hence on every exit path.
-/
import WuffsVerif.Model.IOBuf

namespace WuffsVerif.Props.C08IO
open WuffsVerif.IOBuf

/-! ### memory lemmas -/

theorem storeAt_length (mem : List UInt8) (p : Nat) (bs : List UInt8) :
    (storeAt mem p bs).length = mem.length := by
  induction bs generalizing mem p with
  | nil => rfl
  | cons x xs ih => simp [storeAt, ih]

theorem storeAt_get_lt (mem : List UInt8) (p : Nat) (bs : List UInt8) (i : Nat) (h : i < p) :
    (storeAt mem p bs)[i]? = mem[i]? := by
  induction bs generalizing mem p with
  | nil => rfl
  | cons x xs ih =>
    simp only [storeAt]
    rw [ih _ _ (by omega)]
    exact List.getElem?_set_ne (by omega)

theorem copyLoop_length (mem : List UInt8) (p q n : Nat) :
    (copyLoop mem p q n).length = mem.length := by
  induction n generalizing mem p q with
  | zero => rfl
  | succ k ih => simp [copyLoop, ih]

theorem copyLoop_get_lt (mem : List UInt8) (p q n i : Nat) (h : i < p) :
    (copyLoop mem p q n)[i]? = mem[i]? := by
  induction n generalizing mem p q with
  | zero => rfl
  | succ k ih =>
    simp only [copyLoop]
    rw [ih _ _ _ (by omega)]
    exact List.getElem?_set_ne (by omega)

/-! ### the saved `io2` values are ordered -/

/-- `x ≤ s₁ ≤ s₂ ≤ … ≤ bound` for the saved `io2` values `sᵢ` of the open blocks, innermost first. -/
def Chain (x : Nat) : List (Nat × Bool) → Nat → Prop
  | [], bound => x ≤ bound
  | (s, _) :: r, bound => x ≤ s ∧ Chain s r bound

theorem Chain.le {x : Nat} {l : List (Nat × Bool)} {bound : Nat} (h : Chain x l bound) :
    x ≤ bound := by
  induction l generalizing x with
  | nil => exact h
  | cons a r ih =>
    obtain ⟨s, c⟩ := a
    exact Nat.le_trans h.1 (ih h.2)

theorem Chain.mono {x y : Nat} {l : List (Nat × Bool)} {bound : Nat} (h : Chain x l bound)
    (hy : y ≤ x) : Chain y l bound := by
  cases l with
  | nil => exact Nat.le_trans hy h
  | cons a r =>
    obtain ⟨s, c⟩ := a
    exact ⟨Nat.le_trans hy h.1, h.2⟩

/-! ### reader -/

/-- What holds at every point of a function body for a reader argument `b0`. -/
structure RInv (b0 : Buf) (s : St) : Prop where
  w : s.w = false
  mem : s.b.mem = b0.mem
  len : s.b.len = b0.len
  /-- without `data.ptr` nothing moves (with it, `meta.ri` is rewritten from `iop` on every exit and
  around every call that passes the argument on, so its value in between does not matter) -/
  ri : s.b.hasPtr = false → s.b.ri = b0.ri
  hp : s.b.hasPtr = b0.hasPtr
  io1 : s.io1 = b0.ri
  lo : s.io1 ≤ s.iop
  hi : s.iop ≤ s.io2
  wi : s.b.wi = s.io2
  chain : Chain s.io2 s.stack b0.wi

theorem load_RInv (b0 : Buf) (hv : b0.valid) : RInv b0 (load false b0) := by
  obtain ⟨h1, h2, h3, h4⟩ := hv
  unfold load
  cases hp : b0.hasPtr
  · have := h4 hp
    have hw : b0.wi = 0 := by omega
    have hr : b0.ri = 0 := by omega
    constructor <;> simp [Chain, hw, hr]
  · constructor <;> simp [Chain, h1]

/-- The shortened `io2` of an `io_limit` block lies between `iop` and the old `io2`. -/
theorem limit_bounds (iop io2 lim : Nat) (h : iop ≤ io2) :
    iop ≤ (if io2 - iop > lim then iop + lim else io2) ∧
    (if io2 - iop > lim then iop + lim else io2) ≤ io2 := by
  split <;> omega

theorem exec_RInv (b0 : Buf) (s : St) (i : Instr) (h : RInv b0 s) : RInv b0 (exec s i) := by
  obtain ⟨hw, hmem, hlen, hri, hhp, hio1, hlo, hhi, hwi, hch⟩ := h
  cases i with
  | rd n =>
    simp only [exec, hw, Bool.not_false, Bool.true_and]
    split
    · rename_i hn
      have hn : n ≤ s.io2 - s.iop := by simpa using hn
      constructor <;> dsimp only <;> first | assumption | omega
    · constructor <;> assumption
  | skip n =>
    simp only [exec, hw, Bool.not_false, ↓reduceIte]
    constructor <;> dsimp only <;> first | assumption | omega
  | undo =>
    simp only [exec]
    split
    · constructor <;> dsimp only <;> first | assumption | omega
    · constructor <;> assumption
  | wr bs => simp only [exec, hw, Bool.false_and, Bool.false_eq_true, ↓reduceIte]; constructor <;> assumption
  | wrPartial bs => simp only [exec, hw, Bool.false_eq_true, ↓reduceIte]; constructor <;> assumption
  | copyHist n d => simp only [exec, hw, Bool.false_and, Bool.false_eq_true, ↓reduceIte]; constructor <;> assumption
  | limitBegin lim =>
    simp only [exec, hw, Bool.false_eq_true, ↓reduceIte]
    have hb := limit_bounds s.iop s.io2 lim hhi
    constructor <;> dsimp only <;> first | assumption | omega | exact hb.1 | exact ⟨hb.2, hch⟩
  | limitEnd =>
    simp only [exec]
    cases hst : s.stack with
    | nil => dsimp only; constructor <;> assumption
    | cons a r =>
      obtain ⟨sio2, sc⟩ := a
      rw [hst] at hch
      obtain ⟨hc1, hc2⟩ := hch
      simp only [hw, Bool.false_eq_true, ↓reduceIte]
      constructor <;> dsimp only <;> first | assumption | omega

theorem runI_RInv (b0 : Buf) (is : List Instr) (s : St) (h : RInv b0 s) : RInv b0 (runI s is) := by
  induction is generalizing s with
  | nil => exact h
  | cons i r ih => exact ih _ (exec_RInv b0 s i h)

/-- From the reader invariant to the caller-visible contract. -/
theorem reader_final (b0 : Buf) (hv : b0.valid) (s : St) (h : RInv b0 s) :
    (finalSave s).valid ∧ b0.ri ≤ (finalSave s).ri ∧ (finalSave s).mem = b0.mem ∧
    (finalSave s).len = b0.len ∧ (finalSave s).wi ≤ b0.wi := by
  obtain ⟨hw, hmem, hlen, hri, hhp, hio1, hlo, hhi, hwi, hch⟩ := h
  have hle := hch.le
  have hml : s.b.mem.length = b0.mem.length := by rw [hmem]
  obtain ⟨h1, h2, h3, h4⟩ := hv
  unfold finalSave
  cases hp : b0.hasPtr
  · have hr := hri (by rw [hhp, hp])
    simp only [hhp, hp, Bool.not_false, ↓reduceIte, Buf.valid]
    have := h4 hp
    refine ⟨⟨?_, ?_, ?_, fun _ => by omega⟩, ?_, hmem, hlen, ?_⟩ <;> omega
  · simp only [hhp, hp, Bool.not_true, Bool.false_eq_true, ↓reduceIte, hw, Buf.valid]
    refine ⟨⟨?_, ?_, ?_, ?_⟩, ?_, hmem, hlen, ?_⟩ <;> first | omega | simp

/-- **iobuf_inv, source side.** For a valid source buffer and every body (and every exit point of
it) built from the modelled reader operations and `io_limit` blocks: afterwards `ri ≤ wi ≤ len`, the
read index did not move backwards, no byte changed, `len` did not change and `wi` did not grow (it
would be lower than before only if the function were left from inside an `io_limit` block, skipping
the restore — which lang/check rejects since fixes/C08-check-io-block-escapes.patch; for the exit
points of accepted programs, between blocks, `balanced_same` gives `wi` unchanged). -/
theorem iobuf_inv_reader (b0 : Buf) (hv : b0.valid) (is : List Instr) :
    (callIO false b0 is).valid ∧ b0.ri ≤ (callIO false b0 is).ri ∧
    (callIO false b0 is).mem = b0.mem ∧ (callIO false b0 is).len = b0.len ∧
    (callIO false b0 is).wi ≤ b0.wi := by
  have h := runI_RInv b0 is _ (load_RInv b0 hv)
  exact reader_final b0 hv _ h

/-! ### writer -/

/-- What holds at every point of a function body for a writer argument `b0`. -/
structure WInv (b0 : Buf) (s : St) : Prop where
  w : s.w = true
  memlen : s.b.mem.length = b0.mem.length
  below : ∀ i, i < b0.wi → s.b.mem[i]? = b0.mem[i]?
  ri : s.b.ri = b0.ri
  /-- as for the reader's `ri` -/
  wi : s.b.hasPtr = false → s.b.wi = b0.wi
  hp : s.b.hasPtr = b0.hasPtr
  closed : s.b.closed = b0.closed
  /-- an open writer's `data.len` is what `io2` points at (an `io_limit` block shortens both) -/
  sync : b0.closed = false → s.b.len = s.io2
  io1 : s.io1 = b0.wi
  lo : s.io1 ≤ s.iop
  hi : s.iop ≤ s.io2
  cap : s.io2 ≤ s.b.len
  lenle : s.b.len ≤ b0.len
  chain : Chain s.io2 s.stack b0.len

theorem load_WInv (b0 : Buf) (hv : b0.valid) : WInv b0 (load true b0) := by
  obtain ⟨h1, h2, h3, h4⟩ := hv
  unfold load
  cases hp : b0.hasPtr
  · have := h4 hp
    have hw : b0.wi = 0 := by omega
    constructor <;> simp [Chain, hw, this]
  · cases hc : b0.closed <;> constructor <;> simp [Chain, h2, hc]

theorem exec_WInv (b0 : Buf) (s : St) (i : Instr) (h : WInv b0 s) : WInv b0 (exec s i) := by
  obtain ⟨hw, hml, hbelow, hri, hwi, hhp, hcl, hsync, hio1, hlo, hhi, hcap, hlenle, hch⟩ := h
  cases i with
  | rd n => simp only [exec, hw, Bool.not_true, Bool.false_and, Bool.false_eq_true, ↓reduceIte]; constructor <;> assumption
  | skip n => simp only [exec, hw, Bool.not_true, Bool.false_eq_true, ↓reduceIte]; constructor <;> assumption
  | undo =>
    simp only [exec]
    split
    · constructor <;> dsimp only <;> first | assumption | omega
    · constructor <;> assumption
  | wr bs =>
    simp only [exec, hw, Bool.true_and]
    split
    · rename_i hn
      have hn : bs.length ≤ s.io2 - s.iop := by simpa using hn
      constructor <;> dsimp only <;> first | assumption | omega | skip
      · rw [storeAt_length]; exact hml
      · intro i hi'
        rw [storeAt_get_lt _ _ _ _ (by omega)]
        exact hbelow i hi'
    · constructor <;> assumption
  | wrPartial bs =>
    simp only [exec, hw, ↓reduceIte]
    constructor <;> dsimp only <;> first | assumption | omega | skip
    · rw [storeAt_length]; exact hml
    · intro i hi'
      rw [storeAt_get_lt _ _ _ _ (by omega)]
      exact hbelow i hi'
  | copyHist n d =>
    simp only [exec, hw, Bool.true_and]
    split
    · constructor <;> dsimp only <;> first | assumption | omega | skip
      · rw [copyLoop_length]; exact hml
      · intro i hi'
        rw [copyLoop_get_lt _ _ _ _ _ (by omega)]
        exact hbelow i hi'
    · constructor <;> assumption
  | limitBegin lim =>
    simp only [exec, hw, ↓reduceIte]
    have hb := limit_bounds s.iop s.io2 lim hhi
    constructor <;> dsimp only <;>
      first | assumption | omega | exact hb.1 | exact ⟨hb.2, hch⟩ | (intro _; rfl)
  | limitEnd =>
    simp only [exec]
    cases hst : s.stack with
    | nil => dsimp only; constructor <;> assumption
    | cons a r =>
      obtain ⟨sio2, sc⟩ := a
      rw [hst] at hch
      obtain ⟨hc1, hc2⟩ := hch
      have := hc2.le
      simp only [hw, ↓reduceIte]
      constructor <;> dsimp only <;> first | assumption | omega | (intro _; rfl)

theorem runI_WInv (b0 : Buf) (is : List Instr) (s : St) (h : WInv b0 s) : WInv b0 (runI s is) := by
  induction is generalizing s with
  | nil => exact h
  | cons i r ih => exact ih _ (exec_WInv b0 s i h)

/-- From the writer invariant to the caller-visible contract. -/
theorem writer_final (b0 : Buf) (hv : b0.valid) (s : St) (h : WInv b0 s) :
    (finalSave s).valid ∧ b0.wi ≤ (finalSave s).wi ∧ (finalSave s).ri = b0.ri ∧
    (∀ i, i < b0.wi → (finalSave s).mem[i]? = b0.mem[i]?) ∧ (finalSave s).len ≤ b0.len := by
  obtain ⟨hw, hml, hbelow, hri, hwi, hhp, hcl, hsync, hio1, hlo, hhi, hcap, hlenle, hch⟩ := h
  obtain ⟨h1, h2, h3, h4⟩ := hv
  unfold finalSave
  cases hp : b0.hasPtr
  · have hwi' := hwi (by rw [hhp, hp])
    simp only [hhp, hp, Bool.not_false, ↓reduceIte, Buf.valid, hri, hwi', hml]
    have := h4 hp
    refine ⟨⟨h1, ?_, ?_, fun _ => by omega⟩, Nat.le_refl _, trivial, hbelow, hlenle⟩ <;> omega
  · simp only [hhp, hp, Bool.not_true, Bool.false_eq_true, ↓reduceIte, hw, Buf.valid, hri, hml]
    refine ⟨⟨?_, ?_, ?_, ?_⟩, ?_, trivial, hbelow, hlenle⟩ <;> first | omega | simp

/-- **iobuf_inv, destination side.** For a valid destination buffer (open or closed) and every body
(and every exit point of it) built from the modelled writer operations and `io_limit` blocks:
afterwards `ri ≤ wi ≤ len`, the write index did not move backwards, `ri` is untouched, every byte
below the old write index is unchanged, and `len` did not grow. -/
theorem iobuf_inv_writer (b0 : Buf) (hv : b0.valid) (is : List Instr) :
    (callIO true b0 is).valid ∧ b0.wi ≤ (callIO true b0 is).wi ∧
    (callIO true b0 is).ri = b0.ri ∧
    (∀ i, i < b0.wi → (callIO true b0 is).mem[i]? = b0.mem[i]?) ∧
    (callIO true b0 is).len ≤ b0.len :=
  writer_final b0 hv _ (runI_WInv b0 is _ (load_WInv b0 hv))

/-! ### `io_limit` restores `io2`, `closed` and the shortened index -/

theorem runI_append (s : St) (a b : List Instr) : runI s (a ++ b) = runI (runI s a) b := by
  simp [runI, List.foldl_append]

/-- The buffer field an `io_limit` block shortens agrees with `io2` (reader: `meta.wi`, writer:
`data.len`). True after `load` except for a closed writer, whose `io2` is its `wi`. -/
def Sync (s : St) : Prop := if s.w then s.b.len = s.io2 else s.b.wi = s.io2

/-- What complete blocks and plain operations leave alone. -/
structure Same (s s' : St) : Prop where
  w : s'.w = s.w
  io0 : s'.io0 = s.io0
  io1 : s'.io1 = s.io1
  io2 : s'.io2 = s.io2
  closed : s'.b.closed = s.b.closed
  wi : s'.b.wi = s.b.wi
  len : s'.b.len = s.b.len
  stack : s'.stack = s.stack

theorem Same.refl (s : St) : Same s s := by constructor <;> rfl

theorem Same.trans {a b c : St} (h1 : Same a b) (h2 : Same b c) : Same a c := by
  obtain ⟨a1, a2, a3, a4, a5, a6, a7, a8⟩ := h1
  obtain ⟨b1, b2, b3, b4, b5, b6, b7, b8⟩ := h2
  constructor <;> simp_all

theorem Same.sync {a b : St} (h : Same a b) (hs : Sync a) : Sync b := by
  obtain ⟨a1, a2, a3, a4, a5, a6, a7, a8⟩ := h
  unfold Sync at *
  simp_all

theorem exec_simple_same (s : St) (i : Instr) (h1 : ∀ l, i ≠ .limitBegin l) (h2 : i ≠ .limitEnd) :
    Same s (exec s i) := by
  cases i with
  | rd n => simp only [exec]; split <;> constructor <;> rfl
  | skip n => simp only [exec]; split <;> constructor <;> rfl
  | undo => simp only [exec]; split <;> constructor <;> rfl
  | wr bs => simp only [exec]; split <;> constructor <;> rfl
  | wrPartial bs => simp only [exec]; split <;> constructor <;> rfl
  | copyHist n d => simp only [exec]; split <;> constructor <;> rfl
  | limitBegin l => exact absurd rfl (h1 l)
  | limitEnd => exact absurd rfl h2

/-- **io_limit restores.** Running complete `io_limit` blocks (nested or in sequence, with any
operations in between) leaves `io2`, `closed`, the reader's `wi` / the writer's `len` and the stack of
saved values exactly as they were. -/
theorem balanced_same (is : List Instr) (hb : Balanced is) (s : St) (hs : Sync s) :
    Same s (runI s is) := by
  induction hb generalizing s with
  | nil => exact Same.refl s
  | simple i rest h1 h2 _ ih =>
    have h := exec_simple_same s i h1 h2
    exact h.trans (ih _ (h.sync hs))
  | block lim body rest _ _ ihb ihr =>
    -- s1: after the block entry; s2: after the body; s3: after the block exit
    have e : runI s (Instr.limitBegin lim :: (body ++ Instr.limitEnd :: rest)) =
        runI (exec (runI (exec s (.limitBegin lim)) body) .limitEnd) rest := by
      simp [runI, List.foldl_append]
    rw [e]
    have hs1 : Sync (exec s (.limitBegin lim)) := by
      unfold Sync; simp only [exec]; cases s.w <;> simp
    have h12 := ihb _ hs1
    have h03 : Same s (exec (runI (exec s (.limitBegin lim)) body) .limitEnd) := by
      obtain ⟨c1, c2, c3, c4, c5, c6, c7, c8⟩ := h12
      have hst : (runI (exec s (.limitBegin lim)) body).stack = (s.io2, s.b.closed) :: s.stack := by
        rw [c8]; simp [exec]
      have hw1 : (runI (exec s (.limitBegin lim)) body).w = s.w := by rw [c1]; simp [exec]
      unfold Sync at hs
      simp only [exec]
      cases hw : s.w
      · simp only [hw, Bool.false_eq_true, ↓reduceIte] at hs ⊢
        constructor <;> simp_all [exec]
      · simp only [hw, ↓reduceIte] at hs ⊢
        constructor <;> simp_all [exec]
    exact h03.trans (ihr _ (h03.sync hs))

/-- Corollary for whole calls: a body whose `io_limit` blocks are all complete returns the source
buffer with `wi` and `closed` as they were (and, by `iobuf_inv_reader`, `len` and all bytes). -/
theorem balanced_reader_call (b0 : Buf) (hv : b0.valid) (is : List Instr) (hb : Balanced is) :
    (callIO false b0 is).wi = b0.wi ∧ (callIO false b0 is).closed = b0.closed := by
  obtain ⟨h1, h2, h3, h4⟩ := hv
  have hs : Sync (load false b0) := by
    unfold Sync load
    cases hp : b0.hasPtr
    · have := h4 hp
      simp; omega
    · simp
  obtain ⟨c1, c2, c3, c4, c5, c6, c7, c8⟩ := balanced_same is hb _ hs
  have hw : (runI (load false b0) is).w = false := by rw [c1]; unfold load; cases b0.hasPtr <;> simp
  have hwi : (load false b0).b.wi = b0.wi := by unfold load; cases b0.hasPtr <;> simp
  have hcl : (load false b0).b.closed = b0.closed := by unfold load; cases b0.hasPtr <;> simp
  unfold callIO finalSave
  split
  · exact ⟨by rw [c6, hwi], by rw [c5, hcl]⟩
  · simp only [hw, Bool.false_eq_true, ↓reduceIte]
    exact ⟨by rw [c6, hwi], by rw [c5, hcl]⟩

/-- The same for an open (not closed) destination buffer: `len` and `closed` come back. -/
theorem balanced_writer_call (b0 : Buf) (hv : b0.valid) (hc : b0.closed = false) (is : List Instr)
    (hb : Balanced is) :
    (callIO true b0 is).len = b0.len ∧ (callIO true b0 is).closed = b0.closed := by
  obtain ⟨h1, h2, h3, h4⟩ := hv
  have hs : Sync (load true b0) := by
    unfold Sync load
    cases hp : b0.hasPtr
    · have := h4 hp
      simp; omega
    · simp [hc]
  obtain ⟨c1, c2, c3, c4, c5, c6, c7, c8⟩ := balanced_same is hb _ hs
  have hw : (runI (load true b0) is).w = true := by rw [c1]; unfold load; cases b0.hasPtr <;> simp
  have hlen : (load true b0).b.len = b0.len := by unfold load; cases b0.hasPtr <;> simp
  have hcl : (load true b0).b.closed = b0.closed := by unfold load; cases b0.hasPtr <;> simp
  unfold callIO finalSave
  split
  · exact ⟨by rw [c7, hlen], by rw [c5, hcl]⟩
  · dsimp only
    exact ⟨by rw [c7, hlen], by rw [c5, hcl]⟩

/-! ### `io_forget_history` and `io_bind` restore what they saved -/

/-- After a complete `io_forget_history` block the buffer struct is the saved one except that the
bytes written inside stay and `meta.wi` is brought up to date with `iop`; `io0`, `io1` come back. -/
theorem forget_restores (s : St) (inner : St → St) :
    let r := forgetEnd (forgetBegin s).1 (inner (forgetBegin s).2)
    r.io0 = s.io0 ∧ r.io1 = s.io1 ∧ r.b.len = s.b.len ∧ r.b.ri = s.b.ri ∧ r.b.pos = s.b.pos ∧
    r.b.closed = s.b.closed ∧ r.b.wi = (inner (forgetBegin s).2).iop := by
  simp [forgetEnd, forgetBegin]

/-- Inside the block nothing before `iop` counts as history: `io0 = io1 = iop`, so
`limited_copy_u32_from_history` cannot reach, and `undo_byte` cannot go, below the block's start. -/
theorem forget_hides_history (s : St) :
    (forgetBegin s).2.io0 = s.iop ∧ (forgetBegin s).2.io1 = s.iop ∧ (forgetBegin s).2.iop = s.iop := by
  simp [forgetBegin]

/-- `io_bind`: whatever the block does to the bound variable, the saved state comes back. -/
theorem bind_restores (saved inner : St) : bindEnd saved inner = saved := rfl

/-! ### non-vacuity, and what the checker's rule on io blocks prevents -/

/-- A source buffer of 5 bytes, `ri = 1`, `wi = 4`. -/
def srcDemo : Buf :=
  { mem := [1, 2, 3, 4, 5], len := 5, ri := 1, wi := 4, pos := 0, closed := true, hasPtr := true }

example : srcDemo.valid := by decide

/-- complete block: everything restored, two bytes consumed -/
example : callIO false srcDemo [.rd 1, .limitBegin 1, .rd 1, .rd 1, .limitEnd, .undo, .rd 1] =
    { srcDemo with ri := 3 } := by decide

example : Balanced [.rd 1, .limitBegin 1, .rd 1, .rd 1, .limitEnd, .undo, .rd 1] :=
  .simple _ _ (by intro l; simp) (by simp)
    (.block 1 [.rd 1, .rd 1] [.undo, .rd 1]
      (.simple _ _ (by intro l; simp) (by simp) (.simple _ _ (by intro l; simp) (by simp) .nil))
      (.simple _ _ (by intro l; simp) (by simp) (.simple _ _ (by intro l; simp) (by simp) .nil)))

/-- Leaving the function inside an `io_limit` block would skip the restore: the caller's source
buffer would keep the shortened `wi` and the cleared `closed` (the contract of `iobuf_inv_reader` still
holds). lang/check accepted such programs until fixes/C08-check-io-block-escapes.patch (its TODO
"prohibit jumps, rets … while inside an io_bind body"); it now rejects them, so no generated function
has this prefix as an exit point. -/
example : callIO false srcDemo [.rd 1, .limitBegin 1, .rd 1] =
    { srcDemo with ri := 3, wi := 3, closed := false } := by decide

/-- A destination buffer of 6 bytes with 2 written. -/
def dstDemo : Buf :=
  { mem := [9, 8, 0, 0, 0, 0], len := 6, ri := 0, wi := 2, pos := 0, closed := false, hasPtr := true }

example : callIO true dstDemo [.wr [7, 6], .copyHist 5 1, .undo] =
    { dstDemo with mem := [9, 8, 7, 6, 6, 6], wi := 5 } := by decide

/-- A closed destination buffer accepts nothing (`io2 = iop`), and a complete `io_limit` block on it
"restores" `data.len` to that `io2`, i.e. to the write index: the one case where `len` shrinks. -/
example : callIO true { dstDemo with closed := true } [.wr [7], .limitBegin 3, .limitEnd] =
    { dstDemo with closed := true, len := 2 } := by decide

end WuffsVerif.Props.C08IO
