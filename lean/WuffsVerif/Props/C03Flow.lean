/-
C03 — soundness of the status-flow checker of `Model/StatusFlow.lean`, and its instantiation on every
public coroutine of the working tree's std/ (`Gen/C03_Wrappers.lean`, regenerated on every run).

`guarded_never_short_read_on_closed`: if `guarded body = true` then in EVERY run of `body` — any answers
of the inner coroutine (any input bytes, any buffer sizes), any value of every condition the translator
did not understand, any behaviour of the caller (which may close the source at any resumption), any
number of calls — no call whose source is closed returns `$short read`.  That is the clause "never a
short read on a closed, fully supplied input" of the property, for all inputs, at the level of the Wuffs
source of the wrapper.  What is assumed: the translator (`harness/cmd/c03/flow.go`, checked on a compiled
probe package against `exec`), cgen's faithfulness for these statements (C04), and that `closed` is not
changed during a call (sampled: cdrv's `src_closed_changed` check).
-/
import WuffsVerif.Model.StatusFlow

namespace WuffsVerif.Props.C03

open WuffsVerif.StatusFlow

variable {W : Type}

/-! ### The abstract domain -/

theorem holds_top (σ : St W) : top.holds σ := by
  refine ⟨allE, ?_, fun _ => rfl⟩
  simp only [top]
  split <;> rfl

theorem not_holds_bot (σ : St W) : ¬ bot.holds σ := by
  rintro ⟨E, h, _⟩
  simp only [bot] at h
  split at h <;> simp at h

/-- `holds` looks at `closed` and `env` only. -/
theorem holds_congr {A : Abs} {σ σ' : St W} (hc : σ'.closed = σ.closed) (he : σ'.env = σ.env)
    (h : A.holds σ) : A.holds σ' := by
  obtain ⟨E, h1, h2⟩ := h
  exact ⟨E, by rw [hc]; exact h1, by rw [he]; exact h2⟩

theorem sat_joinE_left {a b : AEnv} {env : Var → Status} (h : sat a env) : sat (joinE a b) env := by
  intro v; simp [joinE, h v]

theorem sat_joinE_right {a b : AEnv} {env : Var → Status} (h : sat b env) : sat (joinE a b) env := by
  intro v; simp [joinE, h v]

theorem joinO_left {a : Option AEnv} (b : Option AEnv) {E : AEnv} {env : Var → Status}
    (ha : a = some E) (hs : sat E env) : ∃ E', joinO a b = some E' ∧ sat E' env := by
  subst ha
  cases b with
  | none => exact ⟨E, rfl, hs⟩
  | some B => exact ⟨joinE E B, rfl, sat_joinE_left hs⟩

theorem joinO_right (a : Option AEnv) {b : Option AEnv} {E : AEnv} {env : Var → Status}
    (hb : b = some E) (hs : sat E env) : ∃ E', joinO a b = some E' ∧ sat E' env := by
  subst hb
  cases a with
  | none => exact ⟨E, rfl, hs⟩
  | some B => exact ⟨joinE B E, rfl, sat_joinE_right hs⟩

theorem holds_join_left {A B : Abs} {σ : St W} (h : A.holds σ) : (join A B).holds σ := by
  obtain ⟨E, h1, h2⟩ := h
  simp only [Abs.holds, join]
  split
  · next hc => rw [if_pos hc] at h1; exact joinO_left _ h1 h2
  · next hc => rw [if_neg hc] at h1; exact joinO_left _ h1 h2

theorem holds_join_right {A B : Abs} {σ : St W} (h : B.holds σ) : (join A B).holds σ := by
  obtain ⟨E, h1, h2⟩ := h
  simp only [Abs.holds, join]
  split
  · next hc => rw [if_pos hc] at h1; exact joinO_right _ h1 h2
  · next hc => rw [if_neg hc] at h1; exact joinO_right _ h1 h2

/-- Pushing a transformer through both worlds. -/
theorem holds_map {A : Abs} {σ σ' : St W} (g : AEnv → AEnv) (h : A.holds σ) (hc : σ'.closed = σ.closed)
    (hg : ∀ E, sat E σ.env → sat (g E) σ'.env) : (A.map g).holds σ' := by
  obtain ⟨E, h1, h2⟩ := h
  refine ⟨g E, ?_, hg E h2⟩
  simp only [Abs.map, hc]
  split
  · next hcl => rw [if_pos hcl] at h1; rw [h1]; rfl
  · next hcl => rw [if_neg hcl] at h1; rw [h1]; rfl

theorem sat_filterV {E : AEnv} {env : Var → Status} (v : Var) (p : Cls → Bool) (h : sat E env)
    (hp : p (env v).cls = true) : sat (E.filterV v p) env := by
  intro x
  simp only [AEnv.filterV]
  split
  · next hx => subst hx; simp [h x, hp]
  · exact h x

/-- After a suspension the caller may come back with any `closed`; the variables are unchanged. -/
theorem holds_afterResume {A : Abs} {σ σ' : St W} (he : σ'.env = σ.env) (h : A.holds σ) :
    (afterResume A).holds σ' := by
  obtain ⟨E, h1, h2⟩ := h
  have key : ∃ E', joinO A.t A.f = some E' ∧ sat E' σ.env := by
    by_cases hc : σ.closed = true
    · rw [if_pos hc] at h1; exact joinO_left _ h1 h2
    · rw [if_neg hc] at h1; exact joinO_right _ h1 h2
  obtain ⟨E', k1, k2⟩ := key
  refine ⟨E', ?_, by rw [he]; exact k2⟩
  simp only [afterResume]
  split <;> exact k1

/-! ### Expressions and conditions -/

theorem evalE_frame (wd : World W) (e : SExpr) (σ : St W) :
    (evalE wd e σ).2.closed = σ.closed ∧ (evalE wd e σ).2.env = σ.env ∧ (evalE wd e σ).2.trace = σ.trace := by
  cases e <;> simp [evalE]

theorem absE_sound (wd : World W) (e : SExpr) (σ : St W) (E : AEnv) (h : sat E σ.env) :
    absE E e (evalE wd e σ).1.cls = true := by
  cases e with
  | lit s => simp [absE, evalE]
  | var v => simpa [absE, evalE] using h v
  | unknown => simp [absE]

theorem evalC_frame (wd : World W) (c : Cond) : ∀ σ : St W,
    (evalC wd c σ).2.closed = σ.closed ∧ (evalC wd c σ).2.env = σ.env ∧ (evalC wd c σ).2.trace = σ.trace := by
  induction c with
  | eq v s => intro σ; simp [evalC]
  | isIn v cs => intro σ; simp [evalC]
  | closed => intro σ; simp [evalC]
  | unknown => intro σ; simp [evalC]
  | tt => intro σ; simp [evalC]
  | not c ih => intro σ; simpa [evalC] using ih σ
  | and a b iha ihb =>
    intro σ
    have h1 := iha σ
    have h2 := ihb (evalC wd a σ).2
    simp only [evalC]
    exact ⟨h2.1.trans h1.1, h2.2.1.trans h1.2.1, h2.2.2.trans h1.2.2⟩
  | or a b iha ihb =>
    intro σ
    have h1 := iha σ
    have h2 := ihb (evalC wd a σ).2
    simp only [evalC]
    exact ⟨h2.1.trans h1.1, h2.2.1.trans h1.2.1, h2.2.2.trans h1.2.2⟩

/-- The states of `A` in which `c` evaluates to `b` are described by `refine c b A`. -/
theorem refine_sound (wd : World W) (c : Cond) : ∀ (A : Abs) (σ : St W), A.holds σ →
    (refine c (evalC wd c σ).1 A).holds σ := by
  induction c with
  | eq v s =>
    intro A σ h
    simp only [evalC]
    by_cases he : σ.env v = s
    · simp only [he, decide_true, refine]
      exact holds_map _ h rfl (fun E hE => sat_filterV v _ hE (by simp [he]))
    · simp only [he, decide_false, refine]
      split
      · next hs =>
        refine holds_map _ h rfl (fun E hE => sat_filterV v _ hE ?_)
        rcases hs with hs | hs
        · subst hs
          cases hv : σ.env v <;> simp_all [Status.cls]
        · subst hs
          cases hv : σ.env v <;> simp_all [Status.cls]
      · exact h
  | isIn v cs =>
    intro A σ h
    simp only [evalC, refine]
    exact holds_map _ h rfl (fun E hE => sat_filterV v _ hE (by simp))
  | closed =>
    intro A σ h
    obtain ⟨E, h1, h2⟩ := h
    simp only [evalC]
    cases hc : σ.closed with
    | true =>
      simp only [refine]
      exact ⟨E, by simpa [hc] using h1, h2⟩
    | false =>
      simp only [refine]
      exact ⟨E, by simpa [hc] using h1, h2⟩
  | unknown => intro A σ h; simpa [refine] using h
  | tt => intro A σ h; simpa [evalC, refine] using h
  | not c ih =>
    intro A σ h
    simp only [evalC, refine, Bool.not_not]
    exact ih A σ h
  | and a b iha ihb =>
    intro A σ h
    have fa := evalC_frame wd a σ
    simp only [evalC]
    cases ha : (evalC wd a σ).1 with
    | false =>
      simp only [Bool.false_and, refine]
      have := iha A σ h
      rw [ha] at this
      exact holds_join_left this
    | true =>
      cases hb : (evalC wd b (evalC wd a σ).2).1 with
      | false =>
        simp only [Bool.and_false, refine]
        have := ihb A (evalC wd a σ).2 (holds_congr fa.1 fa.2.1 h)
        rw [hb] at this
        exact holds_join_right (holds_congr fa.1.symm fa.2.1.symm this)
      | true =>
        simp only [Bool.and_self, refine]
        have h1 := iha A σ h
        rw [ha] at h1
        have := ihb _ (evalC wd a σ).2 (holds_congr fa.1 fa.2.1 h1)
        rw [hb] at this
        exact holds_congr fa.1.symm fa.2.1.symm this
  | or a b iha ihb =>
    intro A σ h
    have fa := evalC_frame wd a σ
    simp only [evalC]
    cases ha : (evalC wd a σ).1 with
    | true =>
      simp only [Bool.true_or, refine]
      have := iha A σ h
      rw [ha] at this
      exact holds_join_left this
    | false =>
      cases hb : (evalC wd b (evalC wd a σ).2).1 with
      | true =>
        simp only [Bool.or_true, refine]
        have := ihb A (evalC wd a σ).2 (holds_congr fa.1 fa.2.1 h)
        rw [hb] at this
        exact holds_join_right (holds_congr fa.1.symm fa.2.1.symm this)
      | false =>
        simp only [Bool.or_self, refine]
        have h1 := iha A σ h
        rw [ha] at h1
        have := ihb _ (evalC wd a σ).2 (holds_congr fa.1 fa.2.1 h1)
        rw [hb] at this
        exact holds_congr fa.1.symm fa.2.1.symm this

/-- `refine_sound` stated on the state after the evaluation. -/
theorem refine_sound' (wd : World W) (c : Cond) (A : Abs) (σ : St W) (h : A.holds σ) :
    (refine c (evalC wd c σ).1 A).holds (evalC wd c σ).2 :=
  holds_congr (evalC_frame wd c σ).1 (evalC_frame wd c σ).2.1 (refine_sound wd c A σ h)

/-! ### Statements -/

theorem traceOK_emit {σ : St W} {s : Status} (h : TraceOK σ.trace) (hs : σ.closed = true → s ≠ .shortRead) :
    TraceOK (σ.emit s).trace := by
  intro e he
  simp only [St.emit, List.mem_cons] at he
  rcases he with he | he
  · subst he
    rintro ⟨h1, h2⟩
    exact hs h1 h2
  · exact h e he

theorem not_susp_ne_shortRead {s : Status} (h : s.isSusp = false) : s ≠ .shortRead := by
  rintro rfl
  simp [Status.isSusp, Status.cls, Cls.isSusp] at h

/-- **Soundness of `check`.** From a state described by `A`, a run of `s` (any fuel, any world) keeps the
trace free of "`$short read` while closed", and if it ends normally the final state is described by the
checker's result. -/
theorem exec_sound (wd : World W) : ∀ (fuel : Nat) (s : Stmt) (A A' : Abs) (σ : St W),
    check s A = some A' → A.holds σ → TraceOK σ.trace →
    TraceOK (exec wd fuel s σ).2.trace ∧ ((exec wd fuel s σ).1 = .normal → A'.holds (exec wd fuel s σ).2) := by
  intro fuel
  induction fuel with
  | zero =>
    intro s A A' σ _ _ ht
    simp only [exec]
    exact ⟨ht, fun h => by simp at h⟩
  | succ fuel ih =>
    intro s A A' σ hck hh ht
    cases s with
    | skip =>
      simp only [check, Option.some.injEq] at hck
      subst hck
      simp only [exec]
      exact ⟨ht, fun _ => hh⟩
    | assign v e =>
      simp only [check, Option.some.injEq] at hck
      subst hck
      have fr := evalE_frame wd e σ
      simp only [exec]
      refine ⟨by simpa [St.set] using fr.2.2 ▸ ht, fun _ => ?_⟩
      refine holds_map _ hh (by simp [St.set, fr.1]) (fun E hE x => ?_)
      simp only [St.set, AEnv.setV, fr.2.1]
      split
      · exact absE_sound wd e σ E hE
      · exact hE x
    | callAssign v =>
      simp only [check, Option.some.injEq] at hck
      subst hck
      simp only [exec]
      refine ⟨by simpa [St.set] using ht, fun _ => ?_⟩
      refine holds_map _ hh (by simp [St.set]) (fun E hE x => ?_)
      simp only [St.set, AEnv.setV]
      split
      · rfl
      · exact hE x
    | callQ =>
      exfalso
      obtain ⟨E, h1, _⟩ := hh
      simp only [check] at hck
      split at hck
      · next ht' hf' => rw [ht', hf'] at h1; split at h1 <;> simp at h1
      · simp at hck
    | ret e =>
      have fr := evalE_frame wd e σ
      have ht' : TraceOK (evalE wd e σ).2.trace := by rw [fr.2.2]; exact ht
      simp only [exec]
      split
      · exact ⟨traceOK_emit ht' (fun _ => by simp [cannotReturnASuspension]), fun h => by simp at h⟩
      · next hs =>
        exact ⟨traceOK_emit ht' (fun _ => not_susp_ne_shortRead (by simpa using hs)), fun h => by simp at h⟩
    | yield e =>
      have fr := evalE_frame wd e σ
      have ht' : TraceOK (evalE wd e σ).2.trace := by rw [fr.2.2]; exact ht
      simp only [check] at hck
      by_cases hok : yieldOK A e = true
      · rw [if_pos hok] at hck
        simp only [Option.some.injEq] at hck
        subst hck
        -- what is handed to the caller is not `$short read` when closed
        have hne : (evalE wd e σ).2.closed = true → (evalE wd e σ).1 ≠ .shortRead := by
          intro hc hsr
          rw [fr.1] at hc
          obtain ⟨E, h1, h2⟩ := hh
          rw [if_pos hc] at h1
          simp only [yieldOK, h1] at hok
          have := absE_sound wd e σ E h2
          rw [hsr] at this
          have e1 : Status.shortRead.cls = Cls.shortRead := rfl
          rw [e1] at this
          rw [this] at hok
          exact Bool.noConfusion hok
        have hem := traceOK_emit ht' hne
        simp only [exec]
        split
        · next hsusp =>
          cases hr : resumeSt wd ((evalE wd e σ).2.emit (evalE wd e σ).1) with
          | none => exact ⟨hem, fun h => by simp at h⟩
          | some σ2 =>
            have hσ2 : σ2.env = σ.env ∧ σ2.trace = ((evalE wd e σ).2.emit (evalE wd e σ).1).trace := by
              simp only [resumeSt] at hr
              split at hr
              · simp at hr
              · simp only [Option.some.injEq] at hr
                subst hr
                exact ⟨by simp [St.emit, fr.2.1], rfl⟩
            refine ⟨by simp only []; rw [hσ2.2]; exact hem, fun _ => ?_⟩
            simp only []
            refine holds_afterResume (σ := σ) hσ2.1 ?_
            refine holds_map _ hh rfl (fun E hE => ?_)
            cases e with
            | var v =>
              refine sat_filterV v _ hE ?_
              simpa [evalE, Status.isSusp] using hsusp
            | lit s => exact hE
            | unknown => exact hE
        · exact ⟨hem, fun h => by simp at h⟩
      · rw [if_neg hok] at hck; simp at hck
    | ite c t e =>
      simp only [check] at hck
      split at hck
      · next a b h1 h2 =>
        simp only [Option.some.injEq] at hck
        subst hck
        have fc := evalC_frame wd c σ
        have hr := refine_sound' wd c A σ hh
        have htc : TraceOK (evalC wd c σ).2.trace := by rw [fc.2.2]; exact ht
        simp only [exec]
        cases hv : (evalC wd c σ).1 with
        | true =>
          rw [hv] at hr
          simp only [↓reduceIte]
          have := ih t _ _ _ h1 hr htc
          exact ⟨this.1, fun h => holds_join_left (this.2 h)⟩
        | false =>
          rw [hv] at hr
          simp only [Bool.false_eq_true, ↓reduceIte]
          have := ih e _ _ _ h2 hr htc
          exact ⟨this.1, fun h => holds_join_right (this.2 h)⟩
      · simp at hck
    | «while» c b =>
      simp only [check] at hck
      split at hck
      · next Ab hb =>
        have hckw : check (.while c b) top = some top := by simp only [check, hb]
        simp only [Option.some.injEq] at hck
        subst hck
        have fc := evalC_frame wd c σ
        have hr := refine_sound' wd c top σ (holds_top σ)
        have htc : TraceOK (evalC wd c σ).2.trace := by rw [fc.2.2]; exact ht
        simp only [exec]
        cases hv : (evalC wd c σ).1 with
        | false =>
          simp only [Bool.false_eq_true, ↓reduceIte]
          exact ⟨htc, fun _ => holds_top _⟩
        | true =>
          rw [hv] at hr
          simp only [↓reduceIte]
          have hbody := ih b _ _ _ hb hr htc
          cases hx : exec wd fuel b (evalC wd c σ).2 with
          | mk o σ1 =>
            rw [hx] at hbody
            cases o with
            | normal =>
              simp only []
              have := ih (.while c b) top top σ1 hckw (holds_top σ1) hbody.1
              exact this
            | cont d =>
              cases d with
              | zero =>
                simp only []
                exact ih (.while c b) top top σ1 hckw (holds_top σ1) hbody.1
              | succ d => exact ⟨hbody.1, fun h => by simp at h⟩
            | brk d =>
              cases d with
              | zero => exact ⟨hbody.1, fun _ => holds_top _⟩
              | succ d => exact ⟨hbody.1, fun h => by simp at h⟩
            | done => exact ⟨hbody.1, fun h => by simp at h⟩
            | stuck => exact ⟨hbody.1, fun h => by simp at h⟩
      · simp at hck
    | seq a b =>
      simp only [check] at hck
      split at hck
      · next A1 ha =>
        have h1 := ih a _ _ σ ha hh ht
        simp only [exec]
        cases hx : exec wd fuel a σ with
        | mk o σ1 =>
          rw [hx] at h1
          cases o with
          | normal =>
            simp only []
            exact ih b _ _ σ1 hck (h1.2 rfl) h1.1
          | cont d => exact ⟨h1.1, fun h => by simp at h⟩
          | brk d => exact ⟨h1.1, fun h => by simp at h⟩
          | done => exact ⟨h1.1, fun h => by simp at h⟩
          | stuck => exact ⟨h1.1, fun h => by simp at h⟩
      · simp at hck
    | brk d =>
      simp only [exec]
      exact ⟨ht, fun h => by simp at h⟩
    | cont d =>
      simp only [exec]
      exact ⟨ht, fun h => by simp at h⟩

/-- **No `$short read` on a closed source — for every input.** If the checker accepts the body of a
coroutine, then whatever the inner coroutines answer (i.e. whatever bytes arrive through whatever buffer
sizes), whatever the opaque conditions evaluate to, however often and with whatever `closed` flag the
caller resumes, and for every initial value of the local variables: no call made with a closed source
returns `$short read`. (`exec` with fuel `n` is a prefix of every longer run, so "for every `fuel`" covers
non-terminating runs too.) -/
theorem guarded_never_short_read_on_closed (s : Stmt) (hg : guarded s = true)
    (wd : World W) (fuel : Nat) (closed : Bool) (env : Var → Status) (w : W) :
    ∀ e ∈ (exec wd fuel s ⟨closed, env, w, []⟩).2.trace, ¬ (e.1 = true ∧ e.2 = Status.shortRead) := by
  simp only [guarded, Option.isSome_iff_exists] at hg
  obtain ⟨A', hA⟩ := hg
  exact (exec_sound wd fuel s top A' ⟨closed, env, w, []⟩ hA (holds_top _)
    (fun e he => by simp at he)).1

/-! ### The checker is not vacuous -/

/-- The canonical wrapper of std/ (`std/deflate/decode_deflate.wuffs` `decoder.transform_io?`). -/
def stdWrapper : Stmt :=
  .while .tt (.seq (.callAssign 0)
    (.seq (.ite (.and (.eq 0 .shortRead) .closed) (.ret (.lit (.err 1))) .skip) (.yield (.var 0))))

example : guarded stdWrapper = true := by decide

/-- Without the `is_closed()` test the checker refuses … -/
example : guarded (.while .tt (.seq (.callAssign 0) (.yield (.var 0)))) = false := by decide

/-- … and rightly so: the inner `$short read` reaches a caller whose source is closed. -/
example : (exec (W := Unit) ⟨fun w => (.shortRead, w), fun w => (.ok, w), fun w => (true, w), fun _ => none⟩ 5
    (.while .tt (.seq (.callAssign 0) (.yield (.var 0)))) ⟨true, fun _ => .ok, (), []⟩).2.trace
      = [(true, .shortRead)] := by decide

/-- A bare `inner?()` in a public function is refused, … -/
example : guarded .callQ = false := by decide

/-- … as is yielding the same status twice (the source may have been closed in between). -/
example : guarded (.seq (.callAssign 0) (.seq (.ite (.and (.eq 0 .shortRead) .closed) (.ret (.lit (.err 1))) .skip)
    (.seq (.yield (.var 0)) (.yield (.var 0))))) = false := by decide

/-- The lzma shape (`std/lzma/decode_lzma.wuffs`): `if not s.is_suspension() { return s } else if (s ==
"$short read") and closed { return "#truncated input" }; t = this.add_history!(); if t.is_error() {return t};
yield? s`. -/
example : guarded (.while .tt (.seq (.callAssign 0)
    (.seq (.ite (.not (.isIn 0 [.shortRead, .otherSusp])) (.ret (.var 0))
            (.ite (.and (.eq 0 .shortRead) .closed) (.ret (.lit (.err 1))) .skip))
      (.seq (.assign 1 .unknown) (.seq (.ite (.isIn 1 [.err]) (.ret (.var 1)) .skip) (.yield (.var 0))))))) = true := by
  decide

end WuffsVerif.Props.C03
