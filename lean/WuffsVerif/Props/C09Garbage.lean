/-
C09 (part: results do not depend on memory garbage).  `garbage_independent_F` over the
fragment language of `Model/StoreLang.lean`: if every read of a second-part cell is dominated
by a write of that cell (`writesBeforeReads`, a decidable syntactic condition), the output of
the body does not depend on the oracle that supplies the initial second-part contents.
-/
import WuffsVerif.Model.StoreLang

namespace WuffsVerif.Props.C09
open WuffsVerif.StoreLang

/-- two states agree on the must-written cells, all locals and the output so far -/
def Sim (w : List Nat) (a b : State) : Prop :=
  (∀ i ∈ w, a.cells i = b.cells i) ∧ a.locs = b.locs ∧ a.output = b.output

theorem eval_sim (w : List Nat) (a b : State) (h : Sim w a b) (e : Expr) (he : readsOK w e = true) :
    eval a e = eval b e := by
  induction e with
  | const n => rfl
  | loc r => simp [eval, h.2.1]
  | cell i =>
    simp only [readsOK, List.contains_eq_mem, decide_eq_true_eq] at he
    exact h.1 i he
  | add x y ihx ihy =>
    simp only [readsOK, Bool.and_eq_true] at he
    simp [eval, ihx he.1, ihy he.2]
  | lt x y ihx ihy =>
    simp only [readsOK, Bool.and_eq_true] at he
    simp [eval, ihx he.1, ihy he.2]

theorem sim_mono {w w' : List Nat} {a b : State} (h : Sim w a b) (hs : ∀ i ∈ w', i ∈ w) : Sim w' a b :=
  ⟨fun i hi => h.1 i (hs i hi), h.2.1, h.2.2⟩

/-- the analysis is sound: executing from similar states gives similar states -/
theorem exec_sim (s : Stmt) : ∀ (w w' : List Nat) (a b : State), analyse w s = some w' → Sim w a b →
    Sim w' (exec s a) (exec s b) := by
  induction s with
  | skip =>
    intro w w' a b ha h
    simp only [analyse, Option.some.injEq] at ha
    subst ha; exact h
  | seq s t ihs iht =>
    intro w w' a b ha h
    simp only [analyse] at ha
    cases h1 : analyse w s with
    | none => rw [h1] at ha; simp at ha
    | some w1 =>
      rw [h1] at ha
      simp only [Option.bind_some] at ha
      exact iht w1 w' _ _ ha (ihs w w1 a b h1 h)
  | setLoc r e =>
    intro w w' a b ha h
    simp only [analyse] at ha
    split at ha
    · rename_i he
      simp only [Option.some.injEq] at ha
      subst ha
      have hev := eval_sim w a b h e he
      refine ⟨h.1, ?_, h.2.2⟩
      simp [exec, hev, h.2.1]
    · simp at ha
  | setCell i e =>
    intro w w' a b ha h
    simp only [analyse] at ha
    split at ha
    · rename_i he
      simp only [Option.some.injEq] at ha
      subst ha
      have hev := eval_sim w a b h e he
      refine ⟨?_, h.2.1, h.2.2⟩
      intro j hj
      simp only [exec]
      by_cases hji : j = i
      · simp [hji, hev]
      · simp only [hji, ↓reduceIte]
        have : j ∈ w := by
          simp only [List.mem_cons] at hj
          rcases hj with hj | hj
          · exact absurd hj hji
          · exact hj
        exact h.1 j this
    · simp at ha
  | out e =>
    intro w w' a b ha h
    simp only [analyse] at ha
    split at ha
    · rename_i he
      simp only [Option.some.injEq] at ha
      subst ha
      have hev := eval_sim w a b h e he
      exact ⟨h.1, h.2.1, by simp [exec, hev, h.2.2]⟩
    · simp at ha
  | ite c s t ihs iht =>
    intro w w' a b ha h
    simp only [analyse] at ha
    split at ha
    · rename_i hc
      have hev := eval_sim w a b h c hc
      cases h1 : analyse w s with
      | none => rw [h1] at ha; simp at ha
      | some ws =>
        cases h2 : analyse w t with
        | none => rw [h1, h2] at ha; simp at ha
        | some wt =>
          rw [h1, h2] at ha
          simp only [Option.some.injEq] at ha
          subst ha
          simp only [exec, hev]
          split
          · exact sim_mono (ihs w ws a b h1 h) (fun i hi => (List.mem_filter.mp hi).1)
          · refine sim_mono (iht w wt a b h2 h) (fun i hi => ?_)
            have := (List.mem_filter.mp hi).2
            simpa using this
    · simp at ha

/-- `garbage_independent_F`: for a body in the fragment that satisfies `writesBeforeReads`,
the result (everything it outputs) is the same for ANY two initial contents of the
uninitialised second part. -/
theorem garbage_independent_F (p : Stmt) (h : writesBeforeReads p = true) (o1 o2 : Nat → Nat) :
    run o1 p = run o2 p := by
  unfold writesBeforeReads at h
  cases ha : analyse [] p with
  | none => rw [ha] at h; simp at h
  | some w' =>
    have := exec_sim p [] w' ⟨o1, fun _ => 0, []⟩ ⟨o2, fun _ => 0, []⟩ ha
      ⟨fun i hi => by simp at hi, rfl, rfl⟩
    exact this.2.2

/-- non-vacuity: a body that initialises a cell on both branches before reading it passes the
analysis; one that reads first does not, and really is oracle-dependent. -/
example :
    let good := Stmt.seq (.ite (.lt (.loc 0) (.const 1)) (.setCell 3 (.const 7)) (.setCell 3 (.const 9)))
      (.out (.add (.cell 3) (.const 1)))
    let bad := Stmt.out (.cell 3)
    writesBeforeReads good = true ∧ writesBeforeReads bad = false ∧
      run (fun _ => 0) bad ≠ run (fun _ => 5) bad := by decide

end WuffsVerif.Props.C09
