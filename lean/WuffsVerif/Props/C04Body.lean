/-
C04 — composition: a whole function body over a memory of typed scalar
variables.

`stmt_lowering_correct` (Props/C04Stmt.lean) is about CONTROL and leaves the
atomic statements, conditions and returned expressions opaque — but the same
on both sides.  `exprN_correct` / `exprB_correct` (Props/C04Expr.lean) are
about ONE expression tree.  Here they are put together: a `Body` gives every
atom of the control skeleton its content —

  act a    the assignment `x = e`  (x a local / argument / field of declared
           unsigned type `varTy x`, e a numeric expression tree),
  cond c   a boolean expression tree,     ret r   a numeric expression tree,

`wInterp` reads them as the language does (ideal integers, every node and the
assigned value checked against its type — Model/WSem.lean), `cInterp` as the
emitted C does: the store is a C memory of `uintN_t` objects (`Store.toC`),
the right-hand side is `lowerN e` evaluated with C's promotions and
conversions, the assignment converts to the type of the lvalue, `if (…)` tests
`lowerB c` against 0.

`body_lowering_correct`: for every such body, every store and every number of
iterations: if the Wuffs body finishes, then the C function body written by
cgen — `lowerL` of the statements with `lowerN` / `lowerB` of the expressions —
finishes without undefined behaviour in the same store with the same returned
value.  `lowering_whole_program_partial` is that theorem; what it does not
cover is listed there.
-/
import WuffsVerif.Props.C04Expr
import WuffsVerif.Props.C04Stmt

namespace WuffsVerif.Props.C04Body
open WuffsVerif.C WuffsVerif.CStmt WuffsVerif.WOps WuffsVerif.Props.C04 WuffsVerif.Props.C04Stmt

/-! ## The C semantics is monotone in the interpretation of the atoms -/

/-- wherever `I` gives an atom a meaning, `J` gives it the same meaning -/
structure Refines {σ V : Type} (I J : Interp σ V) : Prop where
  act : ∀ a st st', I.act a st = some st' → J.act a st = some st'
  cond : ∀ c st b, I.cond c st = some b → J.cond c st = some b
  retv : ∀ r st v, I.retv r st = some v → J.retv r st = some v

theorem Refines.condO {σ V : Type} {I J : Interp σ V} (h : Refines I J) (c : Option Nat) (st : σ) (b : Bool)
    (hc : I.condO c st = some b) : J.condO c st = some b := by
  cases c with
  | none => simpa [Interp.condO] using hc
  | some c => exact h.cond c st b (by simpa [Interp.condO] using hc)

theorem execC_refines {σ V : Type} {I J : Interp σ V} (hr : Refines I J) : ∀ f : Nat,
    (∀ (s : CStmt) (st : σ) (o : COut σ V), execCS I f s st = some o → execCS J f s st = some o) ∧
    (∀ (whole rest : List CStmt) (st : σ) (o : COut σ V),
      execCL I f whole rest st = some o → execCL J f whole rest st = some o) := by
  intro f
  induction f with
  | zero =>
    constructor
    · intro s st o h; simp at h
    · intro whole rest st o h
      cases rest with
      | nil => simpa using h
      | cons s r => simp at h
  | succ f ih =>
    obtain ⟨ihS, ihL⟩ := ih
    constructor
    · intro s st o h
      cases s with
      | act a =>
        rw [execCS_act] at h ⊢
        cases ha : I.act a st with
        | none => simp [ha] at h
        | some st' => rw [hr.act a st st' ha]; simpa [ha] using h
      | ite c el t e =>
        rw [execCS_ite] at h ⊢
        cases hc : I.cond c st with
        | none => simp [hc] at h
        | some b =>
          rw [hr.cond c st b hc]
          cases b <;> simp only [hc] at h ⊢ <;> exact ihL _ _ _ _ h
      | block b => rw [execCS_block] at h ⊢; exact ihL _ _ _ _ h
      | brk => rw [execCS_brk] at h ⊢; exact h
      | cont => rw [execCS_cont] at h ⊢; exact h
      | goto l => rw [execCS_goto] at h ⊢; exact h
      | label l => rw [execCS_label] at h ⊢; exact h
      | ret e =>
        rw [execCS_ret] at h ⊢
        cases he : I.retv e st with
        | none => simp [he] at h
        | some v => rw [hr.retv e st v he]; simpa [he] using h
      | doWhile0 body =>
        rw [execCS_doWhile0] at h ⊢
        cases hb : execCL I f body body st with
        | none => simp [hb] at h
        | some x => rw [ihL _ _ _ _ hb]; simpa [hb] using h
      | «while» c body =>
        rw [execCS_while] at h ⊢
        cases hc : I.condO c st with
        | none => simp [hc] at h
        | some b =>
          rw [hr.condO c st b hc]
          cases b with
          | false => simpa [hc] using h
          | true =>
            simp only [hc] at h ⊢
            cases hb : execCL I f body body st with
            | none => simp [hb] at h
            | some x =>
              rw [ihL _ _ _ _ hb]
              simp only [hb, Option.bind_some] at h ⊢
              cases x <;> simp only [whileAfterC] at h ⊢ <;> first | exact ihS _ _ _ h | exact h
    · intro whole rest st o h
      cases rest with
      | nil => simpa using h
      | cons s r =>
        rw [execCL_cons] at h ⊢
        cases hs : execCS I f s st with
        | none => simp [hs] at h
        | some x =>
          rw [ihS _ _ _ hs]
          simp only [hs, Option.bind_some] at h ⊢
          cases x with
          | normal st' => simp only [seqAfterC] at h ⊢; exact ihL _ _ _ _ h
          | goto l st' =>
            simp only [seqAfterC] at h ⊢
            cases hl : findLabel l whole with
            | none => simpa [hl] using h
            | some r' => simp only [hl] at h ⊢; exact ihL _ _ _ _ h
          | brk st' => simpa [seqAfterC] using h
          | cont st' => simpa [seqAfterC] using h
          | ret v st' => simpa [seqAfterC] using h

/-! ## A function body with contents -/

/-- the contents of the atoms of a control skeleton -/
structure Body where
  stmts : List WStmt
  /-- `act a` is `x = e`: (x, e) -/
  assign : Nat → Nat × WNum
  cond : Nat → WBool
  ret : Nat → WNum
  /-- declared type of variable `x` (func.go writeVars / struct fields: `uintN_t`) -/
  varTy : Nat → WTy

/-- every expression is one the type checker accepts (`WNum.ok`, `WBool.ok`) -/
def Body.ok (B : Body) : Prop :=
  (∀ a, (B.assign a).2.ok = true) ∧ (∀ c, (B.cond c).ok = true) ∧ (∀ r, (B.ret r).ok = true)

def Store.set (S : Store) (x : Nat) (t : WTy) (v : Int) : Store :=
  fun i => if i = x then some (t, v) else S i

/-- the atoms as the language means them (Model/WSem.lean execStmt KAssign /
KIf / KRet): the assigned value must be a value of the variable's type -/
def wInterp (B : Body) : Interp Store Int where
  act a S :=
    (wevalN S (B.assign a).2).bind (fun v =>
      if (B.varTy (B.assign a).1).has v then some (Store.set S (B.assign a).1 (B.varTy (B.assign a).1) v) else none)
  cond c S := (wevalB S (B.cond c)).map (fun v => v != 0)
  retv r S := wevalN S (B.ret r)

/-- the atoms as the emitted C computes them: `x = <lowerN e>;` with the
conversion to the lvalue's type (C11 6.5.16.1p2), `if (<lowerB c>)` compared
with 0 (6.8.4.1p2), `return <lowerN e>;`; `none` = undefined behaviour or an
expression cgen cannot write -/
def cInterp (B : Body) : Interp Store Int where
  act a S :=
    (lowerN (B.assign a).2).bind (fun c => (ceval S.toC c).bind (fun r =>
      (castTo (ctyOf (B.varTy (B.assign a).1)) r).map (fun r' =>
        Store.set S (B.assign a).1 (B.varTy (B.assign a).1) r'.v)))
  cond c S := (lowerB (B.cond c)).bind (fun ce => (ceval S.toC ce).map (fun r => r.v != 0))
  retv r S := (lowerN (B.ret r)).bind (fun c => (ceval S.toC c).map (fun r => r.v))

/-- every atom that has a Wuffs meaning is written as C that computes it -/
theorem wInterp_refines (B : Body) (hok : B.ok) : Refines (wInterp B) (cInterp B) := by
  obtain ⟨hA, hC, hR⟩ := hok
  constructor
  · intro a S S' h
    simp only [wInterp] at h
    cases hv : wevalN S (B.assign a).2 with
    | none => simp [hv] at h
    | some v =>
      simp only [hv, Option.bind_some] at h
      by_cases hin : (B.varTy (B.assign a).1).has v
      · simp only [hin, ↓reduceIte, Option.some.injEq] at h
        obtain ⟨c, r, hc, hr, hrv, _⟩ := exprN_correct S (B.assign a).2 (hA a) v hv
        simp only [cInterp, hc, hr, Option.bind_some, castTo_cty, Option.map_some, hrv,
          wrapU_of_has _ _ hin, h]
      · simp [hin] at h
  · intro c S b h
    simp only [wInterp] at h
    cases hv : wevalB S (B.cond c) with
    | none => simp [hv] at h
    | some v =>
      obtain ⟨ce, r, hce, hr, hrv, _, _⟩ := exprB_correct S (B.cond c) (hC c) v hv
      simp only [hv, Option.map_some, Option.some.injEq] at h
      simp only [cInterp, hce, hr, Option.bind_some, Option.map_some, hrv, h]
  · intro r S v h
    simp only [wInterp] at h
    obtain ⟨c, rr, hc, hr, hrv, _⟩ := exprN_correct S (B.ret r) (hR r) v h
    simp only [cInterp, hc, hr, Option.bind_some, Option.map_some, hrv]

/-- **body_lowering_correct.**  For every function body made of assignments of
numeric expression trees to scalar variables, conditions and returns, under
if / else-if / while / break / continue (plain and labelled) / return: if the
Wuffs source, started in the store `S`, finishes — completes in `S'`, or
returns `v` in `S'` — then the C function body that cgen writes (statement
lowering with its `goto`s, labels and `do … while (0)`; expression lowering
with its casts) runs without undefined behaviour and finishes in the same
store `S'`, returning the same `v`.  All bodies, all stores, any number of
iterations. -/
theorem body_lowering_correct (B : Body) (hok : B.ok) (hwf : wfL [] B.stmts = true) (n : Nat) (S : Store)
    (wout : WOut Store Int) (h : execWL (wInterp B) n B.stmts S = some wout) :
    ∃ m cout, execCL (cInterp B) m (lowerL none B.stmts) (lowerL none B.stmts) S = some cout ∧
      BodyRel wout cout := by
  obtain ⟨m, cout, hm, hrel⟩ := stmt_lowering_correct (wInterp B) B.stmts hwf n S wout h
  exact ⟨m, cout, (execC_refines (wInterp_refines B hok) m).2 _ _ _ _ hm, hrel⟩

/-- … and the emitted C can do nothing else (the C semantics is deterministic) -/
theorem body_lowering_unique (B : Body) (hok : B.ok) (hwf : wfL [] B.stmts = true) (n : Nat) (S : Store)
    (wout : WOut Store Int) (h : execWL (wInterp B) n B.stmts S = some wout) (m : Nat) (cout : COut Store Int)
    (hc : execCL (cInterp B) m (lowerL none B.stmts) (lowerL none B.stmts) S = some cout) :
    BodyRel wout cout := by
  obtain ⟨m', cout', hm', hrel⟩ := body_lowering_correct B hok hwf n S wout h
  rw [execCL_deterministic (cInterp B) hc hm']
  exact hrel

/-- **lowering_whole_program_partial.**  The property's statement for the part
of a program that `body_lowering_correct` covers.  MISSING for the full
statement: compound assignments and associative chains inside a body (proved
per node: `compound_assign_correct_*`, `assoc_*_correct`, and they produce
operands `exprN_correct` accepts, but `WNum` / `Body` have no constructor for
them); arrays and struct layout (private_impl / private_data); the function
prologue (receiver / magic / argument checks, zero-initialised locals) and
calls; signed types (Props/C04Signed.lean: per node); slices, I/O and
coroutines (Props/C04Coro.lean: the resume switch and the multi-byte reads) —
these are covered by differential execution against the reference semantics
(harness/cmd/c04). -/
theorem lowering_whole_program_partial (B : Body) (hok : B.ok) (hwf : wfL [] B.stmts = true) (n : Nat)
    (S : Store) (wout : WOut Store Int) (h : execWL (wInterp B) n B.stmts S = some wout) :
    (∃ m cout, execCL (cInterp B) m (lowerL none B.stmts) (lowerL none B.stmts) S = some cout ∧
      BodyRel wout cout) ∧
    (∀ m cout, execCL (cInterp B) m (lowerL none B.stmts) (lowerL none B.stmts) S = some cout →
      BodyRel wout cout) :=
  ⟨body_lowering_correct B hok hwf n S wout h, fun m cout hc => body_lowering_unique B hok hwf n S wout h m cout hc⟩

/-! ## Non-vacuity: a loop that sums -/

/-- `while.outer true { while true { if x1 >= 3 { break.outer }; x0 = x0 + x1 (u8, checked);
x1 = x1 + 1; break }; } return (x0 as u32)` — variables 0, 1 : base.u8 -/
def demoBody : Body where
  stmts := [.while 0 none [.while 1 none [.ite 0 false [.jump true 0] [], .act 0, .act 1, .jump true 1]],
            .ret 0]
  assign := fun a => if a = 0 then (0, .bin .add .u8 (.var 0 .u8) (.var 1 .u8))
                     else (1, .bin .add .u8 (.var 1 .u8) (.const 1))
  cond := fun _ => .cmp .ge .u8 (.var 1 .u8) (.const 3)
  ret := fun _ => .as .u32 (.var 0 .u8)
  varTy := fun _ => .u8

def demoS : Store := fun i => if i < 2 then some (.u8, 0) else none

theorem demoBody_ok : demoBody.ok := by
  refine ⟨fun a => ?_, fun _ => (by decide : (WBool.cmp .ge .u8 (.var 1 .u8) (.const 3)).ok = true),
    fun _ => (by decide : (WNum.as .u32 (.var 0 .u8)).ok = true)⟩
  by_cases h : a = 0 <;> simp [demoBody, h] <;> decide

example : wfL [] demoBody.stmts = true := by decide

/-- the value a body returns, if it returns -/
def retOf : Option (WOut Store Int) → Option Int
  | some (.ret v _) => some v
  | _ => none

/-- the Wuffs body returns 0 + 0 + 1 + 2 = 3 (so `body_lowering_correct` applies to it) -/
example : retOf (execWL (wInterp demoBody) 40 demoBody.stmts demoS) = some 3 := by decide +kernel

end WuffsVerif.Props.C04Body
