/-
C20 — the compiler's lookup-only maps.

Besides the ten range-over-map sites (Props/C20.lean, `gofacts_order_sites_exact`)
the compiler reads its Go maps only through lookups `m[k]` (cgen: statusMap,
structMap, scalarConstsMap, funks, privateDataFields, numPublicCoroutines, usesMap,
varResumables, derivedVars, jumpTargets/jumpTargetNames, liveness vars/loops;
check: consts, funcs, statuses, structs, …).  The layout of a Go map (bucket
order, iteration seed) is not observable through lookups: `emitL` extends `emit`
with renderers that receive every lookup-only map as some LAYOUT of its entries
and may consult it through `get` only.
-/
import WuffsVerif.Model.Det
import WuffsVerif.Proof.Det
import WuffsVerif.Props.C20

namespace WuffsVerif.Props.C20
open WuffsVerif.Det List

/-- a compilation unit whose renderers read lookup-only maps -/
structure CompUnitL where
  u : CompUnit
  /-- bytes emitted for one declaration, given the lookup functions of the maps -/
  renderL : (Key → Option Nat) → Key → List Nat

/-- the layouts the runtime happened to give the lookup-only maps (one association
list; keys are tagged with the map they belong to) -/
structure OrdersL where
  o : Orders
  lookupRep : GoMap Key Nat

def emitL (o : OrdersL) (c : CompUnitL) : Option (List Nat) :=
  (emit o.o c.u).map (fun bytes => bytes ++ (c.u.decls.map (c.renderL o.lookupRep.get)).flatten)

/-- Same declarations; any two choices of iteration orders at the range sites AND any
two layouts of the lookup-only maps: same success/failure, byte-identical output. -/
theorem emitL_deterministic (c : CompUnitL) (o o' : OrdersL) (h : SameMaps o.o o'.o)
    (hn : keysNodup o.lookupRep) (hl : o.lookupRep ~ o'.lookupRep) : emitL o c = emitL o' c := by
  unfold emitL
  rw [emit_deterministic c.u o.o o'.o h]
  have : o.lookupRep.get = o'.lookupRep.get := funext (get_perm_invariant hn hl)
  rw [this]

/-- non-vacuity: a renderer that really reads the map, two layouts -/
example :
    let c : CompUnitL := ⟨⟨[7, 8], [], [], id, [], fun _ => none, fun k => [k], fun _ => [], fun _ => []⟩,
      fun get k => [(get k).getD 0]⟩
    emitL ⟨⟨[], [], [], [], [], [], []⟩, [(7, 70), (8, 80)]⟩ c = some [7, 8, 70, 80]
    ∧ emitL ⟨⟨[], [], [], [], [], [], []⟩, [(8, 80), (7, 70)]⟩ c = some [7, 8, 70, 80] := by decide

end WuffsVerif.Props.C20
