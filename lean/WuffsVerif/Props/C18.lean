/-
C18 — low-level JPEG encoder (lib/lowleveljpeg): property theorems over the model
`Model/Jpeg/Encoder.lean`.  Table facts are in `Props/C18Tables.lean`, the DCT clause in
`Props/C18Dct.lean`, the entropy round trip in `Props/C18Entropy.lean`; helper lemmas in
`Proof/Jpeg*.lean`.
-/
import WuffsVerif.Proof.JpegBuf

namespace WuffsVerif.Props.C18
open WuffsVerif.Gen.C18 WuffsVerif.Jpeg WuffsVerif.Jpeg.Buf

/-! ### `div` -/

/-- `div a b` is `a / b` rounded to the nearest integer, ties away from zero, for every
    coefficient `a` a valid block can hold and every quantisation factor `b`:
    `|a − b·div a b| ≤ b/2`, and the closed forms that pin the tie direction. -/
theorem div_rounds_nearest (a b : Int) (ha1 : -1024 ≤ a) (ha2 : a ≤ 1023) (hb : 0 < b) (hb2 : b ≤ 255) :
    2 * (a - b * div a b).natAbs ≤ b.natAbs ∧
    (0 ≤ a → div a b = (2 * a + b) / (2 * b)) ∧
    (a < 0 → div a b = -((2 * (-a) + b) / (2 * b))) :=
  Buf.div_rounds_nearest a b ha1 ha2 hb hb2

/-- non-vacuity and the tie direction: 3/2 → 2, −3/2 → −2, 127/255 → 0, 128/255 → 1 -/
example : div 3 2 = 2 ∧ div (-3) 2 = -2 ∧ div 127 255 = 0 ∧ div 128 255 = 1 ∧ div (-1024) 1 = -1024 := by
  decide

/-- quantising never leaves the valid range, and keeps the sign -/
theorem div_stays_in_range (a b : Int) (ha1 : -1024 ≤ a) (ha2 : a ≤ 1023) (hb : 0 < b) (hb2 : b ≤ 255) :
    (0 ≤ a → 0 ≤ div a b ∧ div a b ≤ a) ∧ (a < 0 → a ≤ div a b ∧ div a b ≤ 0) :=
  Buf.div_range a b ha1 ha2 hb hb2

/-! ### Operations and reachable states -/

/-- one API call.  `reset`: writer fails?, colour type byte, width, height, tables (none = nil
    options).  `add n`: `Add1`/`Add3`/`Add6`, writer fails?, blocks (none = nil pointer). -/
inductive Op where
  | reset (wfail : Bool) (colorType : Nat) (width height : Int) (quants : Option (Quant × Quant))
  | add (n : Nat) (wfail : Bool) (blocks : Option (List Block))

/-- what Go's types guarantee about the arguments: `AddN` exists for N = 1, 3, 6 and takes
    exactly N blocks; quantisation factors are bytes -/
def Op.typed : Op → Prop
  | .reset _ _ _ _ qs => ∀ q0 q1, qs = some (q0, q1) → QBytes q0 ∧ QBytes q1
  | .add n _ blocks => (n = 1 ∨ n = 3 ∨ n = 6) ∧ ∀ bs, blocks = some bs → bs.length = n

def step (e : Encoder) : Op → Encoder × Res
  | .reset wf ct w h qs => reset e wf ct w h qs
  | .add n wf bs => add e n wf bs

/-- run a sequence of calls on an Encoder, collecting the results -/
def run : Encoder → List Op → Encoder × List Res
  | e, [] => (e, [])
  | e, op :: ops =>
    let (e1, r) := step e op
    let (e2, rs) := run e1 ops
    (e2, r :: rs)

theorem step_spec (e : Encoder) (op : Op) (hw : WF e) (ht : op.typed) :
    (step e op).2 ≠ .panic ∧ WF (step e op).1 := by
  cases op with
  | reset wf ct w h qs => exact reset_spec e wf ct w h qs hw ht
  | add n wf bs => exact add_spec e n wf bs hw ht.1 ht.2

/-- **buf_never_overflows**: starting from the zero-value Encoder, no sequence of (well-typed)
    `Reset`/`AddN` calls — any sizes, colour types, tables, blocks valid or not, writer errors,
    protocol misuse — ever makes `bufIndex` exceed `len(buf) = 2924`; i.e. no call panics.
    The per-call bounds are `Buf.addN_spec` (≤ 6·432 + 1 + 2 bytes) and `Buf.header_size`. -/
theorem buf_never_overflows (ops : List Op) (ht : ∀ op ∈ ops, op.typed) :
    Res.panic ∉ (run {} ops).2 := by
  have gen : ∀ (ops : List Op) (e : Encoder), WF e → (∀ op ∈ ops, op.typed) → Res.panic ∉ (run e ops).2 := by
    intro ops
    induction ops with
    | nil => intro e _ _; simp [run]
    | cons op ops ih =>
      intro e hw ht
      have h1 := step_spec e op hw (ht op List.mem_cons_self)
      have h2 := ih (step e op).1 h1.2 (fun o ho => ht o (List.mem_cons_of_mem _ ho))
      simp only [run, List.mem_cons, not_or]
      exact ⟨fun h => h1.1 h.symm, h2⟩
  apply gen ops {} _ ht
  intro hc
  simp at hc

/-- non-vacuity: well-typed operations exist (and ill-formed *values* — invalid blocks, zero
    quantisation factors, wrong N for the colour type — are allowed by `typed`) -/
example : (Op.add 6 true (some (List.replicate 6 (Array.replicate 64 32767)))).typed ∧
    (Op.reset false 7 0 70000 (some (Array.replicate 64 0, Array.replicate 64 255))).typed := by
  refine ⟨⟨by simp, by simp⟩, ?_⟩
  intro q0 q1 h
  simp only [Option.some.injEq, Prod.mk.injEq] at h
  obtain ⟨rfl, rfl⟩ := h
  constructor <;> intro i _ <;> simp [Array.getD] <;> split <;> simp

/-! ### The AddN protocol -/

/-- once an error was returned, every later `AddN` returns `ErrPreviouslyReturnedError`, writes
    nothing and changes nothing (sticky failure) -/
theorem add_after_error (e : Encoder) (n : Nat) (wf : Bool) (bs : Option (List Block))
    (h : e.hasReturnedError = true) : add e n wf bs = (e, .err .previouslyReturnedError) := by
  simp [add, h]

/-- every error result of `AddN` leaves the Encoder in the sticky error state -/
theorem finishWrite_error_is_sticky (e : Encoder) (out : Array Nat) (wf : Bool) (x : Err)
    (h : (finishWrite e out wf).2 = .err x) : (finishWrite e out wf).1.hasReturnedError = true := by
  rcases finishWrite_cases e out wf with ⟨_, h'⟩ | ⟨_, _, h'⟩ | ⟨_, _, h'⟩
  · rw [h'] at h; simp at h
  · rw [h']
  · rw [h'] at h; simp at h

theorem add_error_is_sticky (e : Encoder) (n : Nat) (wf : Bool) (bs : Option (List Block)) (x : Err)
    (h : (add e n wf bs).2 = .err x) : (add e n wf bs).1.hasReturnedError = true := by
  by_cases he : e.hasReturnedError = true
  · rw [add_after_error e n wf bs he]; exact he
  · have he' : e.hasReturnedError = false := by simpa using he
    by_cases hc : e.colorType = n
    · cases bs with
      | none => simp [add, he', hc]
      | some bs =>
        have hadd : add e n wf (some bs) = addN e wf bs := by simp [add, he', hc]
        rw [hadd] at h ⊢
        by_cases hv : bs.all blockIsValid = true
        · by_cases h0 : e.numAddsRemaining = 0
          · simp [addN, hv, h0]
          · rw [addN_main e wf bs hv h0] at h ⊢
            exact finishWrite_error_is_sticky _ _ wf x h
        · simp [addN, hv]
    · simp [add, he', hc]

/-- every error result of `Reset` leaves the Encoder in the sticky error state -/
theorem reset_error_is_sticky (e : Encoder) (wf : Bool) (ct : Nat) (w h : Int) (qs : Option (Quant × Quant))
    (x : Err) (hx : (reset e wf ct w h qs).2 = .err x) : (reset e wf ct w h qs).1.hasReturnedError = true := by
  have fin : ∀ e', (resetFinish e' wf ct w h).2 = .err x → (resetFinish e' wf ct w h).1.hasReturnedError = true := by
    intro e' h'
    obtain ⟨e1, out1, hs, _⟩ := resetFinish_shape e' wf ct w h
    rw [hs] at h' ⊢
    exact finishWrite_error_is_sticky _ _ wf x h'
  revert hx
  unfold reset
  split
  · intro _; rfl
  · cases qs with
    | none =>
      simp only
      exact fin _
    | some p =>
      obtain ⟨q0, q1⟩ := p
      simp only
      split
      · intro _; rfl
      · exact fin _

/-- the documented errors, in the order the Go code checks them -/
theorem add_errors (e : Encoder) (n : Nat) (wf : Bool) (he : e.hasReturnedError = false) :
    (e.colorType ≠ n → ∀ bs, (add e n wf bs).2 = .err .badAddNForColorType) ∧
    (e.colorType = n → (add e n wf none).2 = .err .badArgument) ∧
    (e.colorType = n → ∀ bs, bs.all blockIsValid = false → (add e n wf (some bs)).2 = .err .invalidBlockI16) ∧
    (e.colorType = n → ∀ bs, bs.all blockIsValid = true → e.numAddsRemaining = 0 →
        (add e n wf (some bs)).2 = .err .tooManyAddNCalls) := by
  refine ⟨fun h bs => ?_, fun h => ?_, fun h bs hb => ?_, fun h bs hb h0 => ?_⟩
  · simp [add, he, h]
  · simp [add, he, h]
  · simp [add, he, h, addN, hb]
  · simp [add, he, h, addN, hb, h0]

/-- `Reset` with out-of-range arguments or a zero quantisation factor is `ErrBadArgument` -/
theorem reset_bad_argument (e : Encoder) (wf : Bool) (ct : Nat) (w h : Int) (qs : Option (Quant × Quant))
    (hbad : w ≤ 0 ∨ 65535 < w ∨ h ≤ 0 ∨ 65535 < h ∨ (ct ≠ 1 ∧ ct ≠ 3 ∧ ct ≠ 6) ∨
      (∃ q0 q1, qs = some (q0, q1) ∧ (quantIsValid q0 = false ∨ quantIsValid q1 = false))) :
    (reset e wf ct w h qs).2 = .err .badArgument := by
  unfold reset
  split
  · rfl
  · rename_i hc
    simp only [Bool.or_eq_true, decide_eq_true_eq, Bool.not_eq_true', not_or, Int.not_le, Int.not_lt,
      Bool.not_eq_false] at hc
    rcases hbad with h1 | h1 | h1 | h1 | h1 | ⟨q0, q1, rfl, h1⟩
    · omega
    · omega
    · omega
    · omega
    · exfalso
      have := hc.2
      simp only [colorTypeIsValid, Bool.or_eq_true, beq_iff_eq] at this
      omega
    · simp only
      rcases h1 with h1 | h1 <;> simp [h1]

/-- number of units of an image: ⌈w/8⌉·⌈h/8⌉, or ⌈w/16⌉·⌈h/16⌉ for 4:2:0 -/
def units (ct : Nat) (w h : Int) : Nat :=
  if ct = 6 then (((w + 15) / 16) * ((h + 15) / 16)).toNat else (((w + 7) / 8) * ((h + 7) / 8)).toNat

/-- a successful `Reset` expects exactly `units` AddN calls (no uint32 wrap-around for any
    size up to 65535 × 65535), clears the error state and selects the colour type -/
theorem reset_ok_state (e : Encoder) (ct : Nat) (w h : Int) (qs : Option (Quant × Quant)) (out : Array Nat)
    (hok : (reset e false ct w h qs).2 = .ok out) :
    (reset e false ct w h qs).1.numAddsRemaining = units ct w h ∧
    (reset e false ct w h qs).1.hasReturnedError = false ∧
    (reset e false ct w h qs).1.colorType = ct ∧
    0 < w ∧ w ≤ 65535 ∧ 0 < h ∧ h ≤ 65535 ∧ (ct = 1 ∨ ct = 3 ∨ ct = 6) := by
  have fin : ∀ e', 0 < w → w ≤ 65535 → 0 < h → h ≤ 65535 → (resetFinish e' false ct w h).2 = .ok out →
      (resetFinish e' false ct w h).1.numAddsRemaining = units ct w h ∧
      (resetFinish e' false ct w h).1.hasReturnedError = false ∧
      (resetFinish e' false ct w h).1.colorType = ct := by
    intro e' w1 w2 h1 h2 h'
    obtain ⟨e1, out1, hs, hn, herr, hct, _⟩ := resetFinish_shape e' false ct w h
    rw [hs] at h' ⊢
    rcases finishWrite_cases e1 out1 false with ⟨_, hf⟩ | ⟨_, hf, _⟩ | ⟨_, _, hf⟩
    · rw [hf] at h'; simp at h'
    · cases hf
    · rw [hf]
      refine ⟨?_, herr, hct⟩
      show e1.numAddsRemaining = units ct w h
      rw [hn]
      unfold units colorTypeYCbCr420
      have a1 : 0 ≤ (w + 7) / 8 ∧ (w + 7) / 8 ≤ 8192 := by omega
      have a2 : 0 ≤ (h + 7) / 8 ∧ (h + 7) / 8 ≤ 8192 := by omega
      have a3 : 0 ≤ (w + 15) / 16 ∧ (w + 15) / 16 ≤ 4096 := by omega
      have a4 : 0 ≤ (h + 15) / 16 ∧ (h + 15) / 16 ≤ 4096 := by omega
      have m1 : ((w + 7) / 8).toNat * ((h + 7) / 8).toNat ≤ 8192 * 8192 :=
        Nat.mul_le_mul (by omega) (by omega)
      have m2 : ((w + 15) / 16).toNat * ((h + 15) / 16).toNat ≤ 4096 * 4096 :=
        Nat.mul_le_mul (by omega) (by omega)
      have t1 : (((w + 7) / 8) * ((h + 7) / 8)).toNat = ((w + 7) / 8).toNat * ((h + 7) / 8).toNat := by
        rw [Int.toNat_mul a1.1 a2.1]
      have t2 : (((w + 15) / 16) * ((h + 15) / 16)).toNat = ((w + 15) / 16).toNat * ((h + 15) / 16).toNat := by
        rw [Int.toNat_mul a3.1 a4.1]
      by_cases h6 : ct = 6
      · rw [if_neg (by simp [h6]), if_pos h6, t2, Nat.mod_eq_of_lt (by omega : ((w + 15) / 16).toNat < 4294967296),
          Nat.mod_eq_of_lt (by omega : ((h + 15) / 16).toNat < 4294967296), Nat.mod_eq_of_lt (by omega)]
      · rw [if_pos h6, if_neg h6, t1, Nat.mod_eq_of_lt (by omega : ((w + 7) / 8).toNat < 4294967296),
          Nat.mod_eq_of_lt (by omega : ((h + 7) / 8).toNat < 4294967296), Nat.mod_eq_of_lt (by omega)]
  revert hok
  unfold reset
  split
  · intro hok; cases hok
  · rename_i hc
    simp only [Bool.or_eq_true, decide_eq_true_eq, Bool.not_eq_true', not_or, Int.not_le, Int.not_lt,
      Bool.not_eq_false] at hc
    have hct : ct = 1 ∨ ct = 3 ∨ ct = 6 := by
      have := hc.2
      simp only [colorTypeIsValid, Bool.or_eq_true, beq_iff_eq] at this
      omega
    cases qs with
    | none =>
      simp only
      intro hok
      have := fin _ (by omega) (by omega) (by omega) (by omega) hok
      exact ⟨this.1, this.2.1, this.2.2, by omega, by omega, by omega, by omega, hct⟩
    | some p =>
      obtain ⟨q0, q1⟩ := p
      simp only
      split
      · intro hok; cases hok
      · intro hok
        have := fin _ (by omega) (by omega) (by omega) (by omega) hok
        exact ⟨this.1, this.2.1, this.2.2, by omega, by omega, by omega, by omega, hct⟩

/-- a successful `Reset` leaves the bit accumulator empty and the DC predictors at zero, and
    installs valid tables (`Inv`) -/
theorem reset_ok_ready (e : Encoder) (ct : Nat) (w h : Int) (qs : Option (Quant × Quant)) (out : Array Nat)
    (hw : WF e) (hq : ∀ q0 q1, qs = some (q0, q1) → QBytes q0 ∧ QBytes q1)
    (hok : (reset e false ct w h qs).2 = .ok out) :
    Inv (reset e false ct w h qs).1 ∧
    ((reset e false ct w h qs).1.bitsN = 0 ∧ (reset e false ct w h qs).1.bitsV = 0) ∧
    ((reset e false ct w h qs).1.prevDC0 = 0 ∧ (reset e false ct w h qs).1.prevDC1 = 0 ∧
      (reset e false ct w h qs).1.prevDC2 = 0) := by
  have hst := reset_ok_state e ct w h qs out hok
  have hinv : Inv (reset e false ct w h qs).1 :=
    (reset_spec e false ct w h qs hw hq).2 (by rw [hst.2.2.1]; exact hst.2.2.2.2.2.2.2)
  refine ⟨hinv, ?_⟩
  have fin : ∀ e', (resetFinish e' false ct w h).2 = .ok out →
      ((resetFinish e' false ct w h).1.bitsN = 0 ∧ (resetFinish e' false ct w h).1.bitsV = 0) ∧
      ((resetFinish e' false ct w h).1.prevDC0 = 0 ∧ (resetFinish e' false ct w h).1.prevDC1 = 0 ∧
        (resetFinish e' false ct w h).1.prevDC2 = 0) := by
    intro e' h'
    obtain ⟨e1, out1, hs, _, _, _, b1, b2, b3, b4, b5, _⟩ := resetFinish_shape e' false ct w h
    rw [hs] at h' ⊢
    rcases finishWrite_cases e1 out1 false with ⟨_, hf⟩ | ⟨_, hf, _⟩ | ⟨_, _, hf⟩
    · rw [hf] at h'; simp at h'
    · cases hf
    · rw [hf]; exact ⟨⟨b1, b2⟩, b3, b4, b5⟩
  revert hok
  unfold reset
  split
  · intro hok; cases hok
  · cases qs with
    | none =>
      simp only
      exact fin _
    | some p =>
      obtain ⟨q0, q1⟩ := p
      simp only
      split
      · intro hok; cases hok
      · exact fin _

end WuffsVerif.Props.C18
