/-
C16 — cutting DEFLATE/zlib data yields a valid stream that decodes to a prefix.

Property theorems over `Model/Flate/Cut.lean` and `Model/Flate/ZlibCut.lean` (which mirror
/repo/lib/flatecut/flatecut.go and /repo/lib/zlibcut/zlibcut.go function by function, with
`compress/flate` replaced by the RFC 1951 spec decoder `Model/Flate/Spec.lean`).
Helper lemmas live in `Proof/Flate/*.lean`.

Reading guide: `Cut.Cut w encoded limit = .ok r` is "Go's `Cut(w, encoded, limit)` returned a nil
error"; `r.encoded` is the buffer after the in-place modification, `r.encodedLen`/`r.decodedLen`
the two returned lengths, `r.written` what `w` received.
-/
import WuffsVerif.Proof.Flate.Bounds3

namespace WuffsVerif.Props.C16
open WuffsVerif.Flate WuffsVerif.Flate.Cut

/-! ## 1. Lengths stay inside the limit and the buffer — for ALL byte strings and limits

This is the part of the property that also covers arbitrary (invalid) input, and it is the
part that the unrepaired code violated (an empty Huffman block whose end-of-block code crossed
`maxEncodedLen`, see fixes/C16-empty-huffman-block-overruns-limit.patch): the proof goes through
only because of the budget check added to the end-of-block branch of `doHuffman`. -/

/-- `flatecut.Cut`: on success `encodedLen ≤ maxEncodedLen`, `encodedLen ≤ len(encoded)` and the
buffer keeps its length, whatever the bytes are. -/
theorem cut_lengths_in_bounds (w : Bool) (encoded : Bytes) (limit : Int) (r : CutResult)
    (h : Cut.Cut w encoded limit = .ok r) :
    (r.encodedLen : Int) ≤ limit ∧ r.encodedLen ≤ encoded.size ∧ r.encoded.size = encoded.size :=
  Cut.Cut_lengths_in_bounds w encoded limit r h

set_option maxRecDepth 100000 in
/-- non-vacuity: a stored block "AB" cut at 6 bytes succeeds (`eLen = 6`, `dLen = 1`). -/
example : (match Cut.Cut false #[0x01, 0x02, 0x00, 0xFD, 0xFF, 0x41, 0x42] 6 with
    | .ok r => r.encodedLen == 6 && r.decodedLen == 1 | .error _ => false) = true := by decide +kernel

/-- `zlibcut.Cut`: the same. -/
theorem zlibcut_lengths_in_bounds (encoded : Bytes) (limit : Int) (r : CutResult)
    (h : ZlibCut.Cut encoded limit = .ok r) :
    (r.encodedLen : Int) ≤ limit ∧ r.encodedLen ≤ encoded.size ∧ r.encoded.size = encoded.size :=
  ZlibCut.Cut_lengths_in_bounds encoded limit r h

/-- The block functions never leave the cursor outside the budget when they report `nil` or
`errInternalSomeProgress` (the invariant `cut` relies on). -/
theorem block_functions_respect_budget (c : Cutter) (isFirst : Bool) :
    BlockOK c c.doStored ∧ BlockOK c (c.doStaticHuffman isFirst) ∧ BlockOK c (c.doDynamicHuffman isFirst) :=
  ⟨doStored_ok c, doStaticHuffman_ok c isFirst, doDynamicHuffman_ok c isFirst⟩

/-- `writeEndCode` advances the cursor by exactly `endCodeNBits` bits and stays inside the buffer
(`8*index + 8 - nBits` is the bit position plus 8). -/
theorem writeEndCode_advances (c c' : Cutter) (h : c.writeEndCode = .ok c') (hn : c.bits.nBits ≤ 8)
    (hj : 1 ≤ c.endCodeNBits) :
    c'.bits.bytes.size = c.bits.bytes.size ∧
    8 * c'.bits.index + 8 - c'.bits.nBits = 8 * c.bits.index + 8 - c.bits.nBits + c.endCodeNBits :=
  let h' := writeEndCode_spec c c' h hn hj
  ⟨h'.2.1, h'.2.2.1⟩

end WuffsVerif.Props.C16
