/-
C16 — cutting DEFLATE/zlib data yields a valid stream that decodes to a prefix.

Property theorems over `Model/Flate/Cut.lean` and `Model/Flate/ZlibCut.lean` (which mirror
/repo/lib/flatecut/flatecut.go and /repo/lib/zlibcut/zlibcut.go function by function, with
`compress/flate` replaced by the RFC 1951 spec decoder `Model/Flate/Spec.lean`).
Helper lemmas live in `Proof/Flate/*.lean`.

Reading guide: `Cut.Cut w encoded limit = .ok r` is "Go's `Cut(w, encoded, limit)` returned a nil
error"; `r.encoded` is the buffer after the in-place modification, `r.encodedLen`/`r.decodedLen`
the two returned lengths, `r.written` what `w` received.
-/
import WuffsVerif.Proof.Flate.Bounds3
import WuffsVerif.Proof.Flate.StoredCut3
import WuffsVerif.Proof.Flate.StoredEnc
import WuffsVerif.Proof.Flate.Lookup4
import WuffsVerif.Proof.Flate.TakeSpec
import WuffsVerif.Proof.Flate.Canonical3
import WuffsVerif.Proof.Flate.Total5
import WuffsVerif.Proof.Flate.Single
import WuffsVerif.Proof.Flate.Walk2
import WuffsVerif.Proof.Flate.FixedCut2
import WuffsVerif.Proof.Flate.Assembly
import WuffsVerif.Proof.Flate.CutAll
import WuffsVerif.Proof.Flate.Whole2
import WuffsVerif.Proof.Flate.ZlibAll
import WuffsVerif.Proof.Flate.Frame
import WuffsVerif.Proof.Flate.ZlibWhole
import WuffsVerif.Proof.Flate.MinLen

namespace WuffsVerif.Props.C16
open WuffsVerif.Flate WuffsVerif.Flate.Cut WuffsVerif.Flate.Spec

/-- byte strings (`Spec.Bytes` and `Cut.Bytes` are both this) -/
abbrev Bytes := Array UInt8

/-! ## 1. Lengths stay inside the limit and the buffer — for ALL byte strings and limits

This is the part of the property that also covers arbitrary (invalid) input, and it is the
part that the unrepaired code violated (an empty Huffman block whose end-of-block code crossed
`maxEncodedLen`, see fixes/C16-empty-huffman-block-overruns-limit.patch): the proof goes through
only because of the budget check added to the end-of-block branch of `doHuffman`. -/

/-- `flatecut.Cut`: on success `encodedLen ≤ maxEncodedLen`, `encodedLen ≤ len(encoded)` and the
buffer keeps its length, whatever the bytes are. -/
theorem cut_lengths_in_bounds (w : Bool) (encoded : Bytes) (limit : Int) (r : CutResult)
    (h : Cut.Cut w encoded limit = .ok r) :
    (r.encodedLen : Int) ≤ limit ∧ r.encodedLen ≤ encoded.size ∧ r.encoded.size = encoded.size :=
  Cut.Cut_lengths_in_bounds w encoded limit r h

set_option maxRecDepth 100000 in
/-- non-vacuity: a stored block "AB" cut at 6 bytes succeeds (`eLen = 6`, `dLen = 1`). -/
example : (match Cut.Cut false #[0x01, 0x02, 0x00, 0xFD, 0xFF, 0x41, 0x42] 6 with
    | .ok r => r.encodedLen == 6 && r.decodedLen == 1 | .error _ => false) = true := by decide +kernel

/-- `zlibcut.Cut`: the same. -/
theorem zlibcut_lengths_in_bounds (encoded : Bytes) (limit : Int) (r : CutResult)
    (h : ZlibCut.Cut encoded limit = .ok r) :
    (r.encodedLen : Int) ≤ limit ∧ r.encodedLen ≤ encoded.size ∧ r.encoded.size = encoded.size :=
  ZlibCut.Cut_lengths_in_bounds encoded limit r h

/-- **Robustness half of the property: `flatecut.Cut` returns without panicking, for arbitrary bytes
and any limit.**  In the model every slice/array access whose index is not a loop constant is
checked and a failed check is the result `Err.panic`; every Go loop is a recursion on fuel and
running out of it is `Err.fuel`.  Neither can happen: every index is in range (so the Go code has
no index-out-of-range panic) and every loop terminates within its fuel (each iteration consumes at
least one bit of the input or one code length).  Together with `cut_lengths_in_bounds` this is the
property's clause "for arbitrary bytes Cut returns without panicking — with an error, or with
lengths that stay inside the limit and the buffer". -/
theorem cut_never_panics (w : Bool) (encoded : Bytes) (limit : Int) :
    Cut.Cut w encoded limit ≠ .error .panic ∧ Cut.Cut w encoded limit ≠ .error .fuel :=
  ⟨fun h => (Cut.Cut_total w encoded limit _ h).1 rfl, fun h => (Cut.Cut_total w encoded limit _ h).2 rfl⟩

/-- … and so does `zlibcut.Cut` (including the write of the four Adler-32 bytes behind the cut). -/
theorem zlibcut_never_panics (encoded : Bytes) (limit : Int) :
    ZlibCut.Cut encoded limit ≠ .error .panic ∧ ZlibCut.Cut encoded limit ≠ .error .fuel :=
  ⟨fun h => (ZlibCut.Cut_total encoded limit _ h).1 rfl, fun h => (ZlibCut.Cut_total encoded limit _ h).2 rfl⟩

/-- `huffman.construct` is total on every length vector the cutter can hand it (lengths ≤ 15, at
most 288 coded symbols): its only error is errInvalidBadHuffmanTree — `h.counts[x]++`,
`h.symbols[offsets[length]]` and the 256 `slowDecode` calls of `constructLookUpTable` stay in range. -/
theorem construct_never_panics (h0 : Huffman) (lengths : Array Nat) (hle : ∀ x ∈ lengths.toList, x ≤ 15)
    (hroom : offAt lengths 16 ≤ h0.symbols.size) (hsz : h0.symbols.size < 2147483648) (e : Err)
    (hc : h0.construct lengths = .error e) : e = .badHuffmanTree :=
  Cut.construct_no_panic h0 lengths hle hroom hsz e hc

/-- non-vacuity: the fixed literal/length code meets the hypotheses (`offAt lengths 16`, the number of
coded symbols, is at most the alphabet size). -/
example (lengths : Array Nat) (h : lengths.size ≤ 288) : offAt lengths 16 ≤ Huffman.zero.symbols.size := by
  have := Cut.offAt_le_size lengths 16
  simp [Huffman.zero, WuffsVerif.Gen.C16.maxNumCodes]; omega

/-- The decoders of a constructed `huffman` are total and only return *coded* symbols (symbols of the
alphabet whose length is not 0) — never a stale entry of `h.symbols`, which Go does not clear between
blocks; a successful decode keeps the cursor invariant and consumes at least one bit. -/
theorem decode_total_coded (h0 h : Huffman) (lengths : Array Nat) (ecb ecn : Nat)
    (hc : h0.construct lengths = .ok (h, ecb, ecn)) (h0ok : h0.TableOK) (h0sz : h0.symbols.size = 288)
    (hroom : offAt lengths 16 ≤ 288) (hlen : lengths.size ≤ 65536) (b : Bitstream) (hb : b.Inv) :
    ∃ s b', h.decode b = .ok (s, b') ∧ b'.bytes = b.bytes ∧
      (0 ≤ s → (∃ j : Nat, s = Int.ofNat j ∧ j < lengths.size ∧ lengths.getD j 0 ≠ 0) ∧ b'.Inv ∧ b.pos < b'.pos) :=
  (Cut.construct_good h0 h lengths ecb ecn hc h0ok h0sz hroom hlen).decode hroom b hb

/-- The block functions never leave the cursor outside the budget when they report `nil` or
`errInternalSomeProgress` (the invariant `cut` relies on). -/
theorem block_functions_respect_budget (c : Cutter) (isFirst : Bool) :
    BlockOK c c.doStored ∧ BlockOK c (c.doStaticHuffman isFirst) ∧ BlockOK c (c.doDynamicHuffman isFirst) :=
  ⟨doStored_ok c, doStaticHuffman_ok c isFirst, doDynamicHuffman_ok c isFirst⟩

/-- `writeEndCode` advances the cursor by exactly `endCodeNBits` bits and stays inside the buffer
(`8*index + 8 - nBits` is the bit position plus 8). -/
theorem writeEndCode_advances (c c' : Cutter) (h : c.writeEndCode = .ok c') (hn : c.bits.nBits ≤ 8)
    (hj : 1 ≤ c.endCodeNBits) :
    c'.bits.bytes.size = c.bits.bytes.size ∧
    8 * c'.bits.index + 8 - c'.bits.nBits = 8 * c.bits.index + 8 - c.bits.nBits + c.endCodeNBits :=
  let h' := writeEndCode_spec c c' h hn hj
  ⟨h'.2.1, h'.2.2.1⟩

/-! ## 2. The spec decoder is a sane specification (stored blocks) -/

/-- Round trip of `Spec.inflate` against a Lean stored-block *encoder*: any number of blocks of at
most 65535 bytes each, any trailing bytes; the consumed length is exactly the encoder's output. -/
theorem inflate_stored_roundtrip (ds : List Bytes) (dl post : Bytes)
    (hds : ∀ d ∈ ds, d.size ≤ 65535) (hdl : dl.size ≤ 65535) :
    Spec.inflate (encodeStored ds dl ++ post) = some (flat ds ++ dl, (encodeStored ds dl).size) :=
  Spec.inflate_stored_roundtrip ds dl post hds hdl

/-- non-vacuity / a concrete instance: two blocks "A", "BC" and a trailing byte. -/
example : Spec.inflate (encodeStored [#[0x41]] #[0x42, 0x43] ++ #[0xFF]) = some (#[0x41, 0x42, 0x43], 13) := by
  rw [inflate_stored_roundtrip _ _ _ (by simp) (by simp)]
  rfl

/-- `Spec.inflate` on *any* byte string that is laid out as stored blocks (arbitrary padding bits in
the header bytes, arbitrary bytes after the final block): `Run s 0 ds` = non-final blocks carrying
`ds` back to back from byte 0, `BlkAt s q dl true` = the final block. -/
theorem inflate_stored_layout (s : Bytes) (ds : List Bytes) (dl : Bytes)
    (hr : Run s 0 ds) (hl : BlkAt s (endOf 0 ds) dl true) :
    Spec.inflate s = some (flat ds ++ dl, endOf 0 ds + 5 + dl.size) :=
  Spec.inflate_stored s ds dl hr hl

/-- The two-byte stream that `cutSingleBlock` falls back to decodes to nothing. -/
theorem inflate_empty_fixed_block : Spec.inflate #[3, 0] = some (#[], 2) := Spec.inflate_0300

/-! ## 3. THE property

`cut_prefix` (below, after the staging theorems it subsumes) is the property itself, proved for every valid
DEFLATE stream: stored, fixed-Huffman and dynamic-Huffman blocks, any number, any order.  Two side
conditions are part of the statement because the code as written needs them: `T.size < 2^31` (Go's
`decodedLen` is an `int32`) and, for the clause "limit ≥ len ⇒ the whole output", `s.size ≤ 2^30` (`Cut`
clamps `maxEncodedLen` to 1 GiB, so for longer streams that clause is false of the code).

The stored-block theorems of round 1 come first. -/

/-- **cut_prefix for streams of stored blocks** (`_partial`: Huffman blocks are missing).
`hT` excludes outputs of 2 GiB or more (where Go's `int32` `decodedLen` would overflow). -/
theorem cut_prefix_stored_partial (w : Bool) (s : Bytes) (ds : List Bytes) (dl : Bytes) (limit : Int)
    (r : CutResult)
    (hr : Run s 0 ds) (hl : BlkAt s (endOf 0 ds) dl true)
    (hT : (flat ds ++ dl).size < 2147483648)
    (h : Cut.Cut w s limit = .ok r) :
    Spec.inflate (r.encoded.extract 0 r.encodedLen) =
        some ((flat ds ++ dl).extract 0 r.decodedLen, r.encodedLen) ∧
    r.decodedLen ≤ (flat ds ++ dl).size ∧
    ((s.size : Int) ≤ limit → s.size ≤ 2 ^ 30 → r.decodedLen = (flat ds ++ dl).size) ∧
    (w = true → r.written = (flat ds ++ dl).extract 0 r.decodedLen) :=
  Cut.Cut_stored w s ds dl limit r hr hl hT h

/-- The same, phrased with the encoder: cutting `encodeStored ds dl ++ post` yields a stream that
the spec decoder maps to a prefix of `flat ds ++ dl` — where `Spec.inflate` of the *original* is
`flat ds ++ dl` by `inflate_stored_roundtrip`. -/
theorem cut_prefix_encodeStored_partial (w : Bool) (ds : List Bytes) (dl post : Bytes) (limit : Int)
    (r : CutResult)
    (hds : ∀ d ∈ ds, d.size ≤ 65535) (hdl : dl.size ≤ 65535)
    (hT : (flat ds ++ dl).size < 2147483648)
    (h : Cut.Cut w (encodeStored ds dl ++ post) limit = .ok r) :
    Spec.inflate (r.encoded.extract 0 r.encodedLen) =
        some ((flat ds ++ dl).extract 0 r.decodedLen, r.encodedLen) ∧
    r.decodedLen ≤ (flat ds ++ dl).size := by
  have hrun := Spec.encodeStored_run #[] post ds dl hds hdl
  simp only [Array.empty_append, Array.size_empty] at hrun
  have := Cut.Cut_stored w _ ds dl limit r hrun.1 hrun.2.1 hT h
  exact ⟨this.1, this.2.1⟩

set_option maxRecDepth 100000 in
/-- non-vacuity: the hypothesis `Cut … = .ok r` of the theorem above is satisfiable
(stored "AB" cut at 6 bytes gives `eLen = 6`, `dLen = 1`). -/
example : (match Cut.Cut true (encodeStored [] #[0x41, 0x42] ++ #[]) 6 with
    | .ok r => r.encodedLen == 6 && r.decodedLen == 1 && r.written == #[0x41] | .error _ => false) = true := by
  decide +kernel

/-- **The fallback re-encoding (`cutSingleBlock`) is correct for EVERY valid DEFLATE stream** —
stored, fixed and dynamic Huffman blocks alike: whenever it succeeds on a stream `s` that the spec
decoder maps to `T`, the first `encodedLen` bytes of the modified buffer are a complete DEFLATE stream
(one stored block of at most 65535 bytes, or the empty fixed block `03 00`) that decodes to exactly the
first `decodedLen` bytes of `T`.  This is the path `cut` takes whenever the first block does not yield a
better cut (`errInternalNoProgress` / `errInternalReplaceWithSingleBlock` on the first block).
Rests on `Spec.blocks_cap`: a capped run of the decoder (`io.ReadFull` into a buffer) returns a prefix
of the full output. -/
theorem cutSingleBlock_prefix (s T : Bytes) (n0 : Nat) (hs : Spec.inflate s = some (T, n0))
    (m : Nat) (enc : Bytes) (e dLen : Nat) (hm : m ≤ s.size)
    (h : cutSingleBlock s m = .ok (enc, e, dLen)) :
    Spec.inflate (enc.extract 0 e) = some (T.extract 0 dLen, e) ∧ dLen ≤ T.size :=
  Cut.cutSingleBlock_good s T n0 hs m enc e dLen hm h

/-- The decoder with an output cap (how `cutSingleBlock` and Go's `io.ReadFull` use it) yields a prefix
of the uncapped output: everything if it reaches the end of the stream, at least `n` bytes otherwise. -/
theorem inflate_cap_prefix (s : Bytes) (n lo fuel p : Nat) (out : Bytes) (pE : Nat) (outE : Bytes)
    (h : Spec.blocks s none lo fuel p out = ⟨.done, pE, outE⟩) :
    ∃ o rest, (Spec.blocks s (some n) lo fuel p out).out = out ++ o ∧ outE = out ++ o ++ rest ∧
      (((Spec.blocks s (some n) lo fuel p out).status = .done ∧ rest = #[]) ∨
       ((Spec.blocks s (some n) lo fuel p out).status = .capped ∧ n ≤ (out ++ o).size - lo)) :=
  Spec.blocks_cap s n lo fuel p out pE outE h

/-! ## 4. The bit reader and the Huffman fast path

`b.Inv` (Proof/Flate/Basic.lean) is the content invariant of a `bitstream` cursor: the low `nBits`
bits of `bits` are the stream bits at `b.pos = 8*index - nBits`, and whatever sits above them is a
subset of the stream bits that follow (this is what `decode`'s 64-bit refill leaves behind, and
what makes OR-ing a re-loaded byte on top harmless). -/

/-- `bitstream.take(n)` returns the `n`-bit little-endian data element of RFC 1951 §3.1.1 at the
cursor's bit position (the spec decoder's `bitsLE`) and advances by `n` bits — or returns
`mostNegativeInt32` exactly when fewer than `n` bits are left. -/
theorem take_reads_spec_bits (b : Bitstream) (hb : b.Inv) (n : Nat) (hn : n ≤ 31) :
    (b.take n).2.bytes = b.bytes ∧
    (if b.pos + n ≤ 8 * b.bytes.size then
      (b.take n).1 = Int.ofNat (Spec.bitsLE b.bytes b.pos n) ∧ (b.take n).2.Inv ∧ (b.take n).2.pos = b.pos + n
    else (b.take n).1 = WuffsVerif.Gen.C16.mostNegativeInt32) :=
  Cut.take_spec b hb n hn

/-- non-vacuity: the start-of-stream cursor satisfies the invariant. -/
example (s : Bytes) : ({ bytes := s, index := 0, bits := 0, nBits := 0 } : Bitstream).Inv :=
  ⟨⟨by simp, by simp⟩, by simp, fun i hi => by simp at hi, fun i _ _ hbit => by simp at hbit⟩

/-- **lookup_eq_slow**: with the table built by `constructLookUpTable`, `decode` (64-bit "variant 4"
refill or single-byte refill, 8-bit table, fall-back) returns what `slowDecode` returns from the same
cursor — same symbol, same bits consumed, buffer untouched, invariant kept (`SameOutcome`).
`hsz`/`hsym`: the table has 256 entries and symbols fit the 16-bit field of an entry. -/
theorem lookup_eq_slow (h h' : Huffman) (b : Bitstream) (hc : h.constructLookUpTable = .ok h')
    (hsz : h.lookUpTable.size = 256) (hsym : ∀ (idx : Nat) (s : Int), h.symbols[idx]? = some s → s < 65536)
    (hb : b.Inv) :
    SameOutcome b.bytes (h'.decode b) (h'.slowDecode b) :=
  Cut.lookup_eq_slow h h' b hc hsz hsym hb

/-- … and every `huffman` that `construct` returns (from a `huffman` that satisfies `TableOK`, as
`Huffman.zero` and all later values in the cutter do) meets those side conditions. -/
theorem lookup_eq_slow_of_construct (h0 h : Huffman) (lengths : Array Nat) (ecb ecn : Nat)
    (hc : h0.construct lengths = .ok (h, ecb, ecn)) (h0ok : h0.TableOK) (hlen : lengths.size ≤ 65536) :
    h.TableOK ∧ ∀ b : Bitstream, b.Inv → SameOutcome b.bytes (h.decode b) (h.slowDecode b) :=
  Cut.construct_lookup_eq_slow h0 h lengths ecb ecn hc h0ok hlen

/-- non-vacuity of `TableOK` -/
example : Huffman.zero.TableOK := Huffman.zero_tableOK

/-- `slowDecode` is a function of the upcoming stream bits only (`absLoop` is the same loop over an
abstract bit sequence): the refinement used for `lookup_eq_slow`. -/
theorem slowDecode_reads_stream_bits (h : Huffman) (b : Bitstream) (hb : b.Inv) :
    Refines b b.pos
      (absLoop h (fun j => streamBit b.bytes (b.pos + j)) (8 * b.bytes.size - b.pos)
        WuffsVerif.Gen.C16.maxCodeBits 1 0 0 0 0)
      (h.slowDecode b) :=
  Cut.slowDecodeLoop_refines h _ 1 0 0 0 0 b.pos b hb rfl

/-! ## 5. `huffman.construct` against RFC 1951 §3.2.2

`rfcBlCount`, `rfcNextCode`, `rfcCode` (Proof/Flate/Canonical.lean) are steps 1–3 of the RFC's
code-assignment algorithm, written down literally. -/

/-- **The end-of-block code is canonical**: when `construct` accepts lengths that give symbol 256 a
code, the `(endCodeBits, endCodeNBits)` it returns — which `writeEndCode` writes into the cut stream
— is the RFC 1951 code of symbol 256 (value, length, and the value fits the length); otherwise
`endCodeNBits = 0`, on which `doHuffman` reports errInvalidNoEndOfBlock. -/
theorem endCode_canonical (h0 h : Huffman) (lengths : Array Nat) (ecb ecn : Nat)
    (hc : h0.construct lengths = .ok (h, ecb, ecn)) :
    if lengths.size > 256 ∧ lengths.getD 256 0 ≠ 0 then
      ecn = lengths.getD 256 0 ∧ ecb = rfcCode lengths 256 ∧ ecb < 2 ^ ecn
    else ecn = 0 :=
  Cut.endCode_canonical h0 h lengths ecb ecn hc

/-- **What `construct` accepts** (`construct_canonical`, acceptance part): every length ≤ 15, no
length over-subscribed, and either the Kraft sum is exactly 1 (`kraftSum … 15 = 2^15`) or the code is
the degenerate tree with a single code of length 1 — the same rule as Go's `compress/flate`, minus
the empty tree. -/
theorem construct_accepts (h0 h : Huffman) (lengths : Array Nat) (ecb ecn : Nat)
    (hc : h0.construct lengths = .ok (h, ecb, ecn)) :
    (∀ x ∈ lengths.toList, x ≤ 15) ∧ NoOver lengths 15 ∧
    (kraftSum lengths 15 = 2 ^ 15 ∨
      ((lengths.toList.filter (· = 0)).length + 1 = lengths.size ∧ rfcBlCount lengths 1 = 1)) :=
  Cut.construct_accepts h0 h lengths ecb ecn hc

/-- **construct_canonical** (decoding part): when `construct` accepts `lengths`, `slowDecode` maps the
RFC 1951 §3.2.2 code of every symbol with a non-zero length (sent most significant bit first, §3.1.1)
back to that symbol and consumes exactly its length.  Proof: `h.counts` are the RFC's `bl_count`,
`constructOffsets`/`constructSymbols` are a counting sort that lists the symbols by (length, symbol),
and the loop of `slowDecode` keeps `first = next_code[i]`. -/
theorem construct_canonical (h0 h : Huffman) (lengths : Array Nat) (ecb ecn : Nat)
    (hc : h0.construct lengths = .ok (h, ecb, ecn))
    (sym L : Nat) (hs : sym < lengths.size) (hLd : lengths.getD sym 0 = L) (hL0 : L ≠ 0)
    (b : Bitstream) (hb : b.Inv) (hfit : b.pos + L ≤ 8 * b.bytes.size)
    (hbits : ∀ k, k < L → streamBit b.bytes (b.pos + k) = (rfcCode lengths sym).testBit (L - 1 - k)) :
    ∃ b', h.slowDecode b = .ok (Int.ofNat sym, b') ∧ b'.pos = b.pos + L ∧ b'.Inv ∧ b'.bytes = b.bytes :=
  Cut.construct_canonical h0 h lengths ecb ecn hc sym L hs hLd hL0 b hb hfit hbits

/-- … and so does the fast path `decode` (by `lookup_eq_slow`). -/
theorem decode_canonical (h0 h : Huffman) (lengths : Array Nat) (ecb ecn : Nat)
    (hc : h0.construct lengths = .ok (h, ecb, ecn)) (h0ok : h0.TableOK) (hlen : lengths.size ≤ 65536)
    (sym L : Nat) (hs : sym < lengths.size) (hLd : lengths.getD sym 0 = L) (hL0 : L ≠ 0)
    (b : Bitstream) (hb : b.Inv) (hfit : b.pos + L ≤ 8 * b.bytes.size)
    (hbits : ∀ k, k < L → streamBit b.bytes (b.pos + k) = (rfcCode lengths sym).testBit (L - 1 - k)) :
    ∃ b', h.decode b = .ok (Int.ofNat sym, b') ∧ b'.pos = b.pos + L ∧ b'.Inv ∧ b'.bytes = b.bytes := by
  obtain ⟨b2, e2, p2, i2, y2⟩ := Cut.construct_canonical h0 h lengths ecb ecn hc sym L hs hLd hL0 b hb hfit hbits
  have hsame := (Cut.construct_lookup_eq_slow h0 h lengths ecb ecn hc h0ok hlen).2 b hb
  rw [e2] at hsame
  cases hd : h.decode b with
  | error e => rw [hd] at hsame; exact hsame.elim
  | ok p =>
    obtain ⟨s1, b1⟩ := p
    rw [hd] at hsame
    obtain ⟨hs1, hrest⟩ := hsame
    subst hs1
    obtain ⟨q1, q2, _, q4, _⟩ := hrest (Int.natCast_nonneg _)
    exact ⟨b1, rfl, by rw [q1, p2], q4, q2⟩

set_option maxRecDepth 100000 in
/-- non-vacuity of the hypothesis `construct … = .ok …`: `construct` accepts the complete two-symbol
code (lengths 1, 1); with no symbol 256 it reports `endCodeNBits = 0`.  (Kernel evaluation of the
model, including the 256-entry table; larger alphabets are exercised by the `construct` ops of the
differential tie.) -/
example : ∃ h, Huffman.zero.construct #[1, 1] = .ok (h, 0, 0) := by
  have : (match Huffman.zero.construct #[1, 1] with
      | .ok (_, a, b) => a == 0 && b == 0 | .error _ => false) = true := by decide +kernel
  revert this
  cases hc : Huffman.zero.construct #[1, 1] with
  | error e => simp
  | ok p =>
    obtain ⟨h, a, b⟩ := p
    simp only [Bool.and_eq_true, beq_iff_eq]
    intro hab
    exact ⟨h, by rw [hab.1, hab.2]⟩

/-! ## 6. The cutter's walk over a Huffman block is the spec decoder's walk -/

/-- **The cutter's Huffman decoder agrees with the RFC 1951 spec decoder**, for every code-length
vector that `huffman.construct` (`hc`) and the spec's `mkHuff` (`hH`) both accept and every cursor:
`decode` (8-bit table, 64-bit refill, `slowDecode`) returns the symbol that the spec's `decodeGo`
returns and stops at the same bit (`CutOfSpec`: a `.sym v p1` of the spec is `.ok (v, b')` with
`b'.pos = p1`, and the symbol's code length is the number of bits consumed); when the spec decoder
fails, `decode` returns `mostNegativeInt32`. -/
theorem decode_agrees_with_spec (h0 h : Huffman) (lens : Array Nat) (ecb ecn : Nat)
    (hc : h0.construct lens = .ok (h, ecb, ecn)) (h0ok : h0.TableOK) (h0sz : h0.symbols.size = 288)
    (hroom : offAt lens 16 ≤ 288) (hlen : lens.size ≤ 65536)
    (H : Spec.Huff) (hH : Spec.mkHuff lens = some H) (b : Bitstream) (hb : b.Inv) :
    CutOfSpec lens b (Spec.decodeGo H b.bytes b.pos H.maxLen 0 0 0 0) (h.decode b) :=
  Cut.decode_agrees h lens (Cut.construct_good h0 h lens ecb ecn hc h0ok h0sz hroom hlen)
    (Cut.construct_nz h0 h lens ecb ecn hc) H hH hroom b hb

/-- **`doHuffman`'s symbol loop tracks the spec decoder** (`Tracks`): on a Huffman block that the spec
decoder `Spec.huffBlock` decodes completely (from bit `c.bits.pos` with output `out` to bit `pE` with
output `outE`), with the cutter's two `huffman`s built from the same code lengths as the spec's (`ctx`)
and no `int32` overflow of `decodedLen` (`hD`):
* when the loop returns `nil` it stands exactly at `pE`, inside the budget, and `decodedLen` has grown
  by exactly the number of bytes the block decodes to;
* when it breaks, the checkpoint it recorded is a token boundary `(q, o)` of the spec's walk
  (`Reach`), `decodedLen` counts exactly the bytes decoded up to there, and the end-of-block code
  still fits (`q + endCodeNBits ≤ 8 * maxEncodedLen`);
* its only possible error is errInternalNoProgress, with `decodedLen` untouched, and only while no
  checkpoint exists (`hecn`: `endCodeNBits` is the length of the end-of-block code; `hbud`: an existing
  checkpoint left room for it). -/
theorem huffman_walk_tracks_spec (hl hd : Spec.Huff) (minL minD lo : Nat) (ll dl : Array Nat)
    (fuelS fuelC : Nat) (c : Cutter) (cp : Option (Nat × Nat)) (out : Bytes) (pE : Nat) (outE : Bytes)
    (hc : c.OK) (ctx : BlockCtx c ll dl hl hd) (hecn : c.endCodeNBits = ll.getD 256 0)
    (hbud : cp ≠ none → c.bits.pos + c.endCodeNBits ≤ 8 * c.maxEncodedLen)
    (hspec : Spec.huffBlock hl hd minL minD c.bits.bytes none lo fuelS c.bits.pos out = .next pE outE)
    (hd0 : 0 ≤ c.decodedLen) (hD : c.decodedLen + (outE.size : Int) - (out.size : Int) < 2147483648)
    (hf : 8 * c.bits.bytes.size + 1 ≤ fuelC + c.bits.pos) :
    Tracks hl hd minL minD c cp c.decodedLen out pE outE (Cutter.huffLoop fuelC c cp c.decodedLen) :=
  Cut.huffLoop_tracks hl hd minL minD lo ll dl fuelS fuelC c cp c.decodedLen out pE outE hc ctx rfl hecn hbud hspec hd0 hD hf

/-- **The surgery of `doHuffman`** (replay): a run of tokens of `s` from `(p, out)` to the token
boundary `(q, o)`, followed — in a buffer `s'` that has the same bits in `[p, q)` — by an end-of-block
token at `q`, is a complete Huffman block of `s'` that decodes to `o`.  (`hminD`: every distance code is
at least `minD` bits long; `hsz`: `minL` bits are left at `q`.)  This is what makes the cut stream valid:
`writeEndCode` writes the end-of-block code at the checkpoint and nothing before it changes. -/
theorem huffman_surgery (hl hd : Spec.Huff) (minL minD lo : Nat) (s s' : Bytes)
    (hminD : ∀ q dv p2, Spec.decodeSym hd s q minD = .sym dv p2 → q + minD ≤ p2)
    {p q q' : Nat} {out o : Bytes} (h : Reach hl hd minL minD s p out q o)
    (hag : ∀ i, p ≤ i → i < q → Spec.bitAt s' i = Spec.bitAt s i) (hsz : q + minL ≤ 8 * s'.size)
    (heob : Spec.huffTok hl hd minL minD s' q o.size = .eob q') (fuel : Nat) (hf : q - p < fuel) :
    Spec.huffBlock hl hd minL minD s' none lo fuel p out = .next q' o :=
  Cut.replay_eob hl hd minL minD lo s s' hminD h hag hsz heob fuel hf

/-- `writeEndCode` writes exactly the `j` bits of the end-of-block code, most significant bit first, at
the cursor, and changes no other bit of the buffer. -/
theorem writeEndCode_bits (ecb j : Nat) (b b' : Bitstream)
    (h : Cutter.writeEndCodeLoop ecb j b = .ok b') (h1 : b.nBits ≤ 8 * b.index) (h8 : b.nBits ≤ 8)
    (hi : b.index ≤ b.bytes.size) :
    ∀ i, Spec.bitAt b'.bytes i =
      if 8 * b.index - b.nBits ≤ i ∧ i < 8 * b.index - b.nBits + j then
        (ecb.testBit (j - 1 - (i - (8 * b.index - b.nBits)))).toNat
      else Spec.bitAt b.bytes i :=
  (Cut.writeEndCodeLoop_bits ecb j b b' h h1 h8 hi).2.2.2.2

/-- **cut_prefix for a stream that is one final fixed-Huffman block** (`_partial`: several blocks,
dynamic headers and stored blocks behind Huffman blocks are missing): for every such stream `s` — the
header bits say "final, fixed Huffman" (`h0`, `h12`) and the spec decoder maps it to `T` — every limit
and with or without a writer, a successful `Cut` yields a complete DEFLATE stream in the first
`encodedLen` bytes of the buffer that decodes to exactly the first `decodedLen` bytes of `T`, which is
also what the writer receives.  The proof covers the three ways out of `cut`: the whole block fits
(padding bits cleared), the block is cut at a symbol boundary (end-of-block code written at the
checkpoint, final bit patched, padding cleared), or `cutSingleBlock` takes over. -/
theorem cut_prefix_fixed_block_partial (w : Bool) (s T : Bytes) (n0 : Nat) (limit : Int) (r : CutResult)
    (hs : Spec.inflate s = some (T, n0)) (h0 : Spec.bitAt s 0 = 1) (h12 : Spec.bitsLE s 1 2 = 1)
    (hT : T.size < 2147483648) (h : Cut.Cut w s limit = .ok r) :
    Spec.inflate (r.encoded.extract 0 r.encodedLen) = some (T.extract 0 r.decodedLen, r.encodedLen) ∧
    r.decodedLen ≤ T.size ∧ (w = true → r.written = T.extract 0 r.decodedLen) :=
  Cut.Cut_fixed_block w s T n0 limit r hs h0 h12 hT h

/-- **cut_prefix for every valid stream of stored and fixed-Huffman blocks** — any number of blocks in any
order, at any bit alignment (`_partial`: dynamic blocks are missing; `hnd` says that no block the spec
decoder reaches — `RReach #[] s n p out`: after `n` complete non-final blocks it stands at bit `p` — has
block type 2).  For every limit and with or without a writer, a successful `Cut` yields a complete
DEFLATE stream in the first `encodedLen` bytes of the buffer that decodes to exactly the first
`decodedLen` bytes of the original output, which is also what the writer receives.  The proof is the
block loop of `cut` in lock-step with the block loop of the spec decoder (`Cut.cutLoop_walk`): a block
that fits is walked completely (`BlockSim.nil`, the walk `RReach` grows); otherwise the stream ends in
this block — a stored block is shortened and its LEN/NLEN rewritten, a Huffman block gets an
end-of-block code at the last checkpoint — or just before it (the previous block is made final), or
`cutSingleBlock` re-encodes the beginning; `Cut.good_final` replays the kept blocks on the cut buffer. -/
theorem cut_prefix_nodynamic_partial (w : Bool) (s T : Bytes) (n0 : Nat) (limit : Int) (r : CutResult)
    (hs : Spec.inflate s = some (T, n0)) (hT : T.size < 2147483648)
    (hnd : ∀ n p out, Cut.RReach #[] s n p out → Spec.bitsLE s (p + 1) 2 ≠ 2)
    (h : Cut.Cut w s limit = .ok r) :
    Spec.inflate (r.encoded.extract 0 r.encodedLen) = some (T.extract 0 r.decodedLen, r.encodedLen) ∧
    r.decodedLen ≤ T.size ∧ (w = true → r.written = T.extract 0 r.decodedLen) :=
  Cut.Cut_nodyn w s T n0 limit r hs hT hnd h

/-- **cut_prefix — THE property, for EVERY valid DEFLATE stream**: `s` is any byte string that the
RFC 1951 spec decoder maps to `T` — stored, fixed-Huffman and dynamic-Huffman blocks, any number of them
in any order, at any bit alignment, any trailing bytes — `limit` is any limit, `w` says whether a writer
is passed.  Whenever `Cut` succeeds,
* the first `encodedLen` bytes of the modified buffer are a complete valid DEFLATE stream (the spec
  decoder consumes exactly `encodedLen` bytes) whose decompression is exactly the first `decodedLen`
  bytes of the original decompression,
* `decodedLen ≤ |T|`,
* it is the whole original when the limit is not smaller than the stream,
* and the writer receives exactly those bytes.
(`encodedLen ≤ limit` and `≤ len`: `cut_lengths_in_bounds`; no panic on arbitrary bytes:
`cut_never_panics`.)
Proof: `Cut.cutLoop_walk` (the block loop of `cut` in lock-step with the spec's block loop) over
`stored_blocksim`, `fixed_blocksim`, `dynamic_blocksim` (the header parser of `doDynamicHuffman` against
`Spec.dynamicHeader`: `doDynamicHuffman_eq`, `readCLL_sim`, `readLengths_sim`, `mkHuff_pad`), the
locality of the spec decoder (`blockAt_stored/fixed/dynamic`, `dynamicHeader_local`, `huffTok_local`),
`decode_agrees_with_spec`, `huffman_walk_tracks_spec`, `huffman_surgery`, `eob_decodes` (via
`endCode_canonical`), the bit-level effect of the in-place writes (`writeEndCode_bits`,
`patchFinalBit_bits`, `finish_bits`), `cutSingleBlock_prefix`; third clause: `Cut.cutLoop_whole`
(`huffLoop_full`: a block that ends inside the budget is walked to its end). -/
theorem cut_prefix (w : Bool) (s T : Bytes) (n0 : Nat) (limit : Int) (r : CutResult)
    (hs : Spec.inflate s = some (T, n0)) (hT : T.size < 2147483648) (h : Cut.Cut w s limit = .ok r) :
    Spec.inflate (r.encoded.extract 0 r.encodedLen) = some (T.extract 0 r.decodedLen, r.encodedLen) ∧
    r.decodedLen ≤ T.size ∧
    ((s.size : Int) ≤ limit → s.size ≤ 2 ^ 30 → r.decodedLen = T.size) ∧
    (w = true → r.written = T.extract 0 r.decodedLen) :=
  let h3 := Cut.Cut_all w s T n0 limit r hs hT h
  ⟨h3.1, h3.2.1, fun a b => Cut.Cut_whole w s T n0 limit r hs hT h a b, h3.2.2⟩

/-- **zlibcut_prefix for zlib streams without a preset dictionary** (the case with FDICT is
`zlibcut_prefix_fdict`, both together `zlibcut_prefix`; the name is kept from round 2): for every valid zlib stream
`s` (RFC 1950 header, DEFLATE data, Adler-32) whose FDICT bit is clear and every limit, a successful
`zlibcut.Cut` yields, in the first `encodedLen` bytes of the buffer, a complete valid zlib stream — the
same header, the DEFLATE data as cut by `flatecut.Cut`, and the big-endian Adler-32 of the decoded prefix
— that decodes to exactly the first `decodedLen` bytes of the original decompression; the writer receives
those bytes. -/
theorem zlibcut_prefix_partial (s T : Bytes) (n : Nat) (limit : Int) (r : CutResult)
    (hz : Spec.zlibDecode #[] s = some (T, n)) (hnd : ¬ ((s.getD 1 0).toNat / 32 % 2 = 1))
    (hT : T.size < 2147483648) (h : ZlibCut.Cut s limit = .ok r) :
    Spec.zlibDecode #[] (r.encoded.extract 0 r.encodedLen) = some (T.extract 0 r.decodedLen, r.encodedLen) ∧
    r.decodedLen ≤ T.size ∧ r.written = T.extract 0 r.decodedLen :=
  let h4 := ZlibCut.Cut_prefix s T n limit r hz hnd hT h
  ⟨h4.1, h4.2.1, h4.2.2.1⟩

/-- The spec decoder only looks at the bits of the stream: a buffer with the same bytes up to the end of
the final block decodes to the same output (used for the zlib trailer and for the cut buffers). -/
theorem inflate_local (s s'' T : Bytes) (n0 : Nat) (h : Spec.inflate s = some (T, n0))
    (hag : ∀ j, j < n0 → s''.getD j 0 = s.getD j 0) (hsz : n0 ≤ s''.size) :
    Spec.inflate s'' = some (T, n0) :=
  Cut.inflate_local s s'' T n0 h hag hsz

/-- non-vacuity: `4b 04 00` (the letter "a" as one final fixed-Huffman block) meets the hypotheses. -/
example : Spec.bitAt #[0x4b, 0x04, 0x00] 0 = 1 ∧ Spec.bitsLE #[0x4b, 0x04, 0x00] 1 2 = 1 := by decide

set_option maxRecDepth 100000 in
example : Spec.inflate #[0x4b, 0x04, 0x00] = some (#[0x61], 3) := by decide +kernel


/-! ## 7. Streams with a preset dictionary (round 3)

`flatecut.Cut` walks the blocks without ever looking at the decoded bytes, so it does not need the
dictionary; but `cutSingleBlock` and `Cut(w != nil)` re-decode with `flate.NewReader`, i.e. WITHOUT the
dictionary.  `zlibcut.Cut` always passes a writer (the Adler-32 hasher).  The theorems below say that this
is sound: whenever `Cut` succeeds, the result is right *with respect to the dictionary*; when the kept part
refers to the dictionary, the re-decoding fails and `Cut` returns that error (allowed by the property,
which speaks about successful cuts). -/

/-- The spec decoder and preset dictionaries: a stream that decodes without a dictionary decodes to the
same bytes with any dictionary in front (distances never reach into it). -/
theorem inflate_dict_irrelevant (dict s T : Bytes) (n : Nat) (h : Spec.inflate s = some (T, n)) :
    Spec.inflateDict dict s = some (T, n) := by
  obtain ⟨pE, hb, hn⟩ := Cut.inflate_blocks s T n h
  have hd := Spec.blocks_dict (Cut.truncDict dict) s none 0 _ _ _ _ _ _ hb (by simp)
  rw [Nat.zero_add, Array.append_empty, Spec.blocks_lo _ _ 0] at hd
  exact (Cut.inflateDict_blocks dict s T n).mpr ⟨pE, hd, hn⟩

/-- The run of the spec decoder WITH a dictionary `D` in front of its output reproduces the run without
it, unless that run ends in `corrupt` — for every stream, every output cap, every starting point.  This is
what makes the dictionary-less re-decoding inside `flatecut` sound. -/
theorem blocks_dict_mono (D s : Bytes) (cap : Option Nat) (lo fuel p : Nat) (out : Bytes) (st : Spec.Status)
    (p' : Nat) (out' : Bytes) (h : Spec.blocks s cap lo fuel p out = ⟨st, p', out'⟩) (hst : st ≠ .corrupt) :
    Spec.blocks s cap (lo + D.size) fuel p (D ++ out) = ⟨st, p', D ++ out'⟩ :=
  Spec.blocks_dict D s cap lo fuel p out st p' out' h hst

/-- **cut_prefix for every DEFLATE stream that is valid with a preset dictionary** (`flate.NewReaderDict`;
the payload of a zlib stream with FDICT): `s` is any byte string that the spec decoder, given `dict`, maps
to `T`.  Whenever `flatecut.Cut` succeeds, the first `encodedLen` bytes of the modified buffer are a complete
DEFLATE stream that, decoded with the same dictionary, yields exactly the first `decodedLen` bytes of `T`;
`decodedLen ≤ |T|`; the writer receives those bytes.  (`dict = #[]` is `cut_prefix` again; the side
condition is 32 KiB stronger because the dictionary sits in front of the decoder's output.)
Proof: the whole simulation of round 2 (`cutLoop_walk`, `BlockSim`, `RReach`, …) generalised from
`decodedLen = |out|` to `decodedLen + |D| = |out|`, `cutSingleBlock_good_dict` (the dictionary-less inflate
either fails or is the run with the dictionary: `blocks_dict_mono`, `blocks_corrupt_lt`), `redecode_nodict`. -/
theorem cut_prefix_dict (w : Bool) (dict s T : Bytes) (n0 : Nat) (limit : Int) (r : CutResult)
    (hs : Spec.inflateDict dict s = some (T, n0)) (hT : T.size + 32768 < 2147483648)
    (h : Cut.Cut w s limit = .ok r) :
    Spec.inflateDict dict (r.encoded.extract 0 r.encodedLen) = some (T.extract 0 r.decodedLen, r.encodedLen) ∧
    r.decodedLen ≤ T.size ∧ (w = true → r.written = T.extract 0 r.decodedLen) :=
  Cut.Cut_all_dict w dict s T n0 limit r hs hT h

/-- **zlibcut_prefix for zlib streams WITH a preset dictionary**: for every valid zlib stream `s` whose FDICT
bit is set (RFC 1950 header, DICTID = Adler-32 of `dict`, DEFLATE data that is valid with `dict`, Adler-32)
and every limit, a successful `zlibcut.Cut` yields, in the first `encodedLen` bytes of the buffer, a
complete valid zlib stream — same header and DICTID, the DEFLATE data as cut by `flatecut.Cut`, the
big-endian Adler-32 of the decoded prefix — that decodes WITH THE SAME DICTIONARY to exactly the first
`decodedLen` bytes of the original decompression; the writer receives those bytes. -/
theorem zlibcut_prefix_fdict (dict s T : Bytes) (n : Nat) (limit : Int) (r : CutResult)
    (hz : Spec.zlibDecode dict s = some (T, n)) (hd : (s.getD 1 0).toNat / 32 % 2 = 1)
    (hT : T.size + 32768 < 2147483648) (h : ZlibCut.Cut s limit = .ok r) :
    Spec.zlibDecode dict (r.encoded.extract 0 r.encodedLen) = some (T.extract 0 r.decodedLen, r.encodedLen) ∧
    r.decodedLen ≤ T.size ∧ r.written = T.extract 0 r.decodedLen :=
  let h4 := ZlibCut.Cut_prefix_fdict dict s T n limit r hz hd hT h
  ⟨h4.1, h4.2.1, h4.2.2.1⟩

/-- **zlibcut_prefix — THE property for EVERY valid zlib stream**, with or without a preset dictionary
(`dict` is not looked at when the FDICT bit is clear), every limit.  (`encodedLen ≤ limit` and `≤ len`:
`zlibcut_lengths_in_bounds`; no panic on arbitrary bytes: `zlibcut_never_panics`.) -/
theorem zlibcut_prefix (dict s T : Bytes) (n : Nat) (limit : Int) (r : CutResult)
    (hz : Spec.zlibDecode dict s = some (T, n)) (hT : T.size + 32768 < 2147483648)
    (h : ZlibCut.Cut s limit = .ok r) :
    Spec.zlibDecode dict (r.encoded.extract 0 r.encodedLen) = some (T.extract 0 r.decodedLen, r.encodedLen) ∧
    r.decodedLen ≤ T.size ∧ r.written = T.extract 0 r.decodedLen :=
  ZlibCut.Cut_prefix_all dict s T n limit r hz hT h

/-- `zlibcut.Cut` keeps the FLG byte of the zlib header (hence the FDICT bit) — for every valid zlib stream. -/
theorem zlibcut_keeps_flg (dict s T : Bytes) (n : Nat) (limit : Int) (r : CutResult)
    (hz : Spec.zlibDecode dict s = some (T, n)) (hT : T.size + 32768 < 2147483648)
    (h : ZlibCut.Cut s limit = .ok r) :
    (r.encoded.extract 0 r.encodedLen).getD 1 0 = s.getD 1 0 := by
  by_cases hd : (s.getD 1 0).toNat / 32 % 2 = 1
  · exact (ZlibCut.Cut_prefix_fdict dict s T n limit r hz hd hT h).2.2.2
  · rw [ZlibCut.zlibDecode_nodict dict s hd] at hz
    exact (ZlibCut.Cut_prefix s T n limit r hz hd (by omega) h).2.2.2

/-- non-vacuity: "0123456789hello wuffs" deflated by zlib with the preset dictionary "hello wuffs" (25
bytes, FDICT set, the tail is a match into the dictionary) meets the hypotheses of `zlibcut_prefix_fdict`. -/
def exDict : Bytes := #[0x68, 0x65, 0x6c, 0x6c, 0x6f, 0x20, 0x77, 0x75, 0x66, 0x66, 0x73]
def exFdict : Bytes := #[0x78, 0xf9, 0x1a, 0x02, 0x04, 0x60, 0x33, 0x30, 0x34, 0x32, 0x36, 0x31, 0x35, 0x33, 0xb7,
  0xb0, 0xcc, 0x40, 0x08, 0x02, 0x00, 0x3b, 0x90, 0x06, 0x6d]

example : (exFdict.getD 1 0).toNat / 32 % 2 = 1 := by decide

set_option maxRecDepth 1000000 in
example : (Spec.zlibDecode exDict exFdict).map (fun x => (x.1.size, x.2)) = some (21, 25) := by decide +kernel


/-! ## 8. The bytes behind `encodedLen` are left alone — for ALL byte strings and limits (round 3)

Not part of the property's wording, but what callers that keep other data behind the cut rely on (and
what the harness checks on every case as `tail-modified`). -/

/-- **`flatecut.Cut` never modifies a byte at a position ≥ `encodedLen`**, whatever the bytes and the limit:
every in-place write lies below the returned cursor — the LEN/NLEN rewrite of `doStored`, the bits of
`writeEndCode`, the final-bit patch of this block or of the previous one, the padding mask, the stored
block / the two bytes of `cutSingleBlock`.  Needs that the cursor only moves forward through a block
(`BlockTotal.cont/prog`, `huffLoop_cpge`: every checkpoint lies behind the start of its block). -/
theorem cut_tail_unchanged (w : Bool) (encoded : Bytes) (limit : Int) (r : CutResult)
    (h : Cut.Cut w encoded limit = .ok r) :
    ∀ k, r.encodedLen ≤ k → r.encoded.getD k 0 = encoded.getD k 0 :=
  Cut.Cut_frame w encoded limit r h

/-- … and neither does `zlibcut.Cut` (the four Adler-32 bytes are the last four of the result). -/
theorem zlibcut_tail_unchanged (encoded : Bytes) (limit : Int) (r : CutResult)
    (h : ZlibCut.Cut encoded limit = .ok r) :
    ∀ k, r.encodedLen ≤ k → r.encoded.getD k 0 = encoded.getD k 0 :=
  ZlibCut.Cut_frame encoded limit r h

/-- `cutSingleBlock` (the fallback) returns at least 2 bytes, at most the budget, and keeps the buffer size. -/
theorem cutSingleBlock_lengths (enc : Bytes) (m : Nat) (enc' : Bytes) (e d : Nat)
    (h : Cut.cutSingleBlock enc m = .ok (enc', e, d)) (hm : m ≤ enc.size) :
    e ≤ m ∧ 2 ≤ e ∧ enc'.size = enc.size :=
  Cut.cutSingleBlock_spec enc m enc' e d h hm


/-- The documented minimum: `flatecut.Cut` succeeds only for `maxEncodedLen ≥ SmallestValidMaxEncodedLen = 2`
(below it the result is errMaxEncodedLenTooSmall), whatever the bytes. -/
theorem cut_needs_minimum (w : Bool) (encoded : Bytes) (limit : Int) (r : CutResult)
    (h : Cut.Cut w encoded limit = .ok r) : 2 ≤ limit := by
  rw [Cut.Cut_eq] at h
  split at h
  · simp at h
  · rename_i hlim
    simp only [WuffsVerif.Gen.C16.smallestValidMaxEncodedLen] at hlim
    omega

/-- … and `zlibcut.Cut` only for `maxEncodedLen ≥ SmallestValidMaxEncodedLen = 8` (2 header bytes, the
2-byte minimum of flatecut, 4 Adler-32 bytes). -/
theorem zlibcut_needs_minimum (encoded : Bytes) (limit : Int) (r : CutResult)
    (h : ZlibCut.Cut encoded limit = .ok r) : 8 ≤ limit := by
  simp only [ZlibCut.Cut] at h
  repeat' split at h
  all_goals first
    | (simp at h; done)
    | skip
  all_goals
    rename_i r' hcut _
    have := cut_needs_minimum _ _ _ _ hcut
    simp only [Int.ofNat_eq_natCast] at this
    omega


/-! ## 9. "… the whole original when the limit is not smaller than the stream", with dictionaries and for zlib (round 3) -/

/-- third clause of `cut_prefix` for streams that need a preset dictionary -/
theorem cut_whole_dict (w : Bool) (dict s T : Bytes) (n0 : Nat) (limit : Int) (r : CutResult)
    (hs : Spec.inflateDict dict s = some (T, n0)) (hT : T.size + 32768 < 2147483648)
    (h : Cut.Cut w s limit = .ok r) (hlim : (s.size : Int) ≤ limit) (h30 : s.size ≤ 2 ^ 30) :
    r.decodedLen = T.size :=
  Cut.Cut_whole_dict w dict s T n0 limit r hs hT h hlim h30

/-- **`zlibcut.Cut` returns the whole original when the limit is not smaller than the stream** — every
valid zlib stream, with or without a preset dictionary (up to 1 GiB, where `flatecut.Cut` clamps the
limit).  With `zlibcut_prefix`, `zlibcut_lengths_in_bounds` and `zlibcut_never_panics` this is the
property in full for zlib. -/
theorem zlibcut_whole (dict s T : Bytes) (n : Nat) (limit : Int) (r : CutResult)
    (hz : Spec.zlibDecode dict s = some (T, n)) (hT : T.size + 32768 < 2147483648)
    (h : ZlibCut.Cut s limit = .ok r) (hlim : (s.size : Int) ≤ limit) (h30 : s.size ≤ 2 ^ 30) :
    r.decodedLen = T.size :=
  ZlibCut.Cut_whole_all dict s T n limit r hz hT h hlim h30


/-! ## 10. The result is never shorter than the documented minimum (valid streams; round 3) -/

/-- A complete DEFLATE stream has at least 2 bytes, so by `cut_prefix`/`cut_prefix_dict` a successful `Cut` of
a valid stream returns `encodedLen ≥ SmallestValidMaxEncodedLen = 2`. -/
theorem cut_result_at_least_minimum (w : Bool) (dict s T : Bytes) (n0 : Nat) (limit : Int) (r : CutResult)
    (hs : Spec.inflateDict dict s = some (T, n0)) (hT : T.size + 32768 < 2147483648)
    (h : Cut.Cut w s limit = .ok r) : 2 ≤ r.encodedLen :=
  Cut.inflateDict_min dict _ _ _ (cut_prefix_dict w dict s T n0 limit r hs hT h).1

/-- … and a successful `zlibcut.Cut` of a valid zlib stream returns `encodedLen ≥ 8`. -/
theorem zlibcut_result_at_least_minimum (dict s T : Bytes) (n : Nat) (limit : Int) (r : CutResult)
    (hz : Spec.zlibDecode dict s = some (T, n)) (hT : T.size + 32768 < 2147483648)
    (h : ZlibCut.Cut s limit = .ok r) : 8 ≤ r.encodedLen :=
  Cut.zlibDecode_min dict _ _ _ (zlibcut_prefix dict s T n limit r hz hT h).1

end WuffsVerif.Props.C16
