/-
C16 — cutting DEFLATE/zlib data yields a valid stream that decodes to a prefix.

Property theorems over `Model/Flate/Cut.lean` and `Model/Flate/ZlibCut.lean` (which mirror
/repo/lib/flatecut/flatecut.go and /repo/lib/zlibcut/zlibcut.go function by function, with
`compress/flate` replaced by the RFC 1951 spec decoder `Model/Flate/Spec.lean`).
Helper lemmas live in `Proof/Flate/*.lean`.

Reading guide: `Cut.Cut w encoded limit = .ok r` is "Go's `Cut(w, encoded, limit)` returned a nil
error"; `r.encoded` is the buffer after the in-place modification, `r.encodedLen`/`r.decodedLen`
the two returned lengths, `r.written` what `w` received.
-/
import WuffsVerif.Proof.Flate.Bounds3
import WuffsVerif.Proof.Flate.StoredCut3
import WuffsVerif.Proof.Flate.StoredEnc

namespace WuffsVerif.Props.C16
open WuffsVerif.Flate WuffsVerif.Flate.Cut WuffsVerif.Flate.Spec

/-- byte strings (`Spec.Bytes` and `Cut.Bytes` are both this) -/
abbrev Bytes := Array UInt8

/-! ## 1. Lengths stay inside the limit and the buffer — for ALL byte strings and limits

This is the part of the property that also covers arbitrary (invalid) input, and it is the
part that the unrepaired code violated (an empty Huffman block whose end-of-block code crossed
`maxEncodedLen`, see fixes/C16-empty-huffman-block-overruns-limit.patch): the proof goes through
only because of the budget check added to the end-of-block branch of `doHuffman`. -/

/-- `flatecut.Cut`: on success `encodedLen ≤ maxEncodedLen`, `encodedLen ≤ len(encoded)` and the
buffer keeps its length, whatever the bytes are. -/
theorem cut_lengths_in_bounds (w : Bool) (encoded : Bytes) (limit : Int) (r : CutResult)
    (h : Cut.Cut w encoded limit = .ok r) :
    (r.encodedLen : Int) ≤ limit ∧ r.encodedLen ≤ encoded.size ∧ r.encoded.size = encoded.size :=
  Cut.Cut_lengths_in_bounds w encoded limit r h

set_option maxRecDepth 100000 in
/-- non-vacuity: a stored block "AB" cut at 6 bytes succeeds (`eLen = 6`, `dLen = 1`). -/
example : (match Cut.Cut false #[0x01, 0x02, 0x00, 0xFD, 0xFF, 0x41, 0x42] 6 with
    | .ok r => r.encodedLen == 6 && r.decodedLen == 1 | .error _ => false) = true := by decide +kernel

/-- `zlibcut.Cut`: the same. -/
theorem zlibcut_lengths_in_bounds (encoded : Bytes) (limit : Int) (r : CutResult)
    (h : ZlibCut.Cut encoded limit = .ok r) :
    (r.encodedLen : Int) ≤ limit ∧ r.encodedLen ≤ encoded.size ∧ r.encoded.size = encoded.size :=
  ZlibCut.Cut_lengths_in_bounds encoded limit r h

/-- The block functions never leave the cursor outside the budget when they report `nil` or
`errInternalSomeProgress` (the invariant `cut` relies on). -/
theorem block_functions_respect_budget (c : Cutter) (isFirst : Bool) :
    BlockOK c c.doStored ∧ BlockOK c (c.doStaticHuffman isFirst) ∧ BlockOK c (c.doDynamicHuffman isFirst) :=
  ⟨doStored_ok c, doStaticHuffman_ok c isFirst, doDynamicHuffman_ok c isFirst⟩

/-- `writeEndCode` advances the cursor by exactly `endCodeNBits` bits and stays inside the buffer
(`8*index + 8 - nBits` is the bit position plus 8). -/
theorem writeEndCode_advances (c c' : Cutter) (h : c.writeEndCode = .ok c') (hn : c.bits.nBits ≤ 8)
    (hj : 1 ≤ c.endCodeNBits) :
    c'.bits.bytes.size = c.bits.bytes.size ∧
    8 * c'.bits.index + 8 - c'.bits.nBits = 8 * c.bits.index + 8 - c.bits.nBits + c.endCodeNBits :=
  let h' := writeEndCode_spec c c' h hn hj
  ⟨h'.2.1, h'.2.2.1⟩

/-! ## 2. The spec decoder is a sane specification (stored blocks) -/

/-- Round trip of `Spec.inflate` against a Lean stored-block *encoder*: any number of blocks of at
most 65535 bytes each, any trailing bytes; the consumed length is exactly the encoder's output. -/
theorem inflate_stored_roundtrip (ds : List Bytes) (dl post : Bytes)
    (hds : ∀ d ∈ ds, d.size ≤ 65535) (hdl : dl.size ≤ 65535) :
    Spec.inflate (encodeStored ds dl ++ post) = some (flat ds ++ dl, (encodeStored ds dl).size) :=
  Spec.inflate_stored_roundtrip ds dl post hds hdl

/-- non-vacuity / a concrete instance: two blocks "A", "BC" and a trailing byte. -/
example : Spec.inflate (encodeStored [#[0x41]] #[0x42, 0x43] ++ #[0xFF]) = some (#[0x41, 0x42, 0x43], 13) := by
  rw [inflate_stored_roundtrip _ _ _ (by simp) (by simp)]
  rfl

/-- `Spec.inflate` on *any* byte string that is laid out as stored blocks (arbitrary padding bits in
the header bytes, arbitrary bytes after the final block): `Run s 0 ds` = non-final blocks carrying
`ds` back to back from byte 0, `BlkAt s q dl true` = the final block. -/
theorem inflate_stored_layout (s : Bytes) (ds : List Bytes) (dl : Bytes)
    (hr : Run s 0 ds) (hl : BlkAt s (endOf 0 ds) dl true) :
    Spec.inflate s = some (flat ds ++ dl, endOf 0 ds + 5 + dl.size) :=
  Spec.inflate_stored s ds dl hr hl

/-- The two-byte stream that `cutSingleBlock` falls back to decodes to nothing. -/
theorem inflate_empty_fixed_block : Spec.inflate #[3, 0] = some (#[], 2) := Spec.inflate_0300

/-! ## 3. THE property

Full statement (`cut_prefix`), for every valid DEFLATE stream:

-- OPEN: theorem cut_prefix (w : Bool) (s : Bytes) (out : Bytes) (n : Nat) (limit : Int) (r : CutResult)
--     (hs : Spec.inflate s = some (out, n)) (h : Cut.Cut w s limit = .ok r) :
--     Spec.inflate (r.encoded.extract 0 r.encodedLen) = some (out.extract 0 r.decodedLen, r.encodedLen) ∧
--     r.decodedLen ≤ out.size ∧
--     ((s.size : Int) ≤ limit → s.size ≤ 2 ^ 30 → r.decodedLen = out.size) ∧
--     (w = true → r.written = out.extract 0 r.decodedLen)
-- (needs, for Huffman blocks: `lookup_eq_slow`, `construct_canonical`, the agreement of
--  `doDynamicHuffman`'s header parser with `Spec.dynamicHeader`, and locality of `Spec.inflate`
--  under the end-code/final-bit surgery; not closed in this effort.  Note the `s.size ≤ 2^30`
--  premise: `Cut` clamps `maxEncodedLen` to 1 GiB, so for longer streams "limit ≥ len ⇒ whole" is
--  false of the code as written.)

What is proved is the statement for every stream that consists of stored blocks — this covers
`doStored` (shortening + LEN/NLEN rewrite), the final-bit patching of the previous block in `cut`,
the `errInternalNoProgress` un-read, and the `cutSingleBlock` fallback (both of its outcomes). -/

/-- **cut_prefix for streams of stored blocks** (`_partial`: Huffman blocks are missing).
`hT` excludes outputs of 2 GiB or more (where Go's `int32` `decodedLen` would overflow). -/
theorem cut_prefix_stored_partial (w : Bool) (s : Bytes) (ds : List Bytes) (dl : Bytes) (limit : Int)
    (r : CutResult)
    (hr : Run s 0 ds) (hl : BlkAt s (endOf 0 ds) dl true)
    (hT : (flat ds ++ dl).size < 2147483648)
    (h : Cut.Cut w s limit = .ok r) :
    Spec.inflate (r.encoded.extract 0 r.encodedLen) =
        some ((flat ds ++ dl).extract 0 r.decodedLen, r.encodedLen) ∧
    r.decodedLen ≤ (flat ds ++ dl).size ∧
    ((s.size : Int) ≤ limit → s.size ≤ 2 ^ 30 → r.decodedLen = (flat ds ++ dl).size) ∧
    (w = true → r.written = (flat ds ++ dl).extract 0 r.decodedLen) :=
  Cut.Cut_stored w s ds dl limit r hr hl hT h

/-- The same, phrased with the encoder: cutting `encodeStored ds dl ++ post` yields a stream that
the spec decoder maps to a prefix of `flat ds ++ dl` — where `Spec.inflate` of the *original* is
`flat ds ++ dl` by `inflate_stored_roundtrip`. -/
theorem cut_prefix_encodeStored_partial (w : Bool) (ds : List Bytes) (dl post : Bytes) (limit : Int)
    (r : CutResult)
    (hds : ∀ d ∈ ds, d.size ≤ 65535) (hdl : dl.size ≤ 65535)
    (hT : (flat ds ++ dl).size < 2147483648)
    (h : Cut.Cut w (encodeStored ds dl ++ post) limit = .ok r) :
    Spec.inflate (r.encoded.extract 0 r.encodedLen) =
        some ((flat ds ++ dl).extract 0 r.decodedLen, r.encodedLen) ∧
    r.decodedLen ≤ (flat ds ++ dl).size := by
  have hrun := Spec.encodeStored_run #[] post ds dl hds hdl
  simp only [Array.empty_append, Array.size_empty] at hrun
  have := Cut.Cut_stored w _ ds dl limit r hrun.1 hrun.2.1 hT h
  exact ⟨this.1, this.2.1⟩

set_option maxRecDepth 100000 in
/-- non-vacuity: the hypothesis `Cut … = .ok r` of the theorem above is satisfiable
(stored "AB" cut at 6 bytes gives `eLen = 6`, `dLen = 1`). -/
example : (match Cut.Cut true (encodeStored [] #[0x41, 0x42] ++ #[]) 6 with
    | .ok r => r.encodedLen == 6 && r.decodedLen == 1 && r.written == #[0x41] | .error _ => false) = true := by
  decide +kernel

end WuffsVerif.Props.C16
