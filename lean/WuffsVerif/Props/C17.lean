/-
C17 — literal-only LZMA/XZ (lib/litonlylzma): property theorems over `Model/Lzma.lean`.
-/
import WuffsVerif.Model.Lzma

namespace WuffsVerif.Props.C17
open WuffsVerif.Lzma

/-- `probUp`/`probDown` keep a probability inside `[31, 2017]`. -/
theorem prob_step_range (p : Nat) (h : 31 ≤ p ∧ p ≤ 2017) :
    (31 ≤ probUp p ∧ probUp p ≤ 2017) ∧ (31 ≤ probDown p ∧ probDown p ≤ 2017) := by
  unfold probUp probDown maxProb minProb probBits adaptShift
  simp only [Nat.shiftRight_eq_div_pow]
  omega

end WuffsVerif.Props.C17
