/-
C17 — literal-only LZMA/XZ (lib/litonlylzma): lossless round trip, total decoder.
Property theorems over `Model/Lzma.lean` (which mirrors lib/litonlylzma/litonlylzma.go function by
function).  Helper lemmas live in `Proof/Lzma*.lean`.

Conformance of the encodings to FULL LZMA/XZ decoders (`xz_conformance`) is not a theorem here: it is
covered by the tie only (xz tool, Wuffs std/lzma + std/xz on every generated payload).
-/
import WuffsVerif.Proof.LzmaAppend
import WuffsVerif.Proof.LzmaHeaders
import WuffsVerif.Proof.LzmaWuffsSim
import WuffsVerif.Proof.XzWuffsSim
import WuffsVerif.Proof.LzmaBound2
import WuffsVerif.Proof.LzmaFuel

namespace WuffsVerif.Props.C17
open WuffsVerif.Lzma

/-! ## prob_range -/

/-- `prob_range`, one step: both adaptation directions keep a probability inside `[31, 2017]`
    (so `threshold` is never 0 and never the whole width). -/
theorem prob_step_range (p : Nat) (h : 31 ≤ p ∧ p ≤ 2017) :
    (31 ≤ probUp p ∧ probUp p ≤ 2017) ∧ (31 ≤ probDown p ∧ probDown p ≤ 2017) :=
  ⟨probUp_ok h, probDown_ok h⟩

/-- the bounds are attained: 2017 and 31 are fixed points, 2016 still moves up, 32 still moves down -/
example : probUp 2017 = 2017 ∧ probUp 2016 = 2017 ∧ probDown 31 = 31 ∧ probDown 32 = 31 := by decide

/-- `prob_range` for the encoder: every probability `encodeBit` leaves behind is in range. -/
theorem prob_range_encodeBit (p : Nat) (e : RangeEncoder) (b : Nat) (h : ProbOK p) :
    ProbOK (encodeBit p e b).1 := by
  rw [encodeBit_eq]
  split
  · exact probUp_ok h
  · exact probDown_ok h

/-- `prob_range` for the decoder, on ARBITRARY input (no assumption on `d`). -/
theorem prob_range_decodeBit (p : Nat) (d : RangeDecoder) (b p' : Nat) (d' : RangeDecoder) (h : ProbOK p)
    (hd : decodeBit p d = some (b, p', d')) : ProbOK p' := by
  unfold decodeBit at hd
  dsimp only at hd
  split at hd
  · split at hd
    · split at hd
      · cases hd
      · cases hd; exact probUp_ok h
    · cases hd; exact probUp_ok h
  · split at hd
    · split at hd
      · cases hd
      · cases hd; exact probDown_ok h
    · cases hd; exact probDown_ok h

/-- `prob_range` for the tables: `encodeByte` keeps every entry of the probability table in range … -/
theorem prob_range_encodeByte (probs : Array Nat) (base : Nat) (e : RangeEncoder) (bv : UInt8)
    (hv : Valid e) (hp : ProbsOK probs) : ProbsOK (encodeByte probs base e bv).1 :=
  (byte_ok base bv probs e hv hp).2.1

/-- … and so does `decodeByte`, whatever the input bytes are. -/
theorem prob_range_decodeByteLoop (base : Nat) : ∀ (n index : Nat) (probs : Array Nat) (d : RangeDecoder)
    (r : Nat × Array Nat × RangeDecoder), ProbsOK probs →
    decodeByteLoop base n index probs d = some r → ProbsOK r.2.1 := by
  intro n
  induction n with
  | zero =>
    intro index probs d r hp h
    simp only [decodeByteLoop] at h
    cases h; exact hp
  | succ n ih =>
    intro index probs d r hp h
    simp only [decodeByteLoop] at h
    split at h
    · cases h
    · rename_i bitValue p' d' hd
      exact ih _ _ _ r (probsOK_set hp _ _ (prob_range_decodeBit _ _ _ _ _ (hp _) hd)) h

/-! ## rc_invariant -/

/-- `shiftLow`, the carry lemma: the number denoted by (bytes emitted, pending head, pending 0xFF run, low)
    is multiplied by exactly 256 in each of the three branches — in the carry branch (`low ≥ 2^32`) the
    carry is added to `pendingHead` and propagates through a pending run of ANY length, turning it into
    0x00 bytes.  The side condition `pendingHead < 255` when there is a carry follows from the interval
    invariant (`Inv.j`, see `normalize_spec`). -/
theorem shiftLow_carry (e : RangeEncoder) (hlow : e.low < 2 ^ 33)
    (hc : 2 ^ 32 ≤ e.low → e.pendingHead.toNat < 255) :
    Lval e.shiftLow = 256 * Lval e ∧ (digits e.shiftLow).length = (digits e).length + 1 ∧
    e.shiftLow.width = e.width ∧ e.shiftLow.low < 2 ^ 32 :=
  shiftLow_spec e hlow hc

/-- non-vacuity, a carry through a run of three pending 0xFF bytes: 12 FF FF FF | 1_00000005 → 13 00 00 00 | 00… -/
example : (RangeEncoder.shiftLow ⟨#[], 0x100000005, 0x1000000, 0x12, 3⟩).dst = #[0x13, 0, 0, 0] := by decide

/-- `rc_invariant`.  (1) the initial state is valid; (2) every `encodeBit` with an in-range probability keeps
    the state valid, and a code that lies in the interval `[L, L + width)` after the bit lay in it before
    the bit (intervals are nested, at every scale); (3) the flush emits exactly `L`, so the final output
    lies in the final interval — hence, by (2), in the interval of EVERY earlier state; (4) a decoder that
    holds `(bits, width) = (code − L, width)` before the bit decodes the same bit, adapts the probability
    identically, and holds `(code − L', width')` afterwards. -/
theorem rc_invariant :
    Valid encInit ∧
    (∀ (p : Nat) (e : RangeEncoder) (b : Nat), Valid e → ProbOK p →
        Valid (encodeBit p e b).2 ∧ ∀ out, Inside (encodeBit p e b).2 out → Inside e out) ∧
    (∀ e : RangeEncoder, Valid e → Inside e e.flush.dst.toList ∧ e.flush.dst.toList.length = nDig e) ∧
    (∀ (p : Nat) (e : RangeEncoder) (d : RangeDecoder) (out tail : List UInt8) (b : Nat),
        Valid e → ProbOK p → (b = 0 ∨ b = 1) → Sync e d out tail → Inside (encodeBit p e b).2 out →
        ∃ d', decodeBit p d = some (b, (encodeBit p e b).1, d') ∧ Sync (encodeBit p e b).2 d' out tail) := by
  refine ⟨encInit_valid, ?_, ?_, ?_⟩
  · intro p e b hv hp
    rw [encodeBit_eq]
    exact ⟨encodeBit_valid b hv hp, fun out h => encodeBit_inside b hv hp h⟩
  · intro e hv
    obtain ⟨flen, fval⟩ := flush_spec e hv
    have hw := hv.wlo
    refine ⟨⟨by omega, ?_, ?_⟩, flen⟩
    · rw [← flen, List.take_length, fval]; omega
    · rw [← flen, List.take_length, fval]; omega
  · intro p e d out tail b hv hp hb hs hin
    rw [encodeBit_eq] at hin
    exact decodeBit_sync b hv hp hb hs hin

/-! ## round trips -/

/-- `raw_roundtrip`: `decodeRaw (encodeRaw src) |src| = (src, [], ok)` — stated with an arbitrary `dst` to
    append to, an arbitrary `tail` after the code (returned untouched) and either `errUnsupported`. -/
theorem raw_roundtrip (dst : Array UInt8) (src tail : List UInt8) (eu : Err) :
    decodeRaw dst ((encodeRaw #[] src).toList ++ tail) src.length eu = (pushList dst src, tail, Err.ok) :=
  raw_roundtrip_tail dst src tail eu

/-- the instance the property statement names: nothing before, nothing after -/
theorem raw_roundtrip_exact (src : List UInt8) :
    decodeRaw #[] (encodeRaw #[] src).toList src.length Err.unsupportedLZMA
      = (src.toArray, [], Err.ok) := by
  have := raw_roundtrip #[] src [] Err.unsupportedLZMA
  rw [List.append_nil] at this
  rw [this]
  congr 1
  apply Array.ext'
  rw [pushList_toList]; simp

/-- `lzma_roundtrip`: `FileFormatLZMA.Decode(Encode(src)) = (src, nothing left over, nil)`, for every byte
    string whose length fits the header's int64 size field. -/
theorem lzma_roundtrip (src : List UInt8) (hlen : src.length < 2 ^ 63) :
    decodeLZMA #[] (encodeLZMA #[] src).toList = (src.toArray, [], Err.ok) := by
  have := lzma_roundtrip_tail #[] src [] hlen
  rw [List.append_nil] at this
  rw [this]
  congr 1
  apply Array.ext'
  rw [pushList_toList]; simp

/-- … and with trailing bytes after the encoding, they are exactly what is left over. -/
theorem lzma_roundtrip_tail' (dst : Array UInt8) (src tail : List UInt8) (hlen : src.length < 2 ^ 63) :
    decodeLZMA dst ((encodeLZMA #[] src).toList ++ tail) = (pushList dst src, tail, Err.ok) :=
  lzma_roundtrip_tail dst src tail hlen

/-- non-vacuity / sanity: the empty input and a short one, by evaluation -/
example : decodeLZMA #[] (encodeLZMA #[] []).toList = (#[], [], Err.ok) := by decide
example : (encodeLZMA #[] []).toList = [0x5D, 0, 0x10, 0, 0, 0, 0, 0, 0, 0, 0, 0, 0, 0, 0, 0, 0, 0] := by decide

/-! ## uvarint -/

/-- `uvarint_roundtrip`: `decodeUvarint (encodeUvarint x ++ rest) = (rest, x, ok)` for every `x < 2^63`
    (the decoder reads at most 9 bytes: `i < 63`), whatever follows. -/
theorem uvarint_roundtrip (x : Nat) (hx : x < 2 ^ 63) (rest : List UInt8) :
    decodeUvarint ((encodeUvarint #[] x).toList ++ rest) = (rest, x, true) := by
  rw [encodeUvarint_toList]
  exact uvarint_roundtrip_list x hx rest

/-- instance: the largest value the index of a 2^63-byte file could need -/
example : decodeUvarint (encodeUvarint #[] (2 ^ 63 - 1)).toList = ([], 2 ^ 63 - 1, true) := by
  have := uvarint_roundtrip (2 ^ 63 - 1) (by omega) []
  rwa [List.append_nil] at this

/-! ## XZ -/

/-- whenever `encodeXz` chooses the LZMA form for a chunk, `len(rawLZMA) - 1` fits the 16-bit field
    (and so does `len(srcChunk) - 1` for every chunk the loop cuts) -/
theorem xz_packed_size_bound (srcChunk : List UInt8) (h : srcChunk.length ≤ 0x10000)
    (hch : ¬ (srcChunk.length + 3 ≤ (encodeRaw #[] srcChunk).size + 6)) :
    (encodeRaw #[] srcChunk).size - 1 < 2 ^ 16 := by
  omega

/-- one round of the chunk loop, either form (uncompressed fallback or LZMA), is undone by one round of
    the decoder's loop -/
theorem xz_chunk_roundtrip (c : List UInt8) (hc1 : 0 < c.length) (hc2 : c.length ≤ 65536) (fuel : Nat)
    (dst : Array UInt8) (rest : List UInt8) :
    decodeXzChunks (fuel + 1) dst ((encodeXzChunk #[] c).toList ++ rest)
      = decodeXzChunks fuel (pushList dst c) rest :=
  decode_chunk c hc1 hc2 fuel dst rest

/-- `xz_roundtrip`: `FileFormatXz.Decode(Encode(src)) = (src, nothing left over, nil)` for every byte string
    (empty, single chunk in either form, any number of 64 KiB chunks); trailing bytes are returned
    untouched.  `src.length < 2^60` only guarantees that the index's uvarints stay below 2^63. -/
theorem xz_roundtrip_tail' (src tail : List UInt8) (h : src.length < 2 ^ 60) :
    decodeXz #[] ((encodeXz #[] src).toList ++ tail) = (pushList #[] src, tail, Err.ok) :=
  xz_roundtrip_tail src tail (by omega) (xzUnpadded_lt src h)

theorem xz_roundtrip (src : List UInt8) (h : src.length < 2 ^ 60) :
    decodeXz #[] (encodeXz #[] src).toList = (src.toArray, [], Err.ok) := by
  have := xz_roundtrip_tail' src [] h
  rw [List.append_nil] at this
  have hp : pushList #[] src = src.toArray := by
    apply Array.ext'
    rw [pushList_toList]; simp
  rw [this, hp]

/-- instances: the empty input (no chunk at all), and any single byte -/
example : decodeXz #[] (encodeXz #[] []).toList = (#[], [], Err.ok) := xz_roundtrip [] (by decide)
example (b : UInt8) : decodeXz #[] (encodeXz #[] [b]).toList = (#[b], [], Err.ok) :=
  xz_roundtrip [b] (by simp)

/-! ## appending to a non-empty `dst` -/

/-- `Encode(dst, src)` appends: the result is `dst` followed by bytes that do not depend on `dst` (the XZ
    padding, unpadded-size and index arithmetic are relative to `dstLen0` / `dstLen1`). -/
theorem encode_appends (dst : Array UInt8) (src : List UInt8) :
    (encodeLZMA dst src).toList = dst.toList ++ (encodeLZMA #[] src).toList ∧
    (encodeXz dst src).toList = dst.toList ++ (encodeXz #[] src).toList :=
  ⟨encodeLZMA_append dst src, encodeXz_append dst src⟩

/-- `lzma_roundtrip` with arbitrary buffers to append to on both sides and arbitrary trailing bytes:
    `Decode(dst, Encode(dst', src)[len(dst'):] ++ tail) = (dst ++ src, tail, nil)`. -/
theorem lzma_roundtrip_append (dst dst' : Array UInt8) (src tail : List UInt8) (hlen : src.length < 2 ^ 63) :
    decodeLZMA dst ((encodeLZMA dst' src).toList.drop dst'.size ++ tail) = (pushList dst src, tail, Err.ok) :=
  lzma_roundtrip_append_gen dst dst' src tail hlen

/-- `xz_roundtrip`, the same (the CRC-32 is taken over `dst[originalDstLen:]` only). -/
theorem xz_roundtrip_append (dst dst' : Array UInt8) (src tail : List UInt8) (h : src.length < 2 ^ 60) :
    decodeXz dst ((encodeXz dst' src).toList.drop dst'.size ++ tail) = (pushList dst src, tail, Err.ok) :=
  xz_roundtrip_append_gen dst dst' src tail h

/-- non-vacuity: three bytes appended to `[1, 2]`, decoded onto `[9]` -/
example : decodeXz #[9] ((encodeXz #[1, 2] [7, 7, 7]).toList.drop 2) = (#[9, 7, 7, 7], [], Err.ok) := by
  have := xz_roundtrip_append #[9] #[1, 2] [7, 7, 7] [] (by decide)
  rw [List.append_nil] at this
  exact this
/-! ## decode_total_bounded -/

/-- `decode_total_bounded`.  Totality: `decodeLZMA`, `decodeXz` and everything below them are total Lean
    functions (structural recursion on the claimed size / on fuel that exceeds the input length; no
    `partial`), so for ARBITRARY bytes they return data-plus-error.  Bound: the output grows by at most
    42 bytes per input byte — each decoded bit shrinks `width` by a factor ≤ 2018/2048 because probabilities
    stay in `[31, 2017]`, (2048/2018)^377 > 2^8, so at most 377 bits (< 42 literals of 9 bits) per source
    byte; the header's claimed size cannot force more.  (DESIGN.md states the weaker `64·|src| + 64`.) -/
theorem decode_total_bounded (dst : Array UInt8) (src : List UInt8) :
    (decodeLZMA dst src).1.size ≤ dst.size + 42 * src.length ∧
    (decodeXz dst src).1.size ≤ dst.size + 42 * src.length :=
  ⟨decodeLZMA_bound dst src, decodeXz_bound dst src⟩

/-- the same for the raw payload decoder, in its sharper form (it also accounts for what is left over) -/
theorem decodeRaw_total_bounded (dst : Array UInt8) (src : List UInt8) (size : Nat) (eu : Err) :
    9 * (decodeRaw dst src size eu).1.size + 378 * (decodeRaw dst src size eu).2.1.length
      ≤ 9 * dst.size + 378 * src.length :=
  decodeRaw_bound dst src size eu

/-- one bit costs one unit of the potential `pot width + 378·|src|`, on arbitrary input -/
theorem decodeBit_potential (p : Nat) (d : RangeDecoder) (b p' : Nat) (d' : RangeDecoder) (hp : ProbOK p)
    (hw : WOK d) (hd : decodeBit p d = some (b, p', d')) : WOK d' ∧ Psi d' + 1 ≤ Psi d :=
  decodeBit_pot p d b p' d' hp hw hd

/-- the model's only deviation from the Go control flow is the `fuel` of the chunk loop (`for { … }` in
    Go); every round consumes at least one byte, so any fuel above the input length — `decodeXz` passes
    `len(src) + 1` — gives the same result: fuel exhaustion is unreachable. -/
theorem xz_chunk_loop_fuel_irrelevant (f1 f2 : Nat) (dst : Array UInt8) (src : List UInt8)
    (h1 : src.length < f1) (h2 : src.length < f2) :
    decodeXzChunks f1 dst src = decodeXzChunks f2 dst src :=
  decodeXzChunks_fuel f1 f2 dst src h1 h2

/-- non-vacuity: the hypotheses hold for the decoder's initial state on any input -/
example (rest : List UInt8) (bits : Nat) : WOK ⟨rest, bits, 0xFFFFFFFF⟩ ∧ ProbOK probHalf :=
  ⟨⟨by show (16777216 : Nat) ≤ 4294967295; omega, by show (4294967295 : Nat) < 4294967296; omega⟩,
    probHalf_ok⟩

/-! ## xz_conformance, the part that is a theorem: the Wuffs `std/lzma` decoder

`Model/LzmaWuffs.lean` mirrors `std/lzma/decode_lzma.wuffs` (`do_transform_io?`: LZMA1 header, LZMA2 chunk headers,
range-decoder start-up with its `#bad code` tests, end-of-chunk tests `stashed_bits == 0` and
`lzma2_encoded_length_have == want`) and the LITERAL path of `decode_bitstream_slow?`, with the wrapping u32
arithmetic and the table layout (`probs_ao00[(state << 4) | (pos & pb_mask)]`, `probs_lit[index_lit][tree_node]`) of
the Wuffs text; whatever a literal-only stream cannot reach answers `unmodelled`.  It is tied to the real decoder by
the `wdec` op lines (valid, extended and truncated encodings).  `Model/XzWuffs.lean` does the same for the XZ
container (`std/xz/decode_xz.wuffs`).  `decode_bitstream_fast!`, suspension / resumption with partial buffers
and the xz tool (liblzma) are covered by the tie only. -/

/-- `xz_conformance_partial` (LZMA): the Wuffs decoder accepts `FileFormatLZMA.Encode(src)` for every `src`,
    returns exactly `src`, leaves exactly the trailing bytes unread — in particular the first code byte is
    `0x00`, the initial code is not `0xFFFF_FFFF`, no packet is a non-literal, and the range decoder's `bits`
    are 0 when `decoded_length` bytes have been produced (no end-of-stream marker is looked for). -/
theorem wuffs_lzma_accepts (src tail : List UInt8) (hlen : src.length < 2 ^ 63) :
    WLzma.decodeLzma1 ((encodeLZMA #[] src).toList ++ tail) = WLzma.Res.ok (pushList #[] src) tail :=
  WLzma.lzma1_accepts src tail hlen

/-- `xz_conformance_partial` (XZ payload): in LZMA2 mode the Wuffs decoder accepts the chunk sequence
    `encodeXz` writes (any number of 64 KiB chunks, uncompressed `0x01` and LZMA `0xE0` forms, end marker):
    every chunk header is well formed (properties byte, dictionary reset), every LZMA chunk decodes to its
    `decoded_length` bytes with exactly `encoded_length` bytes consumed and `bits == 0` at its end. -/
theorem wuffs_lzma2_accepts (src rest : List UInt8) :
    WLzma.decodeLzma2 (chunksBytes src ++ 0x00 :: rest) = WLzma.Res.ok (pushList #[] src) rest :=
  WLzma.lzma2_accepts src rest

/-- … and that chunk sequence is what follows the 24 header bytes of `encodeXz`'s output -/
theorem xz_payload_is_chunks (src : List UInt8) :
    ∃ rest, (encodeXz #[] src).toList = xzHeader24 ++ (chunksBytes src ++ 0x00 :: rest) :=
  ⟨_, encodeXz_toList src⟩

/-- `xz_conformance_partial` (XZ file): the model of the Wuffs `std/xz` decoder (`Model/XzWuffs.lean`, mirroring
    `std/xz/decode_xz.wuffs`: stream header, block header with its padding and CRC-32, the LZMA2 payload through
    the std/lzma model, block padding, CRC-32 of the data, `verify_index?` with its size sums and hashes and
    its rejection of non-minimal uvarints, index padding and CRC-32, `verify_footer?`, footer magic) accepts
    `FileFormatXz.Encode(src)` for every `src`, returns exactly `src` and leaves the trailing bytes unread. -/
theorem wuffs_xz_accepts (src tail : List UInt8) (h : src.length < 2 ^ 60) :
    WXz.decodeXz ((encodeXz #[] src).toList ++ tail) = WLzma.Res.ok (pushList #[] src) tail :=
  WXz.xz_accepts src tail h

/-- instance: the empty payload (a block whose LZMA2 stream is just the end marker, one index record) -/
example : WXz.decodeXz (encodeXz #[] []).toList = WLzma.Res.ok #[] [] := by
  have := wuffs_xz_accepts [] [] (by decide)
  rwa [List.append_nil] at this

/-- the Wuffs text of "decodeTheNextBym()" and Go's `prob.decodeBit` are the same function on 32-bit states -/
theorem wuffs_bym_is_decodeBit (p : Nat) (d : RangeDecoder) (hp : p ≤ 2048) (hb : d.bits < d.width)
    (hw : d.width < 2 ^ 32) : WLzma.bym p d = decodeBit p d :=
  WLzma.bym_eq p d hp hb hw

/-- instance: a three byte payload followed by two bytes that are not part of the file -/
example : WLzma.decodeLzma1 ((encodeLZMA #[] [1, 2, 3]).toList ++ [9, 9]) = WLzma.Res.ok #[1, 2, 3] [9, 9] :=
  wuffs_lzma_accepts [1, 2, 3] [9, 9] (by decide)

/-! ## conformance facts about the fixed header bytes

`xz_conformance` as a whole (acceptance by FULL decoders) is covered by the tie only; what CAN be stated over the
model alone is that the hard-coded header bytes are what the formats prescribe for this configuration. -/

/-- the 24 fixed bytes of every XZ encoding: stream-header magic, stream flags `00 01` (CRC-32 check) followed by
    their CRC-32; block header of (2 + 1) * 4 bytes naming one LZMA2 filter with a 4 KiB dictionary, followed
    by its CRC-32 (both CRCs evaluated by the kernel with the model's `crc32`) -/
theorem xz_header_conformance :
    (xzHeader24.take 6 = [0xFD, 0x37, 0x7A, 0x58, 0x5A, 0x00] ∧
     (xzHeader24.drop 6).take 2 = [0x00, 0x01] ∧
     (xzHeader24.drop 8).take 4 = le32 (crc32 ((xzHeader24.drop 6).take 2))) ∧
    ((xzHeader24.drop 12).take 8 = [0x02, 0x00, 0x21, 0x01, 0x00, 0x00, 0x00, 0x00] ∧
     ((xzHeader24.drop 12).headD 0).toNat = (12 / 4) - 1 ∧
     (xzHeader24.drop 20).take 4 = le32 (crc32 ((xzHeader24.drop 12).take 8))) :=
  ⟨xzHeader_stream_crc, xzHeader_block_crc⟩

/-- the LZMA properties byte `0x5D` (also the `S` byte of every LZMA2 chunk) is `(pb·5 + lp)·9 + lc`, the
    dictionary size is 0x1000 little endian, and `lc + lp ≤ 4` as LZMA2 requires -/
theorem lzma_header_conformance :
    lzmaHeader5.headD 0 = ((pb * 5 + lp) * 9 + lc).toUInt8 ∧ (pb * 5 + lp) * 9 + lc = 0x5D ∧
    lzmaHeader5.drop 1 = [0x00, 0x10, 0x00, 0x00] ∧ lc ≤ 8 ∧ lp ≤ 4 ∧ pb ≤ 4 ∧ lc + lp ≤ 4 :=
  lzma_props_byte

end WuffsVerif.Props.C17
