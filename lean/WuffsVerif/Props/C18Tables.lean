/-
C18 — `tables_consistent`: facts about the tables of /repo/lib/lowleveljpeg (regenerated into
`Gen/C18_Tables.lean` on every run), each decided by kernel evaluation (single passes over the
tables; the quadratic prefix-freeness check runs on the evaluated code tables
`Tab.canonTables`, which `Tab.specCodeTables_eq` re-derives from `hardCodedDHTSegments`).
A change of any table entry in /repo makes this file (or `Proof/JpegTables.lean`) fail to build.
-/
import WuffsVerif.Proof.JpegTables

namespace WuffsVerif.Props.C18
open WuffsVerif.Gen.C18 WuffsVerif.Jpeg WuffsVerif.Jpeg.Tab

/-- `huffmanBitWriters` is exactly the canonical Huffman code (T.81 Annex C, Figures C.1–C.2)
    described by `hardCodedDHTSegments`: the two DHT segments parse (with the Spec's parser) into
    luma DC, luma AC, chroma DC, chroma AC code tables, and slot `v` of each encoder LUT is
    `(length <<< 16) ||| code` of the symbol `v`, or 0 when `v` has no code. -/
theorem huffman_writers_are_canonical :
    specCodeTables.map (fun ts => ts.map writerOf) = some (huffmanBitWriters.toList.map Array.toList) := by
  rw [specCodeTables_eq, Option.map_some, canon_writers]

/-- each of the four codes is prefix-free (no code word is a prefix of another) and well formed
    (lengths 1..16, every code fits its length, symbols are bytes) -/
theorem huffman_codes_prefix_free :
    specCodeTables.map (fun ts => ts.all (fun t => prefixFreeB t && wellFormedB t)) = some true := by
  rw [specCodeTables_eq, Option.map_some, canon_prefixFree]

/-- a DC table codes exactly the categories 0..11 -/
def dcSymbolsOK (t : List Nat) : Bool := t.zipIdx.all (fun (x, i) => (x != 0) == decide (i < 12))

/-- an AC table codes exactly the 162 baseline symbols: EOB 0x00, ZRL 0xF0 and every RRRRSSSS with
    1 ≤ SSSS ≤ 10 -/
def acSymbolsOK (t : List Nat) : Bool :=
  t.zipIdx.all (fun (x, i) => (x != 0) == (i == 0 || i == 0xF0 || (1 ≤ i % 16 && i % 16 ≤ 10)))

theorem huffman_symbols_complete :
    (huffmanBitWriters.toList.map Array.toList).map List.length = [256, 256, 256, 256] ∧
    (huffmanBitWriters.toList.map Array.toList).zipIdx.all
      (fun (t, k) => if k % 2 = 0 then dcSymbolsOK t else acSymbolsOK t) = true := by
  decide +kernel

/-- every code length stored in `huffmanBitWriters` is at most 16 -/
theorem huffman_lengths_le_16 :
    huffmanBitWriters.toList.all (fun t => t.toList.all (fun x => x / 65536 ≤ 16)) = true := hbw_lengths

/-- `zigzag` is the zig-zag order of T.81 Figure A.6 (as computed by the Spec), which is a
    permutation of 0..63 starting with the DC index 0 -/
theorem zigzag_is_permutation :
    zigzag.toList = Spec.zigzagSeq ∧ zigzag.size = 64 ∧
    (List.range 64).all (fun i => zigzag.toList.count i == 1) = true := by
  refine ⟨zigzag_eq, by decide, ?_⟩
  rw [zigzag_eq]; exact zigzagSeq_perm.1

/-- `bitCount[i]` is the bit length of `i` (the smallest n with i < 2^n), for all 256 entries -/
theorem bitCount_is_bit_length :
    bitCount.toList = (List.range 256).map bitLen ∧
    (List.range 256).all (fun i => isBitLength i (bitLen i)) = true := by
  refine ⟨bitCount_eq, by decide +kernel⟩

/-- `biasAndClamp[x & 1023]` is `x + 0x80` clamped to [0, 255] for x ∈ [-512, 511] -/
theorem biasAndClamp_is_clamp :
    biasAndClamp.toList =
      (List.range 1024).map (fun i => if i < 512 then min (i + 128) 255 else i + 128 - 1024) := by
  decide +kernel

/-- the cosine table: cos is even around 0 (`c[32-k] = c[k]`) and `c[k+16] = -c[k]` -/
theorem cosines_symmetries :
    cosines.toList.drop 16 = (cosines.toList.take 16).map (fun c => -c) ∧
    (cosines.toList.drop 1).reverse = cosines.toList.drop 1 := by
  decide +kernel

/-- the size of `Encoder.buf` the other theorems are about -/
theorem bufLen_value : bufLen = 2924 := by decide

/-- DESIGN.md §2 C18 `tables_consistent` -/
theorem tables_consistent :
    specCodeTables.map (fun ts => ts.map writerOf) = some (huffmanBitWriters.toList.map Array.toList) ∧
    specCodeTables.map (fun ts => ts.all (fun t => prefixFreeB t && wellFormedB t)) = some true ∧
    (zigzag.size = 64 ∧ (List.range 64).all (fun i => zigzag.toList.count i == 1) = true) ∧
    bitCount.toList = (List.range 256).map bitLen :=
  ⟨huffman_writers_are_canonical, huffman_codes_prefix_free,
   ⟨zigzag_is_permutation.2.1, zigzag_is_permutation.2.2⟩, bitCount_eq⟩

end WuffsVerif.Props.C18
