/-
C04 part 1 — operator lowering: `lowerBin` (the operator and cast decision of
internal/cgen/expr.go writeExprBinaryOp, with the repair of
fixes/C04-u16-modmul.patch) is correct for every binary operator, every
unsigned type, every combination of constant / non-constant operands and every
C type the operands can be written with, FOR ALL operand values: whenever the
checker's guarantee for the node holds (`WOp.defined`: the ideal result is in
the node's type, shift amounts below the width, positive divisors), evaluating
the emitted C expression is DEFINED (no signed overflow, no invalid shift, no
division by zero) and yields exactly the Wuffs meaning (`WOp.ideal`), at the C
type of the node.  One theorem per operator, combined in Props/C04.lean.
-/
import WuffsVerif.Proof.CExprLemmas

namespace WuffsVerif.Props.C04
open WuffsVerif.WOps WuffsVerif.C WuffsVerif.Gen.C04 WuffsVerif.Proof.C04

theorem lower_add (t : WTy) (lk rk : Bool) (a b : Int) (x y : CVal)
    (hk : ¬(lk = true ∧ rk = true)) (hx : Rep t lk a x) (hy : Rep t rk b y)
    (hdef : WOp.add.defined t a b) :
    ∃ e r, lowerBin .add t lk rk = some e ∧ ceval (env2 x y) e = some r ∧
      r.v = WOp.add.ideal t a b ∧ r.ty = ctyOf t := by
  rep_intro
  rep_cases <;> c_eval <;> c_finish

theorem lower_sub (t : WTy) (lk rk : Bool) (a b : Int) (x y : CVal)
    (hk : ¬(lk = true ∧ rk = true)) (hx : Rep t lk a x) (hy : Rep t rk b y)
    (hdef : WOp.sub.defined t a b) :
    ∃ e r, lowerBin .sub t lk rk = some e ∧ ceval (env2 x y) e = some r ∧
      r.v = WOp.sub.ideal t a b ∧ r.ty = ctyOf t := by
  rep_intro
  rep_cases <;> c_eval <;> c_finish

theorem lower_mul (t : WTy) (lk rk : Bool) (a b : Int) (x y : CVal)
    (hk : ¬(lk = true ∧ rk = true)) (hx : Rep t lk a x) (hy : Rep t rk b y)
    (hdef : WOp.mul.defined t a b) :
    ∃ e r, lowerBin .mul t lk rk = some e ∧ ceval (env2 x y) e = some r ∧
      r.v = WOp.mul.ideal t a b ∧ r.ty = ctyOf t := by
  rep_intro
  have hm : 0 ≤ xv * yv := Int.mul_nonneg hxr.1 hyr.1
  have hmu : xv * yv ≤ t.max * t.max :=
    Int.mul_le_mul hxr.2 hyr.2 hyr.1 (by cases t <;> simp [WTy.max, WTy.bits])
  rep_cases <;> (try simp [WTy.max, WTy.bits] at hmu) <;> c_eval <;> c_finish

theorem lower_div (t : WTy) (lk rk : Bool) (a b : Int) (x y : CVal)
    (hk : ¬(lk = true ∧ rk = true)) (hx : Rep t lk a x) (hy : Rep t rk b y)
    (hdef : WOp.div.defined t a b) :
    ∃ e r, lowerBin .div t lk rk = some e ∧ ceval (env2 x y) e = some r ∧
      r.v = WOp.div.ideal t a b ∧ r.ty = ctyOf t := by
  rep_intro
  have hpos : 0 < yv := by simpa [WOp.defined] using hdef
  have hq0 : 0 ≤ xv / yv := Int.ediv_nonneg hxr.1 hyr.1
  have hq1 : xv / yv ≤ xv := Int.ediv_le_self yv hxr.1
  rep_cases <;> c_eval <;> c_finish

theorem lower_rem (t : WTy) (lk rk : Bool) (a b : Int) (x y : CVal)
    (hk : ¬(lk = true ∧ rk = true)) (hx : Rep t lk a x) (hy : Rep t rk b y)
    (hdef : WOp.rem.defined t a b) :
    ∃ e r, lowerBin .rem t lk rk = some e ∧ ceval (env2 x y) e = some r ∧
      r.v = WOp.rem.ideal t a b ∧ r.ty = ctyOf t := by
  rep_intro
  have hpos : 0 < yv := by simpa [WOp.defined] using hdef
  have hr0 : 0 ≤ xv % yv := Int.emod_nonneg xv (by omega)
  have hr1 : xv % yv < yv := Int.emod_lt_of_pos xv hpos
  rep_cases <;> c_eval <;> c_finish

theorem lower_band (t : WTy) (lk rk : Bool) (a b : Int) (x y : CVal)
    (hk : ¬(lk = true ∧ rk = true)) (hx : Rep t lk a x) (hy : Rep t rk b y)
    (hdef : WOp.band.defined t a b) :
    ∃ e r, lowerBin .band t lk rk = some e ∧ ceval (env2 x y) e = some r ∧
      r.v = WOp.band.ideal t a b ∧ r.ty = ctyOf t := by
  rep_intro
  have hb0 : 0 ≤ iand xv yv := iand_nonneg xv yv
  have hb1 : iand xv yv < 2 ^ t.bits := iand_lt xv yv t.bits hxr.1 (WTy.has_lt t xv hxr)
  rep_cases <;> (try simp [WTy.bits] at hb1) <;> c_eval <;> c_finish

theorem lower_bor (t : WTy) (lk rk : Bool) (a b : Int) (x y : CVal)
    (hk : ¬(lk = true ∧ rk = true)) (hx : Rep t lk a x) (hy : Rep t rk b y)
    (hdef : WOp.bor.defined t a b) :
    ∃ e r, lowerBin .bor t lk rk = some e ∧ ceval (env2 x y) e = some r ∧
      r.v = WOp.bor.ideal t a b ∧ r.ty = ctyOf t := by
  rep_intro
  have hb0 : 0 ≤ ior xv yv := ior_nonneg xv yv
  have hb1 : ior xv yv < 2 ^ t.bits := ior_lt xv yv t.bits hxr.1 hyr.1 (WTy.has_lt t xv hxr) (WTy.has_lt t yv hyr)
  rep_cases <;> (try simp [WTy.bits] at hb1) <;> c_eval <;> c_finish

theorem lower_bxor (t : WTy) (lk rk : Bool) (a b : Int) (x y : CVal)
    (hk : ¬(lk = true ∧ rk = true)) (hx : Rep t lk a x) (hy : Rep t rk b y)
    (hdef : WOp.bxor.defined t a b) :
    ∃ e r, lowerBin .bxor t lk rk = some e ∧ ceval (env2 x y) e = some r ∧
      r.v = WOp.bxor.ideal t a b ∧ r.ty = ctyOf t := by
  rep_intro
  have hb0 : 0 ≤ ixor xv yv := ixor_nonneg xv yv
  have hb1 : ixor xv yv < 2 ^ t.bits := ixor_lt xv yv t.bits hxr.1 hyr.1 (WTy.has_lt t xv hxr) (WTy.has_lt t yv hyr)
  rep_cases <;> (try simp [WTy.bits] at hb1) <;> c_eval <;> c_finish

theorem lower_modAdd (t : WTy) (lk rk : Bool) (a b : Int) (x y : CVal)
    (hk : ¬(lk = true ∧ rk = true)) (hx : Rep t lk a x) (hy : Rep t rk b y)
    (hdef : WOp.modAdd.defined t a b) :
    ∃ e r, lowerBin .modAdd t lk rk = some e ∧ ceval (env2 x y) e = some r ∧
      r.v = WOp.modAdd.ideal t a b ∧ r.ty = ctyOf t := by
  rep_intro
  rep_cases <;> c_eval <;> c_finish

theorem lower_modSub (t : WTy) (lk rk : Bool) (a b : Int) (x y : CVal)
    (hk : ¬(lk = true ∧ rk = true)) (hx : Rep t lk a x) (hy : Rep t rk b y)
    (hdef : WOp.modSub.defined t a b) :
    ∃ e r, lowerBin .modSub t lk rk = some e ∧ ceval (env2 x y) e = some r ∧
      r.v = WOp.modSub.ideal t a b ∧ r.ty = ctyOf t := by
  rep_intro
  rep_cases <;> c_eval <;> c_finish

theorem lower_modMul (t : WTy) (lk rk : Bool) (a b : Int) (x y : CVal)
    (hk : ¬(lk = true ∧ rk = true)) (hx : Rep t lk a x) (hy : Rep t rk b y)
    (hdef : WOp.modMul.defined t a b) :
    ∃ e r, lowerBin .modMul t lk rk = some e ∧ ceval (env2 x y) e = some r ∧
      r.v = WOp.modMul.ideal t a b ∧ r.ty = ctyOf t := by
  rep_intro
  have hm : 0 ≤ xv * yv := Int.mul_nonneg hxr.1 hyr.1
  have hmu : xv * yv ≤ t.max * t.max :=
    Int.mul_le_mul hxr.2 hyr.2 hyr.1 (by cases t <;> simp [WTy.max, WTy.bits])
  rep_cases <;> (try simp [WTy.max, WTy.bits] at hmu) <;> c_eval <;> c_finish

theorem lower_lt (t : WTy) (lk rk : Bool) (a b : Int) (x y : CVal)
    (hk : ¬(lk = true ∧ rk = true)) (hx : Rep t lk a x) (hy : Rep t rk b y)
    (hdef : WOp.lt.defined t a b) :
    ∃ e r, lowerBin .lt t lk rk = some e ∧ ceval (env2 x y) e = some r ∧
      r.v = WOp.lt.ideal t a b ∧ r.ty = .int := by
  rep_intro
  rep_cases <;> c_eval <;> c_finish

theorem lower_le (t : WTy) (lk rk : Bool) (a b : Int) (x y : CVal)
    (hk : ¬(lk = true ∧ rk = true)) (hx : Rep t lk a x) (hy : Rep t rk b y)
    (hdef : WOp.le.defined t a b) :
    ∃ e r, lowerBin .le t lk rk = some e ∧ ceval (env2 x y) e = some r ∧
      r.v = WOp.le.ideal t a b ∧ r.ty = .int := by
  rep_intro
  rep_cases <;> c_eval <;> c_finish

theorem lower_gt (t : WTy) (lk rk : Bool) (a b : Int) (x y : CVal)
    (hk : ¬(lk = true ∧ rk = true)) (hx : Rep t lk a x) (hy : Rep t rk b y)
    (hdef : WOp.gt.defined t a b) :
    ∃ e r, lowerBin .gt t lk rk = some e ∧ ceval (env2 x y) e = some r ∧
      r.v = WOp.gt.ideal t a b ∧ r.ty = .int := by
  rep_intro
  rep_cases <;> c_eval <;> c_finish

theorem lower_ge (t : WTy) (lk rk : Bool) (a b : Int) (x y : CVal)
    (hk : ¬(lk = true ∧ rk = true)) (hx : Rep t lk a x) (hy : Rep t rk b y)
    (hdef : WOp.ge.defined t a b) :
    ∃ e r, lowerBin .ge t lk rk = some e ∧ ceval (env2 x y) e = some r ∧
      r.v = WOp.ge.ideal t a b ∧ r.ty = .int := by
  rep_intro
  rep_cases <;> c_eval <;> c_finish

theorem lower_eq (t : WTy) (lk rk : Bool) (a b : Int) (x y : CVal)
    (hk : ¬(lk = true ∧ rk = true)) (hx : Rep t lk a x) (hy : Rep t rk b y)
    (hdef : WOp.eq.defined t a b) :
    ∃ e r, lowerBin .eq t lk rk = some e ∧ ceval (env2 x y) e = some r ∧
      r.v = WOp.eq.ideal t a b ∧ r.ty = .int := by
  rep_intro
  rep_cases <;> c_eval <;> c_finish

theorem lower_ne (t : WTy) (lk rk : Bool) (a b : Int) (x y : CVal)
    (hk : ¬(lk = true ∧ rk = true)) (hx : Rep t lk a x) (hy : Rep t rk b y)
    (hdef : WOp.ne.defined t a b) :
    ∃ e r, lowerBin .ne t lk rk = some e ∧ ceval (env2 x y) e = some r ∧
      r.v = WOp.ne.ideal t a b ∧ r.ty = .int := by
  rep_intro
  rep_cases <;> c_eval <;> c_finish

theorem lower_shl (t : WTy) (lk rk : Bool) (a b : Int) (x y : CVal)
    (hx : Rep t lk a x) (hyv : y.v = b) (hb0 : 0 ≤ b)
    (hdef : WOp.shl.defined t a b) :
    ∃ e r, lowerBin .shl t lk rk = some e ∧ ceval (env2 x y) e = some r ∧
      r.v = WOp.shl.ideal t a b ∧ r.ty = ctyOf t := by
  shift_intro
  shift_cases <;> c_eval <;> c_finish

theorem lower_shr (t : WTy) (lk rk : Bool) (a b : Int) (x y : CVal)
    (hx : Rep t lk a x) (hyv : y.v = b) (hb0 : 0 ≤ b)
    (hdef : WOp.shr.defined t a b) :
    ∃ e r, lowerBin .shr t lk rk = some e ∧ ceval (env2 x y) e = some r ∧
      r.v = WOp.shr.ideal t a b ∧ r.ty = ctyOf t := by
  shift_intro
  shift_cases <;> c_eval <;> c_finish

theorem lower_modShl (t : WTy) (lk rk : Bool) (a b : Int) (x y : CVal)
    (hx : Rep t lk a x) (hyv : y.v = b) (hb0 : 0 ≤ b)
    (hdef : WOp.modShl.defined t a b) :
    ∃ e r, lowerBin .modShl t lk rk = some e ∧ ceval (env2 x y) e = some r ∧
      r.v = WOp.modShl.ideal t a b ∧ r.ty = ctyOf t := by
  shift_intro
  shift_cases <;> c_eval <;> c_finish

end WuffsVerif.Props.C04
