/-
C04 part 4 — `iterate_unroll_equiv`: the rounds/unroll expansion of
internal/cgen/statement.go writeStatementIterate / writeIterateRound (modelled
as a list transformer in Model/Iterate.lean) visits exactly the same
sub-slices, in the same order, as the plain loop that the language defines —
for EVERY slice length, start offset, chunk length, advance and unroll count;
also for `iterate … else …` chains, and every visited chunk is in bounds.
-/
import WuffsVerif.Model.Iterate
set_option linter.unusedVariables false
set_option linter.unusedSimpArgs false

namespace WuffsVerif.Props.C04
open WuffsVerif.Iterate

/-- number of chunks of length L, A apart, that fit into r bytes -/
def W (r L A : Nat) : Nat := if r ≥ L then (r - L) / A + 1 else 0

/-- the visits of m consecutive chunks from offset p -/
def wins (p L A m : Nat) : List Visit := (List.range m).map (fun i => (p + i * A, L))

theorem wins_zero (p L A : Nat) : wins p L A 0 = [] := rfl

theorem wins_succ (p L A m : Nat) : wins p L A (m + 1) = (p, L) :: wins (p + A) L A m := by
  simp only [wins, List.range_succ_eq_map, List.map_cons, List.map_map]
  congr 1
  · simp
  · apply List.map_congr_left
    intro i _
    simp only [Function.comp]
    congr 1
    rw [Nat.succ_mul]; omega

theorem wins_append (p L A a b : Nat) : wins p L A (a + b) = wins p L A a ++ wins (p + a * A) L A b := by
  induction a generalizing p with
  | zero => simp [wins_zero]
  | succ a ih =>
    rw [Nat.succ_add, wins_succ, wins_succ, ih (p + A)]
    simp only [List.cons_append]
    congr 3
    rw [Nat.succ_mul]; omega

theorem W_step (r L A : Nat) (hA : 1 ≤ A) (hAL : A ≤ L) (h : L ≤ r) : W r L A = W (r - A) L A + 1 := by
  unfold W
  simp only [ge_iff_le, h, if_true]
  by_cases h2 : L ≤ r - A
  · simp only [h2, if_true]
    have : r - L = (r - A - L) + A := by omega
    rw [this, Nat.add_div_right _ (by omega)]
  · simp only [h2, if_false]
    have : (r - L) / A = 0 := Nat.div_eq_of_lt (by omega)
    omega

theorem W_sub (r L A : Nat) (hA : 1 ≤ A) (hAL : A ≤ L) (j : Nat) (hj : j ≤ W r L A) :
    W (r - j * A) L A = W r L A - j := by
  induction j generalizing r with
  | zero => simp
  | succ j ih =>
    have hr : L ≤ r := by
      by_cases h : L ≤ r
      · exact h
      · unfold W at hj; simp [h] at hj
    have hs := W_step r L A hA hAL hr
    have := ih (r - A) (by omega)
    rw [Nat.succ_mul]
    have e : r - (j * A + A) = r - A - j * A := by omega
    rw [e, this]; omega

theorem W_le (r L A : Nat) (hA : 1 ≤ A) (hL : 1 ≤ L) : W r L A ≤ r := by
  unfold W
  split
  · have : (r - L) / A ≤ r - L := Nat.div_le_self _ _
    omega
  · omega

theorem plainLoop_closed (n L A : Nat) (hA : 1 ≤ A) (hAL : A ≤ L) (fuel p : Nat)
    (hf : W (n - p) L A < fuel) (hp : p ≤ n) :
    plainLoop n L A fuel p = (wins p L A (W (n - p) L A), p + W (n - p) L A * A) := by
  induction fuel generalizing p with
  | zero => omega
  | succ fuel ih =>
    unfold plainLoop
    by_cases h : p + L ≤ n
    · have hr : L ≤ n - p := by omega
      have hs := W_step (n - p) L A hA hAL hr
      have e : n - p - A = n - (p + A) := by omega
      rw [e] at hs
      simp only [h, if_true]
      rw [ih (p + A) (by omega) (by omega), hs, wins_succ, Nat.succ_mul]
      simp only [Prod.mk.injEq, true_and]
      omega
    · have hw : W (n - p) L A = 0 := by unfold W; simp; omega
      simp [h, hw, wins_zero]

theorem cRound_closed (L A U : Nat) (hA : 1 ≤ A) (hU : 1 ≤ U) (k fuel p : Nat) (hf : k < fuel) :
    cRound L A U (p + k * (U * A)) fuel p = (wins p L A (k * U), p + k * U * A) := by
  induction k generalizing fuel p with
  | zero =>
    cases fuel with
    | zero => omega
    | succ fuel => simp [cRound, wins_zero]
  | succ k ih =>
    cases fuel with
    | zero => omega
    | succ fuel =>
      have hpos : 0 < U * A := Nat.mul_pos (by omega) (by omega)
      have hlt : p < p + (k + 1) * (U * A) := by
        have : U * A ≤ (k + 1) * (U * A) := Nat.le_mul_of_pos_left _ (by omega)
        omega
      unfold cRound
      simp only [hlt, if_true]
      have e : p + (k + 1) * (U * A) = (p + U * A) + k * (U * A) := by rw [Nat.succ_mul]; omega
      rw [e, ih fuel (p + U * A) (by omega)]
      have e2 : (k + 1) * U = U + k * U := by rw [Nat.succ_mul]; omega
      rw [e2, wins_append]
      simp only [unrolledBody, wins, Prod.mk.injEq, true_and]
      rw [Nat.add_mul]; simp [Nat.mul_assoc]; omega

theorem W_mul_le (r L A : Nat) (hAL : A ≤ L) : W r L A * A ≤ r := by
  unfold W
  split
  · have := Nat.div_mul_le_self (r - L) A
    rw [Nat.add_mul]; omega
  · omega

theorem W_eq_div (r L : Nat) (hL : 1 ≤ L) : W r L L = r / L := by
  unfold W
  split
  · rename_i h
    have e : r / L = (r - L) / L + 1 := by
      have h2 : r = (r - L) + L := by omega
      calc r / L = ((r - L) + L) / L := by rw [← h2]
        _ = (r - L) / L + 1 := Nat.add_div_right _ (by omega)
    omega
  · rename_i h
    rw [Nat.div_eq_of_lt (by omega)]

/-- number of trips through the unrolled loop of a round -/
def trips (n p L A U : Nat) : Nat :=
  if L = 1 ∧ A = 1 ∧ U = 1 then n - p
  else if L = A then (n - p) / (L * U)
  else if n - p ≥ L + A * (U - 1) then (n - p - (L + A * (U - 1))) / (A * U) + 1 else 0

theorem roundEnd_eq (n p L A U : Nat) (hp : p ≤ n) :
    roundEnd n p L A U = p + trips n p L A U * (U * A) := by
  unfold roundEnd trips totalAdvance
  by_cases h1 : L = 1 ∧ A = 1 ∧ U = 1
  · obtain ⟨rfl, rfl, rfl⟩ := h1; simp; omega
  · simp only [h1, if_false]
    by_cases h2 : L = A
    · subst h2; simp only [if_true]
      rw [Nat.mul_comm U L]
    · simp only [h2, if_false]
      by_cases h3 : n - p ≥ L + A * (U - 1)
      · simp only [h3, if_true, ge_iff_le]
        rw [Nat.add_mul, Nat.one_mul, Nat.mul_comm U A]
      · simp [h3]

theorem W_one_one (r : Nat) : W r 1 1 = r := by
  unfold W
  split
  · rw [Nat.div_one]; omega
  · omega

theorem trips_one (n p L A : Nat) (hA : 1 ≤ A) (hAL : A ≤ L) :
    trips n p L A 1 = W (n - p) L A := by
  unfold trips
  by_cases h1 : L = 1 ∧ A = 1 ∧ (1:Nat) = 1
  · rw [if_pos h1]
    obtain ⟨rfl, rfl, _⟩ := h1
    exact (W_one_one _).symm
  · rw [if_neg h1]
    by_cases h2 : L = A
    · rw [if_pos h2]
      subst h2
      rw [Nat.mul_one]
      exact (W_eq_div _ _ (by omega)).symm
    · rw [if_neg h2]
      simp only [Nat.sub_self, Nat.mul_zero, Nat.add_zero, Nat.mul_one]
      rfl

theorem trips_le (n p L A U : Nat) (hA : 1 ≤ A) (hAL : A ≤ L) (hU : 1 ≤ U) :
    trips n p L A U * U ≤ W (n - p) L A := by
  unfold trips
  by_cases h1 : L = 1 ∧ A = 1 ∧ U = 1
  · rw [if_pos h1]
    obtain ⟨rfl, rfl, rfl⟩ := h1
    rw [W_one_one]; omega
  · simp only [h1, if_false]
    by_cases h2 : L = A
    · subst h2
      simp only [if_true]
      rw [W_eq_div _ _ (by omega), ← Nat.div_div_eq_div_mul]
      exact Nat.div_mul_le_self _ _
    · simp only [h2, if_false]
      by_cases h3 : n - p ≥ L + A * (U - 1)
      · simp only [h3, if_true]
        obtain ⟨u, rfl⟩ : ∃ u, U = u + 1 := ⟨U - 1, by omega⟩
        simp only [Nat.add_sub_cancel] at h3 ⊢
        have hr : L ≤ n - p := by omega
        unfold W
        simp only [ge_iff_le, hr, if_true]
        -- (q+1)(u+1) - 1 ≤ (r-L)/A
        generalize hq : (n - p - (L + A * u)) / (A * (u + 1)) = q
        have hq1 : q * (A * (u + 1)) ≤ n - p - (L + A * u) := by
          rw [← hq]; exact Nat.div_mul_le_self _ _
        have key : ((q + 1) * (u + 1) - 1) * A ≤ n - p - L := by
          have e1 : ((q + 1) * (u + 1) - 1) * A = q * (A * (u + 1)) + A * u := by
            have : (q + 1) * (u + 1) - 1 = q * (u + 1) + u := by
              rw [Nat.add_mul]; omega
            rw [this, Nat.add_mul, Nat.mul_comm u A]
            congr 1
            rw [Nat.mul_assoc, Nat.mul_comm (u + 1) A]
          omega
        have := (Nat.le_div_iff_mul_le (by omega : 0 < A)).mpr key
        have hpos : 1 ≤ (q + 1) * (u + 1) := Nat.mul_pos (by omega) (by omega)
        omega
      · simp [h3]

/-- **iterate_unroll_equiv.**  For every slice length `n`, start offset `p`,
chunk length `L`, advance `A` (1 ≤ A ≤ L, as the parser requires) and unroll
count `U ≥ 1`: the rounds emitted by writeStatementIterate / writeIterateRound
visit exactly the same sub-slices, in the same order, and leave the pointer at
the same offset, as the plain `while a chunk fits { body; advance }` loop. -/
theorem iterate_unroll_equiv (n L A U p : Nat) (hA : 1 ≤ A) (hAL : A ≤ L) (hU : 1 ≤ U)
    (hp : p ≤ n) : cBlock n L A U p = plainBlock n L A p := by
  have hL : 1 ≤ L := by omega
  have hWn : W (n - p) L A ≤ n := Nat.le_trans (W_le _ _ _ hA hL) (by omega)
  have hk := trips_le n p L A U hA hAL hU
  have hkk : trips n p L A U ≤ trips n p L A U * U := Nat.le_mul_of_pos_right _ (by omega)
  unfold cBlock plainBlock
  rw [plainLoop_closed n L A hA hAL (n + 1) p (by omega) hp]
  simp only [roundEnd_eq n p L A U hp]
  rw [cRound_closed L A U hA hU (trips n p L A U) (n + 1) p (by omega)]
  by_cases h1 : U = 1
  · subst h1
    simp only [if_true, Nat.mul_one, trips_one n p L A hA hAL]
  · simp only [h1, if_false]
    generalize hkd : trips n p L A U * U = kU at *
    have hmul : kU * A ≤ n - p :=
      Nat.le_trans (Nat.mul_le_mul_right A hk) (W_mul_le _ _ _ hAL)
    have hp1 : p + kU * A ≤ n := by omega
    simp only [roundEnd_eq n (p + kU * A) L A 1 hp1, trips_one n (p + kU * A) L A hA hAL]
    have e : n - (p + kU * A) = n - p - kU * A := by omega
    rw [e, W_sub (n - p) L A hA hAL kU hk]
    have hk2 : W (n - p) L A - kU < n + 1 := by omega
    have := cRound_closed L A 1 hA (by omega) (W (n - p) L A - kU) (n + 1) (p + kU * A) hk2
    simp only [Nat.one_mul, Nat.mul_one] at this ⊢
    rw [this]
    have hsum : W (n - p) L A = kU + (W (n - p) L A - kU) := by omega
    conv => rhs; rw [hsum, wins_append]
    simp only [Prod.mk.injEq, true_and]
    rw [Nat.add_mul]; omega

/-- every visited chunk lies inside the slice (memory safety of the expansion) -/
theorem iterate_visits_in_bounds (n L A U p : Nat) (hA : 1 ≤ A) (hAL : A ≤ L) (hU : 1 ≤ U)
    (hp : p ≤ n) : ∀ v ∈ (cBlock n L A U p).1, v.1 + v.2 ≤ n := by
  rw [iterate_unroll_equiv n L A U p hA hAL hU hp]
  unfold plainBlock
  rw [plainLoop_closed n L A hA hAL (n + 1) p
    (by have := W_le (n - p) L A hA (by omega); omega) hp]
  intro v hv
  simp only [wins, List.mem_map, List.mem_range] at hv
  obtain ⟨i, hi, rfl⟩ := hv
  simp only
  -- i < W ⇒ i*A + L ≤ n - p
  have hr : L ≤ n - p := by
    by_cases h : L ≤ n - p
    · exact h
    · unfold W at hi; simp [h] at hi
  unfold W at hi
  simp only [ge_iff_le, hr, if_true] at hi
  have : i ≤ (n - p - L) / A := by omega
  have := (Nat.le_div_iff_mul_le (by omega : 0 < A)).mp this
  omega

/-- the pointer never runs past the end of the slice -/
theorem plainBlock_end_le (n L A p : Nat) (hA : 1 ≤ A) (hAL : A ≤ L) (hp : p ≤ n) :
    (plainBlock n L A p).2 ≤ n := by
  unfold plainBlock
  rw [plainLoop_closed n L A hA hAL (n + 1) p
    (by have := W_le (n - p) L A hA (by omega); omega) hp]
  have := W_mul_le (n - p) L A hAL
  simp only; omega

/-- `iterate (…)(length, advance, unroll) {…} else (…) {…} …`: the whole chain -/
theorem iterate_chain_unroll_equiv (n : Nat) (blocks : List (Nat × Nat × Nat)) (p : Nat)
    (hb : ∀ b ∈ blocks, 1 ≤ b.2.1 ∧ b.2.1 ≤ b.1 ∧ 1 ≤ b.2.2) (hp : p ≤ n) :
    cChain n blocks p = plainChain n blocks p := by
  induction blocks generalizing p with
  | nil => rfl
  | cons b rest ih =>
    obtain ⟨L, A, U⟩ := b
    have h := hb (L, A, U) (List.mem_cons_self)
    simp only at h
    unfold cChain plainChain
    rw [iterate_unroll_equiv n L A U p h.1 h.2.1 h.2.2 hp]
    have hp' := plainBlock_end_le n L A p h.1 h.2.1 hp
    simp only [ih (plainBlock n L A p).2 (fun b hb' => hb b (List.mem_cons_of_mem _ hb')) hp']

/-- non-vacuity: the documentation's example, 26 bytes in chunks of 8 unrolled twice -/
example : cBlock 26 8 8 2 0 = ([(0, 8), (8, 8), (16, 8)], 24) := by decide

end WuffsVerif.Props.C04
