/-
C09 (part: CPU-specific paths) — the SSE4.2 PNG row filters compute, for EVERY row, exactly what the
portable fallbacks compute (over the per-channel models of `Model/PngFilterSse.lean`; the models
are tied to the compiled `filter_*_x86_sse42` / `filter_*_fallback` functions by `pngfilter` ops).
Both equal the PNG specification's Paeth predictor.
-/
import WuffsVerif.Model.PngFilterSse

namespace WuffsVerif.Props.C09
open WuffsVerif.PngFilter

theorem paethPortable_spec (a b c x : Nat) (ha : a < 256) (hb : b < 256) (hc : c < 256) :
    paethPortable a b c x = paethSpec a b c x := by
  have hpa : uabs (((((a + b) % W + W - c) % W) + W - a) % W) = absDiff b c := by
    unfold uabs absDiff W; split <;> split <;> omega
  have hpb : uabs (((((a + b) % W + W - c) % W) + W - b) % W) = absDiff a c := by
    unfold uabs absDiff W; split <;> split <;> omega
  have hpc : uabs (((((a + b) % W + W - c) % W) + W - c) % W) = absDiff (a + b) (2 * c) := by
    unfold uabs absDiff W; split <;> split <;> omega
  unfold paethPortable paethSpec
  simp only [hpa, hpb, hpc]
  split
  · rw [Nat.mod_eq_of_lt ha]
  · split
    · rw [Nat.mod_eq_of_lt hb]
    · rw [Nat.mod_eq_of_lt hc]

theorem paethSse_spec (a b c x : Nat) (ha : a < 256) (hb : b < 256) (hc : c < 256) :
    paethSse a b c x = paethSpec a b c x := by
  have hpa : abs16 (wrap16 ((b : Int) - c)) = (absDiff b c : Nat) := by
    unfold abs16 wrap16 absDiff; split <;> split <;> omega
  have hpb : abs16 (wrap16 ((a : Int) - c)) = (absDiff a c : Nat) := by
    unfold abs16 wrap16 absDiff; split <;> split <;> omega
  have hpc : abs16 (wrap16 (wrap16 ((b : Int) - c) + wrap16 ((a : Int) - c))) = (absDiff (a + b) (2 * c) : Nat) := by
    unfold abs16 wrap16 absDiff; split <;> split <;> omega
  unfold paethSse paethSpec
  simp only [hpa, hpb, hpc]
  generalize absDiff b c = pa
  generalize absDiff a c = pb
  generalize absDiff (a + b) (2 * c) = pc
  unfold imin
  repeat' split
  all_goals omega

/-- Paeth: i16-lane SSE4.2 code = u32 portable code, for all byte values -/
theorem paeth_sse_eq_portable (a b c x : Nat) (ha : a < 256) (hb : b < 256) (hc : c < 256) :
    paethSse a b c x = paethPortable a b c x := by
  rw [paethSse_spec a b c x ha hb hc, paethPortable_spec a b c x ha hb hc]

theorem xor_parity (a b : Nat) : (a ^^^ b) % 2 = (a + b) % 2 := by
  have h1 := Nat.testBit_xor a b 0
  rw [Nat.testBit_zero, Nat.testBit_zero, Nat.testBit_zero] at h1
  rcases Nat.mod_two_eq_zero_or_one a with ha | ha <;> rcases Nat.mod_two_eq_zero_or_one b with hb | hb <;>
    rcases Nat.mod_two_eq_zero_or_one (a ^^^ b) with hx | hx <;>
    first
    | omega
    | (rw [ha, hb, hx] at h1; exact absurd h1 (by decide))

/-- Average: round-up average minus the parity correction = round-down average -/
theorem avg_sse_eq_portable (a b x : Nat) (ha : a < 256) (hb : b < 256) : avgSse a b x = avgPortable a b x := by
  unfold avgSse avgPortable
  simp only
  rw [Nat.and_comm, Nat.and_one_is_mod, xor_parity]
  omega

theorem and_254 (a : Fin 256) : a.val &&& 254 = a.val - a.val % 2 := by
  revert a
  decide +kernel

/-- Average on the first row -/
theorem avgFirst_sse_eq_portable (a x : Nat) (ha : a < 256) : avgFirstSse a x = avgFirstPortable a x := by
  unfold avgFirstSse avgFirstPortable
  have := and_254 ⟨a, ha⟩
  simp only at this
  rw [this]
  omega

theorem sub_sse_eq_portable (a x : Nat) : subSse a x = subPortable a x := by
  unfold subSse subPortable
  rw [Nat.add_comm]

/-- one byte: the two variants agree for every filter type, on byte operands -/
theorem step_sse_eq_portable (f : Nat) (pe : Bool) (a b c x : Nat) (ha : a < 256) (hb : b < 256) (hc : c < 256) :
    stepSse f pe a b c x = stepPortable f pe a b c x := by
  unfold stepSse stepPortable
  by_cases h1 : f = 1
  · rw [if_pos h1, if_pos h1]
    exact sub_sse_eq_portable a x
  · rw [if_neg h1, if_neg h1]
    by_cases h3 : f = 3
    · rw [if_pos h3, if_pos h3]
      cases pe
      · rw [if_neg (by decide), if_neg (by decide)]
        exact avg_sse_eq_portable a b x ha hb
      · rw [if_pos rfl, if_pos rfl]
        exact avgFirst_sse_eq_portable a x ha
    · rw [if_neg h3, if_neg h3]
      by_cases h4 : f = 4
      · rw [if_pos h4, if_pos h4]
        exact paeth_sse_eq_portable a b c x ha hb hc
      · rw [if_neg h4, if_neg h4]


theorem foldl_ext {α β : Type} (g1 g2 : β → α → β) (l : List α) (h : ∀ acc x, g1 acc x = g2 acc x) :
    ∀ init, l.foldl g1 init = l.foldl g2 init := by
  induction l with
  | nil => intro init; rfl
  | cons y rest ih => intro init; simp only [List.foldl_cons, h, ih]

theorem lookback_lt (i d : Nat) (out : Array UInt8) :
    (if i < d then 0 else (out.getD (i - d) 0).toNat) < 256 := by
  split
  · omega
  · exact UInt8.toNat_lt _

/-- `png_filters_sse_eq_portable`: for every filter type, filter distance, current row and previous
row (of any lengths), the SSE4.2 row filter and the portable one produce the same bytes. -/
theorem png_filters_sse_eq_portable (f d : Nat) (curr prev : Array UInt8) :
    runRowSse f d curr prev = runRowPortable f d curr prev := by
  unfold runRowSse runRowPortable runRowWith
  apply congrArg Array.toList
  apply foldl_ext
  intro out i
  dsimp only
  rw [step_sse_eq_portable f prev.isEmpty _ _ _ _ (lookback_lt i d out) (UInt8.toNat_lt _) (lookback_lt i d prev)]

end WuffsVerif.Props.C09
