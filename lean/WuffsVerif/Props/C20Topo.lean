/-
C20 (model validation, beyond the determinism clause): when the model of
lang/ast/sort.go TopologicalSortStructs succeeds, the order it returns — the order
in which cgen emits the struct definitions — lists every struct exactly once, and
every struct after the structs its fields resolve to (through the last-wins `byQID`
lookup).  Proved through the fuel recursion of `tssVisit` and both loops
(Proof/DetTopo.lean: invariant `TInv`, `tssVisit_spec`, `visitFields_spec`, `topLoop_spec`).
-/
import WuffsVerif.Model.Det
import WuffsVerif.Proof.Det
import WuffsVerif.Proof.DetTopo
import WuffsVerif.Proof.DetTopoCycle
import WuffsVerif.Model.DetQQID

namespace WuffsVerif.Props.C20
open WuffsVerif.Det List

/-- the field types of struct `i` (declaration order index) -/
def fieldsOf (ns : List StructDecl) (i : Nat) : List Key := (ns[i]?.map (·.fieldTypes)).getD []

/-- **The emitted struct order is a topological order.** -/
theorem toposort_is_topological (ns : List StructDecl) (order : List Nat) (h : topoSort ns = some order) :
    order.Nodup ∧ (∀ i, i ∈ order ↔ i < ns.length) ∧
    ∀ i ∈ order, ∀ q ∈ fieldsOf ns i, ∀ d, (buildByQID ns).get q = some d →
      ∃ pre suf, order = pre ++ i :: suf ∧ d ∈ pre := by
  unfold topoSort topoSortRep at h
  rw [topoSortWith_eq] at h
  cases hl : topLoop ns.toArray (buildByQID ns).get (ns.length + 2) (List.range ns.length)
      ([], Array.replicate ns.length Mark.unmarked) with
  | none => rw [hl] at h; cases h
  | some st =>
    rw [hl] at h
    simp only [Option.map_some, Option.some.injEq] at h
    subst h
    have hsz : ns.toArray.size = ns.length := by simp
    have hb : ∀ q d, (buildByQID ns).get q = some d → d < ns.toArray.size := by
      intro q d hq; rw [hsz]; exact buildByQID_bound ns q d hq
    have hmk : ∀ i, markOf (Array.replicate ns.length Mark.unmarked) i = Mark.unmarked := by
      intro i
      simp only [markOf, Array.getElem?_replicate]
      split <;> rfl
    have hinit : TInv ns.toArray (buildByQID ns).get ([], Array.replicate ns.length Mark.unmarked) := by
      refine ⟨by simp, ?_, by simp, by simp, by simp⟩
      intro i
      simp only [hmk, not_mem_nil, iff_false]
      intro h'; cases h'
    obtain ⟨r1, _, _, r4⟩ := topLoop_spec ns.toArray (buildByQID ns).get hb (ns.length + 2) (List.range ns.length) _ st
      (fun i hi => by rw [hsz]; exact List.mem_range.mp hi) hinit (fun i => by simp only [hmk]; intro h'; cases h') hl
    refine ⟨r1.nodup, ?_, ?_⟩
    · intro i
      constructor
      · intro hi; have := r1.bound i hi; rwa [hsz] at this
      · intro hi; exact r4 i (List.mem_range.mpr hi)
    · intro i hi q hq d hd
      apply r1.closed i hi d
      unfold depsOf
      apply mem_filterMap.mpr
      refine ⟨q, ?_, hd⟩
      unfold fieldsOf at hq
      simpa using hq

/-- … for every layout of the `byQID` map -/
theorem toposort_is_topological_any_layout (ns : List StructDecl) (m : GoMap Key Nat) (hm : buildByQID ns ~ m)
    (order : List Nat) (h : topoSortRep m ns = some order) :
    order.Nodup ∧ (∀ i, i ∈ order ↔ i < ns.length) ∧
    ∀ i ∈ order, ∀ q ∈ fieldsOf ns i, ∀ d, (buildByQID ns).get q = some d →
      ∃ pre suf, order = pre ++ i :: suf ∧ d ∈ pre := by
  apply toposort_is_topological
  unfold topoSort topoSortRep at *
  have : (buildByQID ns).get = m.get := funext (get_perm_invariant (buildByQID_keysNodup ns) hm)
  rw [this]; exact h

/-- non-vacuity: struct 0 needs 1 and 2, 1 needs 2; a duplicate QID resolves to the later struct -/
example : topoSort [⟨10, [11, 12]⟩, ⟨11, [12]⟩, ⟨12, [99]⟩, ⟨13, []⟩] = some [2, 1, 0, 3] := by decide
example : topoSort [⟨10, [11]⟩, ⟨11, []⟩, ⟨11, []⟩] = some [2, 0, 1] := by decide

/-! ## "cycle" is reported exactly when the resolved dependency graph has one -/

/-- The model never runs out of fuel: `topoSort` fails only if some struct lies on a cycle
of the resolved dependency graph (Go: `ok = false` = "cyclical struct definitions"). -/
theorem toposort_none_cycle (ns : List StructDecl) (h : topoSort ns = none) :
    ∃ t, OnCycle ns.toArray (buildByQID ns).get t := by
  unfold topoSort topoSortRep at h
  rw [topoSortWith_eq] at h
  cases hl : topLoop ns.toArray (buildByQID ns).get (ns.length + 2) (List.range ns.length)
      ([], Array.replicate ns.length Mark.unmarked) with
  | some st => rw [hl] at h; cases h
  | none =>
    have hsz : ns.toArray.size = ns.length := by simp
    have hb : ∀ q d, (buildByQID ns).get q = some d → d < ns.toArray.size := by
      intro q d hq; rw [hsz]; exact buildByQID_bound ns q d hq
    have hmk : ∀ i, markOf (Array.replicate ns.length Mark.unmarked) i = Mark.unmarked := by
      intro i
      simp only [markOf, Array.getElem?_replicate]
      split <;> rfl
    have hinit : TInv ns.toArray (buildByQID ns).get ([], Array.replicate ns.length Mark.unmarked) := by
      refine ⟨by simp, ?_, by simp, by simp, by simp⟩
      intro i
      simp only [hmk, not_mem_nil, iff_false]
      intro h'; cases h'
    exact topLoop_none ns.toArray (buildByQID ns).get hb (ns.length + 2) (by rw [hsz]; omega) (List.range ns.length) _
      (fun i hi => by rw [hsz]; exact List.mem_range.mp hi) hinit (fun i => by simp only [hmk]; intro h'; cases h') hl

/-- position lemma: in a duplicate-free list, what stands in `pre` stands before `b` -/
theorem idxOf_lt_of_split {order pre suf : List Nat} {a b : Nat} (hn : order.Nodup) (e : order = pre ++ b :: suf)
    (ha : a ∈ pre) : order.idxOf a < order.idxOf b := by
  subst e
  have hb : b ∉ pre := by
    intro hb
    have := (nodup_append.mp hn).2.2 b hb b (by simp)
    exact this rfl
  rw [idxOf_append, idxOf_append]
  simp only [ha, hb, if_true, if_false, idxOf_cons_self]
  have := idxOf_lt_length_of_mem ha
  omega

/-- Conversely a successful sort excludes cycles: the two together say that the model
answers "cycle" iff there is one. -/
theorem toposort_some_acyclic (ns : List StructDecl) (order : List Nat) (h : topoSort ns = some order) :
    ¬ ∃ t, OnCycle ns.toArray (buildByQID ns).get t := by
  obtain ⟨hnd, hmem, hclosed⟩ := toposort_is_topological ns order h
  have hsz : ns.toArray.size = ns.length := by simp
  -- an edge goes to a strictly earlier position
  have hedge : ∀ i d, Edge ns.toArray (buildByQID ns).get i d → i < ns.length ∧ d < ns.length ∧ order.idxOf d < order.idxOf i := by
    intro i d he
    unfold Edge depsOf at he
    obtain ⟨q, hq, hqd⟩ := mem_filterMap.mp he
    have hi : i < ns.length := by
      by_cases hi : i < ns.length
      · exact hi
      · have : ns.toArray[i]? = none := by simp; omega
        rw [this] at hq
        simp at hq
    have hd : d < ns.length := buildByQID_bound ns q d hqd
    have hq' : q ∈ fieldsOf ns i := by
      unfold fieldsOf
      simpa using hq
    obtain ⟨pre, suf, e, hdp⟩ := hclosed i ((hmem i).mpr hi) q hq' d hqd
    exact ⟨hi, hd, idxOf_lt_of_split hnd e hdp⟩
  have hreach : ∀ d t, Reach ns.toArray (buildByQID ns).get d t → order.idxOf t ≤ order.idxOf d := by
    intro d t hr
    induction hr with
    | refl i => exact Nat.le_refl _
    | step he _ ih => have := (hedge _ _ he).2.2; omega
  rintro ⟨t, d, he, hr⟩
  have h1 := (hedge t d he).2.2
  have h2 := hreach d t hr
  omega

theorem toposort_none_iff_cycle (ns : List StructDecl) :
    topoSort ns = none ↔ ∃ t, OnCycle ns.toArray (buildByQID ns).get t := by
  constructor
  · exact toposort_none_cycle ns
  · intro hc
    cases h : topoSort ns with
    | none => rfl
    | some order => exact absurd hc (toposort_some_acyclic ns order h)

/-! ## the comparator of the sorting / pick-the-largest sites -/

/-- `QQID.LessThan` on uint32 triples is `<` on the keys Model/Det.lean works with, so the
per-interface `sort.Slice(…, LessThan)` is `sortBy nle` and "pick the largest" is `pickLargest`. -/
theorem qqidLess_eq_key_lt (x0 x1 x2 y0 y1 y2 : Nat)
    (hx1 : x1 < 4294967296) (hx2 : x2 < 4294967296) (hy1 : y1 < 4294967296) (hy2 : y2 < 4294967296) :
    qqidLess x0 x1 x2 y0 y1 y2 = decide (qqidKey x0 x1 x2 < qqidKey y0 y1 y2) := by
  unfold qqidLess qqidKey
  by_cases h0 : x0 = y0
  · subst h0
    by_cases h1 : x1 = y1
    · subst h1
      simp only [bne_self_eq_false, Bool.false_eq_true, if_false, decide_eq_decide]
      constructor <;> intro h <;> omega
    · have : (x1 != y1) = true := by simpa using h1
      simp only [bne_self_eq_false, Bool.false_eq_true, if_false, this, if_true, decide_eq_decide]
      constructor <;> intro h <;> omega
  · have : (x0 != y0) = true := by simpa using h0
    simp only [this, if_true, decide_eq_decide]
    constructor <;> intro h <;> omega

/-- distinct QQIDs have distinct keys (the sort lemma's antisymmetry is about keys) -/
theorem qqidKey_injective (x0 x1 x2 y0 y1 y2 : Nat)
    (hx1 : x1 < 4294967296) (hx2 : x2 < 4294967296) (hy1 : y1 < 4294967296) (hy2 : y2 < 4294967296)
    (h : qqidKey x0 x1 x2 = qqidKey y0 y1 y2) : x0 = y0 ∧ x1 = y1 ∧ x2 = y2 := by
  unfold qqidKey at h
  omega

example : qqidLess 1 0 4294967295 1 1 0 = true := by decide

end WuffsVerif.Props.C20
