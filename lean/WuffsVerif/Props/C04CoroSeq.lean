/-
C04 — a whole straight-line coroutine of multi-byte reads

    this.f0 = args.src.read_u…?()   this.f1 = args.src.read_u…?()   …

as the C function cgen writes for it (`seqBody`: one `readTmpl` per statement,
suspension points 1, 2 for the first, 3, 4 for the second, …), called again
and again on a stream that arrives in pieces.  A resumed call enters through
`switch (coro_susp_point)`: every statement before the suspended one is
skipped (`seek_skip`), the suspended read goes on with the partial value in the
scratch word (`read_resume`), the statements after it run from their top.

  `seq_run_fresh`        a run from the top of statement i: as many whole fields as the buffer holds
  `seq_call`             one call, fresh or resumed in the middle of statement i
  `seq_split_invariant`  whatever the pieces: the fields get the values of their bytes, in order, and
                         exactly the bytes of the fields are consumed
-/
import WuffsVerif.Props.C04Coro

namespace WuffsVerif.Props.C04CoroSeq
open WuffsVerif.CCoro WuffsVerif.Props.C04Coro

/-- one read statement: (bytes taken n, bits of the result type yy, big-endian) -/
abbrev RdOp := Nat × Nat × Bool

def RdOp.ok (o : RdOp) : Prop := o.1 ≤ 8 ∧ 8 * o.1 ≤ o.2.1

instance (o : RdOp) : Decidable o.ok := by unfold RdOp.ok; exact inferInstance

/-- the C body: the templates in order, two suspension points each, from `k` on -/
def seqBody : List RdOp → Nat → List Tm
  | [], _ => []
  | o :: r, k => readTmpl o.1 o.2.1 o.2.2 k :: seqBody r (k + 2)

def total : List RdOp → Nat
  | [] => 0
  | o :: r => o.1 + total r

/-- what the source means: the successive fields of the byte sequence -/
def fields : List RdOp → List Nat → List Nat
  | [], _ => []
  | o :: r, bs => peek o.2.2 (bs.take o.1) :: fields r (bs.drop o.1)

theorem total_append (a b : List RdOp) : total (a ++ b) = total a + total b := by
  induction a with
  | nil => simp [total]
  | cons o r ih => simp [total, ih]; omega

theorem fields_append (a b : List RdOp) (bs : List Nat) :
    fields (a ++ b) bs = fields a bs ++ fields b (bs.drop (total a)) := by
  induction a generalizing bs with
  | nil => simp [fields, total]
  | cons o r ih => simp [fields, total, ih, List.drop_drop]

/-- the fields only look at the first `total ops` bytes -/
theorem fields_take (ops : List RdOp) (bs : List Nat) (m : Nat) (h : total ops ≤ m) :
    fields ops (bs.take m) = fields ops bs := by
  induction ops generalizing bs m with
  | nil => simp [fields]
  | cons o r ih =>
    simp only [total] at h
    simp only [fields]
    rw [List.take_take, Nat.min_eq_left (by omega), List.drop_take, ih _ _ (by omega)]

/-! ## Plumbing: a statement list, one statement at a time -/

theorem exec_of_single {fuel : Nat} {t : Tm} {s : CSt} {o : Out} (h : execL fuel [t] s = some o) :
    t.exec fuel s = some o := by
  simp only [execL] at h
  split at h
  · rename_i s' he; simp only [Option.some.injEq] at h; rw [he, ← h]
  · exact h

theorem execL_cons_normal {fuel : Nat} {t : Tm} {r : List Tm} {s s' : CSt} (h : execL fuel [t] s = some (.normal s')) :
    execL fuel (t :: r) s = execL fuel r s' := by
  simp only [execL, exec_of_single h]

theorem execL_cons_susp {fuel : Nat} {t : Tm} {r : List Tm} {s s' : CSt} (h : execL fuel [t] s = some (.susp s')) :
    execL fuel (t :: r) s = some (.susp s') := by
  simp only [execL, exec_of_single h]

theorem hasPoint_loopBody (p n yy : Nat) (be : Bool) : hasPointL p (loopBody n yy be) = false := by
  cases be <;> simp [loopBody, hasPointL, Tm.hasPoint]

/-- **seek_skip.**  A resuming call whose target is not one of the two points
of this template passes over it without doing anything. -/
theorem seek_skip (n yy : Nat) (be : Bool) (k fuel : Nat) (s : CSt) (hseek : s.seek = true)
    (h1 : s.pt ≠ k) (h2 : s.pt ≠ k + 1) : execL fuel [readTmpl n yy be k] s = some (.normal s) := by
  have e1 : (s.pt == k) = false := by simp [h1]
  have e3 : (k + 1 == s.pt) = false := by simp; omega
  simp [readTmpl_eq, execL, Tm.exec, hseek, e1, e3, hasPointL, Tm.hasPoint, hasPoint_loopBody]

theorem seek_skip_seq (fuel : Nat) : ∀ (ops : List RdOp) (k : Nat) (s : CSt), s.seek = true →
    (s.pt < k ∨ k + 2 * ops.length ≤ s.pt) → execL fuel (seqBody ops k) s = some (.normal s) := by
  intro ops
  induction ops with
  | nil => intro k s _ _; simp [seqBody, execL]
  | cons o r ih =>
    intro k s hseek hpt
    simp only [List.length_cons] at hpt
    rw [seqBody, execL_cons_normal (seek_skip o.1 o.2.1 o.2.2 k fuel s hseek (by omega) (by omega))]
    exact ih (k + 2) s hseek (by omega)

/-- **seq_run_fresh.**  A run that starts (not seeking) at the top of the
statements `ops`: with all their bytes in the buffer every field is stored and
exactly those bytes are consumed; otherwise the whole fields that fit are
stored, the first one that does not fit takes what is left and the call
suspends at that statement's second point. -/
theorem seq_run_fresh (fuel : Nat) : ∀ (ops : List RdOp) (k : Nat) (s : CSt),
    (∀ o ∈ ops, o.ok) → s.seek = false → s.iop ≤ s.buf.length → (∀ x ∈ s.buf, x < 256) → s.buf.length < fuel →
    (total ops ≤ s.buf.length - s.iop →
      ∃ s', execL fuel (seqBody ops k) s = some (.normal s') ∧ s'.buf = s.buf ∧ s'.seek = false ∧
        s'.iop = s.iop + total ops ∧ s'.dest = s.dest ++ fields ops (s.buf.drop s.iop)) ∧
    (s.buf.length - s.iop < total ops →
      ∃ s' pre o post, ops = pre ++ o :: post ∧ total pre ≤ s.buf.length - s.iop ∧
        s.buf.length - s.iop < total pre + o.1 ∧
        execL fuel (seqBody ops k) s = some (.susp s') ∧ s'.buf = s.buf ∧ s'.pt = k + 2 * pre.length + 1 ∧
        s'.iop = s.buf.length ∧ s'.dest = s.dest ++ fields pre (s.buf.drop s.iop) ∧
        s'.scratch = partialV o.2.2 (s.buf.drop (s.iop + total pre))) := by
  intro ops
  induction ops with
  | nil =>
    intro k s _ hseek _ _ _
    refine ⟨fun _ => ⟨s, by simp [seqBody, execL], rfl, hseek, by simp [total], by simp [fields]⟩, fun h => ?_⟩
    simp [total] at h
  | cons o r ih =>
    intro k s hok hseek hle hbuf hfuel
    obtain ⟨hn8, hyy⟩ := hok o (by simp)
    have hokr : ∀ o' ∈ r, o'.ok := fun o' ho' => hok o' (by simp [ho'])
    by_cases hfit : o.1 ≤ s.buf.length - s.iop
    · -- the field is in the buffer: fast path, then the rest
      obtain ⟨s1, hw, b1, b2, b3, b4⟩ := read_fast o.1 o.2.1 o.2.2 k fuel s hyy hseek hbuf (by omega)
      have hstep : execL fuel (seqBody (o :: r) k) s = execL fuel (seqBody r (k + 2)) s1 := by
        rw [seqBody, execL_cons_normal hw]
      have g1 : s1.iop ≤ s1.buf.length := by rw [b1, b3]; omega
      have g2 : ∀ x ∈ s1.buf, x < 256 := by rw [b1]; exact hbuf
      have g3 : s1.buf.length < fuel := by rw [b1]; exact hfuel
      have e1 : s1.buf.length - s1.iop = s.buf.length - s.iop - o.1 := by rw [b1, b3]; omega
      constructor
      · intro htot
        simp only [total] at htot
        have hfact : total r ≤ s1.buf.length - s1.iop := by rw [e1]; omega
        obtain ⟨s', hw', c1, c2, c3, c4⟩ := (ih (k + 2) s1 hokr b2 g1 g2 g3).1 hfact
        refine ⟨s', by rw [hstep, hw'], c1.trans b1, c2, by rw [c3, b3]; simp only [total]; omega, ?_⟩
        rw [c4, b4, b1, b3]
        simp only [fields, List.append_assoc, List.singleton_append, List.drop_drop]
      · intro htot
        simp only [total] at htot
        have hfact : s1.buf.length - s1.iop < total r := by rw [e1]; omega
        obtain ⟨s', pre, o', post, e, d1, d2, hw', c1, c2, c3, c4, c5⟩ := (ih (k + 2) s1 hokr b2 g1 g2 g3).2 hfact
        rw [e1] at d1 d2
        have q1 : total (o :: pre) ≤ s.buf.length - s.iop := by simp only [total]; omega
        have q2 : s.buf.length - s.iop < total (o :: pre) + o'.1 := by simp only [total]; omega
        have q3 : s'.pt = k + 2 * (o :: pre).length + 1 := by rw [c2]; simp only [List.length_cons]; omega
        refine ⟨s', o :: pre, o', post, by rw [e]; rfl, q1, q2, by rw [hstep, hw'], c1.trans b1, q3,
          by rw [c3, b1], ?_, ?_⟩
        · rw [c4, b4, b1, b3]
          simp only [fields, List.append_assoc, List.singleton_append, List.drop_drop]
        · rw [c5, b1, b3]; simp only [total]; congr 2; omega
    · -- the field is not: slow path, suspend
      obtain ⟨s', hw, ⟨b1, b2, b3, b4, b5⟩⟩ := read_enter_slow o.1 o.2.1 o.2.2 k fuel s hn8 hyy hseek hle hbuf
        (by omega) (by omega)
      constructor
      · intro htot; simp only [total] at htot; omega
      · intro _
        exact ⟨s', [], o, r, rfl, by simp [total], by simp [total]; omega,
          by rw [seqBody, execL_cons_susp hw], b1, by simp [b2], b3, by simp [fields, b4], by simpa [total] using b5⟩

theorem seqBody_append (a b : List RdOp) (k : Nat) :
    seqBody (a ++ b) k = seqBody a k ++ seqBody b (k + 2 * a.length) := by
  induction a generalizing k with
  | nil => simp [seqBody]
  | cons o r ih =>
    simp only [List.cons_append, seqBody, ih, List.length_cons]
    congr 3; omega

theorem execL_append_normal (fuel : Nat) : ∀ (a b : List Tm) (s s' : CSt),
    execL fuel a s = some (.normal s') → execL fuel (a ++ b) s = execL fuel b s' := by
  intro a
  induction a with
  | nil => intro b s s' h; simp only [execL, Option.some.injEq, Out.normal.injEq] at h; subst h; rfl
  | cons t r ih =>
    intro b s s' h
    simp only [List.cons_append, execL] at h ⊢
    cases ht : t.exec fuel s with
    | none => simp [ht] at h
    | some o =>
      cases o with
      | normal s1 => simp only [ht] at h ⊢; exact ih b s1 s' h
      | brk s1 => simp [ht] at h
      | susp s1 => simp [ht] at h

/-- **seq_run_resumed.**  A call resumed in the middle of statement `o` (the
statements `pre` before it, `post` after it), `taken` of its bytes in the
scratch word: `pre` is skipped, `o` continues with the partial value, and —
if it completes — `post` runs from the top (`seq_run_fresh`). -/
theorem seq_run_resumed (fuel : Nat) (pre : List RdOp) (o : RdOp) (post : List RdOp) (k : Nat) (s : CSt)
    (taken : List Nat) (hok : ∀ o' ∈ pre ++ o :: post, o'.ok) (hseek : s.seek = true)
    (hpt : s.pt = k + 2 * pre.length + 1) (hle : s.iop ≤ s.buf.length) (hbuf : ∀ x ∈ s.buf, x < 256)
    (htaken : ∀ x ∈ taken, x < 256) (hlen : taken.length < o.1) (hs : s.scratch = partialV o.2.2 taken)
    (hfuel : s.buf.length < fuel) :
    -- the rest of `o` is not in the buffer: still in `o`
    (s.buf.length - s.iop < o.1 - taken.length →
      ∃ s', execL fuel (seqBody (pre ++ o :: post) k) s = some (.susp s') ∧ s'.buf = s.buf ∧ s'.pt = s.pt ∧
        s'.iop = s.buf.length ∧ s'.dest = s.dest ∧ s'.scratch = partialV o.2.2 (taken ++ s.buf.drop s.iop)) ∧
    -- it is: `o` completes at `s1`, and the rest is a fresh run of `post` from there
    (o.1 - taken.length ≤ s.buf.length - s.iop →
      ∃ s1, s1.buf = s.buf ∧ s1.seek = false ∧ s1.iop = s.iop + (o.1 - taken.length) ∧
        s1.dest = s.dest ++ [peek o.2.2 (taken ++ (s.buf.drop s.iop).take (o.1 - taken.length))] ∧
        execL fuel (seqBody (pre ++ o :: post) k) s = execL fuel (seqBody post (k + 2 * pre.length + 2)) s1) := by
  have hoko : o.ok := hok o (by simp)
  have hskip : execL fuel (seqBody pre k) s = some (.normal s) :=
    seek_skip_seq fuel pre k s hseek (Or.inr (by omega))
  have hsplit : execL fuel (seqBody (pre ++ o :: post) k) s =
      execL fuel (readTmpl o.1 o.2.1 o.2.2 (k + 2 * pre.length) :: seqBody post (k + 2 * pre.length + 2)) s := by
    rw [seqBody_append, execL_append_normal fuel _ _ s s hskip, seqBody]
  constructor
  · intro hlt
    obtain ⟨s', hw, b1, b2, b3, b4, b5⟩ := (read_resume o.1 o.2.1 o.2.2 (k + 2 * pre.length) fuel s taken hoko.1 hoko.2
      hseek hpt hle hbuf htaken hlen hs (by omega)).2 (by omega)
    exact ⟨s', by rw [hsplit, execL_cons_susp hw], b1, by rw [b2, hpt], b3, b4, b5⟩
  · intro hge
    obtain ⟨s1, hw, ⟨b1, b2, b3⟩, b4⟩ := (read_resume o.1 o.2.1 o.2.2 (k + 2 * pre.length) fuel s taken hoko.1 hoko.2
      hseek hpt hle hbuf htaken hlen hs (by omega)).1 (by omega)
    exact ⟨s1, b1, b2, b4, b3, by rw [hsplit, execL_cons_normal hw]⟩

/-! ## Whole calls on a stream that arrives in pieces -/

theorem fields_take_drop (ops : List RdOp) (l : List Nat) (a q : Nat) (h : q + total ops ≤ a) :
    fields ops ((l.take a).drop q) = fields ops (l.drop q) := by
  rw [List.drop_take, fields_take _ _ _ (by omega)]

/-- the frame between two calls: suspended in statement `o` (after `pre`),
the bytes of `o` up to `f.ri` in the scratch word, the fields of `pre` stored -/
def SeqMid (ops : List RdOp) (stream : List Nat) (f : Frame) : Prop :=
  ∃ pre o post, ops = pre ++ o :: post ∧ f.p = 1 + 2 * pre.length + 1 ∧ total pre ≤ f.ri ∧
    f.ri < total pre + o.1 ∧
    f.scratch = partialV o.2.2 ((stream.drop (total pre)).take (f.ri - total pre)) ∧
    f.dest = fields pre stream

/-- what a call ends in: ok with every field stored, or suspended in some statement -/
def SeqStep (ops : List RdOp) (stream : List Nat) (a : Nat) (res : Option (Bool × Frame)) : Prop :=
  (total ops ≤ a → ∃ f', res = some (true, f') ∧ f'.p = 0 ∧ f'.ri = total ops ∧ f'.dest = fields ops stream) ∧
  (a < total ops → ∃ f', res = some (false, f') ∧ SeqMid ops stream f' ∧ f'.ri = a)

/-- the first call (`p_f = 0`, whatever is in the scratch word) -/
theorem seq_call_fresh (fuel : Nat) (ops : List RdOp) (stream : List Nat) (arg stale a : Nat)
    (hok : ∀ o ∈ ops, o.ok) (hbytes : ∀ x ∈ stream, x < 256) (ha : a ≤ stream.length) (hfuel : stream.length < fuel) :
    SeqStep ops stream a (call fuel (seqBody ops 1) (stream.take a) arg { p := 0, scratch := stale, ri := 0, dest := [] }) := by
  have hlen : (stream.take a).length = a := by simp; omega
  have hb : ∀ x ∈ stream.take a, x < 256 := fun x hx => hbytes x (List.mem_of_mem_take hx)
  have hrun := seq_run_fresh fuel ops 1
    { buf := stream.take a, iop := 0, scratch := stale, pt := 0, seek := false, dest := [], arg := arg }
    hok rfl (Nat.zero_le _) hb (by simp only [hlen]; omega)
  simp only [hlen, Nat.sub_zero, List.drop_zero, List.nil_append, Nat.zero_add] at hrun
  constructor
  · intro htot
    obtain ⟨s', hw, b1, b2, b3, b4⟩ := hrun.1 htot
    refine ⟨{ p := 0, scratch := s'.scratch, ri := s'.iop, dest := s'.dest }, ?_, rfl, b3, ?_⟩
    · simp only [call, bne_self_eq_false, hw, b2, Bool.false_eq_true, ↓reduceIte]
    · simp only [b4, fields_take ops stream a htot]
  · intro htot
    obtain ⟨s', pre, o, post, e, d1, d2, hw, b1, b2, b3, b4, b5⟩ := hrun.2 htot
    refine ⟨{ p := s'.pt, scratch := s'.scratch, ri := s'.iop, dest := s'.dest }, ?_,
      ⟨pre, o, post, e, b2, by simp only [b3]; exact d1, by simp only [b3]; exact d2, ?_, ?_⟩, b3⟩
    · simp only [call, bne_self_eq_false, hw]
    · simp only [b5, b3, List.drop_take]
    · simp only [b4, fields_take pre stream a d1]

theorem total_cons (o : RdOp) (r : List RdOp) : total (o :: r) = o.1 + total r := rfl

/-- the bytes of a field, put together from the part that was in the scratch
word and the part that is in the buffer now -/
theorem field_join (stream : List Nat) (a tp ri m : Nat) (h1 : tp ≤ ri) (h2 : ri + m ≤ a) :
    (stream.drop tp).take (ri - tp) ++ ((stream.take a).drop ri).take m = (stream.drop tp).take (ri - tp + m) := by
  have e1 : ((stream.take a).drop ri).take m = (stream.drop (tp + (ri - tp))).take m := by
    rw [show tp + (ri - tp) = ri by omega]
    exact take_take_drop stream a ri m h2
  rw [e1, take_split]

theorem field_join_all (stream : List Nat) (a tp ri : Nat) (h1 : tp ≤ ri) (h2 : ri ≤ a) :
    (stream.drop tp).take (ri - tp) ++ (stream.take a).drop ri = (stream.drop tp).take (a - tp) := by
  have e1 : (stream.take a).drop ri = (stream.drop (tp + (ri - tp))).take (a - ri) := by
    rw [show tp + (ri - tp) = ri by omega, List.drop_take]
  rw [e1, take_split, show ri - tp + (a - ri) = a - tp by omega]

/-- a resumed call (`p_f` = the second point of the statement it is suspended in) -/
theorem seq_call_resumed (fuel : Nat) (ops : List RdOp) (stream : List Nat) (arg a : Nat) (f : Frame)
    (hok : ∀ o ∈ ops, o.ok) (hbytes : ∀ x ∈ stream, x < 256) (ha : a ≤ stream.length) (hfuel : stream.length < fuel)
    (hmid : SeqMid ops stream f) (hri : f.ri ≤ a) :
    SeqStep ops stream a (call fuel (seqBody ops 1) (stream.take a) arg f) := by
  obtain ⟨pre, o, post, e, hp, htp, hlt, hsc, hd⟩ := hmid
  subst e
  have hlen : (stream.take a).length = a := by simp; omega
  have hb : ∀ x ∈ stream.take a, x < 256 := fun x hx => hbytes x (List.mem_of_mem_take hx)
  have htl : ((stream.drop (total pre)).take (f.ri - total pre)).length = f.ri - total pre :=
    take_drop_len stream (total pre) _ (by omega)
  have htb : ∀ x ∈ (stream.drop (total pre)).take (f.ri - total pre), x < 256 :=
    fun x hx => hbytes x (List.mem_of_mem_drop (List.mem_of_mem_take hx))
  have hp' : (f.p != 0) = true := by simp [hp]
  have htot : total (pre ++ o :: post) = total pre + o.1 + total post := by
    rw [total_append, total_cons]; omega
  have hlen' : ((stream.drop (total pre)).take (f.ri - total pre)).length < o.1 := by rw [htl]; omega
  have hle0 : f.ri ≤ (stream.take a).length := by rw [hlen]; exact hri
  have hfuel0 : (stream.take a).length < fuel := by rw [hlen]; omega
  have cA : a < total pre + o.1 → a - f.ri < o.1 - (f.ri - total pre) := by intro h; omega
  have cB : ¬a < total pre + o.1 → o.1 - (f.ri - total pre) ≤ a - f.ri := by intro h; omega
  have hres := seq_run_resumed fuel pre o post 1
    { buf := stream.take a, iop := f.ri, scratch := f.scratch, pt := f.p, seek := true, dest := f.dest, arg := arg }
    ((stream.drop (total pre)).take (f.ri - total pre)) hok rfl hp hle0 hb htb hlen' hsc hfuel0
  simp only [hlen, htl] at hres
  by_cases hin : a < total pre + o.1
  · -- still inside `o`
    obtain ⟨s', hw, b1, b2, b3, b4, b5⟩ := hres.1 (cA hin)
    clear hres cA cB
    refine ⟨fun h => by omega, fun _ => ⟨{ p := s'.pt, scratch := s'.scratch, ri := s'.iop, dest := s'.dest }, ?_,
      ⟨pre, o, post, rfl, by simp only [b2, hp], by simp only [b3]; omega, by simp only [b3]; exact hin, ?_, by simp only [b4, hd]⟩, b3⟩⟩
    · simp only [call, hp', hw]
    · simp only [b5, b3, field_join_all stream a (total pre) f.ri htp hri]
  · -- `o` completes; `post` runs from its top
    obtain ⟨s1, b1, b2, b3, b4, hw1⟩ := hres.2 (cB hin)
    clear hres cA cB
    have hs1iop : s1.iop = total pre + o.1 := by rw [b3]; omega
    have hfield : (stream.drop (total pre)).take (f.ri - total pre) ++
        ((stream.take a).drop f.ri).take (o.1 - (f.ri - total pre)) = (stream.drop (total pre)).take o.1 := by
      rw [field_join stream a (total pre) f.ri _ htp (by omega), show f.ri - total pre + (o.1 - (f.ri - total pre)) = o.1 by omega]
    have hs1dest : s1.dest = fields (pre ++ [o]) stream := by
      rw [b4, hfield, hd, fields_append]; rfl
    have okpost : ∀ o' ∈ post, o'.ok := fun o' ho' => hok o' (by simp [ho'])
    have g1 : s1.iop ≤ s1.buf.length := by rw [b1, hs1iop]; simp only [hlen]; omega
    have g2 : ∀ x ∈ s1.buf, x < 256 := by rw [b1]; exact hb
    have g3 : s1.buf.length < fuel := by rw [b1]; exact hfuel0
    have e1 : s1.buf.length - s1.iop = a - (total pre + o.1) := by rw [b1, hs1iop]; simp only [hlen]
    constructor
    · intro hall
      have c2 : total post ≤ s1.buf.length - s1.iop := by rw [e1]; omega
      obtain ⟨s', hw, d1, d2, d3, d4⟩ := (seq_run_fresh fuel post (1 + 2 * pre.length + 2) s1 okpost b2 g1 g2 g3).1 c2
      refine ⟨{ p := 0, scratch := s'.scratch, ri := s'.iop, dest := s'.dest }, ?_, rfl, by simp only [d3, hs1iop, htot], ?_⟩
      · simp only [call, hp', hw1, hw, d2, Bool.false_eq_true, ↓reduceIte]
      · simp only [d4, hs1dest, b1, hs1iop]
        rw [fields_take_drop post stream a (total pre + o.1) (by omega)]
        rw [show pre ++ o :: post = (pre ++ [o]) ++ post by simp, fields_append (pre ++ [o]) post, total_append]
        simp [total]
    · intro hnot
      have c2 : s1.buf.length - s1.iop < total post := by rw [e1]; omega
      obtain ⟨s', pre2, o2, post2, e, q1, q2, hw, d1, d2, d3, d4, d5⟩ :=
        (seq_run_fresh fuel post (1 + 2 * pre.length + 2) s1 okpost b2 g1 g2 g3).2 c2
      rw [e1] at q1 q2
      have tp' : total (pre ++ o :: pre2) = total pre + o.1 + total pre2 := by rw [total_append, total_cons]; omega
      refine ⟨{ p := s'.pt, scratch := s'.scratch, ri := s'.iop, dest := s'.dest }, ?_,
        ⟨pre ++ o :: pre2, o2, post2, by rw [e]; simp, ?_, ?_, ?_, ?_, ?_⟩, ?_⟩
      · simp only [call, hp', hw1, hw]
      · simp only [d2, List.length_append, List.length_cons]; omega
      · simp only [d3, b1, hlen, tp']; omega
      · simp only [d3, b1, hlen, tp']; omega
      · simp only [d5, d3, b1, hlen, hs1iop, tp', List.drop_take]
      · simp only [d4, hs1dest, b1, hs1iop]
        rw [fields_take_drop pre2 stream a (total pre + o.1) (by omega)]
        rw [show pre ++ o :: pre2 = (pre ++ [o]) ++ pre2 by simp, fields_append (pre ++ [o]) pre2, total_append]
        simp [total]
      · simp only [d3, b1, hlen]

theorem seq_drive_mid (fuel : Nat) (ops : List RdOp) (stream : List Nat) (arg : Nat)
    (hok : ∀ o ∈ ops, o.ok) (hbytes : ∀ x ∈ stream, x < 256) (hfuel : stream.length < fuel) :
    ∀ (avails : List Nat) (f : Frame), SeqMid ops stream f → avails.Pairwise (· ≤ ·) →
      (∀ a ∈ avails, f.ri ≤ a ∧ a ≤ stream.length) → (∃ a ∈ avails, total ops ≤ a) →
      ∃ f', drive fuel (seqBody ops 1) stream arg avails f = some (true, f') ∧
        f'.p = 0 ∧ f'.ri = total ops ∧ f'.dest = fields ops stream := by
  intro avails
  induction avails with
  | nil => intro f _ _ _ hex; obtain ⟨a, ha, _⟩ := hex; cases ha
  | cons a r ih =>
    intro f hmid hpw hall hex
    obtain ⟨hri, ha⟩ := hall a (by simp)
    have hstep := seq_call_resumed fuel ops stream arg a f hok hbytes ha hfuel hmid hri
    by_cases hge : total ops ≤ a
    · obtain ⟨f', hc, h1, h2, h3⟩ := hstep.1 hge
      exact ⟨f', by simp only [drive, hc], h1, h2, h3⟩
    · obtain ⟨f', hc, hm', hri'⟩ := hstep.2 (by omega)
      have hpw' := List.pairwise_cons.mp hpw
      obtain ⟨f'', hd', g⟩ := ih f' hm' hpw'.2
        (fun a' ha' => ⟨by rw [hri']; exact hpw'.1 a' ha', (hall a' (by simp [ha'])).2⟩)
        (by
          obtain ⟨x, hx, hxge⟩ := hex
          rcases List.mem_cons.mp hx with rfl | hx'
          · exact absurd hxge hge
          · exact ⟨x, hx', hxge⟩)
      exact ⟨f'', by simp only [drive, hc, hd'], g⟩

/-- **seq_split_invariant.**  The C function of a straight-line coroutine of
reads (each 1 to 8 bytes, either byte order, any result width that holds
them), called on the first `a₁ ≤ a₂ ≤ …` bytes of the stream, whatever was in
the scratch word before: as soon as a call sees all the bytes of the fields,
the coroutine returns ok with every field holding the value of its bytes —
`fields ops stream`, what the source means — and exactly those bytes consumed.
Where the stream was cut — between fields, inside one, inside several — makes
no difference. -/
theorem seq_split_invariant (fuel : Nat) (ops : List RdOp) (stream : List Nat) (arg stale : Nat)
    (hok : ∀ o ∈ ops, o.ok) (hbytes : ∀ x ∈ stream, x < 256) (hfuel : stream.length < fuel)
    (avails : List Nat) (hpw : avails.Pairwise (· ≤ ·)) (hall : ∀ a ∈ avails, a ≤ stream.length)
    (hex : ∃ a ∈ avails, total ops ≤ a) :
    ∃ f', drive fuel (seqBody ops 1) stream arg avails { p := 0, scratch := stale, ri := 0, dest := [] } =
        some (true, f') ∧ f'.p = 0 ∧ f'.ri = total ops ∧ f'.dest = fields ops stream := by
  cases avails with
  | nil => obtain ⟨a, ha, _⟩ := hex; cases ha
  | cons a r =>
    have ha := hall a (by simp)
    have hstep := seq_call_fresh fuel ops stream arg stale a hok hbytes ha hfuel
    by_cases hge : total ops ≤ a
    · obtain ⟨f', hc, h1, h2, h3⟩ := hstep.1 hge
      exact ⟨f', by simp only [drive, hc], h1, h2, h3⟩
    · obtain ⟨f', hc, hm', hri'⟩ := hstep.2 (by omega)
      have hpw' := List.pairwise_cons.mp hpw
      obtain ⟨f'', hd', g⟩ := seq_drive_mid fuel ops stream arg hok hbytes hfuel r f' hm' hpw'.2
        (fun a' ha' => ⟨by rw [hri']; exact hpw'.1 a' ha', hall a' (by simp [ha'])⟩)
        (by
          obtain ⟨x, hx, hxge⟩ := hex
          rcases List.mem_cons.mp hx with rfl | hx'
          · exact absurd hxge hge
          · exact ⟨x, hx', hxge⟩)
      exact ⟨f'', by simp only [drive, hc, hd'], g⟩

/-- non-vacuity: `read_u16le?`, `read_u24be_as_u32?`, `read_u32le?` on nine bytes cut as 1 + 3 + 2 + 3:
the cuts fall inside the first field, inside the second, and between the second and the third -/
example : ∃ f', drive 20 (seqBody [(2, 16, false), (3, 32, true), (4, 32, false)] 1) [1, 2, 3, 4, 5, 6, 7, 8, 9] 0
      [1, 4, 6, 9] { p := 0, scratch := 999, ri := 0, dest := [] } = some (true, f') ∧
    f'.p = 0 ∧ f'.ri = total [(2, 16, false), (3, 32, true), (4, 32, false)] ∧
    f'.dest = fields [(2, 16, false), (3, 32, true), (4, 32, false)] [1, 2, 3, 4, 5, 6, 7, 8, 9] :=
  seq_split_invariant 20 _ _ 0 999 (by decide) (by decide) (by decide) [1, 4, 6, 9] (by decide) (by decide) (by decide)

example : fields [(2, 16, false), (3, 32, true), (4, 32, false)] [1, 2, 3, 4, 5, 6, 7, 8, 9] =
    [0x0201, 0x030405, 0x09080706] := by decide

end WuffsVerif.Props.C04CoroSeq
