/-
C08 — image decoders reject out-of-order calls with `#bad call sequence`; the call_sequence automaton
never gets stuck. Over `Model/CallSeq.lean` (read from doc/std/image-decoders-call-sequence.md and
mirrored from std/gif/decode_gif.wuffs, std/png/decode_png.wuffs).

A history is any finite sequence of fresh calls, each resolved by any outcome the model allows
(`Reach`); resumptions of a suspended call continue inside the same `do_…` function and are covered by
the stage at which the call stopped being one of the listed outcomes.
-/
import WuffsVerif.Model.CallSeq

namespace WuffsVerif.Props.C08Seq
open WuffsVerif.CallSeq

/-- The `call_sequence` values reachable from a freshly initialised decoder (`0x00`) by any history. -/
inductive Reach (c : Codec) : Nat → Prop where
  | init : Reach c 0x00
  | call (cs : Nat) (m : Meth) (o : Out) : Reach c cs → o ∈ next c cs m → Reach c o.2

/-- The states a decoder can be in: without the metadata side-track there are no `0x10` states. -/
def statesOf (c : Codec) : List Nat :=
  if c.hasMetadata then states else [0x00, 0x20, 0x28, 0x40, 0x60]

theorem statesOf_sub (c : Codec) : ∀ s ∈ statesOf c, s ∈ states := by
  cases c <;> decide

/-- The listed states are closed under every outcome of every call. -/
theorem states_closed (c : Codec) : ∀ s ∈ statesOf c, ∀ m : Meth, ∀ o ∈ next c s m, o.2 ∈ statesOf c := by
  intro s hs m
  cases c <;> cases m <;> revert s <;> decide

/-- Every reachable `call_sequence` value is one of `0x00 0x10 0x20 0x28 0x30 0x40 0x60`
(`0x00 0x20 0x28 0x40 0x60` for a decoder without metadata). -/
theorem reach_statesOf (c : Codec) (cs : Nat) (h : Reach c cs) : cs ∈ statesOf c := by
  induction h with
  | init => cases c <;> decide
  | call cs m o _ ho ih => exact states_closed c cs ih m o ho

theorem reach_states (c : Codec) (cs : Nat) (h : Reach c cs) : cs ∈ states :=
  statesOf_sub c cs (reach_statesOf c cs h)

/-- In a reachable state, an out-of-order call has exactly one outcome: `#bad call sequence`, with
`call_sequence` unchanged; an in-order call is never answered with `#bad call sequence`. Every codec,
every method (since fixes/C08-tmm-bad-call-sequence.patch also `tell_me_more` of the decoders without
the metadata side-track, see `tmm_without_metadata`). -/
theorem states_reject (c : Codec) : ∀ s ∈ statesOf c, ∀ m : Meth,
    (inOrder s m = false → next c s m = [(.bcs, s)]) ∧
    (inOrder s m = true → ∀ o ∈ next c s m, o.1 ≠ .bcs) := by
  intro s hs m
  cases c <;> cases m <;> revert s <;> decide

/-- The decoders without metadata (bmp, jpeg, nie, …) answer EVERY `tell_me_more`, for every value of
`call_sequence`, with `"#bad call sequence"` and leave `call_sequence` alone — what
doc/std/image-decoders-call-sequence.md promises for "a TMM call … unless the decoder is in a right
hand column state", a state these decoders never enter (`tmm_never_in_order`). This describes the code
as repaired by fixes/C08-tmm-bad-call-sequence.patch; before it they answered `"#no more information"`
(KNOWN_FINDINGS.txt, key `callseq:tmm-without-metadata:no-more-information`, now `fixed:`). -/
theorem tmm_without_metadata (c : Codec) (h : c.hasMetadata = false) (cs : Nat) :
    next c cs .tmm = [(.bcs, cs)] := by
  cases c <;> simp_all [Codec.hasMetadata, next, finish, tmmInner]

/-- … and on these decoders no history reaches a state in which `tell_me_more` would be in order. -/
theorem tmm_never_in_order (c : Codec) (h : c.hasMetadata = false) (cs : Nat) (hr : Reach c cs) :
    inOrder cs .tmm = false := by
  have hs := reach_statesOf c cs hr
  clear hr
  revert cs
  cases c <;> simp_all [Codec.hasMetadata] <;> decide

/-- **call_sequence_ok (rejection).** Along every history, every out-of-order call (DIC after
anything was decoded, TMM without pending metadata, RF before the image configuration, DFC/DF while
metadata is pending) is rejected with `#bad call sequence` and leaves the state alone. -/
theorem call_sequence_rejects (c : Codec) (cs : Nat) (h : Reach c cs) (m : Meth)
    (hout : inOrder cs m = false) : next c cs m = [(.bcs, cs)] :=
  (states_reject c cs (reach_statesOf c cs h) m).1 hout

/-- … and an in-order call is never rejected that way. -/
theorem call_sequence_accepts (c : Codec) (cs : Nat) (h : Reach c cs) (m : Meth)
    (hin : inOrder cs m = true) : ∀ o ∈ next c cs m, o.1 ≠ .bcs :=
  (states_reject c cs (reach_statesOf c cs h) m).2 hin

/-- **call_sequence_ok (never stuck), part 1.** Every call has an outcome in every state — also in
values of `call_sequence` no history reaches. -/
theorem finish_ne (l : List Res) (h : l ≠ []) : finish l ≠ [] := by
  cases l with
  | nil => exact absurd rfl h
  | cons a t => simp [finish]

theorem flatMap_ne {α β : Type} (l : List α) (f : α → List β) (h : l ≠ []) (hf : ∀ a, f a ≠ []) :
    l.flatMap f ≠ [] := by
  cases l with
  | nil => exact absurd rfl h
  | cons a t =>
    have := hf a
    simp [List.flatMap_cons, this]

theorem dicInner_ne (c : Codec) (cs : Nat) : dicInner c cs ≠ [] := by
  unfold dicInner
  split
  · simp
  · cases c <;> simp [Res.ofStops, stops]

theorem dfcTail_ne (c : Codec) (cs : Nat) : dfcTail c cs ≠ [] := by
  cases c <;> simp [dfcTail, Res.ofStops, stops]

theorem dfcInner_ne (c : Codec) (cs : Nat) : dfcInner c cs ≠ [] := by
  unfold dfcInner
  split
  · simp
  · split
    · exact dfcTail_ne c _
    · split
      · apply flatMap_ne _ _ (dicInner_ne c cs)
        intro r; cases r
        · exact dfcTail_ne c _
        · simp
      · split
        · simp
        · split
          · cases c <;> simp [Res.ofStops, stops]
          · simp

theorem dfBody_ne (c : Codec) : dfBody c ≠ [] := by
  cases c <;> simp [dfBody, Res.ofStops, stops]

theorem dfInner_ne (c : Codec) (cs : Nat) : dfInner c cs ≠ [] := by
  have hbody := dfBody_ne c
  have hvia : ((dfcInner c cs).flatMap fun r => match r with
      | .fin o => [Res.fin o]
      | .cont _ => dfBody c) ≠ [] := by
    apply flatMap_ne _ _ (dfcInner_ne c cs)
    intro r; cases r
    · exact hbody
    · simp
  unfold dfInner
  cases c
  · dsimp only
    split
    · exact hbody
    · split
      · exact hvia
      · simp
  · dsimp only
    split
    · simp
    · split
      · simp
      · split
        · exact hvia
        · exact hbody
  · dsimp only
    split
    · exact hbody
    · split
      · exact hvia
      · simp
  · dsimp only
    split
    · exact hbody
    · split
      · exact hvia
      · simp

theorem never_stuck (c : Codec) (cs : Nat) (m : Meth) : next c cs m ≠ [] := by
  cases m <;> simp only [next] <;> apply finish_ne
  · exact dicInner_ne c cs
  · exact dfcInner_ne c cs
  · exact dfInner_ne c cs
  · unfold tmmInner; split
    · simp
    · split <;> simp [Res.ofStops, stops]
  · unfold rfInner; split <;> simp

/-- **never stuck, part 2.** In every state some call is in order, and it can make progress: there is
an outcome other than a rejection (in fact DFC or TMM always is in order). -/
theorem some_call_in_order (cs : Nat) : inOrder cs .dfc = true ∨ inOrder cs .tmm = true := by
  simp only [inOrder]
  cases h : (cs &&& 0x10 == 0) <;> simp_all

/-- For all `call_sequence` values, not only reachable ones: TMM is rejected exactly when the 0x10
bit is clear, RF exactly below 0x20, DIC exactly when anything was decoded. -/
theorem tmm_rejected_iff (c : Codec) (hc : c.hasMetadata = true) (cs : Nat) :
    next c cs .tmm = [(.bcs, cs)] ↔ cs &&& 0x10 = 0 := by
  simp only [next, finish, tmmInner, hc, Bool.not_true, Bool.false_eq_true, ↓reduceIte]
  split <;> simp_all [Res.ofStops, stops]

theorem rf_rejected_iff (c : Codec) (cs : Nat) : next c cs .rf = [(.bcs, cs)] ↔ cs < 0x20 := by
  simp only [next, finish, rfInner]
  split <;> simp_all

theorem dic_rejected_iff (c : Codec) (cs : Nat) : next c cs .dic = [(.bcs, cs)] ↔ cs ≠ 0 := by
  simp only [next, finish, dicInner]
  split
  · simp_all
  · cases c <;> simp_all [Res.ofStops, stops]

/-- `"@end of data"` is final: in state 0x60 DFC and DF can only answer `"@end of data"` again, until a
`restart_frame`. -/
theorem eod_absorbing (c : Codec) : next c 0x60 .dfc = [(.eod, 0x60)] ∧ next c 0x60 .df = [(.eod, 0x60)] := by
  cases c <;> decide

/-- The canonical sequence of the document is a history of the automaton: DIC, DFC, DF, DFC, DF, DFC
ending in `"@end of data"` (non-vacuity of `Reach`, and the happy path is not rejected). -/
example : ∀ c : Codec, c ≠ .still →
    (.ok, 0x20) ∈ next c 0x00 .dic ∧ (.ok, 0x40) ∈ next c 0x20 .dfc ∧ (.ok, 0x20) ∈ next c 0x40 .df ∧
    (.ok, 0x40) ∈ next c 0x20 .dfc ∧ (.ok, 0x20) ∈ next c 0x40 .df ∧ (.eod, 0x60) ∈ next c 0x20 .dfc := by
  intro c; cases c <;> decide

/-- … and for a single-frame decoder: DIC, DFC, DF, DFC ending in `"@end of data"`. -/
example : (.ok, 0x20) ∈ next .still 0x00 .dic ∧ (.ok, 0x40) ∈ next .still 0x20 .dfc ∧
    (.ok, 0x60) ∈ next .still 0x40 .df ∧ next .still 0x60 .dfc = [(.eod, 0x60)] ∧
    next .still 0x40 .dfc = [(.eod, 0x60)] := by decide

example : Reach .png 0x60 :=
  .call 0x20 .dfc (.eod, 0x60)
    (.call 0x40 .df (.ok, 0x20)
      (.call 0x20 .dfc (.ok, 0x40) (.call 0x00 .dic (.ok, 0x20) .init (by decide)) (by decide))
      (by decide))
    (by decide)

/-- implicit calls of the document: DF straight after initialisation is in order (it runs DIC and
DFC itself) -/
example : (.ok, 0x20) ∈ next .gif 0x00 .df ∧ (.ok, 0x20) ∈ next .png 0x00 .df := by decide

end WuffsVerif.Props.C08Seq
