/-
C09 (part: CPU-specific code paths are selected only among declared alternatives).
Theorems over `Model/Choose.lean` (`writeStatementChoose`) and the regenerated list of
every `choose` statement in std (`Gen/C09_StdChoose.lean`).
-/
import WuffsVerif.Model.Choose
import WuffsVerif.Gen.C09_StdChoose

namespace WuffsVerif.Props.C09
open WuffsVerif.Choose

/-- `choose_total`: for EVERY build/CPU, the function pointer after a `choose` statement is
either the previous value (e.g. the `choosy_default` installed by `initialize`) or one of the
listed alternatives — never anything else. -/
theorem choose_total (cpu : Cpu) (alts : List Alt) (cur : String) :
    choose cpu alts cur = cur ∨ ∃ a ∈ alts, a.name = choose cpu alts cur := by
  induction alts with
  | nil => left; rfl
  | cons a rest ih =>
    unfold choose
    split
    · right; exact ⟨a, List.mem_cons_self, rfl⟩
    · split
      · right; exact ⟨a, List.mem_cons_self, rfl⟩
      · rcases ih with h | ⟨b, hb, hn⟩
        · left; exact h
        · right; exact ⟨b, List.mem_cons_of_mem _ hb, hn⟩

/-- A selected alternative is usable on this build and CPU: it has no cpu_arch
precondition, or its macro family is compiled in and the run-time test holds. -/
theorem choose_selected_is_available (cpu : Cpu) (alts : List Alt) (cur : String) :
    choose cpu alts cur = cur ∨
    ∃ a ∈ alts, a.name = choose cpu alts cur ∧
      (a.arch.macro = none ∨ ∃ m, a.arch.macro = some m ∧ cpu.defined m = true ∧ cpu.has a.arch = true) := by
  induction alts with
  | nil => left; rfl
  | cons a rest ih =>
    unfold choose
    split
    · rename_i h
      right; exact ⟨a, List.mem_cons_self, rfl, Or.inl h⟩
    · rename_i m hm
      split
      · rename_i hc
        simp only [Bool.and_eq_true] at hc
        right; exact ⟨a, List.mem_cons_self, rfl, Or.inr ⟨m, hm, hc.1, hc.2⟩⟩
      · rcases ih with h | ⟨b, hb, hn, hav⟩
        · left; exact h
        · right; exact ⟨b, List.mem_cons_of_mem _ hb, hn, hav⟩

/-- Under `WUFFS_CONFIG__AVOID_CPU_ARCH` (no family macro defined) the selection is the
first alternative without a cpu_arch precondition, else the current value: SIMD variants are
unreachable whatever the CPU reports. -/
theorem choose_avoid_cpu_arch (cpu : Cpu) (hoff : ∀ m, cpu.defined m = false)
    (alts : List Alt) (cur : String) :
    choose cpu alts cur = (firstPortable alts).getD cur := by
  induction alts with
  | nil => rfl
  | cons a rest ih =>
    unfold choose firstPortable
    cases ha : a.arch <;> simp [Arch.macro, hoff, ih]

/-- Determinism in the only inputs there are: two builds/CPUs that agree on which
alternatives are available select the same function. -/
theorem choose_congr (c1 c2 : Cpu) (alts : List Alt) (cur : String)
    (h : ∀ a ∈ alts, ∀ m, a.arch.macro = some m →
      (c1.defined m && c1.has a.arch) = (c2.defined m && c2.has a.arch)) :
    choose c1 alts cur = choose c2 alts cur := by
  induction alts with
  | nil => rfl
  | cons a rest ih =>
    have ih' := ih (fun b hb => h b (List.mem_cons_of_mem _ hb))
    unfold choose
    split
    · rfl
    · rename_i m hm
      rw [h a List.mem_cons_self m hm, ih']

theorem choose_cons_skip (cpu : Cpu) (a : Alt) (rest : List Alt) (c : String) (m : Macro)
    (hm : a.arch.macro = some m) (hc : ¬ ((cpu.defined m && cpu.has a.arch) = true)) :
    choose cpu (a :: rest) c = choose cpu rest c := by
  conv => lhs; unfold choose
  simp only [hm, hc]
  rfl

/-- Executing the same `choose` statement again changes nothing. -/
theorem choose_idempotent (cpu : Cpu) (alts : List Alt) (cur : String) :
    choose cpu alts (choose cpu alts cur) = choose cpu alts cur := by
  induction alts generalizing cur with
  | nil => rfl
  | cons a rest ih =>
    cases hm : a.arch.macro with
    | none =>
      have : ∀ c, choose cpu (a :: rest) c = a.name := by
        intro c; conv => lhs; unfold choose
        simp only [hm]
      rw [this, this]
    | some m =>
      by_cases hc : (cpu.defined m && cpu.has a.arch) = true
      · have : ∀ c, choose cpu (a :: rest) c = a.name := by
          intro c; conv => lhs; unfold choose
          simp only [hm, hc]
          rfl
        rw [this, this]
      · rw [choose_cons_skip cpu a rest _ m hm hc, choose_cons_skip cpu a rest _ m hm hc]
        exact ih cur

/-- non-vacuity / sanity on a std-shaped list -/
example :
    let alts : List Alt := [⟨"up_arm_neon", .armNeon⟩, ⟨"up_x86_sse42", .x86Sse42⟩]
    let x86 : Cpu := ⟨fun m => m == .x86_64_v2 || m == .x86_64_v3, fun a => a == .x86Sse42⟩
    choose x86 alts "up" = "up_x86_sse42" ∧
    choose (Cpu.avoidCpuArch x86.has) alts "up" = "up" := by decide

open WuffsVerif.Gen.C09 in
/-- Every `choose` statement of std (regenerated list): no alternative is listed after one
without cpu_arch precondition (it could never be selected — `writeStatementChoose` stops
emitting there). -/
theorem std_choose_no_unreachable_alternative :
    stdChooses.all (fun s =>
      match s.alts.dropWhile (fun a => a.arch != .none) with
      | [] => true
      | [_] => true
      | _ => false) = true := by decide

open WuffsVerif.Gen.C09 in
/-- Every std `choose` statement, on every build/CPU, selects a listed alternative or keeps
the current function (instance of `choose_total`). -/
theorem std_choose_total (cpu : Cpu) (cur : String) :
    ∀ s ∈ stdChooses, choose cpu s.alts cur = cur ∨ ∃ a ∈ s.alts, a.name = choose cpu s.alts cur :=
  fun s _ => choose_total cpu s.alts cur

end WuffsVerif.Props.C09
