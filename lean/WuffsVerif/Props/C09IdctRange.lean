/-
C09 (part: the documented JPEG IDCT exception, block level) — closing the gap between the range
condition of the property text and the lane condition of `Props/C09IdctBlock.lean`.

`idct_block_variants_agree` needs `lanesFit b q` (every first-pass intermediate within ±16383) in
addition to `blockInRange b q`; the harness found in-range blocks that violate it (the flat darkest
block, DC = -4096·q: every sample -512, every intermediate -16384).  This file shows that such
blocks are NOT a gap of the code, only of the old hypothesis:

* `lanesFit2` (Model/JpegIdctRange.lean) is the weaker condition the AVX2 code really needs
  (intermediates within ±16400, the four 16-bit sums of the second pass fit an i16);
  `linAvx2_exact2`, `p2rowAvx2_exact2`, `p2rowU32_exact2`, `idctAvx2_block_exact2`,
  `idctPortable_block_exact2` redo the block-level theorems under it;
* the 1-D butterfly is INVERTIBLE over ℚ with explicit integer cofactors (`linInt_inv0..7`:
  `D_j · i_j = Σ_k a_jk · (linInt i).o_k`), so bounds on its outputs bound its inputs
  (`lin_inverse0..7`, `lin_inverse_s04`);
* hence a block whose 64 exact samples are inside -512..511 has second-pass inputs within
  ±16400 with 16-bit sums within ±16400 / ±29722 (`p2_range_bounds`, `p2_range_rowFits`), and therefore first-pass
  inputs (dequantised coefficients) within ±4101 (`p1_bounds_coeffs`):
  **`blockInRange_imp_lanesFit2`**;
* **`idct_block_variants_agree_in_range`**: `blockInRange b q → idctAvx2 b q = idctPortable b q`
  for EVERY block — the documented exception exactly as the property states it, with no lane
  side condition.
-/
import WuffsVerif.Props.C09IdctBlock

namespace WuffsVerif.Props.C09
open WuffsVerif.JpegIdct

/-! ### the AVX2 1-D pass under the weaker lane condition -/

/-- `linAvx2_exact2`: inputs within ±16400 whose four 16-bit sums (`d4+d0`, `d0-d4`, `d7+d3`,
`d5+d1`) fit an i16: no lane of the AVX2 1-D pass wraps. -/
theorem linAvx2_exact2 (d0 d1 d2 d3 d4 d5 d6 d7 : Int)
    (_h0 : -16400 ≤ d0 ∧ d0 ≤ 16400) (h1 : -16400 ≤ d1 ∧ d1 ≤ 16400) (h2 : -16400 ≤ d2 ∧ d2 ≤ 16400)
    (h3 : -16400 ≤ d3 ∧ d3 ≤ 16400) (h4 : -16400 ≤ d4 ∧ d4 ≤ 16400) (h5 : -16400 ≤ d5 ∧ d5 ≤ 16400)
    (h6 : -16400 ≤ d6 ∧ d6 ≤ 16400) (h7 : -16400 ≤ d7 ∧ d7 ≤ 16400)
    (s04 : -32767 ≤ d0 + d4 ∧ d0 + d4 ≤ 32767) (m04 : -32767 ≤ d0 - d4 ∧ d0 - d4 ≤ 32767)
    (s73 : -32767 ≤ d7 + d3 ∧ d7 + d3 ≤ 32767) (s51 : -32767 ≤ d5 + d1 ∧ d5 + d1 ≤ 32767) :
    linAvx2 d0 d1 d2 d3 d4 d5 d6 d7 = linInt d0 d1 d2 d3 d4 d5 d6 d7 := by
  have w1 : wrap32 (d2 * 10703 + d6 * 4433) = d2 * 10703 + d6 * 4433 := wrap32_id _ (by omega)
  have w2 : wrap32 (d6 * (-10704) + d2 * 4433) = d6 * (-10704) + d2 * 4433 := wrap32_id _ (by omega)
  have w3 : wrap16 (d4 + d0) = d4 + d0 := wrap16_id _ (by omega)
  have w4 : wrap16 (-d4) = -d4 := wrap16_id _ (by omega)
  have w5 : wrap16 (d0 + (-d4)) = d0 + (-d4) := wrap16_id _ (by omega)
  have w6 : wrap32 (((d4 + d0) * 8192) + (d2 * 10703 + d6 * 4433)) = ((d4 + d0) * 8192) + (d2 * 10703 + d6 * 4433) := wrap32_id _ (by omega)
  have w7 : wrap32 (((d0 + (-d4)) * 8192) + (d6 * (-10704) + d2 * 4433)) = ((d0 + (-d4)) * 8192) + (d6 * (-10704) + d2 * 4433) := wrap32_id _ (by omega)
  have w8 : wrap32 (((d0 + (-d4)) * 8192) - (d6 * (-10704) + d2 * 4433)) = ((d0 + (-d4)) * 8192) - (d6 * (-10704) + d2 * 4433) := wrap32_id _ (by omega)
  have w9 : wrap32 (((d4 + d0) * 8192) - (d2 * 10703 + d6 * 4433)) = ((d4 + d0) * 8192) - (d2 * 10703 + d6 * 4433) := wrap32_id _ (by omega)
  have w10 : wrap16 (d7 + d3) = d7 + d3 := wrap16_id _ (by omega)
  have w11 : wrap16 (d5 + d1) = d5 + d1 := wrap16_id _ (by omega)
  have w12 : wrap32 ((d7 + d3) * (-6436) + (d5 + d1) * 9633) = (d7 + d3) * (-6436) + (d5 + d1) * 9633 := wrap32_id _ (by omega)
  have w13 : wrap32 ((d5 + d1) * 6437 + (d7 + d3) * 9633) = (d5 + d1) * 6437 + (d7 + d3) * 9633 := wrap32_id _ (by omega)
  have w14 : wrap32 (d7 * (-4927) + d1 * (-7373)) = d7 * (-4927) + d1 * (-7373) := wrap32_id _ (by omega)
  have w15 : wrap32 ((d7 * (-4927) + d1 * (-7373)) + ((d7 + d3) * (-6436) + (d5 + d1) * 9633)) = (d7 * (-4927) + d1 * (-7373)) + ((d7 + d3) * (-6436) + (d5 + d1) * 9633) := wrap32_id _ (by omega)
  have w16 : wrap32 (d5 * (-4176) + d3 * (-20995)) = d5 * (-4176) + d3 * (-20995) := wrap32_id _ (by omega)
  have w17 : wrap32 ((d5 * (-4176) + d3 * (-20995)) + ((d5 + d1) * 6437 + (d7 + d3) * 9633)) = (d5 * (-4176) + d3 * (-20995)) + ((d5 + d1) * 6437 + (d7 + d3) * 9633) := wrap32_id _ (by omega)
  have w18 : wrap32 (d7 * (-7373) + d1 * 4926) = d7 * (-7373) + d1 * 4926 := wrap32_id _ (by omega)
  have w19 : wrap32 (((d5 + d1) * 6437 + (d7 + d3) * 9633) + (d7 * (-7373) + d1 * 4926)) = ((d5 + d1) * 6437 + (d7 + d3) * 9633) + (d7 * (-7373) + d1 * 4926) := wrap32_id _ (by omega)
  have w20 : wrap32 (d5 * (-20995) + d3 * 4177) = d5 * (-20995) + d3 * 4177 := wrap32_id _ (by omega)
  have w21 : wrap32 (((d7 + d3) * (-6436) + (d5 + d1) * 9633) + (d5 * (-20995) + d3 * 4177)) = ((d7 + d3) * (-6436) + (d5 + d1) * 9633) + (d5 * (-20995) + d3 * 4177) := wrap32_id _ (by omega)
  have w22 : wrap32 ((((d4 + d0) * 8192) + (d2 * 10703 + d6 * 4433)) + (((d5 + d1) * 6437 + (d7 + d3) * 9633) + (d7 * (-7373) + d1 * 4926))) = (((d4 + d0) * 8192) + (d2 * 10703 + d6 * 4433)) + (((d5 + d1) * 6437 + (d7 + d3) * 9633) + (d7 * (-7373) + d1 * 4926)) := wrap32_id _ (by omega)
  have w23 : wrap32 ((((d0 + (-d4)) * 8192) + (d6 * (-10704) + d2 * 4433)) + (((d7 + d3) * (-6436) + (d5 + d1) * 9633) + (d5 * (-20995) + d3 * 4177))) = (((d0 + (-d4)) * 8192) + (d6 * (-10704) + d2 * 4433)) + (((d7 + d3) * (-6436) + (d5 + d1) * 9633) + (d5 * (-20995) + d3 * 4177)) := wrap32_id _ (by omega)
  have w24 : wrap32 ((((d0 + (-d4)) * 8192) - (d6 * (-10704) + d2 * 4433)) + ((d5 * (-4176) + d3 * (-20995)) + ((d5 + d1) * 6437 + (d7 + d3) * 9633))) = (((d0 + (-d4)) * 8192) - (d6 * (-10704) + d2 * 4433)) + ((d5 * (-4176) + d3 * (-20995)) + ((d5 + d1) * 6437 + (d7 + d3) * 9633)) := wrap32_id _ (by omega)
  have w25 : wrap32 ((((d4 + d0) * 8192) - (d2 * 10703 + d6 * 4433)) + ((d7 * (-4927) + d1 * (-7373)) + ((d7 + d3) * (-6436) + (d5 + d1) * 9633))) = (((d4 + d0) * 8192) - (d2 * 10703 + d6 * 4433)) + ((d7 * (-4927) + d1 * (-7373)) + ((d7 + d3) * (-6436) + (d5 + d1) * 9633)) := wrap32_id _ (by omega)
  have w26 : wrap32 ((((d4 + d0) * 8192) - (d2 * 10703 + d6 * 4433)) - ((d7 * (-4927) + d1 * (-7373)) + ((d7 + d3) * (-6436) + (d5 + d1) * 9633))) = (((d4 + d0) * 8192) - (d2 * 10703 + d6 * 4433)) - ((d7 * (-4927) + d1 * (-7373)) + ((d7 + d3) * (-6436) + (d5 + d1) * 9633)) := wrap32_id _ (by omega)
  have w27 : wrap32 ((((d0 + (-d4)) * 8192) - (d6 * (-10704) + d2 * 4433)) - ((d5 * (-4176) + d3 * (-20995)) + ((d5 + d1) * 6437 + (d7 + d3) * 9633))) = (((d0 + (-d4)) * 8192) - (d6 * (-10704) + d2 * 4433)) - ((d5 * (-4176) + d3 * (-20995)) + ((d5 + d1) * 6437 + (d7 + d3) * 9633)) := wrap32_id _ (by omega)
  have w28 : wrap32 ((((d0 + (-d4)) * 8192) + (d6 * (-10704) + d2 * 4433)) - (((d7 + d3) * (-6436) + (d5 + d1) * 9633) + (d5 * (-20995) + d3 * 4177))) = (((d0 + (-d4)) * 8192) + (d6 * (-10704) + d2 * 4433)) - (((d7 + d3) * (-6436) + (d5 + d1) * 9633) + (d5 * (-20995) + d3 * 4177)) := wrap32_id _ (by omega)
  have w29 : wrap32 ((((d4 + d0) * 8192) + (d2 * 10703 + d6 * 4433)) - (((d5 + d1) * 6437 + (d7 + d3) * 9633) + (d7 * (-7373) + d1 * 4926))) = (((d4 + d0) * 8192) + (d2 * 10703 + d6 * 4433)) - (((d5 + d1) * 6437 + (d7 + d3) * 9633) + (d7 * (-7373) + d1 * 4926)) := wrap32_id _ (by omega)
  simp only [linAvx2, w1, w2, w3, w4, w5, w6, w7, w8, w9, w10, w11, w12, w13, w14, w15, w16, w17, w18, w19, w20, w21, w22, w23, w24, w25, w26, w27, w28, w29]
  simp only [linInt, lin, id]
  congr 1 <;> omega

theorem linInt_get_bound2 (d0 d1 d2 d3 d4 d5 d6 d7 : Int)
    (h0 : -16400 ≤ d0 ∧ d0 ≤ 16400) (h1 : -16400 ≤ d1 ∧ d1 ≤ 16400) (h2 : -16400 ≤ d2 ∧ d2 ≤ 16400)
    (h3 : -16400 ≤ d3 ∧ d3 ≤ 16400) (h4 : -16400 ≤ d4 ∧ d4 ≤ 16400) (h5 : -16400 ≤ d5 ∧ d5 ≤ 16400)
    (h6 : -16400 ≤ d6 ∧ d6 ≤ 16400) (h7 : -16400 ≤ d7 ∧ d7 ≤ 16400) (k : Nat) :
    -2000000000 ≤ (linInt d0 d1 d2 d3 d4 d5 d6 d7).get k ∧ (linInt d0 d1 d2 d3 d4 d5 d6 d7).get k ≤ 2000000000 := by
  unfold Oct.get
  split <;> (simp only [linInt, lin, id]; omega)

/-! ### the butterfly is invertible: explicit integer cofactors -/

theorem linInt_inv0 (i0 i1 i2 i3 i4 i5 i6 i7 : Int) :
    65536 * i0 = (1) * (linInt i0 i1 i2 i3 i4 i5 i6 i7).o0 + (1) * (linInt i0 i1 i2 i3 i4 i5 i6 i7).o1 + (1) * (linInt i0 i1 i2 i3 i4 i5 i6 i7).o2 + (1) * (linInt i0 i1 i2 i3 i4 i5 i6 i7).o3 + (1) * (linInt i0 i1 i2 i3 i4 i5 i6 i7).o4 + (1) * (linInt i0 i1 i2 i3 i4 i5 i6 i7).o5 + (1) * (linInt i0 i1 i2 i3 i4 i5 i6 i7).o6 + (1) * (linInt i0 i1 i2 i3 i4 i5 i6 i7).o7 := by
  simp only [linInt, lin, id]
  omega

theorem linInt_inv1 (i0 i1 i2 i3 i4 i5 i6 i7 : Int) :
    144117089904752990 * i1 = (3049754755116) * (linInt i0 i1 i2 i3 i4 i5 i6 i7).o0 + (2585989054634) * (linInt i0 i1 i2 i3 i4 i5 i6 i7).o1 + (1727867076385) * (linInt i0 i1 i2 i3 i4 i5 i6 i7).o2 + (606667582307) * (linInt i0 i1 i2 i3 i4 i5 i6 i7).o3 + (-606667582307) * (linInt i0 i1 i2 i3 i4 i5 i6 i7).o4 + (-1727867076385) * (linInt i0 i1 i2 i3 i4 i5 i6 i7).o5 + (-2585989054634) * (linInt i0 i1 i2 i3 i4 i5 i6 i7).o6 + (-3049754755116) * (linInt i0 i1 i2 i3 i4 i5 i6 i7).o7 := by
  simp only [linInt, lin, id]
  omega

theorem linInt_inv2 (i0 i1 i2 i3 i4 i5 i6 i7 : Int) :
    536865604 * i2 = (10704) * (linInt i0 i1 i2 i3 i4 i5 i6 i7).o0 + (4433) * (linInt i0 i1 i2 i3 i4 i5 i6 i7).o1 + (-4433) * (linInt i0 i1 i2 i3 i4 i5 i6 i7).o2 + (-10704) * (linInt i0 i1 i2 i3 i4 i5 i6 i7).o3 + (-10704) * (linInt i0 i1 i2 i3 i4 i5 i6 i7).o4 + (-4433) * (linInt i0 i1 i2 i3 i4 i5 i6 i7).o5 + (4433) * (linInt i0 i1 i2 i3 i4 i5 i6 i7).o6 + (10704) * (linInt i0 i1 i2 i3 i4 i5 i6 i7).o7 := by
  simp only [linInt, lin, id]
  omega

theorem linInt_inv3 (i0 i1 i2 i3 i4 i5 i6 i7 : Int) :
    144117089904752990 * i3 = (2585989054634) * (linInt i0 i1 i2 i3 i4 i5 i6 i7).o0 + (-606809610749) * (linInt i0 i1 i2 i3 i4 i5 i6 i7).o1 + (-3050231892465) * (linInt i0 i1 i2 i3 i4 i5 i6 i7).o2 + (-1727811484807) * (linInt i0 i1 i2 i3 i4 i5 i6 i7).o3 + (1727811484807) * (linInt i0 i1 i2 i3 i4 i5 i6 i7).o4 + (3050231892465) * (linInt i0 i1 i2 i3 i4 i5 i6 i7).o5 + (606809610749) * (linInt i0 i1 i2 i3 i4 i5 i6 i7).o6 + (-2585989054634) * (linInt i0 i1 i2 i3 i4 i5 i6 i7).o7 := by
  simp only [linInt, lin, id]
  omega

theorem linInt_inv4 (i0 i1 i2 i3 i4 i5 i6 i7 : Int) :
    65536 * i4 = (1) * (linInt i0 i1 i2 i3 i4 i5 i6 i7).o0 + (-1) * (linInt i0 i1 i2 i3 i4 i5 i6 i7).o1 + (-1) * (linInt i0 i1 i2 i3 i4 i5 i6 i7).o2 + (1) * (linInt i0 i1 i2 i3 i4 i5 i6 i7).o3 + (1) * (linInt i0 i1 i2 i3 i4 i5 i6 i7).o4 + (-1) * (linInt i0 i1 i2 i3 i4 i5 i6 i7).o5 + (-1) * (linInt i0 i1 i2 i3 i4 i5 i6 i7).o6 + (1) * (linInt i0 i1 i2 i3 i4 i5 i6 i7).o7 := by
  simp only [linInt, lin, id]
  omega

theorem linInt_inv5 (i0 i1 i2 i3 i4 i5 i6 i7 : Int) :
    28823417980950598 * i5 = (345573415277) * (linInt i0 i1 i2 i3 i4 i5 i6 i7).o0 + (-610046378493) * (linInt i0 i1 i2 i3 i4 i5 i6 i7).o1 + (121346195414) * (linInt i0 i1 i2 i3 i4 i5 i6 i7).o2 + (517133002810) * (linInt i0 i1 i2 i3 i4 i5 i6 i7).o3 + (-517133002810) * (linInt i0 i1 i2 i3 i4 i5 i6 i7).o4 + (-121346195414) * (linInt i0 i1 i2 i3 i4 i5 i6 i7).o5 + (610046378493) * (linInt i0 i1 i2 i3 i4 i5 i6 i7).o6 + (-345573415277) * (linInt i0 i1 i2 i3 i4 i5 i6 i7).o7 := by
  simp only [linInt, lin, id]
  omega

theorem linInt_inv6 (i0 i1 i2 i3 i4 i5 i6 i7 : Int) :
    48805964 * i6 = (403) * (linInt i0 i1 i2 i3 i4 i5 i6 i7).o0 + (-973) * (linInt i0 i1 i2 i3 i4 i5 i6 i7).o1 + (973) * (linInt i0 i1 i2 i3 i4 i5 i6 i7).o2 + (-403) * (linInt i0 i1 i2 i3 i4 i5 i6 i7).o3 + (-403) * (linInt i0 i1 i2 i3 i4 i5 i6 i7).o4 + (973) * (linInt i0 i1 i2 i3 i4 i5 i6 i7).o5 + (-973) * (linInt i0 i1 i2 i3 i4 i5 i6 i7).o6 + (403) * (linInt i0 i1 i2 i3 i4 i5 i6 i7).o7 := by
  simp only [linInt, lin, id]
  omega

theorem linInt_inv7 (i0 i1 i2 i3 i4 i5 i6 i7 : Int) :
    144117089904752990 * i7 = (606667582307) * (linInt i0 i1 i2 i3 i4 i5 i6 i7).o0 + (-1727811484807) * (linInt i0 i1 i2 i3 i4 i5 i6 i7).o1 + (2585665014050) * (linInt i0 i1 i2 i3 i4 i5 i6 i7).o2 + (-3050213008871) * (linInt i0 i1 i2 i3 i4 i5 i6 i7).o3 + (3050213008871) * (linInt i0 i1 i2 i3 i4 i5 i6 i7).o4 + (-2585665014050) * (linInt i0 i1 i2 i3 i4 i5 i6 i7).o5 + (1727811484807) * (linInt i0 i1 i2 i3 i4 i5 i6 i7).o6 + (-606667582307) * (linInt i0 i1 i2 i3 i4 i5 i6 i7).o7 := by
  simp only [linInt, lin, id]
  omega
theorem lin_inverse0 (i0 i1 i2 i3 i4 i5 i6 i7 : Int) (B : Int)
    (h0 : -B ≤ (linInt i0 i1 i2 i3 i4 i5 i6 i7).o0 ∧ (linInt i0 i1 i2 i3 i4 i5 i6 i7).o0 ≤ B) (h1 : -B ≤ (linInt i0 i1 i2 i3 i4 i5 i6 i7).o1 ∧ (linInt i0 i1 i2 i3 i4 i5 i6 i7).o1 ≤ B) (h2 : -B ≤ (linInt i0 i1 i2 i3 i4 i5 i6 i7).o2 ∧ (linInt i0 i1 i2 i3 i4 i5 i6 i7).o2 ≤ B) (h3 : -B ≤ (linInt i0 i1 i2 i3 i4 i5 i6 i7).o3 ∧ (linInt i0 i1 i2 i3 i4 i5 i6 i7).o3 ≤ B) (h4 : -B ≤ (linInt i0 i1 i2 i3 i4 i5 i6 i7).o4 ∧ (linInt i0 i1 i2 i3 i4 i5 i6 i7).o4 ≤ B) (h5 : -B ≤ (linInt i0 i1 i2 i3 i4 i5 i6 i7).o5 ∧ (linInt i0 i1 i2 i3 i4 i5 i6 i7).o5 ≤ B) (h6 : -B ≤ (linInt i0 i1 i2 i3 i4 i5 i6 i7).o6 ∧ (linInt i0 i1 i2 i3 i4 i5 i6 i7).o6 ≤ B) (h7 : -B ≤ (linInt i0 i1 i2 i3 i4 i5 i6 i7).o7 ∧ (linInt i0 i1 i2 i3 i4 i5 i6 i7).o7 ≤ B) :
    (-(8 * B) ≤ 65536 * i0 ∧ 65536 * i0 ≤ 8 * B) := by
  rw [linInt_inv0 i0 i1 i2 i3 i4 i5 i6 i7]
  generalize (linInt i0 i1 i2 i3 i4 i5 i6 i7) = L at *
  omega

theorem lin_inverse1 (i0 i1 i2 i3 i4 i5 i6 i7 : Int) (B : Int)
    (h0 : -B ≤ (linInt i0 i1 i2 i3 i4 i5 i6 i7).o0 ∧ (linInt i0 i1 i2 i3 i4 i5 i6 i7).o0 ≤ B) (h1 : -B ≤ (linInt i0 i1 i2 i3 i4 i5 i6 i7).o1 ∧ (linInt i0 i1 i2 i3 i4 i5 i6 i7).o1 ≤ B) (h2 : -B ≤ (linInt i0 i1 i2 i3 i4 i5 i6 i7).o2 ∧ (linInt i0 i1 i2 i3 i4 i5 i6 i7).o2 ≤ B) (h3 : -B ≤ (linInt i0 i1 i2 i3 i4 i5 i6 i7).o3 ∧ (linInt i0 i1 i2 i3 i4 i5 i6 i7).o3 ≤ B) (h4 : -B ≤ (linInt i0 i1 i2 i3 i4 i5 i6 i7).o4 ∧ (linInt i0 i1 i2 i3 i4 i5 i6 i7).o4 ≤ B) (h5 : -B ≤ (linInt i0 i1 i2 i3 i4 i5 i6 i7).o5 ∧ (linInt i0 i1 i2 i3 i4 i5 i6 i7).o5 ≤ B) (h6 : -B ≤ (linInt i0 i1 i2 i3 i4 i5 i6 i7).o6 ∧ (linInt i0 i1 i2 i3 i4 i5 i6 i7).o6 ≤ B) (h7 : -B ≤ (linInt i0 i1 i2 i3 i4 i5 i6 i7).o7 ∧ (linInt i0 i1 i2 i3 i4 i5 i6 i7).o7 ≤ B) :
    (-(15940556936884 * B) ≤ 144117089904752990 * i1 ∧ 144117089904752990 * i1 ≤ 15940556936884 * B) := by
  rw [linInt_inv1 i0 i1 i2 i3 i4 i5 i6 i7]
  generalize (linInt i0 i1 i2 i3 i4 i5 i6 i7) = L at *
  omega

theorem lin_inverse2 (i0 i1 i2 i3 i4 i5 i6 i7 : Int) (B : Int)
    (h0 : -B ≤ (linInt i0 i1 i2 i3 i4 i5 i6 i7).o0 ∧ (linInt i0 i1 i2 i3 i4 i5 i6 i7).o0 ≤ B) (h1 : -B ≤ (linInt i0 i1 i2 i3 i4 i5 i6 i7).o1 ∧ (linInt i0 i1 i2 i3 i4 i5 i6 i7).o1 ≤ B) (h2 : -B ≤ (linInt i0 i1 i2 i3 i4 i5 i6 i7).o2 ∧ (linInt i0 i1 i2 i3 i4 i5 i6 i7).o2 ≤ B) (h3 : -B ≤ (linInt i0 i1 i2 i3 i4 i5 i6 i7).o3 ∧ (linInt i0 i1 i2 i3 i4 i5 i6 i7).o3 ≤ B) (h4 : -B ≤ (linInt i0 i1 i2 i3 i4 i5 i6 i7).o4 ∧ (linInt i0 i1 i2 i3 i4 i5 i6 i7).o4 ≤ B) (h5 : -B ≤ (linInt i0 i1 i2 i3 i4 i5 i6 i7).o5 ∧ (linInt i0 i1 i2 i3 i4 i5 i6 i7).o5 ≤ B) (h6 : -B ≤ (linInt i0 i1 i2 i3 i4 i5 i6 i7).o6 ∧ (linInt i0 i1 i2 i3 i4 i5 i6 i7).o6 ≤ B) (h7 : -B ≤ (linInt i0 i1 i2 i3 i4 i5 i6 i7).o7 ∧ (linInt i0 i1 i2 i3 i4 i5 i6 i7).o7 ≤ B) :
    (-(60548 * B) ≤ 536865604 * i2 ∧ 536865604 * i2 ≤ 60548 * B) := by
  rw [linInt_inv2 i0 i1 i2 i3 i4 i5 i6 i7]
  generalize (linInt i0 i1 i2 i3 i4 i5 i6 i7) = L at *
  omega

theorem lin_inverse3 (i0 i1 i2 i3 i4 i5 i6 i7 : Int) (B : Int)
    (h0 : -B ≤ (linInt i0 i1 i2 i3 i4 i5 i6 i7).o0 ∧ (linInt i0 i1 i2 i3 i4 i5 i6 i7).o0 ≤ B) (h1 : -B ≤ (linInt i0 i1 i2 i3 i4 i5 i6 i7).o1 ∧ (linInt i0 i1 i2 i3 i4 i5 i6 i7).o1 ≤ B) (h2 : -B ≤ (linInt i0 i1 i2 i3 i4 i5 i6 i7).o2 ∧ (linInt i0 i1 i2 i3 i4 i5 i6 i7).o2 ≤ B) (h3 : -B ≤ (linInt i0 i1 i2 i3 i4 i5 i6 i7).o3 ∧ (linInt i0 i1 i2 i3 i4 i5 i6 i7).o3 ≤ B) (h4 : -B ≤ (linInt i0 i1 i2 i3 i4 i5 i6 i7).o4 ∧ (linInt i0 i1 i2 i3 i4 i5 i6 i7).o4 ≤ B) (h5 : -B ≤ (linInt i0 i1 i2 i3 i4 i5 i6 i7).o5 ∧ (linInt i0 i1 i2 i3 i4 i5 i6 i7).o5 ≤ B) (h6 : -B ≤ (linInt i0 i1 i2 i3 i4 i5 i6 i7).o6 ∧ (linInt i0 i1 i2 i3 i4 i5 i6 i7).o6 ≤ B) (h7 : -B ≤ (linInt i0 i1 i2 i3 i4 i5 i6 i7).o7 ∧ (linInt i0 i1 i2 i3 i4 i5 i6 i7).o7 ≤ B) :
    (-(15941684085310 * B) ≤ 144117089904752990 * i3 ∧ 144117089904752990 * i3 ≤ 15941684085310 * B) := by
  rw [linInt_inv3 i0 i1 i2 i3 i4 i5 i6 i7]
  generalize (linInt i0 i1 i2 i3 i4 i5 i6 i7) = L at *
  omega

theorem lin_inverse4 (i0 i1 i2 i3 i4 i5 i6 i7 : Int) (B : Int)
    (h0 : -B ≤ (linInt i0 i1 i2 i3 i4 i5 i6 i7).o0 ∧ (linInt i0 i1 i2 i3 i4 i5 i6 i7).o0 ≤ B) (h1 : -B ≤ (linInt i0 i1 i2 i3 i4 i5 i6 i7).o1 ∧ (linInt i0 i1 i2 i3 i4 i5 i6 i7).o1 ≤ B) (h2 : -B ≤ (linInt i0 i1 i2 i3 i4 i5 i6 i7).o2 ∧ (linInt i0 i1 i2 i3 i4 i5 i6 i7).o2 ≤ B) (h3 : -B ≤ (linInt i0 i1 i2 i3 i4 i5 i6 i7).o3 ∧ (linInt i0 i1 i2 i3 i4 i5 i6 i7).o3 ≤ B) (h4 : -B ≤ (linInt i0 i1 i2 i3 i4 i5 i6 i7).o4 ∧ (linInt i0 i1 i2 i3 i4 i5 i6 i7).o4 ≤ B) (h5 : -B ≤ (linInt i0 i1 i2 i3 i4 i5 i6 i7).o5 ∧ (linInt i0 i1 i2 i3 i4 i5 i6 i7).o5 ≤ B) (h6 : -B ≤ (linInt i0 i1 i2 i3 i4 i5 i6 i7).o6 ∧ (linInt i0 i1 i2 i3 i4 i5 i6 i7).o6 ≤ B) (h7 : -B ≤ (linInt i0 i1 i2 i3 i4 i5 i6 i7).o7 ∧ (linInt i0 i1 i2 i3 i4 i5 i6 i7).o7 ≤ B) :
    (-(8 * B) ≤ 65536 * i4 ∧ 65536 * i4 ≤ 8 * B) := by
  rw [linInt_inv4 i0 i1 i2 i3 i4 i5 i6 i7]
  generalize (linInt i0 i1 i2 i3 i4 i5 i6 i7) = L at *
  omega

theorem lin_inverse5 (i0 i1 i2 i3 i4 i5 i6 i7 : Int) (B : Int)
    (h0 : -B ≤ (linInt i0 i1 i2 i3 i4 i5 i6 i7).o0 ∧ (linInt i0 i1 i2 i3 i4 i5 i6 i7).o0 ≤ B) (h1 : -B ≤ (linInt i0 i1 i2 i3 i4 i5 i6 i7).o1 ∧ (linInt i0 i1 i2 i3 i4 i5 i6 i7).o1 ≤ B) (h2 : -B ≤ (linInt i0 i1 i2 i3 i4 i5 i6 i7).o2 ∧ (linInt i0 i1 i2 i3 i4 i5 i6 i7).o2 ≤ B) (h3 : -B ≤ (linInt i0 i1 i2 i3 i4 i5 i6 i7).o3 ∧ (linInt i0 i1 i2 i3 i4 i5 i6 i7).o3 ≤ B) (h4 : -B ≤ (linInt i0 i1 i2 i3 i4 i5 i6 i7).o4 ∧ (linInt i0 i1 i2 i3 i4 i5 i6 i7).o4 ≤ B) (h5 : -B ≤ (linInt i0 i1 i2 i3 i4 i5 i6 i7).o5 ∧ (linInt i0 i1 i2 i3 i4 i5 i6 i7).o5 ≤ B) (h6 : -B ≤ (linInt i0 i1 i2 i3 i4 i5 i6 i7).o6 ∧ (linInt i0 i1 i2 i3 i4 i5 i6 i7).o6 ≤ B) (h7 : -B ≤ (linInt i0 i1 i2 i3 i4 i5 i6 i7).o7 ∧ (linInt i0 i1 i2 i3 i4 i5 i6 i7).o7 ≤ B) :
    (-(3188197983988 * B) ≤ 28823417980950598 * i5 ∧ 28823417980950598 * i5 ≤ 3188197983988 * B) := by
  rw [linInt_inv5 i0 i1 i2 i3 i4 i5 i6 i7]
  generalize (linInt i0 i1 i2 i3 i4 i5 i6 i7) = L at *
  omega

theorem lin_inverse6 (i0 i1 i2 i3 i4 i5 i6 i7 : Int) (B : Int)
    (h0 : -B ≤ (linInt i0 i1 i2 i3 i4 i5 i6 i7).o0 ∧ (linInt i0 i1 i2 i3 i4 i5 i6 i7).o0 ≤ B) (h1 : -B ≤ (linInt i0 i1 i2 i3 i4 i5 i6 i7).o1 ∧ (linInt i0 i1 i2 i3 i4 i5 i6 i7).o1 ≤ B) (h2 : -B ≤ (linInt i0 i1 i2 i3 i4 i5 i6 i7).o2 ∧ (linInt i0 i1 i2 i3 i4 i5 i6 i7).o2 ≤ B) (h3 : -B ≤ (linInt i0 i1 i2 i3 i4 i5 i6 i7).o3 ∧ (linInt i0 i1 i2 i3 i4 i5 i6 i7).o3 ≤ B) (h4 : -B ≤ (linInt i0 i1 i2 i3 i4 i5 i6 i7).o4 ∧ (linInt i0 i1 i2 i3 i4 i5 i6 i7).o4 ≤ B) (h5 : -B ≤ (linInt i0 i1 i2 i3 i4 i5 i6 i7).o5 ∧ (linInt i0 i1 i2 i3 i4 i5 i6 i7).o5 ≤ B) (h6 : -B ≤ (linInt i0 i1 i2 i3 i4 i5 i6 i7).o6 ∧ (linInt i0 i1 i2 i3 i4 i5 i6 i7).o6 ≤ B) (h7 : -B ≤ (linInt i0 i1 i2 i3 i4 i5 i6 i7).o7 ∧ (linInt i0 i1 i2 i3 i4 i5 i6 i7).o7 ≤ B) :
    (-(5504 * B) ≤ 48805964 * i6 ∧ 48805964 * i6 ≤ 5504 * B) := by
  rw [linInt_inv6 i0 i1 i2 i3 i4 i5 i6 i7]
  generalize (linInt i0 i1 i2 i3 i4 i5 i6 i7) = L at *
  omega

theorem lin_inverse7 (i0 i1 i2 i3 i4 i5 i6 i7 : Int) (B : Int)
    (h0 : -B ≤ (linInt i0 i1 i2 i3 i4 i5 i6 i7).o0 ∧ (linInt i0 i1 i2 i3 i4 i5 i6 i7).o0 ≤ B) (h1 : -B ≤ (linInt i0 i1 i2 i3 i4 i5 i6 i7).o1 ∧ (linInt i0 i1 i2 i3 i4 i5 i6 i7).o1 ≤ B) (h2 : -B ≤ (linInt i0 i1 i2 i3 i4 i5 i6 i7).o2 ∧ (linInt i0 i1 i2 i3 i4 i5 i6 i7).o2 ≤ B) (h3 : -B ≤ (linInt i0 i1 i2 i3 i4 i5 i6 i7).o3 ∧ (linInt i0 i1 i2 i3 i4 i5 i6 i7).o3 ≤ B) (h4 : -B ≤ (linInt i0 i1 i2 i3 i4 i5 i6 i7).o4 ∧ (linInt i0 i1 i2 i3 i4 i5 i6 i7).o4 ≤ B) (h5 : -B ≤ (linInt i0 i1 i2 i3 i4 i5 i6 i7).o5 ∧ (linInt i0 i1 i2 i3 i4 i5 i6 i7).o5 ≤ B) (h6 : -B ≤ (linInt i0 i1 i2 i3 i4 i5 i6 i7).o6 ∧ (linInt i0 i1 i2 i3 i4 i5 i6 i7).o6 ≤ B) (h7 : -B ≤ (linInt i0 i1 i2 i3 i4 i5 i6 i7).o7 ∧ (linInt i0 i1 i2 i3 i4 i5 i6 i7).o7 ≤ B) :
    (-(15940714180070 * B) ≤ 144117089904752990 * i7 ∧ 144117089904752990 * i7 ≤ 15940714180070 * B) := by
  rw [linInt_inv7 i0 i1 i2 i3 i4 i5 i6 i7]
  generalize (linInt i0 i1 i2 i3 i4 i5 i6 i7) = L at *
  omega

theorem lin_inverse_s04 (i0 i1 i2 i3 i4 i5 i6 i7 : Int) (B : Int)
    (h0 : -B ≤ (linInt i0 i1 i2 i3 i4 i5 i6 i7).o0 ∧ (linInt i0 i1 i2 i3 i4 i5 i6 i7).o0 ≤ B) (h1 : -B ≤ (linInt i0 i1 i2 i3 i4 i5 i6 i7).o1 ∧ (linInt i0 i1 i2 i3 i4 i5 i6 i7).o1 ≤ B) (h2 : -B ≤ (linInt i0 i1 i2 i3 i4 i5 i6 i7).o2 ∧ (linInt i0 i1 i2 i3 i4 i5 i6 i7).o2 ≤ B) (h3 : -B ≤ (linInt i0 i1 i2 i3 i4 i5 i6 i7).o3 ∧ (linInt i0 i1 i2 i3 i4 i5 i6 i7).o3 ≤ B) (h4 : -B ≤ (linInt i0 i1 i2 i3 i4 i5 i6 i7).o4 ∧ (linInt i0 i1 i2 i3 i4 i5 i6 i7).o4 ≤ B) (h5 : -B ≤ (linInt i0 i1 i2 i3 i4 i5 i6 i7).o5 ∧ (linInt i0 i1 i2 i3 i4 i5 i6 i7).o5 ≤ B) (h6 : -B ≤ (linInt i0 i1 i2 i3 i4 i5 i6 i7).o6 ∧ (linInt i0 i1 i2 i3 i4 i5 i6 i7).o6 ≤ B) (h7 : -B ≤ (linInt i0 i1 i2 i3 i4 i5 i6 i7).o7 ∧ (linInt i0 i1 i2 i3 i4 i5 i6 i7).o7 ≤ B) :
    (-(4 * B) ≤ 32768 * (i0 + i4) ∧ 32768 * (i0 + i4) ≤ 4 * B) ∧ (-(4 * B) ≤ 32768 * (i0 - i4) ∧ 32768 * (i0 - i4) ≤ 4 * B) := by
  have e0 := linInt_inv0 i0 i1 i2 i3 i4 i5 i6 i7
  have e4 := linInt_inv4 i0 i1 i2 i3 i4 i5 i6 i7
  generalize (linInt i0 i1 i2 i3 i4 i5 i6 i7) = L at *
  omega


/-! ### second pass under the weaker condition -/

theorem Oct.get_min {α : Type} (o : Oct α) (k : Nat) : o.get k = o.get (min k 7) := by
  match k with
  | 0 | 1 | 2 | 3 | 4 | 5 | 6 | 7 => rfl
  | n + 8 =>
    have : min (n + 8) 7 = 7 := by omega
    rw [this]; rfl

theorem rowFits_unpack (i : Oct Int) (h : rowFits i = true) :
    (∀ k, -16400 ≤ i.get k ∧ i.get k ≤ 16400) ∧
    (-32767 ≤ i.o0 + i.o4 ∧ i.o0 + i.o4 ≤ 32767) ∧ (-32767 ≤ i.o0 - i.o4 ∧ i.o0 - i.o4 ≤ 32767) ∧
    (-32767 ≤ i.o7 + i.o3 ∧ i.o7 + i.o3 ≤ 32767) ∧ (-32767 ≤ i.o5 + i.o1 ∧ i.o5 + i.o1 ≤ 32767) := by
  unfold rowFits fits16 at h
  simp only [Bool.and_eq_true, decide_eq_true_eq] at h
  obtain ⟨⟨⟨⟨ha, h1⟩, h2⟩, h3⟩, h4⟩ := h
  refine ⟨?_, h1, h2, h3, h4⟩
  intro k
  have := Oct.all_get _ _ ha k
  simpa using this

/-- Second pass of the AVX2 code on a row that satisfies `rowFits`: the exact butterfly followed by
the saturating conversion of each sample. -/
theorem p2rowAvx2_exact2 (i : Oct Int) (h : rowFits i = true) :
    p2rowAvx2 i = (p2Butterfly i).map finalSat := by
  obtain ⟨hi, s04, m04, s73, s51⟩ := rowFits_unpack i h
  have a0 := hi 0; have a1 := hi 1; have a2 := hi 2; have a3 := hi 3
  have a4 := hi 4; have a5 := hi 5; have a6 := hi 6; have a7 := hi 7
  simp only [Oct.get] at a0 a1 a2 a3 a4 a5 a6 a7
  unfold p2rowAvx2 p2Butterfly
  rw [linAvx2_exact2 _ _ _ _ _ _ _ _ a0 a1 a2 a3 a4 a5 a6 a7 s04 m04 s73 s51]
  have hm : ∀ (o : Oct Int), (o.map (fun x => (x + 131072) / 262144)).map finalSat =
      o.map (fun x => finalSat ((x + 131072) / 262144)) := fun o => rfl
  rw [hm]
  apply Oct.map_congr
  intro k
  have hb := linInt_get_bound2 _ _ _ _ _ _ _ _ a0 a1 a2 a3 a4 a5 a6 a7 k
  rw [wrap32_id _ (by omega)]

/-- Second pass of the portable code on a row of (images of) intermediates within ±16400. -/
theorem p2rowU32_exact2 (v : Oct Int) (hv : ∀ k, -16400 ≤ v.get k ∧ v.get k ≤ 16400) :
    p2rowU32 (v.map UInt32.ofInt) = (p2rowInt v).map finalWrap := by
  have a0 := hv 0; have a1 := hv 1; have a2 := hv 2; have a3 := hv 3
  have a4 := hv 4; have a5 := hv 5; have a6 := hv 6; have a7 := hv 7
  simp only [Oct.get] at a0 a1 a2 a3 a4 a5 a6 a7
  unfold p2rowU32 p2rowInt
  simp only [Oct.map]
  by_cases hz : (v.o1 == 0 && v.o2 == 0 && v.o3 == 0 && v.o4 == 0 && v.o5 == 0 && v.o6 == 0 && v.o7 == 0) = true
  · have hz' := hz
    simp only [Bool.and_eq_true, beq_iff_eq] at hz'
    obtain ⟨⟨⟨⟨⟨⟨e1, e2⟩, e3⟩, e4⟩, e5⟩, e6⟩, e7⟩ := hz'
    have hor : ((UInt32.ofInt v.o1 ||| UInt32.ofInt v.o2 ||| UInt32.ofInt v.o3 ||| UInt32.ofInt v.o4 |||
        UInt32.ofInt v.o5 ||| UInt32.ofInt v.o6 ||| UInt32.ofInt v.o7) == 0) = true := by
      rw [e1, e2, e3, e4, e5, e6, e7]
      decide
    simp only [hor, hz, ↓reduceIte, Oct.const]
    have e16 : (16 : UInt32) = UInt32.ofInt ((16 : Nat) : Int) := rfl
    have hstep : clampTab ((UInt32.ofInt v.o0 + 16) >>> 5) = finalWrap ((v.o0 + 16) / 32) := by
      rw [portable_dc_step, e16, ofInt_add_lit, s32_ofInt _ (by omega)]
      rfl
    rw [hstep]
  · have hor : ((UInt32.ofInt v.o1 ||| UInt32.ofInt v.o2 ||| UInt32.ofInt v.o3 ||| UInt32.ofInt v.o4 |||
        UInt32.ofInt v.o5 ||| UInt32.ofInt v.o6 ||| UInt32.ofInt v.o7) == 0) = false := by
      cases hc : ((UInt32.ofInt v.o1 ||| UInt32.ofInt v.o2 ||| UInt32.ofInt v.o3 ||| UInt32.ofInt v.o4 |||
        UInt32.ofInt v.o5 ||| UInt32.ofInt v.o6 ||| UInt32.ofInt v.o7) == 0) with
      | false => rfl
      | true =>
        exfalso
        apply hz
        obtain ⟨z1, z2, z3, z4, z5, z6, z7⟩ := or7_zero_u32 _ _ _ _ _ _ _ (by simpa using hc)
        have := ofInt_eq_zero v.o1 (by omega) z1
        have := ofInt_eq_zero v.o2 (by omega) z2
        have := ofInt_eq_zero v.o3 (by omega) z3
        have := ofInt_eq_zero v.o4 (by omega) z4
        have := ofInt_eq_zero v.o5 (by omega) z5
        have := ofInt_eq_zero v.o6 (by omega) z6
        have := ofInt_eq_zero v.o7 (by omega) z7
        simp [*]
    simp only [hor, hz, Bool.false_eq_true, ↓reduceIte]
    rw [linU32_hom]
    show ((linInt v.o0 v.o1 v.o2 v.o3 v.o4 v.o5 v.o6 v.o7).map UInt32.ofInt).map
        (fun x : UInt32 => clampTab ((x + 131072) >>> 18)) =
      ((linInt v.o0 v.o1 v.o2 v.o3 v.o4 v.o5 v.o6 v.o7).map (fun x : Int => (x + 131072) / 262144)).map finalWrap
    rw [Oct.map_map, Oct.map_map]
    apply Oct.map_congr
    intro k
    have hb := linInt_get_bound2 _ _ _ _ _ _ _ _ a0 a1 a2 a3 a4 a5 a6 a7 k
    have e17 : (131072 : UInt32) = UInt32.ofInt ((131072 : Nat) : Int) := rfl
    rw [portable_final_step, e17, ofInt_add_lit, s32_ofInt _ (by omega)]
    rfl


/-! ### whole blocks under `lanesFit2` -/

theorem rowsFit_get (b q : Array UInt16) (h : rowsFit b q = true) (r : Nat) :
    rowFits (rowOf (octOfFn (p1colInt b q)) r) = true := by
  have e : rowOf (octOfFn (p1colInt b q)) r = rowOf (octOfFn (p1colInt b q)) (min r 7) := by
    unfold rowOf
    exact congrArg (fun f => Oct.map f (octOfFn (p1colInt b q))) (funext (fun col => Oct.get_min col r))
  rw [e]
  unfold rowsFit at h
  exact List.all_eq_true.mp h (min r 7) (List.mem_range.mpr (by omega))

theorem rowOf_get {α : Type} (f : Nat → Oct α) (r c : Nat) (hc : c < 8) :
    (rowOf (octOfFn f) r).get c = (f c).get r := by
  unfold rowOf
  rw [Oct.get_map]
  have : (octOfFn f).get c = f c := by
    obtain rfl | rfl | rfl | rfl | rfl | rfl | rfl | rfl :
      c = 0 ∨ c = 1 ∨ c = 2 ∨ c = 3 ∨ c = 4 ∨ c = 5 ∨ c = 6 ∨ c = 7 := by omega
    all_goals rfl
  rw [this]

theorem rowsFit_col (b q : Array UInt16) (h : rowsFit b q = true) (c : Nat) (hc : c < 8) (k : Nat) :
    -16400 ≤ (p1colInt b q c).get k ∧ (p1colInt b q c).get k ≤ 16400 := by
  obtain ⟨hi, _⟩ := rowFits_unpack _ (rowsFit_get b q h k)
  have := hi c
  rwa [rowOf_get _ _ _ hc] at this

/-- `idctAvx2_block_exact2`: for EVERY block with `lanesFit2`, the AVX2 inverse DCT (lane emulation)
is the exact IDCT followed by the saturating final conversion of each sample. -/
theorem idctAvx2_block_exact2 (b q : Array UInt16) (h : lanesFit2 b q = true) :
    idctAvx2 b q = (idctExact b q).map finalSat := by
  unfold lanesFit2 at h
  simp only [Bool.and_eq_true] at h
  obtain ⟨hco, hrows⟩ := h
  have hcol : ∀ c, c < 8 → p1colAvx2 b q c = p1colInt b q c := by
    intro c hc
    rw [p1colInt_eq_butterfly]
    apply p1colAvx2_exact b q c hc hco
    intro k
    have := rowsFit_col b q hrows c hc k
    rw [p1colInt_eq_butterfly] at this
    omega
  have hcols : octOfFn (p1colAvx2 b q) = octOfFn (p1colInt b q) := by
    unfold octOfFn
    rw [hcol 0 (by omega), hcol 1 (by omega), hcol 2 (by omega), hcol 3 (by omega), hcol 4 (by omega),
      hcol 5 (by omega), hcol 6 (by omega), hcol 7 (by omega)]
  have hrow : ∀ r, octList (p2rowAvx2 (rowOf (octOfFn (p1colInt b q)) r)) =
      (octList (p2rowInt (rowOf (octOfFn (p1colInt b q)) r))).map finalSat := by
    intro r
    rw [p2rowInt_eq_butterfly, ← octList_map, p2rowAvx2_exact2 _ (rowsFit_get b q hrows r)]
  unfold idctAvx2 idctExact
  dsimp only
  rw [hcols, List.map_flatMap]
  congr 1
  funext r
  exact hrow r

/-- `idctPortable_block_exact2`: for EVERY block with `lanesFit2`, the portable u32 code is the exact
IDCT followed by wrap-modulo-1024-then-table of each sample. -/
theorem idctPortable_block_exact2 (b q : Array UInt16) (h : lanesFit2 b q = true) :
    idctPortable b q = (idctExact b q).map finalWrap := by
  unfold lanesFit2 at h
  simp only [Bool.and_eq_true] at h
  obtain ⟨hco, hrows⟩ := h
  have hcols : octOfFn (p1colU32 b q) = octOfFn (fun c => (p1colInt b q c).map UInt32.ofInt) := by
    unfold octOfFn
    rw [p1colU32_exact b q 0 (by omega) hco, p1colU32_exact b q 1 (by omega) hco,
      p1colU32_exact b q 2 (by omega) hco, p1colU32_exact b q 3 (by omega) hco,
      p1colU32_exact b q 4 (by omega) hco, p1colU32_exact b q 5 (by omega) hco,
      p1colU32_exact b q 6 (by omega) hco, p1colU32_exact b q 7 (by omega) hco]
  have hrow : ∀ r, octList (p2rowU32 (rowOf (octOfFn (fun c => (p1colInt b q c).map UInt32.ofInt)) r)) =
      (octList (p2rowInt (rowOf (octOfFn (p1colInt b q)) r))).map finalWrap := by
    intro r
    rw [rowOf_map, ← octList_map, p2rowU32_exact2]
    exact (rowFits_unpack _ (rowsFit_get b q hrows r)).1
  unfold idctPortable idctExact
  dsimp only
  rw [hcols, List.map_flatMap]
  exact congrArg (fun f => (List.range 8).flatMap f) (funext hrow)

/-- the block-level agreement under the weaker lane condition -/
theorem idct_block_variants_agree2 (b q : Array UInt16) (hfit : lanesFit2 b q = true)
    (hr : blockInRange b q = true) : idctAvx2 b q = idctPortable b q := by
  rw [idctAvx2_block_exact2 b q hfit, idctPortable_block_exact2 b q hfit]
  apply List.map_congr_left
  intro v hv
  unfold blockInRange at hr
  have := List.all_eq_true.mp hr v hv
  unfold inRange10 at this
  exact (idct_variants_agree_in_range v (by simpa using this)).symm

/-- … and outside the 10-bit range (lanes still fitting) the two differ exactly by
saturate-versus-wrap of the same exact samples. -/
theorem idct_block_variants_differ_only_in_final_step2 (b q : Array UInt16) (hfit : lanesFit2 b q = true) :
    idctAvx2 b q = (idctExact b q).map finalSat ∧ idctPortable b q = (idctExact b q).map finalWrap :=
  ⟨idctAvx2_block_exact2 b q hfit, idctPortable_block_exact2 b q hfit⟩

/-- the old lane condition implies the new one -/
theorem lanesFit_imp_lanesFit2 (b q : Array UInt16) (h : lanesFit b q = true) : lanesFit2 b q = true := by
  unfold lanesFit at h
  simp only [Bool.and_eq_true] at h
  obtain ⟨hco, hint⟩ := h
  unfold lanesFit2
  rw [hco, Bool.true_and]
  unfold rowsFit
  apply List.all_eq_true.mpr
  intro r _
  have g : ∀ c, c < 8 → -16383 ≤ (p1colInt b q c).get r ∧ (p1colInt b q c).get r ≤ 16383 :=
    fun c hc => intermediatesFit_get b q hint c hc r
  have g0 := g 0 (by omega); have g1 := g 1 (by omega); have g2 := g 2 (by omega); have g3 := g 3 (by omega)
  have g4 := g 4 (by omega); have g5 := g 5 (by omega); have g6 := g 6 (by omega); have g7 := g 7 (by omega)
  unfold rowFits fits16 Oct.all rowOf octOfFn Oct.map
  simp only [Bool.and_eq_true, decide_eq_true_eq]
  omega

/-! ### the range condition implies the lane condition -/

theorem p2_div_range (x : Int) (h : inRange10 ((x + 131072) / 262144) = true) :
    -134348800 ≤ x ∧ x ≤ 134348800 := by
  unfold inRange10 at h
  simp only [decide_eq_true_eq] at h
  omega

theorem p1_div_range (x : Int) (h : -16400 ≤ (x + 1024) / 2048 ∧ (x + 1024) / 2048 ≤ 16400) :
    -33588224 ≤ x ∧ x ≤ 33588224 := by
  omega

/-- Second pass, inverted: if the 8 exact samples of a row are inside -512..511, its 8 inputs are within
±16400 (columns 1,3,5,7 within ±14861, columns 2,6 within ±15151) and `i0 ± i4` within ±16400. -/
theorem p2_range_bounds (i : Oct Int) (h : ∀ k, inRange10 ((p2Butterfly i).get k) = true) :
    (-16400 ≤ i.o0 ∧ i.o0 ≤ 16400) ∧ (-14861 ≤ i.o1 ∧ i.o1 ≤ 14861) ∧ (-15151 ≤ i.o2 ∧ i.o2 ≤ 15151) ∧
    (-14861 ≤ i.o3 ∧ i.o3 ≤ 14861) ∧ (-16400 ≤ i.o4 ∧ i.o4 ≤ 16400) ∧ (-14861 ≤ i.o5 ∧ i.o5 ≤ 14861) ∧
    (-15151 ≤ i.o6 ∧ i.o6 ≤ 15151) ∧ (-14861 ≤ i.o7 ∧ i.o7 ≤ 14861) ∧
    (-16400 ≤ i.o0 + i.o4 ∧ i.o0 + i.o4 ≤ 16400) ∧ (-16400 ≤ i.o0 - i.o4 ∧ i.o0 - i.o4 ≤ 16400) := by
  have g : ∀ k, -134348800 ≤ (linInt i.o0 i.o1 i.o2 i.o3 i.o4 i.o5 i.o6 i.o7).get k ∧ (linInt i.o0 i.o1 i.o2 i.o3 i.o4 i.o5 i.o6 i.o7).get k ≤ 134348800 := by
    intro k
    have := h k
    unfold p2Butterfly at this
    rw [Oct.get_map] at this
    exact p2_div_range _ this
  have g0 := g 0; have g1 := g 1; have g2 := g 2; have g3 := g 3
  have g4 := g 4; have g5 := g 5; have g6 := g 6; have g7 := g 7
  simp only [Oct.get] at g0 g1 g2 g3 g4 g5 g6 g7
  have b0 := lin_inverse0 i.o0 i.o1 i.o2 i.o3 i.o4 i.o5 i.o6 i.o7 134348800 g0 g1 g2 g3 g4 g5 g6 g7
  have b1 := lin_inverse1 i.o0 i.o1 i.o2 i.o3 i.o4 i.o5 i.o6 i.o7 134348800 g0 g1 g2 g3 g4 g5 g6 g7
  have b2 := lin_inverse2 i.o0 i.o1 i.o2 i.o3 i.o4 i.o5 i.o6 i.o7 134348800 g0 g1 g2 g3 g4 g5 g6 g7
  have b3 := lin_inverse3 i.o0 i.o1 i.o2 i.o3 i.o4 i.o5 i.o6 i.o7 134348800 g0 g1 g2 g3 g4 g5 g6 g7
  have b4 := lin_inverse4 i.o0 i.o1 i.o2 i.o3 i.o4 i.o5 i.o6 i.o7 134348800 g0 g1 g2 g3 g4 g5 g6 g7
  have b5 := lin_inverse5 i.o0 i.o1 i.o2 i.o3 i.o4 i.o5 i.o6 i.o7 134348800 g0 g1 g2 g3 g4 g5 g6 g7
  have b6 := lin_inverse6 i.o0 i.o1 i.o2 i.o3 i.o4 i.o5 i.o6 i.o7 134348800 g0 g1 g2 g3 g4 g5 g6 g7
  have b7 := lin_inverse7 i.o0 i.o1 i.o2 i.o3 i.o4 i.o5 i.o6 i.o7 134348800 g0 g1 g2 g3 g4 g5 g6 g7
  have bs := lin_inverse_s04 i.o0 i.o1 i.o2 i.o3 i.o4 i.o5 i.o6 i.o7 134348800 g0 g1 g2 g3 g4 g5 g6 g7
  refine ⟨?_, ?_, ?_, ?_, ?_, ?_, ?_, ?_, ?_, ?_⟩ <;> omega

theorem p2_range_rowFits (i : Oct Int) (h : ∀ k, inRange10 ((p2Butterfly i).get k) = true) :
    rowFits i = true := by
  have hb := p2_range_bounds i h
  unfold rowFits fits16 Oct.all
  simp only [Bool.and_eq_true, decide_eq_true_eq]
  omega

/-- First pass, inverted: if the 8 exact intermediates of a column are within ±16400, its 8 dequantised
coefficients are within ±4101 (a fortiori ±8191, `coeffsFit`). -/
theorem p1_bounds_coeffs (b q : Array UInt16) (c : Nat)
    (h : ∀ k, -16400 ≤ (p1Butterfly b q c).get k ∧ (p1Butterfly b q c).get k ≤ 16400) :
    ∀ r, r < 8 → -4101 ≤ deqExact b q (8 * r + c) ∧ deqExact b q (8 * r + c) ≤ 4101 := by
  have g : ∀ k, -33588224 ≤ (linInt (deqExact b q (8 * 0 + c)) (deqExact b q (8 * 1 + c)) (deqExact b q (8 * 2 + c)) (deqExact b q (8 * 3 + c)) (deqExact b q (8 * 4 + c)) (deqExact b q (8 * 5 + c)) (deqExact b q (8 * 6 + c)) (deqExact b q (8 * 7 + c))).get k ∧ (linInt (deqExact b q (8 * 0 + c)) (deqExact b q (8 * 1 + c)) (deqExact b q (8 * 2 + c)) (deqExact b q (8 * 3 + c)) (deqExact b q (8 * 4 + c)) (deqExact b q (8 * 5 + c)) (deqExact b q (8 * 6 + c)) (deqExact b q (8 * 7 + c))).get k ≤ 33588224 := by
    intro k
    have := h k
    unfold p1Butterfly at this
    rw [Oct.get_map] at this
    exact p1_div_range _ this
  have g0 := g 0; have g1 := g 1; have g2 := g 2; have g3 := g 3
  have g4 := g 4; have g5 := g 5; have g6 := g 6; have g7 := g 7
  simp only [Oct.get] at g0 g1 g2 g3 g4 g5 g6 g7
  have b0 := lin_inverse0 (deqExact b q (8 * 0 + c)) (deqExact b q (8 * 1 + c)) (deqExact b q (8 * 2 + c)) (deqExact b q (8 * 3 + c)) (deqExact b q (8 * 4 + c)) (deqExact b q (8 * 5 + c)) (deqExact b q (8 * 6 + c)) (deqExact b q (8 * 7 + c)) 33588224 g0 g1 g2 g3 g4 g5 g6 g7
  have b1 := lin_inverse1 (deqExact b q (8 * 0 + c)) (deqExact b q (8 * 1 + c)) (deqExact b q (8 * 2 + c)) (deqExact b q (8 * 3 + c)) (deqExact b q (8 * 4 + c)) (deqExact b q (8 * 5 + c)) (deqExact b q (8 * 6 + c)) (deqExact b q (8 * 7 + c)) 33588224 g0 g1 g2 g3 g4 g5 g6 g7
  have b2 := lin_inverse2 (deqExact b q (8 * 0 + c)) (deqExact b q (8 * 1 + c)) (deqExact b q (8 * 2 + c)) (deqExact b q (8 * 3 + c)) (deqExact b q (8 * 4 + c)) (deqExact b q (8 * 5 + c)) (deqExact b q (8 * 6 + c)) (deqExact b q (8 * 7 + c)) 33588224 g0 g1 g2 g3 g4 g5 g6 g7
  have b3 := lin_inverse3 (deqExact b q (8 * 0 + c)) (deqExact b q (8 * 1 + c)) (deqExact b q (8 * 2 + c)) (deqExact b q (8 * 3 + c)) (deqExact b q (8 * 4 + c)) (deqExact b q (8 * 5 + c)) (deqExact b q (8 * 6 + c)) (deqExact b q (8 * 7 + c)) 33588224 g0 g1 g2 g3 g4 g5 g6 g7
  have b4 := lin_inverse4 (deqExact b q (8 * 0 + c)) (deqExact b q (8 * 1 + c)) (deqExact b q (8 * 2 + c)) (deqExact b q (8 * 3 + c)) (deqExact b q (8 * 4 + c)) (deqExact b q (8 * 5 + c)) (deqExact b q (8 * 6 + c)) (deqExact b q (8 * 7 + c)) 33588224 g0 g1 g2 g3 g4 g5 g6 g7
  have b5 := lin_inverse5 (deqExact b q (8 * 0 + c)) (deqExact b q (8 * 1 + c)) (deqExact b q (8 * 2 + c)) (deqExact b q (8 * 3 + c)) (deqExact b q (8 * 4 + c)) (deqExact b q (8 * 5 + c)) (deqExact b q (8 * 6 + c)) (deqExact b q (8 * 7 + c)) 33588224 g0 g1 g2 g3 g4 g5 g6 g7
  have b6 := lin_inverse6 (deqExact b q (8 * 0 + c)) (deqExact b q (8 * 1 + c)) (deqExact b q (8 * 2 + c)) (deqExact b q (8 * 3 + c)) (deqExact b q (8 * 4 + c)) (deqExact b q (8 * 5 + c)) (deqExact b q (8 * 6 + c)) (deqExact b q (8 * 7 + c)) 33588224 g0 g1 g2 g3 g4 g5 g6 g7
  have b7 := lin_inverse7 (deqExact b q (8 * 0 + c)) (deqExact b q (8 * 1 + c)) (deqExact b q (8 * 2 + c)) (deqExact b q (8 * 3 + c)) (deqExact b q (8 * 4 + c)) (deqExact b q (8 * 5 + c)) (deqExact b q (8 * 6 + c)) (deqExact b q (8 * 7 + c)) 33588224 g0 g1 g2 g3 g4 g5 g6 g7
  intro r hr
  obtain rfl | rfl | rfl | rfl | rfl | rfl | rfl | rfl :
    r = 0 ∨ r = 1 ∨ r = 2 ∨ r = 3 ∨ r = 4 ∨ r = 5 ∨ r = 6 ∨ r = 7 := by omega
  all_goals omega

theorem coeffsFit_of_cols (b q : Array UInt16)
    (h : ∀ c, c < 8 → ∀ r, r < 8 → -4101 ≤ deqExact b q (8 * r + c) ∧ deqExact b q (8 * r + c) ≤ 4101) :
    coeffsFit b q = true := by
  unfold coeffsFit
  apply List.all_eq_true.mpr
  intro idx hidx
  have hlt := List.mem_range.mp hidx
  have := h (idx % 8) (by omega) (idx / 8) (by omega)
  rw [show 8 * (idx / 8) + idx % 8 = idx by omega] at this
  simp only [decide_eq_true_eq]
  omega

theorem blockInRange_row (b q : Array UInt16) (h : blockInRange b q = true) (r : Nat) (hr : r < 8) (k : Nat) :
    inRange10 ((p2rowInt (rowOf (octOfFn (p1colInt b q)) r)).get k) = true := by
  unfold blockInRange idctExact at h
  dsimp only at h
  rw [List.all_flatMap] at h
  have h1 := List.all_eq_true.mp h r (List.mem_range.mpr hr)
  simp only [octList, List.all_cons, List.all_nil, Bool.and_true, Bool.and_eq_true] at h1
  obtain ⟨a0, a1, a2, a3, a4, a5, a6, a7⟩ := h1
  unfold Oct.get
  split <;> assumption

/-- **`blockInRange_imp_lanesFit2`**: a block whose exact reconstruction stays inside the 10-bit range
satisfies the lane condition of the AVX2 code — the IDCT is invertible, so bounded samples force
bounded intermediates and bounded coefficients. -/
theorem blockInRange_imp_lanesFit2 (b q : Array UInt16) (h : blockInRange b q = true) :
    lanesFit2 b q = true := by
  have hrows : ∀ r, r < 8 → rowFits (rowOf (octOfFn (p1colInt b q)) r) = true := by
    intro r hr
    apply p2_range_rowFits
    intro k
    have := blockInRange_row b q h r hr k
    rwa [p2rowInt_eq_butterfly] at this
  have hrf : rowsFit b q = true := by
    unfold rowsFit
    exact List.all_eq_true.mpr (fun r hr => hrows r (List.mem_range.mp hr))
  have hco : coeffsFit b q = true := by
    apply coeffsFit_of_cols
    intro c hc
    apply p1_bounds_coeffs b q c
    intro k
    have := rowsFit_col b q hrf c hc k
    rwa [p1colInt_eq_butterfly] at this
  unfold lanesFit2
  rw [hco, hrf]
  rfl

/-- **`idct_block_variants_agree_in_range`**: the documented exception of C09 exactly as stated — for
EVERY block whose exact reconstruction stays inside the 10-bit range -512..511 about the bias,
decode_idct (portable, u32 wrap + `BIAS_AND_CLAMP`) and decode_idct_x86_avx2 (i16/i32 lanes,
saturating packs) produce the same 64 bytes.  No lane side condition. -/
theorem idct_block_variants_agree_in_range (b q : Array UInt16) (hr : blockInRange b q = true) :
    idctAvx2 b q = idctPortable b q :=
  idct_block_variants_agree2 b q (blockInRange_imp_lanesFit2 b q hr) hr

/-- … and both equal the exact IDCT followed by bias-and-clamp (libjpeg's islow IDCT). -/
theorem idct_in_range_is_exact (b q : Array UInt16) (hr : blockInRange b q = true) :
    idctPortable b q = (idctExact b q).map clampByte := by
  rw [← idct_block_variants_agree_in_range b q hr,
    idctAvx2_block_exact2 b q (blockInRange_imp_lanesFit2 b q hr)]
  apply List.map_congr_left
  intro v _
  exact finalSat_eq v

/-- the old hypothesis `lanesFit` was NOT implied by the range condition: the flat darkest block
(DC = -4096, every sample -512, every first-pass intermediate -16384) is in range, violates
`lanesFit`, satisfies `lanesFit2`, and the two variants agree on it (all 64 bytes 0). -/
theorem lanesFit_not_necessary :
    let b : Array UInt16 := (Array.replicate 64 0).set! 0 (0 - 4096)
    let q : Array UInt16 := Array.replicate 64 1
    blockInRange b q = true ∧ lanesFit b q = false ∧ lanesFit2 b q = true ∧
      idctAvx2 b q = idctPortable b q ∧ idctPortable b q = List.replicate 64 0 := by decide +kernel

/-- non-vacuity of `idct_block_variants_agree_in_range` on a block that takes the general AVX2 path
(a coefficient in row 7) and has intermediates of both signs. -/
example :
    let b : Array UInt16 := (Array.replicate 64 0).set! 0 40 |>.set! 56 48 |>.set! 9 (0 - 33)
    let q : Array UInt16 := Array.replicate 64 2
    blockInRange b q = true ∧ acRowsZero b = false ∧ idctAvx2 b q = idctPortable b q := by decide +kernel

end WuffsVerif.Props.C09
