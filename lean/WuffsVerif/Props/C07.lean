/-
C07 — standard-library codecs agree with independent implementations on valid data.
Part 1: Adler-32 (std/adler32).  CRC tables + byte-wise loop: Props/C07Crc.lean; slicing loops: Props/C07Slice.lean;
SHA-256: Props/C07Sha.lean; open statements about the decoders: Props/C07Spec.lean.

The model (`Model/StdHash.lean`) mirrors `hasher.up` with the chunk length and the
modulus REGENERATED from the .wuffs source (`Gen/C07_Tables.lean`); the theorems below
are therefore statements about the constants the working tree has now.
-/
import WuffsVerif.Proof.StdHashAdler

namespace WuffsVerif.Props.C07
open WuffsVerif.StdHash WuffsVerif.Gen.C07

/-- The regenerated chunk length is within the no-overflow bound (5553 would not be). -/
theorem adler_chunk_len_ok : 0 < adlerChunkLen ∧ adlerChunkLen ≤ 5552 ∧ adlerModulus = 65521 := by
  decide

/-- The SIMD variants (`hasher.up_x86_sse42`, `hasher.up_arm_neon`: not mirrored, compared with Go's hash/adler32
    on every generated case) use their own chunk lengths; these are regenerated too and must stay within the bound
    beyond which the u32 sums can wrap: after `n` bytes of 0xFF from `(s1, s2) = (65520, 65520)`,
    `s2 = 65520 + 65520·n + 255·n·(n+1)/2`, which fits u32 for `n = 5552` and not for `n = 5553`. -/
theorem adler_simd_chunk_le :
    adlerSse42ChunkLen ≤ 5552 ∧ adlerNeonChunkLen ≤ 5552 ∧ 0 < adlerSse42ChunkLen ∧ 0 < adlerNeonChunkLen ∧
    65520 + 65520 * 5552 + 255 * 5552 * 5553 / 2 < 4294967296 ∧
    ¬ (65520 + 65520 * 5553 + 255 * 5553 * 5554 / 2 < 4294967296) := by
  decide

/-- **adler_up_eq_spec.** The chunked u32 loop of `hasher.up` (wrapping adds, one `%=` per
    ≤ 5552-byte chunk) equals the mathematical checksum (both sums reduced mod 65521 after
    every byte) for EVERY u32 state and EVERY byte string.  That no u32 add wraps inside a
    chunk is proved (`adlerInner_no_overflow`), not assumed. -/
theorem adler_up_eq_spec (state : Nat) (hs : state < 4294967296) (x : List UInt8) :
    adlerUp state x = adlerPack16 (adlerSpecFold (state % 65536, state / 65536) x) := by
  obtain ⟨h0, h1, h2⟩ := adler_chunk_len_ok
  unfold adlerUp
  simp only []
  rw [h2, adler_pack_bits]
  have e1 : state &&& 0xFFFF = state % 65536 := Nat.and_two_pow_sub_one_eq_mod state 16
  have e2 : state >>> 16 = state / 65536 := by rw [Nat.shiftRight_eq_div_pow]
  rw [e1, e2]
  rw [adlerChunks_eq_spec adlerChunkLen h0 h1 x.length x _ _ (Nat.le_refl _) (by omega) (by omega)]
  rfl

/-- states reachable by `update` have both halves below 65521 … -/
theorem adler_unpack_pack (ab : Nat × Nat) (h1 : ab.1 < 65536) (h2 : ab.2 < 65536) :
    (adlerPack16 ab % 65536, adlerPack16 ab / 65536) = ab := by
  unfold adlerPack16
  refine Prod.ext ?_ ?_ <;> simp only <;> omega

theorem adlerPack16_lt (ab : Nat × Nat) : adlerPack16 ab < 4294967296 := by
  unfold adlerPack16; omega

theorem adlerUp_lt (state : Nat) (hs : state < 4294967296) (x : List UInt8) :
    adlerUp state x < 4294967296 := by
  rw [adler_up_eq_spec state hs x]; exact adlerPack16_lt _

/-- `up` is a monoid action: feeding `a` then `b` is feeding `a ++ b`. -/
theorem adlerUp_append (state : Nat) (hs : state < 4294967296) (a b : List UInt8) :
    adlerUp (adlerUp state a) b = adlerUp state (a ++ b) := by
  rw [adler_up_eq_spec _ (adlerUp_lt state hs a) b, adler_up_eq_spec state hs a,
    adler_up_eq_spec state hs (a ++ b)]
  have hlt := adlerSpecFold_lt a (state % 65536, state / 65536) (by simp only; omega) (by simp only; omega)
  rw [adler_unpack_pack _ hlt.1 hlt.2, adlerSpecFold_append]

/-- the hasher's state is a u32 -/
def adlerWf (h : AdlerHasher) : Prop := h.state < 4294967296

theorem adler_update_wf (h : AdlerHasher) (hw : adlerWf h) (x : List UInt8) : adlerWf (h.update x) := by
  unfold AdlerHasher.update adlerWf
  simp only
  split
  · exact adlerUp_lt _ hw _
  · exact adlerUp_lt _ (by omega) _

/-- **adler_split.** `update (update s a) b = update s (a ++ b)` for every hasher state and
    every split point. -/
theorem adler_split (h : AdlerHasher) (hw : adlerWf h) (a b : List UInt8) :
    (h.update a).update b = h.update (a ++ b) := by
  unfold AdlerHasher.update
  simp only [↓reduceIte]
  congr 1
  split
  · exact adlerUp_append _ hw _ _
  · exact adlerUp_append _ (by omega) _ _

/-- The fresh hasher fed the whole string computes Adler-32 (RFC 1950). -/
theorem adler_hasher_eq_spec (x : List UInt8) :
    (AdlerHasher.update {} x).checksum = adler32Spec x := by
  unfold AdlerHasher.update AdlerHasher.checksum adler32Spec
  simp only [Bool.false_eq_true, ↓reduceIte]
  rw [adler_up_eq_spec 1 (by omega) x]
  have hlt := adlerSpecFold_lt x (1, 0) (by omega) (by omega)
  unfold adlerPack16 adlerSpecPack
  show (adlerSpecFold (1, 0) x).2 % 65536 * 65536 + (adlerSpecFold (1, 0) x).1 % 65536 = _
  rw [Nat.mod_eq_of_lt hlt.1, Nat.mod_eq_of_lt hlt.2]

/-- ZERO `update` calls (the empty string split into zero pieces): `checksum_u32` of a hasher that was only
    initialised is the Adler-32 of the empty string, 1 (it was 0 before fixes/C07-adler32-zero-updates.patch:
    `this.state` is set to 1 only by the first `update!`). -/
theorem adler_zero_updates : ({} : AdlerHasher).checksum = adler32Spec [] ∧ adler32Spec [] = 1 := by
  decide

/-- **However the bytes are split**: EVERY sequence of `update` calls — including the empty sequence —
    computes the Adler-32 of the concatenation. -/
theorem adler_any_split (parts : List (List UInt8)) :
    (parts.foldl AdlerHasher.update {}).checksum = adler32Spec parts.flatten := by
  have key : ∀ (ps : List (List UInt8)) (h : AdlerHasher) (q : List UInt8), adlerWf h →
      ps.foldl AdlerHasher.update (h.update q) = h.update (q ++ ps.flatten) := by
    intro ps
    induction ps with
    | nil => intro h q _; simp
    | cons p ps ih =>
      intro h q hw
      simp only [List.foldl_cons, List.flatten_cons]
      rw [adler_split h hw q p, ih h (q ++ p) hw, List.append_assoc]
  cases parts with
  | nil => exact adler_zero_updates.1
  | cons p0 parts =>
    simp only [List.foldl_cons, List.flatten_cons]
    rw [key parts {} p0 (by unfold adlerWf; simp), adler_hasher_eq_spec]

example : ((AdlerHasher.update {} [1, 2, 3]).update [4]).checksum = adler32Spec [1, 2, 3, 4] :=
  adler_any_split [[1, 2, 3], [4]]

example : ({} : AdlerHasher).checksum = adler32Spec [] := adler_any_split []

end WuffsVerif.Props.C07
