/-
C04 — generated C computes exactly what the Wuffs source means.

What is proved here (over Model/CExpr.lean = C semantics of the emitted
expressions + `lower…` = the operator/cast decisions of internal/cgen,
Model/WOps.lean = the meaning of the Wuffs operators):

* `lower_correct` (with Props/C04Ops.lean): every binary operator, every
  unsigned type, all operand kinds, ALL operand values: the emitted C is defined
  and equals the Wuffs meaning whenever the checker's guarantee holds;
* `lower_unrepaired_modmul_u16_undefined`: the code BEFORE
  fixes/C04-u16-modmul.patch is undefined (signed overflow) on 65535 ~mod* 65535
  — `lower_correct` is false for it; `lower_unrepaired_sat_u8_ill_formed`: the
  unrepaired `~sat+` on u8 is not even a two-argument call;
* `as_correct`, `as_redundant_mask_correct` (the dropped `& 0xFF`);
* `compound_assign_correct_*`: op-assign on every type incl. u8/u16
  (promotion + truncation back to the type of the left-hand side);
* `assoc_mul_small_correct` / `assoc_mul_unrepaired_undefined`; Props/C04AssocN.lean:
  associative `+ * & | ^` chains of any length (`assoc_add_correct`, …);
* Props/C04Iterate.lean: `iterate_unroll_equiv`.

* Props/C04Stmt.lean: `stmt_lowering_correct` — the control statements (if /
  while / do-while(0) / break / continue / goto + labels / return) over a C
  statement semantics with goto, for all programs.

* Props/C04Body.lean: `body_lowering_correct` — expression and statement
  lowering composed over a memory of typed scalar variables;
  Props/C04Signed.lean: nodes with signed operand types; Props/C04Coro.lean:
  the resume switch of a coroutine and the scratch word of the multi-byte reads.

NOT proved (`lowering_whole_program_partial` in Props/C04Body.lean lists it):
arrays, struct layout, the function prologue, calls, slices — covered by the
differential execution of harness/cmd/c04.
-/
import WuffsVerif.Props.C04Ops

set_option linter.unusedSimpArgs false

namespace WuffsVerif.Props.C04
open WuffsVerif.WOps WuffsVerif.C WuffsVerif.Gen.C04 WuffsVerif.Proof.C04

/-! ## Saturating and logical operators -/

theorem lower_satAdd (t : WTy) (lk rk : Bool) (a b : Int) (x y : CVal)
    (hx : Rep t lk a x) (hy : Rep t rk b y) :
    ∃ e r, lowerBin .satAdd t lk rk = some e ∧ ceval (env2 x y) e = some r ∧
      r.v = WOp.satAdd.ideal t a b ∧ r.ty = ctyOf t := by
  obtain ⟨hxv, hxr, _, _⟩ := hx
  obtain ⟨hyv, hyr, _, _⟩ := hy
  subst hxv hyv
  refine ⟨.satAdd t (.hole 0) (.hole 1), ⟨ctyOf t, WOp.satAdd.ideal t x.v y.v⟩, rfl, ?_, rfl, rfl⟩
  simp only [ceval, env2]
  exact satAddC_spec t x y hxr.1 hxr.2 hyr.1 hyr.2

theorem lower_satSub (t : WTy) (lk rk : Bool) (a b : Int) (x y : CVal)
    (hx : Rep t lk a x) (hy : Rep t rk b y) :
    ∃ e r, lowerBin .satSub t lk rk = some e ∧ ceval (env2 x y) e = some r ∧
      r.v = WOp.satSub.ideal t a b ∧ r.ty = ctyOf t := by
  obtain ⟨hxv, hxr, _, _⟩ := hx
  obtain ⟨hyv, hyr, _, _⟩ := hy
  subst hxv hyv
  refine ⟨.satSub t (.hole 0) (.hole 1), ⟨ctyOf t, WOp.satSub.ideal t x.v y.v⟩, rfl, ?_, rfl, rfl⟩
  simp only [ceval, env2]
  exact satSubC_spec t x y hxr.1 hxr.2 hyr.1 hyr.2

/-- `and` / `or`: operands are C values of any type holding 0 or 1. -/
theorem lower_logical (op : WOp) (hop : op = .land ∨ op = .lor) (t : WTy) (lk rk : Bool)
    (a b : Int) (x y : CVal) (hx : x.v = a) (hy : y.v = b) :
    ∃ e r, lowerBin op t lk rk = some e ∧ ceval (env2 x y) e = some r ∧
      r.v = op.ideal t a b ∧ r.ty = .int := by
  subst hx hy
  rcases hop with h | h <;> subst h <;> cases t <;>
    simp [lowerBin, cBinOf, cTypeOf, WTy.isSmall, WOp.isComparison, WOp.isLogical, ceval, env2, evalBin,
      boolResult, WOp.ideal]

/-! ## The property of the operator lowering, all operators at once -/

def WOp.isShift (op : WOp) : Bool := op == .shl || op == .shr || op == .modShl

/-- C type of the value of a node -/
def resTy (op : WOp) (t : WTy) : CTy := if op.isComparison || op.isLogical then .int else ctyOf t

/-- **lower_correct.**  For every binary operator `op`, node type `t`, operand
literal-ness `lk rk` (not both: such a node is constant-folded by the checker),
operand values `a b` inside their types, written as C values `x y` of any of
the C types such operands can have: if the checker's guarantee for the node
holds, the C expression `lowerBin op t lk rk` evaluates — without undefined
behaviour — to the Wuffs meaning, at the C type of the node.  The right
operand of a shift may have any type (only its value matters); the operands of
`and`/`or` are booleans of any C type. -/
theorem lower_correct (op : WOp) (t : WTy) (lk rk : Bool) (a b : Int) (x y : CVal)
    (hk : ¬(lk = true ∧ rk = true))
    (hx : if op.isLogical then x.v = a else Rep t lk a x)
    (hy : if op.isLogical || WOp.isShift op then (y.v = b ∧ 0 ≤ b) else Rep t rk b y)
    (hdef : op.defined t a b) :
    ∃ e r, lowerBin op t lk rk = some e ∧ ceval (env2 x y) e = some r ∧
      r.v = op.ideal t a b ∧ r.ty = resTy op t := by
  cases op <;> simp only [WOp.isLogical, WOp.isShift, Bool.false_eq_true, if_false, if_true,
    beq_self_eq_true, Bool.or_true, Bool.true_or, Bool.or_false, Bool.or_self, reduceCtorEq, beq_iff_eq] at hx hy <;>
    simp only [resTy, WOp.isComparison, WOp.isLogical, Bool.or_self, Bool.false_eq_true, if_false, if_true,
      Bool.or_true, Bool.true_or, Bool.or_false]
  · exact lower_add t lk rk a b x y hk hx hy hdef
  · exact lower_sub t lk rk a b x y hk hx hy hdef
  · exact lower_mul t lk rk a b x y hk hx hy hdef
  · exact lower_div t lk rk a b x y hk hx hy hdef
  · exact lower_shl t lk rk a b x y hx hy.1 hy.2 hdef
  · exact lower_shr t lk rk a b x y hx hy.1 hy.2 hdef
  · exact lower_band t lk rk a b x y hk hx hy hdef
  · exact lower_bor t lk rk a b x y hk hx hy hdef
  · exact lower_bxor t lk rk a b x y hk hx hy hdef
  · exact lower_rem t lk rk a b x y hk hx hy hdef
  · exact lower_modAdd t lk rk a b x y hk hx hy hdef
  · exact lower_modSub t lk rk a b x y hk hx hy hdef
  · exact lower_modMul t lk rk a b x y hk hx hy hdef
  · exact lower_modShl t lk rk a b x y hx hy.1 hy.2 hdef
  · exact lower_satAdd t lk rk a b x y hx hy
  · exact lower_satSub t lk rk a b x y hx hy
  · exact lower_ne t lk rk a b x y hk hx hy hdef
  · exact lower_lt t lk rk a b x y hk hx hy hdef
  · exact lower_le t lk rk a b x y hk hx hy hdef
  · exact lower_eq t lk rk a b x y hk hx hy hdef
  · exact lower_ge t lk rk a b x y hk hx hy hdef
  · exact lower_gt t lk rk a b x y hk hx hy hdef
  · exact lower_logical .land (Or.inl rfl) t lk rk a b x y hx hy.1
  · exact lower_logical .lor (Or.inr rfl) t lk rk a b x y hx hy.1

/-- non-vacuity: the hypotheses are satisfiable at the boundary that the
unrepaired code got wrong (u16, 65535 ~mod* 65535 = 1), and the theorem's
conclusion is the concrete value. -/
example : ∃ e r, lowerBin .modMul .u16 false false = some e ∧
    ceval (env2 ⟨.u16, 65535⟩ ⟨.u16, 65535⟩) e = some r ∧ r.v = 1 ∧ r.ty = .u16 := by
  have h := lower_correct .modMul .u16 false false 65535 65535 ⟨.u16, 65535⟩ ⟨.u16, 65535⟩ (by decide)
    (by simp only [WOp.isLogical]; exact ⟨rfl, by decide, by decide, by simp [OpdTy, ctyOf]⟩)
    (by simp only [WOp.isLogical, WOp.isShift]; exact ⟨rfl, by decide, by decide, by simp [OpdTy, ctyOf]⟩)
    (by simp [WOp.defined])
  simpa [WOp.ideal, WTy.bits, resTy, WOp.isComparison, WOp.isLogical, ctyOf] using h

/-! ## The defects of the unrepaired code (fixes/C04-u16-modmul.patch) -/

/-- Before the repair, `a ~mod* b` on base.u16 was written
`((uint16_t)(a * b))`: both operands are promoted to `int` and
65535 * 65535 overflows — undefined behaviour on an accepted program, although
the Wuffs meaning (1) is perfectly defined.  `lower_correct` is FALSE for it. -/
theorem lower_unrepaired_modmul_u16_undefined :
    ∃ e, lowerBinUnrepaired .modMul .u16 false = some e ∧
      ceval (env2 ⟨.u16, 65535⟩ ⟨.u16, 65535⟩) e = none ∧
      wmeaning .modMul .u16 65535 65535 = some 1 := by
  refine ⟨_, rfl, ?_, ?_⟩
  · simp [ceval, env2, evalBin, promoteTy, uac, convert, intResult, INT_MIN, INT_MAX]
  · simp [wmeaning, WOp.defined, WOp.ideal, WTy.bits]

/-- the unrepaired u16 expression and the repaired one differ exactly by the
`(uint32_t)` conversion of the left operand -/
theorem lower_repair_is_the_widening :
    lowerBinUnrepaired .modMul .u16 false = some (.cast .u16 (.bin .mul (.hole 0) (.hole 1))) ∧
    lowerBin .modMul .u16 false false = some (.cast .u16 (.bin .mul (.cast .u32 (.hole 0)) (.hole 1))) := by
  constructor <;> rfl

/-- Before the repair the overall cast was also applied to `~sat+`/`~sat-` on
u8/u16, producing `wuffs_base__u8__sat_add((uint8_t)(x, y))`: the C operator
table has no entry for them, so the unrepaired decision procedure has no
well-formed binary expression at all. -/
theorem lower_unrepaired_sat_small_ill_formed :
    lowerBinUnrepaired .satAdd .u8 false = none ∧ lowerBinUnrepaired .satSub .u16 false = none := by
  constructor <;> rfl

/-! ## Conversions -/

/-- **as_correct.**  `x as T` where the checker has shown that the value fits
`T`: the emitted `((T)(x))` yields the same value (no truncation happens). -/
theorem as_correct (frm to : WTy) (k : Bool) (a : Int) (x : CVal)
    (hx : Rep frm k a x) (hfit : to.has a) :
    ∃ e r, lowerAs frm to .plain = some e ∧ ceval (env1 x) e = some r ∧
      r.v = a ∧ r.ty = ctyOf to := by
  obtain ⟨hxv, _, _, _⟩ := hx
  subst hxv
  obtain ⟨h0, h1⟩ := hfit
  cases to <;> simp [WTy.max, WTy.bits] at h1 <;>
    simp [lowerAs, cTypeOf, ceval, env1, castTo, ctyOf, wrapU] <;> omega

theorem iand_mod (a : Int) (n : Nat) (h0 : 0 ≤ a) : iand a (2 ^ n - 1) = a % 2 ^ n := by
  have hn : ((2:Int) ^ n - 1).toNat = 2 ^ n - 1 := by
    have hc : ((2 ^ n : Nat) : Int) = (2:Int) ^ n := by norm_cast
    have h1 : (1:Nat) ≤ 2 ^ n := Nat.one_le_two_pow
    rw [← hc]; omega
  show ((a.toNat &&& ((2:Int) ^ n - 1).toNat : Nat) : Int) = a % 2 ^ n
  rw [hn, Nat.and_two_pow_sub_one_eq_mod]
  have hc : ((2 ^ n : Nat) : Int) = (2:Int) ^ n := by norm_cast
  rw [Int.natCast_emod, Int.toNat_of_nonneg h0, hc]

theorem iand_comm (a b : Int) : iand a b = iand b a := by
  show ((a.toNat &&& b.toNat : Nat) : Int) = ((b.toNat &&& a.toNat : Nat) : Int)
  rw [Nat.and_comm]

/-- **The dropped redundant mask.**  `(x & 0xFF) as base.u8` (mask on either
side; likewise 0xFFFF / 0xFFFF_FFFF for u16 / u32) is written `((uint8_t)(x))`
— the `&` is NOT emitted — and still means `x & 0xFF`, for every `x` of a wider
type: C's conversion to the narrower unsigned type is the mask. -/
theorem as_redundant_mask_correct (frm to : WTy) (a : Int) (x : CVal) (m : Nat) (left : Bool)
    (hx : Rep frm false a x) (hm : redundantMask to = some m) :
    ∃ e r, lowerAs frm to (if left then .maskL m else .maskR m) = some e ∧
      e = .cast (ctyOf to) (.hole 0) ∧
      ceval (env1 x) e = some r ∧
      r.v = (if left then iand m a else iand a m) ∧ r.ty = ctyOf to := by
  obtain ⟨hxv, hxr, _, _⟩ := hx
  subst hxv
  have h0 := hxr.1
  cases to <;> simp [redundantMask] at hm <;> subst hm <;> cases left <;>
    simp [lowerAs, cTypeOf, redundantMask, ceval, env1, castTo, ctyOf, wrapU]
  · simpa using (iand_mod x.v 8 h0).symm
  · rw [iand_comm]; simpa using (iand_mod x.v 8 h0).symm
  · simpa using (iand_mod x.v 16 h0).symm
  · rw [iand_comm]; simpa using (iand_mod x.v 16 h0).symm
  · simpa using (iand_mod x.v 32 h0).symm
  · rw [iand_comm]; simpa using (iand_mod x.v 32 h0).symm

/-- non-vacuity: 0x1234 & 0xFF = 0x34 through the dropped mask -/
example : ceval (env1 ⟨.u16, 0x1234⟩) (.cast .u8 (.hole 0)) = some ⟨.u8, 0x34⟩ := by
  simp [ceval, env1, castTo, wrapU]

/-! ## Whole-program lowering -/

-- `jump_lowering` and the lowering of the control statements as a whole (if / else-if /
-- `if true` / while / do-while(0) / break / continue / goto + labels / return) ARE proved:
-- Props/C04Stmt.lean `stmt_lowering_correct`, `stmt_lowering_unique`, `jump_lowering_break`,
-- `jump_lowering_continue`, over a C semantics with structured statements, `goto` and labels
-- (Model/CStmt.lean), for all programs, states and iteration counts.

-- The composition of the expression theorems with `stmt_lowering_correct` over a memory of
-- typed scalar variables is Props/C04Body.lean `body_lowering_correct`; the property's
-- `lowering_whole_program_partial` (with the list of what is still missing) is stated there.

/-- two facts about the C form of op-assigns that the execution relies on -/
theorem lowerAssign_shapes :
    (∀ t : WTy, lowerAssign .add t false = some (.compound .add (.hole 1))) ∧
    (∀ t : WTy, lowerAssign .satAdd t false = some (.satIndirect true t (.hole 1))) := by
  constructor <;> intro t <;> cases t <;> rfl

end WuffsVerif.Props.C04
