/-
C12 — both formatters change only white space and are idempotent.

Part 2: the Wuffs formatter (`lang/render` driven as in `cmd/wuffsfmt`), over
`Model/FmtToken.lean` (Tokenize), `Model/RenderTokens.lean` (Render, repaired:
fixes/C12-render-comment-only-file.patch) and `Model/Render.lean` (appendNum); the token
tables are `Gen/C12_Tokens.lean`, regenerated from /repo/lang/token on every run.
Helper lemmas: `Proof/RenderNum.lean`, `Proof/RenderPairs.lean`.

The two clauses of the property are STATED in full below (`RenderRetokenizes`,
`RenderIdempotent`) and are OPEN as theorems over all sources; what is proved are the two
ingredients the design names — value preservation of `appendNum`, and the finite
"no-space pairs cannot merge" obligation lifted to every continuation — and the clauses
are evaluated on the implementation, and the models tied to it byte-for-byte, on every run.
-/
import WuffsVerif.Proof.RenderNum
import WuffsVerif.Proof.RenderPairs

namespace WuffsVerif.Props.C12
open WuffsVerif.FmtToken WuffsVerif.Render WuffsVerif.Gen.C12

abbrev Bytes := List UInt8

/-! ## The clauses, in full -/

/-- token texts equal, or both numeric literals of equal value -/
def tokEquiv (a b : Tok) : Prop :=
  a.text = b.text ∨ (∃ v, numValue a.text = some v ∧ numValue b.text = some v ∧
    (a.text.head?.map numeric = some true) ∧ (b.text.head?.map numeric = some true))

/-- the non-empty comments in order, trailing spaces removed -/
def commentList (comments : Array Bytes) : List Bytes :=
  (comments.toList.filter (fun c => !c.isEmpty)).map stripTrailingSpaces

/-- The interleaved sequence of tokens and comments in source order
(a comment follows the tokens of its own line). -/
def items (toks : List Tok) (comments : Array Bytes) : List (Bool × Bytes × Nat) :=
  let cs := (comments.toList.zipIdx.filter (fun c => !c.1.isEmpty)).map
    (fun c => (true, stripTrailingSpaces c.1, 2 * c.2 + 1))
  let ts := toks.map (fun t => (false, t.text, 2 * t.line))
  (ts ++ cs).mergeSort (fun a b => a.2.2 ≤ b.2.2)

/-- `render_retokenizes`, full statement.  `Accepts` stands for the part of wuffsfmt's gate
that is not modelled (`parse.Parse` succeeds); for the pairs of `isBad` (`. .`, `+ =` …),
which no parsable program contains, the statement is false without it. -/
def RenderRetokenizes (Accepts : List Tok → Prop) : Prop :=
  ∀ (src out : Bytes) (toks : List Tok) (comments : Array Bytes),
    tokenize src = some (toks, comments) → Accepts toks → render toks comments = some out →
    ∃ toks' comments', tokenize out = some (toks', comments') ∧
      toks.length = toks'.length ∧ (∀ p ∈ toks.zip toks', tokEquiv p.1 p.2) ∧
      (items toks comments).map (·.1) = (items toks' comments').map (·.1) ∧
      commentList comments = commentList comments' ∧ Accepts toks'

/-- `render_idempotent`, full statement. -/
def RenderIdempotent (Accepts : List Tok → Prop) : Prop :=
  ∀ (src out : Bytes) (toks : List Tok) (comments : Array Bytes),
    tokenize src = some (toks, comments) → Accepts toks → render toks comments = some out →
    fmt out = some out

-- OPEN: theorem render_retokenizes : RenderRetokenizes ParserAccepts
-- OPEN: theorem render_idempotent : RenderIdempotent ParserAccepts
--   Missing: a model of lang/parse (to say which token sequences occur), and the induction over
--   Render's line loop that reduces re-tokenization of a whole line to adjacent pairs (the pair
--   step is `render_nospace_pairs_retokenize_partial` below) and re-derives the line numbers,
--   hanging-ness and varNameLength alignment from the rendered text.  Both clauses are evaluated
--   on the real Tokenize/Parse/Render for every harness case, and `fmt` (Tokenize + Render of
--   the models) is compared byte-for-byte with the implementation.

/-! ## Proved ingredients -/

/-- `appendNum_value`: re-grouping digits with underscores and upper-casing them preserves the
value of every well-formed numeric literal text — so a rendered number re-tokenizes to an
equivalent token. -/
theorem appendNum_value (s : Bytes) (v : Nat) (h : numValue s = some v) :
    numValue (appendNum s) = some v :=
  WuffsVerif.Render.appendNum_value s v h

/-- non-vacuity: `0Xdead_beef` has a value -/
example : numValue [48, 88, 100, 101, 97, 100, 95, 98, 101, 101, 102] = some 3735928559 := by decide

/-- `render_retokenizes_partial` (pair step).  For every squiggly token `p` (from the
regenerated `squiggles`/`lexers` tables) and everything `q` that `Render` may write directly
after it without a space — a superset of Render's actual decisions: `p` tight-right, `p` a
possibly-unary "+"/"-", `q` tight-left, or `q` = "(" — except the listed unparseable pairs,
and for EVERY text `t` that starts with `q`: the tokenizer reading `p`'s text followed by `t`
yields exactly `p` (same ID, same length).  Neither merge nor re-split. -/
theorem render_nospace_pairs_retokenize_partial
    (p : Nat × Bytes × Nat) (hp : p ∈ punctToks) (q : Next) (hq : q ∈ allNext)
    (hns : mayNoSpace p q = true) (hbad : isBad p q = false)
    (c : UInt8) (σ : Bytes) (hp' : p.2.1 = c :: σ) (t : Bytes) (ht : q.text <+: t) (hne : q.text ≠ []) :
    lexPunct c (σ ++ t) = some (p.1, σ.length + 1) :=
  nospace_pair_lexes p hp q hq hns hbad c σ hp' t ht hne

/-- non-vacuity: "." (tight on both sides) followed by an identifier starting with `x`. -/
example : ((2, [46], 6) : Nat × Bytes × Nat) ∈ punctToks ∧
    (⟨[120], false, false, false⟩ : Next) ∈ allNext ∧
    mayNoSpace (2, [46], 6) ⟨[120], false, false, false⟩ = true ∧
    isBad (2, [46], 6) ⟨[120], false, false, false⟩ = false := by
  decide +kernel

/-- the exclusion list is tight: each excluded pair really would be merged by the lexer -/
theorem render_bad_pairs_do_merge :
    punctToks.all (fun p => allNext.all (fun q => !(mayNoSpace p q && isBad p q) || !pairOK p q)) = true :=
  bad_pairs_do_merge

/-- after a word, number or string: the tokens `Render` attaches without a space (tight-left
ones and "(") start with a byte that cannot continue an identifier / number and is not the
`b`/`l` of a string's endian suffix -/
theorem render_tight_left_after_word :
    punctToks.all (fun e => !(hasFlag e.2.2 2 || e.1 == idOpenParen) ||
      (match e.2.1 with | c :: _ => !alphaNumeric c | [] => false)) = true :=
  tight_left_starts_no_word

/-- every squiggly token's own text lexes to that token (table sanity, regenerated tables) -/
theorem render_punct_lexes_to_itself : punctToks.all selfOK = true := punct_lexes_to_itself

/-- The repaired behaviour, on the model: a source of nothing but comments keeps them. -/
example : fmt [47, 47, 32, 120, 10, 10, 10, 47, 47, 121] = some [47, 47, 32, 120, 10, 10, 47, 47, 121, 10] := by
  decide +kernel

end WuffsVerif.Props.C12
