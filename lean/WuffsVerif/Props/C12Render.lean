/-
C12 — both formatters change only white space and are idempotent.

Part 2: the Wuffs formatter (`lang/render` driven as in `cmd/wuffsfmt`), over
`Model/FmtToken.lean` (Tokenize), `Model/RenderTokens.lean` (Render, repaired:
fixes/C12-render-comment-only-file.patch, fixes/C12-render-number-not-retokenizable.patch) and
`Model/Render.lean` (appendNum); the token tables are `Gen/C12_Tokens.lean`, regenerated from
/repo/lang/token on every run.
Helper lemmas: `Proof/RenderNum.lean`, `Proof/RenderPairs.lean` (round 1) and the
re-tokenization development of round 2: `Proof/RenderLex.lean` (one step of Tokenize as a pure
function, `TokRun`), `RenderWf.lean` (shapes of token texts, read back before a stopping byte),
`RenderNumWf.lean` (what Render writes for a number is again a number), `RenderTables.lean`
(finite facts about the regenerated tables), `RenderAdj.lean`, `RenderLine.lean` (a rendered
line is read back token by token; the no-space decisions are safe), `RenderPieces.lean`
(output lines as pieces), `RenderShape.lean` (Render's loop produces well-formed pieces),
`RenderRetok.lean` (assembly).

`render_retokenizes` is PROVED with the line structure `linesOK` in place of "the parser accepts"
(what the parser guarantees and the harness checks on every accepted source, op `rok`): for every
source that Tokenize and Render accept, with that line structure and an output of fewer than
maxLine lines, the output tokenizes again, to the same number of tokens, pairwise equal as texts
or equal as numbers, with the same interleaved sequence of tokens and comments, and with that
line structure again (`Proof/RenderItems.lean`, `RenderShape.lean`, `RenderTokWf.lean`,
`RenderClosure.lean`); `render_retokenizes_partial` is the same for every well-formed stream.
That the output PARSES again is not modelled.
`RenderIdempotent` is stated in full below; `render_idempotent` is PROVED in
`Props/C12RenderIdem.lean` (with `linesOK` and `numColonFree` in place of "the parser accepts", and
the line bound).
-/
import WuffsVerif.Proof.RenderNum
import WuffsVerif.Proof.RenderPairs
import WuffsVerif.Proof.RenderRetok
import WuffsVerif.Proof.RenderNumIdem
import WuffsVerif.Proof.RenderTokWf
import WuffsVerif.Proof.RenderClosure

namespace WuffsVerif.Props.C12
open WuffsVerif.FmtToken WuffsVerif.Render WuffsVerif.Gen.C12

abbrev Bytes := List UInt8

/-! ## The clauses, in full -/

/-- token texts equal, or both numeric literals of equal value (`Render.tokEquiv`) -/
abbrev tokEquiv (a b : Tok) : Prop := WuffsVerif.Render.tokEquiv a b

/-- The interleaved sequence of tokens and comments in source order (`Render.items`,
`Proof/RenderItems.lean`): before a token, the non-empty comments (trailing spaces removed) of the
lines before the token's line that have not been listed yet; a comment on a token's own line
follows the tokens of that line; at the end, the remaining comments. -/
abbrev items (toks : List Tok) (comments : Array Bytes) : List Item := WuffsVerif.Render.items toks comments

/-- two item sequences agree item by item: tokens as `tokEquiv`, comments literally -/
abbrev ItemsAgree (a b : List Item) : Prop := Forall2 itemEquiv a b

/-- `render_retokenizes`, full statement.  `Accepts` stands for the part of wuffsfmt's gate
that is not modelled (`parse.Parse` succeeds); for the pairs of `badPair` (`. .`, `+ =` …),
which no parsable program contains, the statement is false without it. -/
def RenderRetokenizes (Accepts : List Tok → Prop) : Prop :=
  ∀ (src out : Bytes) (toks : List Tok) (comments : Array Bytes),
    tokenize src = some (toks, comments) → Accepts toks → render toks comments = some out →
    ∃ toks' comments', tokenize out = some (toks', comments') ∧
      toks.length = toks'.length ∧ (∀ p ∈ toks.zip toks', tokEquiv p.1 p.2) ∧
      ItemsAgree (items toks comments) (items toks' comments') ∧ Accepts toks'

/-- `render_idempotent`, full statement. -/
def RenderIdempotent (Accepts : List Tok → Prop) : Prop :=
  ∀ (src out : Bytes) (toks : List Tok) (comments : Array Bytes),
    tokenize src = some (toks, comments) → Accepts toks → render toks comments = some out →
    fmt out = some out

-- `RenderRetokenizes ParserAccepts` itself is not provable: (1) without a bound on the number of output
--   lines it is false (KNOWN_FINDINGS retok:too-many-lines); (2) there is no model of lang/parse.
--   PROVED below: `render_retokenizes : RenderRetokenizesBelowMaxLine (linesOK …)` — the clause in full with
--   the line bound and with `Accepts toks := linesOK (toks.length + 1) toks`, the part of the parser's
--   guarantees that matters (the harness checks `ParserAccepts toks → linesOK` on every accepted source, op
--   `rok`); `render_retokenizes_of_source` (the same without the closure conjunct) and
--   `render_retokenizes_partial` (for every stream with the decidable hypothesis `streamOK`, not only
--   results of Tokenize).  Not covered: that the output PARSES again (checked on the implementation only).
-- `RenderIdempotent ParserAccepts` as such is not provable for the same two reasons.  PROVED in
--   `Props/C12RenderIdem.lean`: `render_idempotent : RenderIdempotentBelowMaxLine idemAccepts` — the clause in full
--   with the line bound and with `idemAccepts toks := linesOK … toks ∧ numColonFree toks` (no numeric literal directly
--   before a ":"; the parser only takes a ":" after an identifier or a fixed keyword); without `numColonFree` the
--   clause is false for the models (`render_idempotent_needs_numColonFree`).  Both hypotheses are evaluated by the
--   driver on every source the real wuffsfmt accepts (op `rok`), the clause itself on the implementation for every
--   harness case, and `fmt` (Tokenize + Render of the models) is compared byte-for-byte with the implementation.

/-! ## `render_retokenizes` -/

/-- The hypothesis on the token stream, decidable (driver op `rok`; the harness checks it on every
source the real wuffsfmt accepts): every token is one `Tokenize` can produce (`wfTok`: a squiggly
token of the tables, or a word / number / string text with its interned ID); every comment is empty
or `//…` without a newline; the token lines do not decrease; and on every source line (`linesOK`) a
token is left after the trailing semicolons are stripped, exactly one ";" is stripped if the last
token left asks for an implicit semicolon and none otherwise, and no adjacent pair is "." before "."
or "+"/"-" before "=". -/
def streamOK (toks : List Tok) (comments : Array Bytes) : Bool :=
  toks.all wfTok && comments.toList.all wfComment && sortedLinesB toks && linesOK (toks.length + 1) toks

/-- `render_retokenizes_partial` (PROVED, for ALL streams; all of `RenderRetokenizes` except that the
output parses): if `streamOK toks comments`, `Render` accepts, and its output has fewer than
`maxLine` lines (see KNOWN_FINDINGS retok:too-many-lines), then the output tokenizes again, into the
same number of tokens, each output token equal to the corresponding input token as a text or as a
numeric literal of the same value, and the interleaved sequence of tokens and comments is the same
(comments up to trailing spaces).  In particular wherever `Render` writes no space the tokenizer
neither merges nor re-splits; the names before an aligned ":" and the padding are read back; the
re-grouped numbers are numbers; the implicit semicolons come back exactly where explicit or implicit
ones were stripped; every comment is written exactly once, on a line of its own or after the tokens
of its line, in order. -/
theorem render_retokenizes_partial (toks : List Tok) (comments : Array Bytes) (out : Bytes)
    (hok : streamOK toks comments = true) (hr : render toks comments = some out)
    (hnl : out.count 10 < maxLine) :
    ∃ toks' comments', tokenize out = some (toks', comments') ∧
      toks.length = toks'.length ∧ (∀ p ∈ toks.zip toks', tokEquiv p.1 p.2) ∧
      ItemsAgree (items toks comments) (items toks' comments') := by
  unfold streamOK at hok
  rw [Bool.and_eq_true, Bool.and_eq_true, Bool.and_eq_true] at hok
  obtain ⟨⟨⟨h1, h2⟩, h3⟩, h4⟩ := hok
  exact render_retokenizes_items toks comments out
    (fun t ht => List.all_eq_true.mp h1 t ht) (fun c hc => List.all_eq_true.mp h2 c hc) h4
    (sortedLinesB_sound toks h3) hr hnl

/-- `tokenize_streamOK`: what `Tokenize` returns satisfies `streamOK` as soon as it satisfies the
line-structure part `linesOK` — every token it produces is well-formed (the one exception, a last
token that is a string running to the end of the input without its closing quote, is excluded by
`linesOK`), every comment is `//…` without a newline, and the token lines do not decrease. -/
theorem tokenize_streamOK (src : Bytes) (toks : List Tok) (comments : Array Bytes)
    (h : tokenize src = some (toks, comments)) (hl : linesOK (toks.length + 1) toks = true) :
    (∀ t ∈ toks, wfTok t = true) ∧ wfComments comments ∧ SortedLines toks :=
  tokenize_wf src toks comments h hl

/-- `render_retokenizes_of_source` (PROVED): `RenderRetokenizes` with `Accepts toks := linesOK … toks`
— the part of the parser's guarantees that matters (one statement-ending ";" per line end, no
".." / "+=" split in two) — except for its last conjunct (the output is accepted again), and with
the line limit as a hypothesis: for every source `src` that `Tokenize` accepts with such a line
structure and that `Render` accepts, the output tokenizes again, to the same tokens (numbers by
value) and the same interleaved sequence of tokens and comments. -/
theorem render_retokenizes_of_source (src out : Bytes) (toks : List Tok) (comments : Array Bytes)
    (ht : tokenize src = some (toks, comments)) (hl : linesOK (toks.length + 1) toks = true)
    (hr : render toks comments = some out) (hnl : out.count 10 < maxLine) :
    ∃ toks' comments', tokenize out = some (toks', comments') ∧
      toks.length = toks'.length ∧ (∀ p ∈ toks.zip toks', tokEquiv p.1 p.2) ∧
      ItemsAgree (items toks comments) (items toks' comments') := by
  obtain ⟨h1, h2, h3⟩ := tokenize_wf src toks comments ht hl
  exact render_retokenizes_items toks comments out h1 h2 hl h3 hr hnl

/-- `RenderRetokenizes` for outputs of fewer than `maxLine` lines (without this restriction the
clause is false: KNOWN_FINDINGS retok:too-many-lines). -/
def RenderRetokenizesBelowMaxLine (Accepts : List Tok → Prop) : Prop :=
  ∀ (src out : Bytes) (toks : List Tok) (comments : Array Bytes),
    tokenize src = some (toks, comments) → Accepts toks → render toks comments = some out →
    out.count 10 < maxLine →
    ∃ toks' comments', tokenize out = some (toks', comments') ∧
      toks.length = toks'.length ∧ (∀ p ∈ toks.zip toks', tokEquiv p.1 p.2) ∧
      ItemsAgree (items toks comments) (items toks' comments') ∧ Accepts toks'

/-- `render_retokenizes` (PROVED): the clause in full — including that the output is accepted again —
with `Accepts toks := linesOK (toks.length + 1) toks` in place of "the parser accepts `toks`": for
every source that Tokenize accepts with such a line structure and that Render accepts (output below
the line limit), the output tokenizes again to the same tokens (numbers by value) and the same
interleaved sequence of tokens and comments, and has such a line structure again. -/
theorem render_retokenizes :
    RenderRetokenizesBelowMaxLine (fun toks => linesOK (toks.length + 1) toks = true) := by
  intro src out toks comments ht hl hr hnl
  obtain ⟨h1, h2, h3⟩ := tokenize_wf src toks comments ht hl
  obtain ⟨toks', comments', htok, hlen, hrel, hitems⟩ :=
    render_retokenizes_items toks comments out h1 h2 hl h3 hr hnl
  obtain ⟨toks'', comments'', htok2, hl2⟩ := render_output_linesOK toks comments out h1 h2 hl hr hnl
  rw [htok] at htok2
  have e := Option.some.inj htok2
  simp only [Prod.mk.injEq] at e
  obtain ⟨rfl, rfl⟩ := e
  exact ⟨toks', comments', htok, hlen, hrel, hitems, hl2⟩

/-- the same without the comments (no need for non-decreasing lines) -/
theorem render_retokenizes_tokens_partial (toks : List Tok) (comments : Array Bytes) (out : Bytes)
    (h1 : toks.all wfTok = true) (h2 : comments.toList.all wfComment = true)
    (h3 : linesOK (toks.length + 1) toks = true) (hr : render toks comments = some out)
    (hnl : out.count 10 < maxLine) :
    ∃ toks' comments', tokenize out = some (toks', comments') ∧
      toks.length = toks'.length ∧ ∀ p ∈ toks.zip toks', tokEquiv p.1 p.2 := by
  obtain ⟨ps, _, _, _, htok, hlen, hrel⟩ := render_retokenizes_tokens toks comments out
    (fun t ht => List.all_eq_true.mp h1 t ht) (fun c hc => List.all_eq_true.mp h2 c hc) h3 hr hnl
  exact ⟨_, _, htok, hlen, hrel⟩

/-- non-vacuity: the tokens of `x = 0X1f +y; // d` / `// c` / `{ .z }` satisfy the hypotheses, are rendered
(`x = 0x1F + y  // d`, `// c`, `{.z }`), and the items of the source are: x = 0X1f + y ; (// d) (// c) { . z } ; -/
example :
    (match tokenize [120, 32, 61, 32, 48, 88, 49, 102, 32, 43, 121, 59, 32, 47, 47, 32, 100, 10, 47, 47, 32, 99, 10, 123, 32, 46, 122, 32, 125, 10] with
     | some (toks, comments) =>
       streamOK toks comments &&
       render toks comments ==
         some [120, 32, 61, 32, 48, 120, 49, 70, 32, 43, 32, 121, 32, 32, 47, 47, 32, 100, 10, 47, 47, 32, 99, 10, 123, 46, 122, 32, 125, 10] &&
       items toks comments ==
         [.tok [120], .tok [61], .tok [48, 88, 49, 102], .tok [43], .tok [121], .tok [59], .com [47, 47, 32, 100],
          .com [47, 47, 32, 99], .tok [123], .tok [46], .tok [122], .tok [125], .tok [59]]
     | none => false) = true := by
  decide +kernel

/-! ## Proved ingredients -/

/-- `appendNum_value`: re-grouping digits with underscores and upper-casing them preserves the
value of every well-formed numeric literal text — so a rendered number re-tokenizes to an
equivalent token. -/
theorem appendNum_value (s : Bytes) (v : Nat) (h : numValue s = some v) :
    numValue (appendNum s) = some v :=
  WuffsVerif.Render.appendNum_value s v h

/-- `render_number_fixed_point` (an ingredient of `render_idempotent`, PROVED): what the repaired `Render`
writes for a well-formed numeric literal (`numOut`: `appendNum`'s re-grouping, or the literal itself if
that would not tokenize) is written unchanged when it is formatted again. -/
theorem render_number_fixed_point (s : Bytes) (h : wfNumText s = true) :
    numOut (numOut s) = numOut s ∧ appendNum (appendNum s) = appendNum s :=
  ⟨numOut_idempotent s h, appendNum_idempotent s h⟩

/-- non-vacuity: `0_1` (kept as it is: re-grouped it would be the legacy octal `01`) and `0X1f` (`0x1F`) -/
example : wfNumText [48, 95, 49] = true ∧ numOut [48, 95, 49] = [48, 95, 49] ∧
    wfNumText [48, 88, 49, 102] = true ∧ numOut [48, 88, 49, 102] = [48, 120, 49, 70] := by decide

/-- non-vacuity: `0Xdead_beef` has a value -/
example : numValue [48, 88, 100, 101, 97, 100, 95, 98, 101, 101, 102] = some 3735928559 := by decide

/-- `render_retokenizes_partial` (pair step).  For every squiggly token `p` (from the
regenerated `squiggles`/`lexers` tables) and everything `q` that `Render` may write directly
after it without a space — a superset of Render's actual decisions: `p` tight-right, `p` a
possibly-unary "+"/"-", `q` tight-left, or `q` = "(" — except the listed unparseable pairs,
and for EVERY text `t` that starts with `q`: the tokenizer reading `p`'s text followed by `t`
yields exactly `p` (same ID, same length).  Neither merge nor re-split. -/
theorem render_nospace_pairs_retokenize_partial
    (p : Nat × Bytes × Nat) (hp : p ∈ punctToks) (q : Next) (hq : q ∈ allNext)
    (hns : mayNoSpace p q = true) (hbad : isBad p q = false)
    (c : UInt8) (σ : Bytes) (hp' : p.2.1 = c :: σ) (t : Bytes) (ht : q.text <+: t) (hne : q.text ≠ []) :
    lexPunct c (σ ++ t) = some (p.1, σ.length + 1) :=
  nospace_pair_lexes p hp q hq hns hbad c σ hp' t ht hne

/-- non-vacuity: "." (tight on both sides) followed by an identifier starting with `x`. -/
example : ((2, [46], 6) : Nat × Bytes × Nat) ∈ punctToks ∧
    (⟨[120], false, false, false⟩ : Next) ∈ allNext ∧
    mayNoSpace (2, [46], 6) ⟨[120], false, false, false⟩ = true ∧
    isBad (2, [46], 6) ⟨[120], false, false, false⟩ = false := by
  decide +kernel

/-- the exclusion list is tight: each excluded pair really would be merged by the lexer -/
theorem render_bad_pairs_do_merge :
    punctToks.all (fun p => allNext.all (fun q => !(mayNoSpace p q && isBad p q) || !pairOK p q)) = true :=
  bad_pairs_do_merge

/-- after a word, number or string: the tokens `Render` attaches without a space (tight-left
ones and "(") start with a byte that cannot continue an identifier / number and is not the
`b`/`l` of a string's endian suffix -/
theorem render_tight_left_after_word :
    punctToks.all (fun e => !(hasFlag e.2.2 2 || e.1 == idOpenParen) ||
      (match e.2.1 with | c :: _ => !alphaNumeric c | [] => false)) = true :=
  tight_left_starts_no_word

/-- every squiggly token's own text lexes to that token (table sanity, regenerated tables) -/
theorem render_punct_lexes_to_itself : punctToks.all selfOK = true := punct_lexes_to_itself

/-- The repaired behaviour, on the model: a source of nothing but comments keeps them. -/
example : fmt [47, 47, 32, 120, 10, 10, 10, 47, 47, 121] = some [47, 47, 32, 120, 10, 10, 47, 47, 121, 10] := by
  decide +kernel

end WuffsVerif.Props.C12
