/-
C09 (part: the documented JPEG IDCT exception).  The arithmetic core: the last step of
the portable IDCT is `BIAS_AND_CLAMP[v & 1023]` (wrap modulo 1024, then the table), the
last step of the AVX2 IDCT is two saturating packs and `+0x80`.  For every exact sample
value `v` inside the 10-bit range −512..511 the two give the same byte; outside, the
first wraps and the second saturates.
-/
import WuffsVerif.Model.JpegIdctRange

namespace WuffsVerif.Props.C09
open WuffsVerif.JpegIdct WuffsVerif.Gen.C09

/-- a 10-bit index read as a signed value -/
def signed10 (i : Nat) : Int := if i < 512 then (i : Int) else (i : Int) - 1024

/-- the table's intended content, in natural numbers -/
def expectedNat (i : Nat) : Nat :=
  if i < 128 then 128 + i else if i < 512 then 255 else if i < 896 then 0 else i - 896

/-- single pass over the table literal -/
def checkTable : List UInt8 → Nat → Bool
  | [], _ => true
  | b :: rest, i => (b.toNat == expectedNat i) && checkTable rest (i + 1)

theorem checkTable_get (l : List UInt8) (k : Nat) (h : checkTable l k = true) :
    ∀ i (hi : i < l.length), (l[i]).toNat = expectedNat (k + i) := by
  induction l generalizing k with
  | nil => intro i hi; simp at hi
  | cons b rest ih =>
    intro i hi
    simp only [checkTable, Bool.and_eq_true, beq_iff_eq] at h
    cases i with
    | zero => simpa using h.1
    | succ j =>
      have := ih (k + 1) h.2 j (by simpa using hi)
      simp only [List.getElem_cons_succ]
      rw [this]; congr 1; omega

/-- The table of std/jpeg/common_consts.wuffs (regenerated from the source on every run)
has 1024 entries and entry `i` is `expectedNat i`. -/
theorem bias_and_clamp_table_checked :
    checkTable biasAndClamp.toList 0 = true ∧ biasAndClamp.size = 1024 := by
  decide +kernel

theorem expectedNat_eq_clamp (i : Nat) (h : i < 1024) : expectedNat i = clampNat (signed10 i) := by
  unfold expectedNat clampNat signed10
  repeat' split
  all_goals omega

/-- The table IS "bias by 128 and clamp to 0..255" of the signed reading of its 10-bit index. -/
theorem bias_and_clamp_get (i : Nat) (h : i < 1024) :
    biasAndClamp.getD i 0 = clampByte (signed10 i) := by
  obtain ⟨hc, hs⟩ := bias_and_clamp_table_checked
  have hi : i < biasAndClamp.size := by omega
  have hl : i < biasAndClamp.toList.length := by simpa using hi
  have h1 := checkTable_get _ 0 hc i hl
  have h2 : biasAndClamp.getD i 0 = biasAndClamp.toList[i] := by
    simp [Array.getD, hi]
  rw [h2]
  unfold clampByte
  have h1' : (biasAndClamp.toList[i]).toNat = expectedNat i := by simpa using h1
  rw [← expectedNat_eq_clamp i h, ← h1']
  simp

/-- reduction of `v` to the 10-bit signed range: what `& 1023` + the table's signed reading do -/
def wrap10 (v : Int) : Int := (v + 512) % 1024 - 512

/-- portable final step = clamp of the WRAPPED value -/
theorem finalWrap_eq (v : Int) : finalWrap v = clampByte (wrap10 v) := by
  unfold finalWrap
  have h0 : 0 ≤ v % 1024 := Int.emod_nonneg v (by decide)
  have h1 : v % 1024 < 1024 := Int.emod_lt_of_pos v (by decide)
  have hlt : (v % 1024).toNat < 1024 := by omega
  rw [bias_and_clamp_get _ hlt]
  congr 1
  unfold signed10 wrap10
  split <;> omega

/-- AVX2 final step = clamp of the value itself (saturation) -/
theorem finalSat_eq (v : Int) : finalSat v = clampByte v := by
  unfold finalSat clampByte
  congr 1
  unfold clampNat sat8 sat16
  repeat' split
  all_goals omega

/-- `idct_variants_agree_in_range`: if the exact reconstruction `v` of a sample lies in the
10-bit range −512..511 about the bias, wrap-modulo-1024-then-table (portable) and
saturate-then-bias (AVX2) produce the same byte. -/
theorem idct_variants_agree_in_range (v : Int) (h : -512 ≤ v ∧ v ≤ 511) :
    finalWrap v = finalSat v := by
  rw [finalWrap_eq, finalSat_eq]
  congr 1
  unfold wrap10
  omega

/-- Where exactly the two differ: just above the range the portable code has wrapped to the
darkest value while the AVX2 code saturates to the brightest, and symmetrically below. -/
theorem idct_variants_differ_outside_hi (v : Int) (h : 512 ≤ v ∧ v ≤ 895) :
    finalWrap v = 0 ∧ finalSat v = 255 := by
  rw [finalWrap_eq, finalSat_eq]
  unfold clampByte
  have a : clampNat (wrap10 v) = 0 := by
    unfold clampNat wrap10
    repeat' split
    all_goals omega
  have b : clampNat v = 255 := by
    unfold clampNat
    repeat' split
    all_goals omega
  rw [a, b]; exact ⟨rfl, rfl⟩

theorem idct_variants_differ_outside_lo (v : Int) (h : -896 ≤ v ∧ v ≤ -513) :
    finalWrap v = 255 ∧ finalSat v = 0 := by
  rw [finalWrap_eq, finalSat_eq]
  unfold clampByte
  have a : clampNat (wrap10 v) = 255 := by
    unfold clampNat wrap10
    repeat' split
    all_goals omega
  have b : clampNat v = 0 := by
    unfold clampNat
    repeat' split
    all_goals omega
  rw [a, b]; exact ⟨rfl, rfl⟩

/-! ### linking the u32 code of the portable last step to `finalWrap` -/

/-- signed reading of a u32 (what `_mm256_srai_epi32` / `sign_extend_rshift_u32` see) -/
def s32 (y : UInt32) : Int :=
  if y.toNat < 2147483648 then (y.toNat : Int) else (y.toNat : Int) - 4294967296

/-- `(y >> 18) & 1023` (LOGICAL shift, as in decode_idct_default.wuffs) is the arithmetic
shift of the signed value, modulo 1024: the 4 bits the logical shift gets wrong are masked off. -/
theorem logical_shift_mask_eq (y : UInt32) :
    ((y >>> 18) &&& 1023).toNat = ((s32 y) / 262144 % 1024).toNat := by
  have h1 : ((y >>> 18) &&& 1023).toNat = (y.toNat / 262144) % 1024 := by
    rw [UInt32.toNat_and, UInt32.toNat_shiftRight]
    have : (1023 : UInt32).toNat = 2 ^ 10 - 1 := by decide
    rw [this, Nat.and_two_pow_sub_one_eq_mod, Nat.shiftRight_eq_div_pow]
    rfl
  rw [h1]
  have hy := y.toNat_lt
  unfold s32
  split <;> omega

/-- the portable code's last expression, on the u32 accumulator `x`, is `finalWrap` of the
exact (signed, rounded, arithmetically shifted) sample -/
theorem portable_final_step (x : UInt32) :
    clampTab ((x + 131072) >>> 18) = finalWrap (s32 (x + 131072) / 262144) := by
  unfold clampTab finalWrap
  rw [logical_shift_mask_eq]

/-- Both variants' last step on the same 32-bit accumulator: if the rounded, shifted sample is
inside −512..511 the portable table lookup and the AVX2 saturating packs give the same byte. -/
theorem final_step_agree (x : UInt32)
    (h : -512 ≤ s32 (x + 131072) / 262144 ∧ s32 (x + 131072) / 262144 ≤ 511) :
    clampTab ((x + 131072) >>> 18) = finalSat (s32 (x + 131072) / 262144) := by
  rw [portable_final_step]
  exact idct_variants_agree_in_range _ h

example : -512 ≤ s32 ((0 : UInt32) + 131072) / 262144 ∧ s32 ((0 : UInt32) + 131072) / 262144 ≤ 511 := by
  decide

/-- non-vacuity: the range hypothesis is satisfiable at both ends, and 512 is already outside -/
example : finalWrap 511 = finalSat 511 ∧ finalWrap (-512) = finalSat (-512) :=
  ⟨idct_variants_agree_in_range 511 (by omega), idct_variants_agree_in_range (-512) (by omega)⟩
example : finalWrap 512 ≠ finalSat 512 := by
  have := idct_variants_differ_outside_hi 512 (by omega)
  rw [this.1, this.2]; decide

end WuffsVerif.Props.C09
