/-
C09 (part: the documented JPEG IDCT exception).  The arithmetic core: the last step of
the portable IDCT is `BIAS_AND_CLAMP[v & 1023]` (wrap modulo 1024, then the table), the
last step of the AVX2 IDCT is two saturating packs and `+0x80`.  For every exact sample
value `v` inside the 10-bit range −512..511 the two give the same byte; outside, the
first wraps and the second saturates.
-/
import WuffsVerif.Model.JpegIdctRange

namespace WuffsVerif.Props.C09
open WuffsVerif.JpegIdct WuffsVerif.Gen.C09

/-- a 10-bit index read as a signed value -/
def signed10 (i : Nat) : Int := if i < 512 then (i : Int) else (i : Int) - 1024

/-- The table of std/jpeg/common_consts.wuffs (regenerated from the source) IS
"bias by 128 and clamp to 0..255" of the signed reading of its 10-bit index. -/
theorem bias_and_clamp_table_spec :
    (List.range 1024).all (fun i => biasAndClamp.getD i 0 == clampByte (signed10 i)) = true := by
  decide +kernel

theorem bias_and_clamp_get (i : Nat) (h : i < 1024) :
    biasAndClamp.getD i 0 = clampByte (signed10 i) := by
  have := bias_and_clamp_table_spec
  rw [List.all_eq_true] at this
  have := this i (List.mem_range.mpr h)
  simpa using this

/-- reduction of `v` to the 10-bit signed range: what `& 1023` + the table's signed reading do -/
def wrap10 (v : Int) : Int := (v + 512) % 1024 - 512

/-- portable final step = clamp of the WRAPPED value -/
theorem finalWrap_eq (v : Int) : finalWrap v = clampByte (wrap10 v) := by
  unfold finalWrap
  have h0 : 0 ≤ v % 1024 := Int.emod_nonneg v (by decide)
  have h1 : v % 1024 < 1024 := Int.emod_lt_of_pos v (by decide)
  have hlt : (v % 1024).toNat < 1024 := by omega
  rw [bias_and_clamp_get _ hlt]
  congr 1
  unfold signed10 wrap10
  split <;> omega

/-- AVX2 final step = clamp of the value itself (saturation) -/
theorem finalSat_eq (v : Int) : finalSat v = clampByte v := by
  unfold finalSat clampByte sat8 sat16
  by_cases h1 : v + 128 < 0
  · have : v < -128 := by omega
    simp only [h1, ↓reduceIte]
    split <;> split <;> (try omega) <;> (try (split <;> (try omega))) <;> simp_all <;> omega
  · by_cases h2 : v + 128 > 255
    · simp only [h1, h2, ↓reduceIte]
      split <;> split <;> (try omega) <;> (try (split <;> (try omega))) <;> simp_all <;> omega
    · simp only [h1, h2, ↓reduceIte]
      have e : sat8' v = v := rfl
      split <;> (try omega)
      split <;> (try omega)
      split <;> (try omega)
      split <;> (try omega)
      congr 1
      omega
where sat8' (v : Int) : Int := v

/-- `idct_variants_agree_in_range`: if the exact reconstruction `v` of a sample lies in the
10-bit range −512..511 about the bias, wrap-modulo-1024-then-table (portable) and
saturate-then-bias (AVX2) produce the same byte. -/
theorem idct_variants_agree_in_range (v : Int) (h : -512 ≤ v ∧ v ≤ 511) :
    finalWrap v = finalSat v := by
  rw [finalWrap_eq, finalSat_eq]
  congr 1
  unfold wrap10
  omega

/-- Where exactly the two differ: just above the range the portable code has wrapped to the
darkest value while the AVX2 code saturates to the brightest, and symmetrically below. -/
theorem idct_variants_differ_outside_hi (v : Int) (h : 512 ≤ v ∧ v ≤ 895) :
    finalWrap v = 0 ∧ finalSat v = 255 := by
  rw [finalWrap_eq, finalSat_eq]
  unfold wrap10 clampByte
  constructor
  · have : (v + 512) % 1024 - 512 + 128 < 0 := by omega
    simp [this]
  · have h1 : ¬ (v + 128 < 0) := by omega
    have h2 : v + 128 > 255 := by omega
    simp [h1, h2]

theorem idct_variants_differ_outside_lo (v : Int) (h : -896 ≤ v ∧ v ≤ -513) :
    finalWrap v = 255 ∧ finalSat v = 0 := by
  rw [finalWrap_eq, finalSat_eq]
  unfold wrap10 clampByte
  constructor
  · have h1 : ¬ ((v + 512) % 1024 - 512 + 128 < 0) := by omega
    have h2 : (v + 512) % 1024 - 512 + 128 > 255 := by omega
    simp [h1, h2]
  · have : v + 128 < 0 := by omega
    simp [this]

/-- non-vacuity: the boundary values -/
example : finalWrap 511 = finalSat 511 ∧ finalWrap (-512) = finalSat (-512) ∧
    finalWrap 512 = 0 ∧ finalSat 512 = 255 := by decide

end WuffsVerif.Props.C09
