/-
C03 — the per-call clauses of the property (`Model/StdCall.lean`): the status predicates of
fundamental-public.h partition the statuses, and the executable verdict `classify` that the harness
evaluates on every sampled call of the compiled decoders says "no violation" exactly when the call is
`WellBehaved` — the property statement's clause, written without reference to `classify`.
-/
import WuffsVerif.Model.StdCall

set_option linter.unusedSimpArgs false

namespace WuffsVerif.Props.C03

open WuffsVerif.StdCall

/-- Every status is exactly one of ok / note / suspension / error (as the C predicates see it). -/
theorem status_kind_partition (r : SRepr) :
    (isOk r).toNat + (isNote r).toNat + (isSuspension r).toNat + (isError r).toNat = 1 := by
  cases r with
  | none => rfl
  | some bs =>
    simp only [isOk, isNote, isSuspension, isError]
    have d1 : chDollar ≠ chHash := by decide
    by_cases h1 : first bs = chDollar
    · simp [h1, d1]
    · by_cases h2 : first bs = chHash
      · simp [h2, d1.symm]
      · have e1 : (first bs == chDollar) = false := by simpa using h1
        have e2 : (first bs == chHash) = false := by simpa using h2
        have e3 : (first bs != chDollar) = true := by simpa using h1
        have e4 : (first bs != chHash) = true := by simpa using h2
        rw [e1, e2, e3, e4]; rfl

/-- `is_complete` ⇔ ok or note. -/
theorem isComplete_eq (r : SRepr) : isComplete r = (isOk r || isNote r) := by
  cases r <;> rfl

/-- A "truncated input" error is an error. -/
theorem truncated_is_error (r : SRepr) (h : isTruncatedInputError r = true) : isError r = true := by
  cases r with
  | none => simp [isTruncatedInputError] at h
  | some bs =>
    simp only [isTruncatedInputError] at h
    split at h
    · simp at h
    · next hh => simpa [isError] using hh

/-- An "internal error" status is an error. -/
theorem internal_is_error (r : SRepr) (h : isInternalError r = true) : isError r = true := by
  cases r with
  | none => simp [isInternalError] at h
  | some bs =>
    simp only [isInternalError, Bool.and_eq_true] at h
    simpa [isError] using h.1

/-- `message` never lengthens and strips at most the one sigil byte. -/
theorem message_length (bs : List UInt8) :
    ∃ ms, message (some bs) = some ms ∧ ms.length ≤ bs.length ∧ bs.length ≤ ms.length + 1 := by
  simp only [message]
  split
  · exact ⟨bs.drop 1, rfl, by simp, by simp; omega⟩
  · exact ⟨bs, rfl, Nat.le_refl _, Nat.le_succ _⟩

theorem shortRead_first : first shortRead = chDollar := by decide
theorem shortWrite_first : first shortWrite = chDollar := by decide
theorem shortRead_ne_shortWrite : shortRead ≠ shortWrite := by decide

/-- **The executable verdict is the property's clause.** `classify` reports no violation exactly for the
calls that are `WellBehaved`: indexes in order, not an internal error, and ok / a note / a proper error /
a suspension that is not (`$short read` with a closed source) and not (`$short write` with nothing
written, nothing read and an ample destination). -/
theorem classify_sound_complete (c : CallRec) : (classify c).isViolation = false ↔ WellBehaved c := by
  have d1 : chDollar ≠ chHash := by decide
  have d2 : chDollar ≠ chAt := by decide
  have d3 : chHash ≠ chAt := by decide
  have d1' := d1.symm
  have d2' := d2.symm
  have d3' := d3.symm
  unfold classify WellBehaved
  by_cases hidx : indexesOK c = true
  · have hidx' : c.sri0 ≤ c.sri1 ∧ c.sri1 ≤ c.swi ∧ c.dwi0 ≤ c.dwi1 ∧ c.dwi1 ≤ c.dlen := by
      simpa [indexesOK, and_assoc] using hidx
    simp only [hidx, Bool.not_true, Bool.false_eq_true, ↓reduceIte]
    by_cases hint : isInternalError c.status = true
    · simp [hint, Verdict.isViolation]
    · have hint' : isInternalError c.status = false := by simpa using hint
      simp only [hint', Bool.false_eq_true, ↓reduceIte, true_and, hidx', and_self]
      cases hs : c.status with
      | none => simp [isOk, Verdict.isViolation]
      | some bs =>
        simp only [isOk, Bool.false_eq_true, ↓reduceIte, isError, isSuspension, Option.map_some,
          Option.some.injEq, reduceCtorEq, false_or]
        by_cases h1 : first bs = chHash
        · have : first bs ≠ chAt := by rw [h1]; decide
          have h3 : first bs ≠ chDollar := by rw [h1]; decide
          simp [h1, Verdict.isViolation, this, d1, d2, d3, d1', d2', d3']
        · by_cases h2 : first bs = chDollar
          · have h4 : first bs ≠ chAt := by rw [h2]; decide
            simp only [h1, h2, beq_self_eq_true, ↓reduceIte, beq_iff_eq, false_or, h4, false_and, exists_false,
              exists_eq_left', true_and]
            by_cases hsr : bs = shortRead
            · subst hsr
              have : shortRead ≠ shortWrite := shortRead_ne_shortWrite
              cases hc : c.closed <;> simp [Verdict.isViolation, this, d1, d2, d3, d1', d2', d3']
            · by_cases hsw : bs = shortWrite
              · subst hsw
                simp only [hsr, ↓reduceIte, false_imp_iff, true_and, forall_const]
                by_cases hz : zeroProgressAmple c = true
                · have : c.dwi1 = c.dwi0 ∧ c.sri1 = c.sri0 ∧ c.ample ≤ c.dlen - c.dwi0 := by
                    simpa [zeroProgressAmple, and_assoc] using hz
                  simp [hz, Verdict.isViolation, this, hsr, d1, d2, d3, d1', d2', d3']
                · have : ¬ (c.dwi1 = c.dwi0 ∧ c.sri1 = c.sri0 ∧ c.ample ≤ c.dlen - c.dwi0) := by
                    simpa [zeroProgressAmple, and_assoc] using hz
                  simp [hz, Verdict.isViolation, this, hsr, d1, d2, d3, d1', d2', d3']
              · simp [hsr, hsw, Verdict.isViolation, d1, d2, d3, d1', d2', d3']
          · by_cases h3 : first bs = chAt
            · simp [h1, h2, h3, Verdict.isViolation, d1, d2, d3, d1', d2', d3']
            · simp [h1, h2, h3, Verdict.isViolation, d1, d2, d3, d1', d2', d3']
  · have hidx' : ¬ (c.sri0 ≤ c.sri1 ∧ c.sri1 ≤ c.swi ∧ c.dwi0 ≤ c.dwi1 ∧ c.dwi1 ≤ c.dlen) := by
      simpa [indexesOK, and_assoc] using hidx
    simp [hidx, Verdict.isViolation, hidx']

/-- Non-vacuity: a justified short read, and the two unjustified suspensions. -/
example : classify ⟨some shortRead, false, 0, 3, 3, 0, 10, 0, 512⟩ = .shortRead := by decide
example : classify ⟨some shortRead, true, 0, 3, 3, 0, 10, 0, 512⟩ = .vShortReadOnClosed := by decide
example : classify ⟨some shortWrite, false, 1, 3, 1, 5, 600, 5, 512⟩ = .vShortWriteEmptyAmple := by decide
example : classify ⟨some shortWrite, false, 1, 3, 1, 5, 100, 5, 512⟩ = .shortWrite := by decide

end WuffsVerif.Props.C03
