/-
C20 — "the build tool enumerates a package's files in a fixed (sorted) order", for
the whole `wuffs gen` flow and for ALL package trees and enumeration orders, and
"the monolithic release is assembled in a fixed order".

Model: Model/DetBuild.lean (cmd/wuffs: findFiles, genHelper.gen / genDir /
genDirDependencies, genreleaseLang) and Model/DetRelease.lean (cmd/wuffs-c
doGenrelease / genReleaseHelper.gen).  The tie to the real tools is the `genplan`,
`findfiles` and `release` ops of the harness (real `wuffs gen` with a recording
stand-in for wuffs-c; real `wuffs-c genrelease` on synthetic files).
-/
import WuffsVerif.Model.DetBuild
import WuffsVerif.Model.DetRelease
import WuffsVerif.Proof.DetBuild

namespace WuffsVerif.Props.C20
open WuffsVerif.Det List

/-! ## recursive file discovery (main.go findFiles) -/

/-- findFiles returns the same list whatever order each directory of the tree is
enumerated in (and fails for one enumeration iff it fails for the other). -/
theorem findFiles_perm_invariant {fs₁ fs₂ : FS} (h : FSRel fs₁ fs₂) (fuel : Nat) (dir suffix : Name) :
    findFiles fs₁ fuel dir suffix = findFiles fs₂ fuel dir suffix := by
  unfold findFiles
  rw [findFiles1_eq, findFiles1_eq]
  have hr := collect_rel h suffix fuel dir
  cases h1 : collect fs₁ suffix fuel dir <;> cases h2 : collect fs₂ suffix fuel dir <;> rw [h1, h2] at hr <;>
    first
      | rfl
      | exact False.elim hr
      | (simp only [Option.map_some, nil_append, Option.some.injEq]
         exact sortNames_perm_invariant hr)

/-- … and the list is sorted (Go string order). -/
theorem findFiles_sorted (fs : FS) (fuel : Nat) (dir suffix : Name) (l : List Name)
    (h : findFiles fs fuel dir suffix = some l) : l.Pairwise (fun a b => ble a b = true) := by
  unfold findFiles at h
  cases hc : findFiles1 fs suffix fuel [] dir with
  | none => rw [hc] at h; cases h
  | some x =>
    rw [hc] at h
    simp only [Option.map_some, Option.some.injEq] at h
    exact h ▸ sortNames_sorted x

/-- non-vacuity: a two-level tree enumerated in two ways -/
example :
    let fsA : FS := fun p => if p = [114] then some [⟨[98, 46, 99], false⟩, ⟨[100], true⟩, ⟨[97, 46, 99], false⟩]
      else if p = [114, 47, 100] then some [⟨[122, 46, 99], false⟩, ⟨[121, 46, 104], false⟩] else none
    let fsB : FS := fun p => if p = [114] then some [⟨[100], true⟩, ⟨[97, 46, 99], false⟩, ⟨[98, 46, 99], false⟩]
      else if p = [114, 47, 100] then some [⟨[121, 46, 104], false⟩, ⟨[122, 46, 99], false⟩] else none
    findFiles fsA 5 [114] [46, 99] = some [[114, 47, 97, 46, 99], [114, 47, 98, 46, 99], [114, 47, 100, 47, 122, 46, 99]]
    ∧ findFiles fsB 5 [114] [46, 99] = findFiles fsA 5 [114] [46, 99] := by decide

/-! ## the sequence of compiler invocations (gen.go) -/

/-- The build tool sees the file system only through sorted listings: two file
systems that differ in enumeration orders give the same listing function. -/
theorem ldOf_fs_invariant {fs₁ fs₂ : FS} (h : FSRel fs₁ fs₂) : ldOf fs₁ = ldOf fs₂ := by
  funext dir r
  unfold ldOf
  have hd := h dir
  cases h1 : fs₁ dir <;> cases h2 : fs₂ dir <;> rw [h1, h2] at hd <;>
    first
      | rfl
      | exact False.elim hd
      | (simp only [Option.map_some, Option.some.injEq]
         exact listDir_perm dir dotWuffs r hd)

/-- **Build-tool determinism.**  For every package tree, every `use` relation, every
argument list: the ordered list of compiler invocations `wuffs gen` makes, each
with its ordered list of source files, does not depend on the order in which the
OS enumerates any directory — including packages first reached non-recursively
as a dependency of another package. -/
theorem genPlan_fs_invariant {fs₁ fs₂ : FS} (h : FSRel fs₁ fs₂) (usesOf : Name → List Name) (root : Name)
    (fuel : Nat) (args : List (Name × Bool)) :
    genPlan fs₁ usesOf root fuel args = genPlan fs₂ usesOf root fuel args := by
  unfold genPlan
  rw [ldOf_fs_invariant h]

/-- every invocation recorded so far was given a sorted file list -/
def PlanSorted (st : GenSt) : Prop := ∀ e ∈ st.plan, e.2.Pairwise (fun a b => ble a b = true)

theorem genWith_planSorted (ld : Name → Bool → Option (List Name × List Name)) (usesOf : Name → List Name) (root : Name)
    (hld : ∀ dir r files dirs, ld dir r = some (files, dirs) → files.Pairwise (fun a b => ble a b = true)) :
    ∀ (fuel : Nat) (st : GenSt) (dirname : Name) (r : Bool) (st' : GenSt),
      PlanSorted st → genWith ld usesOf root fuel st dirname r = some st' → PlanSorted st'
  | 0, _, _, _, _, _, h => by simp [genWith] at h
  | fuel + 1, st, dirname, r, st', hst, h => by
    have ih := genWith_planSorted ld usesOf root hld fuel
    unfold genWith at h
    simp only at h
    split at h
    · cases h; exact hst
    · split at h
      · cases h
        intro e he
        simp only [mem_append, mem_singleton] at he
        rcases he with he | rfl
        · exact hst e he
        · exact Pairwise.nil
      · split at h
        · cases h
        · rename_i files dirs hl
          -- the state after genDir
          have key : ∀ s1 : GenSt,
              (if files.isEmpty = true then some { st with seen := stripSlashes dirname :: st.seen }
               else
                match (files.flatMap usesOf ++ [baseName]).foldl (fun (acc : Option GenSt) u =>
                  acc.bind (fun s => genWith ld usesOf root fuel s u false))
                    (some { st with seen := stripSlashes dirname :: st.seen }) with
                | none => none
                | some s => some { s with plan := s.plan ++ [(stripSlashes dirname, files)] }) = some s1 →
              PlanSorted s1 := by
            intro s1 hs1
            split at hs1
            · cases hs1; exact hst
            · split at hs1
              · cases hs1
              · rename_i s hs
                cases hs1
                have hs' : PlanSorted s :=
                  foldl_opt_inv PlanSorted (fun s u => genWith ld usesOf root fuel s u false)
                    (fun s x s' hp hx => ih s x false s' hp hx) _
                    { st with seen := stripSlashes dirname :: st.seen } s hst hs
                intro e he
                simp only [mem_append, mem_singleton] at he
                rcases he with he | rfl
                · exact hs' e he
                · exact hld _ _ _ _ hl
          generalize hst1 : (if files.isEmpty = true then some { st with seen := stripSlashes dirname :: st.seen }
               else
                match (files.flatMap usesOf ++ [baseName]).foldl (fun (acc : Option GenSt) u =>
                  acc.bind (fun s => genWith ld usesOf root fuel s u false))
                    (some { st with seen := stripSlashes dirname :: st.seen }) with
                | none => none
                | some s => some { s with plan := s.plan ++ [(stripSlashes dirname, files)] }) = st1 at h key
          cases st1 with
          | none => rw [foldl_opt_none] at h; cases h
          | some s1 =>
            exact foldl_opt_inv PlanSorted (fun s d => genWith ld usesOf root fuel s (stripSlashes dirname ++ [47] ++ d) r)
              (fun s x s' hp hx => ih s _ r s' hp hx) dirs s1 st' (key s1 rfl) h

/-- **Sorted file lists.**  Every compiler invocation `wuffs gen` makes — for any tree,
enumeration order, arguments and dependency structure — is given its package's
source files in sorted order. -/
theorem genPlan_files_sorted (fs : FS) (usesOf : Name → List Name) (root : Name) (fuel : Nat)
    (args : List (Name × Bool)) (plan : List (Name × List Name)) (h : genPlan fs usesOf root fuel args = some plan) :
    ∀ e ∈ plan, e.2.Pairwise (fun a b => ble a b = true) := by
  unfold genPlan at h
  cases hf : args.foldl (fun (acc : Option GenSt) a =>
      acc.bind (fun s => genWith (ldOf fs) usesOf root fuel s a.1 a.2)) (some ⟨[], []⟩) with
  | none => rw [hf] at h; cases h
  | some st =>
    rw [hf] at h
    simp only [Option.map_some, Option.some.injEq] at h
    subst h
    have hld : ∀ dir r files dirs, ldOf fs dir r = some (files, dirs) → files.Pairwise (fun a b => ble a b = true) := by
      intro dir r files dirs hl
      unfold ldOf at hl
      cases hd : fs dir with
      | none => rw [hd] at hl; cases hl
      | some infos =>
        rw [hd] at hl
        simp only [Option.map_some, Option.some.injEq] at hl
        have := sortNames_sorted (appendDir [] dir dotWuffs r infos).1
        unfold listDir at hl
        simp only [Prod.mk.injEq] at hl
        exact hl.1 ▸ this
    exact foldl_opt_inv PlanSorted (fun s (a : Name × Bool) => genWith (ldOf fs) usesOf root fuel s a.1 a.2)
      (fun s x s' hp hx => genWith_planSorted (ldOf fs) usesOf root hld fuel s x.1 x.2 s' hp hx)
      args ⟨[], []⟩ st (fun e he => by simp at he) hf

/-- non-vacuity: std/b uses std/c; std/c is therefore compiled first (reached
non-recursively), with its two files in sorted order although enumerated unsorted;
base is generated before the first package; the later recursive visit skips std/c. -/
example :
    let s : Name := [115]        -- "s"  (stands for std)
    let fs : FS := fun p =>
      if p = [114, 47, 115] then some [⟨[99], true⟩, ⟨[98], true⟩]                       -- r/s: c, b
      else if p = [114, 47, 115, 47, 98] then some [⟨[120] ++ dotWuffs, false⟩]           -- r/s/b: x.wuffs
      else if p = [114, 47, 115, 47, 99] then some [⟨[122] ++ dotWuffs, false⟩, ⟨[121] ++ dotWuffs, false⟩]
      else none
    let usesOf : Name → List Name := fun f => if f = [114, 47, 115, 47, 98, 47, 120] ++ dotWuffs then [[115, 47, 99]] else []
    genPlan fs usesOf [114] 6 [(baseName, false), (s, true)]
      = some [(baseName, []),
              ([115, 47, 99], [[114, 47, 115, 47, 99, 47, 121] ++ dotWuffs, [114, 47, 115, 47, 99, 47, 122] ++ dotWuffs]),
              ([115, 47, 98], [[114, 47, 115, 47, 98, 47, 120] ++ dotWuffs])] := by decide

/-! ## the release file list and the order of assembly -/

/-- The file list handed to `wuffs-c genrelease` does not depend on how gen/c is enumerated. -/
theorem releaseArgs_perm_invariant {fs₁ fs₂ : FS} (h : FSRel fs₁ fs₂) (fuel : Nat) (root : Name) :
    releaseArgs fs₁ fuel root = releaseArgs fs₂ fuel root :=
  findFiles_perm_invariant h fuel _ _

/-- **Build + release list determinism**, composed: same invocations, same release list. -/
theorem build_deterministic {fs₁ fs₂ : FS} (h : FSRel fs₁ fs₂) (usesOf : Name → List Name) (root : Name)
    (fuel : Nat) (args : List (Name × Bool)) :
    genPlan fs₁ usesOf root fuel args = genPlan fs₂ usesOf root fuel args ∧
    releaseArgs fs₁ fuel root = releaseArgs fs₂ fuel root :=
  ⟨genPlan_fs_invariant h usesOf root fuel args, releaseArgs_perm_invariant h fuel root⟩

/-- **Release assembly.**  The order in which `wuffs-c genrelease` pastes the
per-package files does not depend on the order of its arguments (filesMap and
seen are read through lookups only; the work list is sorted). -/
theorem assemble_perm_invariant {a₁ a₂ : List CFile} (h : a₁ ~ a₂) : assemble a₁ = assemble a₂ := by
  unfold assemble
  have hc : (a₁.map (·.rel)).contains wuffsBaseC = (a₂.map (·.rel)).contains wuffsBaseC := by
    rw [Bool.eq_iff_iff]
    simp only [contains_iff_mem]
    exact (h.map _).mem_iff
  have he : relEntries a₁ ~ relEntries a₂ := (h.filter _).map _
  have hn : ((relEntries a₁).map (·.1)).Nodup ↔ ((relEntries a₂).map (·.1)).Nodup := Perm.nodup_iff (he.map _)
  rw [hc]
  cases hb : (a₂.map (·.rel)).contains wuffsBaseC
  · simp only [Bool.not_false, ↓reduceIte]
  · simp only [Bool.not_true, Bool.false_eq_true, ↓reduceIte]
    by_cases hn1 : ((relEntries a₁).map (·.1)).Nodup
    · have hn2 := hn.mp hn1
      simp only [hn1, hn2, decide_true, Bool.not_true, Bool.false_eq_true, ↓reduceIte]
      rw [sortNames_perm_invariant (he.map _)]
      have hl : (fun k => List.lookup k (relEntries a₁)) = (fun k => List.lookup k (relEntries a₂)) :=
        funext fun k => lookup_perm_invariant' hn1 he k
      rw [hl]
    · have hn2 : ¬ ((relEntries a₂).map (·.1)).Nodup := fun h2 => hn1 (hn.mpr h2)
      simp only [hn1, hn2, decide_false, Bool.not_false, ↓reduceIte]

/-- non-vacuity: b.c includes a.c and base, a.c includes base; arguments in two orders,
one result (base first, then a, then b); a missing include target, a duplicate and a
cycle of includes are errors -/
example :
    assemble [⟨[98, 46, 99], [[46, 47, 97, 46, 99], [46, 47] ++ wuffsBaseC]⟩, ⟨wuffsBaseC, []⟩, ⟨[97, 46, 99], [[46, 47] ++ wuffsBaseC]⟩]
      = some [wuffsBaseC, [97, 46, 99], [98, 46, 99]] := by decide
example :
    assemble [⟨[97, 46, 99], [[46, 47] ++ wuffsBaseC]⟩, ⟨[98, 46, 99], [[46, 47, 97, 46, 99], [46, 47] ++ wuffsBaseC]⟩, ⟨wuffsBaseC, []⟩]
      = some [wuffsBaseC, [97, 46, 99], [98, 46, 99]] := by decide
example : assemble [⟨wuffsBaseC, [[120, 46, 99]]⟩] = none := by decide
example : assemble [⟨wuffsBaseC, []⟩, ⟨wuffsBaseC, []⟩] = none := by decide

end WuffsVerif.Props.C20
