/-
C02 (axioms half) — "each named axiom it offers is a valid theorem over the integers".

The axioms are REGENERATED on every run from /repo/lang/check/axioms.md and
/repo/lang/check/data.go (`harness/cmd/c02 -mode gen`): `Gen/C02_Axioms.lean`
holds one `omega` theorem per listed axiom (`ax_i_…`) and one per rule that a
generated reason function of data.go really applies (`impl_i_…`, read back from
the function body, following Go's shadowing semantics).  An axiom that is not
a theorem of linear integer arithmetic makes this module fail to build.

The FACTS half of C02 (`facts_hold`: every fact the checker carries is true at
run time) is checked under C01's machinery, not here.
-/
import WuffsVerif.Model.Axioms
import WuffsVerif.Gen.C02_AxiomDefs
import WuffsVerif.Gen.C02_Axioms

namespace WuffsVerif.Props.C02
open WuffsVerif.Axioms

/-- Every axiom listed in axioms.md is valid: for all integer assignments,
requirements imply claim. -/
theorem all_axioms_valid : ∀ ax ∈ Gen.C02.axioms, ax.Valid := Gen.C02.all_ax_valid

/-- Every rule that data.go's generated reason functions apply (what the
checker really does, read back from the code) is valid. -/
theorem all_implemented_axioms_valid : ∀ ax ∈ Gen.C02.implAxioms, ax.Valid := Gen.C02.all_impl_valid

/-- obligation: the listing is exactly what is compiled in (names). -/
theorem axioms_eq_data : Gen.C02.axiomsMd = Gen.C02.dataGo := by decide

/-- obligation: each reason function implements the rule it is named after. -/
theorem data_bodies_eq_names : Gen.C02.dataGoBodies = Gen.C02.dataGo := by decide

/-- obligation: the Lean-side data are the same rules (listed vs implemented). -/
theorem impl_eq_listed : Gen.C02.implAxioms = Gen.C02.axioms := by decide

/-- A valid axiom never evaluates to `violated`, whatever the instantiation:
the executable evaluator of the driver is sound w.r.t. `Axiom.Valid`. -/
theorem check_ne_violated (ax : Axiom) (h : ax.Valid) (vals : List Int) :
    ax.check vals ≠ .violated := by
  unfold Axiom.check
  split
  · rename_i hall
    have hc : ax.claim.Holds (envOf vals) := by
      apply h
      intro r hr
      have := List.all_eq_true.mp hall r hr
      exact of_decide_eq_true this
    simp [hc]
  · simp

/-- …and conversely an axiom with a violating instantiation is not valid (so a
`VIOLATED` line of the driver is a genuine counter-example). -/
theorem not_valid_of_violated (ax : Axiom) (vals : List Int) (h : ax.check vals = .violated) :
    ¬ ax.Valid := fun hv => check_ne_violated ax hv vals h

/-- Non-vacuity / sensitivity: the invalid rule that the unrepaired generator
compiled for `"a <= (a + b): 0 <= b"` (first `a` unconstrained: `az1 <= (a + b)`)
is refuted by a concrete instantiation. -/
theorem rebound_claim_var_witness :
    ¬ Axiom.Valid ⟨⟨.le, .var 1, .add (.var 0) (.var 2)⟩, [⟨.le, .const 0, .var 2⟩]⟩ :=
  not_valid_of_violated _ [0, 1, 0] (by decide)

/-- No listed axiom can be reported `VIOLATED` by the model on any input. -/
theorem listed_never_violated (i : Nat) (hi : i < Gen.C02.axioms.length) (vals : List Int) :
    (Gen.C02.axioms[i]).check vals ≠ .violated :=
  check_ne_violated _ (all_axioms_valid _ (List.getElem_mem hi)) vals

/-- The Lean model of gen.go's parser reads each listed string back to the generated data. -/
theorem parse_listed :
    Gen.C02.axiomsMd.map (fun s => (parseAxiom s.toList).map (·.1)) = Gen.C02.axioms.map some := by
  decide +kernel

end WuffsVerif.Props.C02
