/-
C14 — the manager/worker protocol of the concurrent RAC reader (lib/rac/conc_reader.go,
with fixes/C14-conc-stale-work.patch) as a transition system (Model/Rac/Conc.lean), for an
ARBITRARY number of workers: safety invariants of every reachable state, and the part of
deadlock freedom that concerns the cancel / close handshake.

`Reach n s` = `s` is reachable from the initial state with `n` workers by some finite
sequence of protocol steps (any interleaving, any sequence of Read / Seek+Read / Close calls).
-/
import WuffsVerif.Proof.RacConcStep3

set_option linter.unusedVariables false
set_option linter.unusedSimpArgs false

namespace WuffsVerif.Props.C14
open WuffsVerif.Rac.Conc

/-- reachable states of the repaired protocol with `n` workers -/
def Reach (n : Nat) (s : St) : Prop := ∃ ls : List Label, exec (St.init n) ls = some s

theorem reach_inv {n : Nat} {s : St} (h : Reach n s) : CInv s := by
  obtain ⟨ls, hls⟩ := h
  exact exec_inv ls _ _ (CInv.init n) hls

/-- **Buffers are conserved.** In every reachable state, for every worker `i`: its two buffers
    are, each, in exactly one of: still unallocated, its `buffers` array, its hand (`outWork`),
    `resc`, `completedWorks`, `currWork`, its `recyclec` — never duplicated (no two owners of
    one buffer: the model-level form of "no data race on a buffer"), never lost.  Consequently
    `recyclec` (capacity 2) never overflows: the sends in `rWork.recycle` cannot block, and when
    `main` holds a buffer of worker `i` there is room for it. -/
theorem conc_buffers_conserved {n : Nat} {s : St} (h : Reach n s) (i : Nat) (w : W) (hi : s.ws[i]? = some w) :
    w.held + w.canAlloc + w.recyc + outIs w.out + countOwner i s.resc + countOwner i s.completed
      + ownerIs i s.curr = 2 ∧
    w.recyc ≤ 2 ∧ (ownerIs i s.curr = 1 → w.recyc < 2) := by
  have := (reach_inv h).buf i w hi
  refine ⟨this, by omega, by intro h1; omega⟩

/-- **No stale work after a cancel.** Every work item that exists anywhere in a reachable state —
    in `reqc`, `resc`, `completedWorks`, `currWork`, in the Manager's or a Worker's hand — was
    made for the *current* region of interest (its epoch is the current epoch), and so was every
    range a Worker is still reading.  In particular nothing that `main` receives from `resc`
    after `stopAnyWorkInProgress(true)` belongs to an earlier region.  (False for the original
    code: `deadlock_witness_unrepaired`.) -/
theorem conc_no_stale_after_cancel {n : Nat} {s : St} (h : Reach n s) :
    (∀ it ∈ s.items, it.epoch = s.epoch) ∧
    (∀ (i : Nat) (w : W), s.ws[i]? = some w → ∀ e, w.dr = some e → e = s.epoch) ∧
    (∀ e, s.mgr.roi = some e → e = s.epoch) := by
  have I := reach_inv h
  refine ⟨?_, fun i w hi => (I.ep_w i w hi).2, I.ep_mroi⟩
  intro it hit
  simp only [St.items, List.mem_append, List.mem_flatMap, Option.mem_toList] at hit
  rcases hit with ((((h1 | h1) | h1) | h1) | h1) | ⟨w, hw, h1⟩
  · exact I.ep_reqc it h1
  · exact I.ep_resc it h1
  · exact I.ep_comp it h1
  · exact I.ep_curr it h1
  · exact I.ep_mwork it h1
  · obtain ⟨i, hi⟩ := List.getElem?_of_mem hw
    exact ((I.ep_w i w hi).1 it h1).1

/-- what `main` takes out of `resc` is for the current region of interest -/
theorem conc_delivered_is_current {n : Nat} {s s' : St} (h : Reach n s) (hs : step s .recvRes = some s') :
    ∀ it, s.resc.head? = some it → it.epoch = s.epoch := by
  intro it hit
  have I := reach_inv h
  cases hr : s.resc with
  | nil => rw [hr] at hit; cases hit
  | cons x xs =>
    rw [hr] at hit; simp only [List.head?_cons, Option.some.injEq] at hit; subst hit
    exact I.ep_resc x (by rw [hr]; simp)

/-- **Close joins.** When `Close` has returned (`main = closed`), the Manager and every Worker
    have returned from their goroutine functions. -/
theorem conc_close_joins {n : Nat} {s : St} (h : Reach n s) (hc : s.main = .closed) :
    s.mgr.pc = .done ∧ ∀ (i : Nat) (w : W), s.ws[i]? = some w → w.pc = .done := by
  have := (reach_inv h).phase
  simp only [PhaseInv, hc] at this
  exact this

/-- goroutines only end through Close: before that all of them are alive -/
theorem conc_alive_until_close {n : Nat} {s : St} (h : Reach n s)
    (hm : s.main = .idle ∨ s.main = .reading ∨ s.main = .sendRoi) :
    s.mgr.pc = .run ∧ ∀ (i : Nat) (w : W), s.ws[i]? = some w → w.pc = .run := by
  have := (reach_inv h).phase
  rcases hm with hm | hm | hm <;> simp only [PhaseInv, hm] at this
  · exact this
  · exact this
  · exact ⟨this.1, this.2.1⟩

theorem exists_not_stopped : ∀ (ws : List W), ws.countP (fun w => w.pc.isStopped) < ws.length →
    ∃ (i : Nat) (w : W), ws[i]? = some w ∧ w.pc.isStopped = false
  | [], h => by simp at h
  | x :: xs, h => by
    simp only [List.countP_cons, List.length_cons] at h
    cases hx : x.pc.isStopped with
    | false => exact ⟨0, x, rfl, hx⟩
    | true =>
      rw [hx] at h
      simp only [↓reduceIte] at h
      obtain ⟨i, w, hi, hw⟩ := exists_not_stopped xs (by omega)
      exact ⟨i + 1, w, by simpa using hi, hw⟩

theorem exists_stopped {ws : List W} (h : 0 < ws.countP (fun w => w.pc.isStopped)) :
    ∃ (i : Nat) (w : W), ws[i]? = some w ∧ w.pc.isStopped = true := by
  rw [List.countP_pos_iff] at h
  obtain ⟨a, ha, hp⟩ := h
  obtain ⟨i, hi⟩ := List.getElem?_of_mem ha
  exact ⟨i, a, hi, hp⟩

/-- **Deadlock freedom, handshake part.** In every reachable state in which `main` is inside
    `stopAnyWorkInProgress` (cancel or close: sending stops, recycling, sending acks) or is
    about to hand the new region of interest to the Manager, some step is enabled: a stop is
    always received (every running process selects on `stopc`), an ack is always received, and
    the Manager is listening on `roic` when `main` sends.  Together with `conc_buffers_conserved`
    (recycling never blocks) this covers everything a cancel or a Close waits for.

    NOT covered (the full `conc_no_deadlock` remains open): progress of a Read that waits in
    `nextWork` for the unit of work at `pos`.  That needs the data-level argument that the worker
    holding the lowest outstanding range can always obtain one of its two buffers, which this
    model (ranges abstracted to epochs) cannot express. -/
theorem conc_no_deadlock_partial {n : Nat} {s : St} (h : Reach n s)
    (hm : (∃ k keep, s.main = .stopping k keep) ∨ (∃ k keep, s.main = .acking k keep) ∨ s.main = .sendRoi) :
    ∃ l s', step s l = some s' := by
  have I := reach_inv h
  have ph := I.phase
  rcases hm with ⟨k, keep, hm⟩ | ⟨k, keep, hm⟩ | hm
  · simp only [PhaseInv, hm] at ph
    obtain ⟨p1, p2, p3, p4, p5⟩ := ph
    by_cases hk : k = s.ws.length + 1
    · refine ⟨.recycle, ?_⟩
      simp only [step, hm, hk, ↓reduceIte]
      cases keep <;> simp
    · have hklt : k < s.ws.length + 1 := by omega
      rcases p4 with hrun | hst
      · exact ⟨.stopMgr, _, by simp only [step, hm, hklt, hrun, and_self, ↓reduceIte]; rfl⟩
      · have : s.ws.countP (fun w => w.pc.isStopped) < s.ws.length := by
          simp only [stoppedCount, hst, isStopped_stopped, ↓reduceIte] at p2
          omega
        obtain ⟨i, w, hi, hns⟩ := exists_not_stopped _ this
        have hrun : w.pc = .run := by
          rcases p5 i w hi with h | h
          · exact h
          · rw [h, isStopped_stopped] at hns; cases hns
        exact ⟨.stopW i, _, by simp only [step, hm, hi, hklt, hrun, and_self, ↓reduceIte]; rfl⟩
  · simp only [PhaseInv, hm] at ph
    obtain ⟨p1, p2, p3, p4⟩ := ph
    by_cases hk : k = s.ws.length + 1
    · refine ⟨.ackDone, ?_⟩
      simp only [step, hm, hk, ↓reduceIte]
      cases keep <;> simp
    · have hklt : k < s.ws.length + 1 := by omega
      cases hmp : s.mgr.pc with
      | stopped kp => exact ⟨.ackMgr, _, by simp only [step, hm, hmp, hklt, ↓reduceIte]; rfl⟩
      | run =>
        have : 0 < s.ws.countP (fun w => w.pc.isStopped) := by
          simp only [stoppedCount, hmp, isStopped_run, Bool.false_eq_true, ↓reduceIte] at p2
          omega
        obtain ⟨i, w, hi, hst⟩ := exists_stopped this
        cases hwp : w.pc with
        | stopped kp => exact ⟨.ackW i, _, by simp only [step, hm, hi, hwp, hklt, ↓reduceIte]; rfl⟩
        | run => rw [hwp, isStopped_run] at hst; cases hst
        | done => rw [hwp, isStopped_done] at hst; cases hst
      | done =>
        have : 0 < s.ws.countP (fun w => w.pc.isStopped) := by
          simp only [stoppedCount, hmp, isStopped_done, Bool.false_eq_true, ↓reduceIte] at p2
          omega
        obtain ⟨i, w, hi, hst⟩ := exists_stopped this
        cases hwp : w.pc with
        | stopped kp => exact ⟨.ackW i, _, by simp only [step, hm, hi, hwp, hklt, ↓reduceIte]; rfl⟩
        | run => rw [hwp, isStopped_run] at hst; cases hst
        | done => rw [hwp, isStopped_done] at hst; cases hst
  · simp only [PhaseInv, hm] at ph
    obtain ⟨p1, p2, p3, p4⟩ := ph
    exact ⟨.roi, _, by simp only [step, hm, p1, p3.1.1, and_self, ↓reduceIte]; rfl⟩

/-! ### the original code (no reset on an acknowledged cancel) -/

/-- "read, seek, read" on the ORIGINAL code with one worker: the events up to the second Read's
    `c.roic <- …` -/
def unrepairedTrace : List Label :=
  [.firstRead, .roi, .mgrMake true, .mgrSend, .wRecv 0, .mgrMake true, .mgrSend, .mgrMake true,
   .wMake 0 false, .wSend 0, .wMake 0 false, .wSend 0, .readDone,
   -- Seek, then Read: stopAnyWorkInProgress(true)
   .cancel, .stopMgr, .stopW 0, .recycle, .ackMgr, .ackW 0, .ackDone,
   -- the Manager and the Worker resume where they were: stale request, stale results
   .mgrSend, .mgrMake true, .wRecycle 0, .wRecycle 0, .wMake 0 false, .wSend 0, .wMake 0 false, .wSend 0]

/-- **The observed deadlock, in the model of the original code.** After the cancel has been
    acknowledged, `main` waits to send the new region of interest, the Manager (still serving
    the old region, not listening on `roic`) waits to send a stale request into the full `reqc`,
    and the Worker (still reading its old range) has both buffers tied up in stale results in
    `resc` that nobody will read: no step is enabled. -/
def unrepairedEnd : St := (exec (St.init 1 false) unrepairedTrace).getD (St.init 0)

theorem deadlock_witness_unrepaired :
    exec (St.init 1 false) unrepairedTrace = some unrepairedEnd ∧
    unrepairedEnd.main = .sendRoi ∧ unrepairedEnd.epoch = 1 ∧
    (∃ it ∈ unrepairedEnd.resc, it.epoch = 0) ∧ ∀ l, step unrepairedEnd l = none := by
  refine ⟨by decide, by decide, by decide, by decide, ?_⟩
  intro l
  cases l with
  | stopW i => cases i <;> rfl
  | ackW i => cases i <;> rfl
  | wRecv i => cases i with
    | zero => rfl
    | succ j => cases j <;> rfl
  | wMake i b => cases i with
    | zero => cases b <;> rfl
    | succ j => rfl
  | wSend i => cases i <;> rfl
  | wRecycle i => cases i <;> rfl
  | take j => cases j <;> rfl
  | mgrMake b => cases b <;> rfl
  | _ => rfl

/-- the same calls on the repaired code: the handshake ends with everybody idle, and `roi` is enabled -/
example : (exec (St.init 1 true)
    (unrepairedTrace.take 20 ++ [.roi, .mgrMake true, .mgrSend, .wRecycle 0, .wRecv 0, .wMake 0 true, .wSend 0,
      .recvRes, .take 0, .recycleCurr, .readDone, .close, .stopW 0, .stopMgr, .recycle, .ackW 0, .ackMgr, .ackDone])).map
    (fun s => s.main) = some .closed := by
  decide

end WuffsVerif.Props.C14
