/-
C08 — the protocol half of the property as ONE statement over all call histories.

`Mon` is the property's own monitor: it reads a history the way a client of the object can — which
call was made with which arguments and which status came back — and says, clause by clause, what the
property demands of the next answer (`demands`) and how the answer changes what it knows
(`advance`). It never looks at the object. It is the same monitor as the harness's Go oracle
(`protoState.onCall` / `onInit` in harness/cmd/c08/main.go), which is evaluated on the compiled
objects.

`protocol_conforms`: for every struct description, every starting memory in which `initialize`
has not succeeded, and every finite history of `initialize` / method calls (any receivers, any
arguments, any bodies of the shapes generated code can have), every answer of
`ObjProto.step` satisfies the monitor's demands.
-/
import WuffsVerif.Model.ObjProto
import WuffsVerif.Props.C08

namespace WuffsVerif.Props.C08Hist
open WuffsVerif.ObjProto WuffsVerif.Props.C08

/-- What a client knows after a history, from the statuses alone. -/
structure Mon where
  /-- an `initialize` returned ok -/
  inited : Bool
  /-- since then a coroutine call returned an error -/
  poisoned : Bool
  /-- id of the coroutine whose last answer was a suspension (0: none) -/
  suspended : Nat
  deriving DecidableEq, Repr, Inhabited

def Mon.start : Mon := ⟨false, false, 0⟩

/-- The version test of `initialize`, as a predicate on the argument. -/
def versionBad (d : StructDesc) (v : Nat) : Prop :=
  (v >>> 32) ≠ d.verMajor ∨ ((v >>> 16) &&& 0xFFFF) > d.verMinor

/-- What the property demands of the answer to one status-returning method call on a non-null
receiver. -/
def demandsMeth (mon : Mon) (m : Method) (args : List ArgVal) (r : Ret) : Prop :=
  if mon.inited = false then r = .st (.err .initializeNotCalled)
  else if mon.poisoned = true then (m.effect ≠ .pure → r = .st (.err .disabledByPreviousError))
  else
    m.effect = .coroutine →
      -- a different coroutine while one is suspended: rejected (bad arguments are checked first;
      -- the object may already be disabled by a failed non-coroutine call)
      ((mon.suspended ≠ 0 ∧ mon.suspended ≠ m.coroID) →
        (r = .st (.err .interleavedCoroutineCalls) ∨ r = .st (.err .disabledByPreviousError) ∨
          (argsBad m.args args = true ∧ r = .st (.err .badArgument)))) ∧
      -- a bad argument is never accepted
      (argsBad m.args args = true →
        (r = .st (.err .badArgument) ∨ r = .st (.err .disabledByPreviousError)))

/-- The clauses of the property for one call. -/
def demands (d : StructDesc) (mon : Mon) : Call → Ret → Prop
  | .init sn sz v _, r =>
    (sn = true → r = .st (.err .badReceiver)) ∧
    (sn = false → sz ≠ d.sizeofSelf → r = .st (.err .badSizeofReceiver)) ∧
    (sn = false → sz = d.sizeofSelf → versionBad d v → r = .st (.err .badWuffsVersion))
  | .meth idx sn args _, r =>
    match d.methods[idx]? with
    | none => True
    | some m =>
      m.returnsStatus = true →
        if sn = true then r = .st (.err .badReceiver) else demandsMeth mon m args r

/-- What the client learns from the answer. -/
def advanceMeth (mon : Mon) (m : Method) (r : Ret) : Mon :=
  if mon.inited = false ∨ mon.poisoned = true ∨ m.effect ≠ .coroutine then mon
  else match r with
    | .st (.err _) => { mon with poisoned := true, suspended := 0 }
    | .st (.susp _) => { mon with suspended := m.coroID }
    | _ => { mon with suspended := 0 }

def advance (d : StructDesc) (mon : Mon) : Call → Ret → Mon
  | .init .., r => if r = .st .ok then ⟨true, false, 0⟩ else mon
  | .meth idx sn _ _, r =>
    match d.methods[idx]? with
    | none => mon
    | some m => if sn = true then mon else advanceMeth mon m r

/-- A whole trace is accepted by the monitor. -/
def Accepts (d : StructDesc) : Mon → List (Call × Ret) → Prop
  | _, [] => True
  | mon, (c, r) :: t => demands d mon c r ∧ Accepts d (advance d mon c r) t

/-- The bodies of a history have the shapes generated code can have (`BodyRes.wf`), and a coroutine
without suspension points does not produce a suspension (it has no `suspend:` label). -/
def Call.wfIn (d : StructDesc) : Call → Prop
  | .init .. => True
  | .meth idx _ _ b =>
    match d.methods[idx]? with
    | none => True
    | some m => b.wf ∧ (m.suspPoints = false → b.st.isSuspension = false)

/-- How the monitor's knowledge relates to the object. -/
structure Rel (mon : Mon) (o : Obj) : Prop where
  uninit : mon.inited = false → Uninit o ∧ (o.magic = 0 → o.active = 0)
  inited : mon.inited = true → (o.magic = MAGIC ∨ o.magic = DISABLED)
  poisoned : mon.inited = true → mon.poisoned = true → o.magic = DISABLED
  active : mon.inited = true → o.magic = MAGIC → o.active = mon.suspended

/-! ### what one method call does to `magic` and `active` -/

theorem epilogue_active (o : Obj) (s : Status) : (epilogue o s).active = o.active := by
  unfold epilogue; split <;> rfl

theorem epilogue_magic (o : Obj) (s : Status) :
    (epilogue o s).magic = if s.isError then DISABLED else o.magic := by
  unfold epilogue; split <;> rfl

theorem afterBody_magic (m : Method) (o : Obj) (b : BodyRes) : (afterBody m o b).magic = o.magic := by
  unfold afterBody
  split
  · rfl
  · cases b.path <;> simp [Obj.setSusp]

/-- A call with a NULL receiver touches nothing and, for status-returning methods, answers
`#bad receiver`. -/
theorem callMethod_null (m : Method) (o : Obj) (args : List ArgVal) (b : BodyRes) :
    (callMethod m o true args b).1 = o ∧
    (m.returnsStatus = true → (callMethod m o true args b).2 = .st (.err .badReceiver)) := by
  cases hsk : m.skipsPrologue
  · rw [callMethod_checked _ _ _ _ _ hsk]
    unfold callMethodChecked nullSelfRet
    refine ⟨by simp, ?_⟩
    intro hr; simp [hr]
  · refine ⟨by simp [callMethod, hsk], ?_⟩
    intro hr
    rw [skips_false_of_returnsStatus m hr] at hsk
    exact absurd hsk (by simp)

/-- A method that is not a coroutine never writes `active_coroutine`, and the only thing it can do to
the magic word is set it to DISABLED. -/
theorem callMethod_noncoro (m : Method) (hm : m.effect ≠ .coroutine) (o : Obj) (sn : Bool)
    (args : List ArgVal) (b : BodyRes) :
    (callMethod m o sn args b).1.active = o.active ∧
    ((callMethod m o sn args b).1.magic = o.magic ∨ (callMethod m o sn args b).1.magic = DISABLED) := by
  have hc : (m.effect == Effect.coroutine) = false := by simpa using hm
  unfold callMethod
  split
  · exact ⟨rfl, Or.inl rfl⟩
  · unfold callMethodChecked
    split
    · exact ⟨rfl, Or.inl rfl⟩
    · split
      · exact ⟨rfl, Or.inl rfl⟩
      · split
        · split
          · exact ⟨rfl, Or.inl rfl⟩
          · exact ⟨rfl, Or.inr rfl⟩
        · simp only [hc, Bool.false_eq_true, ↓reduceIte]
          split
          · refine ⟨epilogue_active _ _, ?_⟩
            rw [epilogue_magic]; split
            · exact Or.inr rfl
            · exact Or.inl rfl
          · exact ⟨rfl, Or.inl rfl⟩

/-- A coroutine call on an enabled object: the three ways it can go. -/
theorem callMethod_coro (m : Method) (hm : m.effect = .coroutine) (o : Obj) (hmagic : o.magic = MAGIC)
    (args : List ArgVal) (b : BodyRes) (hwf : b.wf)
    (hsp : m.suspPoints = false → b.st.isSuspension = false) :
    let r := callMethod m o false args b
    (argsBad m.args args = true → r.2 = .st (.err .badArgument) ∧ r.1.magic = DISABLED) ∧
    (argsBad m.args args = false → o.active ≠ 0 → o.active ≠ m.coroID →
      r.2 = .st (.err .interleavedCoroutineCalls) ∧ r.1.magic = DISABLED) ∧
    (argsBad m.args args = false → (o.active = 0 ∨ o.active = m.coroID) →
      r.2 = .st b.st ∧ r.1.active = (if b.st.isSuspension then m.coroID else 0) ∧
      r.1.magic = (if b.st.isError then DISABLED else MAGIC)) := by
  have hsk := skips_false_of_coroutine m hm
  have hb : magicBad m o = false := by simp [magicBad, hm, hmagic]
  have hnp : m.effect ≠ .pure := by rw [hm]; simp
  have hrs : m.returnsStatus = true := by simp [Method.returnsStatus, hm]
  refine ⟨?_, ?_, ?_⟩
  · intro hbad
    have := bad_argument_disables m hsk hnp o hb args hbad b
    simp [this, hrs]
  · intro hgood ha hne
    have := interleave m hm o hmagic ha hne args hgood b
    simp [this]
  · intro hgood hact
    have h1 := active_iff_suspension m hm o hmagic hact args hgood b hwf hsp
    refine ⟨h1.1, h1.2, ?_⟩
    have hni : ¬(o.active ≠ 0 ∧ o.active ≠ m.coroID) := by
      rcases hact with h | h <;> simp [h]
    rw [callMethod_checked _ _ _ _ _ hsk]
    unfold callMethodChecked
    simp only [Bool.false_eq_true, ↓reduceIte, hb, hgood, hm, beq_self_eq_true, hni]
    rw [epilogue_magic, afterBody_magic]
    simp [hmagic]

/-! ### one step of a history keeps the monitor and the object in step -/

theorem MAGIC_ne_DISABLED : MAGIC ≠ DISABLED := by decide
theorem MAGIC_ne_zero : MAGIC ≠ 0 := by decide
theorem DISABLED_ne_zero : DISABLED ≠ 0 := by decide

theorem step_init (d : StructDesc) (mon : Mon) (o : Obj) (sn : Bool) (sz v op : Nat)
    (hrel : Rel mon o) :
    demands d mon (.init sn sz v op) (step d o (.init sn sz v op)).2 ∧
    Rel (advance d mon (.init sn sz v op) (step d o (.init sn sz v op)).2)
      (step d o (.init sn sz v op)).1 := by
  simp only [step, demands, advance]
  constructor
  · refine ⟨?_, ?_, ?_⟩
    · intro h; subst h; simp [initObj]
    · intro h hsz; subst h; rw [init_rejects_sizeof d o sz v op hsz]
    · intro h hsz hv; subst h; subst hsz
      rw [init_rejects_version d o v op hv]
  · by_cases hok : (initObj d o sn sz v op).2 = .ok
    · have hfresh := init_ok_fresh d o sn sz v op hok
      simp only [hok, ↓reduceIte]
      refine ⟨by simp, fun _ => Or.inl hfresh.1, by simp, ?_⟩
      intro _ _
      by_cases haz : op &&& ALREADY_ZEROED = 0
      · exact (hfresh.2 haz).1
      · -- ALREADY_ZEROED accepted: the magic word was 0, so the memory was never initialised and
        -- (by the caller's claim, `Rel.uninit`) `active_coroutine` is 0; only `magic` is written
        have hsh : (initObj d o sn sz v op).1 = { o with magic := MAGIC } ∧ o.magic = 0 := by
          unfold initObj at hok ⊢
          by_cases h1 : sn = true
          · simp [h1] at hok
          · by_cases h2 : d.sizeofSelf ≠ sz
            · simp [h1, h2] at hok
            · by_cases h3 : (v >>> 32) ≠ d.verMajor ∨ ((v >>> 16) &&& 0xFFFF) > d.verMinor
              · simp [h1, h2, h3] at hok
              · by_cases h4 : o.magic ≠ 0
                · simp [h1, h2, h3, haz, h4] at hok
                · have h4' : o.magic = 0 := by simpa using h4
                  simp [h1, h2, h3, haz, h4']
        rw [hsh.1]
        show o.active = 0
        cases hi : mon.inited
        · exact (hrel.uninit hi).2 hsh.2
        · rcases hrel.inited hi with h | h
          · rw [hsh.2] at h; exact absurd h.symm MAGIC_ne_zero
          · rw [hsh.2] at h; exact absurd h.symm DISABLED_ne_zero
    · have hne : ¬((Ret.st (initObj d o sn sz v op).2) = .st .ok) := by
        intro h; apply hok; simpa using h
      rw [init_fail_unchanged d o sn sz v op hok]
      simp only [hne, ↓reduceIte]
      exact hrel

theorem step_meth (d : StructDesc) (mon : Mon) (o : Obj) (idx : Nat) (sn : Bool)
    (args : List ArgVal) (b : BodyRes) (hrel : Rel mon o) (hwf : Call.wfIn d (.meth idx sn args b)) :
    demands d mon (.meth idx sn args b) (step d o (.meth idx sn args b)).2 ∧
    Rel (advance d mon (.meth idx sn args b) (step d o (.meth idx sn args b)).2)
      (step d o (.meth idx sn args b)).1 := by
  simp only [step, demands, advance, Call.wfIn] at hwf ⊢
  cases hm : d.methods[idx]? with
  | none => exact ⟨trivial, hrel⟩
  | some m =>
    simp only [hm] at hwf ⊢
    cases sn with
    | true =>
      have hn := callMethod_null m o args b
      simp only [↓reduceIte]
      rw [hn.1]
      exact ⟨hn.2, hrel⟩
    | false =>
      simp only [Bool.false_eq_true, ↓reduceIte]
      cases hi : mon.inited with
      | false =>
        -- not initialised: nothing changes, `#initialize not called`
        have hu := hrel.uninit hi
        have hc := callMethod_uninit m o false args b hu.1
        rw [hc.1]
        refine ⟨?_, ?_⟩
        · intro hr; simp only [demandsMeth, hi, ↓reduceIte]; exact hc.2 rfl hr
        · simp only [advanceMeth, hi, true_or, ↓reduceIte]; exact hrel
      | true =>
        have hmag := hrel.inited hi
        cases hp : mon.poisoned with
        | true =>
          have hd := hrel.poisoned hi hp
          have hc := callMethod_disabled m o false args b hd
          refine ⟨?_, ?_⟩
          · intro hr
            simp only [demandsMeth, hi, hp, Bool.true_eq_false, ↓reduceIte]
            intro hnp; exact hc.2 rfl hr hnp
          · simp only [advanceMeth, hp, true_or, or_true, ↓reduceIte]
            refine ⟨by simp [hi], fun _ => Or.inr hc.1, fun _ _ => hc.1, ?_⟩
            intro _ h; rw [hc.1] at h; exact absurd h.symm MAGIC_ne_DISABLED
        | false =>
          by_cases hco : m.effect = .coroutine
          · -- a coroutine
            have hadv : ∀ r, advanceMeth mon m r = (match r with
                | .st (.err _) => { mon with poisoned := true, suspended := 0 }
                | .st (.susp _) => { mon with suspended := m.coroID }
                | _ => { mon with suspended := 0 }) := by
              intro r; simp [advanceMeth, hi, hp, hco]
            rcases hmag with hM | hD
            · have hact := hrel.active hi hM
              have h3 := callMethod_coro m hco o hM args b hwf.1 hwf.2
              cases hbad : argsBad m.args args with
              | true =>
                obtain ⟨hret, hdis⟩ := h3.1 hbad
                refine ⟨?_, ?_⟩
                · intro _
                  simp only [demandsMeth, hi, hp, Bool.true_eq_false, Bool.false_eq_true, ↓reduceIte]
                  intro _
                  exact ⟨fun _ => Or.inr (Or.inr ⟨hbad, hret⟩), fun _ => Or.inl hret⟩
                · rw [hadv, hret]
                  refine ⟨by simp [hi], fun _ => Or.inr hdis, fun _ _ => hdis, ?_⟩
                  intro _ h; rw [hdis] at h; exact absurd h.symm MAGIC_ne_DISABLED
              | false =>
                by_cases hint : o.active ≠ 0 ∧ o.active ≠ m.coroID
                · obtain ⟨hret, hdis⟩ := h3.2.1 hbad hint.1 hint.2
                  refine ⟨?_, ?_⟩
                  · intro _
                    simp only [demandsMeth, hi, hp, Bool.true_eq_false, Bool.false_eq_true, ↓reduceIte]
                    intro _
                    exact ⟨fun _ => Or.inl hret, fun h => by rw [hbad] at h; cases h⟩
                  · rw [hadv, hret]
                    refine ⟨by simp [hi], fun _ => Or.inr hdis, fun _ _ => hdis, ?_⟩
                    intro _ h; rw [hdis] at h; exact absurd h.symm MAGIC_ne_DISABLED
                · have hact' : o.active = 0 ∨ o.active = m.coroID := by
                    by_cases h0 : o.active = 0
                    · exact Or.inl h0
                    · by_cases h1 : o.active = m.coroID
                      · exact Or.inr h1
                      · exact absurd ⟨h0, h1⟩ hint
                  obtain ⟨hret, hactive, hmagic'⟩ := h3.2.2 hbad hact'
                  refine ⟨?_, ?_⟩
                  · intro _
                    simp only [demandsMeth, hi, hp, Bool.true_eq_false, Bool.false_eq_true, ↓reduceIte]
                    intro _
                    refine ⟨?_, fun h => by rw [hbad] at h; cases h⟩
                    intro hs
                    rw [← hact] at hs
                    exact absurd hs hint
                  · rw [hadv, hret]
                    cases hst : b.st with
                    | ok =>
                      simp only [hst, Status.isSuspension, Status.isError] at hactive hmagic'
                      refine ⟨by simp [hi], fun _ => Or.inl (by simpa using hmagic'), by simp [hp], ?_⟩
                      intro _ _; simpa using hactive
                    | note k =>
                      simp only [hst, Status.isSuspension, Status.isError] at hactive hmagic'
                      refine ⟨by simp [hi], fun _ => Or.inl (by simpa using hmagic'), by simp [hp], ?_⟩
                      intro _ _; simpa using hactive
                    | susp k =>
                      simp only [hst, Status.isSuspension, Status.isError] at hactive hmagic'
                      refine ⟨by simp [hi], fun _ => Or.inl (by simpa using hmagic'), by simp [hp], ?_⟩
                      intro _ _; simpa using hactive
                    | err e =>
                      simp only [hst, Status.isSuspension, Status.isError] at hactive hmagic'
                      have hdis : (callMethod m o false args b).1.magic = DISABLED := by
                        simpa using hmagic'
                      refine ⟨by simp [hi], fun _ => Or.inr hdis, fun _ _ => hdis, ?_⟩
                      intro _ h; rw [hdis] at h; exact absurd h.symm MAGIC_ne_DISABLED
            · -- already disabled by a failed non-coroutine call
              have hc := callMethod_disabled m o false args b hD
              have hnp : m.effect ≠ .pure := by rw [hco]; simp
              have hrs : m.returnsStatus = true := by simp [Method.returnsStatus, hco]
              have hret := hc.2 rfl hrs hnp
              refine ⟨?_, ?_⟩
              · intro _
                simp only [demandsMeth, hi, hp, Bool.true_eq_false, Bool.false_eq_true, ↓reduceIte]
                intro _
                exact ⟨fun _ => Or.inr (Or.inl hret), fun _ => Or.inr hret⟩
              · rw [hadv, hret]
                refine ⟨by simp [hi], fun _ => Or.inr hc.1, fun _ _ => hc.1, ?_⟩
                intro _ h; rw [hc.1] at h; exact absurd h.symm MAGIC_ne_DISABLED
          · -- not a coroutine: the monitor learns nothing, `active_coroutine` is untouched
            have hn := callMethod_noncoro m hco o false args b
            refine ⟨?_, ?_⟩
            · intro _
              simp only [demandsMeth, hi, hp, Bool.true_eq_false, Bool.false_eq_true, ↓reduceIte]
              intro h; exact absurd h hco
            · have : advanceMeth mon m (callMethod m o false args b).2 = mon := by
                simp [advanceMeth, hco]
              rw [this]
              refine ⟨by simp [hi], ?_, by simp [hp], ?_⟩
              · intro _
                rcases hn.2 with h | h
                · rw [h]; exact hmag
                · exact Or.inr h
              · intro _ h
                rw [hn.1]
                rcases hn.2 with h' | h'
                · rw [h'] at h; exact hrel.active hi h
                · rw [h'] at h; exact absurd h.symm MAGIC_ne_DISABLED

theorem step_conforms (d : StructDesc) (mon : Mon) (o : Obj) (c : Call) (hrel : Rel mon o)
    (hwf : Call.wfIn d c) :
    demands d mon c (step d o c).2 ∧ Rel (advance d mon c (step d o c).2) (step d o c).1 := by
  cases c with
  | init sn sz v op => exact step_init d mon o sn sz v op hrel
  | meth idx sn args b => exact step_meth d mon o idx sn args b hrel hwf

theorem conforms_gen (d : StructDesc) (mon : Mon) (o : Obj) (hrel : Rel mon o) (cs : List Call)
    (hwf : ∀ c ∈ cs, Call.wfIn d c) : Accepts d mon (trace d o cs) := by
  induction cs generalizing mon o with
  | nil => exact trivial
  | cons c cs ih =>
    have hs := step_conforms d mon o c hrel (hwf c (by simp))
    simp only [trace, Accepts]
    exact ⟨hs.1, ih _ _ hs.2 (fun c' hc' => hwf c' (by simp [hc']))⟩

/-- **protocol_conforms.** Every finite call history on memory in which `initialize` has not
succeeded (all-zero memory, or garbage whose first word is neither MAGIC nor DISABLED; if the first
word is 0 the caller's ALREADY_ZEROED claim must be true of `active_coroutine` too) satisfies every
protocol clause of the property at every call:
`initialize` rejects a NULL receiver, a wrong size and a wrong version; before a successful
`initialize` every status-returning method answers `#initialize not called`; a bad argument to a
coroutine is answered `#bad argument`; calling another coroutine while one is suspended is answered
with an error; and once any coroutine call has returned an error every later status-returning call of
a non-pure method answers `#disabled by previous error`, until an `initialize` returns ok. -/
theorem protocol_conforms (d : StructDesc) (o : Obj) (hu : Uninit o) (hz : o.magic = 0 → o.active = 0)
    (cs : List Call) (hwf : ∀ c ∈ cs, Call.wfIn d c) : Accepts d Mon.start (trace d o cs) := by
  apply conforms_gen d Mon.start o _ cs hwf
  exact ⟨fun _ => ⟨hu, hz⟩, by simp [Mon.start], by simp [Mon.start], by simp [Mon.start]⟩

/-- The common case: all-zero memory (`calloc`). -/
theorem protocol_conforms_zeroed (d : StructDesc) (cs : List Call) (hwf : ∀ c ∈ cs, Call.wfIn d c) :
    Accepts d Mon.start (trace d Obj.zeroed cs) :=
  protocol_conforms d Obj.zeroed (uninit_of_zero _ rfl) (fun _ => rfl) cs hwf

/-! ### the monitor is not vacuous: it rejects wrong answers -/

instance (mon : Mon) (m : Method) (args : List ArgVal) (r : Ret) : Decidable (demandsMeth mon m args r) := by
  unfold demandsMeth; infer_instance

/-- after an error of coroutine 1 the monitor insists on `#disabled by previous error` -/
example :
    let m : Method := { effect := .coroutine, hasOut := false, outIsStatus := false, coroID := 1,
                        args := [], derived := false, suspPoints := true }
    let mon := advanceMeth ⟨true, false, 0⟩ m (.st (.err (.user 3)))
    mon = ⟨true, true, 0⟩ ∧ ¬ demandsMeth mon m [] (.st .ok) ∧
    demandsMeth mon m [] (.st (.err .disabledByPreviousError)) := by decide

/-- while coroutine 1 is suspended the monitor does not accept ok from coroutine 2 -/
example :
    let m2 : Method := { effect := .coroutine, hasOut := false, outIsStatus := false, coroID := 2,
                         args := [], derived := false, suspPoints := true }
    ¬ demandsMeth ⟨true, false, 1⟩ m2 [] (.st .ok) ∧
    demandsMeth ⟨true, false, 1⟩ m2 [] (.st (.err .interleavedCoroutineCalls)) := by decide

/-- the well-formedness hypothesis is satisfiable by a long mixed history on `C08.demo` -/
example : ∀ c ∈ ([.init false 64 0 0, .meth 0 false [.ptr false] ⟨.suspend, .susp 7, 3⟩,
    .meth 1 false [.num 5] ⟨.ok, .ok, 0⟩, .meth 2 false [] ⟨.ok, .ok, 0⟩] : List Call),
    Call.wfIn demo c := by
  intro c hc
  simp only [List.mem_cons, List.mem_nil_iff, or_false] at hc
  rcases hc with rfl | rfl | rfl | rfl <;> simp [Call.wfIn, demo, BodyRes.wf, Status.isSuspension, Status.isComplete]

end WuffsVerif.Props.C08Hist
