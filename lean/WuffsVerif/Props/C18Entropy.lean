/-
C18 — the entropy-coding core: what `encodeBlock` writes is read back, coefficient for
coefficient, by the T.81 reference decoder `Model/Jpeg/Spec.lean`.
Helper lemmas: `Proof/JpegBits.lean` (bit strings, stuffing, `emitBits` refinement),
`Proof/JpegHuff.lean` (DECODE / RECEIVE / EXTEND, runs, ZRL, EOB).
-/
import WuffsVerif.Proof.JpegHuff

namespace WuffsVerif.Props.C18
open WuffsVerif.Gen.C18 WuffsVerif.Jpeg WuffsVerif.Jpeg.Buf WuffsVerif.Jpeg.Bits WuffsVerif.Jpeg.Tab
open WuffsVerif.Jpeg.Huff

/-- **Byte level = bit level** (`emitBits`, accumulator + 0xFF stuffing): every `emitBits` call
    with n ≤ 16 appends exactly the n low bits of v to the logical bit string — the bytes written
    are the byte-stuffed packing of (previously pending bits ++ new bits), the remainder (< 8
    bits) stays pending at the top of `bitsV`. -/
theorem emitBits_refines (e : Encoder) (out : Array Nat) (v n p : Nat) (hn : n ≤ 16) (ha : Acc e p) :
    ∃ (bytes : List Nat) (p' : Nat),
      (emitBits e out v n).2 = out ++ (stuff bytes).toArray ∧ Acc (emitBits e out v n).1 p' ∧
      bitsOf p e.bitsN ++ bitsOf v n = Spec.bytesBits bytes ++ bitsOf p' (emitBits e out v n).1.bitsN :=
  (emitBits_emits e out v n hn).2.2 p ha

/-- the Spec's entropy-coded-segment reader undoes the stuffing and stops at the next marker -/
theorem unstuff_roundtrip (bytes : List Nat) (m : Nat) (rest : List Nat) (hm : m ≠ 0) :
    Spec.splitECS (stuff bytes ++ 255 :: m :: rest) = (bytes, 255 :: m :: rest) :=
  splitECS_stuff bytes m rest hm

/-- **Huffman layer**: for each of the four tables, the code word `emitHuffman` writes for a symbol
    that has a code is decoded by T.81 DECODE, run on the code table Annex C derives from the DHT
    segment the encoder itself emits (`Tab.specCodeTables_eq`), to that symbol — whatever follows. -/
theorem huffman_roundtrip (wh s : Nat) (hx : (huffmanBitWriters.getD wh #[]).getD s 0 ≠ 0) (rest : List Bool) :
    Spec.decode16 (canonTable wh) (huffBits wh s ++ rest) = some (s, rest) :=
  decode16_huffBits wh s hx rest

/-- **Magnitude layer**: category = bit length, and EXTEND(RECEIVE(category bits)) is the value,
    for every value the encoder can meet (|value| ≤ 2047: DC differences; |value| ≤ 1023: AC) -/
theorem magnitude_roundtrip (value : Int) (h1 : -2047 ≤ value) (h2 : value ≤ 2047) (rest : List Bool) :
    Spec.receive (category (absValueOf value)) 0 (bitsOf (adjOf value) (category (absValueOf value)) ++ rest) =
      some (adjOf value % 2 ^ category (absValueOf value), rest) ∧
    Spec.extend (adjOf value % 2 ^ category (absValueOf value)) (category (absValueOf value)) = value ∧
    category (absValueOf value) ≤ 11 := by
  refine ⟨?_, (cat_facts value h1 h2).2.2.2.2, (cat_facts value h1 h2).1⟩
  rw [receive_bitsOf]; simp

/-- **entropy_roundtrip, one block** (`entropy_roundtrip_block`): for every valid block, valid
    quantisation table, DC predictor in range and component class (luma tables: base 0, chroma
    tables: base 2), with anything following in the bit stream:

    (a) `encodeBlock` appends exactly `blockBits …` to the logical bit string (bytes written =
        stuffed packing; invariant on the accumulator kept), and sets the predictor to the
        quantised DC;
    (b) the Spec's `decodeBlock` (F.2.2.1/F.2.2.2) reads `blockBits …` back as the 64 quantised
        coefficients `div b[zigzag z] q[zigzag z]` in zig-zag order — DC prediction, run lengths
        with ZRL for runs ≥ 16, EOB, categories up to 11 — and leaves the rest of the stream. -/
theorem entropy_roundtrip_block (e : Encoder) (out : Array Nat) (c : Nat) (b : Block) (p : Nat)
    (hi : Inv e) (ha : Acc e p) (hv : blockIsValid b = true) :
    let base := if c > 0 then 2 else 0
    let q := e.quants (base / 2)
    (∃ (bytes : List Nat) (p' : Nat),
      (encodeBlock e out c b).2 = out ++ (stuff bytes).toArray ∧ Acc (encodeBlock e out c b).1 p' ∧
      bitsOf p e.bitsN ++ blockBits q (e.prevDC c) base b =
        Spec.bytesBits bytes ++ bitsOf p' (encodeBlock e out c b).1.bitsN) ∧
    (∀ tail, Spec.decodeBlock (canonTable base) (canonTable (base + 1)) (e.prevDC c)
        (blockBits q (e.prevDC c) base b ++ tail) = some (quantisedZZ q b, tail)) := by
  intro base q
  constructor
  · have h := (encodeBlock_emits e out c b).2.2 p (by
      obtain ⟨h1, h2, h3⟩ := ha
      unfold Encoder.setPrevDC
      split
      · exact ⟨h1, h2, h3⟩
      · split <;> exact ⟨h1, h2, h3⟩)
    obtain ⟨bytes, p', h1, h2, h3⟩ := h
    refine ⟨bytes, p', h1, h2, ?_⟩
    have hb : (e.setPrevDC c (div (b.getD 0 0) (((e.quants ((if c > 0 then 2 else 0) / 2)).getD 0 0 : Nat) : Int))).bitsN = e.bitsN := by
      unfold Encoder.setPrevDC
      split
      · rfl
      · split <;> rfl
    simp only [hb] at h3
    exact h3
  · intro tail
    have hb : base = 0 ∨ base = 2 := by
      show (if c > 0 then 2 else 0) = 0 ∨ (if c > 0 then 2 else 0) = 2
      split <;> simp
    exact decodeBlock_blockBits base hb q (hi.quants _) b hv (e.prevDC c) (hi.prev c) tail

/-- non-vacuity: the hypotheses are met by the state right after a `Reset` -/
example : Acc ({} : Encoder) 0 := ⟨by decide, by decide, by decide⟩

-- OPEN: entropy_roundtrip (whole file), DESIGN.md §2 C18:
--   ∀ size, colour type, valid tables, valid unit sequence of the required length,
--     Spec.decode (Reset's bytes ++ all AddN bytes) = some ⟨w, h, sampling, tables, quantised blocks⟩.
-- Proved so far: the per-block core above (every entropy-coding mechanism), the byte/bit
-- refinement of `emitBits`, unstuffing, table correspondence.  Missing: the MCU/unit iteration
-- across AddN calls with the final 1-bit padding, and the symbolic evaluation of the Spec's
-- marker parser on the header bytes.  The whole-file statement is checked on every run for
-- concrete files by the `specdecode` ops (Lean Spec.decode on real encoder output = inputs) and
-- by the independent Go decoder.

end WuffsVerif.Props.C18
