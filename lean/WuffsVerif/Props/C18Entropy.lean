/-
C18 — the entropy-coding core: what `encodeBlock` writes is read back, coefficient for
coefficient, by the T.81 reference decoder `Model/Jpeg/Spec.lean`.
Helper lemmas: `Proof/JpegBits.lean` (bit strings, stuffing, `emitBits` refinement),
`Proof/JpegHuff.lean` (DECODE / RECEIVE / EXTEND, runs, ZRL, EOB).
-/
import WuffsVerif.Proof.JpegHeader
import WuffsVerif.Props.C18

namespace WuffsVerif.Props.C18
open WuffsVerif.Gen.C18 WuffsVerif.Jpeg WuffsVerif.Jpeg.Buf WuffsVerif.Jpeg.Bits WuffsVerif.Jpeg.Tab
open WuffsVerif.Jpeg.Huff WuffsVerif.Jpeg.Scan WuffsVerif.Jpeg.Hdr

/-- **Byte level = bit level** (`emitBits`, accumulator + 0xFF stuffing): every `emitBits` call
    with n ≤ 16 appends exactly the n low bits of v to the logical bit string — the bytes written
    are the byte-stuffed packing of (previously pending bits ++ new bits), the remainder (< 8
    bits) stays pending at the top of `bitsV`. -/
theorem emitBits_refines (e : Encoder) (out : Array Nat) (v n p : Nat) (hn : n ≤ 16) (ha : Acc e p) :
    ∃ (bytes : List Nat) (p' : Nat),
      (emitBits e out v n).2 = out ++ (stuff bytes).toArray ∧ Acc (emitBits e out v n).1 p' ∧
      bitsOf p e.bitsN ++ bitsOf v n = Spec.bytesBits bytes ++ bitsOf p' (emitBits e out v n).1.bitsN :=
  (emitBits_emits e out v n hn).2.2 p ha

/-- the Spec's entropy-coded-segment reader undoes the stuffing and stops at the next marker -/
theorem unstuff_roundtrip (bytes : List Nat) (m : Nat) (rest : List Nat) (hm : m ≠ 0) :
    Spec.splitECS (stuff bytes ++ 255 :: m :: rest) = (bytes, 255 :: m :: rest) :=
  splitECS_stuff bytes m rest hm

/-- **Huffman layer**: for each of the four tables, the code word `emitHuffman` writes for a symbol
    that has a code is decoded by T.81 DECODE, run on the code table Annex C derives from the DHT
    segment the encoder itself emits (`Tab.specCodeTables_eq`), to that symbol — whatever follows. -/
theorem huffman_roundtrip (wh s : Nat) (hx : (huffmanBitWriters.getD wh #[]).getD s 0 ≠ 0) (rest : List Bool) :
    Spec.decode16 (canonTable wh) (huffBits wh s ++ rest) = some (s, rest) :=
  decode16_huffBits wh s hx rest

/-- **Magnitude layer**: category = bit length, and EXTEND(RECEIVE(category bits)) is the value,
    for every value the encoder can meet (|value| ≤ 2047: DC differences; |value| ≤ 1023: AC) -/
theorem magnitude_roundtrip (value : Int) (h1 : -2047 ≤ value) (h2 : value ≤ 2047) (rest : List Bool) :
    Spec.receive (category (absValueOf value)) 0 (bitsOf (adjOf value) (category (absValueOf value)) ++ rest) =
      some (adjOf value % 2 ^ category (absValueOf value), rest) ∧
    Spec.extend (adjOf value % 2 ^ category (absValueOf value)) (category (absValueOf value)) = value ∧
    category (absValueOf value) ≤ 11 := by
  refine ⟨?_, (cat_facts value h1 h2).2.2.2.2, (cat_facts value h1 h2).1⟩
  rw [receive_bitsOf]; simp

/-- **entropy_roundtrip, one block** (`entropy_roundtrip_block`): for every valid block, valid
    quantisation table, DC predictor in range and component class (luma tables: base 0, chroma
    tables: base 2), with anything following in the bit stream:

    (a) `encodeBlock` appends exactly `blockBits …` to the logical bit string (bytes written =
        stuffed packing; invariant on the accumulator kept), and sets the predictor to the
        quantised DC;
    (b) the Spec's `decodeBlock` (F.2.2.1/F.2.2.2) reads `blockBits …` back as the 64 quantised
        coefficients `div b[zigzag z] q[zigzag z]` in zig-zag order — DC prediction, run lengths
        with ZRL for runs ≥ 16, EOB, categories up to 11 — and leaves the rest of the stream. -/
theorem entropy_roundtrip_block (e : Encoder) (out : Array Nat) (c : Nat) (b : Block) (p : Nat)
    (hi : Inv e) (ha : Acc e p) (hv : blockIsValid b = true) :
    let base := if c > 0 then 2 else 0
    let q := e.quants (base / 2)
    (∃ (bytes : List Nat) (p' : Nat),
      (encodeBlock e out c b).2 = out ++ (stuff bytes).toArray ∧ Acc (encodeBlock e out c b).1 p' ∧
      bitsOf p e.bitsN ++ blockBits q (e.prevDC c) base b =
        Spec.bytesBits bytes ++ bitsOf p' (encodeBlock e out c b).1.bitsN) ∧
    (∀ tail, Spec.decodeBlock (canonTable base) (canonTable (base + 1)) (e.prevDC c)
        (blockBits q (e.prevDC c) base b ++ tail) = some (quantisedZZ q b, tail)) := by
  intro base q
  constructor
  · have h := (encodeBlock_emits e out c b).2.2 p (by
      obtain ⟨h1, h2, h3⟩ := ha
      unfold Encoder.setPrevDC
      split
      · exact ⟨h1, h2, h3⟩
      · split <;> exact ⟨h1, h2, h3⟩)
    obtain ⟨bytes, p', h1, h2, h3⟩ := h
    refine ⟨bytes, p', h1, h2, ?_⟩
    have hb : (e.setPrevDC c (div (b.getD 0 0) (((e.quants ((if c > 0 then 2 else 0) / 2)).getD 0 0 : Nat) : Int))).bitsN = e.bitsN := by
      unfold Encoder.setPrevDC
      split
      · rfl
      · split <;> rfl
    simp only [hb] at h3
    exact h3
  · intro tail
    have hb : base = 0 ∨ base = 2 := by
      show (if c > 0 then 2 else 0) = 0 ∨ (if c > 0 then 2 else 0) = 2
      split <;> simp
    exact decodeBlock_blockBits base hb q (hi.quants _) b hv (e.prevDC c) (hi.prev c) tail

/-- non-vacuity: the hypotheses are met by the state right after a `Reset` -/
example : Acc ({} : Encoder) 0 := ⟨by decide, by decide, by decide⟩

-- The whole-file statement `entropy_roundtrip` (DESIGN.md §2 C18) is proved at the end of this file,
-- from: `scan_roundtrip` (everything from the first entropy-coded byte to EOI, across all AddN
-- calls), `Tab.specCodeTables_eq` (the code tables the Spec derives from the DHT bytes the encoder
-- emits are the ones the encoder uses), `reset_ok_state` (unit count) and `Proof/JpegHeader.lean`
-- (the Spec's marker parser evaluated on the header bytes written by `Reset`).

theorem ones7 : bitsOf 0x7F 7 = [true, true, true, true, true, true, true] := by decide

/-- **entropy_roundtrip, whole scan** (`scan_roundtrip`).  Take any Encoder state as `Reset`
    leaves it (invariant `Inv`: valid tables, empty bit accumulator, predictors 0, no error,
    colour type `ct`, `numAddsRemaining = n ≥ 1`) and any `n` valid units of `ct` blocks each.
    Then every `AddN` call succeeds, and the bytes written by all calls together are
    `stuff bytes ++ [0xFF, 0xD9]` where — exactly as the Spec's `decodeScan` proceeds —
    the entropy-coded segment un-stuffs to `bytes` up to the EOI marker, and decoding `n` MCUs
    from the bits of `bytes` with the code tables of the emitted DHT segments yields, block for
    block, each coefficient divided by its quantisation factor rounded to nearest (natural
    order), leaving fewer than 8 padding bits, all ones. -/
theorem scan_roundtrip (ct : Nat) (hct3 : ct = 1 ∨ ct = 3 ∨ ct = 6) (e : Encoder) (us : List (List Block))
    (hi : Inv e) (hb : e.bitsN = 0 ∧ e.bitsV = 0) (herr : e.hasReturnedError = false) (hct : e.colorType = ct)
    (hp : e.prevDC0 = 0 ∧ e.prevDC1 = 0 ∧ e.prevDC2 = 0)
    (hn : e.numAddsRemaining = us.length) (hne : us ≠ [])
    (hus : ∀ u ∈ us, u.length = ct ∧ ∀ b ∈ u, blockIsValid b = true) :
    ∃ (ws : List (Array Nat)) (bytes : List Nat) (pad : List Bool),
      (runAdds ct e us).2 = ws.map Res.ok ∧
      ws.flatMap Array.toList = stuff bytes ++ [255, 217] ∧
      Spec.splitECS (ws.flatMap Array.toList) = (bytes, [255, 217]) ∧
      Spec.decodeMCUs (planOf (whichComponents ct)) us.length (List.replicate (ncomp ct) 0) (Spec.bytesBits bytes) =
        some (expectAll e ct us, pad) ∧
      pad.length < 8 ∧ pad.all id = true := by
  have hacc : Acc e 0 := ⟨by omega, by rw [hb.1]; decide, by rw [hb.2]; simp⟩
  have hpr : PredsRel e (List.replicate (ncomp ct) 0) := by
    refine ⟨by unfold ncomp; split <;> simp, fun c hc => ?_⟩
    have : (List.replicate (ncomp ct) (0 : Int)).getD c 0 = 0 := by
      rw [List.getD_eq_getElem?_getD, List.getElem?_replicate]; split <;> rfl
    rw [this]
    unfold Encoder.prevDC
    split
    · exact hp.1.symm
    · split
      · exact hp.2.1.symm
      · exact hp.2.2.symm
  obtain ⟨ws, bytes, p', n', X, h1, h2, h3, h4, h5⟩ :=
    scan_gen ct hct3 us e (List.replicate (ncomp ct) 0) 0 hi hacc herr hct hn hpr (by simp) hus
  simp only [hne, ↓reduceIte] at h2 h3
  rw [hb.1, show bitsOf 0 0 = [] from rfl, List.nil_append, ones7] at h3
  -- X ++ 1111111 = bits(bytes) ++ pending  ⇒  bits(bytes) = X ++ pad
  have hlen : (bitsOf p' n').length = n' := bitsOf_length p' n'
  obtain ⟨pad, hpad, hpl, hpa⟩ : ∃ pad, Spec.bytesBits bytes = X ++ pad ∧ pad.length < 8 ∧ pad.all id = true := by
    rcases List.append_eq_append_iff.mp h3 with ⟨a', ha1, ha2⟩ | ⟨c', hc1, hc2⟩
    · refine ⟨a', ha1, ?_, ?_⟩
      · have := congrArg List.length ha2
        simp only [List.length_append, bitsOf_length, List.length_cons, List.length_nil] at this
        omega
      · have hsub : ∀ x ∈ a', x = true := by
          intro x hx
          have : x ∈ a' ++ bitsOf p' n' := List.mem_append_left _ hx
          rw [← ha2] at this
          simpa using this
        exact List.all_eq_true.mpr (fun x hx => by simp [hsub x hx])
    · have hl := congrArg List.length hc2
      simp only [List.length_append, bitsOf_length, List.length_cons, List.length_nil] at hl
      have hc0 : c' = [] := List.eq_nil_of_length_eq_zero (by omega)
      subst hc0
      exact ⟨[], by simpa using hc1.symm, by simp, by simp⟩
  refine ⟨ws, bytes, pad, h1, h2, ?_, ?_, hpl, hpa⟩
  · rw [h2]; exact splitECS_stuff bytes 217 [] (by decide)
  · rw [hpad]; exact h5 pad


/-- after exactly `numAddsRemaining` valid units the Encoder has no error, expects no more units,
    and the next `AddN` is `ErrTooManyAddNCalls` (and sticky afterwards, `add_after_error`) -/
theorem units_then_too_many (ct : Nat) (hct3 : ct = 1 ∨ ct = 3 ∨ ct = 6) (us : List (List Block)) :
    ∀ (e : Encoder) (preds : List Int) (p : Nat), Inv e → Acc e p → e.hasReturnedError = false →
      e.colorType = ct → e.numAddsRemaining = us.length → PredsRel e preds → preds.length = ncomp ct →
      (∀ u ∈ us, u.length = ct ∧ ∀ b ∈ u, blockIsValid b = true) →
      (runAdds ct e us).1.numAddsRemaining = 0 ∧ (runAdds ct e us).1.hasReturnedError = false ∧
      (runAdds ct e us).1.colorType = ct ∧
      ∀ u wf, u.all blockIsValid = true → (add (runAdds ct e us).1 ct wf (some u)).2 = .err .tooManyAddNCalls := by
  induction us with
  | nil =>
    intro e _ _ _ _ herr hct hk _ _ _
    have hk0 : e.numAddsRemaining = 0 := by simpa using hk
    refine ⟨hk0, herr, hct, fun u wf hu => ?_⟩
    show (add e ct wf (some u)).2 = _
    simp [add, herr, hct, addN, hu, hk0]
  | cons u us ih =>
    intro e preds p hi ha herr hct hk hpr hpl hus
    have hu := hus u List.mem_cons_self
    obtain ⟨w, bytes1, p1, X1, preds1, a1, a2, a3, a4, a5, a6, a7, a8, a9, a10, a11, a12, a13⟩ :=
      add_unit e ct us.length u preds p hi ha herr hct hct3 hu.1 hu.2 (by simpa using hk) hpr hpl
    exact ih (add e ct false (some u)).1 preds1 p1 a7 a8 a3 a4 a2 a9 (by rw [a10, hpl])
      (fun u' hu' => hus u' (List.mem_cons_of_mem _ hu'))

/-- **Reset, then the units** (`entropy_roundtrip_partial`): for every size in [1,65535]²,
    colour type, valid table pair (or nil options) and every sequence of exactly
    ⌈w/8⌉·⌈h/8⌉ (⌈w/16⌉·⌈h/16⌉ for 4:2:0) valid units, starting from any reachable Encoder:
    `Reset` succeeds ⇒ all `AddN` calls succeed and the bytes they write are one entropy-coded
    segment + EOI which the T.81 decoder reads back block for block as the rounded quotients.
    (What is missing for the full `entropy_roundtrip` is only the Spec's parse of the header
    bytes of `Reset` — see the OPEN note above.) -/
theorem entropy_roundtrip_partial (e0 : Encoder) (ct : Nat) (w h : Int) (qs : Option (Quant × Quant))
    (hdr : Array Nat) (us : List (List Block)) (hw : WF e0)
    (hq : ∀ q0 q1, qs = some (q0, q1) → QBytes q0 ∧ QBytes q1)
    (hok : (reset e0 false ct w h qs).2 = .ok hdr)
    (hn : us.length = units ct w h)
    (hus : ∀ u ∈ us, u.length = ct ∧ ∀ b ∈ u, blockIsValid b = true) :
    ∃ (ws : List (Array Nat)) (bytes : List Nat) (pad : List Bool),
      (runAdds ct (reset e0 false ct w h qs).1 us).2 = ws.map Res.ok ∧
      ws.flatMap Array.toList = stuff bytes ++ [255, 217] ∧
      Spec.splitECS (ws.flatMap Array.toList) = (bytes, [255, 217]) ∧
      Spec.decodeMCUs (planOf (whichComponents ct)) (units ct w h) (List.replicate (ncomp ct) 0)
          (Spec.bytesBits bytes) = some (expectAll (reset e0 false ct w h qs).1 ct us, pad) ∧
      pad.length < 8 ∧ pad.all id = true := by
  have hst := reset_ok_state e0 ct w h qs hdr hok
  have hrd := reset_ok_ready e0 ct w h qs hdr hw hq hok
  obtain ⟨h1, h2, h3, w1, w2, hh1, hh2, hct3⟩ := hst
  have hne : us ≠ [] := by
    intro hnil
    rw [hnil] at hn
    have hu : 0 < units ct w h := by
      unfold units
      split
      · have : 0 < ((w + 15) / 16) * ((h + 15) / 16) := Int.mul_pos (by omega) (by omega)
        omega
      · have : 0 < ((w + 7) / 8) * ((h + 7) / 8) := Int.mul_pos (by omega) (by omega)
        omega
    simp at hn
    omega
  have := scan_roundtrip ct hct3 (reset e0 false ct w h qs).1 us hrd.1 hrd.2.1 h2 h3 hrd.2.2
    (by rw [h1, hn]) hne hus
  rw [hn] at this
  exact this

/-- the frame components a file of colour type `ct` must declare: component ids 1 (2, 3),
    sampling factors 1×1 — 2×2 for the luma of 4:2:0 —, quantisation table 0 for luma, 1 for chroma -/
def expectComps (ct : Nat) : List Spec.Component := if ct = 1 then [⟨1, 1, 1, 0⟩] else colorComps ct

/-- the quantisation table of each component (natural order) -/
def expectQtabs (e : Encoder) (ct : Nat) : List (List Nat) :=
  if ct = 1 then [natTable e.quants0] else [natTable e.quants0, natTable e.quants1, natTable e.quants1]

/-- **entropy_roundtrip** — the property's core, for the whole file.  For every reachable
    Encoder, every size in [1, 65535]², colour type (gray, 4:4:4, 4:2:0), valid quantisation table
    pair (or nil options) and every sequence of exactly ⌈w/8⌉·⌈h/8⌉ (⌈w/16⌉·⌈h/16⌉ for 4:2:0)
    valid units: if `Reset` succeeds then every `AddN` succeeds, and the bytes of `Reset` followed
    by the bytes of all `AddN` calls are a baseline JPEG which the T.81 reference decoder
    (`Spec.decode`: SOI, DQT, SOF0, DHT, SOS, entropy-coded segment, EOI, nothing after) accepts,
    declaring width `w`, height `h`, the sampling factors of the colour type and the given
    quantisation tables, and whose blocks are, block for block in coding order, each coefficient
    divided by its quantisation factor rounded to nearest (`expectAll`, natural order). -/
theorem entropy_roundtrip (e0 : Encoder) (ct : Nat) (w h : Int) (qs : Option (Quant × Quant))
    (hdr : Array Nat) (us : List (List Block)) (hw : WF e0)
    (hq : ∀ q0 q1, qs = some (q0, q1) → QBytes q0 ∧ QBytes q1)
    (hok : (reset e0 false ct w h qs).2 = .ok hdr)
    (hn : us.length = units ct w h)
    (hus : ∀ u ∈ us, u.length = ct ∧ ∀ b ∈ u, blockIsValid b = true) :
    ∃ ws : List (Array Nat),
      (runAdds ct (reset e0 false ct w h qs).1 us).2 = ws.map Res.ok ∧
      Spec.decode (hdr.toList ++ ws.flatMap Array.toList) =
        some ⟨w.toNat, h.toNat, expectComps ct, expectQtabs (reset e0 false ct w h qs).1 ct,
          expectAll (reset e0 false ct w h qs).1 ct us⟩ := by
  obtain ⟨ws, bytes, pad, r1, r2, r3, r4, r5, r6⟩ := entropy_roundtrip_partial e0 ct w h qs hdr us hw hq hok hn hus
  obtain ⟨_, _, hct, w1, w2, h1, h2, hct3⟩ := reset_ok_state e0 ct w h qs hdr hok
  refine ⟨ws, r1, ?_⟩
  rw [reset_ok_header e0 ct w h qs hdr hok]
  generalize reset e0 false ct w h qs = r at *
  obtain ⟨e', res⟩ := r
  simp only at hct r4 ⊢
  have hu : units ct w h = unitsOf ct w h := rfl
  by_cases hc1 : ct = 1
  · subst hc1
    rw [header_gray e' w h hct, parse_header_gray _ w h (by omega) w2 (by omega) h2]
    rw [hu, ← numMCUs_gray w h (by omega) (by omega)] at r4
    have := decodeScan_gray e'.quants0 w.toNat h.toNat _ bytes _ pad r3 (by simpa [ncomp] using r4) r5 r6
    rw [this]
    simp [expectComps, expectQtabs]
  · have hc36 : ct = 3 ∨ ct = 6 := by omega
    have hne : e'.colorType ≠ 1 := by rw [hct]; exact hc1
    rw [header_color e' w h hne, hct, parse_header_color ct _ _ w h (by omega) w2 (by omega) h2]
    rw [hu, ← numMCUs_color ct hc36 w h (by omega) (by omega)] at r4
    have hn3 : ncomp ct = 3 := by simp [ncomp, hc1]
    rw [hn3] at r4
    have := decodeScan_color ct hc36 e'.quants0 e'.quants1 w.toNat h.toNat _ bytes _ pad r3 r4 r5 r6
    rw [this]
    simp [expectComps, expectQtabs, hc1]

/-- non-vacuity of `entropy_roundtrip`: the zero-value Encoder is reachable (`WF`), `Reset` for an
    8×8 gray image with nil options succeeds, it needs exactly one unit, and the all-zero block is
    valid — so the hypotheses are jointly satisfiable -/
example : WF ({} : Encoder) ∧
    (match (reset {} false 1 8 8 none).2 with | .ok _ => true | _ => false) = true ∧
    units 1 8 8 = 1 ∧ blockIsValid (Array.replicate 64 0) = true := by
  refine ⟨fun h => by simp at h, by decide +kernel, by decide, by decide +kernel⟩

end WuffsVerif.Props.C18
