/-
C06 — "results never share storage with the operands".

Stated over the heap / identity model `Model/IntervalHeap.lean` (pointers = addresses into a heap
of `big.Int` cells; every Go allocation, pointer copy and in-place update of interval.go is
mirrored there).  For every one of the ten operators, every pair of operand pointer ranges and
EVERY heap (whatever its contents: the theorems need no well-formedness assumption):

  * every non-nil pointer of the result is a NEW object — its address is at or above the size the
    heap had when the operator was entered, so it is none of the operands' objects, none of the
    package-level objects (`one`, `minusOne`, `smallBitMasks[..]`, `sharedEmptyRange`) and no other
    object that existed before the call;
  * no object that existed before the call is written to — in particular the operands and the
    package-level objects have the same values afterwards (the in-place updates `zMin.Not(zMin)`,
    `bitFillRight(y[1])`, `z.inPlaceUnite(..)` only touch objects allocated during the call);
  * hence (the sentence of the IntRange doc comment) mutating `*z[0]` / `*z[1]` afterwards does not
    affect `*x[0]`, `*x[1]`, `*y[0]`, `*y[1]`.

What ties the heap model to the Go code: the `wv_c06` driver runs it for every operator line and
every helper line and prints the provenance of each result pointer (`f` new, `x0 x1 y0 y1` operand,
`one minusOne mask<n>` package-level, `-` nil); the harness prints the same from real pointer
comparisons, and the driver refuses (`heap-model-diverges`) if the heap model's values ever differ
from the value model's — which `heap_refines_value_model` below proves cannot happen (the heap
model computes exactly the value model's results, for all ten operators, without panic).
Proof machinery: `Proof/IntervalHeap.lean`, `Proof/IntervalHeapRefine.lean`,
`Proof/IntervalHeapRefineBits.lean`.
-/
import WuffsVerif.Proof.IntervalHeapRefineBits
import WuffsVerif.Props.C06
import WuffsVerif.Props.C06Bits

namespace WuffsVerif.Props.C06
open WuffsVerif.Interval WuffsVerif.IntervalHeap

/-- Freshness and non-interference of every operator, for all operands and all heaps:
running `op` from heap `h` to heap `h'` with result `r` (`none` = `ok == false`),
(1) every cell of `h` is unchanged in `h'`, (2) the heap did not shrink, (3) every non-nil pointer
of the result lies above `h`, i.e. was allocated during the call. -/
theorem results_fresh (op : Op) (x y : HIR) (h h' : Heap) (r : Option HIR)
    (hrun : runOp op x y h = some (r, h')) :
    (∀ a, a < h.size → h'[a]? = h[a]?) ∧ h.size ≤ h'.size ∧
    (∀ z, r = some z →
      (∀ a, z.lo = some a → h.size ≤ a) ∧ (∀ a, z.hi = some a → h.size ≤ a)) := by
  obtain ⟨⟨hsz, hfr⟩, hq⟩ := runOp_safe h.size op x y h (Nat.le_refl _) r h' hrun
  exact ⟨hfr, hsz, fun z hz => hq z hz⟩

/-- a pointer of the result is never a pointer of an operand (operand pointers point into the
heap the call started with) -/
theorem result_ne_operand (op : Op) (x y : HIR) (h h' : Heap) (z : HIR)
    (hrun : runOp op x y h = some (some z, h')) (p q : Addr)
    (hp : z.lo = some p ∨ z.hi = some p)
    (hq : (x.lo = some q ∨ x.hi = some q ∨ y.lo = some q ∨ y.hi = some q) ∧ q < h.size) :
    p ≠ q := by
  obtain ⟨_, _, hf⟩ := results_fresh op x y h h' (some z) hrun
  obtain ⟨h1, h2⟩ := hf z rfl
  have : h.size ≤ p := by
    rcases hp with hp | hp
    · exact h1 p hp
    · exact h2 p hp
  exact Nat.ne_of_gt (Nat.lt_of_lt_of_le hq.2 this)

/-- a pointer of the result is never a package-level object (`one`, `minusOne`,
`smallBitMasks[i]`, hence `sharedEmptyRange`), these being the first `nGlobals` cells -/
theorem result_ne_package_level (op : Op) (x y : HIR) (h h' : Heap) (z : HIR)
    (hg : nGlobals ≤ h.size)
    (hrun : runOp op x y h = some (some z, h')) (p : Addr)
    (hp : z.lo = some p ∨ z.hi = some p) :
    p ≠ aOne ∧ p ≠ aMinusOne ∧ ∀ i, i < Gen.C06.smallBitMasks.length → p ≠ aMask i := by
  obtain ⟨_, _, hf⟩ := results_fresh op x y h h' (some z) hrun
  obtain ⟨h1, h2⟩ := hf z rfl
  have hge : h.size ≤ p := by
    rcases hp with hp | hp
    · exact h1 p hp
    · exact h2 p hp
  have hn : nGlobals = 2 + Gen.C06.smallBitMasks.length := rfl
  refine ⟨fun e => ?_, fun e => ?_, fun i hi e => ?_⟩ <;>
    (subst e; simp only [aOne, aMinusOne, aMask] at hge; omega)

/-- the operands (and every other object that existed) keep their values: an operator does not
modify its operands -/
theorem operands_unchanged (op : Op) (x y : HIR) (h h' : Heap) (r : Option HIR)
    (hrun : runOp op x y h = some (r, h')) (w : HIR)
    (hw : (∀ a, w.lo = some a → a < h.size) ∧ (∀ a, w.hi = some a → a < h.size)) :
    viewAt h' w = viewAt h w := by
  obtain ⟨hfr, _, _⟩ := results_fresh op x y h h' r hrun
  obtain ⟨wl, wh⟩ := w
  simp only [viewAt, Heap.get]
  congr 1
  · cases wl with
    | none => rfl
    | some a => simp only [Option.map_some, Heap.get, hfr a (hw.1 a rfl)]
  · cases wh with
    | none => rfl
    | some a => simp only [Option.map_some, Heap.get, hfr a (hw.2 a rfl)]

/-- the IntRange doc comment: after `z = x.Op(y)`, mutating `*z[0]` (or `*z[1]`) does not affect
`*x[0]`, `*x[1]`, `*y[0]`, `*y[1]` — nor any other object that existed before the call. -/
theorem mutating_result_keeps_operands (op : Op) (x y : HIR) (h h' : Heap) (z : HIR)
    (hrun : runOp op x y h = some (some z, h')) (p : Addr) (v : Int)
    (hp : z.lo = some p ∨ z.hi = some p) (h'' : Heap)
    (hst : store p v h' = some ((), h'')) :
    ∀ a, a < h.size → h''[a]? = h[a]? := by
  obtain ⟨hfr, hsz, hf⟩ := results_fresh op x y h h' (some z) hrun
  obtain ⟨h1, h2⟩ := hf z rfl
  have hge : h.size ≤ p := by
    rcases hp with hp | hp
    · exact h1 p hp
    · exact h2 p hp
  intro a ha
  obtain ⟨⟨_, hfr2⟩, _⟩ := Safe.store (n := h.size) hge v h' hsz () h'' hst
  rw [hfr2 a ha, hfr a ha]

/-- the same guarantees for the helpers with a result of their own (they are handed operand
pointers and package-level pointers — `split2Ways`/`split3Ways` even return such pointers — but
what `And`/`Or` finally return is built from new objects only) -/
theorem helpers_fresh (n : Nat) (x y : HIR) :
    Safe n (andBothNonNeg x y) (FreshR n) ∧ Safe n (orBothNonNeg x y) (FreshR n) ∧
    Safe n (andOneNegOneNonNeg x y) (FreshR n) ∧ Safe n (orOneNegOneNonNeg x y) (FreshR n) ∧
    Safe n (mulLsh x y true) (FreshR n) ∧ Safe n (mulLsh x y false) (FreshR n) :=
  ⟨andBothNonNeg_safe n x y, orBothNonNeg_safe n x y, andOneNegOneNonNeg_safe n x y,
   orOneNegOneNonNeg_safe n x y, mulLsh_safe n x y true, mulLsh_safe n x y false⟩

/-- `inPlaceUnite` is the one helper that writes through pointers it is given: it is safe
exactly because its receiver is always a range of new objects (`z = makeEmptyRange()`), and it
keeps no pointer of its argument. -/
theorem inPlaceUnite_fresh (n : Nat) (z w : HIR) (hz : FreshR n z) :
    Safe n (inPlaceUnite z w) (FreshR n) :=
  inPlaceUnite_safe hz w

/-! ## the heap model computes the values of the value model -/

/-- REFINEMENT, all ten operators.  On any heap in which the operand pointers are valid and the
package-level objects (`one`, `minusOne`, `smallBitMasks[..]`) hold their values, the operator
returns without panic, keeps every cell that existed (`Ext`), returns valid pointers, and the
values behind them are exactly the value model's result (`none` = the same failure).
Hence every theorem of `Props/C06.lean` and `Props/C06Bits.lean` (soundness, exact failure,
tightness, And/Or never panic) is a theorem about what the pointer-level code returns. -/
theorem heap_refines_value_model (op : Op) (h : Heap) (g : GlobalsOK h) (mk : MasksOK h)
    (x y : HIR) (vx : VR h x) (vy : VR h y) :
    ∃ r h', runOp op x y h = some (r, h') ∧ Ext h h' ∧ (∀ z, r = some z → VR h' z) ∧
      pureOp op (viewAt h x) (viewAt h y) = some (r.map (viewAt h')) := by
  have wrap : ∀ {m : HM (Option HIR)} {v : Option IR}, Tot m h (OkIs v) →
      ∃ r h', m h = some (r, h') ∧ Ext h h' ∧ (∀ z, r = some z → VR h' z) ∧
        some v = some (r.map (viewAt h')) := by
    rintro m v ⟨r, h', e, x', vr, er⟩
    exact ⟨r, h', e, x', vr, by rw [er]⟩
  cases op with
  | add => exact wrap (okRange_tot (add_tot h x y))
  | sub => exact wrap (okRange_tot (sub_tot h x y))
  | mul => exact wrap (okRange_tot (mulLsh_tot g vx vy false))
  | quo => exact wrap (tryQuo_tot g vx vy)
  | lsh => exact wrap (tryLsh_tot g vx vy)
  | rsh => exact wrap (tryRsh_tot g vx vy)
  | and =>
    obtain ⟨Z, hZ⟩ := and_total (viewAt h x) (viewAt h y)
    have := wrap (okRange_tot (and_tot g mk vx vy hZ))
    simp only [pureOp, hZ, Option.map_some]
    exact this
  | or =>
    obtain ⟨Z, hZ⟩ := or_total (viewAt h x) (viewAt h y)
    have := wrap (okRange_tot (or_tot g mk vx vy hZ))
    simp only [pureOp, hZ, Option.map_some]
    exact this
  | unite => exact wrap (okRange_tot (unite_tot h x y vx vy))
  | intersect => exact wrap (okRange_tot (intersect_tot h x y))

/-- non-vacuity, for ALL operand values: `setup X Y` (operands placed on top of the package-level
objects, which is what the driver does for every harness line) satisfies the hypotheses of the
refinement theorem, and the operand pointers hold `X` and `Y` -/
theorem setup_satisfies_hypotheses (X Y : IR) :
    (GlobalsOK (setup X Y).2.2 ∧ VR (setup X Y).2.2 (setup X Y).1 ∧
      VR (setup X Y).2.2 (setup X Y).2.1 ∧
      viewAt (setup X Y).2.2 (setup X Y).1 = X ∧ viewAt (setup X Y).2.2 (setup X Y).2.1 = Y) ∧
    MasksOK (setup X Y).2.2 :=
  ⟨setup_spec X Y, setup_masks X Y⟩

/-- `TryQuo` never divides by zero: in the heap model `bigIntQuo` PANICS on a zero divisor
(`combineQuo`), and yet `TryQuo` returns on every heap — the divisors it hands to `bigIntQuo` are
bounds of the negative / positive parts of `y`, used only when those parts exist. -/
theorem quo_never_divides_by_zero (h : Heap) (g : GlobalsOK h) (x y : HIR) (vx : VR h x)
    (vy : VR h y) : ∃ r h', IntervalHeap.tryQuo x y h = some (r, h') := by
  obtain ⟨r, h', e, _⟩ := tryQuo_tot g vx vy
  exact ⟨r, h', e⟩

/-- transfer, an instance: what `Mul` returns at pointer level contains every product -/
theorem heap_mul_sound (h : Heap) (g : GlobalsOK h) (mk : MasksOK h) (x y : HIR) (vx : VR h x)
    (vy : VR h y)
    (a b : Int) (ha : (viewAt h x).mem a) (hb : (viewAt h y).mem b) :
    ∃ z h', runOp .mul x y h = some (some z, h') ∧ (viewAt h' z).mem (a * b) := by
  obtain ⟨r, h', e, _, _, ev⟩ :=
    heap_refines_value_model .mul h g mk x y vx vy
  simp only [pureOp, Option.some.injEq] at ev
  cases r with
  | none => cases ev
  | some z =>
    simp only [Option.map_some, Option.some.injEq] at ev
    exact ⟨z, h', e, ev ▸ mul_sound _ _ a b ha hb⟩

/-- transfer, an instance with failure: `TryQuo` at pointer level fails exactly when the divisor
range contains zero (both operands non-empty), and otherwise contains every truncated quotient -/
theorem heap_quo_sound (h : Heap) (g : GlobalsOK h) (mk : MasksOK h) (x y : HIR) (vx : VR h x)
    (vy : VR h y) :
    ∃ r h', runOp .quo x y h = some (r, h') ∧
      (r = none ↔ (viewAt h x).empty = false ∧ (viewAt h y).empty = false ∧ (viewAt h y).mem 0) ∧
      ∀ z, r = some z → ∀ a b, (viewAt h x).mem a → (viewAt h y).mem b →
        b ≠ 0 ∧ (viewAt h' z).mem (Int.tdiv a b) := by
  obtain ⟨r, h', e, _, _, ev⟩ :=
    heap_refines_value_model .quo h g mk x y vx vy
  simp only [pureOp, Option.some.injEq] at ev
  refine ⟨r, h', e, ?_, ?_⟩
  · rw [← quo_fails_iff, ev]
    cases r <;> simp
  · rintro z rfl a b ha hb
    exact quo_sound _ _ _ a b ha hb (by rw [ev]; rfl)

/-- transfer, the bit operators: `And` at pointer level never panics and its result contains
`a & b` for all members -/
theorem heap_and_sound (h : Heap) (g : GlobalsOK h) (mk : MasksOK h) (x y : HIR) (vx : VR h x)
    (vy : VR h y) (a b : Int) (ha : (viewAt h x).mem a) (hb : (viewAt h y).mem b) :
    ∃ z h', runOp .and x y h = some (some z, h') ∧ (viewAt h' z).mem (iand a b) := by
  obtain ⟨r, h', e, _, _, ev⟩ := heap_refines_value_model .and h g mk x y vx vy
  obtain ⟨Z, hZ⟩ := and_total (viewAt h x) (viewAt h y)
  simp only [pureOp, hZ, Option.map_some, Option.some.injEq] at ev
  cases r with
  | none => cases ev
  | some z =>
    simp only [Option.map_some, Option.some.injEq] at ev
    exact ⟨z, h', e, ev ▸ and_sound _ _ Z a b ha hb hZ⟩

/-! non-vacuity: the operators do run (return `some`) on concrete heaps, with operands placed on
top of the package-level objects by `setup`; the last example shows what the theorem excludes —
`split3Ways` itself returns operand and package-level pointers. -/

example :
    let (x, y, h) := setup ⟨some (-3), some 5⟩ ⟨some (-7), some 2⟩
    (runOp .mul x y h).map (fun r => (r.1.map (viewAt r.2), r.1.map (fun z => (classify x y h.size z.lo, classify x y h.size z.hi))))
      = some (some ⟨some (-35), some 21⟩, some (.fresh, .fresh)) := by decide

example :
    let (x, y, h) := setup ⟨some (-5), some 9⟩ ⟨some 3, some 12⟩
    (runOp .and x y h).map (fun r => (r.1.map (viewAt r.2), r.1.map (fun z => (classify x y h.size z.lo, classify x y h.size z.hi))))
      = some (some ⟨some 0, some 12⟩, some (.fresh, .fresh)) := by decide

example :
    let (x, y, h) := setup ⟨some (-3), some 5⟩ ⟨none, none⟩
    (split3Ways x h).map (fun r => (classify x y h.size r.1.1.lo, classify x y h.size r.1.1.hi,
        classify x y h.size r.1.2.1.lo, classify x y h.size r.1.2.1.hi))
      = some (.x0, .fresh, .fresh, .x1) := by decide

example :
    let (x, y, h) := setup ⟨some 3, some 5⟩ ⟨none, none⟩
    (split3Ways x h).map (fun r => (classify x y h.size r.1.1.lo, classify x y h.size r.1.1.hi))
      = some (.one, .minusOne) := by decide

end WuffsVerif.Props.C06
