/-
C09 (part: which fields can hold memory garbage at all).  Obligations over the regenerated
field partition of every std struct (`Gen/C09_StdFields.lean`, from the parsed AST of the
working tree; tied to the `private_impl` / `private_data` members of the C cgen emits by the
`partition` ops of the harness).

`initialize` zeroes every first-part field whatever the options and the prior memory
(`init_leave_uninit_zero_fields`); under LEAVE_INTERNAL_BUFFERS_UNINITIALIZED the second-part
fields keep the prior bytes (`leave_uninit_keeps_second_part`).  These theorems pin down what
can be in that second part in std.
-/
import WuffsVerif.Gen.C09_StdFields

namespace WuffsVerif.Props.C09
open WuffsVerif.Gen.C09

def allFields (p : StructInfo → FieldInfo → Bool) : Bool :=
  stdStructs.all (fun s => s.fields.all (p s))

/-- Every second-part field of std is an (array of) UNREFINED numeric type or a sub-struct
(which has its own initializer): the restriction of `parseExtraFieldNode`.  Hence arbitrary
prior bytes are always a valid inhabitant of the field's type — garbage can influence results,
but never the bounds / refinement facts the Wuffs compiler proved. -/
theorem std_second_part_unrefined_numeric_or_substruct :
    allFields (fun _ f => !f.second || f.kind == .numeric || f.kind == .substruct) = true := by
  decide +kernel

/-- Conversely every pointer-like (slice, table, nptr, io), bool, status, refined and by-value
base struct field of std lives in the first part, which `initialize` always zeroes: no wild
pointer, out-of-range refined value or non-0/1 bool can come from prior memory. -/
theorem std_non_numeric_fields_in_first_part :
    allFields (fun _ f =>
      !(f.kind == .pointer || f.kind == .bool || f.kind == .status || f.kind == .refined || f.kind == .other)
        || !f.second) = true := by
  decide +kernel

/-- Sub-struct fields are in the second part (where `Model/ObjInit.lean` and the emitted
`&self->private_data.f_x` expect them) and are never arrays: `writeInitializerImpl` skips arrays
of sub-structs ("TODO"), their initializers would not be called at all. -/
theorem std_substructs_second_part_not_arrays :
    allFields (fun _ f => !(f.kind == .substruct) || (f.second && f.dims == 0)) = true := by
  decide +kernel

/-- A second-part numeric field that some method of its struct reads is written by some method
of that struct (a necessary condition for "never read before written"; which ELEMENTS are
written before they are read is a data invariant of each decoder — every such field but one in
std is an array indexed by decoded data — and is searched for by the memory matrix). -/
theorem std_read_second_part_fields_have_a_writer :
    allFields (fun _ f => !(f.second && f.kind == .numeric) || f.readers.isEmpty || !f.writers.isEmpty) = true := by
  decide +kernel

/-- non-vacuity: the table is not empty and does contain second-part numeric arrays that are read. -/
example : stdStructs.length ≥ 20 ∧
    stdStructs.any (fun s => s.fields.any (fun f => f.second && f.kind == .numeric && !f.readers.isEmpty)) = true := by
  decide +kernel

end WuffsVerif.Props.C09
