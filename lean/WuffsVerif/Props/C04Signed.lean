/-
C04 — signed operand types (base.i8 … base.i64) in the theorems: the binary
node `(<lhs> <op> <rhs>)` that cgen writes for a comparison or `+ - *` whose
operands are signed variables and / or constants (Model/CSigned.lean; tied to
the working tree by the `lowersigned` ops of the shape check — the emitted text
with its literal suffixes — and by the signed battery of harness/cmd/c04).

  `signed_node_correct`        every such node, all values: C's promotions and usual arithmetic
                               conversions yield exactly the Wuffs meaning, no signed overflow
  `signed_u_suffix_wrong`      a `u` on the constant (the code before
                               fixes/C04-signed-operand-literal.patch) converts the signed operand
  `signed_m1_wrong`            seeded/C04-m1 (`signed` from the left operand only): `5 < x` at x = -1
                               and `10 - x` at x = 99 come out wrong
-/
import WuffsVerif.Model.CSigned

namespace WuffsVerif.Props.C04Signed
open WuffsVerif.CSigned

/-- the value of a Wuffs operand -/
def _root_.WuffsVerif.CSigned.Opd.val (env : Nat → Int) : Opd → Int
  | .var i => env i
  | .const c => c

def _root_.WuffsVerif.CSigned.Opd.isConst : Opd → Bool
  | .const _ => true
  | .var _ => false

/-- a constant operand is one a decimal literal can be written for -/
def _root_.WuffsVerif.CSigned.Opd.fits : Opd → Prop
  | .var _ => True
  | .const c => -(2 ^ 63) < c ∧ c < 2 ^ 63

theorem has_i8 {v : Int} (h : STy.i8.has v) : -128 ≤ v ∧ v < 128 := by simpa [STy.has, STy.bits] using h
theorem has_i16 {v : Int} (h : STy.i16.has v) : -32768 ≤ v ∧ v < 32768 := by simpa [STy.has, STy.bits] using h
theorem has_i32 {v : Int} (h : STy.i32.has v) : -2147483648 ≤ v ∧ v < 2147483648 := by
  simpa [STy.has, STy.bits] using h
theorem has_i64 {v : Int} (h : STy.i64.has v) : -9223372036854775808 ≤ v ∧ v < 9223372036854775808 := by
  simpa [STy.has, STy.bits] using h

/-- the bounds of a value of type `t`, whatever `t` is: inside `long`, and inside `int` unless `t` is i64 -/
theorem has_bounds (t : STy) {v : Int} (h : t.has v) :
    -9223372036854775808 ≤ v ∧ v < 9223372036854775808 ∧ (t ≠ .i64 → -2147483648 ≤ v ∧ v < 2147483648) := by
  cases t
  · have := has_i8 h; exact ⟨by omega, by omega, fun _ => by omega⟩
  · have := has_i16 h; exact ⟨by omega, by omega, fun _ => by omega⟩
  · have := has_i32 h; exact ⟨by omega, by omega, fun _ => by omega⟩
  · have := has_i64 h; exact ⟨by omega, by omega, fun hne => absurd rfl hne⟩

/-- evaluation at a signed common type is exact when the result fits it -/
theorem evalK_signed (op : SOp) (k : KTy) (hk : k = .int ∨ k = .long) (a b : Int)
    (hfit : op.isCmp = false → k.has (op.ideal a b)) : evalK op k a b = some (op.ideal a b) := by
  unfold evalK
  cases hc : op.isCmp
  · have := hfit hc
    rcases hk with rfl | rfl <;> simp [this]
  · simp

/-- **signed_node_correct.**  A comparison or `+ - *` whose operands are
variables of a signed type `t` (holding values of `t`) and / or constants
(not both constants: such a node is folded), the arithmetic result being a
value of `t` (what the checker establishes): the C `(<lhs> <op> <rhs>)` with
bare literals evaluates, without signed overflow, to exactly the Wuffs meaning
— 0 / 1 for a comparison. -/
theorem signed_node_correct (t : STy) (op : SOp) (l r : Opd) (env : Nat → Int)
    (hvar : ∀ i, t.has (env i)) (hl : l.fits) (hr : r.fits) (hnc : ¬(l.isConst = true ∧ r.isConst = true))
    (hres : op.isCmp = false → t.has (op.ideal (l.val env) (r.val env))) :
    evalNode t env op (lowerSigned l r).1 (lowerSigned l r).2 = some (op.ideal (l.val env) (r.val env)) := by
  -- every operand is an `int` or a `long` whose value is the Wuffs value
  have opd : ∀ o : Opd, o.fits → ∃ k, (lowerOpd o).eval t env = some (k, o.val env) ∧ (k = .int ∨ k = .long) ∧
      (k = .int → -2147483648 ≤ o.val env ∧ o.val env < 2147483648) := by
    intro o ho
    cases o with
    | var i =>
      refine ⟨KTy.ofS t, rfl, ?_, ?_⟩
      · cases t <;> simp [KTy.ofS]
      · intro hk
        have hb := has_bounds t (hvar i)
        have : t ≠ .i64 := by intro h; subst h; simp [KTy.ofS] at hk
        exact hb.2.2 this
    | const c =>
      simp only [Opd.fits] at ho
      have ho' : -9223372036854775808 < c ∧ c < 9223372036854775808 := by omega
      by_cases hs : -2147483648 < c ∧ c < 2147483648
      · exact ⟨.int, by simp [lowerOpd, COpd.eval, litK, hs, Opd.val], Or.inl rfl,
          fun _ => by simp only [Opd.val]; omega⟩
      · exact ⟨.long, by simp [lowerOpd, COpd.eval, litK, hs, ho', Opd.val], Or.inr rfl, fun h => by cases h⟩
  obtain ⟨kl, hkl, hkl', hil⟩ := opd l hl
  obtain ⟨kr, hkr, hkr', hir⟩ := opd r hr
  simp only [evalNode, lowerSigned, hkl, hkr]
  have hk : uacK kl kr = .int ∨ uacK kl kr = .long := by
    rcases hkl' with rfl | rfl <;> rcases hkr' with rfl | rfl <;> simp [uacK]
  have hconv : ∀ v, (uacK kl kr).conv v = v := by
    intro v; rcases hk with h | h <;> simp [h, KTy.conv]
  rw [hconv, hconv]
  apply evalK_signed op _ hk
  intro hc
  have hb := has_bounds t (hres hc)
  rcases hkl' with rfl | rfl <;> rcases hkr' with rfl | rfl <;> simp only [uacK, KTy.has]
  · -- both operands are `int`s: then the node's type is not i64 … unless both are constants
    by_cases ht : t = .i64
    · subst ht
      cases l <;> cases r <;> simp_all [lowerOpd, COpd.eval, KTy.ofS, Opd.isConst]
    · have := hb.2.2 ht; omega
  all_goals omega

/-- non-vacuity: `(x - 100)` at base.i8, x = -28 -/
example : evalNode .i8 (fun _ => -28) .sub (lowerSigned (.var 0) (.const 100)).1 (lowerSigned (.var 0) (.const 100)).2
    = some (-128) := by decide

/-- **signed_u_suffix_wrong.**  With the `u` suffix (`x < 100u`), C converts the
signed operand to `unsigned int`: at x = -1 the comparison is false, and
`x + 1u` is 0 only because it wrapped — at x = -2 it is 4294967295. -/
theorem signed_u_suffix_wrong :
    evalNode .i8 (fun _ => -1) .lt (.var 0) (.lit 100 true) = some 0 ∧ SOp.ideal .lt (-1) 100 = 1 ∧
    evalNode .i32 (fun _ => -2) .add (.var 0) (.lit 1 true) = some 4294967295 ∧ SOp.ideal .add (-2) 1 = -1 := by
  decide

/-- **signed_m1_wrong.**  seeded/C04-m1 decides the suffix from the LEFT
operand's type only: `5 < x` and `10 - x` (constant on the left) are written
`5u < x`, `10u - x`.  At x = -1 the first is 1 where the source means 0; at
x = 99 the second is 4294967207 where the source means -89.  With the variable
on the left nothing changes. -/
theorem signed_m1_wrong :
    evalNode .i8 (fun _ => -1) .lt (lowerSignedM1 (.const 5) (.var 0)).1 (lowerSignedM1 (.const 5) (.var 0)).2 = some 1 ∧
    SOp.ideal .lt 5 (-1) = 0 ∧
    evalNode .i8 (fun _ => 99) .sub (lowerSignedM1 (.const 10) (.var 0)).1 (lowerSignedM1 (.const 10) (.var 0)).2
      = some 4294967207 ∧
    SOp.ideal .sub 10 99 = -89 ∧
    lowerSignedM1 (.var 0) (.const 5) = lowerSigned (.var 0) (.const 5) := by
  decide

/-- the text the shape check compares: `(< 5 x)`; under seeded/C04-m1 `(< 5u x)` -/
example : showNode .lt (lowerSigned (.const 5) (.var 0)) = "(< 5 x)" ∧
    showNode .lt (lowerSignedM1 (.const 5) (.var 0)) = "(< 5u x)" := by decide

end WuffsVerif.Props.C04Signed
