/-
C08 — the I/O buffer contract is COMPOSITIONAL: bodies that hand their io argument on to other
functions (private helpers, the coroutines of embedded decoders — gzip→deflate, png→zlib→deflate,
xz→lzma, …) keep the contract provided every callee does, and a body all of whose `io_limit` blocks
are complete is again such a callee. By induction over the (finite, non-recursive: lang/check rejects
recursion) call tree the contract of the leaves — bodies made of built-ins only, `Props/C08IO.lean` —
lifts to every function of a generated package.

Model: `IOBuf.Step`, `execCall` (var.go `writeSaveExprDerivedVars` / `writeLoadExprDerivedVars`).
-/
import WuffsVerif.Model.IOBuf
import WuffsVerif.Props.C08IO

namespace WuffsVerif.Props.C08Call
open WuffsVerif.IOBuf WuffsVerif.Props.C08IO

/-- What a caller relies on when it passes a SOURCE buffer on: the contract of the property
(`ri ≤ wi ≤ len` kept, `ri` not moved back, bytes unchanged) plus "what I did not give you, you did not
take": `len`, `wi`, `closed`, `data.ptr` come back as they were. -/
def ReaderOK (f : Buf → Buf) : Prop :=
  ∀ b, b.valid →
    (f b).valid ∧ b.ri ≤ (f b).ri ∧ (f b).mem = b.mem ∧ (f b).len = b.len ∧ (f b).wi = b.wi ∧
    (f b).closed = b.closed ∧ (f b).hasPtr = b.hasPtr

/-- The same for an open (not closed) DESTINATION buffer: `wi` not moved back, `ri` untouched, bytes
below the old `wi` unchanged, `len`, `closed`, `data.ptr` as they were. (A closed destination accepts
nothing — `io2 = iop` at function entry — and an `io_limit` block on it even "restores" `data.len` to
that `io2`, see the last example of Props/C08IO.lean; the composition theorems below are stated for
open destinations, the leaf theorem `iobuf_inv_writer` covers closed ones.) -/
def WriterOK (f : Buf → Buf) : Prop :=
  ∀ b, b.valid → b.closed = false →
    (f b).valid ∧ b.wi ≤ (f b).wi ∧ (f b).ri = b.ri ∧ (∀ i, i < b.wi → (f b).mem[i]? = b.mem[i]?) ∧
    (f b).mem.length = b.mem.length ∧ (f b).len = b.len ∧ (f b).closed = b.closed ∧
    (f b).hasPtr = b.hasPtr

/-- Every callee of a body keeps the contract for the role `w`. -/
def CalleesOK (w : Bool) : List Step → Prop
  | [] => True
  | .prim _ :: r => CalleesOK w r
  | .call f :: r => (if w then WriterOK f else ReaderOK f) ∧ CalleesOK w r

theorem CalleesOK_append (w : Bool) (a b : List Step) :
    CalleesOK w (a ++ b) ↔ CalleesOK w a ∧ CalleesOK w b := by
  induction a with
  | nil => simp [CalleesOK]
  | cons x r ih => cases x <;> simp [CalleesOK, ih, and_assoc]

/-! ### the invariants of `Props/C08IO.lean` survive a call -/

theorem execCall_RInv (b0 : Buf) (hv : b0.valid) (s : St) (f : Buf → Buf) (hf : ReaderOK f)
    (h : RInv b0 s) : RInv b0 (execCall s f) := by
  obtain ⟨hw, hmem, hlen, hri, hhp, hio1, hlo, hhi, hwi, hch⟩ := h
  obtain ⟨h1, h2, h3, h4⟩ := hv
  have hle := hch.le
  -- the buffer the callee receives is valid
  have hb1 : (saveForCall s).valid := by
    unfold saveForCall Buf.valid
    simp only [hw, Bool.false_eq_true, ↓reduceIte]
    refine ⟨by omega, by omega, by rw [hmem]; omega, ?_⟩
    intro hp; rw [hhp] at hp; have := h4 hp; omega
  obtain ⟨g1, g2, g3, g4, g5, g6, g7⟩ := hf _ hb1
  have e1 : (saveForCall s).ri = s.iop := by simp [saveForCall, hw]
  have e2 : (saveForCall s).wi = s.b.wi := by simp [saveForCall, hw]
  have e3 : (saveForCall s).mem = s.b.mem := by simp [saveForCall, hw]
  have e4 : (saveForCall s).len = s.b.len := by simp [saveForCall, hw]
  have e5 : (saveForCall s).hasPtr = s.b.hasPtr := by simp [saveForCall, hw]
  obtain ⟨v1, v2, v3, v4⟩ := g1
  unfold execCall loadAfterCall
  simp only [hw, Bool.false_eq_true, ↓reduceIte]
  exact {
    w := rfl
    mem := by dsimp only; rw [g3, e3]; exact hmem
    len := by dsimp only; rw [g4, e4]; exact hlen
    ri := by
      dsimp only
      intro hp
      rw [g7, e5, hhp] at hp
      have := h4 hp
      rw [g4, e4, hlen] at v2
      omega
    hp := by dsimp only; rw [g7, e5]; exact hhp
    io1 := hio1
    lo := by dsimp only; rw [e1] at g2; omega
    hi := by dsimp only; rw [g5, e2] at v1; omega
    wi := by dsimp only; rw [g5, e2]; exact hwi
    chain := hch }

theorem execCall_WInv (b0 : Buf) (hv : b0.valid) (hopen : b0.closed = false) (s : St)
    (f : Buf → Buf) (hf : WriterOK f) (h : WInv b0 s) : WInv b0 (execCall s f) := by
  obtain ⟨hw, hml, hbelow, hri, hwi, hhp, hcl, hsync, hio1, hlo, hhi, hcap, hlenle, hch⟩ := h
  obtain ⟨h1, h2, h3, h4⟩ := hv
  have hb1 : (saveForCall s).valid := by
    unfold saveForCall Buf.valid
    simp only [hw, ↓reduceIte]
    refine ⟨by omega, by omega, by omega, ?_⟩
    intro hp; rw [hhp] at hp; have := h4 hp; omega
  have hc1 : (saveForCall s).closed = false := by simp [saveForCall, hw, hcl, hopen]
  obtain ⟨g1, g2, g3, g4, g5, g6, g7, g8⟩ := hf _ hb1 hc1
  have e1 : (saveForCall s).wi = s.iop := by simp [saveForCall, hw]
  have e2 : (saveForCall s).ri = s.b.ri := by simp [saveForCall, hw]
  have e3 : (saveForCall s).mem = s.b.mem := by simp [saveForCall, hw]
  have e4 : (saveForCall s).len = s.b.len := by simp [saveForCall, hw]
  have e5 : (saveForCall s).hasPtr = s.b.hasPtr := by simp [saveForCall, hw]
  have e6 : (saveForCall s).closed = s.b.closed := by simp [saveForCall, hw]
  obtain ⟨v1, v2, v3, v4⟩ := g1
  unfold execCall loadAfterCall
  simp only [hw, ↓reduceIte]
  exact {
    w := rfl
    memlen := by dsimp only; rw [g5, e3]; exact hml
    below := by
      dsimp only
      intro i hi'
      rw [g4 i (by rw [e1]; omega), e3]
      exact hbelow i hi'
    ri := by dsimp only; rw [g3, e2]; exact hri
    wi := by
      dsimp only
      intro hp
      rw [g8, e5, hhp] at hp
      have := h4 hp
      rw [g6, e4] at v2
      omega
    hp := by dsimp only; rw [g8, e5]; exact hhp
    closed := by dsimp only; rw [g7, e6]; exact hcl
    sync := by dsimp only; intro hc; rw [g6, e4]; exact hsync hc
    io1 := hio1
    lo := by dsimp only; rw [e1] at g2; omega
    hi := by
      dsimp only
      -- the callee's new write index is within the caller's `io2`
      have := hsync hopen
      rw [g6, e4] at v2
      omega
    cap := by dsimp only; rw [g6, e4]; exact hcap
    lenle := by dsimp only; rw [g6, e4]; exact hlenle
    chain := hch }

theorem runS_RInv (b0 : Buf) (hv : b0.valid) (l : List Step) (hl : CalleesOK false l) (s : St)
    (h : RInv b0 s) : RInv b0 (runS s l) := by
  induction l generalizing s with
  | nil => exact h
  | cons x r ih =>
    cases x with
    | prim i => exact ih hl _ (exec_RInv b0 s i h)
    | call f => exact ih hl.2 _ (execCall_RInv b0 hv s f (by simpa using hl.1) h)

theorem runS_WInv (b0 : Buf) (hv : b0.valid) (hopen : b0.closed = false) (l : List Step)
    (hl : CalleesOK true l) (s : St) (h : WInv b0 s) : WInv b0 (runS s l) := by
  induction l generalizing s with
  | nil => exact h
  | cons x r ih =>
    cases x with
    | prim i => exact ih hl _ (exec_WInv b0 s i h)
    | call f => exact ih hl.2 _ (execCall_WInv b0 hv hopen s f (by simpa using hl.1) h)

/-- **iobuf_inv with calls, source side.** A body (or any prefix of one: every exit path) made of
the modelled reader operations, `io_limit` blocks and calls that pass the source on to callees that
keep the contract, keeps the contract. -/
theorem iobuf_inv_reader_calls (b0 : Buf) (hv : b0.valid) (l : List Step) (hl : CalleesOK false l) :
    (callIOS false b0 l).valid ∧ b0.ri ≤ (callIOS false b0 l).ri ∧
    (callIOS false b0 l).mem = b0.mem ∧ (callIOS false b0 l).len = b0.len ∧
    (callIOS false b0 l).wi ≤ b0.wi :=
  reader_final b0 hv _ (runS_RInv b0 hv l hl _ (load_RInv b0 hv))

/-- **iobuf_inv with calls, destination side.** -/
theorem iobuf_inv_writer_calls (b0 : Buf) (hv : b0.valid) (hopen : b0.closed = false) (l : List Step)
    (hl : CalleesOK true l) :
    (callIOS true b0 l).valid ∧ b0.wi ≤ (callIOS true b0 l).wi ∧ (callIOS true b0 l).ri = b0.ri ∧
    (∀ i, i < b0.wi → (callIOS true b0 l).mem[i]? = b0.mem[i]?) ∧ (callIOS true b0 l).len ≤ b0.len :=
  writer_final b0 hv _ (runS_WInv b0 hv hopen l hl _ (load_WInv b0 hv))

/-! ### complete `io_limit` blocks: the body is itself a callee that keeps the contract -/

theorem runS_append (s : St) (a b : List Step) : runS s (a ++ b) = runS (runS s a) b := by
  simp [runS, List.foldl_append]

/-- The fields a complete block structure restores, for step lists. `wi` is compared for readers
only and `len` for writers only (the other one legitimately moves: a writer's `wi` is brought up to date
by the callee). -/
structure SameS (s s' : St) : Prop where
  w : s'.w = s.w
  io0 : s'.io0 = s.io0
  io1 : s'.io1 = s.io1
  io2 : s'.io2 = s.io2
  closed : s'.b.closed = s.b.closed
  wi : s.w = false → s'.b.wi = s.b.wi
  len : s'.b.len = s.b.len
  stack : s'.stack = s.stack

theorem SameS.refl (s : St) : SameS s s := by constructor <;> intros <;> rfl

theorem SameS.trans {a b c : St} (h1 : SameS a b) (h2 : SameS b c) : SameS a c := by
  obtain ⟨a1, a2, a3, a4, a5, a6, a7, a8⟩ := h1
  obtain ⟨b1, b2, b3, b4, b5, b6, b7, b8⟩ := h2
  constructor
  · rw [b1, a1]
  · rw [b2, a2]
  · rw [b3, a3]
  · rw [b4, a4]
  · rw [b5, a5]
  · intro hw; rw [b6 (by rw [a1]; exact hw), a6 hw]
  · rw [b7, a7]
  · rw [b8, a8]

theorem SameS.sync {a b : St} (h : SameS a b) (hs : Sync a) : Sync b := by
  obtain ⟨a1, a2, a3, a4, a5, a6, a7, a8⟩ := h
  unfold Sync at *
  cases hw : a.w
  · simp only [hw, Bool.false_eq_true, ↓reduceIte, a1] at hs ⊢
    rw [a6 hw, a4]; exact hs
  · simp only [hw, ↓reduceIte, a1] at hs ⊢
    rw [a7, a4]; exact hs

theorem sameS_of_same {a b : St} (h : Same a b) : SameS a b := by
  obtain ⟨a1, a2, a3, a4, a5, a6, a7, a8⟩ := h
  exact ⟨a1, a2, a3, a4, a5, fun _ => a6, a7, a8⟩

/-- During a body the role never changes and, with valid inputs, the invariant holds; this packages
what `balancedS_same` needs at a call step. -/
def InvW (b0 : Buf) (s : St) : Prop := if s.w then (b0.closed = false ∧ WInv b0 s) else RInv b0 s

theorem execStep_InvW (b0 : Buf) (hv : b0.valid) (s : St) (x : Step)
    (hx : CalleesOK s.w [x]) (h : InvW b0 s) : InvW b0 (execStep s x) ∧ (execStep s x).w = s.w := by
  unfold InvW at *
  cases hw : s.w
  · simp only [hw, Bool.false_eq_true, ↓reduceIte] at h hx
    cases x with
    | prim i =>
      have := exec_RInv b0 s i h
      simp only [execStep, this.w, Bool.false_eq_true, ↓reduceIte]; exact ⟨this, trivial⟩
    | call f =>
      have := execCall_RInv b0 hv s f (by simpa [CalleesOK] using hx) h
      simp only [execStep, this.w, Bool.false_eq_true, ↓reduceIte]; exact ⟨this, trivial⟩
  · simp only [hw, ↓reduceIte] at h hx
    cases x with
    | prim i =>
      have := exec_WInv b0 s i h.2
      simp only [execStep, this.w, ↓reduceIte]; exact ⟨⟨h.1, this⟩, trivial⟩
    | call f =>
      have := execCall_WInv b0 hv h.1 s f (by simpa [CalleesOK] using hx) h.2
      simp only [execStep, this.w, ↓reduceIte]; exact ⟨⟨h.1, this⟩, trivial⟩

theorem runS_InvW (b0 : Buf) (hv : b0.valid) (l : List Step) (s : St) (hl : CalleesOK s.w l)
    (h : InvW b0 s) : InvW b0 (runS s l) ∧ (runS s l).w = s.w := by
  induction l generalizing s with
  | nil => exact ⟨h, rfl⟩
  | cons x r ih =>
    have hx : CalleesOK s.w [x] := by cases x <;> simp_all [CalleesOK]
    have hr : CalleesOK s.w r := by cases x <;> simp_all [CalleesOK]
    have h1 := execStep_InvW b0 hv s x hx h
    have h2 := ih (execStep s x) (by rw [h1.2]; exact hr) h1.1
    have e : runS s (x :: r) = runS (execStep s x) r := rfl
    rw [e]
    exact ⟨h2.1, by rw [h2.2, h1.2]⟩

theorem execCall_sameS (b0 : Buf) (hv : b0.valid) (s : St) (f : Buf → Buf)
    (hf : if s.w then WriterOK f else ReaderOK f) (h : InvW b0 s) : SameS s (execCall s f) := by
  unfold InvW at h
  obtain ⟨h1, h2, h3, h4⟩ := hv
  cases hw : s.w
  · simp only [hw, Bool.false_eq_true, ↓reduceIte] at h hf
    obtain ⟨_, hmem, hlen, hri, hhp, hio1, hlo, hhi, hwi, hch⟩ := h
    have hle := hch.le
    have hb1 : (saveForCall s).valid := by
      unfold saveForCall Buf.valid
      simp only [hw, Bool.false_eq_true, ↓reduceIte]
      refine ⟨by omega, by omega, by rw [hmem]; omega, ?_⟩
      intro hp; rw [hhp] at hp; have := h4 hp; omega
    obtain ⟨g1, g2, g3, g4, g5, g6, g7⟩ := hf _ hb1
    unfold execCall loadAfterCall
    constructor <;> dsimp only <;> first | rfl | skip
    · rw [g6]; simp [saveForCall, hw]
    · intro _; rw [g5]; simp [saveForCall, hw]
    · rw [g4]; simp [saveForCall, hw]
  · simp only [hw, ↓reduceIte] at h hf
    obtain ⟨hopen, _, hml, hbelow, hri, hwi, hhp, hcl, hsync, hio1, hlo, hhi, hcap, hlenle, hch⟩ := h
    have hb1 : (saveForCall s).valid := by
      unfold saveForCall Buf.valid
      simp only [hw, ↓reduceIte]
      refine ⟨by omega, by omega, by omega, ?_⟩
      intro hp; rw [hhp] at hp; have := h4 hp; omega
    have hc1 : (saveForCall s).closed = false := by simp [saveForCall, hw, hcl, hopen]
    obtain ⟨g1, g2, g3, g4, g5, g6, g7, g8⟩ := hf _ hb1 hc1
    unfold execCall loadAfterCall
    constructor <;> dsimp only <;> first | rfl | skip
    · rw [g7]; simp [saveForCall, hw]
    · intro h'; rw [hw] at h'; cases h'
    · rw [g6]; simp [saveForCall, hw]

/-- **Complete blocks restore, with calls.** -/
theorem balancedS_same (b0 : Buf) (hv : b0.valid) (l : List Step) (hb : BalancedS l) (s : St)
    (hl : CalleesOK s.w l) (hi : InvW b0 s) (hs : Sync s) : SameS s (runS s l) := by
  induction hb generalizing s with
  | nil => exact SameS.refl s
  | prim i rest h1 h2 _ ih =>
    have h := sameS_of_same (exec_simple_same s i h1 h2)
    have hst : InvW b0 (exec s i) ∧ (exec s i).w = s.w :=
      execStep_InvW b0 hv s (.prim i) (by simp [CalleesOK]) hi
    have hr : CalleesOK (exec s i).w rest := by
      have : (exec s i).w = s.w := hst.2
      rw [this]; simpa [CalleesOK] using hl
    exact h.trans (ih _ hr hst.1 (h.sync hs))
  | call f rest _ ih =>
    have hf : if s.w then WriterOK f else ReaderOK f := by simpa [CalleesOK] using hl.1
    have h := execCall_sameS b0 hv s f hf hi
    have hst : InvW b0 (execCall s f) ∧ (execCall s f).w = s.w :=
      execStep_InvW b0 hv s (.call f) (by simpa [CalleesOK] using hl.1) hi
    have hr : CalleesOK (execCall s f).w rest := by
      have : (execCall s f).w = s.w := hst.2
      rw [this]; exact hl.2
    exact h.trans (ih _ hr hst.1 (h.sync hs))
  | block lim body rest _ _ ihb ihr =>
    have e : runS s (Step.prim (Instr.limitBegin lim) :: (body ++ Step.prim Instr.limitEnd :: rest)) =
        runS (exec (runS (exec s (.limitBegin lim)) body) .limitEnd) rest := by
      simp [runS, List.foldl_append, execStep]
    rw [e]
    have hl' : CalleesOK s.w body ∧ CalleesOK s.w rest := by
      have : CalleesOK s.w (body ++ Step.prim Instr.limitEnd :: rest) := by simpa [CalleesOK] using hl
      rw [CalleesOK_append] at this
      exact ⟨this.1, by simpa [CalleesOK] using this.2⟩
    -- s1: after the block entry; s2: after the body; s3: after the block exit
    have hst1 : InvW b0 (exec s (.limitBegin lim)) ∧ (exec s (.limitBegin lim)).w = s.w :=
      execStep_InvW b0 hv s (.prim (.limitBegin lim)) (by simp [CalleesOK]) hi
    have hw1 : (exec s (.limitBegin lim)).w = s.w := hst1.2
    have hs1 : Sync (exec s (.limitBegin lim)) := by
      unfold Sync; simp only [exec]; cases s.w <;> simp
    have h12 := ihb _ (by rw [hw1]; exact hl'.1) hst1.1 hs1
    have hst2 := runS_InvW b0 hv body _ (by rw [hw1]; exact hl'.1) hst1.1
    have hst3 : InvW b0 (exec (runS (exec s (.limitBegin lim)) body) .limitEnd) ∧ _ :=
      execStep_InvW b0 hv _ (.prim .limitEnd) (by simp [CalleesOK]) hst2.1
    have h03 : SameS s (exec (runS (exec s (.limitBegin lim)) body) .limitEnd) := by
      obtain ⟨c1, c2, c3, c4, c5, c6, c7, c8⟩ := h12
      have hst : (runS (exec s (.limitBegin lim)) body).stack = (s.io2, s.b.closed) :: s.stack := by
        rw [c8]; simp [exec]
      have hw2 : (runS (exec s (.limitBegin lim)) body).w = s.w := by rw [c1]; simp [exec]
      unfold Sync at hs
      simp only [exec]
      cases hw : s.w
      · simp only [hw, Bool.false_eq_true, ↓reduceIte] at hs ⊢
        constructor <;> simp_all [exec]
      · simp only [hw, ↓reduceIte] at hs ⊢
        constructor <;> simp_all [exec]
    have hw3 : (exec (runS (exec s (.limitBegin lim)) body) .limitEnd).w = s.w := h03.w
    exact h03.trans (ihr _ (by rw [hw3]; exact hl'.2) hst3.1 (h03.sync hs))

/-- **The contract is closed under composition (source).** A body whose `io_limit` blocks are all
complete and whose callees keep the reader contract is itself a function that keeps it — so the
contract holds for call trees of any depth. -/
theorem balanced_calls_ReaderOK (l : List Step) (hb : BalancedS l) (hl : CalleesOK false l) :
    ReaderOK (fun b => callIOS false b l) := by
  intro b0 hv
  have hinv := iobuf_inv_reader_calls b0 hv l hl
  obtain ⟨h1, h2, h3, h4⟩ := hv
  have hw0 : (load false b0).w = false := by unfold load; cases b0.hasPtr <;> simp
  have hs : Sync (load false b0) := by
    unfold Sync load
    cases hp : b0.hasPtr
    · have := h4 hp
      simp; omega
    · simp
  have hi : InvW b0 (load false b0) := by
    unfold InvW; rw [hw0]; simpa using load_RInv b0 ⟨h1, h2, h3, h4⟩
  obtain ⟨c1, c2, c3, c4, c5, c6, c7, c8⟩ :=
    balancedS_same b0 ⟨h1, h2, h3, h4⟩ l hb _ (by rw [hw0]; exact hl) hi hs
  have hw : (runS (load false b0) l).w = false := by rw [c1, hw0]
  have hwi : (load false b0).b.wi = b0.wi := by unfold load; cases b0.hasPtr <;> simp
  have hcl : (load false b0).b.closed = b0.closed := by unfold load; cases b0.hasPtr <;> simp
  have hhp : (runS (load false b0) l).b.hasPtr = b0.hasPtr :=
    (runS_RInv b0 ⟨h1, h2, h3, h4⟩ l hl _ (load_RInv b0 ⟨h1, h2, h3, h4⟩)).hp
  refine ⟨hinv.1, hinv.2.1, hinv.2.2.1, hinv.2.2.2.1, ?_, ?_, ?_⟩
  · show (finalSave (runS (load false b0) l)).wi = b0.wi
    unfold finalSave
    split
    · rw [c6 hw0, hwi]
    · simp only [hw, Bool.false_eq_true, ↓reduceIte]; rw [c6 hw0, hwi]
  · show (finalSave (runS (load false b0) l)).closed = b0.closed
    unfold finalSave
    split
    · rw [c5, hcl]
    · simp only [hw, Bool.false_eq_true, ↓reduceIte]; rw [c5, hcl]
  · show (finalSave (runS (load false b0) l)).hasPtr = b0.hasPtr
    unfold finalSave
    split
    · exact hhp
    · simp only [hw, Bool.false_eq_true, ↓reduceIte]; exact hhp

/-- **The contract is closed under composition (destination).** The same for an open destination
buffer. -/
theorem balanced_calls_WriterOK (l : List Step) (hb : BalancedS l) (hl : CalleesOK true l) :
    WriterOK (fun b => callIOS true b l) := by
  intro b0 hv hopen
  have hinv := iobuf_inv_writer_calls b0 hv hopen l hl
  have hI := runS_WInv b0 hv hopen l hl _ (load_WInv b0 hv)
  obtain ⟨h1, h2, h3, h4⟩ := hv
  have hw0 : (load true b0).w = true := by unfold load; cases b0.hasPtr <;> simp
  have hw : (runS (load true b0) l).w = true := hI.w
  have hfs : ∀ s : St, s.w = true → (finalSave s).mem = s.b.mem ∧ (finalSave s).len = s.b.len ∧
      (finalSave s).closed = s.b.closed ∧ (finalSave s).hasPtr = s.b.hasPtr := by
    intro s hs; unfold finalSave; split
    · exact ⟨rfl, rfl, rfl, rfl⟩
    · simp
  obtain ⟨f1, f2, f3, f4⟩ := hfs _ hw
  have hlen : (callIOS true b0 l).len = b0.len := by
    -- complete blocks restore `data.len`
    have hs : Sync (load true b0) := by
      unfold Sync load
      cases hp : b0.hasPtr
      · have := h4 hp
        simp; omega
      · simp [hopen]
    have hi : InvW b0 (load true b0) := by
      unfold InvW; rw [hw0]; simpa using ⟨hopen, load_WInv b0 ⟨h1, h2, h3, h4⟩⟩
    obtain ⟨c1, c2, c3, c4, c5, c6, c7, c8⟩ :=
      balancedS_same b0 ⟨h1, h2, h3, h4⟩ l hb _ (by rw [hw0]; exact hl) hi hs
    have hl0 : (load true b0).b.len = b0.len := by unfold load; cases b0.hasPtr <;> simp
    show (finalSave (runS (load true b0) l)).len = b0.len
    rw [f2, c7, hl0]
  refine ⟨hinv.1, hinv.2.1, hinv.2.2.1, hinv.2.2.2.1, ?_, hlen, ?_, ?_⟩
  · show (finalSave (runS (load true b0) l)).mem.length = b0.mem.length
    rw [f1]; exact hI.memlen
  · show (finalSave (runS (load true b0) l)).closed = b0.closed
    rw [f3]; exact hI.closed
  · show (finalSave (runS (load true b0) l)).hasPtr = b0.hasPtr
    rw [f4]; exact hI.hp

/-! ### the leaves: bodies made of built-ins only are such callees -/

/-- A body without calls, as a step list. -/
def prims (is : List Instr) : List Step := is.map .prim

theorem runS_prims (s : St) (is : List Instr) : runS s (prims is) = runI s is := by
  induction is generalizing s with
  | nil => rfl
  | cons i r ih => simp only [prims, List.map_cons, runS, List.foldl_cons, execStep, runI] at *; exact ih _

theorem calleesOK_prims (w : Bool) (is : List Instr) : CalleesOK w (prims is) := by
  induction is with
  | nil => trivial
  | cons i r ih => simpa [prims, CalleesOK] using ih

theorem balancedS_prims (is : List Instr) (hb : Balanced is) : BalancedS (prims is) := by
  induction hb with
  | nil => exact .nil
  | simple i rest h1 h2 _ ih => exact .prim i _ h1 h2 ih
  | block lim body rest _ _ ihb ihr =>
    have : prims (Instr.limitBegin lim :: (body ++ Instr.limitEnd :: rest)) =
        Step.prim (Instr.limitBegin lim) :: (prims body ++ Step.prim Instr.limitEnd :: prims rest) := by
      simp [prims]
    rw [this]
    exact .block lim _ _ ihb ihr

/-- Base case of the induction over the call tree: a reader body of built-ins and complete `io_limit`
blocks keeps the contract a caller relies on. -/
theorem leaf_ReaderOK (is : List Instr) (hb : Balanced is) : ReaderOK (fun b => callIO false b is) := by
  have h := balanced_calls_ReaderOK (prims is) (balancedS_prims is hb) (calleesOK_prims false is)
  intro b hv
  have := h b hv
  simpa [callIOS, callIO, runS_prims] using this

/-- … and a writer body of built-ins and complete `io_limit` blocks, on an open destination. -/
theorem leaf_WriterOK (is : List Instr) (hb : Balanced is) : WriterOK (fun b => callIO true b is) := by
  have h := balanced_calls_WriterOK (prims is) (balancedS_prims is hb) (calleesOK_prims true is)
  intro b hv hc
  have := h b hv hc
  simpa [callIOS, callIO, runS_prims] using this

/-! ### every sequence of calls -/

/-- **The source side of the contract along a whole history.** Any number of consecutive calls, each
with any body of the modelled kind (any exit point, any callees that keep the contract), on the same
source buffer: it stays valid, the read index never moves back, the bytes and `len` never change, `wi`
never grows — relative to the state before the FIRST call. -/
theorem reader_history (bodies : List (List Step)) (hb : ∀ l ∈ bodies, CalleesOK false l) (b0 : Buf)
    (hv : b0.valid) :
    (bodies.foldl (fun b l => callIOS false b l) b0).valid ∧
    b0.ri ≤ (bodies.foldl (fun b l => callIOS false b l) b0).ri ∧
    (bodies.foldl (fun b l => callIOS false b l) b0).mem = b0.mem ∧
    (bodies.foldl (fun b l => callIOS false b l) b0).len = b0.len ∧
    (bodies.foldl (fun b l => callIOS false b l) b0).wi ≤ b0.wi := by
  induction bodies generalizing b0 with
  | nil => exact ⟨hv, Nat.le_refl _, rfl, rfl, Nat.le_refl _⟩
  | cons l r ih =>
    have h1 := iobuf_inv_reader_calls b0 hv l (hb l (by simp))
    have h2 := ih (fun l' hl' => hb l' (by simp [hl'])) (callIOS false b0 l) h1.1
    simp only [List.foldl_cons]
    refine ⟨h2.1, Nat.le_trans h1.2.1 h2.2.1, ?_, ?_, Nat.le_trans h2.2.2.2.2 h1.2.2.2.2⟩
    · rw [h2.2.2.1, h1.2.2.1]
    · rw [h2.2.2.2.1, h1.2.2.2.1]

/-- **The destination side along a whole history** (open destination): valid, the write index never
moves back, `ri` untouched, every byte below the write index before the FIRST call unchanged, `len` not
grown. -/
theorem writer_history (bodies : List (List Step)) (hb : ∀ l ∈ bodies, CalleesOK true l) (b0 : Buf)
    (hv : b0.valid) (hopen : b0.closed = false) :
    (bodies.foldl (fun b l => callIOS true b l) b0).valid ∧
    b0.wi ≤ (bodies.foldl (fun b l => callIOS true b l) b0).wi ∧
    (bodies.foldl (fun b l => callIOS true b l) b0).ri = b0.ri ∧
    (∀ i, i < b0.wi → (bodies.foldl (fun b l => callIOS true b l) b0).mem[i]? = b0.mem[i]?) ∧
    (bodies.foldl (fun b l => callIOS true b l) b0).len ≤ b0.len := by
  induction bodies generalizing b0 with
  | nil => exact ⟨hv, Nat.le_refl _, rfl, fun _ _ => rfl, Nat.le_refl _⟩
  | cons l r ih =>
    have hl := hb l (by simp)
    have h1 := iobuf_inv_writer_calls b0 hv hopen l hl
    have hI := runS_WInv b0 hv hopen l hl _ (load_WInv b0 hv)
    have hcl : (callIOS true b0 l).closed = false := by
      have : (finalSave (runS (load true b0) l)).closed = (runS (load true b0) l).b.closed := by
        unfold finalSave; split
        · rfl
        · simp [hI.w]
      show (finalSave (runS (load true b0) l)).closed = false
      rw [this, hI.closed, hopen]
    have h2 := ih (fun l' hl' => hb l' (by simp [hl'])) (callIOS true b0 l) h1.1 hcl
    simp only [List.foldl_cons]
    refine ⟨h2.1, Nat.le_trans h1.2.1 h2.2.1, ?_, ?_, Nat.le_trans h2.2.2.2.2 h1.2.2.2.2⟩
    · rw [h2.2.2.1, h1.2.2.1]
    · intro i hi
      rw [h2.2.2.2.1 i (by omega), h1.2.2.2.1 i hi]

/-! ### non-vacuity: a two-level call tree -/

/-- the inner function reads two bytes under a limit; the outer one reads one byte, calls it, then
undoes a byte -/
def innerBody : List Instr := [.limitBegin 2, .rd 1, .rd 1, .limitEnd]

example : ReaderOK (fun b => callIO false b innerBody) :=
  leaf_ReaderOK innerBody (.block 2 [.rd 1, .rd 1] []
    (.simple _ _ (by intro l; simp) (by simp) (.simple _ _ (by intro l; simp) (by simp) .nil)) .nil)

example : callIOS false srcDemo [.prim (.rd 1), .call (fun b => callIO false b innerBody), .prim .undo] =
    { srcDemo with ri := 3 } := by decide

/-- Why lang/check must reject a `return` (yield, jump, suspending call) inside an `io_limit` body, as
it does since fixes/C08-check-io-block-escapes.patch (KNOWN_FINDINGS `iocontract:quirk:…`, now
`fixed:`): a callee that left from inside such a block would hand back a shortened `wi` and would NOT
be `ReaderOK`; a caller that goes on reading up to its own (stale) `io2` would then return `ri > wi`.
The hypothesis of the composition theorem is needed, and for accepted programs it is provided by
`balanced_calls_ReaderOK` (bodies whose blocks are complete). -/
example :
    let bad : Buf → Buf := fun b => callIO false b [.limitBegin 0]
    ¬ (callIOS false srcDemo [.call bad, .prim (.rd 2)]).valid := by decide

/-- a writer passes its destination on: the callee appends two bytes, the caller one more -/
example : callIOS true dstDemo [.prim (.wr [7]), .call (fun b => callIO true b [.wr [6, 5]]), .prim (.wr [4])] =
    { dstDemo with mem := [9, 8, 7, 6, 5, 4], wi := 6 } := by decide

end WuffsVerif.Props.C08Call
