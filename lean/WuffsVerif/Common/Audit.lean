/-
`#audit_module M` prints, for every theorem declared in module `M`, the axioms
its proof depends on, one line each:  `AUDIT <theorem> : <axiom> <axiom> …`.
/verif/check compares these with the allow-list (propext, Classical.choice,
Quot.sound).  Core Lean only.
-/
import Lean
open Lean Elab Command

elab "#audit_module " m:ident : command => do
  let env ← getEnv
  let some idx := env.getModuleIdx? m.getId
    | throwError "audit: unknown module {m.getId}"
  let names := env.header.moduleData[idx.toNat]!.constNames
  let mut n : Nat := 0
  for c in names do
    if c.isInternal || c.hasMacroScopes then continue
    if c.components.any (fun p => (p.toString.startsWith "_") || p.toString.startsWith "match_"
        || p.toString.startsWith "eq_" || p.toString.startsWith "proof_") then continue
    match env.find? c with
    | some (.thmInfo _) =>
      let axs ← Lean.collectAxioms c
      let s := " ".intercalate (axs.toList.map toString)
      logInfo m!"AUDIT {c} : {s}"
      n := n + 1
    | _ => pure ()
  logInfo m!"AUDIT-COUNT {m.getId} {n}"
