/-
Common helpers for the line-protocol drivers (core Lean only; no Mathlib).
One op per input line, one output line per op.  See /verif/CONVENTIONS.md.
-/
namespace WuffsVerif.Line

def hexDigit (n : Nat) : Char :=
  if n < 10 then Char.ofNat (48 + n) else Char.ofNat (87 + n)

/-- Lower-case hex of a byte list; "-" for the empty list. -/
def toHex (bs : List UInt8) : String :=
  if bs.isEmpty then "-" else
  String.ofList (bs.foldr (fun b acc => hexDigit (b.toNat / 16) :: hexDigit (b.toNat % 16) :: acc) [])

def hexVal (c : Char) : Option Nat :=
  if '0' ≤ c ∧ c ≤ '9' then some (c.toNat - 48)
  else if 'a' ≤ c ∧ c ≤ 'f' then some (c.toNat - 87)
  else if 'A' ≤ c ∧ c ≤ 'F' then some (c.toNat - 55)
  else none

def fromHexAux : List Char → List UInt8 → Option (List UInt8)
  | [], acc => some acc.reverse
  | [_], _ => none
  | a :: b :: rest, acc =>
    match hexVal a, hexVal b with
    | some x, some y => fromHexAux rest (UInt8.ofNat (x * 16 + y) :: acc)
    | _, _ => none

/-- Parse lower/upper-case hex; "-" is the empty byte string. -/
def fromHex (s : String) : Option (List UInt8) :=
  if s == "-" then some [] else fromHexAux s.toList []

def fromHexArr (s : String) : Option ByteArray :=
  (fromHex s).map (fun l => ByteArray.mk l.toArray)

/-- Split a line on single spaces, dropping empty fields and the trailing newline. -/
def fields (line : String) : List String :=
  ((line.trimAscii.toString).splitOn " ").filter (· ≠ "")

/-- Parse a list "[a,b,c]" (or "[]") of integers. -/
def parseIntList (s : String) : Option (List Int) :=
  if s.length < 2 then none else
  let inner := (s.drop 1).dropEnd 1 |>.toString
  if s.front != '[' || s.back != ']' then none
  else if inner == "" then some []
  else (inner.splitOn ",").mapM String.toInt?

def parseNatList (s : String) : Option (List Nat) :=
  (parseIntList s).bind (fun l => l.mapM (fun i => if i < 0 then none else some i.toNat))

def showIntList (l : List Int) : String :=
  "[" ++ ",".intercalate (l.map toString) ++ "]"

def showNatList (l : List Nat) : String :=
  "[" ++ ",".intercalate (l.map toString) ++ "]"

/-- Generic stateful driver loop: reads stdin to EOF, prints one line per line. -/
partial def loop {σ : Type} (h : IO.FS.Stream) (out : IO.FS.Stream) (s : σ)
    (step : σ → List String → σ × String) : IO Unit := do
  let line ← h.getLine
  if line.isEmpty then
    out.flush
    return ()
  let (s', o) := step s (fields line)
  out.putStrLn o
  loop h out s' step

def run {σ : Type} (init : σ) (step : σ → List String → σ × String) : IO Unit := do
  let stdin ← IO.getStdin
  let stdout ← IO.getStdout
  loop stdin stdout init step

/-- Stateless variant. -/
def runPure (f : List String → String) : IO Unit :=
  run () (fun _ l => ((), f l))

end WuffsVerif.Line
