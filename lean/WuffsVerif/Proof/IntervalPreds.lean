/-
C06: the public predicates of lib/interval (`ContainsNonNegative`, `ContainsPositive`,
`ContainsInt`, `ContainsIntRange`, `Eq`) mean what their names say, in terms of membership.
(`ContainsNegative`, `ContainsZero`, `Empty`, `justZero` are in `IntervalBasic.lean`.)
-/
import WuffsVerif.Proof.IntervalBasic

namespace WuffsVerif.Interval

theorem containsInt_iff (X : IR) (i : Int) : X.containsInt i = true ↔ X.mem i := by
  obtain ⟨lo, hi⟩ := X
  cases lo <;> cases hi <;> simp [IR.containsInt, mem_mk]

theorem containsNonNegative_iff (X : IR) :
    X.containsNonNegative = true ↔ ∃ v, X.mem v ∧ 0 ≤ v := by
  obtain ⟨lo, hi⟩ := X
  cases hi with
  | none =>
    cases lo with
    | none => simp only [IR.containsNonNegative, true_iff]; exact ⟨0, ⟨trivial, trivial⟩, by decide⟩
    | some a =>
      simp only [IR.containsNonNegative, true_iff]
      refine ⟨max a 0, ⟨?_, trivial⟩, ?_⟩
      · simp only [loLe_some]; omega
      · omega
  | some b =>
    cases lo with
    | none =>
      simp only [IR.containsNonNegative, mem_mk, loLe_none, leHi_some, true_and]
      by_cases h : b < 0
      · simp only [h, if_true]; constructor
        · intro h; cases h
        · rintro ⟨v, h1, h2⟩; omega
      · simp only [h, if_false, true_iff]; exact ⟨b, Int.le_refl b, by omega⟩
    | some a =>
      simp only [IR.containsNonNegative, mem_mk, loLe_some, leHi_some]
      by_cases h : b < 0
      · simp only [h, if_true]; constructor
        · intro h; cases h
        · rintro ⟨v, ⟨h1, h2⟩, h3⟩; omega
      · simp only [h, if_false, decide_eq_true_eq]
        constructor
        · intro hab; exact ⟨b, ⟨hab, Int.le_refl b⟩, by omega⟩
        · rintro ⟨v, ⟨h1, h2⟩, _⟩; omega

theorem containsPositive_iff (X : IR) :
    X.containsPositive = true ↔ ∃ v, X.mem v ∧ 0 < v := by
  obtain ⟨lo, hi⟩ := X
  cases hi with
  | none =>
    cases lo with
    | none => simp only [IR.containsPositive, true_iff]; exact ⟨1, ⟨trivial, trivial⟩, by decide⟩
    | some a =>
      simp only [IR.containsPositive, true_iff]
      refine ⟨max a 1, ⟨?_, trivial⟩, ?_⟩
      · simp only [loLe_some]; omega
      · omega
  | some b =>
    cases lo with
    | none =>
      simp only [IR.containsPositive, mem_mk, loLe_none, leHi_some, true_and]
      by_cases h : b ≤ 0
      · simp only [h, if_true]; constructor
        · intro h; cases h
        · rintro ⟨v, h1, h2⟩; omega
      · simp only [h, if_false, true_iff]; exact ⟨b, Int.le_refl b, by omega⟩
    | some a =>
      simp only [IR.containsPositive, mem_mk, loLe_some, leHi_some]
      by_cases h : b ≤ 0
      · simp only [h, if_true]; constructor
        · intro h; cases h
        · rintro ⟨v, ⟨h1, h2⟩, h3⟩; omega
      · simp only [h, if_false, decide_eq_true_eq]
        constructor
        · intro hab; exact ⟨b, ⟨hab, Int.le_refl b⟩, by omega⟩
        · rintro ⟨v, ⟨h1, h2⟩, _⟩; omega

/-- a non-empty interval with an infinite lower bound has members below any given value -/
theorem exists_mem_lt_of_lo_none {Y : IR} (he : Y.empty = false) (hl : Y.lo = none) (a : Int) :
    ∃ v, Y.mem v ∧ v < a := by
  obtain ⟨v0, hv0⟩ := exists_mem_of_not_empty he
  refine ⟨min v0 (a - 1), ⟨?_, ?_⟩, by omega⟩
  · rw [hl]; trivial
  · obtain ⟨_, h2⟩ := hv0
    cases hh : Y.hi with
    | none => trivial
    | some d => rw [hh] at h2; simp only [leHi_some] at h2 ⊢; omega

theorem exists_mem_gt_of_hi_none {Y : IR} (he : Y.empty = false) (hh : Y.hi = none) (b : Int) :
    ∃ v, Y.mem v ∧ b < v := by
  obtain ⟨v0, hv0⟩ := exists_mem_of_not_empty he
  refine ⟨max v0 (b + 1), ⟨?_, ?_⟩, by omega⟩
  · obtain ⟨h1, _⟩ := hv0
    cases hl : Y.lo with
    | none => trivial
    | some c => rw [hl] at h1; simp only [loLe_some] at h1 ⊢; omega
  · rw [hh]; trivial

/-- the lower-bound test of `ContainsIntRange` -/
def loBad (X Y : IR) : Bool :=
  match X.lo with
  | some a => (match Y.lo with | none => true | some c => decide (a > c))
  | none => false

/-- the upper-bound test of `ContainsIntRange` -/
def hiBad (X Y : IR) : Bool :=
  match X.hi with
  | some b => (match Y.hi with | none => true | some d => decide (b < d))
  | none => false

theorem containsIntRange_eq (X Y : IR) :
    X.containsIntRange Y = (Y.empty || (!loBad X Y && !hiBad X Y)) := by
  unfold IR.containsIntRange
  change (if Y.empty = true then true else if loBad X Y = true then false
    else if hiBad X Y = true then false else true) = _
  cases Y.empty <;> cases loBad X Y <;> cases hiBad X Y <;> rfl

theorem loBad_false_iff {X Y : IR} (he : Y.empty = false) :
    loBad X Y = false ↔ ∀ v, Y.mem v → loLe X.lo v := by
  unfold loBad
  cases hxl : X.lo with
  | none => simp
  | some a =>
    cases hyl : Y.lo with
    | none =>
      simp only [Bool.true_eq_false, false_iff]
      intro hall
      obtain ⟨v, hv, hlt⟩ := exists_mem_lt_of_lo_none he hyl a
      have := hall v hv
      simp only [loLe_some] at this; omega
    | some c =>
      simp only [decide_eq_false_iff_not, loLe_some]
      constructor
      · intro hac v hv
        have := hv.1; rw [hyl] at this; simp only [loLe_some] at this; omega
      · intro hall
        have := hall c (lo_mem he hyl); omega

theorem hiBad_false_iff {X Y : IR} (he : Y.empty = false) :
    hiBad X Y = false ↔ ∀ v, Y.mem v → leHi v X.hi := by
  unfold hiBad
  cases hxh : X.hi with
  | none => simp
  | some b =>
    cases hyh : Y.hi with
    | none =>
      simp only [Bool.true_eq_false, false_iff]
      intro hall
      obtain ⟨v, hv, hlt⟩ := exists_mem_gt_of_hi_none he hyh b
      have := hall v hv
      simp only [leHi_some] at this; omega
    | some d =>
      simp only [decide_eq_false_iff_not, leHi_some]
      constructor
      · intro hbd v hv
        have := hv.2; rw [hyh] at this; simp only [leHi_some] at this; omega
      · intro hall
        have := hall d (hi_mem he hyh); omega

/-- `ContainsIntRange` is set inclusion. -/
theorem containsIntRange_iff (X Y : IR) :
    X.containsIntRange Y = true ↔ ∀ v, Y.mem v → X.mem v := by
  rw [containsIntRange_eq]
  cases hye : Y.empty with
  | true =>
    simp only [Bool.true_or, true_iff]
    intro v hv; exact absurd hv (not_mem_of_empty hye v)
  | false =>
    simp only [Bool.false_or, Bool.and_eq_true, Bool.not_eq_true', loBad_false_iff hye,
      hiBad_false_iff hye]
    constructor
    · rintro ⟨h1, h2⟩ v hv; exact ⟨h1 v hv, h2 v hv⟩
    · intro h; exact ⟨fun v hv => (h v hv).1, fun v hv => (h v hv).2⟩

/-- two non-empty intervals with the same members have the same bounds -/
theorem bounds_eq_of_same_members {X Y : IR} (hx : X.empty = false) (hy : Y.empty = false)
    (h : ∀ v, X.mem v ↔ Y.mem v) : X = Y := by
  have h1 := (containsIntRange_iff X Y).2 (fun v hv => (h v).2 hv)
  have h2 := (containsIntRange_iff Y X).2 (fun v hv => (h v).1 hv)
  rw [containsIntRange_eq] at h1 h2
  simp only [hx, hy, Bool.false_or, Bool.and_eq_true, Bool.not_eq_true'] at h1 h2
  obtain ⟨a1, b1⟩ := h1
  obtain ⟨a2, b2⟩ := h2
  obtain ⟨xl, xh⟩ := X
  obtain ⟨yl, yh⟩ := Y
  unfold loBad at a1 a2
  unfold hiBad at b1 b2
  congr 1
  · cases xl <;> cases yl <;> simp_all <;> omega
  · cases xh <;> cases yh <;> simp_all <;> omega

/-- `Eq` is extensional equality of the two sets of members. -/
theorem eq_iff (X Y : IR) : X.eq Y = true ↔ ∀ v, X.mem v ↔ Y.mem v := by
  unfold IR.eq
  cases hx : X.empty with
  | true =>
    simp only [Bool.true_or, if_true]
    cases hy : Y.empty with
    | true =>
      simp only [BEq.rfl, true_iff]
      intro v
      exact ⟨fun h => absurd h (not_mem_of_empty hx v), fun h => absurd h (not_mem_of_empty hy v)⟩
    | false =>
      simp only [Bool.true_beq, Bool.false_eq_true, false_iff]
      intro h
      obtain ⟨v, hv⟩ := exists_mem_of_not_empty hy
      exact not_mem_of_empty hx v ((h v).2 hv)
  | false =>
    cases hy : Y.empty with
    | true =>
      simp only [Bool.or_true, if_true, Bool.false_beq, Bool.not_true, Bool.false_eq_true, false_iff]
      intro h
      obtain ⟨v, hv⟩ := exists_mem_of_not_empty hx
      exact not_mem_of_empty hy v ((h v).1 hv)
    | false =>
      simp only [Bool.or_self, Bool.false_eq_true, if_false]
      constructor
      · intro hb
        have : X = Y := by
          obtain ⟨xl, xh⟩ := X
          obtain ⟨yl, yh⟩ := Y
          cases xl <;> cases xh <;> cases yl <;> cases yh <;> simp_all
        subst this
        intro v; exact Iff.rfl
      · intro h
        have := bounds_eq_of_same_members hx hy h
        subst this
        obtain ⟨xl, xh⟩ := X
        cases xl <;> cases xh <;> simp

end WuffsVerif.Interval
