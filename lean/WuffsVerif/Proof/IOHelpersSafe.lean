/-
C03 — helper lemmas about the monitored memory of `Model/IOHelpers.lean`: an access inside the
window keeps the frame (`lo`, `hi`, array size, `ok`); loops built from such accesses do too.
-/
import WuffsVerif.Model.IOHelpers

namespace WuffsVerif.IOHelpers

/-- `m'` has the same window, size and flag as `m` (only bytes may differ). -/
def Same (m m' : Mem) : Prop :=
  m'.lo = m.lo ∧ m'.hi = m.hi ∧ m'.buf.size = m.buf.size ∧ m'.ok = m.ok

theorem Same.refl (m : Mem) : Same m m := ⟨rfl, rfl, rfl, rfl⟩

theorem Same.trans {a b c : Mem} (h1 : Same a b) (h2 : Same b c) : Same a c := by
  obtain ⟨a1, a2, a3, a4⟩ := h1
  obtain ⟨b1, b2, b3, b4⟩ := h2
  exact ⟨by rw [b1, a1], by rw [b2, a2], by rw [b3, a3], by rw [b4, a4]⟩

theorem inWin_iff (m : Mem) (i : Int) : m.inWin i = true ↔ ((m.lo : Int) ≤ i ∧ i < (m.hi : Int)) := by
  simp [Mem.inWin]

theorem rd_in (m : Mem) (i : Int) (h1 : (m.lo : Int) ≤ i) (h2 : i < (m.hi : Int)) :
    (m.rd i).1 = m := by
  have : m.inWin i = true := (inWin_iff m i).2 ⟨h1, h2⟩
  simp [Mem.rd, this]

theorem rd_out (m : Mem) (i : Int) (h : ¬ ((m.lo : Int) ≤ i ∧ i < (m.hi : Int))) :
    (m.rd i).1.ok = false := by
  have : m.inWin i = false := by
    cases hb : m.inWin i with
    | false => rfl
    | true => exact absurd ((inWin_iff m i).1 hb) h
  simp [Mem.rd, this]

theorem wr_in (m : Mem) (i : Int) (v : UInt8) (h1 : (m.lo : Int) ≤ i) (h2 : i < (m.hi : Int)) :
    Same m (m.wr i v) := by
  have : m.inWin i = true := (inWin_iff m i).2 ⟨h1, h2⟩
  simp [Mem.wr, this, Same]

theorem wr_out (m : Mem) (i : Int) (v : UInt8) (h : ¬ ((m.lo : Int) ≤ i ∧ i < (m.hi : Int))) :
    (m.wr i v).ok = false := by
  have : m.inWin i = false := by
    cases hb : m.inWin i with
    | false => rfl
    | true => exact absurd ((inWin_iff m i).1 hb) h
  simp [Mem.wr, this]

theorem copy1_in (m : Mem) (p q : Int) (hq1 : (m.lo : Int) ≤ q) (hq2 : q < (m.hi : Int))
    (hp1 : (m.lo : Int) ≤ p) (hp2 : p < (m.hi : Int)) : Same m (copy1 m p q) := by
  show Same m ((m.rd q).1.wr p (m.rd q).2)
  rw [rd_in m q hq1 hq2]
  exact wr_in m p _ hp1 hp2

/-- The byte-at-a-time copy loop is safe when the source starts inside the window, below the
destination, and the destination range ends inside the window. -/
theorem copyLoop1_safe : ∀ (n : Nat) (m : Mem) (p q : Int),
    (m.lo : Int) ≤ q → q < p → p + (n : Int) ≤ (m.hi : Int) →
    Same m (copyLoop1 m p q n).1 ∧ (copyLoop1 m p q n).2 = p + (n : Int)
  | 0, m, p, q, _, _, _ => by simp [copyLoop1, Same.refl]
  | n + 1, m, p, q, h1, h2, h3 => by
    have hs : Same m (copy1 m p q) := copy1_in m p q h1 (by omega) (by omega) (by omega)
    have ih := copyLoop1_safe n (copy1 m p q) (p + 1) (q + 1)
      (by rw [hs.1]; omega) (by omega) (by rw [hs.2.1]; omega)
    simp only [copyLoop1]
    exact ⟨hs.trans ih.1, by rw [ih.2]; omega⟩

/-- Unrolling by three changes nothing. -/
theorem copyLoop3_eq (m : Mem) (p q : Int) (n : Nat) : copyLoop3 m p q n = copyLoop1 m p q n := by
  induction n using Nat.strongRecOn generalizing m p q with
  | _ n ih =>
    unfold copyLoop3
    split
    · next h =>
      obtain ⟨k, rfl⟩ : ∃ k, n = k + 3 := ⟨n - 3, by omega⟩
      rw [Nat.add_sub_cancel, ih k (by omega)]
      simp only [copyLoop1]
      have e1 : p + 1 + 1 = p + 2 := by omega
      have e2 : q + 1 + 1 = q + 2 := by omega
      have e3 : p + 2 + 1 = p + 3 := by omega
      have e4 : q + 2 + 1 = q + 3 := by omega
      rw [e1, e2, e3, e4]
    · rfl

theorem wrList_safe : ∀ (vs : List UInt8) (m : Mem) (p : Int),
    (m.lo : Int) ≤ p → p + (vs.length : Int) ≤ (m.hi : Int) → Same m (wrList m p vs)
  | [], m, _, _, _ => Same.refl m
  | v :: vs, m, p, h1, h2 => by
    simp only [List.length_cons, Int.natCast_add, Int.natCast_one] at h2
    have hs : Same m (m.wr p v) := wr_in m p v h1 (by omega)
    have ih := wrList_safe vs (m.wr p v) (p + 1) (by rw [hs.1]; omega) (by rw [hs.2.1]; omega)
    simp only [wrList]
    exact hs.trans ih

theorem rd8_safe (m : Mem) (q : Int) (h1 : (m.lo : Int) ≤ q) (h2 : q + 8 ≤ (m.hi : Int)) :
    (rd8 m q).1 = m ∧ (rd8 m q).2.length = 8 := by
  unfold rd8
  simp only [rd_in m q h1 (by omega), rd_in m (q + 1) (by omega) (by omega),
    rd_in m (q + 2) (by omega) (by omega), rd_in m (q + 3) (by omega) (by omega),
    rd_in m (q + 4) (by omega) (by omega), rd_in m (q + 5) (by omega) (by omega),
    rd_in m (q + 6) (by omega) (by omega), rd_in m (q + 7) (by omega) (by omega)]
  simp

theorem memcpy8_safe (m : Mem) (p q : Int) (h1 : (m.lo : Int) ≤ q) (h2 : q + 8 ≤ p)
    (h3 : p + 8 ≤ (m.hi : Int)) : Same m (memcpy8 m p q) := by
  unfold memcpy8
  have hno : (decide (p - q < 8) && decide (q - p < 8)) = false := by
    have : ¬ (p - q < 8) := by omega
    simp [this]
  simp only [hno, Bool.false_eq_true, ↓reduceIte]
  have r := rd8_safe m q h1 (by omega)
  rw [r.1]
  exact wrList_safe _ m p (by omega) (by rw [r.2]; omega)

/-- The 8-byte-chunk loop: source at least 8 below the destination, 8 spare bytes after `p + n`. -/
theorem chunks8_safe (m : Mem) (p q : Int) (n : Nat) :
    (m.lo : Int) ≤ q → q + 8 ≤ p → p + (n : Int) + 8 ≤ (m.hi : Int) →
    Same m (chunks8 m p q n).1 ∧ (chunks8 m p q n).2.1 = p + (n : Int) ∧ (chunks8 m p q n).2.2 = q + (n : Int) := by
  induction n using Nat.strongRecOn generalizing m p q with
  | _ n ih =>
    intro h1 h2 h3
    have hs : Same m (memcpy8 m p q) := memcpy8_safe m p q h1 h2 (by omega)
    unfold chunks8
    split
    · exact ⟨hs, rfl, rfl⟩
    · next hn =>
      have hn' : 8 < n := by omega
      have := ih (n - 8) (by omega) (memcpy8 m p q) (p + 8) (q + 8)
        (by rw [hs.1]; omega) (by omega) (by rw [hs.2.1]; omega)
      refine ⟨hs.trans this.1, ?_, ?_⟩
      · rw [this.2.1]; omega
      · rw [this.2.2]; omega

theorem poke8_safe (m : Mem) (p : Int) (v : UInt8) (h1 : (m.lo : Int) ≤ p) (h2 : p + 8 ≤ (m.hi : Int)) :
    Same m (poke8 m p v) := by
  unfold poke8
  exact wrList_safe _ m p h1 (by simpa using h2)

theorem fill8_safe (m : Mem) (p q : Int) (v : UInt8) (n : Nat) :
    (m.lo : Int) ≤ p → p + (n : Int) + 8 ≤ (m.hi : Int) →
    Same m (fill8 m p q v n).1 ∧ (fill8 m p q v n).2.1 = p + (n : Int) ∧ (fill8 m p q v n).2.2 = q + (n : Int) := by
  induction n using Nat.strongRecOn generalizing m p q with
  | _ n ih =>
    intro h1 h3
    have hs : Same m (poke8 m p v) := poke8_safe m p v h1 (by omega)
    unfold fill8
    split
    · exact ⟨hs, rfl, rfl⟩
    · next hn =>
      have := ih (n - 8) (by omega) (poke8 m p v) (p + 8) (q + 8)
        (by rw [hs.1]; omega) (by rw [hs.2.1]; omega)
      refine ⟨hs.trans this.1, ?_, ?_⟩
      · rw [this.2.1]; omega
      · rw [this.2.2]; omega

theorem peekU16le_safe (m : Mem) (q : Int) (h1 : (m.lo : Int) ≤ q) (h2 : q + 2 ≤ (m.hi : Int)) :
    (peekU16le m q).1 = m := by
  unfold peekU16le
  simp only [rd_in m q h1 (by omega), rd_in m (q + 1) (by omega) (by omega)]

theorem rdList_safe : ∀ (n : Nat) (m : Mem) (p : Int),
    (m.lo : Int) ≤ p → p + (n : Int) ≤ (m.hi : Int) → (rdList m p n).1 = m ∧ (rdList m p n).2.length = n
  | 0, m, _, _, _ => by simp [rdList]
  | n + 1, m, p, h1, h2 => by
    have ih := rdList_safe n m (p + 1) (by omega) (by omega)
    simp [rdList, rd_in m p h1 (by omega), ih.1, ih.2]

end WuffsVerif.IOHelpers
