/-
C05 — the ideal semantics does not see how the world is represented: if two interpretations
`c1 : Cfg W1`, `c2 : Cfg W2` compute the same values and commute with an abstraction
`α : W1 → W2` of the world, then the ideal runs (all locals persist) of any program from related
states leave it the same way, with the same values, locals and (abstracted) world — however
often the calls of the first interpretation suspend.
-/
import WuffsVerif.Proof.LivenessLockstep

namespace WuffsVerif.Liveness

variable {W W1 W2 : Type}

/-- `c1` over `W1` and `c2` over `W2` are the same interpretation up to `α`. (Nothing is asked of
`nsusp`.) -/
structure CfgSim (α : W1 → W2) (c1 : Cfg W1) (c2 : Cfg W2) : Prop where
  val : ∀ e w vals, c1.val e w vals = c2.val e (α w) vals
  next : ∀ e w vals, α (c1.next e w vals) = c2.next e (α w) vals
  comb : c1.comb = c2.comb

structure WSim (α : W1 → W2) (a : RState W1) (b : RState W2) : Prop where
  store : a.store = b.store
  log : a.log = b.log
  w : α a.w = b.w

theorem evalEx_all_val (cfg : Cfg W) (e : Ex) (st : RState W) :
    (evalEx allSaved cfg e st).1 = cfg.val e st.w (e.vars.map st.store) := by
  unfold evalEx
  cases e.coro <;> cases e.ioRecv <;> simp [suspendK_all]

theorem evalEx_all_st (cfg : Cfg W) (e : Ex) (st : RState W) :
    (evalEx allSaved cfg e st).2.1 =
      ⟨st.store, cfg.next e st.w (e.vars.map st.store), st.log ++ [cfg.val e st.w (e.vars.map st.store)]⟩ := by
  unfold evalEx
  cases e.coro <;> cases e.ioRecv <;> simp [suspendK_all]

theorem evalEx_wsim {α : W1 → W2} {c1 : Cfg W1} {c2 : Cfg W2} (hc : CfgSim α c1 c2) (e : Ex)
    (a : RState W1) (b : RState W2) (hs : WSim α a b) :
    (evalEx allSaved c1 e a).1 = (evalEx allSaved c2 e b).1 ∧
    WSim α (evalEx allSaved c1 e a).2.1 (evalEx allSaved c2 e b).2.1 := by
  rw [evalEx_all_val, evalEx_all_val, evalEx_all_st, evalEx_all_st]
  have hv : c1.val e a.w (e.vars.map a.store) = c2.val e b.w (e.vars.map b.store) := by
    rw [hc.val, hs.w, hs.store]
  refine ⟨hv, ⟨hs.store, ?_, ?_⟩⟩
  · simp only [hs.log, hv]
  · simp only [hc.next, hs.w, hs.store]

theorem evalExOpt_wsim {α : W1 → W2} {c1 : Cfg W1} {c2 : Cfg W2} (hc : CfgSim α c1 c2) (oe : Option Ex)
    (a : RState W1) (b : RState W2) (hs : WSim α a b) :
    WSim α (evalExOpt allSaved c1 oe a).1 (evalExOpt allSaved c2 oe b).1 := by
  cases oe with
  | none => exact hs
  | some e => exact (evalEx_wsim hc e a b hs).2

theorem evalAssign_wsim {α : W1 → W2} {c1 : Cfg W1} {c2 : Cfg W2} (hc : CfgSim α c1 c2)
    (op : AOp) (lhs : Lhs) (rhs : Ex) (a : RState W1) (b : RState W2) (hs : WSim α a b) :
    WSim α (evalAssign allSaved c1 op lhs rhs a).1 (evalAssign allSaved c2 op lhs rhs b).1 := by
  -- the RHS as value and state, in both runs
  have hr : ∀ (W : Type) (c : Cfg W) (st : RState W),
      (if op = AOp.eqQuestion then
          ((c.val rhs st.w (rhs.vars.map st.store),
            (⟨st.store, c.next rhs st.w (rhs.vars.map st.store), st.log ++ [c.val rhs st.w (rhs.vars.map st.store)]⟩ : RState W),
            exReads rhs) : Nat × RState W × List Ev)
        else evalEx allSaved c rhs st).1 = c.val rhs st.w (rhs.vars.map st.store) ∧
      (if op = AOp.eqQuestion then
          ((c.val rhs st.w (rhs.vars.map st.store),
            (⟨st.store, c.next rhs st.w (rhs.vars.map st.store), st.log ++ [c.val rhs st.w (rhs.vars.map st.store)]⟩ : RState W),
            exReads rhs) : Nat × RState W × List Ev)
        else evalEx allSaved c rhs st).2.1 =
        ⟨st.store, c.next rhs st.w (rhs.vars.map st.store), st.log ++ [c.val rhs st.w (rhs.vars.map st.store)]⟩ := by
    intro W c st
    by_cases hq : op = AOp.eqQuestion
    · simp [hq]
    · simp only [hq, ↓reduceIte]
      exact ⟨evalEx_all_val c rhs st, evalEx_all_st c rhs st⟩
  have hv : c1.val rhs a.w (rhs.vars.map a.store) = c2.val rhs b.w (rhs.vars.map b.store) := by
    rw [hc.val, hs.w, hs.store]
  have hst : WSim α
      (⟨a.store, c1.next rhs a.w (rhs.vars.map a.store), a.log ++ [c1.val rhs a.w (rhs.vars.map a.store)]⟩ : RState W1)
      (⟨b.store, c2.next rhs b.w (rhs.vars.map b.store), b.log ++ [c2.val rhs b.w (rhs.vars.map b.store)]⟩ : RState W2) := by
    refine ⟨hs.store, ?_, ?_⟩
    · simp only [hs.log, hv]
    · simp only [hc.next, hs.w, hs.store]
  unfold evalAssign
  cases lhs with
  | none =>
    simp only [(hr W1 c1 a).2, (hr W2 c2 b).2]
    exact hst
  | expr e =>
    simp only [(hr W1 c1 a).2, (hr W2 c2 b).2]
    exact (evalEx_wsim hc e _ _ hst).2
  | var i =>
    simp only [(hr W1 c1 a).1, (hr W1 c1 a).2, (hr W2 c2 b).1, (hr W2 c2 b).2]
    by_cases hop : op ≠ AOp.eq ∧ op ≠ AOp.eqQuestion
    · simp only [hop, and_self, ↓reduceIte, ne_eq, not_false_eq_true]
      refine ⟨?_, hst.log, hst.w⟩
      have hv' : c1.val rhs a.w (rhs.vars.map b.store) = c2.val rhs b.w (rhs.vars.map b.store) := by
        rw [hc.val, hs.w]
      simp only [hs.store, hv', hc.comb]
    · simp only [hop, ↓reduceIte]
      refine ⟨?_, hst.log, hst.w⟩
      have hv' : c1.val rhs a.w (rhs.vars.map b.store) = c2.val rhs b.w (rhs.vars.map b.store) := by
        rw [hc.val, hs.w]
      simp only [hs.store, hv']

/-- **The ideal semantics is independent of the representation of the world.** -/
theorem run_world_sim {α : W1 → W2} {c1 : Cfg W1} {c2 : Cfg W2} (hc : CfgSim α c1 c2) :
    ∀ (f : Nat) (task : Task) (a : RState W1) (b : RState W2), WSim α a b →
    (run allSaved c1 f task a).out = (run allSaved c2 f task b).out ∧
    WSim α (run allSaved c1 f task a).st (run allSaved c2 f task b).st
  | 0, task, a, b, hs => by
    simp only [run]
    exact ⟨trivial, hs⟩
  | f + 1, Task.stmt s, a, b, hs => by
    cases s with
    | assign op lhs rhs =>
      simp only [run]
      exact ⟨trivial, evalAssign_wsim hc op lhs rhs a b hs⟩
    | expr e =>
      simp only [run]
      exact ⟨trivial, (evalEx_wsim hc e a b hs).2⟩
    | iomanip io a1 hp body =>
      simp only [run]
      have h1 := evalEx_wsim hc io a b hs
      have h2 := evalExOpt_wsim hc a1 _ _ h1.2
      have h3 := evalExOpt_wsim hc hp _ _ h2
      exact run_world_sim hc f (Task.block body) _ _ h3
    | ite c thn els =>
      simp only [run]
      have h1 := evalEx_wsim hc c a b hs
      rw [h1.1]
      exact run_world_sim hc f (Task.block (if (evalEx allSaved c2 c b).1 % 2 = 1 then thn else els)) _ _ h1.2
    | jump isBreak k =>
      simp only [run]
      exact ⟨trivial, hs⟩
    | ret y e =>
      have h1 := evalEx_wsim hc e a b hs
      cases y
      · simp only [run, Bool.false_eq_true, ↓reduceIte]
        exact ⟨trivial, h1.2⟩
      · simp only [run, ↓reduceIte, resetStore_all]
        exact ⟨trivial, h1.2⟩
    | var i =>
      simp only [run]
      exact ⟨trivial, ⟨by simp only [hs.store], hs.log, hs.w⟩⟩
    | «while» wt c body =>
      simp only [run]
      exact run_world_sim hc f (Task.loop wt c body) a b hs
  | f + 1, Task.block [], a, b, hs => by
    simp only [run]
    exact ⟨trivial, hs⟩
  | f + 1, Task.block (s :: rest), a, b, hs => by
    simp only [run]
    have ih1 := run_world_sim hc f (Task.stmt s) a b hs
    generalize run allSaved c1 f (Task.stmt s) a = r1a at ih1 ⊢
    generalize run allSaved c2 f (Task.stmt s) b = r1b at ih1 ⊢
    rw [ih1.1]
    cases ho : r1b.out with
    | norm =>
      simp only
      exact run_world_sim hc f (Task.block rest) _ _ ih1.2
    | brk k => exact ⟨by rw [ih1.1, ho], ih1.2⟩
    | cont k => exact ⟨by rw [ih1.1, ho], ih1.2⟩
    | ret => exact ⟨by rw [ih1.1, ho], ih1.2⟩
    | stop => exact ⟨by rw [ih1.1, ho], ih1.2⟩
  | f + 1, Task.loop wt c body, a, b, hs => by
    simp only [run]
    have h1 := evalEx_wsim hc c a b hs
    rw [h1.1]
    by_cases hx : wt = false ∧ (evalEx allSaved c2 c b).1 % 2 = 0
    · simp only [hx, and_self, ↓reduceIte]
      exact ⟨trivial, h1.2⟩
    · simp only [hx, ↓reduceIte]
      have ih2 := run_world_sim hc f (Task.block body) _ _ h1.2
      generalize run allSaved c1 f (Task.block body) (evalEx allSaved c1 c a).2.1 = r2a at ih2 ⊢
      generalize run allSaved c2 f (Task.block body) (evalEx allSaved c2 c b).2.1 = r2b at ih2 ⊢
      rw [ih2.1]
      cases hex : r2b.out.exitLoop with
      | none =>
        simp only
        exact run_world_sim hc f (Task.loop wt c body) _ _ ih2.2
      | some o' =>
        simp only
        exact ⟨trivial, ih2.2⟩

end WuffsVerif.Liveness
