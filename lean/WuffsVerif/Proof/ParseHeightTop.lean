/-
Height of the ASTs built by `Model/Parse.lean`, part 3: statements, the statement cycle,
declarations and the file.  Bounds (`s = e + t + b`): a block ≤ `LINK * s`, a statement, `if`,
`iterate` ≤ `LINK * s + 5`; a declaration ≤ `LINK * 576 + 3`; the file ≤ `LINK * 576 + 4`.
-/
import WuffsVerif.Proof.ParseHeightCore

namespace WuffsVerif.Parse
open WuffsVerif.Token WuffsVerif.Gen.C11

attribute [local irreducible] checkAssignLHS terminatesList typeInnermost stripArrays
  asSmallPositiveInt256 isChooseCPUArch validConstName containsDoubleUnderscore isStatusMessageTok

theorem hpost_parseAssignNode (env : Env) (pe : P Node) (k : Nat)
    (hpe : Post pe (fun n => height n ≤ k)) :
    Post (parseAssignNode env pe) (fun n => height n ≤ k + 1) := by
  unfold parseAssignNode
  hpost_auto

theorem hpost_parseIterateAssignNode (env : Env) (pe : P Node) (k : Nat)
    (hpe : Post pe (fun n => height n ≤ k)) :
    Post (parseIterateAssignNode env pe) (fun n => height n ≤ k + 1) := by
  have := hpost_parseAssignNode env pe k hpe
  unfold parseIterateAssignNode
  hpost_auto

theorem hpost_parseVarNode (env : Env) (pt : P Node) (k : Nat)
    (hpt : Post pt (fun n => height n ≤ k)) :
    Post (parseVarNode env pt) (fun n => height n ≤ k + 1) := by
  unfold parseVarNode
  hpost_auto

theorem hpost_parseChooseStmt (env : Env) : Post (parseChooseStmt env) (fun n => height n ≤ 2) := by
  have hel : Post (do let id ← parseIdent env; pure (newExpr 0 0 id .nil .nil .nil []))
      (fun n => height n ≤ 1) := by
    hpost_auto
  unfold parseChooseStmt
  hpost_auto

theorem hpost_parseIOManipArg (name : Nat) (pe : P Node) (k : Nat)
    (hpe : Post pe (fun n => height n ≤ k)) :
    Post (parseIOManipArg name pe) (fun n => height n ≤ k) := by
  unfold parseIOManipArg
  hpost_auto

macro_rules | `(tactic| hpost_leaf) => `(tactic| (apply hpost_parseIOManipArg; hpost_leaf))

theorem hpost_parseIOManipNode (x : Nat) (pe : P Node) (k : Nat)
    (hpe : Post pe (fun n => height n ≤ k)) (pb : P (List Node))
    (hpb : Post pb (fun l => heightL l ≤ k)) :
    Post (parseIOManipNode x pe pb) (fun n => height n ≤ k + 1) := by
  unfold parseIOManipNode
  hpost_auto

theorem hpost_parseRetNode (env : Env) (x : Nat) (pe : P Node) (k : Nat)
    (hpe : Post pe (fun n => height n ≤ k)) :
    Post (parseRetNode env x pe) (fun n => height n ≤ k + 1) := by
  unfold parseRetNode
  hpost_auto

theorem hpost_parseJump (env : Env) (x : Nat) : Post (parseJump env x) (fun n => height n ≤ 1) := by
  unfold parseJump
  hpost_auto

theorem hpost_parseWhileNode (env : Env) (pe : P Node) (k : Nat)
    (hpe : Post pe (fun n => height n ≤ k))
    (pb : Bool → P (List Node)) (hpb : ∀ dc, Post (pb dc) (fun l => heightL l ≤ k)) :
    Post (parseWhileNode env pe pb) (fun n => height n ≤ k + 3) := by
  unfold parseWhileNode
  hpost_auto

theorem hpost_parseIterateNode (env : Env) (pe : P Node) (k K : Nat)
    (hpe : Post pe (fun n => height n ≤ k))
    (pi : Nat → List Node → P Node)
    (hpi : ∀ l a, heightL a ≤ k + 1 → Post (pi l a) (fun n => height n ≤ K)) :
    Post (parseIterateNode env pe pi) (fun n => height n ≤ K) := by
  have := hpost_parseIterateAssignNode env pe k hpe
  unfold parseIterateNode
  hpost_auto

theorem hpost_blockLoop (pStmt : P Node) (k : Nat) (hst : Post pStmt (fun n => height n ≤ k))
    (dc : Bool) : ∀ fuel acc, heightL acc ≤ k →
      Post (blockLoop pStmt dc fuel acc) (fun l => heightL l ≤ k) := by
  intro fuel
  induction fuel with
  | zero => intro acc _; unfold blockLoop; exact post_throw _
  | succ fuel ih =>
    intro acc hacc
    unfold blockLoop
    hpost_auto
    all_goals (apply ih; h_close)

theorem hpost_blockAll (pStmt : P Node) (k : Nat) (hst : Post pStmt (fun n => height n ≤ k))
    (dc : Bool) : Post (blockAll pStmt dc) (fun l => heightL l ≤ k) := by
  unfold blockAll
  have := hpost_blockLoop pStmt k hst dc
  hpost_auto

macro_rules | `(tactic| hpost_leaf) => `(tactic| (apply hpost_blockAll; hpost_leaf))
macro_rules | `(tactic| hpost_leaf) => `(tactic| exact hpost_parseJump _ _)
macro_rules | `(tactic| hpost_leaf) => `(tactic| (apply hpost_parseVarNode; hpost_leaf))
macro_rules | `(tactic| hpost_leaf) => `(tactic| (apply hpost_parseAssignNode; hpost_leaf))
macro_rules | `(tactic| hpost_leaf) => `(tactic| (apply hpost_parseRetNode; hpost_leaf))
macro_rules | `(tactic| hpost_leaf) => `(tactic| exact hpost_parseChooseStmt _)
macro_rules | `(tactic| hpost_leaf) => `(tactic| (apply hpost_parseIOManipNode <;> hpost_leaf))
macro_rules | `(tactic| hpost_leaf) => `(tactic| (apply hpost_parseWhileNode <;> first | hpost_leaf | (intro _; hpost_leaf)))

/-- Height bounds of the five functions of the statement cycle. -/
structure StmtH (env : Env) (e t b : Nat) : Prop where
  block : ∀ dc, Post (pBlock env e t b dc) (fun l => heightL l ≤ LINK * (e + t + b))
  pif : Post (pIf env e t b) (fun n => height n ≤ LINK * (e + t + b) + 5)
  iterateBlock : ∀ label assigns, heightL assigns ≤ LINK * (e + t + b) + 1 →
    Post (pIterateBlock env e t b label assigns) (fun n => height n ≤ LINK * (e + t + b) + 5)
  statement1 : Post (pStatement1 env e t b) (fun n => height n ≤ LINK * (e + t + b) + 5)
  statement : Post (pStatement env e t b) (fun n => height n ≤ LINK * (e + t + b) + 5)

set_option maxRecDepth 16384 in
theorem stmth_step (env : Env) (e t b : Nat)
    (ih : ∀ b', b' < b → StmtH env e t b') : StmtH env e t b := by
  have hc := core_h env _ e t b rfl
  have hE := hc.expr
  have hT := hc.typeExpr
  simp only [LINK] at *
  have hBlock : ∀ dc, Post (pBlock env e t b dc) (fun l => heightL l ≤ 260 * (e + t + b)) := by
    intro dc
    cases b with
    | zero => unfold pBlock; exact post_failHere
    | succ b' =>
      have h1 : Post (pStatement env e t b') (fun n => height n ≤ 260 * (e + t + (b' + 1))) :=
        post_mono (ih b' (by omega)).statement (fun _ h => by simp only [LINK] at h; omega)
      unfold pBlock
      hpost_auto
  have hIf : Post (pIf env e t b) (fun n => height n ≤ 260 * (e + t + b) + 5) := by
    cases b with
    | zero => unfold pIf; hpost_auto
    | succ b' =>
      have h1 := (ih b' (by omega)).pif
      simp only [LINK] at h1
      unfold pIf
      hpost_auto
  have hIter : ∀ label assigns, heightL assigns ≤ 260 * (e + t + b) + 1 →
      Post (pIterateBlock env e t b label assigns) (fun n => height n ≤ 260 * (e + t + b) + 5) := by
    intro label assigns hassigns
    cases b with
    | zero => unfold pIterateBlock; hpost_auto
    | succ b' =>
      have h1 := (ih b' (by omega)).iterateBlock
      simp only [LINK] at h1
      unfold pIterateBlock
      hpost_auto
  have hS1 : Post (pStatement1 env e t b) (fun n => height n ≤ 260 * (e + t + b) + 5) := by
    have hIterNode := hpost_parseIterateNode env (pExpr env e t b) (260 * (e + t + b))
      (260 * (e + t + b) + 5) hE (fun label assigns => pIterateBlock env e t b label assigns) hIter
    have hb := hBlock false
    have hv : Post (parseVarNode env (pTypeExpr env e t b))
        (fun n => height n ≤ 260 * (e + t + b) + 5) :=
      post_mono (hpost_parseVarNode env _ _ hT) (fun _ h => by omega)
    have ha : Post (parseAssertNode env (pExpr env e t b))
        (fun n => height n ≤ 260 * (e + t + b) + 5) :=
      post_mono (hpost_parseAssertNode env _ _ hE) (fun _ h => by omega)
    have hj : ∀ x, Post (parseJump env x) (fun n => height n ≤ 260 * (e + t + b) + 5) :=
      fun x => post_mono (hpost_parseJump env x) (fun _ h => by omega)
    have hch : Post (parseChooseStmt env) (fun n => height n ≤ 260 * (e + t + b) + 5) :=
      post_mono (hpost_parseChooseStmt env) (fun _ h => by omega)
    have hio : ∀ x, Post (parseIOManipNode x (pExpr env e t b) (pBlock env e t b false))
        (fun n => height n ≤ 260 * (e + t + b) + 5) :=
      fun x => post_mono (hpost_parseIOManipNode x _ _ hE _ hb) (fun _ h => by omega)
    have hr : ∀ x, Post (parseRetNode env x (pExpr env e t b))
        (fun n => height n ≤ 260 * (e + t + b) + 5) :=
      fun x => post_mono (hpost_parseRetNode env x _ _ hE) (fun _ h => by omega)
    have hw : Post (parseWhileNode env (pExpr env e t b) (fun dc => pBlock env e t b dc))
        (fun n => height n ≤ 260 * (e + t + b) + 5) :=
      post_mono (hpost_parseWhileNode env _ _ hE _ hBlock) (fun _ h => by omega)
    have has : Post (parseAssignNode env (pExpr env e t b))
        (fun n => height n ≤ 260 * (e + t + b) + 5) :=
      post_mono (hpost_parseAssignNode env _ _ hE) (fun _ h => by omega)
    unfold pStatement1
    hpost_auto
  have hS : Post (pStatement env e t b) (fun n => height n ≤ 260 * (e + t + b) + 5) := by
    unfold pStatement
    hpost_auto
  exact ⟨hBlock, hIf, hIter, hS1, hS⟩

theorem stmt_h (env : Env) (e t : Nat) : ∀ b, StmtH env e t b := by
  intro b
  induction b using Nat.strongRecOn with
  | _ b ih => exact stmth_step env e t b ih

/-! ## declarations and the file -/

/-- The budgets `parse.Parse` starts with. -/
def S0 : Nat := (MaxExprDepth + 1) + (MaxTypeExprDepth + 1) + (MaxBodyDepth + 1)

theorem hpost_parseFieldNode1 (env : Env) (e t b flags : Nat) :
    Post (parseFieldNode1 env e t b flags) (fun n => height n ≤ LINK * (e + t + b) + 1) := by
  have hT := (core_h env _ e t b rfl).typeExpr
  unfold parseFieldNode1
  hpost_auto

theorem hpost_parseExtraFieldNode (env : Env) (e t b : Nat) :
    Post (parseExtraFieldNode env e t b) (fun n => height n ≤ LINK * (e + t + b) + 1) := by
  have := hpost_parseFieldNode1 env e t b FlagsPrivateData
  unfold parseExtraFieldNode
  hpost_auto

theorem hpost_parseUseDecl (env : Env) (line : Nat) :
    Post (parseUseDecl env line) (fun n => height n ≤ 1) := by
  unfold parseUseDecl
  hpost_auto

theorem hpost_parseConstDecl (env : Env) (e t b f l : Nat) :
    Post (parseConstDecl env e t b f l) (fun n => height n ≤ LINK * (e + t + b) + 1) := by
  have hc := core_h env _ e t b rfl
  have hT := hc.typeExpr
  have hP := hc.possibleList
  unfold parseConstDecl
  hpost_auto

theorem hpost_parseFuncAsserts (env : Env) (pe : P Node) (k : Nat)
    (hpe : Post pe (fun n => height n ≤ k)) (f eff id0 : Nat) :
    Post (parseFuncAsserts env pe f eff id0) (fun r => heightL r.2 ≤ k + 2) := by
  unfold parseFuncAsserts
  hpost_auto

macro_rules | `(tactic| hpost_leaf) => `(tactic| (apply hpost_parseFuncAsserts; hpost_leaf))

theorem hpost_parseFuncDecl (env : Env) (e t b f l : Nat) :
    Post (parseFuncDecl env e t b f l) (fun n => height n ≤ LINK * (e + t + b) + 3) := by
  have hc := core_h env _ e t b rfl
  have hT := hc.typeExpr
  have hE := hc.expr
  have hB := (stmt_h env e t b).block false
  have hF := hpost_parseFieldNode1 env e t b 0
  unfold parseFuncDecl
  hpost_auto

theorem hpost_parseStatusDecl (env : Env) (f l : Nat) :
    Post (parseStatusDecl env f l) (fun n => height n ≤ 1) := by
  unfold parseStatusDecl
  hpost_auto

theorem hpost_parseStructDecl (env : Env) (e t b f l : Nat) :
    Post (parseStructDecl env e t b f l) (fun n => height n ≤ LINK * (e + t + b) + 2) := by
  have hF := hpost_parseFieldNode1 env e t b 0
  have hX := hpost_parseExtraFieldNode env e t b
  have hq : Post (do
      let (pkg, nm) ← parseQualifiedIdent env
      pure (newTypeExpr 0 pkg nm .nil .nil .nil)) (fun n => height n ≤ 1) := by
    hpost_auto
  have himpl : ∀ d : Nat, Post (if d == IDImplements then do
      skip
      let l ← parseList env IDOpenParen (do
        let (pkg, nm) ← parseQualifiedIdent env
        pure (newTypeExpr 0 pkg nm .nil .nil .nil))
      if l.length > MaxImplements then failHere
      pure l
    else pure [] : P (List Node)) (fun l => heightL l ≤ 1) := by
    intro d
    hpost_auto
  have hextra : ∀ (d : Nat) (fields : List Node), heightL fields ≤ LINK * (e + t + b) + 1 →
      Post (if d == IDPlus then do
      skip
      if (← peek1) != IDOpenParen then failHere
      let extra ← parseList env IDCloseParen (parseExtraFieldNode env e t b)
      pure (fields ++ extra)
    else pure fields : P (List Node)) (fun l => heightL l ≤ LINK * (e + t + b) + 1) := by
    intro d fields hf
    hpost_auto
  unfold parseStructDecl
  hpost_auto

theorem hpost_parseTopLevelDecl (env : Env) (e t b : Nat) :
    Post (parseTopLevelDecl env e t b) (fun n => height n ≤ LINK * (e + t + b) + 3) := by
  have h1 : ∀ l, Post (parseUseDecl env l) (fun n => height n ≤ LINK * (e + t + b) + 3) :=
    fun l => post_mono (hpost_parseUseDecl env l) (fun _ h => by omega)
  have h2 : ∀ f l, Post (parseVisibleDecl env e t b f l)
      (fun n => height n ≤ LINK * (e + t + b) + 3) := by
    intro f l
    have c1 : Post (parseConstDecl env e t b f l) (fun n => height n ≤ LINK * (e + t + b) + 3) :=
      post_mono (hpost_parseConstDecl env e t b f l) (fun _ h => by omega)
    have c2 := hpost_parseFuncDecl env e t b f l
    have c3 : Post (parseStatusDecl env f l) (fun n => height n ≤ LINK * (e + t + b) + 3) :=
      post_mono (hpost_parseStatusDecl env f l) (fun _ h => by omega)
    have c4 : Post (parseStructDecl env e t b f l) (fun n => height n ≤ LINK * (e + t + b) + 3) :=
      post_mono (hpost_parseStructDecl env e t b f l) (fun _ h => by omega)
    unfold parseVisibleDecl
    hpost_auto
  unfold parseTopLevelDecl
  hpost_auto

theorem hpost_parseFileLoop (env : Env) : ∀ fuel acc, heightL acc ≤ LINK * S0 + 3 →
    Post (parseFileLoop env fuel acc) (fun l => heightL l ≤ LINK * S0 + 3) := by
  intro fuel
  induction fuel with
  | zero => intro acc _; unfold parseFileLoop; exact post_throw _
  | succ fuel ih =>
    intro acc hacc
    have := hpost_parseTopLevelDecl env (MaxExprDepth + 1) (MaxTypeExprDepth + 1) (MaxBodyDepth + 1)
    unfold parseFileLoop
    simp only [S0] at *
    hpost_auto
    all_goals (apply ih; h_close)

/-- Every AST that the model of `parse.Parse` returns is at most `LINK * S0 + 4` = 149 764
nodes high. -/
theorem parseFile_height (env : Env) (toks : List Tok) (file : Node)
    (h : parseFile env toks = .ok file) : height file ≤ 149764 := by
  unfold parseFile at h
  simp only at h
  split at h
  · cases h
  · rename_i decls s' hrun
    have := (hpost_parseFileLoop env (toks.length + 1) [] (by simp)).post _ _ _ hrun
    simp only [Except.ok.injEq] at h
    subst h
    simp only [height_mk, height_nil, heightL_nil, LINK, S0, MaxExprDepth, MaxTypeExprDepth,
      MaxBodyDepth] at *
    omega

end WuffsVerif.Parse
