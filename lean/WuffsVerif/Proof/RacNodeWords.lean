/-
C13: the words (8-byte segments) of an encoded RAC branch node, position by position.
`encodeNode` (the body of `nodeWriter.writeIndex`) = magic/arity/checksum header + `nodeWords`.
-/
import WuffsVerif.Proof.RacBytes
namespace WuffsVerif.Rac
open Spec

/-- `DPtr|0|TTag` word of a non-resource child whose DRange starts at `dPtr` -/
def childDWord (rs : List Nat) (tagBase : Nat) (o : WNode) (dPtr : Nat) : Nat :=
  dPtr ||| (if o.isBranch then 0xFE <<< 56 else resourceToTag rs o.tertiary tagBase)

def childDWords (rs : List Nat) (tagBase : Nat) : List WNode → Nat → List Nat
  | [], _ => []
  | o :: os, dPtr => childDWord rs tagBase o dPtr :: childDWords rs tagBase os (dPtr + o.dRangeSize)

theorem dptrSegments_eq (rs : List Nat) (tb : Nat) (cs : List WNode) (d : Nat) :
    dptrSegments rs tb cs d = ((childDWords rs tb cs d).map putU64LE, d + (cs.map WNode.dRangeSize).sum) := by
  induction cs generalizing d with
  | nil => simp [dptrSegments, childDWords]
  | cons o os ih =>
    simp only [dptrSegments, childDWords, ih, List.map_cons, List.sum_cons, childDWord]
    refine Prod.ext rfl ?_
    simp only; omega

/-- `CPtr|CLen|STag` word of a non-resource child -/
def childCWord (nw : NodeWriter) (rs : List Nat) (tagBase : Nat) (o : WNode) : Nat :=
  (if o.isBranch then o.cOffsetCLength + nw.indexCOffset else o.cOffsetCLength + nw.dataCOffset) |||
    resourceToTag rs o.secondary tagBase

theorem cptrSegments_eq (nw : NodeWriter) (rs : List Nat) (tb : Nat) (cs : List WNode) :
    cptrSegments nw rs tb cs = (cs.map (childCWord nw rs tb)).map putU64LE := by
  simp [cptrSegments, childCWord, List.map_map, Function.comp_def]

/-- the `2·arity + 2` words of a branch node with the given children, resources and codec, in file order -/
def nodeWordsOf (nw : NodeWriter) (cs : List WNode) (rs : List Nat) (c : Nat) : List Nat :=
  (if codecIsLong c then [0xFD00000000000000] else []) ++ (rs.map (fun _ => 0 ||| tagFF) ++
    (childDWords rs (codecIsLong c).toNat cs 0 ++
    ([(0 + (cs.map WNode.dRangeSize).sum) ||| (c &&& 0xFF00000000000000)] ++
    ((if codecIsLong c then [c &&& 0x00FFFFFFFFFFFFFF] else []) ++
    (rs.map (fun res => (nw.resourcesCOffCLens.getD res 0 + nw.dataCOffset) ||| tagFF) ++
    (cs.map (childCWord nw rs (codecIsLong c).toNat) ++
    [nw.cFileSize ||| (0x01 <<< 48) ||| ((cs.length + rs.length + (codecIsLong c).toNat) <<< 56)]))))))

def nodeWords (nw : NodeWriter) (n : WNode) : List Nat := nodeWordsOf nw n.children n.resources n.codec

/-- the bytes `encodeNode` emits: magic, arity, checksum, then the words from byte 6 on -/
theorem encodeNode_eq (nw : NodeWriter) (n : WNode) (hv : codecValid n.codec = true)
    (ha : n.children.length + n.resources.length + (codecIsLong n.codec).toNat ≤ 0xFF) :
    encodeNode nw n = .ok
      (let body := (((nodeWords nw n).map putU64LE).flatten).drop 6
       let checksum := crc32 body
       let checksum := checksum ^^^ (checksum >>> 16)
       [0x72, 0xC3, 0x63, UInt8.ofNat (n.children.length + n.resources.length + (codecIsLong n.codec).toNat),
         checksum.toUInt8, (checksum >>> 8).toUInt8] ++ body) := by
  unfold encodeNode
  simp only [hv, Bool.not_true, Bool.false_eq_true, ↓reduceIte]
  rw [if_neg (by omega)]
  simp only [dptrSegments_eq, cptrSegments_eq, nodeWords, nodeWordsOf]
  cases codecIsLong n.codec <;> simp [List.map_append, List.map_map, Function.comp_def]


/-- `DPtr` of child `j`: the sizes of the children before it -/
def prefixSize (cs : List WNode) (j : Nat) : Nat := ((cs.take j).map WNode.dRangeSize).sum

theorem childDWords_length (rs : List Nat) (tb : Nat) (cs : List WNode) (d : Nat) :
    (childDWords rs tb cs d).length = cs.length := by
  induction cs generalizing d with
  | nil => rfl
  | cons o os ih => simp [childDWords, ih]

theorem childDWords_getD (rs : List Nat) (tb : Nat) (cs : List WNode) (d j : Nat) (hj : j < cs.length) :
    (childDWords rs tb cs d).getD j 0 = childDWord rs tb (cs.getD j default) (d + prefixSize cs j) := by
  induction cs generalizing d j with
  | nil => simp at hj
  | cons o os ih =>
    cases j with
    | zero => simp [childDWords, prefixSize]
    | succ k =>
      have hk : k < os.length := by simpa using hj
      simp only [childDWords, List.getD_cons_succ, ih _ _ hk, prefixSize, List.take_succ_cons, List.map_cons,
        List.sum_cons]
      congr 1; omega

theorem getD_mid {α : Type} (pre seg post : List α) (j : Nat) (d : α) (hj : j < seg.length) :
    (pre ++ seg ++ post).getD (pre.length + j) d = seg.getD j d := by
  simp only [List.getD_eq_getElem?_getD]
  rw [List.getElem?_append_left (by simp; omega), List.getElem?_append_right (by omega)]
  simp

theorem optWord_length (long : Bool) (x : Nat) : (if long then [x] else []).length = long.toNat := by
  cases long <;> rfl

theorem getD_skip {α : Type} (a X : List α) (m : Nat) (d : α) : (a ++ X).getD (a.length + m) d = X.getD m d := by
  simp only [List.getD_eq_getElem?_getD]
  rw [List.getElem?_append_right (by omega)]
  simp

theorem getD_here {α : Type} (s post : List α) (j : Nat) (d : α) (hj : j < s.length) :
    (s ++ post).getD j d = s.getD j d := by
  simp only [List.getD_eq_getElem?_getD]
  rw [List.getElem?_append_left hj]

section words
variable (nw : NodeWriter) (cs : List WNode) (rs : List Nat) (c : Nat)

theorem nodeWordsOf_length :
    (nodeWordsOf nw cs rs c).length = 2 * (cs.length + rs.length + (codecIsLong c).toNat) + 2 := by
  simp only [nodeWordsOf, List.length_append, optWord_length,
    List.length_map, childDWords_length, List.length_cons, List.length_nil]
  omega

/-- D-segment of the Codec Element -/
theorem nodeWordsOf_D1 (h : codecIsLong c = true) :
    (nodeWordsOf nw cs rs c).getD 0 0 = 0xFD00000000000000 := by
  simp [nodeWordsOf, h]

/-- D-segments of the resources -/
theorem nodeWordsOf_D2 (i : Nat) (hi : i < rs.length) :
    (nodeWordsOf nw cs rs c).getD ((codecIsLong c).toNat + i) 0 = tagFF := by
  unfold nodeWordsOf
  rw [← optWord_length (codecIsLong c) 0xFD00000000000000, getD_skip, getD_here _ _ _ _ (by simpa using hi)]
  simp [List.getD_eq_getElem?_getD, hi]

/-- D-segments of the children -/
theorem nodeWordsOf_D3 (j : Nat) (hj : j < cs.length) :
    (nodeWordsOf nw cs rs c).getD ((codecIsLong c).toNat + rs.length + j) 0 =
      childDWord rs (codecIsLong c).toNat (cs.getD j default) (prefixSize cs j) := by
  have e : (codecIsLong c).toNat + rs.length + j =
      (if codecIsLong c then [0xFD00000000000000] else []).length +
        ((rs.map (fun _ => 0 ||| tagFF)).length + j) := by
    rw [optWord_length, List.length_map, Nat.add_assoc]
  unfold nodeWordsOf
  rw [e, getD_skip, getD_skip, getD_here _ _ _ _ (by rw [childDWords_length]; exact hj),
    childDWords_getD _ _ _ _ _ hj, Nat.zero_add]

/-- the `DPtrMax|0|CodecByte` segment -/
theorem nodeWordsOf_D4 :
    (nodeWordsOf nw cs rs c).getD (cs.length + rs.length + (codecIsLong c).toNat) 0 =
      (cs.map WNode.dRangeSize).sum ||| (c &&& 0xFF00000000000000) := by
  have e : cs.length + rs.length + (codecIsLong c).toNat =
      (if codecIsLong c then [0xFD00000000000000] else []).length +
        ((rs.map (fun _ => 0 ||| tagFF)).length + ((childDWords rs (codecIsLong c).toNat cs 0).length + 0)) := by
    rw [optWord_length, List.length_map, childDWords_length]; omega
  unfold nodeWordsOf
  rw [e, getD_skip, getD_skip, getD_skip, getD_here _ _ _ _ (by simp)]
  simp

/-- C-segment of the Codec Element -/
theorem nodeWordsOf_C1 (h : codecIsLong c = true) :
    (nodeWordsOf nw cs rs c).getD (cs.length + rs.length + (codecIsLong c).toNat + 1) 0 = c &&& 0x00FFFFFFFFFFFFFF := by
  have e : cs.length + rs.length + (codecIsLong c).toNat + 1 =
      (if codecIsLong c then [0xFD00000000000000] else []).length +
        ((rs.map (fun _ => 0 ||| tagFF)).length + ((childDWords rs (codecIsLong c).toNat cs 0).length +
          ([(0 + (cs.map WNode.dRangeSize).sum) ||| (c &&& 0xFF00000000000000)].length + 0))) := by
    rw [optWord_length, List.length_map, childDWords_length]; simp; omega
  unfold nodeWordsOf
  rw [e, getD_skip, getD_skip, getD_skip, getD_skip]
  simp [h]

/-- C-segments of the resources -/
theorem nodeWordsOf_C2 (i : Nat) (hi : i < rs.length) :
    (nodeWordsOf nw cs rs c).getD (cs.length + rs.length + (codecIsLong c).toNat + 1 + ((codecIsLong c).toNat + i)) 0 =
      (nw.resourcesCOffCLens.getD (rs.getD i 0) 0 + nw.dataCOffset) ||| tagFF := by
  have e : cs.length + rs.length + (codecIsLong c).toNat + 1 + ((codecIsLong c).toNat + i) =
      (if codecIsLong c then [0xFD00000000000000] else []).length +
        ((rs.map (fun _ => 0 ||| tagFF)).length + ((childDWords rs (codecIsLong c).toNat cs 0).length +
          ([(0 + (cs.map WNode.dRangeSize).sum) ||| (c &&& 0xFF00000000000000)].length +
          ((if codecIsLong c then [c &&& 0x00FFFFFFFFFFFFFF] else []).length + i)))) := by
    rw [optWord_length, optWord_length, List.length_map, childDWords_length]; simp; omega
  unfold nodeWordsOf
  rw [e, getD_skip, getD_skip, getD_skip, getD_skip, getD_skip, getD_here _ _ _ _ (by simpa using hi)]
  simp [List.getD_eq_getElem?_getD, hi]

/-- C-segments of the children -/
theorem nodeWordsOf_C3 (j : Nat) (hj : j < cs.length) :
    (nodeWordsOf nw cs rs c).getD (cs.length + rs.length + (codecIsLong c).toNat + 1 + ((codecIsLong c).toNat + rs.length + j)) 0 =
      childCWord nw rs (codecIsLong c).toNat (cs.getD j default) := by
  have e : cs.length + rs.length + (codecIsLong c).toNat + 1 + ((codecIsLong c).toNat + rs.length + j) =
      (if codecIsLong c then [0xFD00000000000000] else []).length +
        ((rs.map (fun _ => 0 ||| tagFF)).length + ((childDWords rs (codecIsLong c).toNat cs 0).length +
          ([(0 + (cs.map WNode.dRangeSize).sum) ||| (c &&& 0xFF00000000000000)].length +
          ((if codecIsLong c then [c &&& 0x00FFFFFFFFFFFFFF] else []).length +
          ((rs.map (fun res => (nw.resourcesCOffCLens.getD res 0 + nw.dataCOffset) ||| tagFF)).length + j))))) := by
    rw [optWord_length, optWord_length, List.length_map, List.length_map, childDWords_length]; simp; omega
  unfold nodeWordsOf
  rw [e, getD_skip, getD_skip, getD_skip, getD_skip, getD_skip, getD_skip, getD_here _ _ _ _ (by simpa using hj)]
  simp [List.getD_eq_getElem?_getD, hj]

/-- the `CPtrMax|Version|Arity` segment -/
theorem nodeWordsOf_C4 :
    (nodeWordsOf nw cs rs c).getD (cs.length + rs.length + (codecIsLong c).toNat + 1 + (cs.length + rs.length + (codecIsLong c).toNat)) 0 =
      nw.cFileSize ||| (0x01 <<< 48) ||| ((cs.length + rs.length + (codecIsLong c).toNat) <<< 56) := by
  have e : cs.length + rs.length + (codecIsLong c).toNat + 1 + (cs.length + rs.length + (codecIsLong c).toNat) =
      (if codecIsLong c then [0xFD00000000000000] else []).length +
        ((rs.map (fun _ => 0 ||| tagFF)).length + ((childDWords rs (codecIsLong c).toNat cs 0).length +
          ([(0 + (cs.map WNode.dRangeSize).sum) ||| (c &&& 0xFF00000000000000)].length +
          ((if codecIsLong c then [c &&& 0x00FFFFFFFFFFFFFF] else []).length +
          ((rs.map (fun res => (nw.resourcesCOffCLens.getD res 0 + nw.dataCOffset) ||| tagFF)).length +
          ((cs.map (childCWord nw rs (codecIsLong c).toNat)).length + 0)))))) := by
    rw [optWord_length, optWord_length, List.length_map, List.length_map, List.length_map, childDWords_length]; simp; omega
  unfold nodeWordsOf
  rw [e, getD_skip, getD_skip, getD_skip, getD_skip, getD_skip, getD_skip, getD_skip]
  simp
end words
end WuffsVerif.Rac
