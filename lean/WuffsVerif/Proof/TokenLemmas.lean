/-
Helper lemmas about `Model/Token.lean` (the scanners advance and stay in range; one loop
iteration adds at most one token, one map entry of bounded length, …).
-/
import WuffsVerif.Model.Token

namespace WuffsVerif.Token
open WuffsVerif.Gen.C11

/-! ## scanners -/

theorem scanWhile_ge (src : ByteArray) (p : UInt8 → Bool) (i j r : Nat)
    (h : scanWhile src p i j = some r) : j ≤ r := by
  fun_induction scanWhile src p i j with
  | case1 j hj hp hlen => simp at h
  | case2 j hj hp hlen ih => have := ih h; omega
  | case3 j hj hp => simp at h; omega
  | case4 j hj => simp at h; omega

theorem scanWhile_le (src : ByteArray) (p : UInt8 → Bool) (i j r : Nat) (hj : j ≤ src.size)
    (h : scanWhile src p i j = some r) : r ≤ src.size := by
  fun_induction scanWhile src p i j with
  | case1 j hj' hp hlen => simp at h
  | case2 j hj' hp hlen ih => exact ih (by omega) h
  | case3 j hj' hp => simp at h; omega
  | case4 j hj' => simp at h; omega

/-- The "too long" check: a successful scan from `j0` with `j0 - i ≤ maxTokenSize` ends
within `maxTokenSize` bytes of `i`. -/
theorem scanWhile_bound (src : ByteArray) (p : UInt8 → Bool) (i j r : Nat)
    (hij : i ≤ j) (hb : j - i ≤ maxTokenSize)
    (h : scanWhile src p i j = some r) : r - i ≤ maxTokenSize := by
  fun_induction scanWhile src p i j with
  | case1 j hj' hp hlen => simp at h
  | case2 j hj' hp hlen ih =>
    apply ih (by omega) _ h
    have : j - i ≠ maxTokenSize := by simpa using hlen
    omega
  | case3 j hj' hp => simp at h; omega
  | case4 j hj' => simp at h; omega

theorem scanString_ge (src : ByteArray) (q : UInt8) (j r : Nat)
    (h : scanString src q j = .ok r) : j ≤ r := by
  fun_induction scanString src q j with
  | case1 j hj c hc => simp at h; omega
  | case2 j hj c hc hb hq => simp at h
  | case3 j hj c hc hb hq ih => have := ih h; omega
  | case4 j hj c hc hb hn => simp at h
  | case5 j hj c hc hb hn hctl => simp at h
  | case6 j hj c hc hb hn hctl ih => have := ih h; omega
  | case7 j hj => simp at h; omega

theorem scanString_le (src : ByteArray) (q : UInt8) (j r : Nat) (hj : j ≤ src.size)
    (h : scanString src q j = .ok r) : r ≤ src.size := by
  fun_induction scanString src q j with
  | case1 j hj' c hc => simp at h; omega
  | case2 j hj' c hc hb hq => simp at h
  | case3 j hj' c hc hb hq ih => exact ih (by omega) h
  | case4 j hj' c hc hb hn => simp at h
  | case5 j hj' c hc hb hn hctl => simp at h
  | case6 j hj' c hc hb hn hctl ih => exact ih (by omega) h
  | case7 j hj' => simp at h; omega

theorem scanToNewline_ge (src : ByteArray) (j : Nat) : j ≤ scanToNewline src j := by
  fun_induction scanToNewline src j with
  | case1 j hj hn => omega
  | case2 j hj hn ih => omega
  | case3 j hj => omega

theorem scanToNewline_le (src : ByteArray) (j : Nat) (hj : j ≤ src.size) :
    scanToNewline src j ≤ src.size := by
  fun_induction scanToNewline src j with
  | case1 j hj' hn => omega
  | case2 j hj' hn ih => exact ih (by omega)
  | case3 j hj' => omega

theorem hasPrefixAt_le (src : ByteArray) (k : Nat) (l : List UInt8) (hk : k ≤ src.size)
    (h : hasPrefixAt src k l = true) : k + l.length ≤ src.size := by
  induction l generalizing k with
  | nil => simpa using hk
  | cons b rest ih =>
    simp only [hasPrefixAt, Bool.and_eq_true, decide_eq_true_eq] at h
    have := ih (k + 1) (by omega) h.2
    simp only [List.length_cons]; omega

theorem slice_length (src : ByteArray) (i j : Nat) : (slice src i j).length = j - i := by
  simp [slice]

theorem latin1_length (bs : List UInt8) : (latin1 bs).length = bs.length := by
  simp [latin1]

end WuffsVerif.Token

namespace WuffsVerif.Token
open WuffsVerif.Gen.C11

/-! ## one loop iteration -/

theorem insert_byID (m m' : TMap) (name : String) (id : Nat)
    (h : m.insert name = .ok (id, m')) :
    m'.byID = m.byID ∨ m'.byID = m.byID.push name := by
  unfold TMap.insert at h
  split at h
  · simp at h; left; rw [← h.2]
  · split at h
    · simp at h; left; rw [← h.2]
    · dsimp only at h
      split at h
      · simp at h
      · simp at h; right; rw [← h.2]

/-- What one successful loop iteration does to the index and the state. -/
structure Adv (src : ByteArray) (i : Nat) (st : St) (j : Nat) (st' : St) : Prop where
  lt : i < j
  le : j ≤ src.size
  toks : st'.toks = st.toks ∨ ∃ t, st'.toks = st.toks.push t ∧ t.line = st.line
  names : st'.m.byID = st.m.byID ∨
    ∃ s, st'.m.byID = st.m.byID.push s ∧ 0 < s.length ∧ s.length ≤ maxTokenSize ∧
      st'.toks.size = st.toks.size + 1
  line : st'.line = st.line ∨ (st'.line = st.line + 1 ∧ st.line ≠ maxLine)
  iters : st'.iters = st.iters

theorem emit_adv (src : ByteArray) (i j : Nat) (st : St) (r : Nat) (st' : St)
    (hij : i < j) (hj : j ≤ src.size) (hb : j - i ≤ maxTokenSize)
    (h : emit src i j st = .ok (r, st')) : Adv src i st r st' := by
  unfold emit at h
  split at h
  · simp at h
  · rename_i id m hins
    simp at h
    obtain ⟨hr, hst⟩ := h
    subst hr; subst hst
    have hlen : (latin1 (slice src i j)).length = j - i := by
      rw [latin1_length, slice_length]
    refine ⟨hij, hj, Or.inr ⟨_, rfl, rfl⟩, ?_, Or.inl rfl, rfl⟩
    rcases insert_byID _ _ _ _ hins with h1 | h1
    · left; exact h1
    · right; exact ⟨_, h1, by omega, by omega, by simp⟩

theorem withImplicitSemicolon_cases (st : St) :
    withImplicitSemicolon st = st.toks ∨
      ∃ t, withImplicitSemicolon st = st.toks.push t ∧ t.line = st.line := by
  unfold withImplicitSemicolon
  split
  · split
    · right; exact ⟨_, rfl, rfl⟩
    · left; rfl
  · left; rfl

theorem stepSpace_adv (src : ByteArray) (c : UInt8) (i : Nat) (st : St) (r : Nat) (st' : St)
    (hi : i < src.size) (h : stepSpace c i st = .ok (r, st')) : Adv src i st r st' := by
  unfold stepSpace at h
  split at h
  · split at h
    · simp at h
    · rename_i hline
      simp at h
      obtain ⟨hr, hst⟩ := h
      subst hr; subst hst
      exact ⟨by omega, by omega, withImplicitSemicolon_cases st, Or.inl rfl,
        Or.inr ⟨rfl, by simpa using hline⟩, rfl⟩
  · simp at h
    obtain ⟨hr, hst⟩ := h
    subst hr; subst hst
    exact ⟨by omega, by omega, Or.inl rfl, Or.inl rfl, Or.inl rfl, rfl⟩

theorem stringEnd_ge (src : ByteArray) (q : UInt8) (j0 : Nat) : j0 ≤ stringEnd src q j0 := by
  unfold stringEnd; split <;> omega

theorem stringEnd_le (src : ByteArray) (q : UInt8) (j0 : Nat) (h : j0 ≤ src.size) :
    stringEnd src q j0 ≤ src.size := by
  unfold stringEnd
  split
  · rename_i he
    unfold hasEndianAt at he
    simp only [Bool.and_eq_true, decide_eq_true_eq] at he
    omega
  · exact h

theorem stepString_adv (src : ByteArray) (c : UInt8) (i : Nat) (st : St) (r : Nat) (st' : St)
    (hi : i < src.size) (h : stepString src c i st = .ok (r, st')) : Adv src i st r st' := by
  unfold stepString at h
  split at h
  · simp at h
  · rename_i j0 hscan
    have hge := scanString_ge _ _ _ _ hscan
    have hle := scanString_le _ _ _ _ (by omega) hscan
    have h1 := stringEnd_ge src c j0
    have h2 := stringEnd_le src c j0 hle
    split at h
    · simp at h
    · rename_i hlong
      split at h
      · simp at h
      · exact emit_adv src i _ st r st' (by omega) h2 (by omega) h

theorem stepIdent_adv (src : ByteArray) (i : Nat) (st : St) (r : Nat) (st' : St)
    (hi : i < src.size) (h : stepIdent src i st = .ok (r, st')) : Adv src i st r st' := by
  unfold stepIdent at h
  split at h
  · simp at h
  · rename_i j hscan
    have hge := scanWhile_ge _ _ _ _ _ hscan
    have hle := scanWhile_le _ _ _ _ _ (by omega) hscan
    have hb := scanWhile_bound _ _ _ _ _ (by omega) (by simp [maxTokenSize]) hscan
    exact emit_adv src i j st r st' (by omega) hle hb h

theorem numberPrefix_bounds (src : ByteArray) (c : UInt8) (i j0 : Nat) (p : UInt8 → Bool)
    (hi : i < src.size) (h : numberPrefix src c i = .ok (j0, p)) :
    i + 1 ≤ j0 ∧ j0 ≤ src.size ∧ j0 - i ≤ 2 := by
  unfold numberPrefix at h
  dsimp only at h
  split at h
  · rename_i hc
    simp only [Bool.and_eq_true, decide_eq_true_eq] at hc
    split at h
    · simp at h; omega
    · split at h
      · simp at h; omega
      · split at h
        · simp at h
        · simp at h; omega
  · simp at h; omega

theorem stepNumber_adv (src : ByteArray) (c : UInt8) (i : Nat) (st : St) (r : Nat) (st' : St)
    (hi : i < src.size) (h : stepNumber src c i st = .ok (r, st')) : Adv src i st r st' := by
  unfold stepNumber at h
  split at h
  · simp at h
  · rename_i j0 isDigit hpre
    have hj0 := numberPrefix_bounds src c i j0 isDigit hi hpre
    split at h
    · simp at h
    · rename_i j hscan
      have hge := scanWhile_ge _ _ _ _ _ hscan
      have hle := scanWhile_le _ _ _ _ _ hj0.2.1 hscan
      have hb := scanWhile_bound _ _ _ _ _ (by omega) (by simp [maxTokenSize]; omega) hscan
      split at h
      · simp at h
      · exact emit_adv src i j st r st' (by omega) hle hb h

theorem stepComment_adv (src : ByteArray) (i : Nat) (st : St) (r : Nat) (st' : St)
    (hi : i + 1 < src.size) (h : stepComment src i st = .ok (r, st')) : Adv src i st r st' := by
  unfold stepComment at h
  simp at h
  obtain ⟨hr, hst⟩ := h
  subst hr; subst hst
  have := scanToNewline_ge src (i + 2)
  have := scanToNewline_le src (i + 2) (by omega)
  exact ⟨by omega, by omega, Or.inl rfl, Or.inl rfl, Or.inl rfl, rfl⟩

theorem stepSquiggle_adv (src : ByteArray) (c : UInt8) (i : Nat) (st : St) (r : Nat) (st' : St)
    (hi : i < src.size) (h : stepSquiggle src c i st = .ok (r, st')) : Adv src i st r st' := by
  unfold stepSquiggle at h
  simp only at h
  split at h
  · simp at h
    obtain ⟨hr, hst⟩ := h
    subst hr; subst hst
    exact ⟨by omega, by omega, Or.inr ⟨_, rfl, rfl⟩, Or.inl rfl, Or.inl rfl, rfl⟩
  · split at h
    · rename_i x hfind
      simp at h
      obtain ⟨hr, hst⟩ := h
      subst hr; subst hst
      have hp := List.find?_some hfind
      have := hasPrefixAt_le src (i + 1) x.1 (by omega) hp
      exact ⟨by omega, by omega, Or.inr ⟨_, rfl, rfl⟩, Or.inl rfl, Or.inl rfl, rfl⟩
    · simp at h

theorem step_adv (src : ByteArray) (i : Nat) (st : St) (r : Nat) (st' : St)
    (hi : i < src.size) (h : step src i st = .ok (r, st')) : Adv src i st r st' := by
  unfold step at h
  simp only at h
  split at h
  · exact stepSpace_adv src _ i st r st' hi h
  · split at h
    · exact stepString_adv src _ i st r st' hi h
    · split at h
      · exact stepIdent_adv src i st r st' hi h
      · split at h
        · exact stepNumber_adv src _ i st r st' hi h
        · split at h
          · rename_i hc
            simp only [Bool.and_eq_true, decide_eq_true_eq] at hc
            exact stepComment_adv src i st r st' hc.1.2 h
          · exact stepSquiggle_adv src _ i st r st' hi h

end WuffsVerif.Token

namespace WuffsVerif.Token
open WuffsVerif.Gen.C11

/-! ## `stuck` is produced by the loop's progress check only -/

theorem insert_ne_stuck (m : TMap) (name : String) : m.insert name ≠ .error .stuck := by
  unfold TMap.insert
  split
  · simp
  · split
    · simp
    · dsimp only; split <;> simp

theorem emit_ne_stuck (src : ByteArray) (i j : Nat) (st : St) : emit src i j st ≠ .error .stuck := by
  unfold emit
  split
  · rename_i e he
    intro h
    simp at h
    subst h
    exact insert_ne_stuck _ _ he
  · simp

theorem scanString_ne_stuck (src : ByteArray) (q : UInt8) (j : Nat) :
    scanString src q j ≠ .error .stuck := by
  fun_induction scanString src q j <;> simp_all

theorem step_ne_stuck (src : ByteArray) (i : Nat) (st : St) : step src i st ≠ .error .stuck := by
  unfold step
  dsimp only
  split
  · unfold stepSpace; split
    · split <;> simp
    · simp
  · split
    · unfold stepString
      split
      · rename_i e he
        intro h; simp at h; subst h
        exact scanString_ne_stuck _ _ _ he
      · split
        · simp
        · split
          · rename_i e hc
            intro h; simp at h; subst h
            unfold sqCheck at hc
            split at hc
            · split at hc
              · simp at hc
              · split at hc <;> simp at hc
            · simp at hc
          · exact emit_ne_stuck _ _ _ _
    · split
      · unfold stepIdent
        split
        · simp
        · exact emit_ne_stuck _ _ _ _
      · split
        · unfold stepNumber
          split
          · rename_i e he
            intro h; simp at h; subst h
            unfold numberPrefix at he
            dsimp only at he
            split at he
            · split at he
              · simp at he
              · split at he
                · simp at he
                · split at he <;> simp at he
            · simp at he
          · split
            · simp
            · split
              · simp
              · exact emit_ne_stuck _ _ _ _
        · split
          · unfold stepComment; simp
          · unfold stepSquiggle
            dsimp only
            split
            · simp
            · split <;> simp

end WuffsVerif.Token
