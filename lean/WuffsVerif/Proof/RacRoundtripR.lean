/-
C13: the end-to-end round trip over the models *through the shared resources* (`rac_roundtrip_resources_thm`):
Writer session -> file -> independent spec reader, whose decompressor is handed the bytes of all three CRanges.
-/
import WuffsVerif.Proof.RacResources
import WuffsVerif.Proof.RacWriterR2
namespace WuffsVerif.Rac
open Spec

/-- `CoversR`, oldest chunk first -/
inductive CoversRF (DR : Bytes → Bytes → Bytes → Option Bytes) (resl : List Bytes) : List ChunkRec → Bytes → Prop where
  | nil : CoversRF DR resl [] []
  | cons {r : ChunkRec} {rest : List ChunkRec} {data dd : Bytes} {k : Nat} :
      ChunkOKR DR resl r.primary r.secondary r.tertiary dd → dd.length + k = r.dRangeSize →
      CoversRF DR resl rest data → CoversRF DR resl (r :: rest) ((dd ++ List.replicate k 0) ++ data)

theorem CoversRF.snoc {DR : Bytes → Bytes → Bytes → Option Bytes} {resl : List Bytes} {l : List ChunkRec} {x : Bytes}
    (h : CoversRF DR resl l x) {r : ChunkRec} {dd : Bytes} {k : Nat}
    (h1 : ChunkOKR DR resl r.primary r.secondary r.tertiary dd) (h2 : dd.length + k = r.dRangeSize) :
    CoversRF DR resl (l ++ [r]) (x ++ (dd ++ List.replicate k 0)) := by
  induction h with
  | nil => simpa using CoversRF.cons h1 h2 CoversRF.nil
  | cons a b _ ih => simpa [List.append_assoc] using CoversRF.cons a b ih

theorem coversR_toF {DR : Bytes → Bytes → Bytes → Option Bytes} {resl : List Bytes} {log : List ChunkRec}
    {data : Bytes} (h : CoversR DR resl log data) : CoversRF DR resl log.reverse data := by
  induction h with
  | nil => exact CoversRF.nil
  | cons _ h1 h2 ih => simpa using ih.snoc h1 h2

theorem coversR_nil {DR : Bytes → Bytes → Bytes → Option Bytes} {resl : List Bytes} {data : Bytes}
    (h : CoversR DR resl [] data) : data = [] := by
  generalize hl : ([] : List ChunkRec) = l at h
  cases h with
  | nil => rfl
  | cons _ _ _ => simp at hl

/-- the bytes of a resource CRange, as the decompressor sees them: the registered resource followed by
unrelated bytes — none at all when the chunk names no resource -/
theorem res_range_bytes (file : Array UInt8) (nw : NodeWriter) (S pre post : Bytes) (resl : List Bytes)
    (hfile : file.toList = pre ++ S ++ post) (hpre : pre.length = nw.dataCOffset) (hfs : file.size = nw.cFileSize)
    (hS : S.length < 2 ^ 48)
    (hre : ResEntries S (nw.resourcesCOffCLens.toList.drop 1) resl) (r : Nat) (rg : Rng) (h : ResRange nw r rg)
    (hle : r ≤ resl.length) (hne : r ≠ 0 → resAt resl r ≠ []) :
    ∃ extra, (file.extract rg.lo rg.hi).toList = resAt resl r ++ extra ∧ (resAt resl r = [] → extra = []) := by
  obtain ⟨h0, h1⟩ := res_bytes_of_range file nw S pre post resl hfile hpre hfs hS hre r rg h
  by_cases hr : r = 0
  · refine ⟨[], ?_, fun _ => rfl⟩
    rw [h0 hr]
    simp [resAt, hr]
  · obtain ⟨extra, he⟩ := h1 (by omega) hle
    refine ⟨extra, ?_, fun h => absurd h (hne hr)⟩
    rw [he]; simp [resAt, hr]

/-- decoding the reader's chunks — primary, secondary and tertiary CRange bytes handed to the decompressor —
gives back what the accepted chunks cover -/
theorem decode_of_matchesR (file : Array UInt8) (nw : NodeWriter) (c : Nat) (DR : Bytes → Bytes → Bytes → Option Bytes)
    (hDR : ∀ a b s s' t t' d, DR a s t = some d → (s = [] → s' = []) → (t = [] → t' = []) →
      DR (a ++ b) (s ++ s') (t ++ t') = some d)
    (hc0 : c ≠ 0) (hc63 : c ≠ 2 ^ 63)
    (S pre post : Bytes) (hfile : file.toList = pre ++ S ++ post) (hpre : pre.length = nw.dataCOffset)
    (hfs : file.size = nw.cFileSize) (hS : S.length < 2 ^ 48)
    (resl : List Bytes) (hre : ResEntries S (nw.resourcesCOffCLens.toList.drop 1) resl) :
    ∀ (chs : List Chunk) (os : List WNode) (recs : List ChunkRec) (p : Nat) (data : Bytes) (acc : List Bytes),
      Matches nw c chs os p → LeafLog S os recs → LeafRes os recs → CoversRF DR resl recs data →
      ∃ acc', decodeChunks file (fun _ p s t => DR p s t) chs acc = .ok acc' ∧
        acc'.reverse.flatten = acc.reverse.flatten ++ data := by
  intro chs
  induction chs with
  | nil =>
    intro os recs p data acc hm hl hr hc
    cases os with
    | cons _ _ => simp [Matches] at hm
    | nil =>
      cases recs with
      | cons _ _ => simp [LeafLog] at hl
      | nil =>
        cases hc
        exact ⟨acc, by simp [decodeChunks], by simp⟩
  | cons ch chs ih =>
    intro os recs p data acc hm hl hr hc
    cases os with
    | nil => simp [Matches] at hm
    | cons o os =>
      cases recs with
      | nil => simp [LeafLog] at hl
      | cons r recs =>
        simp only [Matches, ChunkFor] at hm
        obtain ⟨⟨m1, m2, m3, m4, m5, m6⟩, mrest⟩ := hm
        simp only [LeafLog] at hl
        obtain ⟨⟨l1, l2, l3, l4, l5, off, l6, l7, l8⟩, lrest⟩ := hl
        simp only [LeafRes] at hr
        obtain ⟨⟨s1, s2⟩, rrest⟩ := hr
        cases hc with
        | cons c1 c2 c3 =>
          rename_i data' dd k
          obtain ⟨k1, k2, k3, k4, k5⟩ := c1
          have hoff : off < 2 ^ 48 := by omega
          have hcf := col_fields off r.primary.length hoff
          rw [← l8] at hcf
          have hclen : o.cOffsetCLength / 2 ^ 48 = calcCLength r.primary.length := by
            rw [l8, or_shift_eq_add _ _ _ hoff]
            have := calcCLength_le r.primary.length
            omega
          rw [hcf.2] at m3 m4
          rw [hclen] at m4
          obtain ⟨extra, hextra⟩ := range_bytes file S pre post r.primary nw.dataCOffset nw.cFileSize off
            ch.cPrimary.lo ch.cPrimary.hi hfile hpre hfs l6 l7 m3 m4
          rw [s1] at m5
          rw [s2] at m6
          obtain ⟨extraS, hS1, hS2⟩ := res_range_bytes file nw S pre post resl hfile hpre hfs hS hre _ _ m5 k1 k3
          obtain ⟨extraT, hT1, hT2⟩ := res_range_bytes file nw S pre post resl hfile hpre hfs hS hre _ _ m6 k2 k4
          have hsize : ch.dRange.hi - ch.dRange.lo = r.dRangeSize := by rw [m1, ← l1]; simp
          unfold decodeChunks
          simp only [m2]
          have hcc : (c == 0 || c == 2 ^ 63) = false := by simp [hc0, hc63]
          rw [hcc]
          simp only [Bool.false_eq_true, ↓reduceIte, hextra, hS1, hT1, hDR _ extra _ extraS _ extraT _ k5 hS2 hT2, hsize]
          rw [if_neg (by omega)]
          have hk : r.dRangeSize - dd.length = k := by omega
          rw [hk]
          obtain ⟨acc', ha1, ha2⟩ := ih os recs (p + o.dRangeSize) data' ((dd ++ List.replicate k 0) :: acc) mrest lrest rrest c3
          exact ⟨acc', ha1, by rw [ha2]; simp [List.append_assoc]⟩

/-- **`rac_roundtrip_resources`** — property C13 over the models, decoding *through the shared resources*.
For every codec meeting the resource-aware contract `CodecContractR` (with `DR` tolerating unrelated bytes after
the primary bytes and after a non-empty resource, and never naming the "Zeroes" codec), every configuration and
fault position, every sequence of `Write` calls on a fresh Writer: if `Close` returns nil then the bytes that
reached `Writer` pass the independent spec reader's validation and — with the decompressor given, for every
chunk, the bytes of its primary, secondary and tertiary CRanges — decode to exactly the written bytes. -/
theorem rac_roundtrip_resources_thm (cw : CodecW) (DR : Bytes → Bytes → Bytes → Option Bytes)
    (hc : CodecContractR cw DR)
    (hDR : ∀ a b s s' t t' d, DR a s t = some d → (s = [] → s' = []) → (t = [] → t' = []) →
      DR (a ++ b) (s ++ s') (t ++ t') = some d)
    (hz : ∀ a b rs out, cw.compress a b rs = .ok out → NotZeroes out.codec)
    (w0 : Writer)
    (hfresh : w0.err = none ∧ w0.closed = false ∧ w0.inited = false ∧
      w0.chunkWriter = { io := { failAt := w0.chunkWriter.io.failAt } } ∧ w0.uncompressed = {})
    (ps : List Bytes) (hok : ((Writer.runWrites cw w0 ps).Close cw).2 = none) :
    Spec.validate (fileOf ((Writer.runWrites cw w0 ps).Close cw).1) = true ∧
    Spec.decode (fileOf ((Writer.runWrites cw w0 ps).Close cw).1) (fun _ p s t => DR p s t) = .ok ps.flatten := by
  obtain ⟨f1, f2, f3, f4, f5⟩ := hfresh
  -- invariants of the session
  have hw0 : WInv w0 := by
    refine ⟨⟨fun _ => ?_, ?_⟩, fun _ => ?_⟩
    · rw [f4]; exact dataInv_fresh _
    · rw [f4]; simp
    · rw [f4]
  have hwN := runWrites_winv cw hz ps w0 hw0
  have hinv0 : InvBR cw DR w0 [] := by
    right
    refine ⟨by rw [f4]; left; simp, fun h => by rw [f3] at h; simp at h, by rw [f4]; simp [LeafRes],
      by rw [f5], by rw [f5], [], by rw [f4]; exact CoversR.nil, by rw [f5]; rfl⟩
  have hinvN := runWrites_invR cw DR hc ps w0 [] hinv0
  simp only [List.nil_append] at hinvN
  have hclN : (Writer.runWrites cw w0 ps).closed = false := by
    have hcl : ∀ (qs : List Bytes) (w : Writer), w.closed = false → (Writer.runWrites cw w qs).closed = false := by
      intro qs
      induction qs with
      | nil => intro w h; exact h
      | cons q qs ih => intro w h; exact ih _ (by rw [Writer.Write_closed]; exact h)
    exact hcl ps w0 f2
  obtain ⟨w1, hinit, hwr, hclose, hcw⟩ := Close_unfold cw _ hclN hok
  have hinvC : InvBR cw DR ({ Writer.runWrites cw w0 ps with closed := true } : Writer) ps.flatten := hinvN
  obtain ⟨hlres, hcov⟩ := close_coversR cw DR hc _ w1 ps.flatten hinvC hinit hwr
  -- the ChunkWriter just before its Close
  have hwc : WInv ({ Writer.runWrites cw w0 ps with closed := true } : Writer) := ⟨hwN.1, hwN.2⟩
  have hi1 := Writer.init_winv cw _ hwc
  rw [hinit] at hi1
  have hw2 := hi1.1.of_step (hi1.2 rfl) (Writer.write_step cw w1 true) hz
  have hjk := hw2.1
  generalize hcdef : (Writer.write cw w1 true).1.chunkWriter = c at *
  have herr := CW.close_err c hclose
  have hdi : DataInv c := hjk.1 herr
  unfold fileOf
  rw [hcw]
  by_cases hne : c.leafNodes.size = 0
  · -- nothing was written
    have hl : c.leafNodes.toList = [] := by
      have : c.leafNodes.toList.length = 0 := by simpa using hne
      exact List.eq_nil_of_length_eq_zero this
    have hlog : c.log = [] := by
      have := hdi.leaves
      rw [hl] at this
      have := leafLog_nil this
      simpa using this
    rw [hlog] at hcov
    have hdata : ps.flatten = [] := coversR_nil hcov
    have hps : ∀ p ∈ ps, p = [] := by
      intro p hp
      have := List.flatten_eq_nil_iff.mp hdata p hp
      exact this
    have hidle0 : Idle w0 := ⟨by rw [f4], by rw [f5], by rw [f5]; rfl⟩
    have hidleN := runWrites_idle cw ps hps w0 hidle0
    have hidle1 : Idle w1 := by
      have h1 := (Writer.init_cw_initialized cw ({ Writer.runWrites cw w0 ps with closed := true } : Writer)).1
      have h2 := (Writer.init_frame cw ({ Writer.runWrites cw w0 ps with closed := true } : Writer)).2.1
      rw [hinit] at h1 h2
      simp only at h1 h2
      exact ⟨by rw [h1]; exact hidleN.1, by rw [h2]; exact hidleN.2.1, by rw [h2]; exact hidleN.2.2⟩
    have hc1 : c = w1.chunkWriter := by
      rw [← hcdef, Writer.write_empty cw w1 true hidle1.2.2]
    have hpr := CW.close_pristine c hdi (by rw [hc1]; exact hidle1.1) hclose
    rw [hpr, hdata]
    unfold Spec.validate Spec.decode
    rw [chunks_empty]
    simp [tiles, decodeChunks]
  · -- at least one chunk
    obtain ⟨nw, pre, post, chs, hchunks, hmatch, hfile, hpre, hlen, hrcl⟩ := CW.close_roundtrip c hdi herr hne hclose
    obtain ⟨lf1, lf2, lf3, lf4⟩ := dataInv_leaf_facts c hdi hne
    have htiles : tiles 0 chs c.dFileSize = true := by
      have := tiles_of_matches nw c.codec chs c.leafNodes.toList 0 hmatch (fun o ho => (lf3 o ho).2.2.1)
      rwa [Nat.zero_add, ← hdi.dsize.1] at this
    -- the codec of the file is a codec the CodecWriter named
    have hcodec : NotZeroes c.codec := by
      cases hll : c.leafNodes.toList with
      | nil => exact absurd hll lf1
      | cons o os =>
        have hlv := hdi.leaves
        rw [hll] at hlv
        obtain ⟨r, hr, hro⟩ := leafLog_head_codec hlv
        have h1 : o.codec = c.codec := hdi.codec.1 o (by rw [hll]; simp)
        rw [← h1, hro]
        exact hjk.2 r (by simpa using hr)
    have hS : c.stream.length < 2 ^ 48 := by
      have := hdi.size; unfold maxSize at this; omega
    obtain ⟨acc', hd1, hd2⟩ := decode_of_matchesR (c.close).1.io.wBytes.toArray nw c.codec DR hDR hcodec.1 hcodec.2
      c.stream pre post (by simpa using hfile) hpre (by simpa using hlen) hS c.resLog.reverse
      (by rw [hrcl]; exact hdi.resOK)
      chs c.leafNodes.toList c.log.reverse 0 ps.flatten [] hmatch hdi.leaves hlres (coversR_toF hcov)
    unfold Spec.validate Spec.decode
    rw [hchunks]
    simp only [htiles, Bool.not_true, Bool.false_eq_true, ↓reduceIte, hd1]
    refine ⟨trivial, ?_⟩
    rw [hd2]; simp

end WuffsVerif.Rac
