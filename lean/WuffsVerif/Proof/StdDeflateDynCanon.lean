/-
C07 helper, part 7, MODULE S: the specification's symbol decoder on a complete canonical code, in terms of the
sorted order (`SpecSideSpec` of Proof/StdDeflateDynDefs.lean).

  abstract part   a length histogram `c` (`c 0 = 0`), class starts `start c L = Σ_{k<L} c k`, Kraft prefix sums
                  `kr c L = Σ_{k≤L} c k 2^(L-k)`; lengths `ln` constant `= L` on `[start c L, start c (L+1))`:
                  monotone, `kraftSum`, canonical codes `codeAt ln (start c L + k) = 2 * kr c (L-1) + k`,
                  the invariant of `decodeBits` (soundness and, with Kraft equality, totality)
  concrete part   `lens`: `countLen`/`symsOfLen`/`sortedSyms`/`idxOf`, `mkHuff`'s fields
Exported structure lemmas (namespace `WuffsVerif.StdDeflate.Canon`): `syOf_idx`, `lnOf_idx`, `nOf_eq_idx`, `idxOf_succ`,
`symsOfLen_length`, `mem_symsOfLen`, `syOf_idx_mem`, `nOf_le_size`, `idxOf_eq_start`.
Core Lean only.
-/
import WuffsVerif.Proof.StdDeflateDynDefs

namespace WuffsVerif.StdDeflate
open WuffsVerif.Flate.Spec (Huff mkHuff kraft symsOfLen countLen)

/- all helper lemmas live in the sub-namespace `Canon` (other modules, written in parallel, define lemmas of the same
   names); only `specSideSpec_holds` is in `WuffsVerif.StdDeflate` itself -/
namespace Canon

/-! ### abstract part -/

/-- `Σ_{k<L} c k` -/
def start (c : Nat → Nat) : Nat → Nat
  | 0 => 0
  | L + 1 => start c L + c L

/-- `Σ_{k≤L} c k 2^(L-k)` (for `c 0 = 0`) -/
def kr (c : Nat → Nat) : Nat → Nat
  | 0 => 0
  | L + 1 => 2 * kr c L + c (L + 1)

theorem start_mono (c : Nat → Nat) : ∀ {a b : Nat}, a ≤ b → start c a ≤ start c b := by
  intro a b h
  induction b with
  | zero => have : a = 0 := by omega
            subst this; exact Nat.le_refl _
  | succ b ih =>
    by_cases hab : a = b + 1
    · subst hab; exact Nat.le_refl _
    · have := ih (by omega); simp only [start]; omega

/-- every position below `start c n` lies in exactly one class -/
theorem class_of (c : Nat → Nat) (h0 : c 0 = 0) : ∀ (n t : Nat), t < start c n →
    ∃ L k, 1 ≤ L ∧ L < n ∧ k < c L ∧ t = start c L + k := by
  intro n
  induction n with
  | zero => intro t h; simp [start] at h
  | succ n ih =>
    intro t h
    simp only [start] at h
    by_cases h1 : t < start c n
    · obtain ⟨L, k, a, b, d, e⟩ := ih t h1
      exact ⟨L, k, a, by omega, d, e⟩
    · have hn : n ≠ 0 := by
        intro hn; subst hn; simp [start, h0] at h
      exact ⟨n, t - start c n, by omega, by omega, by omega, by omega⟩

/-- the lengths `ln` are those of the histogram `c`: constant `= L` on the `L`-th class -/
def LnOf (c : Nat → Nat) (ln : Nat → Nat) : Prop :=
  ∀ L k, 1 ≤ L → L ≤ 15 → k < c L → ln (start c L + k) = L

section abstract
variable (c : Nat → Nat) (ln : Nat → Nat) (h0 : c 0 = 0) (hln : LnOf c ln)
include h0 hln

theorem ln_lo : ∀ t, t < start c 16 → 1 ≤ ln t := by
  intro t ht
  obtain ⟨L, k, a, b, d, e⟩ := class_of c h0 16 t ht
  rw [e, hln L k a (by omega) d]; exact a

theorem ln_hi : ∀ t, t < start c 16 → ln t ≤ 15 := by
  intro t ht
  obtain ⟨L, k, a, b, d, e⟩ := class_of c h0 16 t ht
  rw [e, hln L k a (by omega) d]; omega

theorem ln_mono : ∀ t, t + 1 < start c 16 → ln t ≤ ln (t + 1) := by
  intro t ht
  obtain ⟨L, k, a, b, d, e⟩ := class_of c h0 16 t (by omega)
  obtain ⟨L', k', a', b', d', e'⟩ := class_of c h0 16 (t + 1) ht
  rw [e', hln L' k' a' (by omega) d']
  rw [e, hln L k a (by omega) d]
  apply Nat.le_of_not_lt
  intro hlt
  have h1 : start c (L' + 1) ≤ start c L := start_mono c (by omega)
  simp only [start] at h1
  omega

omit h0 in
theorem kraftSum_class (L : Nat) (hL1 : 1 ≤ L) (hL : L ≤ 15) : ∀ k, k ≤ c L →
    kraftSum ln (start c L + k) = kraftSum ln (start c L) + k * 2 ^ (15 - L) := by
  intro k
  induction k with
  | zero => intro _; simp
  | succ k ih =>
    intro hk
    rw [← Nat.add_assoc]
    simp only [kraftSum]
    rw [ih (by omega), hln L k hL1 hL (by omega), Nat.succ_mul]
    omega

theorem kraftSum_start : ∀ L, L ≤ 15 → kraftSum ln (start c (L + 1)) = kr c L * 2 ^ (15 - L) := by
  intro L
  induction L with
  | zero => intro _; simp [start, kr, h0, kraftSum]
  | succ L ih =>
    intro hL
    have h1 := kraftSum_class c ln hln (L + 1) (by omega) hL (c (L + 1)) (Nat.le_refl _)
    rw [show start c (L + 1 + 1) = start c (L + 1) + c (L + 1) from rfl, h1, ih (by omega)]
    simp only [kr]
    rw [show 15 - L = (15 - (L + 1)) + 1 by omega, Nat.pow_succ, Nat.add_mul]
    rw [Nat.mul_assoc 2, Nat.mul_comm 2 (kr c L * _), Nat.mul_assoc]

/-- the classical identity: the canonical code, scaled, is the Kraft sum of the symbols before it -/
theorem codeAt_kraftSum : ∀ t, t < start c 16 → codeAt ln t * 2 ^ (15 - ln t) = kraftSum ln t := by
  intro t
  induction t with
  | zero => intro _; simp [codeAt, kraftSum]
  | succ t ih =>
    intro ht
    have hm := ln_mono c ln h0 hln t ht
    have hh := ln_hi c ln h0 hln (t + 1) ht
    simp only [codeAt, kraftSum, Nat.shiftLeft_eq]
    rw [← ih (by omega), Nat.mul_assoc, ← Nat.pow_add,
      show ln (t + 1) - ln t + (15 - ln (t + 1)) = 15 - ln t by omega, Nat.add_mul, Nat.one_mul]

theorem codeAt_class (L k : Nat) (hL1 : 1 ≤ L) (hL : L ≤ 15) (hk : k < c L) :
    codeAt ln (start c L + k) = 2 * kr c (L - 1) + k := by
  have ht : start c L + k < start c 16 := by
    have : start c (L + 1) ≤ start c 16 := start_mono c (by omega)
    have h2 : start c (L + 1) = start c L + c L := rfl
    omega
  have h1 := codeAt_kraftSum c ln h0 hln _ ht
  rw [hln L k hL1 hL hk, kraftSum_class c ln hln L hL1 hL k (by omega)] at h1
  obtain ⟨M, rfl⟩ : ∃ M, L = M + 1 := ⟨L - 1, by omega⟩
  rw [kraftSum_start c ln h0 hln M (by omega)] at h1
  rw [show 15 - M = (15 - (M + 1)) + 1 by omega, Nat.pow_succ, ← Nat.mul_assoc, Nat.mul_right_comm, ← Nat.add_mul] at h1
  have := Nat.eq_of_mul_eq_mul_right (Nat.two_pow_pos _) h1
  simp only [Nat.add_sub_cancel]; omega

end abstract

/-! ### the specification's decoder, abstractly -/

/-- invariant of `decodeBits` after `len` bits without a hit: `code = codeOf x len ≥ kr c len`,
    `first = 2 * kr c len`, `index = start c (len + 1)`; a hit at length `L` is the `k`-th symbol of class `L` -/
theorem decodeBits_sound (h : Huff) (c : Nat → Nat) (hc : ∀ L, h.count.getD L 0 = c L) (x : Nat) :
    ∀ (rem len code v L : Nat), code = codeOf x len → kr c len ≤ code →
    decodeBits h (fun i => x / 2 ^ i % 2) rem len code (2 * kr c len) (start c (len + 1)) = some (v, L) →
    ∃ k, 1 ≤ L ∧ k < c L ∧ v = h.syms.getD (start c L + k) 0 ∧ codeOf x L = 2 * kr c (L - 1) + k := by
  intro rem
  induction rem with
  | zero => intro len code v L _ _ hd; simp [decodeBits] at hd
  | succ rem ih =>
    intro len code v L hcode hge hd
    simp only [decodeBits] at hd
    rw [hc] at hd
    split at hd
    · rename_i hlt
      simp only [Option.some.injEq, Prod.mk.injEq] at hd
      obtain ⟨hv, hL⟩ := hd
      subst hL
      refine ⟨2 * code + x / 2 ^ len % 2 - 2 * kr c len, by omega, by omega, hv.symm, ?_⟩
      simp only [codeOf, Nat.add_sub_cancel]
      rw [← hcode]; omega
    · rename_i hlt
      have hk : kr c (len + 1) = 2 * kr c len + c (len + 1) := rfl
      exact ih (len + 1) (2 * code + x / 2 ^ len % 2) v L (by rw [hcode]; rfl) (by omega) hd

/-- with Kraft equality at depth `len + rem`, `decodeBits` hits within `rem` steps -/
theorem decodeBits_total (h : Huff) (c : Nat → Nat) (hc : ∀ L, h.count.getD L 0 = c L) (x : Nat) :
    ∀ (rem len code : Nat), kr c len ≤ code → code < 2 ^ len → kr c (len + rem) = 2 ^ (len + rem) →
    ∃ v L, decodeBits h (fun i => x / 2 ^ i % 2) rem len code (2 * kr c len) (start c (len + 1)) = some (v, L) := by
  intro rem
  induction rem with
  | zero => intro len code h1 h2 h3; simp only [Nat.add_zero] at h3; omega
  | succ rem ih =>
    intro len code h1 h2 h3
    simp only [decodeBits]
    rw [hc]
    split
    · exact ⟨_, _, rfl⟩
    · rename_i hlt
      have hk : kr c (len + 1) = 2 * kr c len + c (len + 1) := rfl
      have hb : x / 2 ^ len % 2 < 2 := Nat.mod_lt _ (by omega)
      exact ih (len + 1) (2 * code + x / 2 ^ len % 2) (by omega) (by rw [Nat.pow_succ]; omega)
        (by rw [show len + 1 + rem = len + (rem + 1) by omega]; exact h3)

/-! ### concrete part: lists -/

theorem foldl_count (L : Nat) : ∀ (l : List Nat) (a : Nat),
    l.foldl (fun acc x => if x = L then acc + 1 else acc) a = a + l.count L := by
  intro l
  induction l with
  | nil => intro a; simp
  | cons b l ih =>
    intro a
    simp only [List.foldl_cons, List.count_cons, ih, beq_iff_eq]
    split <;> omega

theorem countLen_eq (lens : Array Nat) (L : Nat) : countLen lens L = lens.toList.count L := by
  unfold countLen; rw [foldl_count]; omega

theorem filter_zipIdx_length (L : Nat) : ∀ (l : List Nat) (n : Nat),
    ((l.zipIdx n).filter (fun p => decide (p.1 = L))).length = l.count L := by
  intro l
  induction l with
  | nil => intro n; simp
  | cons b l ih =>
    intro n
    simp only [List.zipIdx_cons, List.filter_cons, List.count_cons, beq_iff_eq]
    split
    · rename_i hb
      simp only [decide_eq_true_eq] at hb
      simp [ih, hb]
    · rename_i hb
      simp only [decide_eq_true_eq] at hb
      simp [ih, hb]

theorem symsOfLen_length (lens : Array Nat) (L : Nat) : (symsOfLen lens L).length = countLen lens L := by
  simp only [symsOfLen, List.length_map, countLen_eq]
  exact filter_zipIdx_length L _ 0

theorem mem_symsOfLen (lens : Array Nat) (L j : Nat) :
    j ∈ symsOfLen lens L ↔ j < lens.size ∧ lens.getD j 0 = L := by
  simp only [symsOfLen, List.mem_map, List.mem_filter, List.mem_zipIdx_iff_getElem?, decide_eq_true_eq]
  constructor
  · rintro ⟨⟨a, i⟩, ⟨h1, h2⟩, h3⟩
    simp only at h1 h2 h3
    subst h2 h3
    simp only [Array.getElem?_toList] at h1
    have hlt : i < lens.size := by
      apply Classical.byContradiction; intro hn
      rw [Array.getElem?_eq_none (by omega)] at h1; simp at h1
    refine ⟨hlt, ?_⟩
    rw [Array.getD_eq_getD_getElem?, h1]; rfl
  · rintro ⟨h1, h2⟩
    refine ⟨(L, j), ⟨?_, rfl⟩, rfl⟩
    simp only [Array.getElem?_toList]
    rw [Array.getD_eq_getD_getElem?, Array.getElem?_eq_getElem h1] at h2
    rw [Array.getElem?_eq_getElem h1]; simpa using h2

/-! ### concrete part: the sorted order -/

/-- the histogram of `lens` without the zero lengths: `mkHuff`'s `count` -/
def cc (lens : Array Nat) (L : Nat) : Nat := if L = 0 then 0 else countLen lens L

theorem idxOf_zero (lens : Array Nat) : idxOf lens 0 = 0 := by simp [idxOf]
theorem idxOf_one (lens : Array Nat) : idxOf lens 1 = 0 := by simp [idxOf]

theorem idxOf_succ (lens : Array Nat) (L : Nat) (hL : 1 ≤ L) :
    idxOf lens (L + 1) = idxOf lens L + countLen lens L := by
  obtain ⟨M, rfl⟩ : ∃ M, L = M + 1 := ⟨L - 1, by omega⟩
  simp only [idxOf, Nat.add_sub_cancel, List.range'_1_concat, List.map_append, List.sum_append,
    List.map_cons, List.map_nil, List.sum_cons, List.sum_nil, Nat.add_zero]
  rw [Nat.add_comm 1 M]

theorem idxOf_eq_start (lens : Array Nat) : ∀ L, idxOf lens L = start (cc lens) L := by
  intro L
  induction L with
  | zero => simp [idxOf_zero, start]
  | succ L ih =>
    by_cases hL : L = 0
    · subst hL; simp [idxOf_one, start, cc]
    · rw [idxOf_succ lens L (by omega), ih]; simp [start, cc, hL]

theorem pre_length (lens : Array Nat) (n : Nat) :
    ((List.range' 1 n).flatMap (symsOfLen lens)).length = idxOf lens (n + 1) := by
  simp only [List.length_flatMap, symsOfLen_length, idxOf, Nat.add_sub_cancel]

theorem nOf_eq_idx (lens : Array Nat) : nOf lens = idxOf lens 16 := pre_length lens 15

theorem sortedSyms_split (lens : Array Nat) (M : Nat) (hM : M + 1 ≤ 15) :
    sortedSyms lens = (List.range' 1 M).flatMap (symsOfLen lens) ++
      (symsOfLen lens (M + 1) ++ (List.range' (M + 2) (14 - M)).flatMap (symsOfLen lens)) := by
  unfold sortedSyms Flate.Spec.maxBits
  rw [show (15 : Nat) = M + ((14 - M) + 1) by omega, ← List.range'_append_1, List.flatMap_append,
    List.range'_succ, List.flatMap_cons, Nat.add_comm 1 M]

/-- the `k`-th symbol of length `L` sits at position `idxOf lens L + k` of the sorted order -/
theorem syOf_idx (lens : Array Nat) (L k : Nat) (hL1 : 1 ≤ L) (hL : L ≤ 15) (hk : k < countLen lens L) :
    syOf lens (idxOf lens L + k) = (symsOfLen lens L).getD k 0 := by
  obtain ⟨M, rfl⟩ : ∃ M, L = M + 1 := ⟨L - 1, by omega⟩
  unfold syOf
  rw [sortedSyms_split lens M hL, List.getD_eq_getElem?_getD, List.getD_eq_getElem?_getD,
    List.getElem?_append_right (by rw [pre_length]; omega), pre_length, Nat.add_sub_cancel_left,
    List.getElem?_append_left (by rw [symsOfLen_length]; exact hk)]

theorem syOf_idx_mem (lens : Array Nat) (L k : Nat) (hL1 : 1 ≤ L) (hL : L ≤ 15) (hk : k < countLen lens L) :
    syOf lens (idxOf lens L + k) < lens.size ∧ lens.getD (syOf lens (idxOf lens L + k)) 0 = L := by
  rw [syOf_idx lens L k hL1 hL hk, ← mem_symsOfLen]
  have hk' : k < (symsOfLen lens L).length := by rw [symsOfLen_length]; exact hk
  rw [List.getD_eq_getElem?_getD, List.getElem?_eq_getElem hk']
  exact List.getElem_mem hk'

theorem lnOf_idx (lens : Array Nat) (L k : Nat) (hL1 : 1 ≤ L) (hL : L ≤ 15) (hk : k < countLen lens L) :
    lnOf lens (idxOf lens L + k) = L := (syOf_idx_mem lens L k hL1 hL hk).2

theorem lnOf_LnOf (lens : Array Nat) : LnOf (cc lens) (lnOf lens) := by
  intro L k hL1 hL hk
  rw [← idxOf_eq_start]
  have : cc lens L = countLen lens L := by simp [cc]; omega
  exact lnOf_idx lens L k hL1 hL (by omega)

/-! ### concrete part: counting -/

theorem countP_split (n : Nat) : ∀ (l : List Nat),
    l.countP (fun a => decide (1 ≤ a ∧ a ≤ n + 1)) = l.countP (fun a => decide (1 ≤ a ∧ a ≤ n)) + l.count (n + 1) := by
  intro l
  induction l with
  | nil => simp
  | cons b l ih =>
    simp only [List.countP_cons, List.count_cons, ih, decide_eq_true_eq, beq_iff_eq]
    split <;> split <;> split <;> omega

theorem idxOf_countP (lens : Array Nat) : ∀ n,
    idxOf lens (n + 1) = lens.toList.countP (fun a => decide (1 ≤ a ∧ a ≤ n)) := by
  intro n
  induction n with
  | zero =>
    rw [idxOf_one]; symm
    rw [List.countP_eq_zero]; intro a _; simp; omega
  | succ n ih => rw [idxOf_succ lens (n + 1) (by omega), ih, countP_split, countLen_eq]

theorem nOf_le_size (lens : Array Nat) : nOf lens ≤ lens.size := by
  rw [nOf_eq_idx, idxOf_countP lens 15]
  have := List.countP_le_length (p := fun a => decide (1 ≤ a ∧ a ≤ 15)) (l := lens.toList)
  simpa using this

/-! ### concrete part: `mkHuff` -/

theorem fmax_spec : ∀ (l : List Nat) (m : Nat),
    m ≤ l.foldl (fun m x => if x > m then x else m) m ∧
    (∀ x, x ∈ l → x ≤ l.foldl (fun m x => if x > m then x else m) m) ∧
    (l.foldl (fun m x => if x > m then x else m) m = m ∨ l.foldl (fun m x => if x > m then x else m) m ∈ l) := by
  intro l
  induction l with
  | nil => intro m; simp
  | cons b l ih =>
    intro m
    simp only [List.foldl_cons, List.mem_cons]
    have hg : m ≤ (if b > m then b else m) ∧ b ≤ (if b > m then b else m) ∧
        ((if b > m then b else m) = m ∨ (if b > m then b else m) = b) := by
      split
      · exact ⟨by omega, by omega, Or.inr rfl⟩
      · exact ⟨by omega, by omega, Or.inl rfl⟩
    generalize (if b > m then b else m) = m' at hg
    obtain ⟨h1, h2, h3⟩ := ih m'
    refine ⟨by omega, ?_, ?_⟩
    · intro x hx
      rcases hx with rfl | hx
      · omega
      · exact h2 x hx
    · rcases h3 with h3 | h3
      · rw [h3]
        rcases hg.2.2 with h4 | h4
        · left; exact h4
        · right; left; exact h4
      · right; right; exact h3

theorem count_getD (lens : Array Nat) (L : Nat) :
    (((List.range (15 + 1)).map (fun L => if L = 0 then 0 else countLen lens L)).toArray).getD L 0 =
      if L ≤ 15 then cc lens L else 0 := by
  rw [Array.getD_eq_getD_getElem?, List.getElem?_toArray, List.getElem?_map]
  by_cases hL : L ≤ 15
  · rw [List.getElem?_range (by omega)]; simp [hL, cc]
  · rw [List.getElem?_eq_none (by simp; omega)]; simp [hL]

theorem mkHuff_fields (lens : Array Nat) (h : Huff) (hm : mkHuff lens = some h) (hpos : 0 < h.maxLen) :
    h.maxLen ≤ 15 ∧ (∀ x, x ∈ lens.toList → x ≤ h.maxLen) ∧ h.maxLen ∈ lens.toList ∧
    (∀ L, h.count.getD L 0 = if L ≤ 15 then cc lens L else 0) ∧ h.syms = (sortedSyms lens).toArray := by
  have hf := fmax_spec lens.toList 0
  unfold mkHuff at hm
  dsimp only at hm
  generalize List.foldl (fun m l => if l > m then l else m) 0 lens.toList = M at hm hf
  have hmb : Flate.Spec.maxBits = 15 := rfl
  by_cases h15 : M > Flate.Spec.maxBits
  · rw [if_pos h15] at hm; simp at hm
  · rw [if_neg h15] at hm
    by_cases h0 : M = 0
    · rw [if_pos h0] at hm
      simp only [Option.some.injEq] at hm
      subst hm
      simp at hpos
    · rw [if_neg h0] at hm
      split at hm
      · simp only [Option.some.injEq] at hm
        subst hm
        simp only
        refine ⟨by omega, hf.2.1, ?_, count_getD lens, rfl⟩
        rcases hf.2.2 with h | h
        · exact absurd h h0
        · exact h
      · simp at hm

/-! ### Kraft sums -/

theorem kraft_eq_kr (count : Array Nat) (c : Nat → Nat) (hc : ∀ L, count.getD L 0 = c L) (M : Nat) :
    ∀ n, n ≤ M →
      (List.range' 1 n).foldl (fun acc L => acc + count.getD L 0 * 2 ^ (M - L)) 0 = kr c n * 2 ^ (M - n) := by
  intro n
  induction n with
  | zero => intro _; simp [kr]
  | succ n ih =>
    intro hn
    rw [List.range'_1_concat, List.foldl_append, ih (by omega)]
    simp only [List.foldl_cons, List.foldl_nil, kr, hc]
    rw [show M - n = (M - (n + 1)) + 1 by omega, Nat.pow_succ, Nat.add_comm 1 n, Nat.add_mul]
    congr 1
    ac_rfl

theorem kr_above (c : Nat → Nat) (M : Nat) (hz : ∀ L, M < L → c L = 0) : ∀ d, kr c (M + d) = kr c M * 2 ^ d := by
  intro d
  induction d with
  | zero => simp
  | succ d ih =>
    rw [← Nat.add_assoc]
    simp only [kr]
    rw [ih, hz (M + d + 1) (by omega), Nat.pow_succ, Nat.add_zero]
    ac_rfl

theorem start_above (c : Nat → Nat) (M : Nat) (hz : ∀ L, M < L → c L = 0) : ∀ d, start c (M + 1 + d) = start c (M + 1) := by
  intro d
  induction d with
  | zero => rfl
  | succ d ih =>
    rw [← Nat.add_assoc]
    simp only [start] at ih ⊢
    rw [ih, hz (M + 1 + d) (by omega)]; omega

end Canon

/-! ### MODULE S -/

open Canon in

theorem specSideSpec_holds : SpecSideSpec := by
  intro lens h hm hpos hk
  obtain ⟨h15, hle, hmem, hcount, hsyms⟩ := mkHuff_fields lens h hm hpos
  have h0 : cc lens 0 = 0 := by simp [cc]
  have hlnof := lnOf_LnOf lens
  have hz : ∀ L, h.maxLen < L → cc lens L = 0 := by
    intro L hL
    have : countLen lens L = 0 := by
      rw [countLen_eq, List.count_eq_zero]
      intro hin
      have := hle L hin; omega
    simp [cc, this]
  have hc : ∀ L, h.count.getD L 0 = cc lens L := by
    intro L
    rw [hcount L]
    split
    · rfl
    · rw [hz L (by omega)]
  have hcM : 1 ≤ cc lens h.maxLen := by
    have : 0 < countLen lens h.maxLen := by rw [countLen_eq]; exact List.count_pos_iff.mpr hmem
    have h1 : cc lens h.maxLen = countLen lens h.maxLen := by simp [cc]; omega
    omega
  have hN : nOf lens = start (cc lens) 16 := by rw [nOf_eq_idx, idxOf_eq_start]
  have hN2 : start (cc lens) 16 = start (cc lens) h.maxLen + cc lens h.maxLen := by
    have := start_above (cc lens) h.maxLen hz (15 - h.maxLen)
    rw [show h.maxLen + 1 + (15 - h.maxLen) = 16 by omega] at this
    rw [this]; rfl
  have hkr : kr (cc lens) h.maxLen = 2 ^ h.maxLen := by
    have := kraft_eq_kr h.count (cc lens) hc h.maxLen h.maxLen (Nat.le_refl _)
    rw [Nat.sub_self, Nat.pow_zero, Nat.mul_one] at this
    rw [← this]; exact hk
  have hsy : ∀ t, h.syms.getD t 0 = syOf lens t := by
    intro t
    rw [hsyms, Array.getD_eq_getD_getElem?, List.getElem?_toArray]
    unfold syOf; rw [List.getD_eq_getElem?_getD]
  have hclass : ∀ L k, 1 ≤ L → k < cc lens L → L ≤ 15 ∧ start (cc lens) L + k < nOf lens := by
    intro L k hL1 hkc
    have hLM : L ≤ h.maxLen := by
      apply Nat.le_of_not_lt; intro hlt; rw [hz L hlt] at hkc; omega
    refine ⟨by omega, ?_⟩
    have h1 : start (cc lens) (L + 1) ≤ start (cc lens) 16 := start_mono _ (by omega)
    have h2 : start (cc lens) (L + 1) = start (cc lens) L + cc lens L := rfl
    omega
  refine ⟨⟨⟨?_, ?_, ?_, ?_, ?_⟩, ?_, ?_, ?_⟩, ?_, ?_, nOf_le_size lens⟩
  · omega
  · intro t ht; rw [hN] at ht; exact ln_mono _ _ h0 hlnof t ht
  · intro t ht; rw [hN] at ht; exact ln_lo _ _ h0 hlnof t ht
  · intro t ht; rw [hN] at ht; exact ln_hi _ _ h0 hlnof t ht
  · rw [hN, kraftSum_start _ _ h0 hlnof 15 (Nat.le_refl _)]
    have := kr_above (cc lens) h.maxLen hz (15 - h.maxLen)
    rw [show h.maxLen + (15 - h.maxLen) = 15 by omega] at this
    rw [this, hkr, ← Nat.pow_add, show h.maxLen + (15 - h.maxLen) = 15 by omega]
  · rw [show nOf lens - 1 = start (cc lens) h.maxLen + (cc lens h.maxLen - 1) by omega]
    exact (hlnof h.maxLen _ hpos h15 (by omega)).symm
  · intro x v L hs
    have e2 : start (cc lens) (0 + 1) = 0 := by simp [start, h0]
    have hd := decodeBits_sound h (cc lens) hc x h.maxLen 0 0 v L rfl (Nat.le_refl _)
    rw [e2] at hd
    obtain ⟨k, hL1, hkc, hv, hcode⟩ := hd hs
    obtain ⟨hL15, hlt⟩ := hclass L k hL1 hkc
    refine ⟨start (cc lens) L + k, hlt, ?_, (hlnof L k hL1 hL15 hkc).symm, ?_⟩
    · rw [hv, hsy]
    · rw [hcode, codeAt_class _ _ h0 hlnof L k hL1 hL15 hkc]
  · intro x
    have e2 : start (cc lens) (0 + 1) = 0 := by simp [start, h0]
    have hd := decodeBits_total h (cc lens) hc x h.maxLen 0 0 (Nat.le_refl _) (by simp)
      (by rw [Nat.zero_add]; exact hkr)
    rw [e2] at hd
    exact hd
  · intro t ht
    rw [hN] at ht
    obtain ⟨L, k, a, b, d, e⟩ := class_of _ h0 16 t ht
    have hcl : cc lens L = countLen lens L := by simp [cc]; omega
    rw [e, ← idxOf_eq_start]
    exact (syOf_idx_mem lens L k a (by omega) (by omega)).1
  · intro j
    by_cases hj : j < lens.size
    · rw [Array.getD_eq_getD_getElem?, Array.getElem?_eq_getElem hj]
      have := hle lens[j] (by simp)
      simp only [Option.getD_some]; omega
    · rw [Array.getD_eq_getD_getElem?, Array.getElem?_eq_none (by omega)]; simp

end WuffsVerif.StdDeflate
