/-
C12, the Wuffs formatter: `render_retokenizes` over the Tokenize + Render models, assembled from
`Proof/RenderShape.lean` (the output is a list of well-formed pieces) and
`Proof/RenderPieces.lean` (pieces are read back), and the numeric side: every well-formed literal
has a value and `Render` keeps it.  Core Lean only.
-/
import WuffsVerif.Proof.RenderShape

namespace WuffsVerif.Render
open WuffsVerif.FmtToken WuffsVerif.Gen.C12

/-! ### numbers keep their value -/

theorem valueAux_some (base : Nat) (Q : UInt8 → Bool)
    (hQ : ∀ c, Q c = true → (c == USCORE) = true ∨ ∃ d, digitVal c = some d ∧ d < base) :
    ∀ (s : Bytes) (acc : Nat), s.all Q = true → ∃ v, valueAux base acc s = some v := by
  intro s
  induction s with
  | nil => intro acc _; exact ⟨acc, rfl⟩
  | cons c cs ih =>
    intro acc h
    simp only [List.all_cons, Bool.and_eq_true] at h
    unfold valueAux
    rcases hQ c h.1 with hu | ⟨d, hd, hlt⟩
    · simp only [hu, ↓reduceIte]; exact ih acc h.2
    · by_cases hu : (c == USCORE) = true
      · simp only [hu, ↓reduceIte]; exact ih acc h.2
      · simp only [hu, Bool.false_eq_true, ↓reduceIte, hd, hlt]; exact ih _ h.2

theorem hex_digit : ∀ c : UInt8, hexaNumericUnderscore c = true →
    (c == USCORE) = true ∨ ∃ d, digitVal c = some d ∧ d < 16 := by
  apply byte_forall; decide +kernel

theorem bin_digit : ∀ c : UInt8, zeroOneUnderscore c = true →
    (c == USCORE) = true ∨ ∃ d, digitVal c = some d ∧ d < 2 := by
  apply byte_forall; decide +kernel

theorem dec_digit : ∀ c : UInt8, numericUnderscore c = true →
    (c == USCORE) = true ∨ ∃ d, digitVal c = some d ∧ d < 10 := by
  apply byte_forall; decide +kernel

/-- every well-formed numeric literal text has a value -/
theorem wfNumText_value (s : Bytes) (h : wfNumText s = true) : ∃ v, numValue s = some v := by
  cases s with
  | nil => simp [wfNumText] at h
  | cons c σ =>
    obtain ⟨_, _, hc, hcls⟩ := wfNumText_cons h
    have hcu : numericUnderscore c = true := numeric_numUnd c hc
    cases σ with
    | nil =>
      obtain ⟨v, hv⟩ := valueAux_some 10 numericUnderscore dec_digit [c] 0 (by simp [hcu])
      exact ⟨v, numValue_of_decimal _ _ hv⟩
    | cons p body =>
      unfold numCls at hcls
      simp only at hcls
      by_cases c1 : (c == 48 && (p == 120 || p == 88)) = true
      · simp only [c1, ↓reduceIte] at hcls
        rw [Bool.and_eq_true] at c1
        have hc48 : c = 48 := by simpa using c1.1
        subst hc48
        have hp : (p == 88 || p == 120) = true := by
          rcases Bool.or_eq_true_iff.mp c1.2 with h | h <;> simp [h]
        unfold numValue
        simp only [hp, ↓reduceIte]
        exact valueAux_some 16 hexaNumericUnderscore hex_digit body 0 hcls
      · simp only [c1, Bool.false_eq_true, ↓reduceIte] at hcls
        by_cases c2 : (c == 48 && (p == 98 || p == 66)) = true
        · simp only [c2, ↓reduceIte] at hcls
          rw [Bool.and_eq_true] at c2
          have hc48 : c = 48 := by simpa using c2.1
          subst hc48
          have hp1 : (p == 88 || p == 120) = false := by
            cases hx : (p == 88 || p == 120) with
            | false => rfl
            | true =>
              exfalso; apply c1
              rcases Bool.or_eq_true_iff.mp hx with h | h <;> simp [h]
          have hp : (p == 66 || p == 98) = true := by
            rcases Bool.or_eq_true_iff.mp c2.2 with h | h <;> simp [h]
          unfold numValue
          simp only [hp1, Bool.false_eq_true, ↓reduceIte, hp]
          exact valueAux_some 2 zeroOneUnderscore bin_digit body 0 hcls
        · simp only [c2, Bool.false_eq_true, ↓reduceIte] at hcls
          by_cases c3 : (c == 48 && numeric p) = true
          · simp [c3] at hcls
          · simp only [c3, Bool.false_eq_true, ↓reduceIte] at hcls
            obtain ⟨v, hv⟩ := valueAux_some 10 numericUnderscore dec_digit (c :: p :: body) 0
              (by simp only [List.all_cons, hcu, Bool.true_and]; simpa using hcls)
            exact ⟨v, numValue_of_decimal _ _ hv⟩

/-- what `Render` writes for a well-formed literal has the literal's value -/
theorem numOut_value (s : Bytes) (h : wfNumText s = true) :
    ∃ v, numValue s = some v ∧ numValue (numOut s) = some v := by
  obtain ⟨v, hv⟩ := wfNumText_value s h
  refine ⟨v, hv, ?_⟩
  unfold numOut
  simp only
  split
  · exact hv
  · exact appendNum_value s v hv

/-! ### the theorem -/

/-- texts equal, or both numeric literals of equal value -/
def textEquiv (a b : Bytes) : Prop :=
  a = b ∨ (∃ v, numValue a = some v ∧ numValue b = some v ∧
    (a.head?.map numeric = some true) ∧ (b.head?.map numeric = some true))

/-- token texts equal, or both numeric literals of equal value -/
def tokEquiv (a b : Tok) : Prop := textEquiv a.text b.text

theorem textRel_tokEquiv {t t' : Tok} (hwf : wfTok t = true) (h : TextRel t t') : tokEquiv t t' := by
  rcases h with h | h
  · exact Or.inl h.symm
  · cases htxt : t.text with
    | nil =>
      left
      rw [h]
      simp [tokText, htxt]
    | cons c σ =>
      cases hc : numeric c with
      | false => left; rw [h, tokText_not_numeric t c σ htxt hc, htxt]
      | true =>
        right
        have hn : wfNumText t.text = true := by
          cases hp : wfPunct t with
          | true =>
            obtain ⟨e, he, _, het⟩ := wfPunct_entry hp
            obtain ⟨_, _, c', σ', hc', _, _, _, hnum, _⟩ := punct_facts he
            rw [het, htxt] at hc'
            simp only [List.cons.injEq] at hc'
            rw [← hc'.1, hc] at hnum
            exact absurd hnum (by simp)
          | false =>
            have hpl : wfPlain t = true := by unfold wfTok at hwf; rw [hp] at hwf; simpa using hwf
            unfold wfPlain at hpl
            rw [Bool.and_eq_true, Bool.or_eq_true, Bool.or_eq_true] at hpl
            rcases hpl.1 with (hw | hn) | hs
            · rw [htxt] at hw
              unfold wfWordText at hw
              rw [Bool.and_eq_true, Bool.and_eq_true] at hw
              rw [(alpha_not_numeric c hw.1.1).1] at hc
              exact absurd hc (by simp)
            · exact hn
            · rw [htxt] at hs
              unfold wfStrText at hs
              rw [Bool.and_eq_true] at hs
              have h2 := hs.2
              simp only at h2
              have hq : (c == 34 || c == 39) = true := by
                by_cases h1 : (c == 34) = true
                · simp [h1]
                · by_cases h3 : (c == 39) = true
                  · simp [h3]
                  · simp [h1, h3] at h2
              rw [quote_not_numeric c hq] at hc
              exact absurd hc (by simp)
        obtain ⟨v, hv1, hv2⟩ := numOut_value t.text hn
        refine ⟨v, hv1, ?_, ?_, ?_⟩
        · rw [h, tokText_numeric t c σ htxt hc]; exact hv2
        · rw [htxt]; simp [hc]
        · rw [h, tokText_head hwf, htxt]; simp [hc]

/-- `render_retokenizes`, the token half, for every stream of well-formed tokens and comments
with the line structure `linesOK`: `Render`'s output tokenizes, to as many tokens, pairwise
equal as texts or equal as numbers. -/
theorem render_retokenizes_tokens (toks : List Tok) (comments : Array Bytes) (out : Bytes)
    (hwf : ∀ t ∈ toks, wfTok t = true) (hcm : wfComments comments)
    (hlines : linesOK (toks.length + 1) toks = true) (hr : render toks comments = some out)
    (hnl : out.count 10 < maxLine) :
    ∃ (ps : List Piece), out = piecesBytes ps ∧ (∀ p ∈ ps, p.ok) ∧ ps.flatMap Piece.src = toks ∧
      tokenize out = some (piecesOut 1 ps, piecesC #[] 1 ps) ∧
      toks.length = (piecesOut 1 ps).length ∧ ∀ p ∈ toks.zip (piecesOut 1 ps), tokEquiv p.1 p.2 := by
  obtain ⟨ps, hout, hok, hsrc, _, _⟩ := render_pieces toks comments out hwf hcm hlines hr
  have hlen : ps.length < maxLine := by
    have := pieces_length_le_newlines ps
    rw [← hout] at this
    omega
  have htok := pieces_tokenize ps hok hlen
  have hrel := pieces_textRel ps hok 1
  rw [hsrc] at hrel
  have hrel' : Forall2 tokEquiv toks (piecesOut 1 ps) :=
    hrel.imp (fun a b ha hab => textRel_tokEquiv (hwf a ha) hab)
  exact ⟨ps, hout, hok, hsrc, by rw [hout]; exact htok, hrel'.length_eq, hrel'.zip⟩

/-! ### the comment half -/

/-- items agree: tokens as `tokEquiv`, comments literally -/
def itemEquiv : Item → Item → Prop
  | .tok a, .tok b => textEquiv a b
  | .com a, .com b => a = b
  | _, _ => False

theorem Forall2.map {α β γ δ : Type} {R : α → β → Prop} {S : γ → δ → Prop} (f : α → γ) (g : β → δ)
    {l1 : List α} {l2 : List β} (h : Forall2 R l1 l2) (hrs : ∀ a b, a ∈ l1 → R a b → S (f a) (g b)) :
    Forall2 S (l1.map f) (l2.map g) := by
  induction h with
  | nil => exact Forall2.nil
  | cons hr _ ih =>
    exact Forall2.cons (hrs _ _ (by simp) hr) (ih (fun a b ha => hrs a b (by simp [ha])))

theorem piece_itemEquiv (p : Piece) (hp : p.ok) (hwf : ∀ t ∈ p.src, wfTok t = true) :
    Forall2 itemEquiv p.srcItems p.outItems := by
  unfold Piece.srcItems Piece.outItems
  apply Forall2.append
  · exact Forall2.map _ _ (piece_textRel p hp 0) (fun a b ha hab => textRel_tokEquiv (hwf a ha) hab)
  · split
    · exact Forall2.nil
    · exact Forall2.cons rfl Forall2.nil

theorem pieces_itemEquiv : ∀ (ps : List Piece), (∀ p ∈ ps, p.ok) →
    (∀ t ∈ ps.flatMap Piece.src, wfTok t = true) →
    Forall2 itemEquiv (ps.flatMap Piece.srcItems) (ps.flatMap Piece.outItems) := by
  intro ps
  induction ps with
  | nil => intro _ _; exact Forall2.nil
  | cons p ps ih =>
    intro hok hwf
    simp only [List.flatMap_cons]
    apply Forall2.append
    · exact piece_itemEquiv p (hok p (by simp)) (fun t ht => hwf t (by simp [ht]))
    · exact ih (fun q hq => hok q (by simp [hq])) (fun t ht => by
        apply hwf
        simp only [List.flatMap_cons, List.mem_append]
        exact Or.inr ht)

/-- `render_retokenizes` with the comments, for every stream of well-formed tokens (lines not
decreasing) and comments with the line structure `linesOK`: the interleaved sequence of tokens
and comments of `Render`'s output, as `Tokenize` reads it, is that of the input — item by item,
tokens equal as texts or as numbers, comments equal up to trailing spaces. -/
theorem render_retokenizes_items (toks : List Tok) (comments : Array Bytes) (out : Bytes)
    (hwf : ∀ t ∈ toks, wfTok t = true) (hcm : wfComments comments)
    (hlines : linesOK (toks.length + 1) toks = true) (hsorted : SortedLines toks)
    (hr : render toks comments = some out) (hnl : out.count 10 < maxLine) :
    ∃ toks' comments', tokenize out = some (toks', comments') ∧
      toks.length = toks'.length ∧ (∀ p ∈ toks.zip toks', tokEquiv p.1 p.2) ∧
      Forall2 itemEquiv (items toks comments) (items toks' comments') := by
  obtain ⟨ps, hout, hok, hsrc, hitems, _⟩ := render_pieces toks comments out hwf hcm hlines hr
  have hlen : ps.length < maxLine := by
    have := pieces_length_le_newlines ps
    rw [← hout] at this
    omega
  have htok := pieces_tokenize ps hok hlen
  have hrel := pieces_textRel ps hok 1
  rw [hsrc] at hrel
  have hrel' : Forall2 tokEquiv toks (piecesOut 1 ps) :=
    hrel.imp (fun a b ha hab => textRel_tokEquiv (hwf a ha) hab)
  refine ⟨_, _, by rw [hout]; exact htok, hrel'.length_eq, hrel'.zip, ?_⟩
  rw [hitems hsorted, items_pieces ps (fun p hp k names m lts com semis he => by
    have := hok p hp
    rw [he] at this
    exact this.2.2.1)]
  exact pieces_itemEquiv ps hok (by rw [hsrc]; exact hwf)

end WuffsVerif.Render
