/-
C05 — soundness of the liveness analysis: jumps, returns, `if`, `while` (fixed point) and the
mutual induction over statements and blocks.
-/
import WuffsVerif.Proof.LivenessFlow

namespace WuffsVerif.Liveness
variable {n : Nat}

/-! ### small list facts -/

theorem f2_set {α : Type} {R : α → α → Prop} (hrefl : ∀ a, R a a) : ∀ (l : List α) (k : Nat) (a b : α),
    l[k]? = some a → R a b → F2 R l (l.set k b)
  | [], k, a, b, h, _ => by simp at h
  | x :: l, 0, a, b, h, hr => by
    simp only [List.getElem?_cons_zero, Option.some.injEq] at h
    subst h
    exact F2.cons hr (forall2_refl hrefl l)
  | x :: l, k + 1, a, b, h, hr => by
    simp only [List.getElem?_cons_succ] at h
    exact F2.cons (hrefl x) (f2_set hrefl l k a b h hr)

theorem f2_length {α : Type} {R : α → α → Prop} : ∀ {l1 l2 : List α}, F2 R l1 l2 → l1.length = l2.length
  | _, _, F2.nil => rfl
  | _, _, F2.cons _ t => by simp [f2_length t]

/-! ### a more general transport of `Post` -/

theorem Post.later' {v : Nat} {r1 r2 : Lv n} {σ1 σ2 : St n} {t : Bool} {es : List Ev} {o : Out}
    (h : Post v r1 σ1 t es o) (hm : St.le v σ1 σ2) (hs : Srec v r1 σ1 → Srec v r2 σ2)
    (hr : r1.get v ≤ r2.get v) : Post v r2 σ2 t es o := by
  cases o with
  | norm =>
    refine ⟨fun hv => hs (h.1 hv), fun hv x hx => ?_⟩
    simp only [target, Option.some.injEq] at hx
    subst hx
    exact (h.2 hv _ rfl).mono hr
  | brk k => exact h.later hm hs (by simp)
  | cont k => exact h.later hm hs (by simp)
  | ret => exact h.later hm hs (by simp)
  | stop => exact h.later hm hs (by simp)

/-! ### jump -/

theorem jump_sound (v : Nat) (r : Lv n) (σ : St n) (isBreak : Bool) (k : Nat) :
    Sound v (fun es o => es = [] ∧ o = (if isBreak then Out.brk k else Out.cont k)) r σ
      (doJump r σ isBreak k).1 (doJump r σ isBreak k).2 := by
  unfold doJump
  cases hk : σ.loops[k]? with
  | none =>
    simp only
    refine ⟨⟨forall2_refl (Loop.le_refl v) _, ?_⟩, ?_, ?_⟩
    · simp only [Lv.get_reconcile]; exact Lness.le_join_left _ _
    · intro hs
      refine Or.inr (Or.inl ?_)
      simp only [Lv.get_reconcile, hs, Lness.join_strong_right]
    · rintro t es o ⟨rfl, rfl⟩ _
      refine ⟨fun h => by simp at h, fun _ x hx => ?_⟩
      cases isBreak <;> simp [target, hk] at hx
  | some l =>
    simp only
    have hlt : k < σ.loops.length := by
      rcases Nat.lt_or_ge k σ.loops.length with h | h
      · exact h
      · simp [List.getElem?_eq_none h] at hk
    let l' : Loop n :=
      if isBreak then { l with after := l.after.reconcile r } else { l with before := l.before.reconcile r }
    have hle : Loop.le v l l' := by
      cases isBreak
      · exact ⟨by simp only [l', Bool.false_eq_true, ↓reduceIte, Lv.get_reconcile]; exact Lness.le_join_left _ _,
          Lness.le_refl _⟩
      · exact ⟨Lness.le_refl _,
          by simp only [l', ↓reduceIte, Lv.get_reconcile]; exact Lness.le_join_left _ _⟩
    refine ⟨⟨f2_set (Loop.le_refl v) _ k l l' hk hle, Lness.le_refl _⟩, ?_, ?_⟩
    · intro hs
      refine Or.inr (Or.inr ⟨l', List.mem_set hlt l', ?_⟩)
      cases isBreak
      · left; simp only [l', Bool.false_eq_true, ↓reduceIte, Lv.get_reconcile, hs, Lness.join_strong_right]
      · right; simp only [l', ↓reduceIte, Lv.get_reconcile, hs, Lness.join_strong_right]
    · rintro t es o ⟨rfl, rfl⟩ ht
      refine ⟨fun h => by simp at h, fun _ x hx => ?_⟩
      simp only [taintAfter_nil]
      cases isBreak
      · simp only [Bool.false_eq_true, ↓reduceIte, target, List.getElem?_set_self hlt,
          Option.map_some, Option.some.injEq] at hx
        subst hx
        simp only [l', Bool.false_eq_true, ↓reduceIte, Lv.get_reconcile]
        exact ht.mono (Lness.le_join_right _ _)
      · simp only [↓reduceIte, target, List.getElem?_set_self hlt, Option.map_some,
          Option.some.injEq] at hx
        subst hx
        simp only [l', ↓reduceIte, Lv.get_reconcile]
        exact ht.mono (Lness.le_join_right _ _)

/-! ### return and yield -/

theorem get_raiseNoneToWeak_strong (r : Lv n) (v : Nat) (hv : v < n) (h : r.get v = Lness.strong) :
    r.raiseNoneToWeak.get v = Lness.strong := by
  rw [Lv.get_raiseNoneToWeak _ _ hv, h]; rfl

theorem doExpr_strong (r : Lv n) (e : Ex) (v : Nat) (hv : v < n) (hs : r.get v = Lness.strong) :
    (doExpr r e).get v = Lness.strong := by
  have h2 := le_exprT e v (r.get v)
  rw [doExpr_get _ _ _ hv]
  generalize exprT e v (r.get v) = x at h2
  rw [hs] at h2
  exact Lness.strong_le h2

theorem ret_sound (v : Nat) (hv : v < n) (r : Lv n) (σ : St n) (isYield : Bool) (e : Ex) :
    Sound v (stmtPaths (.ret isYield e)) r σ (doRet r σ isYield e).1 (doRet r σ isYield e).2 := by
  unfold doRet
  cases isYield
  · -- return
    simp only [Bool.false_eq_true, ↓reduceIte]
    refine ⟨⟨forall2_refl (Loop.le_refl v) _, ?_⟩, ?_, ?_⟩
    · simp only [Lv.get_reconcile]; exact Lness.le_join_left _ _
    · intro hs
      refine Or.inr (Or.inl ?_)
      simp only [Lv.get_reconcile, doExpr_strong r e v hv hs, Lness.join_strong_right]
    · intro t es o hp ht
      simp only [stmtPaths, Bool.false_eq_true, ↓reduceIte] at hp
      obtain ⟨hp, rfl⟩ := hp
      have seg := Seg.doExpr v r hv e hp
      refine ⟨fun h => ?_, fun _ x hx => by simp [target] at hx⟩
      refine Or.inr (Or.inl ?_)
      simp only [Lv.get_reconcile, seg.viol t ht h, Lness.join_strong_right]
  · -- yield
    simp only [↓reduceIte]
    apply Sound.of_seg
    · intro es o hp
      simp only [stmtPaths, ↓reduceIte] at hp
      obtain ⟨ee, hp, rfl, rfl⟩ := hp
      refine ⟨rfl, ?_⟩
      have s1 := Seg.doExpr v r hv e hp
      have s2 := Seg.susps v 1 ((doExpr r e).get v)
      rw [← Lv.get_raiseNoneToWeak _ _ hv] at s2
      exact s1.append s2
    · intro hs
      exact get_raiseNoneToWeak_strong _ _ hv (doExpr_strong r e v hv hs)

/-! ### if -/

theorem branch_sound {v : Nat} {P1 P2 : List Ev → Out → Prop} {r0 s1 s2 : Lv n} {σ σ1 σ2 : St n}
    (h1 : Sound v P1 r0 σ s1 σ1) (h2 : Sound v P2 r0 σ1 s2 σ2) :
    Sound v (fun es o => P1 es o ∨ P2 es o) r0 σ (((Lv.clear : Lv n).reconcile s1).reconcile s2) σ2 := by
  have e1 : s1.get v ≤ (((Lv.clear : Lv n).reconcile s1).reconcile s2).get v := by
    simp only [Lv.get_reconcile, Lv.get_clear, Lness.none_join]; exact Lness.le_join_left _ _
  have e2 : s2.get v ≤ (((Lv.clear : Lv n).reconcile s1).reconcile s2).get v := by
    simp only [Lv.get_reconcile]; exact Lness.le_join_right _ _
  have hs1 : Srec v s1 σ1 → Srec v (((Lv.clear : Lv n).reconcile s1).reconcile s2) σ2 := by
    rintro (h | h)
    · exact Or.inl (Lness.strong_le (h ▸ e1))
    · exact Or.inr (h.mono h2.mono)
  have hs2 : Srec v s2 σ2 → Srec v (((Lv.clear : Lv n).reconcile s1).reconcile s2) σ2 := by
    rintro (h | h)
    · exact Or.inl (Lness.strong_le (h ▸ e2))
    · exact Or.inr h
  refine ⟨St.le_trans h1.mono h2.mono, fun hs => hs1 (h1.sticky hs), ?_⟩
  intro t es o hp ht
  rcases hp with hp | hp
  · exact (h1.post t es o hp ht).later' h2.mono hs1 e1
  · exact (h2.post t es o hp ht).later' (St.le_refl v _) hs2 e2

/-! ### while -/

theorem Loop.join_le_left (v : Nat) (l m : Loop n) : Loop.le v l (l.join m) :=
  ⟨by simp only [Loop.join, Lv.get_reconcile]; exact Lness.le_join_left _ _,
   by simp only [Loop.join, Lv.get_reconcile]; exact Lness.le_join_left _ _⟩

theorem fixLoopN_spec (step : Loop n → St n → Loop n × St n) (Inv : Loop n → St n → Prop)
    (hstep : ∀ l σ, Inv l σ → Inv (l.join (step l σ).1) (step l σ).2) :
    ∀ (k : Nat) l σ, l.height < k → Inv l σ → ∃ σi, Inv (fixLoopN step k l σ).1 σi ∧
      (fixLoopN step k l σ).1.join (step (fixLoopN step k l σ).1 σi).1 = (fixLoopN step k l σ).1 ∧
      (fixLoopN step k l σ).2 = (step (fixLoopN step k l σ).1 σi).2
  | 0, l, σ, hk, _ => absurd hk (Nat.not_lt_zero _)
  | k + 1, l, σ, hk, hi => by
    unfold fixLoopN
    by_cases h : l.join (step l σ).1 = l
    · simp only [h, ↓reduceIte]
      exact ⟨σ, hi, h, rfl⟩
    · simp only [h, ↓reduceIte]
      have hlt := Loop.height_join_lt l (step l σ).1 h
      exact fixLoopN_spec step Inv hstep k _ _ (by omega) (hstep l σ hi)

/-- `fixLoop` returns a fixed point of `step`, reached through states that keep `Inv`: the
bound on the number of passes is never what stops the iteration. -/
theorem fixLoop_spec (step : Loop n → St n → Loop n × St n) (Inv : Loop n → St n → Prop)
    (hstep : ∀ l σ, Inv l σ → Inv (l.join (step l σ).1) (step l σ).2) :
    ∀ l σ, Inv l σ → ∃ σi, Inv (fixLoop step l σ).1 σi ∧
      (fixLoop step l σ).1.join (step (fixLoop step l σ).1 σi).1 = (fixLoop step l σ).1 ∧
      (fixLoop step l σ).2 = (step (fixLoop step l σ).1 σi).2 := by
  intro l σ hi
  exact fixLoopN_spec step Inv hstep (l.height + 1) l σ (Nat.lt_succ_self _) hi

/-- With enough passes allowed, the bounded iteration is the unbounded one. -/
theorem fixLoopN_eq_wf (step : Loop n → St n → Loop n × St n) :
    ∀ (k : Nat) l σ, l.height < k → fixLoopN step k l σ = fixLoopWF step l σ
  | 0, l, σ, hk => absurd hk (Nat.not_lt_zero _)
  | k + 1, l, σ, hk => by
    unfold fixLoopN
    rw [fixLoopWF.eq_1]
    by_cases h : l.join (step l σ).1 = l
    · simp only [h, ↓reduceIte, ↓reduceDIte]
    · simp only [h, ↓reduceIte, ↓reduceDIte]
      have hlt := Loop.height_join_lt l (step l σ).1 h
      exact fixLoopN_eq_wf step k _ _ (by omega)

/-- `fixLoop` is `doWhile`'s unbounded iteration (the one Lean's termination checker accepts on
the lattice-height measure). -/
theorem fixLoop_eq_wf (step : Loop n → St n → Loop n × St n) (l : Loop n) (σ : St n) :
    fixLoop step l σ = fixLoopWF step l σ :=
  fixLoopN_eq_wf step (l.height + 1) l σ (Nat.lt_succ_self _)

/-- One pass, unfolded, given that the body keeps the loop stack's shape. -/
theorem whileStep_eq (wt : Bool) (c : Ex) (body : Lv n → St n → Lv n × St n) (l : Loop n) (σ : St n)
    (l' : Loop n) (outer : List (Loop n))
    (h : (body (doExpr l.before c)
      { σ with loops := (if wt then l else { l with after := l.after.reconcile (doExpr l.before c) }) :: σ.loops }).2.loops
        = l' :: outer) :
    whileStep wt c body l σ =
      ({ l' with before := l'.before.reconcile (body (doExpr l.before c)
          { σ with loops := (if wt then l else { l with after := l.after.reconcile (doExpr l.before c) }) :: σ.loops }).1 },
       { (body (doExpr l.before c)
          { σ with loops := (if wt then l else { l with after := l.after.reconcile (doExpr l.before c) }) :: σ.loops }).2
          with loops := outer }) := by
  unfold whileStep
  simp only [h]

theorem while_sound (v : Nat) (hv : v < n) (wt : Bool) (c : Ex) (bodyP : List Ev → Out → Prop)
    (body : Lv n → St n → Lv n × St n)
    (ih : ∀ r σ, Sound v bodyP r σ (body r σ).1 (body r σ).2)
    (r : Lv n) (σ : St n) :
    let p := fixLoop (whileStep wt c body) ⟨r, Lv.clear⟩ σ
    Sound v (LoopPath (ExprPath c) wt bodyP) r σ p.1.after
      { p.2 with final := p.2.final.reconcile p.1.before } := by
  intro p
  -- the shape of one pass
  have hpass : ∀ (l : Loop n) (σ0 : St n), ∃ l' outer,
      let r0 := doExpr l.before c
      let lp : Loop n := if wt then l else { l with after := l.after.reconcile r0 }
      let q := body r0 { σ0 with loops := lp :: σ0.loops }
      q.2.loops = l' :: outer ∧ Loop.le v lp l' ∧ F2 (Loop.le v) σ0.loops outer ∧
        σ0.final.get v ≤ q.2.final.get v ∧
        whileStep wt c body l σ0 = ({ l' with before := l'.before.reconcile q.1 }, { q.2 with loops := outer }) := by
    intro l σ0
    have hm := (ih (doExpr l.before c)
      { σ0 with loops := (if wt then l else { l with after := l.after.reconcile (doExpr l.before c) }) :: σ0.loops }).mono
    obtain ⟨hm1, hm2⟩ := hm
    generalize hq : body (doExpr l.before c)
      { σ0 with loops := (if wt then l else { l with after := l.after.reconcile (doExpr l.before c) }) :: σ0.loops } = q at hm1 hm2
    cases hl : q.2.loops with
    | nil => rw [hl] at hm1; cases hm1
    | cons l' outer =>
      rw [hl] at hm1
      cases hm1 with
      | cons h1 t1 =>
        refine ⟨l', outer, ?_⟩
        simp only
        rw [hq]
        refine ⟨hl, h1, t1, hm2, ?_⟩
        have := whileStep_eq wt c body l σ0 l' outer (by rw [hq]; exact hl)
        rw [hq] at this
        exact this
  -- invariant along the iteration
  let Inv : Loop n → St n → Prop := fun l σ0 => Loop.le v ⟨r, Lv.clear⟩ l ∧ St.le v σ σ0
  have hstep : ∀ l σ0, Inv l σ0 → Inv (l.join (whileStep wt c body l σ0).1) (whileStep wt c body l σ0).2 := by
    intro l σ0 ⟨hl, hs⟩
    obtain ⟨l', outer, _, _, ht, hf, heq⟩ := hpass l σ0
    refine ⟨Loop.le_trans hl (Loop.join_le_left v _ _), ?_⟩
    rw [heq]
    exact St.le_trans hs ⟨ht, hf⟩
  obtain ⟨σi, ⟨hl0, hσi⟩, hfix, hσ⟩ := fixLoop_spec (whileStep wt c body) Inv hstep ⟨r, Lv.clear⟩ σ
    ⟨Loop.le_refl v _, St.le_refl v σ⟩
  change Loop.le v ⟨r, Lv.clear⟩ p.1 at hl0
  change p.1.join (whileStep wt c body p.1 σi).1 = p.1 at hfix
  change p.2 = (whileStep wt c body p.1 σi).2 at hσ
  obtain ⟨l', outer, hql, hlp, houter, hfin, heq⟩ := hpass p.1 σi
  simp only at hql hlp houter hfin heq
  -- names for the last pass
  generalize hr0 : doExpr p.1.before c = r0 at hql hlp hfin heq
  generalize hlpd : (if wt then p.1 else { p.1 with after := p.1.after.reconcile r0 } : Loop n) = lp at hql hlp hfin heq
  have ihq := ih r0 { σi with loops := lp :: σi.loops }
  generalize hq : body r0 { σi with loops := lp :: σi.loops } = q at hql hfin heq ihq
  rw [heq] at hfix hσ
  simp only at hfix hσ
  -- what stability says at `v`
  have hb1 : l'.before.get v ≤ p.1.before.get v ∧ q.1.get v ≤ p.1.before.get v := by
    have := congrArg (fun l : Loop n => l.before.get v) hfix
    simp only [Loop.join, Lv.get_reconcile] at this
    have h3 := Lness.join_eq_left_iff.mp this
    exact ⟨Lness.le_trans (Lness.le_join_left _ _) h3, Lness.le_trans (Lness.le_join_right _ _) h3⟩
  have ha1 : l'.after.get v ≤ p.1.after.get v := by
    have := congrArg (fun l : Loop n => l.after.get v) hfix
    simp only [Loop.join, Lv.get_reconcile] at this
    exact Lness.join_eq_left_iff.mp this
  have hlpb : lp.before.get v = p.1.before.get v := by
    rw [← hlpd]; cases wt <;> rfl
  have hlpa : p.1.after.get v ≤ lp.after.get v := by
    rw [← hlpd]; cases wt
    · simp only [Bool.false_eq_true, ↓reduceIte, Lv.get_reconcile]; exact Lness.le_join_left _ _
    · exact Lness.le_refl _
  have hr0a : wt = false → r0.get v ≤ p.1.after.get v := by
    intro hw
    have : r0.get v ≤ lp.after.get v := by
      rw [← hlpd, hw]
      simp only [Bool.false_eq_true, ↓reduceIte, Lv.get_reconcile]; exact Lness.le_join_right _ _
    exact Lness.le_trans this (Lness.le_trans hlp.2 ha1)
  -- the final state
  generalize hσ' : ({ p.2 with final := p.2.final.reconcile p.1.before } : St n) = σ'
  have hloops' : σ'.loops = outer := by rw [← hσ', hσ]
  have hfinal' : σ'.final.get v = (q.2.final.get v).join (p.1.before.get v) := by
    rw [← hσ', hσ]; simp only [Lv.get_reconcile]
  have hmono_i : St.le v σi σ' :=
    ⟨by rw [hloops']; exact houter, by rw [hfinal']; exact Lness.le_trans hfin (Lness.le_join_left _ _)⟩
  -- a strong recorded during the last pass survives
  have hsrec : Srec v q.1 q.2 → Srec v p.1.after σ' := by
    rintro (h | h | ⟨l, hl, h⟩)
    · refine Or.inr (Or.inl ?_)
      have e : p.1.before.get v = Lness.strong := Lness.strong_le (h ▸ hb1.2)
      rw [hfinal', e, Lness.join_strong_right]
    · refine Or.inr (Or.inl ?_)
      rw [hfinal', h, Lness.join_strong_left]
    · rw [hql] at hl
      rcases List.mem_cons.mp hl with rfl | hl
      · rcases h with h | h
        · refine Or.inr (Or.inl ?_)
          have e : p.1.before.get v = Lness.strong := Lness.strong_le (h ▸ hb1.1)
          rw [hfinal', e, Lness.join_strong_right]
        · exact Or.inl (Lness.strong_le (h ▸ ha1))
      · exact Or.inr (Or.inr ⟨l, by rw [hloops']; exact hl, h⟩)
  have hbefore_strong : p.1.before.get v = Lness.strong → Srec v p.1.after σ' := by
    intro h
    refine Or.inr (Or.inl ?_)
    rw [hfinal', h, Lness.join_strong_right]
  have segc : ∀ ce, ExprPath c ce → Seg v ce (p.1.before.get v) (r0.get v) := by
    intro ce hce
    rw [← hr0]
    exact Seg.doExpr v p.1.before hv c hce
  refine ⟨St.le_trans hσi hmono_i, ?_, ?_⟩
  · intro hs
    exact hbefore_strong (Lness.strong_le (hs ▸ hl0.1))
  · intro t es o hp ht
    have ht' : G t (p.1.before.get v) := ht.mono hl0.1
    clear ht
    induction hp generalizing t with
    | stop => exact Post.stop v _ _ t
    | @exit ce hw hce =>
      have seg := segc ce hce
      refine ⟨fun hvv => Or.inl (Lness.strong_le (seg.viol t ht' hvv ▸ hr0a hw)), fun hvv x hx => ?_⟩
      simp only [target, Option.some.injEq] at hx
      subst hx
      exact (seg.ok t ht' hvv).mono (hr0a hw)
    | @iter ce be es o o' hce hbe hex _ ih2 =>
      have seg := segc ce hce
      rw [List.append_assoc]
      cases hvc : viol v t ce
      · apply Post.prepend hvc
        have g0 := seg.ok t ht' hvc
        have pb := ihq.post _ be o hbe g0
        cases hvb : viol v (taintAfter v t ce) be
        · apply Post.prepend hvb
          apply ih2
          -- back at the loop head
          cases o with
          | norm => exact (pb.2 hvb _ rfl).mono hb1.2
          | cont k =>
            cases k with
            | zero =>
              have := pb.2 hvb (l'.before.get v) (by simp [target, hql])
              exact this.mono hb1.1
            | succ k => simp [Out.exitLoop] at hex
          | brk k => cases k <;> simp [Out.exitLoop] at hex
          | ret => simp [Out.exitLoop] at hex
          | stop => simp [Out.exitLoop] at hex
        · exact Post.of_viol_prefix hvb (hsrec (pb.1 hvb)) es o'
      · exact Post.of_viol_prefix hvc (hsrec (ihq.sticky (seg.viol t ht' hvc))) (be ++ es) o'
    | @leave ce be o o' hce hbe hex =>
      have seg := segc ce hce
      cases hvc : viol v t ce
      · apply Post.prepend hvc
        have g0 := seg.ok t ht' hvc
        have pb := ihq.post _ be o hbe g0
        refine ⟨fun hvb => hsrec (pb.1 hvb), fun hvb x hx => ?_⟩
        cases o with
        | norm => simp [Out.exitLoop] at hex
        | ret => simp only [Out.exitLoop, Option.some.injEq] at hex; subst hex; simp [target] at hx
        | stop => simp only [Out.exitLoop, Option.some.injEq] at hex; subst hex; simp [target] at hx
        | brk k =>
          cases k with
          | zero =>
            simp only [Out.exitLoop, Option.some.injEq] at hex; subst hex
            simp only [target, Option.some.injEq] at hx
            subst hx
            exact (pb.2 hvb (l'.after.get v) (by simp [target, hql])).mono ha1
          | succ k =>
            simp only [Out.exitLoop, Option.some.injEq] at hex; subst hex
            simp only [target, hloops'] at hx
            exact pb.2 hvb x (by simpa [target, hql] using hx)
        | cont k =>
          cases k with
          | zero => simp [Out.exitLoop] at hex
          | succ k =>
            simp only [Out.exitLoop, Option.some.injEq] at hex; subst hex
            simp only [target, hloops'] at hx
            exact pb.2 hvb x (by simpa [target, hql] using hx)
      · exact Post.of_viol_prefix hvc (hsrec (ihq.sticky (seg.viol t ht' hvc))) be o'

end WuffsVerif.Liveness
