/-
C07 helper lemmas, part 3: one Huffman-coded block — the `while.loop` of `decode_huffman_slow` (mirror:
`slowLoop`) against `Flate.Spec.huffBlock`, in lockstep, symbol by symbol.  Core Lean only.
-/
import WuffsVerif.Proof.StdDeflateSym

namespace WuffsVerif.StdDeflate
open WuffsVerif.Flate.Spec (bitAt bitsLE avail Huff decodeGo decodeSym SymResult huffBlock BlockResult copyMatch
  lenBase lenExtra distBase distExtra)
open WuffsVerif.Gen.C07

/-! ### what the table entries mean -/

/-- the entry (up to its low 4 bits) `init_huff` stores for lcode symbol `v` -/
def valL (v : Nat) : Nat :=
  if v < 256 then 0x80000000 ||| (v <<< 8) else if v = 256 then 0x20000000
  else deflateLcodeMagic.getD ((v - 257) &&& 31) 0

/-- … for dcode symbol `v` -/
def valD (v : Nat) : Nat := deflateDcodeMagic.getD (v &&& 31) 0

theorem shr_of_shr4 {E c : Nat} (h : E >>> 4 = c >>> 4) (k : Nat) (hk : 4 ≤ k) : E >>> k = c >>> k := by
  obtain ⟨d, rfl⟩ : ∃ d, k = 4 + d := ⟨k - 4, by omega⟩
  rw [Nat.shiftRight_add, Nat.shiftRight_add, h]

theorem lit_facts : ∀ v, v < 256 → valL v >>> 31 = 1 ∧ (valL v >>> 8) &&& 0xFF = v := by decide +kernel

theorem eob_facts : valL 256 >>> 31 = 0 ∧ valL 256 >>> 30 = 0 ∧ valL 256 >>> 29 = 1 := by decide

/-- LCODE_MAGIC_NUMBERS against RFC 1951 §3.2.5: kind bits, number of extra bits, and the length formula of
    `decode_huffman_slow` (`+ 3`, and `((length + 253 + extra) & 0xFF) + 3` when there are extra bits) -/
theorem len_facts : ∀ i, i < 29 →
    valL (257 + i) >>> 31 = 0 ∧ valL (257 + i) >>> 30 = 1 ∧
    (valL (257 + i) >>> 4) &&& 0x0F = lenExtra.getD i 0 ∧
    (lenExtra.getD i 0 = 0 → ((valL (257 + i) >>> 8) &&& 0xFF) + 3 = lenBase.getD i 0) ∧
    (∀ x, x < 2 ^ lenExtra.getD i 0 → 0 < lenExtra.getD i 0 →
      ((((valL (257 + i) >>> 8) &&& 0xFF) + 3 + 253 + x) &&& 0xFF) + 3 = lenBase.getD i 0 + x) := by
  decide +kernel

/-- DCODE_MAGIC_NUMBERS against RFC 1951 §3.2.5 -/
theorem dist_facts : ∀ i, i < 30 →
    valD i >>> 24 = 0x40 ∧ (valD i >>> 4) &&& 0x0F = distExtra.getD i 0 ∧
    ((valD i >>> 8) &&& 0x7FFF) + 1 = distBase.getD i 0 ∧
    ((valD i >>> 8) &&& 0x7FFF) + 2 ^ distExtra.getD i 0 ≤ 32768 := by
  decide +kernel

theorem redirect_class (e : Nat) (h : isRedirect e) : lcodeClass e = none ∧ e >>> 28 ≠ 0 := by
  unfold isRedirect at h
  have h31 : e >>> 31 = 0 := by rw [show 31 = 28 + 3 from rfl, Nat.shiftRight_add, h]; rfl
  have h30 : e >>> 30 = 0 := by rw [show 30 = 28 + 2 from rfl, Nat.shiftRight_add, h]; rfl
  have h29 : e >>> 29 = 0 := by rw [show 29 = 28 + 1 from rfl, Nat.shiftRight_add, h]; rfl
  simp [lcodeClass, h31, h30, h29, h]

/-- the specification's view of an lcode symbol -/
def SymIs (v : Nat) (sy : Sym) : Prop :=
  match sy with
  | .literal b => v < 256 ∧ b = v
  | .endOfBlock => v = 256
  | .lenBase E => 257 ≤ v ∧ E >>> 4 = valL v >>> 4

theorem class_of_entry (E v : Nat) (hv : v < 286) (hE : E >>> 4 = valL v >>> 4) :
    ∃ sy, lcodeClass E = some sy ∧ SymIs v sy := by
  by_cases h1 : v < 256
  · obtain ⟨f1, f2⟩ := lit_facts v h1
    have e31 : E >>> 31 = 1 := by rw [shr_of_shr4 hE 31 (by omega), f1]
    have e8 : E >>> 8 = valL v >>> 8 := shr_of_shr4 hE 8 (by omega)
    refine ⟨.literal ((E >>> 8) &&& 0xFF), by simp [lcodeClass, e31], h1, by rw [e8, f2]⟩
  · by_cases h2 : v = 256
    · subst h2
      obtain ⟨f1, f2, f3⟩ := eob_facts
      have e31 := shr_of_shr4 hE 31 (by omega)
      have e30 := shr_of_shr4 hE 30 (by omega)
      have e29 := shr_of_shr4 hE 29 (by omega)
      rw [f1] at e31; rw [f2] at e30; rw [f3] at e29
      exact ⟨.endOfBlock, by simp [lcodeClass, e31, e30, e29], rfl⟩
    · obtain ⟨i, rfl⟩ : ∃ i, v = 257 + i := ⟨v - 257, by omega⟩
      obtain ⟨f1, f2, _⟩ := len_facts i (by omega)
      have e31 := shr_of_shr4 hE 31 (by omega)
      have e30 := shr_of_shr4 hE 30 (by omega)
      rw [f1] at e31; rw [f2] at e30
      exact ⟨.lenBase E, by simp [lcodeClass, e31, e30], by omega, hE⟩

/-! ### one symbol through the two table levels -/

theorem decode_entry {s : Bytes} (T : Array Nat) (nb : Nat) (h : Huff) (val : Nat → Nat) (hok : TblOK T nb)
    (hag : Agree T nb h val) (hm : h.maxLen ≤ 15) (hnb : nb ≤ 15) {p : Nat} (b : BR) (hb : BRInv s b p)
    (h8 : b.nBits < 8) (mb v p1 : Nat) (hd : decodeSym h s p mb = .sym v p1) :
    p < p1 ∧ p1 ≤ 8 * s.size ∧
    ∃ E b1, E >>> 4 = val v >>> 4 ∧
      lookupLoop s T 0 ((1 <<< nb) - 1) 3 b = .ok (tget T (bitsLE s p 15 % 2 ^ nb), b1) ∧
      (¬ isRedirect (tget T (bitsLE s p 15 % 2 ^ nb)) →
        tget T (bitsLE s p 15 % 2 ^ nb) = E ∧ BRInv s b1 p1 ∧ b1.nBits < 8) ∧
      (isRedirect (tget T (bitsLE s p 15 % 2 ^ nb)) →
        ∃ b2, lookupLoop s T ((tget T (bitsLE s p 15 % 2 ^ nb) >>> 8) &&& 0xFFFF)
            ((1 <<< ((tget T (bitsLE s p 15 % 2 ^ nb) >>> 4) &&& 0x0F)) - 1) 3 b1 = .ok (E, b2) ∧
          BRInv s b2 p1 ∧ b2.nBits < 8) := by
  obtain ⟨w1, w2, w3, _⟩ := decodeSym_specWin h s p mb v p1 hm hd
  obtain ⟨a1, a2⟩ := hag _ (bitsLE_lt s 15 p) v (p1 - p) w1
  have hpos : p + (lookup2 T nb (bitsLE s p 15)).2 = p1 := by rw [a1]; omega
  obtain ⟨b1, l1, l2, l3⟩ := lookup_two_level T nb hok hnb b hb h8 (by rw [hpos]; exact w3)
  refine ⟨w2, w3, (lookup2 T nb (bitsLE s p 15)).1, b1, a2, l1, ?_, ?_⟩
  · intro hr
    obtain ⟨k1, k2, k3⟩ := l2 hr
    rw [hpos] at k2
    exact ⟨by rw [k1], k2, k3⟩
  · intro hr
    obtain ⟨b2, k1, k2, k3⟩ := l3 hr
    rw [hpos] at k2
    exact ⟨b2, k1, k2, k3⟩

/-- the tables of a decoder state implement the two codes of the specification -/
structure TablesFor (st : St) (hl hd : Huff) : Prop where
  ok0 : TblOK st.huffs0 st.nHuffsBits0
  ok1 : TblOK st.huffs1 st.nHuffsBits1
  ag0 : Agree st.huffs0 st.nHuffsBits0 hl valL
  ag1 : Agree st.huffs1 st.nHuffsBits1 hd valD
  nb0 : st.nHuffsBits0 ≤ 15
  nb1 : st.nHuffsBits1 ≤ 15
  ml : hl.maxLen ≤ 15
  md : hd.maxLen ≤ 15

theorem lcodeSym_spec {s : Bytes} (st : St) (hl hd : Huff) (ht : TablesFor st hl hd) {p : Nat} (b : BR)
    (hb : BRInv s b p) (h8 : b.nBits < 8) (mb v p1 : Nat) (hd' : decodeSym hl s p mb = .sym v p1) (hv : v < 286) :
    ∃ sy b', lcodeSym s st b = .ok (sy, b') ∧ SymIs v sy ∧ BRInv s b' p1 ∧ b'.nBits < 8 ∧ p1 ≤ 8 * s.size := by
  obtain ⟨_, hp1, E, b1, hE, l1, l2, l3⟩ := decode_entry st.huffs0 st.nHuffsBits0 hl valL ht.ok0 ht.ag0 ht.ml ht.nb0 b hb h8
    mb v p1 hd'
  obtain ⟨sy, c1, c2⟩ := class_of_entry E v hv hE
  unfold lcodeSym
  simp only [l1, bind, Except.bind]
  by_cases hr : isRedirect (tget st.huffs0 (bitsLE s p 15 % 2 ^ st.nHuffsBits0))
  · obtain ⟨r1, r2⟩ := redirect_class _ hr
    obtain ⟨b2, k1, k2, k3⟩ := l3 hr
    simp only [r1, r2, ne_eq, not_false_eq_true, if_true, k1, c1]
    exact ⟨sy, b2, rfl, c2, k2, k3, hp1⟩
  · obtain ⟨k1, k2, k3⟩ := l2 hr
    rw [k1, c1]
    exact ⟨sy, b1, rfl, c2, k2, k3, hp1⟩

/-- the `n` extra bits after a base number: `fill` then `bits.low_bits(n)` then `drop` -/
theorem extra_bits {s : Bytes} {p : Nat} (b : BR) (hb : BRInv s b p) (h8 : b.nBits < 8) (n fuel : Nat)
    (hav : p + n ≤ 8 * s.size) (hf : n ≤ 8 * (fuel - 1)) (hf1 : 1 ≤ fuel) :
    ∃ b', BR.fill s n fuel b = .ok b' ∧ (b'.bits &&& ((1 <<< n) - 1)) = bitsLE s p n ∧
      BRInv s (b'.drop n) (p + n) ∧ (b'.drop n).nBits < 8 := by
  obtain ⟨b', e1, e2, e3, e4, e5⟩ := BRInv.fill n fuel b hb hav (by omega) hf1
  refine ⟨b', e1, by rw [and_mask, e2.low n e3], e2.drop n e3, ?_⟩
  simp only [BR.drop]
  by_cases hc : n ≤ b.nBits
  · rw [e4 hc]; omega
  · have := e5 (by omega); omega

theorem lengthOf_spec {s : Bytes} {p : Nat} (b : BR) (hb : BRInv s b p) (h8 : b.nBits < 8) (E i : Nat) (hi : i < 29)
    (hE : E >>> 4 = valL (257 + i) >>> 4) (hav : p + lenExtra.getD i 0 ≤ 8 * s.size) :
    ∃ b', lengthOf s E b = .ok (lenBase.getD i 0 + bitsLE s p (lenExtra.getD i 0), b') ∧
      BRInv s b' (p + lenExtra.getD i 0) ∧ b'.nBits < 8 := by
  obtain ⟨_, _, f3, f4, f5⟩ := len_facts i hi
  have e8 : E >>> 8 = valL (257 + i) >>> 8 := shr_of_shr4 hE 8 (by omega)
  unfold lengthOf
  simp only [hE, e8, f3]
  have hx5 : lenExtra.getD i 0 ≤ 5 := by
    have : ∀ i, i < 29 → lenExtra.getD i 0 ≤ 5 := by decide
    exact this i hi
  by_cases h0 : lenExtra.getD i 0 > 0
  · obtain ⟨b', g1, g2, g3, g4⟩ := extra_bits b hb h8 (lenExtra.getD i 0) 2 hav (by omega) (by omega)
    simp only [h0, if_true, g1, bind, Except.bind, g2]
    rw [f5 _ (bitsLE_lt s _ p) h0]
    exact ⟨_, rfl, g3, g4⟩
  · have hz : lenExtra.getD i 0 = 0 := by omega
    simp only [h0, if_false]
    rw [f4 hz, hz]
    exact ⟨b, by simp [bitsLE], by simpa using hb, h8⟩

theorem distValue_spec {s : Bytes} {p2 : Nat} (bE : BR) (m2 : BRInv s bE p2) (m3 : bE.nBits < 8) (E dv : Nat)
    (hv : dv < 30) (hE : E >>> 4 = valD dv >>> 4) (hav : p2 + distExtra.getD dv 0 ≤ 8 * s.size) :
    ∃ b', distValue s E bE = .ok (distBase.getD dv 0 + bitsLE s p2 (distExtra.getD dv 0), b') ∧
      BRInv s b' (p2 + distExtra.getD dv 0) ∧ b'.nBits < 8 := by
  obtain ⟨f1, f2, f3, f4⟩ := dist_facts dv hv
  have e24 : E >>> 24 = 0x40 := by rw [shr_of_shr4 hE 24 (by omega), f1]
  have e8 : E >>> 8 = valD dv >>> 8 := shr_of_shr4 hE 8 (by omega)
  have hx13 : distExtra.getD dv 0 ≤ 13 := by
    have : ∀ i, i < 30 → distExtra.getD i 0 ≤ 13 := by decide
    exact this dv hv
  unfold distValue
  simp only [e24, e8, hE, f2, bind, Except.bind, ne_eq, not_true_eq_false, if_false]
  by_cases h0 : distExtra.getD dv 0 > 0
  · obtain ⟨b', g1, g2, g3, g4⟩ := extra_bits bE m2 m3 (distExtra.getD dv 0) 3 hav (by omega) (by omega)
    simp only [h0, if_true, g1, g2]
    have hlt := bitsLE_lt s (distExtra.getD dv 0) p2
    have hsum : (valD dv >>> 8 &&& 0x7FFF) + bitsLE s p2 (distExtra.getD dv 0) < 2 ^ 15 :=
      Nat.lt_of_lt_of_le (by omega : _ < 32768) (by decide)
    rw [show (0x7FFF : Nat) = 2 ^ 15 - 1 from rfl] at hsum ⊢
    rw [Nat.and_two_pow_sub_one_eq_mod _ 15, Nat.mod_eq_of_lt hsum]
    refine ⟨_, ?_, g3, g4⟩
    rw [← f3, show (0x7FFF : Nat) = 2 ^ 15 - 1 from rfl]
    congr 2
    omega
  · have hz : distExtra.getD dv 0 = 0 := by omega
    simp only [h0, if_false]
    rw [hz]
    exact ⟨bE, by rw [← f3]; simp [bitsLE], by simpa using m2, m3⟩

theorem distanceOf_spec {s : Bytes} (st : St) (hl hd : Huff) (ht : TablesFor st hl hd) {p : Nat} (b : BR)
    (hb : BRInv s b p) (h8 : b.nBits < 8) (mb dv p2 : Nat) (hd' : decodeSym hd s p mb = .sym dv p2) (hv : dv < 30)
    (hav : p2 + distExtra.getD dv 0 ≤ 8 * s.size) :
    ∃ b', distanceOf s st b = .ok (distBase.getD dv 0 + bitsLE s p2 (distExtra.getD dv 0), b') ∧
      BRInv s b' (p2 + distExtra.getD dv 0) ∧ b'.nBits < 8 := by
  obtain ⟨_, hp2, E, b1, hE, l1, l2, l3⟩ := decode_entry st.huffs1 st.nHuffsBits1 hd valD ht.ok1 ht.ag1 ht.md ht.nb1 b hb h8
    mb dv p2 hd'
  unfold distanceOf
  simp only [l1, bind, Except.bind]
  by_cases hr : isRedirect (tget st.huffs1 (bitsLE s p 15 % 2 ^ st.nHuffsBits1))
  · obtain ⟨b2, k1, k2, k3⟩ := l3 hr
    have hr' : tget st.huffs1 (bitsLE s p 15 % 2 ^ st.nHuffsBits1) >>> 28 = 1 := hr
    simp only [hr', if_true, k1]
    exact distValue_spec b2 k2 k3 E dv hv hE hav
  · obtain ⟨k1, k2, k3⟩ := l2 hr
    have hr' : ¬ tget st.huffs1 (bitsLE s p 15 % 2 ^ st.nHuffsBits1) >>> 28 = 1 := hr
    rw [if_neg hr', k1]
    exact distValue_spec b1 k2 k3 E dv hv hE hav

theorem copyFromHistory_eq (dist : Nat) : ∀ (n : Nat) (out : Bytes), copyFromHistory out dist n = copyMatch out dist n := by
  intro n
  induction n with
  | zero => intro out; rfl
  | succ n ih => intro out; simp only [copyFromHistory, copyMatch]; exact ih _

/-- **One Huffman-coded block.**  If the specification decodes the block's symbols from bit `p` to its
    end-of-block code (`.next p1 out1`), the `while.loop` of `decode_huffman_slow`, started with an accumulator
    that holds the bits at `p`, ends at the same bit with the same output — for any tables that are
    prefix-replicated and agree with the two codes. -/
theorem slowLoop_spec {s : Bytes} (st : St) (hl hd : Huff) (ht : TablesFor st hl hd) (minL minD lo : Nat) :
    ∀ (fuel p : Nat) (out : Bytes) (b : BR) (p1 : Nat) (out1 : Bytes), BRInv s b p → b.nBits < 8 →
    huffBlock hl hd minL minD s none lo fuel p out = .next p1 out1 →
    ∃ b', slowLoop s st fuel b out = .ok (b', out1) ∧ BRInv s b' p1 ∧ b'.nBits < 8 ∧ p1 ≤ 8 * s.size := by
  intro fuel
  induction fuel with
  | zero => intro p out b p1 out1 _ _ h; simp [huffBlock] at h
  | succ fuel ih =>
    intro p out b p1 out1 hb h8 h
    simp only [huffBlock] at h
    cases hds : decodeSym hl s p minL with
    | truncated => rw [hds] at h; simp at h
    | corrupt => rw [hds] at h; simp at h
    | sym v q =>
      rw [hds] at h
      simp only at h
      by_cases hv286 : v ≥ 286
      · -- the specification rejects length symbols 286, 287
        have : ¬ v < 256 := by omega
        have h256 : ¬ v = 256 := by omega
        simp only [this, if_false, h256, hv286, if_true] at h
        simp at h
      · obtain ⟨sy, b1, c1, c2, c3, c4, c5⟩ := lcodeSym_spec st hl hd ht b hb h8 minL v q hds (by omega)
        unfold slowLoop
        simp only [c1, bind, Except.bind]
        by_cases hlit : v < 256
        · simp only [hlit, if_true, Flate.Spec.capReached] at h
          cases sy with
          | literal bv =>
            obtain ⟨_, rfl⟩ := c2
            simp only
            have := ih q (out.push (UInt8.ofNat bv)) b1 p1 out1 c3 c4 (by simpa using h)
            exact this
          | endOfBlock => simp only [SymIs] at c2; omega
          | lenBase E => simp only [SymIs] at c2; omega
        · simp only [hlit, if_false] at h
          by_cases heob : v = 256
          · simp only [heob, if_true, BlockResult.next.injEq] at h
            obtain ⟨rfl, rfl⟩ := h
            cases sy with
            | literal bv => simp only [SymIs] at c2; omega
            | endOfBlock => exact ⟨b1, rfl, c3, c4, c5⟩
            | lenBase E => simp only [SymIs] at c2; omega
          · simp only [heob, if_false, hv286] at h
            cases sy with
            | literal bv => simp only [SymIs] at c2; omega
            | endOfBlock => simp only [SymIs] at c2; omega
            | lenBase E =>
              obtain ⟨hv257, hE⟩ := c2
              obtain ⟨i, rfl⟩ : ∃ i, v = 257 + i := ⟨v - 257, by omega⟩
              simp only [show 257 + i - 257 = i by omega] at h
              by_cases hav : avail s q < lenExtra.getD i 0
              · simp only [hav, if_true] at h; simp at h
              · simp only [hav, if_false] at h
                have hav' : q + lenExtra.getD i 0 ≤ 8 * s.size := by unfold avail at hav; omega
                obtain ⟨b2, d1, d2, d3⟩ := lengthOf_spec b1 c3 c4 E i (by omega) hE hav'
                simp only [d1]
                cases hdd : decodeSym hd s (q + lenExtra.getD i 0) minD with
                | truncated => rw [hdd] at h; simp at h
                | corrupt => rw [hdd] at h; simp at h
                | sym dv p2 =>
                  rw [hdd] at h
                  simp only at h
                  by_cases hdv : dv ≥ 30
                  · simp only [hdv, if_true] at h; simp at h
                  · simp only [hdv, if_false] at h
                    by_cases hav2 : avail s p2 < distExtra.getD dv 0
                    · simp only [hav2, if_true] at h; simp at h
                    · simp only [hav2, if_false] at h
                      have hp2 := (decodeSym_specWin hd s _ minD dv p2 ht.md hdd).2.2.1
                      have hav2' : p2 + distExtra.getD dv 0 ≤ 8 * s.size := by unfold avail at hav2; omega
                      obtain ⟨b3, g1, g2, g3⟩ := distanceOf_spec st hl hd ht b2 d2 d3 minD dv p2 hdd (by omega) hav2'
                      simp only [g1]
                      by_cases hbad : distBase.getD dv 0 + bitsLE s p2 (distExtra.getD dv 0) > out.size ∨
                          distBase.getD dv 0 + bitsLE s p2 (distExtra.getD dv 0) > Flate.Spec.windowSize
                      · simp only [hbad, if_true] at h; simp at h
                      · simp only [hbad, if_false, Flate.Spec.capReached] at h
                        have hle : ¬ distBase.getD dv 0 + bitsLE s p2 (distExtra.getD dv 0) > out.size := by
                          intro hc; exact hbad (Or.inl hc)
                        simp only [hle, if_false, copyFromHistory_eq]
                        exact ih _ _ b3 p1 out1 g2 g3 (by simpa using h)

end WuffsVerif.StdDeflate
