/-
C16: the cutter never panics and never runs out of fuel (part 4): the symbol loop of `doHuffman`.
-/
import WuffsVerif.Proof.Flate.Total

namespace WuffsVerif.Flate.Cut
open WuffsVerif.Gen.C16

theorem offAt16_le (lengths : Array Nat) (n : Nat) (h : lengths.size ≤ n) : offAt lengths 16 ≤ n :=
  Nat.le_trans (offAt_le_size lengths 16) h

macro "t1" : tactic => `(tactic| first | trivial | rfl)
macro "t2" : tactic => `(tactic| first | (simp; done) | (split <;> simp))
macro "t4" : tactic => `(tactic| (intro h; rcases h with h | h <;> simp at h))

/-- One symbol of a Huffman block: no panic, and the cursor invariant survives whenever the loop goes on. -/
theorem huffStep_total (c : Cutter) (hc : c.OK) (ll dl : Array Nat) (hgd : c.dHuff.Good dl)
    (hdl : dl.size ≤ 32) (lSymbol : Int) (hls : Coded ll lSymbol) (hll : ll.size ≤ 288) (d0 : Int) :
    (c.huffStep lSymbol d0).1 = { c with bits := (c.huffStep lSymbol d0).1.bits } ∧
    (c.huffStep lSymbol d0).2.2 ≠ some (some .panic) ∧ (c.huffStep lSymbol d0).2.2 ≠ some (some .fuel) ∧
    (((c.huffStep lSymbol d0).2.2 = none ∨ (c.huffStep lSymbol d0).2.2 = some none) →
      (c.huffStep lSymbol d0).1.bits.Inv ∧ c.bits.pos ≤ (c.huffStep lSymbol d0).1.bits.pos) := by
  obtain ⟨j, hjs, hj, _⟩ := hls
  have hjs' : lSymbol = (j : Int) := hjs
  subst hjs'
  rw [Cutter.huffStep]
  by_cases h1 : (j : Int) < 256
  · simp only [h1, if_true]
    exact ⟨by t1, by t2, by t2, fun _ => ⟨hc.inv, Nat.le_refl _⟩⟩
  · simp only [h1, if_false]
    by_cases h2 : (j : Int) > 256
    · simp only [h2, if_true]
      have hidx : ((j : Int) - 256).toNat = j - 256 := by omega
      have hlt : j - 256 < 32 := by
        have : (256 : Int) < (j : Int) := h2
        omega
      rw [hidx]
      obtain ⟨f1, f2⟩ := lTable_facts (j - 256) hlt
      rw [getElem?_getD_int lBases (j - 256) hlt, getElem?_getD_nat lExtras (j - 256) hlt]
      simp only []
      generalize lBases.getD (j - 256) 0 = lb at f2
      generalize lExtras.getD (j - 256) 0 = le at f1 f2
      have hbp := base_plus_take c.bits hc.inv lb le (by omega) f2
      have htb := take_bytes c.bits le
      generalize c.bits.take le = r at hbp htb
      obtain ⟨t, bits1⟩ := r
      simp only [] at hbp htb ⊢
      by_cases hneg : wrap32 (lb + t) < 0
      · simp only [hneg, if_true]
        exact ⟨by t1, by t2, by t2, by t4⟩
      · simp only [hneg, if_false]
        obtain ⟨i1, p1⟩ := hbp hneg
        obtain ⟨ds, bits2, ed, yd, pd⟩ := hgd.decode (offAt16_le dl 288 (by omega)) bits1 i1
        simp only [ed]
        by_cases hdneg : ds < 0
        · simp only [hdneg, if_true]
          exact ⟨by t1, by t2, by t2, by t4⟩
        · simp only [hdneg, if_false]
          obtain ⟨⟨dj, hdjs, hdj, _⟩, i2, p2⟩ := pd (by omega)
          have hdjs' : ds = (dj : Int) := hdjs
          subst hdjs'
          have hdlt : dj < 32 := by omega
          have hdidx : (dj : Int).toNat = dj := by simp
          rw [hdidx]
          obtain ⟨g1, g2⟩ := dTable_facts dj hdlt
          rw [getElem?_getD_int dBases dj hdlt, getElem?_getD_nat dExtras dj hdlt]
          simp only []
          generalize dBases.getD dj 0 = db at g2
          generalize dExtras.getD dj 0 = de at g1 g2
          have hbp2 := base_plus_take bits2 i2 db de g1 g2
          generalize bits2.take de = r2 at hbp2
          obtain ⟨t2, bits3⟩ := r2
          simp only [] at hbp2 ⊢
          by_cases hneg2 : wrap32 (db + t2) < 0
          · simp only [hneg2, if_true]
            exact ⟨by t1, by t2, by t2, by t4⟩
          · simp only [hneg2, if_false]
            obtain ⟨i3, p3⟩ := hbp2 hneg2
            exact ⟨by t1, by t2, by t2, fun _ => ⟨i3, by omega⟩⟩
    · simp only [h2, if_false]
      split
      · exact ⟨by t1, by t2, by t2, by t4⟩
      · exact ⟨by t1, by t2, by t2, fun _ => ⟨hc.inv, Nat.le_refl _⟩⟩

end WuffsVerif.Flate.Cut
