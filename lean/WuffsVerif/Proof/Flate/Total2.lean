/-
C16: the cutter never panics and never runs out of fuel (part 4): the symbol loop of `doHuffman`.
-/
import WuffsVerif.Proof.Flate.Total

namespace WuffsVerif.Flate.Cut
open WuffsVerif.Gen.C16

theorem offAt16_le (lengths : Array Nat) (n : Nat) (h : lengths.size ≤ n) : offAt lengths 16 ≤ n :=
  Nat.le_trans (offAt_le_size lengths 16) h

macro "t1" : tactic => `(tactic| first | trivial | rfl)
macro "t2" : tactic => `(tactic| first | (simp; done) | (split <;> simp))
macro "t4" : tactic => `(tactic| (intro h; rcases h with h | h <;> simp at h))

/-- One symbol of a Huffman block: no panic, and the cursor invariant survives whenever the loop goes on. -/
theorem huffStep_total (c : Cutter) (hc : c.OK) (ll dl : Array Nat) (hgd : c.dHuff.Good dl)
    (hdl : dl.size ≤ 32) (lSymbol : Int) (hls : Coded ll lSymbol) (hll : ll.size ≤ 288) (d0 : Int) :
    (c.huffStep lSymbol d0).1 = { c with bits := (c.huffStep lSymbol d0).1.bits } ∧
    (c.huffStep lSymbol d0).2.2 ≠ some (some .panic) ∧ (c.huffStep lSymbol d0).2.2 ≠ some (some .fuel) ∧
    (((c.huffStep lSymbol d0).2.2 = none ∨ (c.huffStep lSymbol d0).2.2 = some none) →
      (c.huffStep lSymbol d0).1.bits.Inv ∧ c.bits.pos ≤ (c.huffStep lSymbol d0).1.bits.pos) := by
  obtain ⟨j, hjs, hj, _⟩ := hls
  have hjs' : lSymbol = (j : Int) := hjs
  subst hjs'
  rw [Cutter.huffStep]
  by_cases h1 : (j : Int) < 256
  · simp only [h1, if_true]
    exact ⟨by t1, by t2, by t2, fun _ => ⟨hc.inv, Nat.le_refl _⟩⟩
  · simp only [h1, if_false]
    by_cases h2 : (j : Int) > 256
    · simp only [h2, if_true]
      have hidx : ((j : Int) - 256).toNat = j - 256 := by omega
      have hlt : j - 256 < 32 := by
        have : (256 : Int) < (j : Int) := h2
        omega
      rw [hidx]
      obtain ⟨f1, f2⟩ := lTable_facts (j - 256) hlt
      rw [getElem?_getD_int lBases (j - 256) hlt, getElem?_getD_nat lExtras (j - 256) hlt]
      simp only []
      generalize lBases.getD (j - 256) 0 = lb at f2
      generalize lExtras.getD (j - 256) 0 = le at f1 f2
      have hbp := base_plus_take c.bits hc.inv lb le (by omega) f2
      have htb := take_bytes c.bits le
      generalize c.bits.take le = r at hbp htb
      obtain ⟨t, bits1⟩ := r
      simp only [] at hbp htb ⊢
      by_cases hneg : wrap32 (lb + t) < 0
      · simp only [hneg, if_true]
        exact ⟨by t1, by t2, by t2, by t4⟩
      · simp only [hneg, if_false]
        obtain ⟨i1, p1⟩ := hbp hneg
        obtain ⟨ds, bits2, ed, yd, pd⟩ := hgd.decode (offAt16_le dl 288 (by omega)) bits1 i1
        simp only [ed]
        by_cases hdneg : ds < 0
        · simp only [hdneg, if_true]
          exact ⟨by t1, by t2, by t2, by t4⟩
        · simp only [hdneg, if_false]
          obtain ⟨⟨dj, hdjs, hdj, _⟩, i2, p2⟩ := pd (by omega)
          have hdjs' : ds = (dj : Int) := hdjs
          subst hdjs'
          have hdlt : dj < 32 := by omega
          have hdidx : (dj : Int).toNat = dj := by simp
          rw [hdidx]
          obtain ⟨g1, g2⟩ := dTable_facts dj hdlt
          rw [getElem?_getD_int dBases dj hdlt, getElem?_getD_nat dExtras dj hdlt]
          simp only []
          generalize dBases.getD dj 0 = db at g2
          generalize dExtras.getD dj 0 = de at g1 g2
          have hbp2 := base_plus_take bits2 i2 db de g1 g2
          generalize bits2.take de = r2 at hbp2
          obtain ⟨t2, bits3⟩ := r2
          simp only [] at hbp2 ⊢
          by_cases hneg2 : wrap32 (db + t2) < 0
          · simp only [hneg2, if_true]
            exact ⟨by t1, by t2, by t2, by t4⟩
          · simp only [hneg2, if_false]
            obtain ⟨i3, p3⟩ := hbp2 hneg2
            exact ⟨by t1, by t2, by t2, fun _ => ⟨i3, by omega⟩⟩
    · simp only [h2, if_false]
      split
      · exact ⟨by t1, by t2, by t2, by t4⟩
      · exact ⟨by t1, by t2, by t2, fun _ => ⟨hc.inv, Nat.le_refl _⟩⟩

/-- A recorded checkpoint is a cursor position inside the buffer that leaves room for the end code. -/
def CPwf (c : Cutter) (cp : Option (Nat × Nat)) : Prop :=
  ∀ i n, cp = some (i, n) →
    n ≤ 8 * i ∧ i ≤ c.bits.bytes.size ∧ 8 * i - n + c.endCodeNBits ≤ 8 * c.maxEncodedLen

structure HuffLoopPost (c : Cutter) (r : Cutter × Option (Nat × Nat) × Option (Option Err)) : Prop where
  max : r.1.maxEncodedLen = c.maxEncodedLen
  ecn : r.1.endCodeNBits = c.endCodeNBits
  ecb : r.1.endCodeBits = c.endCodeBits
  lh : r.1.lHuff = c.lHuff
  dh : r.1.dHuff = c.dHuff
  bytes : r.1.bits.bytes = c.bits.bytes
  noPanic : r.2.2 ≠ some (some .panic)
  noFuel : r.2.2 ≠ some (some .fuel)
  cp : CPwf c r.2.1
  ret : r.2.2 = some none → r.1.bits.Inv ∧ c.bits.pos ≤ r.1.bits.pos

theorem HuffLoopPost.transport {c c' : Cutter} {r : Cutter × Option (Nat × Nat) × Option (Option Err)}
    (h : HuffLoopPost c' r) (h1 : c'.maxEncodedLen = c.maxEncodedLen) (h2 : c'.endCodeNBits = c.endCodeNBits)
    (h3 : c'.endCodeBits = c.endCodeBits) (h4 : c'.lHuff = c.lHuff) (h5 : c'.dHuff = c.dHuff)
    (h6 : c'.bits.bytes = c.bits.bytes) (h7 : c.bits.pos ≤ c'.bits.pos) : HuffLoopPost c r :=
  ⟨h.max.trans h1, h.ecn.trans h2, h.ecb.trans h3, h.lh.trans h4, h.dh.trans h5, h.bytes.trans h6,
    h.noPanic, h.noFuel,
    (by intro i n hin; have := h.cp i n hin; rw [h1, h2, h6] at this; exact this),
    (by intro hr; obtain ⟨a, b⟩ := h.ret hr; exact ⟨a, by omega⟩)⟩

/-- **The symbol loop of `doHuffman` never panics and never runs out of fuel.** -/
theorem huffLoop_total (ll dl : Array Nat) (hll : ll.size ≤ 288) (hdl : dl.size ≤ 32) :
    ∀ (fuel : Nat) (c : Cutter) (cp : Option (Nat × Nat)) (d0 : Int),
    c.OK → c.lHuff.Good ll → c.dHuff.Good dl → 8 * c.bits.bytes.size + 1 ≤ fuel + c.bits.pos → CPwf c cp →
    HuffLoopPost c (Cutter.huffLoop fuel c cp d0) := by
  intro fuel
  induction fuel with
  | zero =>
    intro c cp d0 hc _ _ hf _
    have := Inv.pos_le hc.inv
    omega
  | succ fuel ih =>
    intro c cp d0 hc hgl hgd hf hcp
    rw [Cutter.huffLoop]
    obtain ⟨s, b', e, y, p⟩ := hgl.decode (offAt16_le ll 288 hll) c.bits hc.inv
    simp only [e]
    by_cases hs : s < 0
    · simp only [hs, if_true]
      exact ⟨rfl, rfl, rfl, rfl, rfl, y, by simp, by simp, hcp, by intro h; simp at h⟩
    · simp only [hs, if_false]
      obtain ⟨hcoded, i1, p1⟩ := p (by omega)
      have hc1 : ({ c with bits := b' } : Cutter).OK := ⟨i1, by simp only [y]; exact hc.max, hc.l, hc.d⟩
      have hst := huffStep_total { c with bits := b' } hc1 ll dl hgd hdl s hcoded hll d0
      generalize hr : ({ c with bits := b' } : Cutter).huffStep s d0 = r at hst
      obtain ⟨c2, d2, o⟩ := r
      simp only [] at hst
      obtain ⟨q1, q2, q3, q4⟩ := hst
      have m1 : c2.maxEncodedLen = c.maxEncodedLen := by rw [q1]
      have m2 : c2.endCodeNBits = c.endCodeNBits := by rw [q1]
      have m3 : c2.endCodeBits = c.endCodeBits := by rw [q1]
      have m4 : c2.lHuff = c.lHuff := by rw [q1]
      have m5 : c2.dHuff = c.dHuff := by rw [q1]
      have m6 : c2.bits.bytes = c.bits.bytes := by
        have := (huffStep_spec { c with bits := b' } s d0).2.2.2.1
        rw [hr] at this
        exact this.trans y
      cases o with
      | some r =>
        simp only []
        refine ⟨m1, m2, m3, m4, m5, m6, q2, q3, hcp, ?_⟩
        intro h
        obtain ⟨a, b⟩ := q4 (Or.inr h)
        exact ⟨a, by show c.bits.pos ≤ c2.bits.pos; have hb2 : b'.pos ≤ c2.bits.pos := b; omega⟩
      | none =>
        simp only []
        obtain ⟨i2, p2⟩ := q4 (Or.inl rfl)
        have p2 : b'.pos ≤ c2.bits.pos := p2
        by_cases hd2 : d2 < 0
        · simp only [hd2, if_true]
          exact ⟨m1, m2, m3, m4, m5, m6, by simp, by simp, hcp, by intro h; simp at h⟩
        · simp only [hd2, if_false]
          by_cases hbud : 8 * c2.bits.index - c2.bits.nBits + c2.endCodeNBits > 8 * c2.maxEncodedLen
          · simp only [hbud, if_true]
            exact ⟨m1, m2, m3, m4, m5, m6, by simp, by simp, hcp, by intro h; simp at h⟩
          · simp only [hbud, if_false]
            have hc2 : ({ c2 with decodedLen := d2 } : Cutter).OK :=
              ⟨i2, by simp only [m1, m6]; exact hc.max, by simp only [m4]; exact hc.l, by simp only [m5]; exact hc.d⟩
            have hpost := ih { c2 with decodedLen := d2 } (some (c2.bits.index, c2.bits.nBits)) d2 hc2
              (by simp only [m4]; exact hgl) (by simp only [m5]; exact hgd)
              (by simp only [m6]; omega)
              (by
                intro i n hin
                simp only [Option.some.injEq, Prod.mk.injEq] at hin
                obtain ⟨rfl, rfl⟩ := hin
                have := i2.nBits_le; have := i2.index_le
                refine ⟨by omega, by omega, ?_⟩
                simp only [Bitstream.pos] at *
                omega)
            exact hpost.transport m1 m2 m3 m4 m5 m6 (by show c.bits.pos ≤ c2.bits.pos; omega)

/-- **Every checkpoint the symbol loop records lies at or behind `p0`** when the loop starts there (or
later) and the incoming checkpoint does: the cursor only moves forward. -/
theorem huffLoop_cpge (ll dl : Array Nat) (hll : ll.size ≤ 288) (hdl : dl.size ≤ 32) (p0 : Nat) :
    ∀ (fuel : Nat) (c : Cutter) (cp : Option (Nat × Nat)) (d0 : Int),
    c.OK → c.lHuff.Good ll → c.dHuff.Good dl → p0 ≤ c.bits.pos →
    (∀ i n, cp = some (i, n) → p0 ≤ 8 * i - n) →
    ∀ i n, (Cutter.huffLoop fuel c cp d0).2.1 = some (i, n) → p0 ≤ 8 * i - n := by
  intro fuel
  induction fuel with
  | zero =>
    intro c cp d0 _ _ _ _ hcp i n h
    simp only [Cutter.huffLoop] at h
    exact hcp i n h
  | succ fuel ih =>
    intro c cp d0 hc hgl hgd hp0 hcp
    rw [Cutter.huffLoop]
    obtain ⟨s, b', e, y, p⟩ := hgl.decode (offAt16_le ll 288 hll) c.bits hc.inv
    simp only [e]
    by_cases hs : s < 0
    · simp only [hs, if_true]
      exact hcp
    · simp only [hs, if_false]
      obtain ⟨hcoded, i1, p1⟩ := p (by omega)
      have hc1 : ({ c with bits := b' } : Cutter).OK := ⟨i1, by simp only [y]; exact hc.max, hc.l, hc.d⟩
      have hst := huffStep_total { c with bits := b' } hc1 ll dl hgd hdl s hcoded hll d0
      generalize hr : ({ c with bits := b' } : Cutter).huffStep s d0 = r at hst
      obtain ⟨c2, d2, o⟩ := r
      simp only [] at hst
      obtain ⟨q1, q2, q3, q4⟩ := hst
      have m1 : c2.maxEncodedLen = c.maxEncodedLen := by rw [q1]
      have m4 : c2.lHuff = c.lHuff := by rw [q1]
      have m5 : c2.dHuff = c.dHuff := by rw [q1]
      have m6 : c2.bits.bytes = c.bits.bytes := by
        have := (huffStep_spec { c with bits := b' } s d0).2.2.2.1
        rw [hr] at this
        exact this.trans y
      cases o with
      | some r =>
        simp only []
        exact hcp
      | none =>
        simp only []
        obtain ⟨i2, p2⟩ := q4 (Or.inl rfl)
        have p2 : b'.pos ≤ c2.bits.pos := p2
        by_cases hd2 : d2 < 0
        · simp only [hd2, if_true]
          exact hcp
        · simp only [hd2, if_false]
          by_cases hbud : 8 * c2.bits.index - c2.bits.nBits + c2.endCodeNBits > 8 * c2.maxEncodedLen
          · simp only [hbud, if_true]
            exact hcp
          · simp only [hbud, if_false]
            have hc2 : ({ c2 with decodedLen := d2 } : Cutter).OK :=
              ⟨i2, by simp only [m1, m6]; exact hc.max, by simp only [m4]; exact hc.l, by simp only [m5]; exact hc.d⟩
            have hp2 : p0 ≤ c2.bits.pos := by omega
            exact ih { c2 with decodedLen := d2 } (some (c2.bits.index, c2.bits.nBits)) d2 hc2
              (by simp only [m4]; exact hgl) (by simp only [m5]; exact hgd) hp2
              (by
                intro i n hin
                simp only [Option.some.injEq, Prod.mk.injEq] at hin
                obtain ⟨rfl, rfl⟩ := hin
                exact hp2)

end WuffsVerif.Flate.Cut
