/-
C16: a dynamic-Huffman block of the spec decoder depends only on its own bits (`blockAt_dynamic`).
-/
import WuffsVerif.Proof.Flate.DynSpec
import WuffsVerif.Proof.Flate.Sim

namespace WuffsVerif.Flate.Cut
open WuffsVerif.Gen.C16 WuffsVerif.Flate.Spec

theorem getD_extract_nat (a : Array Nat) (k i : Nat) (h : i < k) : (a.extract 0 k).getD i 0 = a.getD i 0 := by
  simp only [Array.getD_eq_getD_getElem?, Array.getElem?_extract]
  by_cases h2 : i < min k a.size
  · simp [h2]
  · have : a.size ≤ i := by omega
    simp [h2, Array.getElem?_eq_none this]

/-- The facts about the end-of-block code of a dynamic block: it is `minL` bits long. -/
theorem dyn_eob_len (s : Bytes) (p : Nat) (hl hd : Huff) (minL ph : Nat) (lens : Array Nat) (hc : Huff)
    (d : DynHdr s p hl hd minL ph lens hc) (s1 : Bytes) (qE p1 : Nat)
    (hsym : decodeSym hl s1 qE minL = .sym 256 p1) :
    p1 = qE + minL ∧ minL = lens.getD 256 0 ∧ minL ≠ 0 := by
  have hnz := decodeSym_nz _ hl d.hlE s1 qE minL 256 p1 hsym
  obtain ⟨a1, a2, a3⟩ := decodeSym_len _ hl d.hlE hnz s1 qE minL 256 p1 hsym
  have hsz : 256 < bitsLE s p 5 + 257 := by omega
  rw [getD_extract_nat lens _ 256 hsz] at a2
  have hmin := mkHuff_minLen _ hl d.hlE hnz 256 a1 (by rw [getD_extract_nat lens _ 256 hsz]; omega)
  rw [getD_extract_nat lens _ 256 hsz] at hmin
  have := d.minL
  split at this <;> omega

/-- A dynamic-Huffman block. -/
theorem blockAt_dynamic (s : Bytes) (p : Nat) (out : Bytes) (p1 : Nat) (out1 : Bytes)
    (hty : bitsLE s (p + 1) 2 = 2) (h : blockBody s none 0 p out = .next p1 out1) :
    BlockAt s p out p1 out1 := by
  have e0 : ¬ ((2 : Nat) = 0) := by omega
  have e1 : ¬ ((2 : Nat) = 1) := by omega
  simp only [blockBody, hty, e0, e1, if_false, if_true] at h
  cases hdh : dynamicHeader s (p + 3) with
  | truncated => rw [hdh] at h; simp at h
  | corrupt => rw [hdh] at h; simp at h
  | ok hl hd minL ph =>
    rw [hdh] at h
    simp only [] at h
    obtain ⟨lens, hc, d⟩ := dynamicHeader_ok s (p + 3) hl hd minL ph hdh
    obtain ⟨qE, hr, heob⟩ := spec_reach hl hd minL hd.minLen 0 s _ _ _ _ _ h
    have hsym := huffTok_eob _ _ _ _ _ _ _ _ heob
    obtain ⟨hp1, _, _⟩ := dyn_eob_len s (p + 3) hl hd minL ph lens hc d s qE p1 hsym
    have hle := hr.le
    have hph := (dynamicHeader_local s s (p + 3) hl hd minL ph hdh (fun _ _ _ => rfl) (by
      have := decodeSym_bounds hl s qE minL 256 p1 hsym; omega)).2
    have hminD : ∀ q dv p2, decodeSym hd s q hd.minLen = .sym dv p2 → q + hd.minLen ≤ p2 :=
      fun q dv p2 hq => decodeSym_minlen _ hd d.hdE s q hd.minLen dv p2 hq
    refine ⟨by omega, (huffBlock_cap hl hd minL hd.minLen s 0 0 _ _ _ _ _ h).1, ?_⟩
    intro s'' hag hsz
    have hty'' := typ_bits_local s s'' p p1 (by omega) hag
    obtain ⟨hdh'', _⟩ := dynamicHeader_local s s'' (p + 3) hl hd minL ph hdh (fun i a b => hag i (by omega) (by omega))
      (by omega)
    simp only [blockBody, hty'', hty, e0, e1, if_false, if_true, hdh'']
    apply replay_eob hl hd minL hd.minLen 0 s s'' hminD hr (fun i a b => hag i (by omega) (by omega))
      (by omega) _ _ (by omega)
    have hloc := huffTok_local hl hd minL hd.minLen s s'' qE out1.size (by rw [heob]; trivial)
      (by rw [heob]; simp only [Tok.endPos]; intro i a b; exact hag i (by omega) b)
      (by rw [heob]; simp only [Tok.endPos]; exact hsz) (by omega) hminD
    rw [hloc.1]; exact heob

end WuffsVerif.Flate.Cut
