/-
A reference *encoder* for streams of stored blocks, and the round trip through the spec decoder
(sanity of `Spec.inflate`; also the non-vacuity witness for the stored-stream theorems).
-/
import WuffsVerif.Proof.Flate.StoredSpec

namespace WuffsVerif.Flate.Spec

/-- One stored block: header byte (BFINAL, BTYPE = 00, five zero padding bits), LEN, NLEN, data. -/
def storedBlk (fin : Bool) (d : Bytes) : Bytes :=
  #[if fin then 1 else 0, UInt8.ofNat (d.size % 256), UInt8.ofNat (d.size / 256 % 256),
    UInt8.ofNat (255 - d.size % 256), UInt8.ofNat (255 - d.size / 256 % 256)] ++ d

/-- The blocks `ds` (not final) followed by the final block `dl`. -/
def encodeStored : List Bytes → Bytes → Bytes
  | [], dl => storedBlk true dl
  | d :: ds, dl => storedBlk false d ++ encodeStored ds dl

theorem storedBlk_size (fin : Bool) (d : Bytes) : (storedBlk fin d).size = 5 + d.size := by
  simp [storedBlk, Array.size_append]

theorem getD_mid (pre x post : Bytes) (i : Nat) (hi : i < x.size) :
    (pre ++ x ++ post).getD (pre.size + i) 0 = x.getD i 0 := by
  simp only [Array.getD_eq_getD_getElem?]
  rw [Array.getElem?_append_left (by simp [Array.size_append]; omega),
    Array.getElem?_append_right (by omega)]
  simp

theorem blkAt_storedBlk (pre post d : Bytes) (fin : Bool) (hd : d.size ≤ 65535) :
    BlkAt (pre ++ storedBlk fin d ++ post) pre.size d fin := by
  have hsz := storedBlk_size fin d
  have g : ∀ i, i < 5 → (pre ++ storedBlk fin d ++ post).getD (pre.size + i) 0 = (storedBlk fin d).getD i 0 :=
    fun i hi => getD_mid pre _ post i (by omega)
  have hh : ∀ i, i < 5 → (storedBlk fin d).getD i 0 =
      (#[if fin then 1 else 0, UInt8.ofNat (d.size % 256), UInt8.ofNat (d.size / 256 % 256),
        UInt8.ofNat (255 - d.size % 256), UInt8.ofNat (255 - d.size / 256 % 256)] : Bytes).getD i 0 := by
    intro i hi
    simp only [storedBlk, Array.getD_eq_getD_getElem?]
    rw [Array.getElem?_append_left (by simp; omega)]
  refine ⟨?_, ?_, ?_, hd, by simp [Array.size_append, hsz]; omega, ?_⟩
  · have := g 0 (by omega); simp only [Nat.add_zero] at this
    rw [this, hh 0 (by omega)]; cases fin <;> simp
  · rw [g 1 (by omega), g 2 (by omega), hh 1 (by omega), hh 2 (by omega)]; simp; omega
  · rw [g 3 (by omega), g 4 (by omega), hh 3 (by omega), hh 4 (by omega)]; simp; omega
  · apply Array.ext
    · simp [Array.size_extract, Array.size_append, hsz]; omega
    · intro i h1 h2
      simp only [Array.getElem_extract]
      have := getD_mid pre (storedBlk fin d) post (5 + i) (by omega)
      simp only [Array.getD_eq_getD_getElem?] at this
      have e1 : pre.size + (5 + i) < (pre ++ storedBlk fin d ++ post).size := by
        simp [Array.size_append, hsz]; omega
      have e2 : 5 + i < (storedBlk fin d).size := by omega
      rw [Array.getElem?_eq_getElem e1, Array.getElem?_eq_getElem e2] at this
      simp only [Option.getD_some] at this
      have e3 : pre.size + 5 + i = pre.size + (5 + i) := by omega
      simp only [e3, this]
      simp [storedBlk, Array.getElem_append]

theorem encodeStored_run (pre post : Bytes) (ds : List Bytes) (dl : Bytes)
    (hds : ∀ d ∈ ds, d.size ≤ 65535) (hdl : dl.size ≤ 65535) :
    Run (pre ++ encodeStored ds dl ++ post) pre.size ds ∧
    BlkAt (pre ++ encodeStored ds dl ++ post) (endOf pre.size ds) dl true ∧
    endOf pre.size ds + 5 + dl.size = pre.size + (encodeStored ds dl).size := by
  induction ds generalizing pre with
  | nil =>
    simp only [encodeStored, endOf]
    exact ⟨trivial, blkAt_storedBlk pre post dl true hdl, by rw [storedBlk_size]; omega⟩
  | cons d ds ih =>
    have hd : d.size ≤ 65535 := hds d (by simp)
    have hds' : ∀ d' ∈ ds, d'.size ≤ 65535 := fun d' h => hds d' (by simp [h])
    have e1 : pre ++ encodeStored (d :: ds) dl ++ post =
        pre ++ storedBlk false d ++ (encodeStored ds dl ++ post) := by
      simp [encodeStored, Array.append_assoc]
    have e2 : pre ++ encodeStored (d :: ds) dl ++ post =
        (pre ++ storedBlk false d) ++ encodeStored ds dl ++ post := by
      simp [encodeStored, Array.append_assoc]
    have hsz : (pre ++ storedBlk false d).size = pre.size + 5 + d.size := by
      simp [Array.size_append, storedBlk_size]; omega
    have := ih (pre ++ storedBlk false d) hds'
    rw [hsz] at this
    obtain ⟨i1, i2, i3⟩ := this
    refine ⟨⟨?_, ?_⟩, ?_, ?_⟩
    · rw [e1]; exact blkAt_storedBlk pre _ d false hd
    · rw [e2]; exact i1
    · simp only [endOf]; rw [e2]; exact i2
    · simp only [endOf]
      rw [i3]
      simp [encodeStored, Array.size_append, storedBlk_size]
      omega

/-- **Round trip**: the spec decoder inverts the stored-block encoder (any number of blocks, each
of at most 65535 bytes, any trailing bytes), and reports exactly the encoder's length as consumed. -/
theorem inflate_stored_roundtrip (ds : List Bytes) (dl post : Bytes)
    (hds : ∀ d ∈ ds, d.size ≤ 65535) (hdl : dl.size ≤ 65535) :
    inflate (encodeStored ds dl ++ post) = some (flat ds ++ dl, (encodeStored ds dl).size) := by
  have := encodeStored_run #[] post ds dl hds hdl
  simp only [Array.empty_append, Array.size_empty, Nat.zero_add] at this
  obtain ⟨h1, h2, h3⟩ := this
  rw [inflate_stored _ ds dl h1 h2, h3]

end WuffsVerif.Flate.Spec
