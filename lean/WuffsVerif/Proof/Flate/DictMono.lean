/-
C16 (zlib with FDICT): the RFC 1951 spec decoder with and without a preset dictionary.

`flatecut.Cut` and `cutSingleBlock` re-decode with `flate.NewReader` — WITHOUT the preset dictionary of
a zlib stream.  What that means for the result: a run of the spec decoder that does not end in
`corrupt` is reproduced, byte for byte, by the run that has a dictionary `D` in front of its output
(`blocks_dict`); a capped run that ends in `corrupt` has not yet produced the wanted number of bytes
(`blocks_corrupt_lt`); and without a cap the `lo` argument does not matter (`blocks_lo`).
-/
import WuffsVerif.Proof.Flate.SpecTok

namespace WuffsVerif.Flate.Spec

/-- put `D` in front of the output of a block result -/
def BlockResult.pre (D : Bytes) : BlockResult → BlockResult
  | .next p out => .next p (D ++ out)
  | .stop st p out => .stop st p (D ++ out)

/-- The token at `p` does not depend on how much output there is, unless it is rejected (a distance
that reaches before the start of the output is the only check that looks at the output size). -/
theorem huffTok_mono (hl hd : Huff) (minL minD : Nat) (s : Bytes) (p sz k : Nat)
    (h : huffTok hl hd minL minD s p sz ≠ .bad .corrupt) :
    huffTok hl hd minL minD s p (sz + k) = huffTok hl hd minL minD s p sz := by
  simp only [huffTok] at h ⊢
  cases h1 : decodeSym hl s p minL with
  | truncated => rfl
  | corrupt => rfl
  | sym v p1 =>
    simp only [h1] at h ⊢
    by_cases hv : v < 256
    · simp only [hv, if_true]
    · simp only [hv, if_false] at h ⊢
      by_cases hv2 : v = 256
      · simp only [hv2, if_true]
      · simp only [hv2, if_false] at h ⊢
        by_cases hv3 : v ≥ 286
        · simp only [hv3, if_true]
        · simp only [hv3, if_false] at h ⊢
          by_cases ha : avail s p1 < lenExtra.getD (v - 257) 0
          · simp only [ha, if_true]
          · simp only [ha, if_false] at h ⊢
            cases h2 : decodeSym hd s (p1 + lenExtra.getD (v - 257) 0) minD with
            | truncated => rfl
            | corrupt => rfl
            | sym dv p2 =>
              simp only [h2] at h ⊢
              by_cases hd1 : dv ≥ 30
              · simp only [hd1, if_true]
              · simp only [hd1, if_false] at h ⊢
                by_cases ha2 : avail s p2 < distExtra.getD dv 0
                · simp only [ha2, if_true]
                · simp only [ha2, if_false] at h ⊢
                  by_cases hdist : distBase.getD dv 0 + bitsLE s p2 (distExtra.getD dv 0) > sz ∨
                      distBase.getD dv 0 + bitsLE s p2 (distExtra.getD dv 0) > windowSize
                  · simp only [hdist, if_true] at h
                    exact absurd rfl h
                  · have : ¬ (distBase.getD dv 0 + bitsLE s p2 (distExtra.getD dv 0) > sz + k ∨
                        distBase.getD dv 0 + bitsLE s p2 (distExtra.getD dv 0) > windowSize) := by omega
                    simp only [hdist, this, if_false]

/-- a copy token's distance stays inside the output -/
theorem huffTok_copy_dist (hl hd : Huff) (minL minD : Nat) (s : Bytes) (p sz len dist p1 : Nat)
    (h : huffTok hl hd minL minD s p sz = .copy len dist p1) : dist ≤ sz := by
  simp only [huffTok] at h
  cases h1 : decodeSym hl s p minL with
  | truncated => simp only [h1] at h; cases h
  | corrupt => simp only [h1] at h; cases h
  | sym v p1 =>
    simp only [h1] at h
    by_cases hv : v < 256
    · simp only [hv, if_true] at h; cases h
    · simp only [hv, if_false] at h
      by_cases hv2 : v = 256
      · simp only [hv2, if_true] at h; cases h
      · simp only [hv2, if_false] at h
        by_cases hv3 : v ≥ 286
        · simp only [hv3, if_true] at h; cases h
        · simp only [hv3, if_false] at h
          by_cases ha : avail s p1 < lenExtra.getD (v - 257) 0
          · simp only [ha, if_true] at h; cases h
          · simp only [ha, if_false] at h
            cases h2 : decodeSym hd s (p1 + lenExtra.getD (v - 257) 0) minD with
            | truncated => simp only [h2] at h; cases h
            | corrupt => simp only [h2] at h; cases h
            | sym dv p2 =>
              simp only [h2] at h
              by_cases hd1 : dv ≥ 30
              · simp only [hd1, if_true] at h; cases h
              · simp only [hd1, if_false] at h
                by_cases ha2 : avail s p2 < distExtra.getD dv 0
                · simp only [ha2, if_true] at h; cases h
                · simp only [ha2, if_false] at h
                  by_cases hdist : distBase.getD dv 0 + bitsLE s p2 (distExtra.getD dv 0) > sz ∨
                      distBase.getD dv 0 + bitsLE s p2 (distExtra.getD dv 0) > windowSize
                  · simp only [hdist, if_true] at h; cases h
                  · simp only [hdist, if_false, Tok.copy.injEq] at h
                    omega

theorem append_push (D out : Bytes) (b : UInt8) : (D ++ out).push b = D ++ out.push b := by
  apply Array.ext'; simp

theorem getD_append_right (D out : Bytes) (i : Nat) : (D ++ out).getD (D.size + i) 0 = out.getD i 0 := by
  simp only [Array.getD_eq_getD_getElem?]
  rw [Array.getElem?_append_right (by omega)]
  congr 2
  omega

/-- A copy that stays inside `out` does the same with `D` in front. -/
theorem copyMatch_dict (D : Bytes) (dist : Nat) : ∀ (n : Nat) (out : Bytes), dist ≤ out.size →
    copyMatch (D ++ out) dist n = D ++ copyMatch out dist n := by
  intro n
  induction n with
  | zero => intro out _; simp [copyMatch]
  | succ n ih =>
    intro out hd
    rw [copyMatch, copyMatch]
    have hg : (D ++ out).getD ((D ++ out).size - dist) 0 = out.getD (out.size - dist) 0 := by
      have : (D ++ out).size - dist = D.size + (out.size - dist) := by simp [Array.size_append]; omega
      rw [this, getD_append_right]
    rw [hg, append_push]
    exact ih _ (by simp; omega)

theorem size_sub_dict (D x : Bytes) (lo : Nat) : (D ++ x).size - (lo + D.size) = x.size - lo := by
  simp [Array.size_append]; omega

/-- **A Huffman block with a dictionary in front**: unless the run without it ends in `corrupt`. -/
theorem huffBlock_dict (D : Bytes) (hl hd : Huff) (minL minD : Nat) (s : Bytes) (cap : Option Nat) (lo : Nat) :
    ∀ (fuel p : Nat) (out : Bytes),
    (∀ p' o, huffBlock hl hd minL minD s cap lo fuel p out ≠ .stop .corrupt p' o) →
    huffBlock hl hd minL minD s cap (lo + D.size) fuel p (D ++ out) =
      (huffBlock hl hd minL minD s cap lo fuel p out).pre D := by
  intro fuel
  induction fuel with
  | zero => intro p out h; exact absurd rfl (h p out)
  | succ fuel ih =>
    intro p out h
    rw [huffBlock_succ] at h ⊢
    rw [huffBlock_succ]
    have hsz : (D ++ out).size = out.size + D.size := by simp [Array.size_append]; omega
    have hne : huffTok hl hd minL minD s p out.size ≠ .bad .corrupt := by
      intro hb
      rw [hb] at h
      exact h p out rfl
    rw [hsz, huffTok_mono _ _ _ _ _ _ _ _ hne]
    cases ht : huffTok hl hd minL minD s p out.size with
    | lit b p1 =>
      rw [ht] at h
      simp only [] at h ⊢
      rw [append_push, size_sub_dict]
      by_cases hc : capReached cap ((out.push b).size - lo) = true
      · simp only [hc, if_true, BlockResult.pre]
      · simp only [hc, Bool.false_eq_true, if_false] at h ⊢
        exact ih p1 (out.push b) h
    | eob p1 => simp only [BlockResult.pre]
    | copy len dist p1 =>
      rw [ht] at h
      simp only [] at h ⊢
      have hd' : dist ≤ out.size := huffTok_copy_dist _ _ _ _ _ _ _ _ _ _ ht
      rw [copyMatch_dict D dist len out hd', size_sub_dict]
      by_cases hc : capReached cap ((copyMatch out dist len).size - lo) = true
      · simp only [hc, if_true, BlockResult.pre]
      · simp only [hc, Bool.false_eq_true, if_false] at h ⊢
        exact ih p1 _ h
    | bad st => simp only [BlockResult.pre]

theorem storedBlock_dict (D s : Bytes) (p : Nat) (out : Bytes) :
    storedBlock s p (D ++ out) = (storedBlock s p out).pre D := by
  simp only [storedBlock]
  repeat' split
  all_goals simp only [BlockResult.pre, Array.append_assoc]

theorem blockBody_dict (D s : Bytes) (cap : Option Nat) (lo p : Nat) (out : Bytes)
    (h : ∀ p' o, blockBody s cap lo p out ≠ .stop .corrupt p' o) :
    blockBody s cap (lo + D.size) p (D ++ out) = (blockBody s cap lo p out).pre D := by
  simp only [blockBody] at h ⊢
  split
  · exact storedBlock_dict D s _ out
  · rename_i h0
    simp only [h0, if_false] at h
    split
    · rename_i h1
      simp only [h1, if_true] at h
      exact huffBlock_dict D _ _ _ _ s cap lo _ _ out h
    · rename_i h1
      simp only [h1, if_false] at h
      split
      · rename_i h2
        simp only [h2, if_true] at h
        split
        · simp only [BlockResult.pre]
        · simp only [BlockResult.pre]
        · rename_i hl hd minL p1 hdyn
          simp only [hdyn] at h
          exact huffBlock_dict D _ _ _ _ s cap lo _ _ out h
      · simp only [BlockResult.pre]

/-- **The spec decoder with a dictionary in front of its output** does exactly what the run without
the dictionary does, whenever that run does not end in `corrupt` (it may reject distances that reach
into the dictionary; it never accepts anything the run with the dictionary rejects). -/
theorem blocks_dict (D s : Bytes) (cap : Option Nat) (lo : Nat) :
    ∀ (fuel p : Nat) (out : Bytes) (st : Status) (p' : Nat) (out' : Bytes),
    blocks s cap lo fuel p out = ⟨st, p', out'⟩ → st ≠ .corrupt →
    blocks s cap (lo + D.size) fuel p (D ++ out) = ⟨st, p', D ++ out'⟩ := by
  intro fuel
  induction fuel with
  | zero =>
    intro p out st p' out' h hst
    simp only [blocks, Result.mk.injEq] at h
    exact absurd h.1.symm hst
  | succ fuel ih =>
    intro p out st p' out' h hst
    rw [blocks_succ] at h ⊢
    by_cases hav : avail s p < 3
    · simp only [hav, if_true] at h ⊢
      simp only [Result.mk.injEq] at h ⊢
      exact ⟨h.1, h.2.1, by rw [h.2.2]⟩
    · simp only [hav, if_false] at h ⊢
      have hb : ∀ q o, blockBody s cap lo p out ≠ .stop .corrupt q o := by
        intro q o hq
        rw [hq] at h
        simp only [Result.mk.injEq] at h
        exact hst h.1.symm
      rw [blockBody_dict D s cap lo p out hb]
      cases hbb : blockBody s cap lo p out with
      | stop st1 p1 out1 =>
        rw [hbb] at h
        simp only [BlockResult.pre, Result.mk.injEq] at h ⊢
        exact ⟨h.1, h.2.1, by rw [h.2.2]⟩
      | next p1 out1 =>
        rw [hbb] at h
        simp only [BlockResult.pre] at h ⊢
        rw [size_sub_dict]
        by_cases hf : bitAt s p = 1
        · simp only [hf, if_true, Result.mk.injEq] at h ⊢
          exact ⟨h.1, h.2.1, by rw [h.2.2]⟩
        · simp only [hf, if_false] at h ⊢
          by_cases hc : capReached cap (out1.size - lo) = true
          · simp only [hc, if_true, Result.mk.injEq] at h ⊢
            exact ⟨h.1, h.2.1, by rw [h.2.2]⟩
          · simp only [hc, Bool.false_eq_true, if_false] at h ⊢
            exact ih p1 out1 st p' out' h hst

/-! ### a capped run that ends in `corrupt` has produced fewer bytes than wanted -/

theorem huffBlock_corrupt_lt (hl hd : Huff) (minL minD : Nat) (s : Bytes) (n lo : Nat) :
    ∀ (fuel p : Nat) (out : Bytes) (r : BlockResult),
    huffBlock hl hd minL minD s (some n) lo fuel p out = r → out.size - lo < n →
    match r with
    | .next _ _ => True
    | .stop st _ o => st = .capped ∨ o.size - lo < n := by
  intro fuel
  induction fuel with
  | zero => intro p out r h hlt; simp only [huffBlock] at h; subst h; exact Or.inr hlt
  | succ fuel ih =>
    intro p out r h hlt
    rw [huffBlock_succ] at h
    cases ht : huffTok hl hd minL minD s p out.size with
    | lit b p1 =>
      rw [ht] at h
      simp only [] at h
      by_cases hc : capReached (some n) ((out.push b).size - lo) = true
      · simp only [hc, if_true] at h; subst h; exact Or.inl rfl
      · simp only [hc, Bool.false_eq_true, if_false] at h
        exact ih p1 _ r h (by simpa [capReached] using hc)
    | eob p1 => rw [ht] at h; simp only [] at h; subst h; trivial
    | copy len dist p1 =>
      rw [ht] at h
      simp only [] at h
      by_cases hc : capReached (some n) ((copyMatch out dist len).size - lo) = true
      · simp only [hc, if_true] at h; subst h; exact Or.inl rfl
      · simp only [hc, Bool.false_eq_true, if_false] at h
        exact ih p1 _ r h (by simpa [capReached] using hc)
    | bad st => rw [ht] at h; simp only [] at h; subst h; exact Or.inr hlt

/-- a capped run stops as soon as `n` bytes are out: when it ends in `corrupt` (or `truncated`) it has
produced fewer. -/
theorem blocks_corrupt_lt (s : Bytes) (n lo : Nat) :
    ∀ (fuel p : Nat) (out : Bytes) (st : Status) (p' : Nat) (out' : Bytes),
    blocks s (some n) lo fuel p out = ⟨st, p', out'⟩ → out.size - lo < n → st = .corrupt →
    out'.size - lo < n := by
  intro fuel
  induction fuel with
  | zero =>
    intro p out st p' out' h hlt _
    simp only [blocks, Result.mk.injEq] at h
    rw [← h.2.2]; exact hlt
  | succ fuel ih =>
    intro p out st p' out' h hlt hst
    rw [blocks_succ] at h
    by_cases hav : avail s p < 3
    · simp only [hav, if_true, Result.mk.injEq] at h
      rw [← h.2.2]; exact hlt
    · simp only [hav, if_false] at h
      cases hbb : blockBody s (some n) lo p out with
      | stop st1 p1 out1 =>
        rw [hbb] at h
        simp only [Result.mk.injEq] at h
        obtain ⟨rfl, _, rfl⟩ := h
        subst hst
        -- the block itself stopped with `corrupt`
        simp only [blockBody] at hbb
        split at hbb
        · simp only [storedBlock] at hbb
          repeat' split at hbb
          all_goals first
            | (cases hbb; exact hlt)
            | (cases hbb; done)
            | (simp at hbb; done)
        · split at hbb
          · have := huffBlock_corrupt_lt _ _ _ _ s n lo _ _ out _ hbb hlt
            simp only [] at this
            rcases this with h1 | h1
            · cases h1
            · exact h1
          · split at hbb
            · split at hbb
              · cases hbb
              · cases hbb; exact hlt
              · have := huffBlock_corrupt_lt _ _ _ _ s n lo _ _ out _ hbb hlt
                simp only [] at this
                rcases this with h1 | h1
                · cases h1
                · exact h1
            · cases hbb; exact hlt
      | next p1 out1 =>
        rw [hbb] at h
        simp only [] at h
        by_cases hf : bitAt s p = 1
        · simp only [hf, if_true, Result.mk.injEq] at h
          rw [← h.1] at hst; cases hst
        · simp only [hf, if_false] at h
          by_cases hc : capReached (some n) (out1.size - lo) = true
          · simp only [hc, if_true, Result.mk.injEq] at h
            rw [← h.1] at hst; cases hst
          · simp only [hc, Bool.false_eq_true, if_false] at h
            exact ih p1 out1 st p' out' h (by simpa [capReached] using hc) hst

/-! ### without a cap, `lo` does not matter -/

theorem huffBlock_lo (hl hd : Huff) (minL minD : Nat) (s : Bytes) (lo lo' : Nat) :
    ∀ (fuel p : Nat) (out : Bytes),
    huffBlock hl hd minL minD s none lo fuel p out = huffBlock hl hd minL minD s none lo' fuel p out := by
  intro fuel
  induction fuel with
  | zero => intro p out; rfl
  | succ fuel ih =>
    intro p out
    rw [huffBlock_succ, huffBlock_succ]
    cases huffTok hl hd minL minD s p out.size with
    | lit b p1 => simp only [capReached, Bool.false_eq_true, if_false]; exact ih _ _
    | eob p1 => rfl
    | copy len dist p1 => simp only [capReached, Bool.false_eq_true, if_false]; exact ih _ _
    | bad st => rfl

theorem blockBody_lo (s : Bytes) (lo lo' p : Nat) (out : Bytes) :
    blockBody s none lo p out = blockBody s none lo' p out := by
  simp only [blockBody]
  split
  · rfl
  · split
    · exact huffBlock_lo _ _ _ _ s lo lo' _ _ _
    · split
      · split
        · rfl
        · rfl
        · exact huffBlock_lo _ _ _ _ s lo lo' _ _ _
      · rfl

theorem blocks_lo (s : Bytes) (lo lo' : Nat) : ∀ (fuel p : Nat) (out : Bytes),
    blocks s none lo fuel p out = blocks s none lo' fuel p out := by
  intro fuel
  induction fuel with
  | zero => intro p out; rfl
  | succ fuel ih =>
    intro p out
    rw [blocks_succ, blocks_succ, blockBody_lo s lo lo' p out]
    split
    · rfl
    · cases blockBody s none lo' p out with
      | stop st p1 out1 => rfl
      | next p1 out1 =>
        simp only [capReached, Bool.false_eq_true, if_false]
        split
        · rfl
        · exact ih _ _

end WuffsVerif.Flate.Spec
