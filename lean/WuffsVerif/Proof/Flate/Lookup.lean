/-
C16: `lookup_eq_slow` — the 8-bit look-up table and the 64-bit refill fast path of
`huffman.decode` return exactly what `slowDecode` returns and consume the same bits.
Part 1: the cursor invariant and an abstract (bit-sequence) view of `slowDecode`.
-/
import WuffsVerif.Proof.Flate.Basic

namespace WuffsVerif.Flate.Cut
open WuffsVerif.Gen.C16

/-! ### the cursor invariant under the elementary moves -/

theorem testBit_toNat_lt (x : UInt64) (i : Nat) (h : 64 ≤ i) : x.toNat.testBit i = false := by
  apply Nat.testBit_lt_two_pow
  have := x.toNat_lt
  calc x.toNat < 2 ^ 64 := this
    _ ≤ 2 ^ i := Nat.pow_le_pow_right (by omega) h

theorem streamBit_byte (bytes : Bytes) (index j : Nat) (hj : j < 8) :
    streamBit bytes (8 * index + j) = (bytes.getD index 0).toNat.testBit j := by
  simp only [streamBit]
  have h1 : (8 * index + j) / 8 = index := by omega
  have h2 : (8 * index + j) % 8 = j := by omega
  rw [h1, h2]

theorem byte_testBit_ge (x : UInt8) (j : Nat) (h : 8 ≤ j) : x.toNat.testBit j = false := by
  apply Nat.testBit_lt_two_pow
  calc x.toNat < 2 ^ 8 := x.toNat_lt
    _ ≤ 2 ^ j := Nat.pow_le_pow_right (by omega) h

/-- Consuming `n ≤ nBits` bits. -/
theorem Inv.consume {b : Bitstream} (hb : b.Inv) (n : Nat) (hn : n ≤ b.nBits) :
    ({ b with bits := shr64 b.bits n, nBits := b.nBits - n } : Bitstream).Inv ∧
    ({ b with bits := shr64 b.bits n, nBits := b.nBits - n } : Bitstream).pos = b.pos + n := by
  have hlt := hb.nBits_lt
  have hle := hb.nBits_le
  have hpos : ({ b with bits := shr64 b.bits n, nBits := b.nBits - n } : Bitstream).pos = b.pos + n := by
    simp only [Bitstream.pos]; omega
  refine ⟨⟨⟨by simp only []; omega, hb.index_le⟩, by simp only []; omega, ?_, ?_⟩, hpos⟩
  · intro i hi
    rw [hpos]
    simp only [] at hi
    have hn64 : n < 64 := by omega
    simp only [shr64, hn64, if_true, UInt64.toNat_shiftRight, Nat.testBit_shiftRight]
    have : n.toUInt64.toNat % 64 = n := by simp [Nat.toUInt64]; omega
    rw [this, hb.low (n + i) (by omega)]
    congr 1; omega
  · intro i hi1 hi2 hbit
    rw [hpos]
    simp only [] at hi1
    have hn64 : n < 64 := by omega
    simp only [shr64, hn64, if_true, UInt64.toNat_shiftRight, Nat.testBit_shiftRight] at hbit
    have : n.toUInt64.toNat % 64 = n := by simp [Nat.toUInt64]; omega
    rw [this] at hbit
    by_cases h64 : n + i < 64
    · have := hb.high (n + i) (by omega) h64 hbit
      rw [← this]; congr 1; omega
    · rw [testBit_toNat_lt _ _ (by omega)] at hbit
      simp at hbit

/-- `slowDecode`'s refill: the buffer is empty, one byte is loaded by assignment. -/
theorem Inv.load_fresh {b : Bitstream} (_hb : b.Inv) (h0 : b.nBits = 0) (hi : b.index < b.bytes.size) :
    ({ b with bits := (b.bytes.getD b.index 0).toUInt64, nBits := 8, index := b.index + 1 } : Bitstream).Inv ∧
    ({ b with bits := (b.bytes.getD b.index 0).toUInt64, nBits := 8, index := b.index + 1 } : Bitstream).pos = b.pos := by
  have hpos : ({ b with bits := (b.bytes.getD b.index 0).toUInt64, nBits := 8, index := b.index + 1 } : Bitstream).pos
      = b.pos := by simp only [Bitstream.pos, h0]; omega
  have hp : b.pos = 8 * b.index := by simp only [Bitstream.pos, h0]; omega
  refine ⟨⟨⟨by simp only []; omega, by simp only []; omega⟩, by simp only []; omega, ?_, ?_⟩, hpos⟩
  · intro i hi8
    rw [hpos, hp]
    simp only [] at hi8 ⊢
    rw [streamBit_byte _ _ _ hi8]
    simp
  · intro i hi1 _ hbit
    simp only [] at hi1 hbit
    simp only [UInt8.toNat_toUInt64] at hbit
    rw [byte_testBit_ge _ _ hi1] at hbit
    simp at hbit

/-- `take`/`decode`'s refill: one byte is OR-ed in above the waiting bits. -/
def Bitstream.loadOr (b : Bitstream) : Bitstream :=
  { b with bits := b.bits ||| shl64 (b.bytes.getD b.index 0).toUInt64 b.nBits, nBits := b.nBits + 8, index := b.index + 1 }

theorem Inv.load_or {b : Bitstream} (hb : b.Inv) (h56 : b.nBits ≤ 56) (hi : b.index < b.bytes.size) :
    b.loadOr.Inv ∧ b.loadOr.pos = b.pos := by
  have hle := hb.nBits_le
  have hpos : b.loadOr.pos = b.pos := by
    simp only [Bitstream.pos, Bitstream.loadOr]; omega
  have hn64 : b.nBits < 64 := by omega
  have hsh : b.nBits.toUInt64.toNat % 64 = b.nBits := by simp [Nat.toUInt64]; omega
  -- bit i of the new buffer
  have hbit : ∀ i, i < 64 →
      (b.bits ||| shl64 (b.bytes.getD b.index 0).toUInt64 b.nBits).toNat.testBit i =
        (b.bits.toNat.testBit i || (decide (b.nBits ≤ i) && (b.bytes.getD b.index 0).toNat.testBit (i - b.nBits))) := by
    intro i hi64
    simp only [shl64, hn64, if_true, UInt64.toNat_or, Nat.testBit_or, UInt64.toNat_shiftLeft, hsh,
      UInt8.toNat_toUInt64, Nat.testBit_mod_two_pow, Nat.testBit_shiftLeft, hi64, decide_true, Bool.true_and]
  -- the stream bit that byte bit j is
  have hstream : ∀ i, b.nBits ≤ i → i < b.nBits + 8 →
      streamBit b.bytes (b.pos + i) = (b.bytes.getD b.index 0).toNat.testBit (i - b.nBits) := by
    intro i h1 h2
    have : b.pos + i = 8 * b.index + (i - b.nBits) := by unfold Bitstream.pos; omega
    rw [this, streamBit_byte _ _ _ (by omega)]
  refine ⟨⟨⟨by simp only [Bitstream.loadOr]; omega, by simp only [Bitstream.loadOr]; omega⟩,
    by simp only [Bitstream.loadOr]; omega, ?_, ?_⟩, hpos⟩
  · intro i hi8
    rw [hpos]
    simp only [Bitstream.loadOr] at hi8 ⊢
    rw [hbit i (by omega)]
    by_cases hlow : i < b.nBits
    · rw [hb.low i hlow]
      have : ¬ (b.nBits ≤ i) := by omega
      simp [this]
    · have hge : b.nBits ≤ i := by omega
      rw [hstream i hge hi8]
      simp only [hge, decide_true, Bool.true_and]
      cases hx : b.bits.toNat.testBit i
      · exact Bool.false_or _
      · have := hb.high i hge (by omega) hx
        rw [hstream i hge hi8] at this
        rw [this]; rfl
  · intro i hi1 hi2 hset
    rw [hpos]
    simp only [Bitstream.loadOr] at hi1 hset ⊢
    rw [hbit i hi2] at hset
    have hge : b.nBits ≤ i := by omega
    simp only [hge, decide_true, Bool.true_and, Bool.or_eq_true] at hset
    rcases hset with hset | hset
    · exact hb.high i hge hi2 hset
    · rw [byte_testBit_ge _ _ (by omega)] at hset
      simp at hset

end WuffsVerif.Flate.Cut
