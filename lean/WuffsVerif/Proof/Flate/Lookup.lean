/-
C16: `lookup_eq_slow` — the 8-bit look-up table and the 64-bit refill fast path of
`huffman.decode` return exactly what `slowDecode` returns and consume the same bits.
Part 1: the cursor invariant and an abstract (bit-sequence) view of `slowDecode`.
-/
import WuffsVerif.Proof.Flate.Basic

namespace WuffsVerif.Flate.Cut
open WuffsVerif.Gen.C16

/-! ### the cursor invariant under the elementary moves -/

theorem testBit_toNat_lt (x : UInt64) (i : Nat) (h : 64 ≤ i) : x.toNat.testBit i = false := by
  apply Nat.testBit_lt_two_pow
  have := x.toNat_lt
  calc x.toNat < 2 ^ 64 := this
    _ ≤ 2 ^ i := Nat.pow_le_pow_right (by omega) h

theorem streamBit_byte (bytes : Bytes) (index j : Nat) (hj : j < 8) :
    streamBit bytes (8 * index + j) = (bytes.getD index 0).toNat.testBit j := by
  simp only [streamBit]
  have h1 : (8 * index + j) / 8 = index := by omega
  have h2 : (8 * index + j) % 8 = j := by omega
  rw [h1, h2]

theorem byte_testBit_ge (x : UInt8) (j : Nat) (h : 8 ≤ j) : x.toNat.testBit j = false := by
  apply Nat.testBit_lt_two_pow
  calc x.toNat < 2 ^ 8 := x.toNat_lt
    _ ≤ 2 ^ j := Nat.pow_le_pow_right (by omega) h

/-- Consuming `n ≤ nBits` bits. -/
theorem Inv.consume {b : Bitstream} (hb : b.Inv) (n : Nat) (hn : n ≤ b.nBits) :
    ({ b with bits := shr64 b.bits n, nBits := b.nBits - n } : Bitstream).Inv ∧
    ({ b with bits := shr64 b.bits n, nBits := b.nBits - n } : Bitstream).pos = b.pos + n := by
  have hlt := hb.nBits_lt
  have hle := hb.nBits_le
  have hpos : ({ b with bits := shr64 b.bits n, nBits := b.nBits - n } : Bitstream).pos = b.pos + n := by
    simp only [Bitstream.pos]; omega
  refine ⟨⟨⟨by simp only []; omega, hb.index_le⟩, by simp only []; omega, ?_, ?_⟩, hpos⟩
  · intro i hi
    rw [hpos]
    simp only [] at hi
    have hn64 : n < 64 := by omega
    simp only [shr64, hn64, if_true, UInt64.toNat_shiftRight, Nat.testBit_shiftRight]
    have : n.toUInt64.toNat % 64 = n := by simp [Nat.toUInt64]; omega
    rw [this, hb.low (n + i) (by omega)]
    congr 1; omega
  · intro i hi1 hi2 hbit
    rw [hpos]
    simp only [] at hi1
    have hn64 : n < 64 := by omega
    simp only [shr64, hn64, if_true, UInt64.toNat_shiftRight, Nat.testBit_shiftRight] at hbit
    have : n.toUInt64.toNat % 64 = n := by simp [Nat.toUInt64]; omega
    rw [this] at hbit
    by_cases h64 : n + i < 64
    · have := hb.high (n + i) (by omega) h64 hbit
      rw [← this]; congr 1; omega
    · rw [testBit_toNat_lt _ _ (by omega)] at hbit
      simp at hbit

/-- `slowDecode`'s refill: the buffer is empty, one byte is loaded by assignment. -/
theorem Inv.load_fresh {b : Bitstream} (_hb : b.Inv) (h0 : b.nBits = 0) (hi : b.index < b.bytes.size) :
    ({ b with bits := (b.bytes.getD b.index 0).toUInt64, nBits := 8, index := b.index + 1 } : Bitstream).Inv ∧
    ({ b with bits := (b.bytes.getD b.index 0).toUInt64, nBits := 8, index := b.index + 1 } : Bitstream).pos = b.pos := by
  have hpos : ({ b with bits := (b.bytes.getD b.index 0).toUInt64, nBits := 8, index := b.index + 1 } : Bitstream).pos
      = b.pos := by simp only [Bitstream.pos, h0]; omega
  have hp : b.pos = 8 * b.index := by simp only [Bitstream.pos, h0]; omega
  refine ⟨⟨⟨by simp only []; omega, by simp only []; omega⟩, by simp only []; omega, ?_, ?_⟩, hpos⟩
  · intro i hi8
    rw [hpos, hp]
    simp only [] at hi8 ⊢
    rw [streamBit_byte _ _ _ hi8]
    simp
  · intro i hi1 _ hbit
    simp only [] at hi1 hbit
    simp only [UInt8.toNat_toUInt64] at hbit
    rw [byte_testBit_ge _ _ hi1] at hbit
    simp at hbit

/-- `take`/`decode`'s refill: one byte is OR-ed in above the waiting bits. -/
def Bitstream.loadOr (b : Bitstream) : Bitstream :=
  { b with bits := b.bits ||| shl64 (b.bytes.getD b.index 0).toUInt64 b.nBits, nBits := b.nBits + 8, index := b.index + 1 }

theorem Inv.load_or {b : Bitstream} (hb : b.Inv) (h56 : b.nBits < 56) (hi : b.index < b.bytes.size) :
    b.loadOr.Inv ∧ b.loadOr.pos = b.pos := by
  have hle := hb.nBits_le
  have hpos : b.loadOr.pos = b.pos := by
    simp only [Bitstream.pos, Bitstream.loadOr]; omega
  have hn64 : b.nBits < 64 := by omega
  have hsh : b.nBits.toUInt64.toNat % 64 = b.nBits := by simp [Nat.toUInt64]; omega
  -- bit i of the new buffer
  have hbit : ∀ i, i < 64 →
      (b.bits ||| shl64 (b.bytes.getD b.index 0).toUInt64 b.nBits).toNat.testBit i =
        (b.bits.toNat.testBit i || (decide (b.nBits ≤ i) && (b.bytes.getD b.index 0).toNat.testBit (i - b.nBits))) := by
    intro i hi64
    simp only [shl64, hn64, if_true, UInt64.toNat_or, Nat.testBit_or, UInt64.toNat_shiftLeft, hsh,
      UInt8.toNat_toUInt64, Nat.testBit_mod_two_pow, Nat.testBit_shiftLeft, hi64, decide_true, Bool.true_and]
  -- the stream bit that byte bit j is
  have hstream : ∀ i, b.nBits ≤ i → i < b.nBits + 8 →
      streamBit b.bytes (b.pos + i) = (b.bytes.getD b.index 0).toNat.testBit (i - b.nBits) := by
    intro i h1 h2
    have : b.pos + i = 8 * b.index + (i - b.nBits) := by unfold Bitstream.pos; omega
    rw [this, streamBit_byte _ _ _ (by omega)]
  refine ⟨⟨⟨by simp only [Bitstream.loadOr]; omega, by simp only [Bitstream.loadOr]; omega⟩,
    by simp only [Bitstream.loadOr]; omega, ?_, ?_⟩, hpos⟩
  · intro i hi8
    rw [hpos]
    simp only [Bitstream.loadOr] at hi8 ⊢
    rw [hbit i (by omega)]
    by_cases hlow : i < b.nBits
    · rw [hb.low i hlow]
      have : ¬ (b.nBits ≤ i) := by omega
      simp [this]
    · have hge : b.nBits ≤ i := by omega
      rw [hstream i hge hi8]
      simp only [hge, decide_true, Bool.true_and]
      cases hx : b.bits.toNat.testBit i
      · exact Bool.false_or _
      · have := hb.high i hge (by omega) hx
        rw [hstream i hge hi8] at this
        rw [this]; rfl
  · intro i hi1 hi2 hset
    rw [hpos]
    simp only [Bitstream.loadOr] at hi1 hset ⊢
    rw [hbit i hi2] at hset
    have hge : b.nBits ≤ i := by omega
    simp only [hge, decide_true, Bool.true_and, Bool.or_eq_true] at hset
    rcases hset with hset | hset
    · exact hb.high i hge hi2 hset
    · rw [byte_testBit_ge _ _ (by omega)] at hset
      simp at hset

/-! ### `slowDecode` over an abstract bit sequence -/

inductive AbsRes where
  | sym (s : Int) (k : Nat)   -- a code ended after bit `k-1`; `symbols[…] = s`
  | fail                      -- ran out of bits, or no code of length ≤ 15: `mostNegativeInt32`
  | panic
deriving DecidableEq

/-- `slowDecodeLoop` reading bit number `k`, `k+1`, … of a sequence `bit` of which `avail` exist. -/
def absLoop (h : Huffman) (bit : Nat → Bool) (avail : Nat) : (rem i code first symIndex k : Nat) → AbsRes
  | 0, _, _, _, _, _ => .fail
  | rem + 1, i, code, first, symIndex, k =>
    if avail ≤ k then .fail
    else
      let code := code ||| (bit k).toNat
      let count := h.counts.getD i 0
      if code < count + first then
        match h.symbols[(symIndex + code + 4294967296 - first) % 4294967296]? with
        | some s => .sym s (k + 1)
        | none => .panic
      else
        absLoop h bit avail rem (i + 1) ((code <<< 1) % 4294967296) (((first + count) <<< 1) % 4294967296)
          (symIndex + count) (k + 1)

theorem and_one_toNat (x : UInt64) : (x &&& 1).toNat = (x.toNat.testBit 0).toNat := by
  simp only [UInt64.toNat_and, Nat.testBit_zero]
  have : (1 : UInt64).toNat = 1 := rfl
  rw [this, Nat.and_one_is_mod]
  rcases Nat.mod_two_eq_zero_or_one x.toNat with h | h <;> simp [h]

/-- What a concrete `slowDecodeLoop` result has to do with an abstract one. -/
def Refines (b : Bitstream) (P : Nat) (r : AbsRes) (c : Except Err (Int × Bitstream)) : Prop :=
  match r with
  | .sym s k' => ∃ b', c = .ok (s, b') ∧ b'.Inv ∧ b'.pos = P + k' ∧ b'.bytes = b.bytes
  | .fail => ∃ b', c = .ok (mostNegativeInt32, b')
  | .panic => c = .error .panic

theorem Refines.of_eq_bytes {b b2 : Bitstream} {P : Nat} {r : AbsRes} {c : Except Err (Int × Bitstream)}
    (h : Refines b2 P r c) (hb : b2.bytes = b.bytes) : Refines b P r c := by
  cases r with
  | sym s k' =>
    obtain ⟨b', e1, e2, e3, e4⟩ := h
    exact ⟨b', e1, e2, e3, e4.trans hb⟩
  | fail => exact h
  | panic => exact h

theorem slowDecodeLoop_refines (h : Huffman) (rem i code first symIndex k P : Nat) (b : Bitstream)
    (hb : b.Inv) (hP : b.pos = P + k) :
    Refines b P (absLoop h (fun j => streamBit b.bytes (P + j)) (8 * b.bytes.size - P) rem i code first symIndex k)
      (h.slowDecodeLoop rem i code first symIndex b) := by
  induction rem generalizing i code first symIndex k b with
  | zero => exact ⟨b, rfl⟩
  | succ rem ih =>
    have hle := hb.nBits_le
    have hil := hb.index_le
    have hpos : b.pos = 8 * b.index - b.nBits := rfl
    simp only [absLoop, Huffman.slowDecodeLoop]
    by_cases hout : b.nBits = 0 ∧ b.index ≥ b.bytes.size
    · have : 8 * b.bytes.size - P ≤ k := by omega
      simp only [hout, and_self, if_true, this]
      exact ⟨b, rfl⟩
    · have hav : ¬ (8 * b.bytes.size - P ≤ k) := by omega
      simp only [hout, hav, if_false]
      -- the refilled cursor
      generalize hb1 : (if b.nBits = 0 then
          ({ b with bits := (b.bytes.getD b.index 0).toUInt64, nBits := 8, index := b.index + 1 } : Bitstream)
        else b) = b1
      have h1 : b1.Inv ∧ b1.pos = b.pos ∧ 1 ≤ b1.nBits ∧ b1.bytes = b.bytes := by
        rw [← hb1]
        split
        · rename_i h0
          have := Inv.load_fresh hb h0 (by omega)
          exact ⟨this.1, this.2, by simp, rfl⟩
        · exact ⟨hb, rfl, by omega, rfl⟩
      obtain ⟨hi1, hp1, hn1, hby1⟩ := h1
      have hbit : (b1.bits &&& 1).toNat = (streamBit b.bytes (P + k)).toNat := by
        rw [and_one_toNat, hi1.low 0 (by omega), hp1, hP, hby1]
        simp
      have hc := Inv.consume hi1 1 hn1
      have hshr : shr64 b1.bits 1 = b1.bits >>> 1 := by simp [shr64]
      rw [hshr] at hc
      simp only [hbit]
      by_cases hcode : code ||| (streamBit b.bytes (P + k)).toNat < h.counts.getD i 0 + first
      · -- a code ends here
        simp only [hcode, if_true]
        cases hsym : h.symbols[(symIndex + (code ||| (streamBit b.bytes (P + k)).toNat) + 4294967296 - first) % 4294967296]? with
        | none => rfl
        | some s =>
          refine ⟨_, rfl, hc.1, ?_, ?_⟩
          · rw [hc.2, hp1, hP]; omega
          · exact hby1
      · simp only [hcode, if_false]
        generalize hb2 : ({ b1 with bits := b1.bits >>> 1, nBits := b1.nBits - 1 } : Bitstream) = b2 at hc ⊢
        have e0 : b2.bytes = b.bytes := by rw [← hb2]; exact hby1
        have := ih (i + 1) ((code ||| (streamBit b.bytes (P + k)).toNat) <<< 1 % 4294967296)
          ((first + h.counts.getD i 0) <<< 1 % 4294967296) (symIndex + h.counts.getD i 0) (k + 1)
          b2 hc.1 (by rw [hc.2, hp1, hP]; omega)
        rw [e0] at this
        exact Refines.of_eq_bytes this e0

end WuffsVerif.Flate.Cut
