/-
C16: length bounds of the flatecut model, for ARBITRARY input bytes and limits.
Everything here follows from the explicit budget checks of the code (no Huffman
correctness is needed): on success `encodedLen ≤ maxEncodedLen ≤ len(encoded)`.
-/
import WuffsVerif.Proof.Flate.Basic

namespace WuffsVerif.Flate.Cut
open WuffsVerif.Gen.C16

/-! ### `bytes` is never modified by the readers -/

theorem fill_bytes (n fuel : Nat) (b : Bitstream) : (Bitstream.fill n fuel b).2.bytes = b.bytes := by
  induction fuel generalizing b with
  | zero => simp [Bitstream.fill]
  | succ f ih =>
    simp only [Bitstream.fill]
    split
    · split
      · rfl
      · rw [ih]
    · rfl

theorem take_bytes (b : Bitstream) (n : Nat) : (b.take n).2.bytes = b.bytes := by
  unfold Bitstream.take
  have h := fill_bytes n (n + 1) b
  split <;> simp_all

theorem slowDecodeLoop_bytes (h : Huffman) (rem i code first symIndex : Nat) (b : Bitstream) (s : Int) (b' : Bitstream)
    (hd : h.slowDecodeLoop rem i code first symIndex b = .ok (s, b')) : b'.bytes = b.bytes := by
  induction rem generalizing i code first symIndex b with
  | zero => simp [Huffman.slowDecodeLoop] at hd; simp [hd.2.symm]
  | succ r ih =>
    simp only [Huffman.slowDecodeLoop] at hd
    repeat' split at hd
    all_goals first
      | (simp at hd; done)
      | (simp at hd; simp [← hd.2]; done)
      | (have := ih _ _ _ _ _ hd; simpa using this)

theorem slowDecode_bytes (h : Huffman) (b : Bitstream) (s : Int) (b' : Bitstream)
    (hd : h.slowDecode b = .ok (s, b')) : b'.bytes = b.bytes :=
  slowDecodeLoop_bytes h _ _ _ _ _ b s b' hd

theorem decodeLookup_bytes (h : Huffman) (b : Bitstream) (s : Int) (b' : Bitstream)
    (hd : h.decodeLookup b = .ok (s, b')) : b'.bytes = b.bytes := by
  simp only [Huffman.decodeLookup] at hd
  split at hd
  · simp at hd; simp [← hd.2]
  · exact slowDecode_bytes h b s b' hd

theorem decode_bytes (h : Huffman) (b : Bitstream) (s : Int) (b' : Bitstream)
    (hd : h.decode b = .ok (s, b')) : b'.bytes = b.bytes := by
  simp only [Huffman.decode] at hd
  repeat' split at hd
  all_goals first
    | exact slowDecode_bytes h b s b' hd
    | (have := decodeLookup_bytes h _ s b' hd; simpa using this)

/-! ### cursor effect of `take 1` -/

theorem take_one (b : Bitstream) (hn : b.nBits < 8) (hr : 0 ≤ (b.take 1).1) :
    (b.nBits = 0 → (b.take 1).2.index = b.index + 1 ∧ (b.take 1).2.nBits = 7) ∧
    (b.nBits ≠ 0 → (b.take 1).2.index = b.index ∧ (b.take 1).2.nBits = b.nBits - 1) := by
  simp only [Bitstream.take, Bitstream.fill] at hr ⊢
  by_cases h0 : b.nBits = 0
  · by_cases hi : b.index ≥ b.bytes.size
    · simp [h0, hi, mostNegativeInt32] at hr
    · simp [h0, hi]
  · have : ¬ b.nBits < 1 := by omega
    simp [h0, this]

/-- Index of the first byte that is not (even partly) consumed: the `index` after Go's
`for nBits >= 8 { index--; nBits -= 8 }`. -/
def Bitstream.endIdx (b : Bitstream) : Nat := b.index - b.nBits / 8

theorem unread_index (b : Bitstream) : b.unread.index = b.endIdx := rfl
theorem unread_nBits_lt (b : Bitstream) : b.unread.nBits < 8 := by
  simp only [Bitstream.unread]; omega
theorem unread_bytes (b : Bitstream) : b.unread.bytes = b.bytes := rfl

/-! ### `doStored` -/

theorem doStored_spec (c : Cutter) :
    (c.doStored).1.maxEncodedLen = c.maxEncodedLen ∧
    (c.doStored).1.bits.bytes.size = c.bits.bytes.size ∧
    ((c.doStored).2 = none ∨ (c.doStored).2 = some .someProgress →
      (c.doStored).1.bits.endIdx ≤ c.maxEncodedLen) := by
  simp only [Cutter.doStored]
  repeat' split
  all_goals simp_all [Bitstream.endIdx, Bitstream.unread]
  all_goals omega

/-! ### `writeEndCode` advances the cursor by exactly `endCodeNBits` bits -/

theorem writeEndCodeLoop_spec (ecb : Nat) (j : Nat) (b b' : Bitstream)
    (h : Cutter.writeEndCodeLoop ecb j b = .ok b') (hn : b.nBits ≤ 8) :
    b'.bytes.size = b.bytes.size ∧ b'.nBits ≤ 8 ∧
    8 * b'.index + 8 - b'.nBits = 8 * b.index + 8 - b.nBits + j := by
  induction j generalizing b with
  | zero => simp [Cutter.writeEndCodeLoop] at h; subst h; simp <;> omega
  | succ j ih =>
    simp only [Cutter.writeEndCodeLoop] at h
    repeat' split at h
    all_goals first
      | (simp at h; done)
      | skip
    all_goals
      have := ih _ h (by simp <;> omega)
      simp at this
      refine ⟨by omega, by omega, by omega⟩

theorem writeEndCodeLoop_inv (ecb : Nat) (j : Nat) (b b' : Bitstream)
    (h : Cutter.writeEndCodeLoop ecb j b = .ok b') (hp : 1 ≤ b.index ∧ b.nBits ≤ 7) :
    1 ≤ b'.index ∧ b'.nBits ≤ 7 := by
  induction j generalizing b with
  | zero => simp [Cutter.writeEndCodeLoop] at h; subst h; exact hp
  | succ j ih =>
    simp only [Cutter.writeEndCodeLoop] at h
    repeat' split at h
    all_goals first
      | (simp at h; done)
      | skip
    all_goals
      apply ih _ h
      simp <;> omega

theorem writeEndCodeLoop_pos (ecb : Nat) (j : Nat) (b b' : Bitstream)
    (h : Cutter.writeEndCodeLoop ecb j b = .ok b') (hj : 1 ≤ j) (hn : b.nBits ≤ 8) :
    1 ≤ b'.index ∧ b'.nBits ≤ 7 := by
  obtain ⟨j, rfl⟩ : ∃ k, j = k + 1 := ⟨j - 1, by omega⟩
  simp only [Cutter.writeEndCodeLoop] at h
  repeat' split at h
  all_goals first
    | (simp at h; done)
    | skip
  all_goals
    apply writeEndCodeLoop_inv _ _ _ _ h
    simp <;> omega

/-! ### the symbol loop of `doHuffman` -/

theorem huffStep_spec (c : Cutter) (sym dl : Int) :
    (c.huffStep sym dl).1.maxEncodedLen = c.maxEncodedLen ∧
    (c.huffStep sym dl).1.endCodeNBits = c.endCodeNBits ∧
    (c.huffStep sym dl).1.endCodeBits = c.endCodeBits ∧
    (c.huffStep sym dl).1.bits.bytes = c.bits.bytes ∧
    ((c.huffStep sym dl).2.2 = some none →
      8 * (c.huffStep sym dl).1.bits.index - (c.huffStep sym dl).1.bits.nBits ≤ 8 * c.maxEncodedLen) := by
  simp only [Cutter.huffStep]
  repeat' split
  all_goals simp_all [take_bytes]
  all_goals first
    | omega
    | (have := decode_bytes _ _ _ _ (by assumption); simp_all [take_bytes])

/-- A recorded checkpoint leaves room for the end-of-block code. -/
def CPok (c : Cutter) (cp : Option (Nat × Nat)) : Prop :=
  ∀ i n, cp = some (i, n) → 8 * i - n + c.endCodeNBits ≤ 8 * c.maxEncodedLen

theorem huffLoop_spec (fuel : Nat) (c : Cutter) (cp : Option (Nat × Nat)) (dl : Int) (hcp : CPok c cp) :
    (Cutter.huffLoop fuel c cp dl).1.maxEncodedLen = c.maxEncodedLen ∧
    (Cutter.huffLoop fuel c cp dl).1.endCodeNBits = c.endCodeNBits ∧
    (Cutter.huffLoop fuel c cp dl).1.endCodeBits = c.endCodeBits ∧
    (Cutter.huffLoop fuel c cp dl).1.bits.bytes = c.bits.bytes ∧
    CPok c (Cutter.huffLoop fuel c cp dl).2.1 ∧
    ((Cutter.huffLoop fuel c cp dl).2.2 = some none →
      8 * (Cutter.huffLoop fuel c cp dl).1.bits.index - (Cutter.huffLoop fuel c cp dl).1.bits.nBits
        ≤ 8 * c.maxEncodedLen) := by
  induction fuel generalizing c cp dl with
  | zero => simp [Cutter.huffLoop, hcp]
  | succ f ih =>
    simp only [Cutter.huffLoop]
    split
    · simp [hcp]
    · rename_i lSymbol bits hd
      have hb := decode_bytes _ _ _ _ hd
      split
      · simp [hcp, hb]
      · have hs := huffStep_spec { c with bits := bits } lSymbol dl
        split
        · rename_i c1 x r heq
          rw [heq] at hs
          simp at hs
          simp [hcp, hs, hb]
          intro h; exact hs.2.2.2.2 h
        · rename_i c1 dl1 heq
          rw [heq] at hs
          simp at hs
          split
          · simp [hcp, hs, hb]
          · split
            · simp [hcp, hs, hb]
            · rename_i hbud
              have hcp' : CPok { c1 with decodedLen := dl1 } (some (c1.bits.index, c1.bits.nBits)) := by
                intro i n hin
                simp at hin
                simp [← hin.1, ← hin.2, hs]
                omega
              obtain ⟨t1, t2, t3, t4, t5, t6⟩ :=
                ih { c1 with decodedLen := dl1 } (some (c1.bits.index, c1.bits.nBits)) dl1 hcp'
              simp only [] at t1 t2 t3 t4 t5 t6
              refine ⟨t1.trans hs.1, t2.trans hs.2.1, t3.trans hs.2.2.1, (t4.trans hs.2.2.2).trans hb, ?_, ?_⟩
              · intro i n hin
                have := t5 i n hin
                simpa [hs] using this
              · intro h
                have := t6 h
                simpa [hs] using this

/-! ### which errors the callees can produce (never `errInternalSomeProgress`) -/

theorem slowDecodeLoop_err (h : Huffman) (rem i code first symIndex : Nat) (b : Bitstream) (e : Err)
    (hd : h.slowDecodeLoop rem i code first symIndex b = .error e) : e = .panic := by
  induction rem generalizing i code first symIndex b with
  | zero => simp [Huffman.slowDecodeLoop] at hd
  | succ r ih =>
    simp only [Huffman.slowDecodeLoop] at hd
    repeat' split at hd
    all_goals first
      | (simp at hd; done)
      | (simp at hd; exact hd.symm)
      | exact ih _ _ _ _ _ hd

theorem decode_err (h : Huffman) (b : Bitstream) (e : Err) (hd : h.decode b = .error e) : e = .panic := by
  simp only [Huffman.decode, Huffman.decodeLookup, Huffman.slowDecode] at hd
  repeat' split at hd
  all_goals first
    | (simp at hd; done)
    | exact slowDecodeLoop_err _ _ _ _ _ _ _ _ hd

theorem constructLookUpTable_go_err (h : Huffman) (rem i : Nat) (t : Array Nat) (e : Err)
    (hd : Huffman.constructLookUpTable.go h rem i t = .error e) : e = .panic := by
  induction rem generalizing i t with
  | zero => simp [Huffman.constructLookUpTable.go] at hd
  | succ r ih =>
    simp only [Huffman.constructLookUpTable.go] at hd
    split at hd
    · rename_i e' he
      simp at hd
      subst hd
      exact slowDecodeLoop_err _ _ _ _ _ _ _ _ he
    · exact ih _ _ hd

theorem constructSymbols_err (lengths : Array Nat) (rem symbol : Nat) (offs : Array Nat) (syms : Array Int) (e : Err)
    (hd : constructSymbols lengths rem symbol offs syms = .error e) : e = .panic := by
  induction rem generalizing symbol offs syms with
  | zero => simp [constructSymbols] at hd
  | succ r ih =>
    simp only [constructSymbols] at hd
    repeat' split at hd
    all_goals first
      | (simp at hd; exact hd.symm)
      | exact ih _ _ _ hd

theorem constructLookUpTable_err (h : Huffman) (e : Err)
    (hd : h.constructLookUpTable = .error e) : e = .panic := by
  simp only [Huffman.constructLookUpTable] at hd
  split at hd
  · simp at hd; subst hd; exact constructLookUpTable_go_err _ _ _ _ _ (by assumption)
  · simp at hd

theorem construct_err (h : Huffman) (lengths : Array Nat) (e : Err)
    (hd : h.construct lengths = .error e) : e = .panic ∨ e = .badHuffmanTree := by
  simp only [Huffman.construct] at hd
  repeat' split at hd
  all_goals first
    | (simp at hd; done)
    | (simp at hd; subst hd; simp; done)
    | (simp at hd; subst hd; left; exact constructSymbols_err _ _ _ _ _ _ (by assumption))
    | (simp at hd; subst hd; left; exact constructLookUpTable_err _ _ (by assumption))

theorem huffStep_err (c : Cutter) (sym dl : Int) (e : Err)
    (h : (c.huffStep sym dl).2.2 = some (some e)) : e ≠ .someProgress := by
  simp only [Cutter.huffStep] at h
  repeat' split at h
  all_goals first
    | (simp at h; done)
    | (simp at h; subst h; simp; done)
    | (simp at h; subst h; have := decode_err _ _ _ (by assumption); simp [this])
    | (simp at h; subst h; split <;> simp)

theorem huffLoop_err (fuel : Nat) (c : Cutter) (cp : Option (Nat × Nat)) (dl : Int) (e : Err)
    (h : (Cutter.huffLoop fuel c cp dl).2.2 = some (some e)) : e ≠ .someProgress := by
  induction fuel generalizing c cp dl with
  | zero => simp [Cutter.huffLoop] at h; subst h; simp
  | succ f ih =>
    simp only [Cutter.huffLoop] at h
    split at h
    · rename_i e' he
      simp at h; subst h
      have := decode_err _ _ _ he; simp [this]
    · split at h
      · simp at h; subst h; simp
      · split at h
        · rename_i c1 x r heq
          simp at h
          subst h
          exact huffStep_err _ _ _ _ (by rw [heq])
        · repeat' split at h
          all_goals first
            | (simp at h; done)
            | exact ih _ _ _ h

end WuffsVerif.Flate.Cut
