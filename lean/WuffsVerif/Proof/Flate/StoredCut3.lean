/-
C16: cut_prefix for streams of stored blocks, part 3 — the single-block fallback and the walk.
-/
import WuffsVerif.Proof.Flate.StoredCut2

namespace WuffsVerif.Flate.Cut
open WuffsVerif.Gen.C16 WuffsVerif.Flate.Spec

/-- `cutSingleBlock` on a stream of stored blocks. -/
theorem good_single (s : Bytes) (ds : List Bytes) (dl : Bytes) (m : Nat) (enc : Bytes) (e dLen : Nat)
    (hr : Run s 0 ds) (hl : BlkAt s (endOf 0 ds) dl true) (hm : m ≤ s.size)
    (h : cutSingleBlock s m = .ok (enc, e, dLen)) :
    Good (flat ds ++ dl) enc e dLen := by
  simp only [cutSingleBlock] at h
  split at h
  · simp at h
  · rename_i hm2
    simp only [smallestValidMaxEncodedLen] at hm2
    split at h
    · simp at h
    · -- re-encoded as one stored block
      rename_i r hst
      simp at h
      subst h
      simp only [cutSingleBlockStored] at hst
      split at hst
      · rename_i hm5
        have hwant := singleStoredLen_le m
        have hwant16 : singleStoredLen m ≤ 65535 := by simp only [singleStoredLen]; split <;> omega
        generalize singleStoredLen m = want at hst hwant hwant16
        have hlen : ds.length < 8 * s.size + 1 := by
          have := endOf_ge 0 ds; have := hl.fits; omega
        obtain ⟨o, rest, h1, h2, h3⟩ := blocks_run_cap s want 0 (8 * s.size + 1) 0 #[] ds dl hr hl hlen
        rw [inflateRaw_nodict] at hst
        simp only [Nat.mul_zero] at h1 h3
        generalize blocks s (some want) 0 (8 * s.size + 1) 0 #[] = R at hst h1 h3
        simp only [Array.extract_eq_self_of_le (Nat.le_refl _)] at hst
        have ho : R.out = o := by rw [h1]; simp
        rw [ho] at hst
        have hn : (if o.size < want then o.size else want) ≤ o.size ∧
            (if o.size < want then o.size else want) ≤ want := by split <;> omega
        generalize (if o.size < want then o.size else want) = n at hst hn
        repeat' split at hst
        all_goals first
          | (simp at hst; done)
          | skip
        rename_i hn0 hs5
        simp at hst
        obtain ⟨rfl, rfl, rfl⟩ := hst
        have hA : (o.extract 0 n).size = n := by simp [Array.size_extract]; omega
        have hk : (if s.size - 5 < n then s.size - 5 else n) = n := by split <;> omega
        have henc : (writeStored s o n).extract 0 (n + 5) = storedHeader n ++ o.extract 0 n := by
          simp only [writeStored, hk]
          have : n + 5 = (storedHeader n ++ o.extract 0 n).size := by
            simp [Array.size_append, hA, storedHeader_size]; omega
          rw [this, extract_prefix_append]
        refine ⟨?_, by rw [h2]; simp [Array.size_append]; omega⟩
        rw [henc, h2, extract_prefix_of_append _ _ _ hn.1]
        have hb := blkAt_header (o.extract 0 n) n hA (by omega)
        have := inflate_stored _ [] (o.extract 0 n) trivial (by simpa [endOf] using hb)
        simp only [flat, endOf, hA] at this
        rw [this]
        simp
        omega
      · simp at hst
    · -- nothing fits: `03 00`
      repeat' split at h
      all_goals first
        | (simp at h; done)
        | skip
      rename_i e1 h1 _ e2 h2
      simp at h
      obtain ⟨rfl, rfl, rfl⟩ := h
      simp only [setB] at h1 h2
      split at h1 <;> simp at h1
      split at h2 <;> simp at h2
      subst h1
      subst h2
      rename_i hs0 hs1
      simp at hs1
      have henc : ((s.setIfInBounds 0 3).setIfInBounds 1 0).extract 0 2 = #[3, 0] := by
        apply Array.ext
        · simp [Array.size_extract]; omega
        · intro i hi1 hi2
          simp at hi2
          have : i = 0 ∨ i = 1 := by omega
          rcases this with rfl | rfl
          · simp only [Array.getElem_extract, Nat.zero_add]
            rw [Array.getElem_setIfInBounds_ne (by simp; omega) (by omega)]
            simp
          · simp [Array.getElem_extract]
      refine ⟨?_, Nat.zero_le _⟩
      rw [henc, inflate_0300]
      simp

/-! ### the walk -/

/-- `prev` (`prevFinalBlockIndex/NBits`) as `cut` maintains it after the completed blocks `pre`. -/
def PrevOK (pre : List Bytes) (prev : Option (Nat × Nat)) : Prop :=
  (pre = [] ∧ prev = none) ∨ ∃ pre0 dlast, pre = pre0 ++ [dlast] ∧ prev = some (endOf 0 pre0 + 1, 7)

theorem flat_snoc (pre : List Bytes) (d : Bytes) : flat (pre ++ [d]) = flat pre ++ d := by
  rw [flat_append]; simp [flat]

theorem endOf_snoc (pre : List Bytes) (d : Bytes) : endOf 0 (pre ++ [d]) = endOf 0 pre + 5 + d.size := by
  rw [endOf_append]; simp [endOf]

theorem Run.snoc {s : Bytes} {pre : List Bytes} {d : Bytes} (h1 : Run s 0 pre) (h2 : BlkAt s (endOf 0 pre) d false) :
    Run s 0 (pre ++ [d]) := Run.append h1 ⟨h2, trivial⟩

theorem Run.split {s : Bytes} {q : Nat} {a b : List Bytes} (h : Run s q (a ++ b)) :
    Run s q a ∧ Run s (endOf q a) b := by
  induction a generalizing q with
  | nil => exact ⟨trivial, by simpa [endOf] using h⟩
  | cons d a ih =>
    obtain ⟨h1, h2⟩ := h
    have := ih h2
    exact ⟨⟨h1, this.1⟩, by simpa [endOf] using this.2⟩

/-- The block at `q = endOf 0 pre` does not fit entirely: all three ways out are good. -/
theorem stored_terminal (s : Bytes) (m : Nat) (pre : List Bytes) (d tail : Bytes) (fin : Bool)
    (prev : Option (Nat × Nat)) (D : Int) (enc : Bytes) (e dLen : Nat)
    (hpre : Run s 0 pre) (hb : BlkAt s (endOf 0 pre) d fin)
    (hnf : ¬ (endOf 0 pre + 5 + d.size ≤ m))
    (hD : D = ((flat pre).size : Int))
    (hall : ∃ allds alldl, Run s 0 allds ∧ BlkAt s (endOf 0 allds) alldl true ∧
      flat allds ++ alldl = flat pre ++ d ++ tail)
    (hm : m ≤ s.size)
    (hres : (if endOf 0 pre + 5 < m then
        match patchFinalBit (rewriteHdr s (endOf 0 pre) (m - (endOf 0 pre + 5))) (endOf 0 pre + 1) 7 with
        | .error e => .error e
        | .ok b => .ok (b, m, (D + ((m - (endOf 0 pre + 5) : Nat) : Int)).toNat)
      else
        match prev with
        | none => cutSingleBlock s m
        | some (pi, pn) =>
          match patchFinalBit s pi pn with
          | .error e => .error e
          | .ok b => .ok (b, endOf 0 pre, D.toNat)) = (.ok (enc, e, dLen) : Except Err (Bytes × Nat × Nat)))
    (hprev : PrevOK pre prev) :
    Good (flat pre ++ d ++ tail) enc e dLen ∧ (m = s.size → dLen = (flat pre ++ d ++ tail).size) := by
  have hfits := hb.fits
  refine ⟨?_, fun h => by omega⟩
  split at hres
  · -- someProgress
    rename_i hlt
    split at hres
    · simp at hres
    · rename_i b hp
      simp at hres
      obtain ⟨rfl, rfl, rfl⟩ := hres
      have := good_shorten s pre d tail b fin (m - (endOf 0 pre + 5)) hpre hb (by omega) (by omega) hp
      have e1 : endOf 0 pre + 5 + (m - (endOf 0 pre + 5)) = m := by omega
      have e2 : (D + ((m - (endOf 0 pre + 5) : Nat) : Int)).toNat = (flat pre).size + (m - (endOf 0 pre + 5)) := by
        rw [hD]; omega
      rw [e1] at this
      rw [e2]
      exact this
  · rcases hprev with ⟨hp0, rfl⟩ | ⟨pre0, dlast, hp0, rfl⟩
    · -- first block: cutSingleBlock
      simp only [] at hres
      obtain ⟨allds, alldl, ha1, ha2, ha3⟩ := hall
      have := good_single s allds alldl m enc e dLen ha1 ha2 hm hres
      rw [ha3] at this
      exact this
    · -- patch the previous block
      simp only [] at hres
      split at hres
      · simp at hres
      · rename_i b hp
        simp at hres
        obtain ⟨rfl, rfl, rfl⟩ := hres
        subst hp0
        obtain ⟨hr0, hr1⟩ := Run.split hpre
        have hb0 : BlkAt s (endOf 0 pre0) dlast false := hr1.1
        have := good_patch_prev s pre0 dlast (d ++ tail) b hr0 hb0 hp
        rw [endOf_snoc, flat_snoc]
        have e2 : D.toNat = (flat pre0 ++ dlast).size := by rw [hD, flat_snoc]; omega
        rw [e2]
        simpa [Array.append_assoc] using this

/-- `cut`'s block loop over a stream of stored blocks: every successful outcome is good. -/
theorem cutLoop_stored (s : Bytes) (m : Nat) (hm : m ≤ s.size) (ds : List Bytes) :
    ∀ (pre : List Bytes) (dl : Bytes) (fuel : Nat) (c : Cutter) (prev : Option (Nat × Nat))
      (enc : Bytes) (e dLen : Nat),
    Run s 0 pre → Run s (endOf 0 pre) ds → BlkAt s (endOf (endOf 0 pre) ds) dl true →
    c.bits = ⟨s, endOf 0 pre, 0, 0⟩ → c.maxEncodedLen = m → c.decodedLen = ((flat pre).size : Int) →
    PrevOK pre prev → (flat pre ++ flat ds ++ dl).size < 2147483648 → ds.length < fuel →
    Cutter.cutLoop fuel c prev = .ok (enc, e, dLen) →
    Good (flat pre ++ flat ds ++ dl) enc e dLen ∧ (m = s.size → dLen = (flat pre ++ flat ds ++ dl).size) := by
  induction ds with
  | nil =>
    intro pre dl fuel c prev enc e dLen hpre _ hdl hc hcm hcd hprev hT hfuel hres
    obtain ⟨f, rfl⟩ : ∃ f, fuel = f + 1 := ⟨fuel - 1, by simp at hfuel; omega⟩
    simp only [endOf] at hdl
    simp only [flat, Array.append_empty] at hT ⊢
    have hD : 0 ≤ c.decodedLen ∧ c.decodedLen + dl.size < 2147483648 := by
      rw [hcd]; simp [Array.size_append] at hT; omega
    rw [cutLoop_stored_step f c prev s (endOf 0 pre) dl true hc hdl hD, hcm] at hres
    split at hres
    · -- the whole stream
      simp at hres
      obtain ⟨rfl, rfl, rfl⟩ := hres
      have := good_whole s pre dl hpre hdl
      have e1 : (c.decodedLen + (dl.size : Int)).toNat = (flat pre ++ dl).size := by
        rw [hcd]; simp [Array.size_append]; omega
      rw [e1]
      exact ⟨this, fun _ => rfl⟩
    · rename_i hnf
      have := stored_terminal s m pre dl #[] true prev c.decodedLen enc e dLen hpre hdl hnf hcd
        ⟨pre, dl, hpre, hdl, by simp⟩ hm hres hprev
      simpa using this
  | cons d ds ih =>
    intro pre dl fuel c prev enc e dLen hpre hds hdl hc hcm hcd hprev hT hfuel hres
    obtain ⟨f, rfl⟩ : ∃ f, fuel = f + 1 := ⟨fuel - 1, by simp at hfuel; omega⟩
    obtain ⟨hb, hds'⟩ := hds
    simp only [endOf] at hdl
    have hTe : flat pre ++ flat (d :: ds) ++ dl = flat pre ++ d ++ (flat ds ++ dl) := by
      simp [flat, Array.append_assoc]
    rw [hTe] at hT ⊢
    have hD : 0 ≤ c.decodedLen ∧ c.decodedLen + d.size < 2147483648 := by
      rw [hcd]; simp [Array.size_append] at hT; omega
    rw [cutLoop_stored_step f c prev s (endOf 0 pre) d false hc hb hD] at hres
    split at hres
    · -- the block fits: go on with the next one
      simp only [Bool.false_eq_true, if_false] at hres
      have hr' : Run s 0 (pre ++ [d]) := Run.snoc hpre hb
      have := ih (pre ++ [d]) dl f
        { c with bits := ⟨s, endOf 0 pre + 5 + d.size, 0, 0⟩, decodedLen := c.decodedLen + d.size }
        (some (endOf 0 pre + 1, 7)) enc e dLen hr'
        (by rw [endOf_snoc]; exact hds') (by rw [endOf_snoc]; exact hdl)
        (by rw [endOf_snoc]) hcm
        (by simp only [flat_snoc, Array.size_append, hcd]; omega)
        (Or.inr ⟨pre, d, rfl, rfl⟩)
        (by rw [flat_snoc]; simpa [Array.append_assoc] using hT)
        (by simp at hfuel; omega) hres
      rw [flat_snoc] at this
      simpa [Array.append_assoc] using this
    · rename_i hnf
      rw [hcm] at hres hnf
      have hall : ∃ allds alldl, Run s 0 allds ∧ BlkAt s (endOf 0 allds) alldl true ∧
          flat allds ++ alldl = flat pre ++ d ++ (flat ds ++ dl) := by
        refine ⟨pre ++ d :: ds, dl, Run.append hpre ⟨hb, hds'⟩, ?_, ?_⟩
        · rw [endOf_append]; simpa [endOf] using hdl
        · rw [flat_append]; simp [flat, Array.append_assoc]
      exact stored_terminal s m pre d (flat ds ++ dl) false prev c.decodedLen enc e dLen hpre hb hnf hcd
        hall hm hres hprev

theorem inflate_some_out (x o : Bytes) (n : Nat) (h : Spec.inflate x = some (o, n)) :
    (Spec.inflateRaw #[] x none).out = o ∧ (Spec.inflateRaw #[] x none).status = .done := by
  simp only [Spec.inflate, Spec.inflateDict] at h
  split at h
  · simp at h; exact ⟨h.1, by assumption⟩
  · simp at h

theorem clampLimit_full (limit : Int) (size : Nat) (h1 : (size : Int) ≤ limit) (h2 : size ≤ 2 ^ 30) :
    clampLimit limit size = size := by
  simp only [clampLimit]
  split <;> split <;> omega

/-- **THE property for streams of stored blocks** (`flatecut.Cut`, with or without a writer). -/
theorem Cut_stored (w : Bool) (s : Bytes) (ds : List Bytes) (dl : Bytes) (limit : Int) (r : CutResult)
    (hr : Run s 0 ds) (hl : BlkAt s (endOf 0 ds) dl true)
    (hT : (flat ds ++ dl).size < 2147483648)
    (h : Cut w s limit = .ok r) :
    Spec.inflate (r.encoded.extract 0 r.encodedLen) =
        some ((flat ds ++ dl).extract 0 r.decodedLen, r.encodedLen) ∧
    r.decodedLen ≤ (flat ds ++ dl).size ∧
    ((s.size : Int) ≤ limit → s.size ≤ 2 ^ 30 → r.decodedLen = (flat ds ++ dl).size) ∧
    (w = true → r.written = (flat ds ++ dl).extract 0 r.decodedLen) := by
  rw [Cut_eq] at h
  split at h
  · simp at h
  · rename_i hlim
    simp only [smallestValidMaxEncodedLen] at hlim
    have hcl := clampLimit_le limit s.size (by omega)
    have hfull := clampLimit_full limit s.size
    generalize clampLimit limit s.size = m at h hcl hfull
    split at h
    · simp at h
    · split at h
      · simp at h
      · rename_i enc eLen dLen hc
        have hlen : ds.length < 8 * s.size + 2 := by
          have := endOf_ge 0 ds; have := hl.fits; omega
        have hg := cutLoop_stored s m hcl.1 ds [] dl (8 * s.size + 2) _ none enc eLen dLen
          trivial (by simpa [endOf] using hr) (by simpa [endOf] using hl) rfl rfl (by simp [flat])
          (Or.inl ⟨rfl, rfl⟩) (by simpa [flat] using hT) hlen hc
        simp only [flat, Array.empty_append] at hg
        obtain ⟨⟨hg1, hg2⟩, hg3⟩ := hg
        have hio := inflate_some_out _ _ _ hg1
        split at h
        · -- with a writer: Cut re-decodes encoded[:encodedLen]
          rename_i hw
          simp only [hio.1, hio.2] at h
          split at h <;> simp at h
          subst h
          exact ⟨hg1, hg2, fun a b => hg3 (hfull a b), fun _ => by simp [Array.extract_append]⟩
        · rename_i hw
          simp at h
          subst h
          exact ⟨hg1, hg2, fun a b => hg3 (hfull a b), fun hw' => absurd hw' hw⟩

end WuffsVerif.Flate.Cut
