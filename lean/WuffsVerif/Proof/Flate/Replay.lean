/-
C16: replaying a run of tokens of a Huffman block on a modified buffer (the surgery lemma of
`doHuffman`: bits before the checkpoint are kept, an end-of-block code is written at the checkpoint).
-/
import WuffsVerif.Proof.Flate.Walk2
import WuffsVerif.Proof.Flate.SpecLocal

namespace WuffsVerif.Flate.Cut
open WuffsVerif.Gen.C16 WuffsVerif.Flate.Spec

/-- A good token moves forward and ends inside the buffer. -/
theorem huffTok_bounds (hl hd : Huff) (minL minD : Nat) (s : Bytes) (p sz : Nat)
    (hgood : (huffTok hl hd minL minD s p sz).good) :
    p < (huffTok hl hd minL minD s p sz).endPos ∧ (huffTok hl hd minL minD s p sz).endPos ≤ 8 * s.size := by
  simp only [huffTok] at hgood ⊢
  cases h1 : decodeSym hl s p minL with
  | truncated => rw [h1] at hgood; exact hgood.elim
  | corrupt => rw [h1] at hgood; exact hgood.elim
  | sym v p1 =>
    rw [h1] at hgood
    obtain ⟨b1, b2⟩ := decodeSym_bounds hl s p minL v p1 h1
    simp only [] at hgood ⊢
    by_cases hv : v < 256
    · simp only [hv, if_true, Tok.endPos]; exact ⟨b1, b2⟩
    · simp only [hv, if_false] at hgood ⊢
      by_cases hv2 : v = 256
      · simp only [hv2, if_true, Tok.endPos]; exact ⟨b1, b2⟩
      · simp only [hv2, if_false] at hgood ⊢
        by_cases hv3 : v ≥ 286
        · simp only [hv3, if_true, Tok.good] at hgood
        · simp only [hv3, if_false] at hgood ⊢
          generalize lenExtra.getD (v - 257) 0 = eb at hgood ⊢
          by_cases ha : avail s p1 < eb
          · simp only [ha, if_true, Tok.good] at hgood
          · simp only [ha, if_false] at hgood ⊢
            cases h2 : decodeSym hd s (p1 + eb) minD with
            | truncated => rw [h2] at hgood; exact hgood.elim
            | corrupt => rw [h2] at hgood; exact hgood.elim
            | sym dv p2 =>
              rw [h2] at hgood
              obtain ⟨c1, c2⟩ := decodeSym_bounds hd s (p1 + eb) minD dv p2 h2
              simp only [] at hgood ⊢
              by_cases hd1 : dv ≥ 30
              · simp only [hd1, if_true, Tok.good] at hgood
              · simp only [hd1, if_false] at hgood ⊢
                generalize distExtra.getD dv 0 = de at hgood ⊢
                by_cases ha2 : avail s p2 < de
                · simp only [ha2, if_true, Tok.good] at hgood
                · simp only [ha2, if_false] at hgood ⊢
                  split
                  · rename_i hdist; simp only [hdist, if_true, Tok.good] at hgood
                  · simp only [Tok.endPos]
                    simp only [avail] at ha2
                    omega

theorem Reach.le {hl hd : Huff} {minL minD : Nat} {s : Bytes} {p q : Nat} {out o : Bytes}
    (h : Reach hl hd minL minD s p out q o) : p ≤ q := by
  induction h with
  | refl => exact Nat.le_refl _
  | lit ht _ ih =>
    have := (huffTok_bounds hl hd minL minD s _ _ (by rw [ht]; trivial)).1
    rw [ht] at this; simp only [Tok.endPos] at this; omega
  | copy ht _ ih =>
    have := (huffTok_bounds hl hd minL minD s _ _ (by rw [ht]; trivial)).1
    rw [ht] at this; simp only [Tok.endPos] at this; omega

/-- A completed block of the spec decoder is a run of tokens followed by an end-of-block token. -/
theorem spec_reach (hl hd : Huff) (minL minD lo : Nat) (s : Bytes) :
    ∀ (fuel p : Nat) (out : Bytes) (pE : Nat) (outE : Bytes),
    huffBlock hl hd minL minD s none lo fuel p out = .next pE outE →
    ∃ qE, Reach hl hd minL minD s p out qE outE ∧ huffTok hl hd minL minD s qE outE.size = .eob pE := by
  intro fuel
  induction fuel with
  | zero => intro p out pE outE h; simp [huffBlock] at h
  | succ fuel ih =>
    intro p out pE outE h
    rw [huffBlock_succ] at h
    cases ht : huffTok hl hd minL minD s p out.size with
    | bad st => rw [ht] at h; simp at h
    | eob p1 =>
      rw [ht] at h
      simp only [] at h
      obtain ⟨rfl, rfl⟩ := BlockResult.next.inj h
      exact ⟨p, Reach.refl _ _, ht⟩
    | lit b p1 =>
      rw [ht] at h
      simp only [capReached, Bool.false_eq_true, if_false] at h
      obtain ⟨qE, r, e⟩ := ih _ _ _ _ h
      exact ⟨qE, Reach.lit ht r, e⟩
    | copy len dist p1 =>
      rw [ht] at h
      simp only [capReached, Bool.false_eq_true, if_false] at h
      obtain ⟨qE, r, e⟩ := ih _ _ _ _ h
      exact ⟨qE, Reach.copy ht r, e⟩

/-- **Replay**: a run of tokens of `s` from `(p, out)` to `(q, o)` is also a run of tokens of any
`s'` that has the same bits in `[p, q)` and at least `minL` more bits at `q`. -/
theorem replay (hl hd : Huff) (minL minD lo : Nat) (s s' : Bytes)
    (hminD : ∀ q dv p2, decodeSym hd s q minD = .sym dv p2 → q + minD ≤ p2)
    {p q : Nat} {out o : Bytes} (h : Reach hl hd minL minD s p out q o)
    (hag : ∀ i, p ≤ i → i < q → bitAt s' i = bitAt s i) (hsz : q + minL ≤ 8 * s'.size) :
    ∃ n, n ≤ q - p ∧ ∀ fuel, huffBlock hl hd minL minD s' none lo (fuel + n) p out =
      huffBlock hl hd minL minD s' none lo fuel q o := by
  induction h with
  | refl => exact ⟨0, by omega, fun _ => rfl⟩
  | @lit p out b p1 q o ht hr ih =>
    have hle := hr.le
    have hb := huffTok_bounds hl hd minL minD s p out.size (by rw [ht]; trivial)
    rw [ht] at hb; simp only [Tok.endPos] at hb
    obtain ⟨hloc, _⟩ := huffTok_local hl hd minL minD s s' p out.size (by rw [ht]; trivial)
      (by rw [ht]; simp only [Tok.endPos]; intro i a b; exact hag i a (by omega))
      (by rw [ht]; simp only [Tok.endPos]; omega) (by omega) hminD
    obtain ⟨n, hn, hrun⟩ := ih (fun i a b => hag i (by omega) b) hsz
    refine ⟨n + 1, by omega, ?_⟩
    intro fuel
    have : fuel + (n + 1) = (fuel + n) + 1 := by omega
    rw [this, huffBlock_succ, hloc, ht]
    simp only [capReached, Bool.false_eq_true, if_false]
    exact hrun fuel
  | @copy p out len dist p1 q o ht hr ih =>
    have hle := hr.le
    have hb := huffTok_bounds hl hd minL minD s p out.size (by rw [ht]; trivial)
    rw [ht] at hb; simp only [Tok.endPos] at hb
    obtain ⟨hloc, _⟩ := huffTok_local hl hd minL minD s s' p out.size (by rw [ht]; trivial)
      (by rw [ht]; simp only [Tok.endPos]; intro i a b; exact hag i a (by omega))
      (by rw [ht]; simp only [Tok.endPos]; omega) (by omega) hminD
    obtain ⟨n, hn, hrun⟩ := ih (fun i a b => hag i (by omega) b) hsz
    refine ⟨n + 1, by omega, ?_⟩
    intro fuel
    have : fuel + (n + 1) = (fuel + n) + 1 := by omega
    rw [this, huffBlock_succ, hloc, ht]
    simp only [capReached, Bool.false_eq_true, if_false]
    exact hrun fuel

/-- … followed by an end-of-block token of `s'` at `q`: the block of `s'` that starts at `p` ends there. -/
theorem replay_eob (hl hd : Huff) (minL minD lo : Nat) (s s' : Bytes)
    (hminD : ∀ q dv p2, decodeSym hd s q minD = .sym dv p2 → q + minD ≤ p2)
    {p q q' : Nat} {out o : Bytes} (h : Reach hl hd minL minD s p out q o)
    (hag : ∀ i, p ≤ i → i < q → bitAt s' i = bitAt s i) (hsz : q + minL ≤ 8 * s'.size)
    (heob : huffTok hl hd minL minD s' q o.size = .eob q') (fuel : Nat) (hf : q - p < fuel) :
    huffBlock hl hd minL minD s' none lo fuel p out = .next q' o := by
  obtain ⟨n, hn, hrun⟩ := replay hl hd minL minD lo s s' hminD h hag hsz
  obtain ⟨f, rfl⟩ : ∃ f, fuel = (f + 1) + n := ⟨fuel - n - 1, by omega⟩
  rw [hrun, huffBlock_succ, heob]

end WuffsVerif.Flate.Cut
