/-
The two-byte stream `03 00` (one final fixed-Huffman block holding only the end-of-block code) —
what `flatecut.cutSingleBlock` writes when nothing else fits — decodes to the empty string.
Kernel evaluation of the spec decoder (no axioms beyond the kernel's own reduction).
-/
import WuffsVerif.Model.Flate.Spec

namespace WuffsVerif.Flate.Spec

set_option maxRecDepth 1000000 in
theorem inflate_0300 : inflate #[3, 0] = some (#[], 2) := by decide +kernel

end WuffsVerif.Flate.Spec
