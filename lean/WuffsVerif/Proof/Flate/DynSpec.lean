/-
C16/C07: locality of the dynamic block header of the spec decoder (`Spec.dynamicHeader`), and what it
returns.
-/
import WuffsVerif.Proof.Flate.SpecLen
import WuffsVerif.Proof.Flate.SpecLocal

namespace WuffsVerif.Flate.Cut
open WuffsVerif.Gen.C16 WuffsVerif.Flate.Spec

/-- An all-zero length vector gives the empty code, which decodes nothing. -/
theorem decodeSym_nz (lens : Array Nat) (H : Huff) (hH : mkHuff lens = some H) (s : Bytes) (q m v p2 : Nat)
    (h : decodeSym H s q m = .sym v p2) : ∃ x ∈ lens.toList, x ≠ 0 := by
  apply Classical.byContradiction
  intro hno
  have hall : ∀ x ∈ lens.toList, x = 0 := by
    intro x hx
    apply Classical.byContradiction
    intro hx0
    exact hno ⟨x, hx, hx0⟩
  have hM : lens.toList.foldl (fun m l => if l > m then l else m) 0 = 0 := by
    have : ∀ (l : List Nat), (∀ x ∈ l, x = 0) → l.foldl (fun m l => if l > m then l else m) 0 = 0 := by
      intro l
      induction l with
      | nil => intro _; rfl
      | cons y l ih =>
        intro hl
        have hy : y = 0 := hl y (by simp)
        simp only [List.foldl_cons, hy]
        exact ih (fun x hx => hl x (by simp [hx]))
    exact this _ hall
  simp only [mkHuff] at hH
  have hmb : maxBits = 15 := rfl
  have h1 : ¬ (lens.toList.foldl (fun m l => if l > m then l else m) 0 > maxBits) := by rw [hM]; omega
  rw [if_neg h1, if_pos hM] at hH
  have hH := Option.some.inj hH
  subst hH
  simp [decodeSym, decodeGo] at h
  split at h <;> simp at h

/-- Every code the spec decoder reads is at least `minLen` bits long. -/
theorem decodeSym_minlen (lens : Array Nat) (H : Huff) (hH : mkHuff lens = some H) (s : Bytes) (q m v p2 : Nat)
    (h : decodeSym H s q m = .sym v p2) : q + H.minLen ≤ p2 := by
  have hnz := decodeSym_nz lens H hH s q m v p2 h
  obtain ⟨a1, a2, a3⟩ := decodeSym_len lens H hH hnz s q m v p2 h
  have := mkHuff_minLen lens H hH hnz v a1 (by omega)
  omega

/-- Locality of the run-length decoder of the code lengths. -/
theorem readLens_local (cl : Array Nat) (hc : Huff) (hH : mkHuff cl = some hc) (s s'' : Bytes) (n : Nat) :
    ∀ (fuel q : Nat) (lens L : Array Nat) (ph : Nat), readLens hc s n fuel q lens = .ok L ph →
      (∀ i, q ≤ i → i < ph → bitAt s'' i = bitAt s i) → ph ≤ 8 * s''.size →
      readLens hc s'' n fuel q lens = .ok L ph ∧ q ≤ ph := by
  intro fuel
  induction fuel with
  | zero => intro q lens L ph h; simp [readLens] at h
  | succ fuel ih =>
    intro q lens L ph h hag hsz
    rw [readLens] at h ⊢
    split at h
    · rename_i hdone
      simp only [LensResult.ok.injEq] at h
      rw [if_pos hdone]
      exact ⟨by simp [h.1, h.2], by omega⟩
    · rename_i hdone
      rw [if_neg hdone]
      cases h1 : decodeSym hc s q hc.minLen with
      | truncated => rw [h1] at h; simp at h
      | corrupt => rw [h1] at h; simp at h
      | sym v p1 =>
        rw [h1] at h
        simp only [] at h
        have hb1 := decodeSym_bounds hc s q hc.minLen v p1 h1
        have hml := decodeSym_minlen cl hc hH s q hc.minLen v p1 h1
        by_cases hv : v < 16
        · simp only [hv, if_true] at h
          obtain ⟨e2, l2⟩ := ih p1 (lens.push v) L ph h (fun i a b => hag i (by omega) b) hsz
          obtain ⟨e1, _⟩ := decodeSym_local hc s s'' q hc.minLen v p1 h1 (fun i a b => hag i a (by omega))
            (by omega) (by omega)
          rw [e1]
          simp only [hv, if_true]
          exact ⟨e2, by omega⟩
        · simp only [hv, if_false] at h
          generalize hbn : (if v = 16 then ((3 : Nat), (2 : Nat)) else if v = 17 then (3, 3) else (11, 7)) = bn at h
          obtain ⟨base, nb⟩ := bn
          simp only [] at h
          split at h
          · simp at h
          · rename_i h16
            split at h
            · simp at h
            · rename_i hav
              split at h
              · simp at h
              · rename_i hov
                obtain ⟨e2, l2⟩ := ih (p1 + nb) _ L ph h (fun i a b => hag i (by omega) b) hsz
                obtain ⟨e1, _⟩ := decodeSym_local hc s s'' q hc.minLen v p1 h1 (fun i a b => hag i a (by omega))
                  (by omega) (by omega)
                rw [e1]
                simp only [hv, if_false, hbn, h16]
                have hav'' : ¬ (avail s'' p1 < nb) := by simp only [avail] at hav ⊢; omega
                have hbl : bitsLE s'' p1 nb = bitsLE s p1 nb :=
                  bitsLE_local s s'' p1 nb (fun i a b => hag i (by omega) (by omega))
                simp only [hav'', if_false, hbl, hov]
                exact ⟨e2, by omega⟩

/-- The code-length code lengths as `dynamicHeader` reads them. -/
def clOf (s : Bytes) (p nclen : Nat) : Array Nat :=
  (List.range nclen).foldl (fun a i => a.setIfInBounds (clOrder.getD i 0) (bitsLE s (p + 14 + 3 * i) 3))
    (Array.replicate 19 0)

/-- What a successful `dynamicHeader` has established. -/
structure DynHdr (s : Bytes) (p : Nat) (hl hd : Huff) (minL ph : Nat) (lens : Array Nat) (hc : Huff) : Prop where
  av14 : ¬ avail s p < 14
  nlit : bitsLE s p 5 + 257 ≤ 286
  ndist : bitsLE s (p + 5) 5 + 1 ≤ 30
  avcl : ¬ avail s (p + 14) < 3 * (bitsLE s (p + 10) 4 + 4)
  hcE : mkHuff (clOf s p (bitsLE s (p + 10) 4 + 4)) = some hc
  rl : readLens hc s (bitsLE s p 5 + 257 + (bitsLE s (p + 5) 5 + 1)) (bitsLE s p 5 + 257 + (bitsLE s (p + 5) 5 + 1) + 1)
      (p + 14 + 3 * (bitsLE s (p + 10) 4 + 4)) #[] = .ok lens ph
  hlE : mkHuff (lens.extract 0 (bitsLE s p 5 + 257)) = some hl
  hdE : mkHuff (lens.extract (bitsLE s p 5 + 257) (bitsLE s p 5 + 257 + (bitsLE s (p + 5) 5 + 1))) = some hd
  minL : minL = if hl.minLen < lens.getD 256 0 then lens.getD 256 0 else hl.minLen

theorem dynamicHeader_ok (s : Bytes) (p : Nat) (hl hd : Huff) (minL ph : Nat)
    (h : dynamicHeader s p = .ok hl hd minL ph) : ∃ lens hc, DynHdr s p hl hd minL ph lens hc := by
  simp only [dynamicHeader] at h
  split at h
  · simp at h
  · rename_i h14
    split at h
    · simp at h
    · rename_i hmany
      split at h
      · simp at h
      · rename_i hcl
        split at h
        · simp at h
        · rename_i hc hhc
          split at h
          · simp at h
          · simp at h
          · rename_i lens ph' hrl
            split at h
            · rename_i hl' hd' e1 e2
              simp only [HeaderResult.ok.injEq] at h
              obtain ⟨rfl, rfl, rfl, rfl⟩ := h
              exact ⟨lens, hc, h14, by omega, by omega, hcl, hhc, hrl, e1, e2, rfl⟩
            · simp at h

theorem foldl_congr_mem {α : Type} (l : List Nat) (f g : α → Nat → α) (a : α)
    (h : ∀ a i, i ∈ l → f a i = g a i) : l.foldl f a = l.foldl g a := by
  induction l generalizing a with
  | nil => rfl
  | cons x l ih =>
    simp only [List.foldl_cons]
    rw [h a x (by simp)]
    exact ih _ (fun a i hi => h a i (by simp [hi]))

/-- **Locality of the dynamic block header.** -/
theorem dynamicHeader_local (s s'' : Bytes) (p : Nat) (hl hd : Huff) (minL ph : Nat)
    (h : dynamicHeader s p = .ok hl hd minL ph) (hag : ∀ i, p ≤ i → i < ph → bitAt s'' i = bitAt s i)
    (hsz : ph ≤ 8 * s''.size) : dynamicHeader s'' p = .ok hl hd minL ph ∧ p + 14 ≤ ph := by
  obtain ⟨lens, hc, d⟩ := dynamicHeader_ok s p hl hd minL ph h
  have hav14 := d.av14
  have havcl := d.avcl
  simp only [avail] at hav14 havcl
  have hrl := readLens_local _ hc d.hcE s s'' _ _ _ _ _ _ d.rl (fun i a b => hag i (by omega) b) hsz
  have hph : p + 14 + 3 * (bitsLE s (p + 10) 4 + 4) ≤ ph := hrl.2
  have b1 : bitsLE s'' p 5 = bitsLE s p 5 := bitsLE_local s s'' p 5 (fun i a b => hag i a (by omega))
  have b2 : bitsLE s'' (p + 5) 5 = bitsLE s (p + 5) 5 := bitsLE_local s s'' (p + 5) 5 (fun i a b => hag i (by omega) (by omega))
  have b3 : bitsLE s'' (p + 10) 4 = bitsLE s (p + 10) 4 := bitsLE_local s s'' (p + 10) 4 (fun i a b => hag i (by omega) (by omega))
  have hcl : clOf s'' p (bitsLE s (p + 10) 4 + 4) = clOf s p (bitsLE s (p + 10) 4 + 4) := by
    simp only [clOf]
    apply foldl_congr_mem
    intro a i hi
    simp only [List.mem_range] at hi
    rw [bitsLE_local s s'' (p + 14 + 3 * i) 3 (fun j a b => hag j (by omega) (by omega))]
  refine ⟨?_, by omega⟩
  simp only [dynamicHeader]
  have a1 : ¬ (avail s'' p < 14) := by simp only [avail]; omega
  rw [if_neg a1, b1, b2, b3]
  have a2 : ¬ (bitsLE s p 5 + 257 > 286 ∨ bitsLE s (p + 5) 5 + 1 > 30) := by
    have := d.nlit; have := d.ndist; omega
  have a3 : ¬ (avail s'' (p + 14) < 3 * (bitsLE s (p + 10) 4 + 4)) := by simp only [avail]; omega
  rw [if_neg a2, if_neg a3]
  have : (List.range (bitsLE s (p + 10) 4 + 4)).foldl (fun a i => a.setIfInBounds (clOrder.getD i 0) (bitsLE s'' (p + 14 + 3 * i) 3))
      (Array.replicate 19 0) = clOf s p (bitsLE s (p + 10) 4 + 4) := hcl
  simp only [this, d.hcE, hrl.1, d.hlE, d.hdE, d.minL]

end WuffsVerif.Flate.Cut
