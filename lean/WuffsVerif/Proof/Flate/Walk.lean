/-
C16: the cutter's walk over the symbols of a Huffman block (`doHuffman`'s loop) is the spec
decoder's walk (`Spec.huffBlock`, in token form).  Part 1: one token.
-/
import WuffsVerif.Proof.Flate.Agree2
import WuffsVerif.Proof.Flate.Total5
import WuffsVerif.Proof.Flate.SpecTok

namespace WuffsVerif.Flate.Cut
open WuffsVerif.Gen.C16 WuffsVerif.Flate.Spec

/-- The cutter's tables are the spec's tables (RFC 1951 §3.2.5), the l-tables biased by 256 → 257. -/
theorem lBase_agree : ∀ i, i < 29 → lBases.getD (i + 1) 0 = Int.ofNat (lenBase.getD i 0) := by decide
theorem lExtra_agree : ∀ i, i < 29 → lExtras.getD (i + 1) 0 = lenExtra.getD i 0 := by decide
theorem lenBase_le : ∀ i, i < 29 → lenBase.getD i 0 ≤ 258 := by decide
theorem dBase_agree : ∀ i, i < 30 → dBases.getD i 0 = Int.ofNat (distBase.getD i 0) := by decide
theorem dExtra_agree : ∀ i, i < 30 → dExtras.getD i 0 = distExtra.getD i 0 := by decide
theorem distBase_le : ∀ i, i < 30 → distBase.getD i 0 ≤ 24577 := by decide

/-- Everything that relates the cutter's two `huffman`s to the spec's two `Huff`s inside one block. -/
structure BlockCtx (c : Cutter) (ll dl : Array Nat) (hl hd : Huff) : Prop where
  gl : c.lHuff.Good ll
  gd : c.dHuff.Good dl
  nzl : ∃ x ∈ ll.toList, x ≠ 0
  nzd : ∃ x ∈ dl.toList, x ≠ 0
  hl : mkHuff ll = some hl
  hd : mkHuff dl = some hd
  szl : ll.size ≤ 288
  szd : dl.size ≤ 32

/-- `decodeSym` (which first checks that `minBits` bits are left) against the cutter's `decode`. -/
theorem decodeSym_cut (h : Huffman) (lens : Array Nat) (hg : h.Good lens) (hnz : ∃ x ∈ lens.toList, x ≠ 0)
    (H : Huff) (hH : mkHuff lens = some H) (hoff : offAt lens 16 ≤ 288) (b : Bitstream) (hb : b.Inv)
    (minBits v p1 : Nat) (hs : decodeSym H b.bytes b.pos minBits = .sym v p1) :
    ∃ b', h.decode b = .ok (Int.ofNat v, b') ∧ b'.Inv ∧ b'.pos = p1 ∧ b'.bytes = b.bytes ∧
      b.pos < p1 ∧ v < lens.size ∧ lens.getD v 0 = p1 - b.pos := by
  simp only [decodeSym] at hs
  split at hs
  · simp at hs
  · have := decode_agrees h lens hg hnz H hH hoff b hb
    rw [hs] at this
    exact this

/-- What one token of the spec decoder means for the cutter standing at the same bit. -/
def TokCut (c : Cutter) (d0 : Int) (L256 : Nat) (t : Tok) : Prop :=
  match t with
  | .lit _ p1 => ∃ v b1, c.lHuff.decode c.bits = .ok (v, b1) ∧ 0 ≤ v ∧
      ({ c with bits := b1 } : Cutter).huffStep v d0 = ({ c with bits := b1 }, wrap32 (d0 + 1), none) ∧
      b1.Inv ∧ b1.pos = p1 ∧ b1.bytes = c.bits.bytes ∧ c.bits.pos < p1
  | .eob p1 => ∃ b1, c.lHuff.decode c.bits = .ok (256, b1) ∧ b1.Inv ∧ b1.pos = p1 ∧ b1.bytes = c.bits.bytes ∧
      c.bits.pos < p1 ∧ p1 = c.bits.pos + L256
  | .copy len _ p1 => ∃ v b1 b3, c.lHuff.decode c.bits = .ok (v, b1) ∧ 0 ≤ v ∧
      ({ c with bits := b1 } : Cutter).huffStep v d0 = ({ c with bits := b3 }, wrap32 (d0 + len), none) ∧
      b3.Inv ∧ b3.pos = p1 ∧ b3.bytes = c.bits.bytes ∧ c.bits.pos < p1
  | .bad _ => True

/-- successful `take` of `n` bits that are there -/
theorem take_avail (b : Bitstream) (hb : b.Inv) (n : Nat) (hn : n ≤ 13) (hav : ¬ avail b.bytes b.pos < n) :
    (b.take n).1 = ((bitsLE b.bytes b.pos n : Nat) : Int) ∧ (b.take n).2.Inv ∧ (b.take n).2.pos = b.pos + n ∧
    (b.take n).2.bytes = b.bytes := by
  obtain ⟨y, h⟩ := take_ok' b hb n (by omega)
  have hp := Inv.pos_le hb
  simp only [avail] at hav
  rcases h with ⟨_, h2⟩ | ⟨h1, h2, h3⟩
  · omega
  · exact ⟨h1, h2, h3, y⟩

/-- **One token**: the cutter decodes what the spec decodes, and moves to the same bit. -/
theorem cut_tok (c : Cutter) (hc : c.OK) (ll dl : Array Nat) (hl hd : Huff) (ctx : BlockCtx c ll dl hl hd)
    (minL minD outSize : Nat) (d0 : Int) :
    TokCut c d0 (ll.getD 256 0) (huffTok hl hd minL minD c.bits.bytes c.bits.pos outSize) := by
  have hloff := offAt16_le ll 288 ctx.szl
  have hdoff := offAt16_le dl 288 (by have := ctx.szd; omega)
  simp only [huffTok]
  cases h1 : decodeSym hl c.bits.bytes c.bits.pos minL with
  | truncated => simp only [TokCut]
  | corrupt => simp only [TokCut]
  | sym v p1 =>
    obtain ⟨b1, e1, i1, q1, y1, lt1, v1, hvlen⟩ :=
      decodeSym_cut c.lHuff ll ctx.gl ctx.nzl hl ctx.hl hloff c.bits hc.inv minL v p1 h1
    simp only []
    have hvcast : Int.ofNat v = (v : Int) := rfl
    by_cases hv : v < 256
    · simp only [hv, if_true, TokCut]
      refine ⟨Int.ofNat v, b1, e1, Int.natCast_nonneg _, ?_, i1, q1, y1, lt1⟩
      rw [Cutter.huffStep]
      have : (Int.ofNat v) < 256 := by rw [hvcast]; omega
      simp only [this, if_true]
    · simp only [hv, if_false]
      by_cases hv2 : v = 256
      · simp only [hv2, if_true, TokCut]
        subst hv2
        exact ⟨b1, e1, i1, q1, y1, lt1, by omega⟩
      · simp only [hv2, if_false]
        by_cases hv3 : v ≥ 286
        · simp only [hv3, if_true, TokCut]
        · simp only [hv3, if_false]
          have hvi : v - 257 < 29 := by omega
          have t1 := lBase_agree (v - 257) hvi
          have t2 := lExtra_agree (v - 257) hvi
          have t3 := lenBase_le (v - 257) hvi
          generalize hebdef : lenExtra.getD (v - 257) 0 = eb at t2
          generalize hlbdef : lenBase.getD (v - 257) 0 = lb at t1 t3
          by_cases ha : avail c.bits.bytes p1 < eb
          · simp only [ha, if_true, TokCut]
          · simp only [ha, if_false]
            have hle5 : eb ≤ 5 := by
              have := (lTable_facts (v - 257 + 1) (by omega)).1; omega
            rw [← y1, ← q1] at ha
            obtain ⟨k1, k2, k3, k4⟩ := take_avail b1 i1 (eb) (by omega) ha
            rw [q1, y1] at k1
            rw [q1] at k3
            cases h2 : decodeSym hd c.bits.bytes (p1 + eb) minD with
            | truncated => simp only [TokCut]
            | corrupt => simp only [TokCut]
            | sym dv p2 =>
              have h2' : decodeSym hd (b1.take (eb)).2.bytes
                  (b1.take (eb)).2.pos minD = .sym dv p2 := by
                rw [k4, y1, k3]; exact h2
              obtain ⟨b2, e2, i2, q2, y2, lt2, v2, _⟩ :=
                decodeSym_cut c.dHuff dl ctx.gd ctx.nzd hd ctx.hd hdoff _ k2 minD dv p2 h2'
              simp only []
              by_cases hd1 : dv ≥ 30
              · simp only [hd1, if_true, TokCut]
              · simp only [hd1, if_false]
                have u1 := dBase_agree dv (by omega)
                have u2 := dExtra_agree dv (by omega)
                have u3 := distBase_le dv (by omega)
                by_cases ha2 : avail c.bits.bytes p2 < distExtra.getD dv 0
                · simp only [ha2, if_true, TokCut]
                · simp only [ha2, if_false]
                  have hle13 : distExtra.getD dv 0 ≤ 13 := by
                    have := (dTable_facts dv (by omega)).1; omega
                  have hy2 : b2.bytes = c.bits.bytes := by rw [y2, k4, y1]
                  rw [← hy2, ← q2] at ha2
                  obtain ⟨m1, m2, m3, m4⟩ := take_avail b2 i2 (distExtra.getD dv 0) hle13 ha2
                  rw [q2, hy2] at m1
                  rw [q2] at m3
                  split
                  · simp only [TokCut]
                  · simp only [TokCut]
                    refine ⟨Int.ofNat v, b1, (b2.take (distExtra.getD dv 0)).2, e1, Int.natCast_nonneg _, ?_, m2,
                      m3, by rw [m4, hy2], by omega⟩
                    -- the cutter's `huffStep` on this symbol
                    rw [Cutter.huffStep]
                    have n1 : ¬ ((Int.ofNat v) < 256) := by rw [hvcast]; omega
                    have n2 : (Int.ofNat v) > 256 := by rw [hvcast]; omega
                    simp only [n1, if_false, n2, if_true]
                    have hidx : (Int.ofNat v - 256).toNat = v - 257 + 1 := by rw [hvcast]; omega
                    rw [hidx, getElem?_getD_int lBases (v - 257 + 1) (by simp [lBases]; omega),
                      getElem?_getD_nat lExtras (v - 257 + 1) (by simp [lExtras]; omega), t1, t2]
                    simp only []
                    have hlenlt := bitsLE_lt c.bits.bytes p1 (eb)
                    have hpow5 : 2 ^ eb ≤ 32 := by
                      calc 2 ^ eb ≤ 2 ^ 5 := Nat.pow_le_pow_right (by omega) hle5
                        _ = 32 := by decide
                    have hw1 : wrap32 (Int.ofNat (lb) +
                        (b1.take (eb)).1) =
                        ((lb + bitsLE c.bits.bytes p1 (eb) : Nat) : Int) := by
                      rw [k1]
                      rw [wrap32_range] <;> simp only [Int.ofNat_eq_natCast] <;> omega
                    rw [hw1]
                    have nn1 : ¬ (((lb + bitsLE c.bits.bytes p1 (eb) : Nat) : Int) < 0) := by
                      omega
                    simp only [nn1, if_false, e2]
                    have nn2 : ¬ (Int.ofNat dv < 0) := by rw [show Int.ofNat dv = (dv : Int) from rfl]; omega
                    simp only [nn2, if_false]
                    have hdidx : (Int.ofNat dv).toNat = dv := by simp
                    rw [hdidx, getElem?_getD_int dBases dv (by simp [dBases]; omega),
                      getElem?_getD_nat dExtras dv (by simp [dExtras]; omega), u1, u2]
                    simp only []
                    have hdlt := bitsLE_lt c.bits.bytes p2 (distExtra.getD dv 0)
                    have hpow13 : 2 ^ distExtra.getD dv 0 ≤ 8192 := by
                      calc 2 ^ distExtra.getD dv 0 ≤ 2 ^ 13 := Nat.pow_le_pow_right (by omega) hle13
                        _ = 8192 := by decide
                    have hw2 : wrap32 (Int.ofNat (distBase.getD dv 0) + (b2.take (distExtra.getD dv 0)).1) =
                        ((distBase.getD dv 0 + bitsLE c.bits.bytes p2 (distExtra.getD dv 0) : Nat) : Int) := by
                      rw [m1]
                      rw [wrap32_range] <;> simp only [Int.ofNat_eq_natCast] <;> omega
                    rw [hw2]
                    have nn3 : ¬ (((distBase.getD dv 0 + bitsLE c.bits.bytes p2 (distExtra.getD dv 0) : Nat) : Int) < 0) := by
                      omega
                    simp only [nn3, if_false]

end WuffsVerif.Flate.Cut
