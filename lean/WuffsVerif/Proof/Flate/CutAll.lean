/-
C16: THE property (`cut_prefix`) for EVERY valid DEFLATE stream: stored, fixed-Huffman and
dynamic-Huffman blocks, any number, any order.
-/
import WuffsVerif.Proof.Flate.DynSim2
import WuffsVerif.Proof.Flate.Assembly

namespace WuffsVerif.Flate.Cut
open WuffsVerif.Gen.C16 WuffsVerif.Flate.Spec

theorem dynOK_all (s : Bytes) (k p : Nat) (out : Bytes) (hty : bitsLE s (p + 1) 2 = 2) : DynOK s k p out := by
  intro c p1 out1 isFirst hc hb hp hbody hcd hc0 hT
  exact ⟨dynamic_blocksim s c hc hb p hp out p1 out1 hty hbody k hcd hc0 hT isFirst,
    blockAt_dynamic s p out p1 out1 hty hbody⟩

/-- **THE property for every valid DEFLATE stream** (`flatecut.Cut`, with or without a writer, any
limit): the first `encodedLen` bytes of the modified buffer are a complete DEFLATE stream that decodes
to exactly the first `decodedLen` bytes of the original output, and the writer receives those bytes. -/
theorem Cut_all (w : Bool) (s T : Bytes) (n0 : Nat) (limit : Int) (r : CutResult)
    (hs : Spec.inflate s = some (T, n0)) (hT : T.size < 2147483648) (h : Cut w s limit = .ok r) :
    Spec.inflate (r.encoded.extract 0 r.encodedLen) = some (T.extract 0 r.decodedLen, r.encodedLen) ∧
    r.decodedLen ≤ T.size ∧ (w = true → r.written = T.extract 0 r.decodedLen) := by
  obtain ⟨pE, hblk, _⟩ := inflate_blocks s T n0 hs
  rw [Cut_eq] at h
  split at h
  · simp at h
  · rename_i hlim
    simp only [smallestValidMaxEncodedLen] at hlim
    have hcl := clampLimit_le limit s.size (by omega)
    generalize clampLimit limit s.size = m at h hcl
    split at h
    · simp at h
    · rename_i hm2
      simp only [smallestValidMaxEncodedLen] at hm2
      split at h
      · simp at h
      · rename_i enc eLen dLen hc
        have hg := good_of_goodD T enc eLen dLen
          (cutLoop_walk #[] s T pE hblk (by omega) (fun n p out _ h2 => dynOK_all s _ p out h2) m (by omega) hcl.1
            (8 * s.size + 2) 0 ⟨⟨s, 0, 0, 0⟩, m, 0, 0, 0, Huffman.zero, Huffman.zero⟩ none 0 #[] (8 * s.size + 1) pE
            enc eLen dLen RReach.zero
            ⟨inv_fresh s 0 (Nat.zero_le _), hcl.1, Huffman.zero_shape, Huffman.zero_shape⟩ rfl rfl rfl
            (by simp) rfl hblk hc)
        obtain ⟨hg1, hg2⟩ := hg
        have hio := inflate_some_out _ _ _ hg1
        split at h
        · rename_i hw
          simp only [hio.1, hio.2] at h
          split at h <;> simp at h
          subst h
          exact ⟨hg1, hg2, fun _ => rfl⟩
        · rename_i hw
          simp at h
          subst h
          exact ⟨hg1, hg2, fun hw' => absurd hw' hw⟩

/-! ## streams that need a preset dictionary -/

/-- the preset dictionary as the decoder uses it: its last 32768 bytes -/
def truncDict (dict : Bytes) : Bytes :=
  if dict.size > windowSize then dict.extract (dict.size - windowSize) dict.size else dict

theorem truncDict_size (dict : Bytes) : (truncDict dict).size ≤ 32768 := by
  unfold truncDict
  have hw : windowSize = 32768 := rfl
  split
  · simp only [Array.size_extract]; omega
  · omega

theorem truncDict_empty : truncDict #[] = #[] := by
  unfold truncDict
  have : ¬ ((#[] : Bytes).size > windowSize) := by simp [windowSize]
  rw [if_neg this]

/-- `inflateDict dict s = some (T, n)` in terms of the block loop started with the dictionary as output. -/
theorem inflateDict_blocks (dict s T : Bytes) (n0 : Nat) :
    Spec.inflateDict dict s = some (T, n0) ↔
    ∃ pE, blocks s none 0 (8 * s.size + 1) 0 (truncDict dict) = ⟨.done, pE, truncDict dict ++ T⟩ ∧ n0 = (pE + 7) / 8 := by
  have hraw : Spec.inflateRaw dict s none =
      { blocks s none 0 (8 * s.size + 1) 0 (truncDict dict) with
        out := (blocks s none 0 (8 * s.size + 1) 0 (truncDict dict)).out.extract (truncDict dict).size
          (blocks s none 0 (8 * s.size + 1) 0 (truncDict dict)).out.size } := by
    simp only [Spec.inflateRaw, truncDict]
    split <;> rw [Spec.blocks_lo s _ 0]
  simp only [Spec.inflateDict, hraw]
  cases hR : blocks s none 0 (8 * s.size + 1) 0 (truncDict dict) with
  | mk st pos ro =>
  simp only []
  constructor
  · intro h
    split at h
    · rename_i hst
      simp only [Option.some.injEq, Prod.mk.injEq] at h
      subst hst
      obtain ⟨x, hx⟩ := blocks_extends s _ 0 _ _ _ hR
      subst hx
      refine ⟨pos, ?_, h.2.symm⟩
      rw [← h.1]
      congr 2
      rw [Array.extract_append]
      simp
    · simp at h
  · rintro ⟨pE, h1, h2⟩
    simp only [Result.mk.injEq] at h1
    obtain ⟨rfl, rfl, rfl⟩ := h1
    simp only [if_true, Option.some.injEq, Prod.mk.injEq]
    refine ⟨?_, h2.symm⟩
    rw [Array.extract_append]
    simp

/-- re-decoding WITHOUT the dictionary (what `Cut(w != nil)` does) a stream that decodes with it: unless
that fails with `corrupt`, it yields the same bytes. -/
theorem redecode_nodict (D X o : Bytes) (pos' : Nat)
    (hb : blocks X none 0 (8 * X.size + 1) 0 D = ⟨.done, pos', D ++ o⟩)
    (hst : (Spec.inflateRaw #[] X none).status ≠ .corrupt) :
    (Spec.inflateRaw #[] X none).out = o ∧ (Spec.inflateRaw #[] X none).status = .done := by
  rw [inflateRaw_nodict] at hst ⊢
  cases hR : blocks X none 0 (8 * X.size + 1) 0 #[] with
  | mk st pos ro =>
  rw [hR] at hst
  simp only [] at hst ⊢
  have hd := Spec.blocks_dict D X none 0 _ _ _ _ _ _ hR hst
  rw [Nat.zero_add, Array.append_empty, Spec.blocks_lo _ D.size 0, hb] at hd
  simp only [Result.mk.injEq] at hd
  obtain ⟨h1, _, h3⟩ := hd
  have : ro = o := (append_cancel_left D _ _ h3).symm
  subst this
  exact ⟨Array.extract_eq_self_of_le (Nat.le_refl _), h1.symm⟩

/-- **THE property for every DEFLATE stream that is valid with a preset dictionary** (`flate.NewReaderDict`;
the payload of a zlib stream with FDICT): whenever `flatecut.Cut` succeeds — it walks the blocks without
looking at the dictionary, and re-decodes WITHOUT it in `cutSingleBlock` and when a writer is passed, which
fails if the kept part refers to the dictionary —, the first `encodedLen` bytes of the modified buffer
are a complete DEFLATE stream that, decoded with the same dictionary, yields exactly the first
`decodedLen` bytes of the original output; the writer receives those bytes. -/
theorem Cut_all_dict (w : Bool) (dict s T : Bytes) (n0 : Nat) (limit : Int) (r : CutResult)
    (hs : Spec.inflateDict dict s = some (T, n0)) (hT : T.size + 32768 < 2147483648) (h : Cut w s limit = .ok r) :
    Spec.inflateDict dict (r.encoded.extract 0 r.encodedLen) = some (T.extract 0 r.decodedLen, r.encodedLen) ∧
    r.decodedLen ≤ T.size ∧ (w = true → r.written = T.extract 0 r.decodedLen) := by
  obtain ⟨pE, hblk, _⟩ := (inflateDict_blocks dict s T n0).mp hs
  have hDsz := truncDict_size dict
  generalize hD : truncDict dict = D at hblk hDsz
  rw [Cut_eq] at h
  split at h
  · simp at h
  · rename_i hlim
    simp only [smallestValidMaxEncodedLen] at hlim
    have hcl := clampLimit_le limit s.size (by omega)
    generalize clampLimit limit s.size = m at h hcl
    split at h
    · simp at h
    · rename_i hm2
      simp only [smallestValidMaxEncodedLen] at hm2
      split at h
      · simp at h
      · rename_i enc eLen dLen hc
        have hg := cutLoop_walk D s (D ++ T) pE hblk (by simp only [Array.size_append]; omega)
          (fun n p out _ h2 => dynOK_all s _ p out h2) m (by omega) hcl.1
          (8 * s.size + 2) 0 ⟨⟨s, 0, 0, 0⟩, m, 0, 0, 0, Huffman.zero, Huffman.zero⟩ none 0 D (8 * s.size + 1) pE
          enc eLen dLen RReach.zero
          ⟨inv_fresh s 0 (Nat.zero_le _), hcl.1, Huffman.zero_shape, Huffman.zero_shape⟩ rfl rfl rfl
          (by simp) rfl hblk hc
        obtain ⟨⟨pos', hb, he⟩, hg2⟩ := hg
        rw [extract_append_dict] at hb
        have hg2 : dLen ≤ T.size := by simp only [Array.size_append] at hg2; omega
        have hg1 : Spec.inflateDict dict (enc.extract 0 eLen) = some (T.extract 0 dLen, eLen) :=
          (inflateDict_blocks dict _ _ _).mpr ⟨pos', by rw [hD]; exact hb, he.symm⟩
        split at h
        · rename_i hw
          by_cases hst : (Spec.inflateRaw #[] (enc.extract 0 eLen) none).status = .corrupt
          · simp [hst] at h
          · obtain ⟨hio1, hio2⟩ := redecode_nodict D _ _ pos' hb hst
            simp only [hio1, hio2] at h
            split at h <;> simp at h
            subst h
            exact ⟨hg1, hg2, fun _ => rfl⟩
        · rename_i hw
          simp at h
          subst h
          exact ⟨hg1, hg2, fun hw' => absurd hw' hw⟩

end WuffsVerif.Flate.Cut
