/-
C16: THE property (`cut_prefix`) for EVERY valid DEFLATE stream: stored, fixed-Huffman and
dynamic-Huffman blocks, any number, any order.
-/
import WuffsVerif.Proof.Flate.DynSim2
import WuffsVerif.Proof.Flate.Assembly

namespace WuffsVerif.Flate.Cut
open WuffsVerif.Gen.C16 WuffsVerif.Flate.Spec

theorem dynOK_all (s : Bytes) (p : Nat) (out : Bytes) (hty : bitsLE s (p + 1) 2 = 2) : DynOK s p out := by
  intro c p1 out1 isFirst hc hb hp hbody hcd hT
  exact ⟨dynamic_blocksim s c hc hb p hp out p1 out1 hty hbody hcd hT isFirst,
    blockAt_dynamic s p out p1 out1 hty hbody⟩

/-- **THE property for every valid DEFLATE stream** (`flatecut.Cut`, with or without a writer, any
limit): the first `encodedLen` bytes of the modified buffer are a complete DEFLATE stream that decodes
to exactly the first `decodedLen` bytes of the original output, and the writer receives those bytes. -/
theorem Cut_all (w : Bool) (s T : Bytes) (n0 : Nat) (limit : Int) (r : CutResult)
    (hs : Spec.inflate s = some (T, n0)) (hT : T.size < 2147483648) (h : Cut w s limit = .ok r) :
    Spec.inflate (r.encoded.extract 0 r.encodedLen) = some (T.extract 0 r.decodedLen, r.encodedLen) ∧
    r.decodedLen ≤ T.size ∧ (w = true → r.written = T.extract 0 r.decodedLen) := by
  obtain ⟨pE, hblk, _⟩ := inflate_blocks s T n0 hs
  rw [Cut_eq] at h
  split at h
  · simp at h
  · rename_i hlim
    simp only [smallestValidMaxEncodedLen] at hlim
    have hcl := clampLimit_le limit s.size (by omega)
    generalize clampLimit limit s.size = m at h hcl
    split at h
    · simp at h
    · rename_i hm2
      simp only [smallestValidMaxEncodedLen] at hm2
      split at h
      · simp at h
      · rename_i enc eLen dLen hc
        have hg := cutLoop_walk s T n0 hs (by omega) (fun n p out _ h2 => dynOK_all s p out h2) m (by omega) hcl.1
          (8 * s.size + 2) 0 ⟨⟨s, 0, 0, 0⟩, m, 0, 0, 0, Huffman.zero, Huffman.zero⟩ none 0 #[] (8 * s.size + 1) pE
          enc eLen dLen RReach.zero
          ⟨inv_fresh s 0 (Nat.zero_le _), hcl.1, Huffman.zero_shape, Huffman.zero_shape⟩ rfl rfl rfl
          (by simp) rfl hblk hc
        obtain ⟨hg1, hg2⟩ := hg
        have hio := inflate_some_out _ _ _ hg1
        split at h
        · rename_i hw
          simp only [hio.1, hio.2] at h
          split at h <;> simp at h
          subst h
          exact ⟨hg1, hg2, fun _ => rfl⟩
        · rename_i hw
          simp at h
          subst h
          exact ⟨hg1, hg2, fun hw' => absurd hw' hw⟩

end WuffsVerif.Flate.Cut
