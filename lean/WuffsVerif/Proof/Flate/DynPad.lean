/-
C16: trailing zero code lengths do not change the spec's Huffman code (`mkHuff_pad`): the cutter builds
the code-length code from an array that is padded with zeros up to HLIT + HDIST entries.
-/
import WuffsVerif.Proof.Flate.DynSim

namespace WuffsVerif.Flate.Cut
open WuffsVerif.Gen.C16 WuffsVerif.Flate.Spec

theorem foldl_max_zeros (k m : Nat) :
    (List.replicate k 0).foldl (fun m l => if l > m then l else m) m = m := by
  induction k with
  | zero => rfl
  | succ k ih => simp [List.replicate_succ, ih]

theorem foldl_min_zeros (k m : Nat) :
    (List.replicate k 0).foldl (fun m l => if l ≠ 0 ∧ (m = 0 ∨ l < m) then l else m) m = m := by
  induction k with
  | zero => rfl
  | succ k ih => simp [List.replicate_succ, ih]

theorem idxOf_append_zeros (L : Nat) (hL : L ≠ 0) (l : List Nat) (k j : Nat) :
    idxOf L (l ++ List.replicate k 0) j = idxOf L l j := by
  induction l generalizing j with
  | nil =>
    simp only [List.nil_append, idxOf]
    induction k generalizing j with
    | zero => rfl
    | succ k ih =>
      simp only [List.replicate_succ, idxOf]
      have : ¬ (0 = L) := by omega
      rw [if_neg this]; exact ih (j + 1)
  | cons x l ih =>
    simp only [List.cons_append, idxOf, ih]

theorem symsOfLen_pad (a : Array Nat) (k L : Nat) (hL : L ≠ 0) :
    symsOfLen (a ++ Array.replicate k 0) L = symsOfLen a L := by
  rw [symsOfLen_eq, symsOfLen_eq]
  simp only [Array.toList_append, Array.toList_replicate]
  exact idxOf_append_zeros L hL a.toList k 0

theorem countLen_pad (a : Array Nat) (k L : Nat) (hL : L ≠ 0) :
    countLen (a ++ Array.replicate k 0) L = countLen a L := by
  rw [countLen_eq, countLen_eq]
  simp only [Array.toList_append, Array.toList_replicate, List.filter_append, List.length_append]
  have : (List.replicate k 0).filter (· = L) = [] := by
    rw [List.filter_eq_nil_iff]
    intro x hx
    have := List.eq_of_mem_replicate hx
    simp; omega
  rw [this]; simp

/-- **Padding with zero lengths does not change the code.** -/
theorem mkHuff_pad (a : Array Nat) (k : Nat) : mkHuff (a ++ Array.replicate k 0) = mkHuff a := by
  simp only [mkHuff]
  have e1 : (a ++ Array.replicate k 0).toList.foldl (fun m l => if l > m then l else m) 0 =
      a.toList.foldl (fun m l => if l > m then l else m) 0 := by
    simp only [Array.toList_append, Array.toList_replicate, List.foldl_append, foldl_max_zeros]
  have e2 : (a ++ Array.replicate k 0).toList.foldl (fun m l => if l ≠ 0 ∧ (m = 0 ∨ l < m) then l else m) 0 =
      a.toList.foldl (fun m l => if l ≠ 0 ∧ (m = 0 ∨ l < m) then l else m) 0 := by
    simp only [Array.toList_append, Array.toList_replicate, List.foldl_append, foldl_min_zeros]
  have e3 : ((List.range (maxBits + 1)).map (fun L => if L = 0 then 0 else countLen (a ++ Array.replicate k 0) L)) =
      ((List.range (maxBits + 1)).map (fun L => if L = 0 then 0 else countLen a L)) := by
    apply List.map_congr_left
    intro L _
    by_cases hL : L = 0
    · simp [hL]
    · simp only [hL, if_false]; exact countLen_pad a k L hL
  have e4 : (List.range' 1 maxBits).flatMap (symsOfLen (a ++ Array.replicate k 0)) =
      (List.range' 1 maxBits).flatMap (symsOfLen a) := by
    have key : ∀ (l : List Nat), (∀ L ∈ l, L ≠ 0) →
        l.flatMap (symsOfLen (a ++ Array.replicate k 0)) = l.flatMap (symsOfLen a) := by
      intro l
      induction l with
      | nil => intro _; rfl
      | cons x l ih =>
        intro hl
        simp only [List.flatMap_cons]
        rw [symsOfLen_pad a k x (hl x (by simp)), ih (fun L hL => hl L (by simp [hL]))]
    apply key
    intro L hL
    simp only [List.mem_range'_1] at hL
    omega
  rw [e1, e2, e3, e4]

/-- An array that agrees pointwise with a shorter one is that one padded with zeros. -/
theorem eq_pad_of_getD (L cl : Array Nat) (hsz : cl.size ≤ L.size) (h : ∀ k, L.getD k 0 = cl.getD k 0) :
    L = cl ++ Array.replicate (L.size - cl.size) 0 := by
  apply Array.ext
  · simp; omega
  · intro i h1 h2
    have := h i
    rw [Array.getElem_append]
    by_cases hi : i < cl.size
    · simp only [Array.getD_eq_getD_getElem?, Array.getElem?_eq_getElem h1, Array.getElem?_eq_getElem hi,
        Option.getD_some] at this
      simp [hi, this]
    · have hcl : cl.size ≤ i := by omega
      simp only [Array.getD_eq_getD_getElem?, Array.getElem?_eq_getElem h1, Array.getElem?_eq_none hcl,
        Option.getD_some, Option.getD_none] at this
      simp [hi, this]

end WuffsVerif.Flate.Cut
