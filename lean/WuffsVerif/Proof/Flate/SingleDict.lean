/-
C16 (streams with a preset dictionary): what THE property asks of a result when the original stream
needs a preset dictionary `D` (`GoodD`), and `cutSingleBlock` on such a stream.

`cutSingleBlock` inflates the beginning of the stream WITHOUT the dictionary (as the Go code does).
That run either ends in `corrupt` before the wanted number of bytes is there — then `cutSingleBlock`
returns the error — or it is, byte for byte, the run with the dictionary (`Spec.blocks_dict`).
-/
import WuffsVerif.Proof.Flate.BlockAt
import WuffsVerif.Proof.Flate.DictMono

namespace WuffsVerif.Flate.Cut
open WuffsVerif.Gen.C16 WuffsVerif.Flate.Spec

/-- `Good` for a stream with a preset dictionary: `TT` is the complete output of the spec's block loop
started with the output `D` (so `TT` begins with `D`); the first `e` bytes of `enc` are a complete DEFLATE
stream that, decoded with the same dictionary, yields the first `dLen` bytes behind `D`, using all `e`
bytes. -/
def GoodD (D TT enc : Bytes) (e dLen : Nat) : Prop :=
  (∃ pos', blocks (enc.extract 0 e) none 0 (8 * (enc.extract 0 e).size + 1) 0 D =
      ⟨.done, pos', TT.extract 0 (D.size + dLen)⟩ ∧ (pos' + 7) / 8 = e) ∧ D.size + dLen ≤ TT.size

theorem extract_append_dict (D T : Bytes) (d : Nat) : (D ++ T).extract 0 (D.size + d) = D ++ T.extract 0 d := by
  rw [Array.extract_append]
  have : D.size + d - D.size = d := by omega
  have h2 : D.extract 0 (D.size + d) = D := Array.extract_eq_self_of_le (by omega)
  simp [this, h2]

theorem append_cancel_left (D a b : Bytes) (h : D ++ a = D ++ b) : a = b := by
  apply Array.ext'
  have := congrArg Array.toList h
  simpa using this

/-- a result that is good without a dictionary is good with any dictionary -/
theorem goodD_of_good (D T enc : Bytes) (e d : Nat) (h : Good T enc e d) : GoodD D (D ++ T) enc e d := by
  obtain ⟨h1, h2⟩ := h
  obtain ⟨pE, hb, he⟩ := inflate_blocks _ _ _ h1
  have hd := Spec.blocks_dict D _ none 0 _ _ _ _ _ _ hb (by simp)
  rw [Nat.zero_add, Array.append_empty, Spec.blocks_lo _ D.size 0] at hd
  refine ⟨⟨pE, ?_, he.symm⟩, by simp only [Array.size_append]; omega⟩
  rw [extract_append_dict]
  exact hd

/-- without a dictionary `GoodD` is `Good` -/
theorem good_of_goodD (T enc : Bytes) (e d : Nat) (h : GoodD #[] T enc e d) : Good T enc e d := by
  obtain ⟨⟨pos', hb, he⟩, h2⟩ := h
  have h2' : d ≤ T.size := by simpa using h2
  refine ⟨?_, h2'⟩
  simp only [Spec.inflate, Spec.inflateDict, inflateRaw_nodict, hb]
  have hm : min d T.size = d := by omega
  simp [he, hm]

/-- **`cutSingleBlock` on a stream that is valid with the preset dictionary `D`**: when it succeeds, the
first `encodedLen` bytes of the result are one stored block (or the empty fixed block `03 00`) that
decodes to the first `decodedLen` bytes of the original's decompression. -/
theorem cutSingleBlock_good_dict (D s T : Bytes) (pE : Nat)
    (hblk : blocks s none 0 (8 * s.size + 1) 0 D = ⟨.done, pE, D ++ T⟩)
    (m : Nat) (enc : Bytes) (e dLen : Nat) (hm : m ≤ s.size)
    (h : cutSingleBlock s m = .ok (enc, e, dLen)) : Good T enc e dLen := by
  simp only [cutSingleBlock] at h
  split at h
  · simp at h
  · rename_i hm2
    simp only [smallestValidMaxEncodedLen] at hm2
    split at h
    · simp at h
    · -- re-encoded as one stored block
      rename_i r hst
      simp at h
      subst h
      simp only [cutSingleBlockStored] at hst
      split at hst
      · rename_i hm5
        have hwant := singleStoredLen_le m
        have hwant16 : singleStoredLen m ≤ 65535 := by simp only [singleStoredLen]; split <;> omega
        have hwant0 : 0 < singleStoredLen m := by simp only [singleStoredLen]; split <;> omega
        generalize singleStoredLen m = want at hst hwant hwant16 hwant0
        rw [inflateRaw_nodict] at hst
        simp only [Array.extract_eq_self_of_le (Nat.le_refl _)] at hst
        -- the capped run with the dictionary is a prefix of the full run with the dictionary
        have hblk' : blocks s none D.size (8 * s.size + 1) 0 D = ⟨.done, pE, D ++ T⟩ := by
          rw [Spec.blocks_lo s D.size 0]; exact hblk
        obtain ⟨o, rest, h1, h2, _⟩ := blocks_cap s want D.size (8 * s.size + 1) 0 D pE (D ++ T) hblk'
        have h2 : T = o ++ rest := by
          rw [Array.append_assoc] at h2
          exact append_cancel_left D _ _ h2
        -- the capped run without the dictionary
        cases hR : blocks s (some want) 0 (8 * s.size + 1) 0 #[] with
        | mk st pos ro =>
        rw [hR] at hst
        simp only [] at hst
        by_cases hcor : st = .corrupt
        · have hlt := Spec.blocks_corrupt_lt s want 0 _ _ _ _ _ _ hR (by simpa using hwant0) hcor
          have hlt' : ro.size < want := by omega
          simp [hlt', hcor] at hst
        · have hd := Spec.blocks_dict D s (some want) 0 _ _ _ _ _ _ hR hcor
          rw [Nat.zero_add, Array.append_empty] at hd
          rw [hd] at h1
          have hro : ro = o := append_cancel_left D _ _ h1
          subst hro
          have hn : (if ro.size < want then ro.size else want) ≤ ro.size ∧
              (if ro.size < want then ro.size else want) ≤ want := by split <;> omega
          generalize (if ro.size < want then ro.size else want) = n at hst hn
          repeat' split at hst
          all_goals first
            | (simp at hst; done)
            | skip
          rename_i hn0 hs5
          simp at hst
          obtain ⟨rfl, rfl, rfl⟩ := hst
          have hA : (ro.extract 0 n).size = n := by simp [Array.size_extract]; omega
          have hk : (if s.size - 5 < n then s.size - 5 else n) = n := by split <;> omega
          have henc : (writeStored s ro n).extract 0 (n + 5) = storedHeader n ++ ro.extract 0 n := by
            simp only [writeStored, hk]
            have : n + 5 = (storedHeader n ++ ro.extract 0 n).size := by
              simp [Array.size_append, hA, storedHeader_size]; omega
            rw [this, extract_prefix_append]
          refine ⟨?_, by rw [h2]; simp [Array.size_append]; omega⟩
          rw [henc, h2, extract_prefix_of_append _ _ _ hn.1]
          have hb := blkAt_header (ro.extract 0 n) n hA (by omega)
          have := inflate_stored _ [] (ro.extract 0 n) trivial (by simpa [endOf] using hb)
          simp only [flat, endOf, hA] at this
          rw [this]
          simp
          omega
      · simp at hst
    · -- nothing fits: `03 00`
      repeat' split at h
      all_goals first
        | (simp at h; done)
        | skip
      rename_i e1 h1 _ e2 h2
      simp at h
      obtain ⟨rfl, rfl, rfl⟩ := h
      simp only [setB] at h1 h2
      split at h1 <;> simp at h1
      split at h2 <;> simp at h2
      subst h1
      subst h2
      rename_i hs0 hs1
      simp at hs1
      have henc : ((s.setIfInBounds 0 3).setIfInBounds 1 0).extract 0 2 = #[3, 0] := by
        apply Array.ext
        · simp [Array.size_extract]; omega
        · intro i hi1 hi2
          simp at hi2
          have : i = 0 ∨ i = 1 := by omega
          rcases this with rfl | rfl
          · simp only [Array.getElem_extract, Nat.zero_add]
            rw [Array.getElem_setIfInBounds_ne (by simp; omega) (by omega)]
            simp
          · simp [Array.getElem_extract]
      refine ⟨?_, Nat.zero_le _⟩
      rw [henc, inflate_0300]
      simp

end WuffsVerif.Flate.Cut
