/-
C16: the cutter never panics and never runs out of fuel (part 5): `writeEndCode`, `doHuffman`,
`doStaticHuffman`.
-/
import WuffsVerif.Proof.Flate.Total2

namespace WuffsVerif.Flate.Cut
open WuffsVerif.Gen.C16

/-- `writeEndCode` stays inside the buffer when the end code fits behind the cursor. -/
theorem writeEndCodeLoop_total (ecb : Nat) (j : Nat) (b : Bitstream)
    (h1 : b.nBits ≤ 8 * b.index) (h8 : b.nBits ≤ 8) (hi : b.index ≤ b.bytes.size)
    (hfit : 8 * b.index - b.nBits + j ≤ 8 * b.bytes.size) :
    ∃ b', Cutter.writeEndCodeLoop ecb j b = .ok b' ∧ b'.nBits ≤ 8 * b'.index ∧ b'.index ≤ b'.bytes.size := by
  induction j generalizing b with
  | zero => exact ⟨b, rfl, h1, hi⟩
  | succ j ih =>
    rw [Cutter.writeEndCodeLoop]
    by_cases h0 : b.nBits = 0
    · simp only [h0, if_true]
      have hne : ¬ (b.index + 1 = 0) := by omega
      have hlt : b.index < b.bytes.size := by omega
      simp only [hne, if_false, Nat.add_sub_cancel]
      rw [getElem?_eq_getD _ _ hlt]
      simp only []
      apply ih
      · simp only []; omega
      · simp only []; omega
      · simp only [Array.size_setIfInBounds]; omega
      · simp only [Array.size_setIfInBounds]; omega
    · simp only [h0, if_false]
      have hne : ¬ (b.index = 0) := by omega
      have hlt : b.index - 1 < b.bytes.size := by omega
      simp only [hne, if_false]
      rw [getElem?_eq_getD _ _ hlt]
      simp only []
      apply ih
      · simp only []; omega
      · simp only []; omega
      · simp only [Array.size_setIfInBounds]; omega
      · simp only [Array.size_setIfInBounds]; omega

theorem huffTail_write (c1 : Cutter) (cpIndex cpNBits : Nat) (q1 : cpNBits ≤ 8 * cpIndex)
    (q2 : cpIndex ≤ c1.bits.bytes.size) (q3 : 8 * cpIndex - cpNBits + c1.endCodeNBits ≤ 8 * c1.bits.bytes.size) :
    ∃ c', ({ c1 with bits := ({ c1.bits with index := cpIndex, nBits := cpNBits } : Bitstream).unread } : Cutter).writeEndCode
        = .ok c' ∧ c'.bits.WF := by
  have hu : (({ c1.bits with index := cpIndex, nBits := cpNBits } : Bitstream).unread).nBits < 8 :=
    unread_nBits_lt _
  obtain ⟨b', e, w1, w2⟩ := writeEndCodeLoop_total c1.endCodeBits c1.endCodeNBits
    (({ c1.bits with index := cpIndex, nBits := cpNBits } : Bitstream).unread)
    (by simp only [Bitstream.unread]; omega) (by omega)
    (by simp only [Bitstream.unread]; omega)
    (by simp only [Bitstream.unread]; omega)
  simp only [Cutter.writeEndCode, e]
  exact ⟨_, rfl, w1, w2⟩

/-- The tail of `doHuffman` (symbol loop, checkpoint, end code). -/
theorem huffTail_total (c : Cutter) (hc : c.OK) (isFirst : Bool) (ll dl : Array Nat)
    (hll : ll.size ≤ 288) (hdl : dl.size ≤ 32) (hgl : c.lHuff.Good ll) (hgd : c.dHuff.Good dl)
    (hecn : c.endCodeNBits ≠ 0) : BlockTotal c (c.huffTail isFirst) := by
  obtain ⟨k1, k2, _⟩ := huffTail_ok c isFirst hecn
  have hL := huffLoop_total ll dl hll hdl (8 * c.bits.bytes.size + 2) c none c.decodedLen hc hgl hgd
    (by omega) (by intro i n h; simp at h)
  have hE := huffLoop_err (8 * c.bits.bytes.size + 2) c none c.decodedLen
  have hG := huffLoop_cpge ll dl hll hdl c.bits.pos (8 * c.bits.bytes.size + 2) c none c.decodedLen hc hgl hgd
    (Nat.le_refl _) (by intro i n h; simp at h)
  have hmax := hc.max
  refine ⟨k1, k2, ?_, ?_, ?_, ?_⟩
  all_goals
    simp only [Cutter.huffTail]
    generalize Cutter.huffLoop (8 * c.bits.bytes.size + 2) c none c.decodedLen = res at hL hE hG
    obtain ⟨c1, cp, r⟩ := res
    obtain ⟨m1, m2, m3, m4, m5, m6, np, nf, hcp, hret⟩ := hL
    simp only [] at m1 m2 m3 m4 m5 m6 np nf hcp hret hE
    split
  -- noPanic
  · rename_i c2 x r2 heq
    simp at heq
    obtain ⟨rfl, rfl, rfl⟩ := heq
    intro h; apply np; simp at h; simp [h]
  · simp
  · rename_i c2 cpIndex cpNBits heq
    simp at heq
    obtain ⟨rfl, rfl, rfl⟩ := heq
    generalize (if c1.maxEncodedLen - 5 > 0xFFFF then 0xFFFF else c1.maxEncodedLen - 5) = n
    obtain ⟨q1, q2, q3⟩ := hcp cpIndex cpNBits rfl
    split
    · simp
    · obtain ⟨c', e, _⟩ := huffTail_write c1 cpIndex cpNBits q1 (by rw [m6]; exact q2) (by rw [m2, m6]; omega)
      simp only [e]
      simp
  -- noFuel
  · rename_i c2 x r2 heq
    simp at heq
    obtain ⟨rfl, rfl, rfl⟩ := heq
    intro h; apply nf; simp at h; simp [h]
  · simp
  · rename_i c2 cpIndex cpNBits heq
    simp at heq
    obtain ⟨rfl, rfl, rfl⟩ := heq
    generalize (if c1.maxEncodedLen - 5 > 0xFFFF then 0xFFFF else c1.maxEncodedLen - 5) = n
    obtain ⟨q1, q2, q3⟩ := hcp cpIndex cpNBits rfl
    split
    · simp
    · obtain ⟨c', e, _⟩ := huffTail_write c1 cpIndex cpNBits q1 (by rw [m6]; exact q2) (by rw [m2, m6]; omega)
      simp only [e]
      simp
  -- cont
  · rename_i c2 x r2 heq
    simp at heq
    obtain ⟨rfl, rfl, rfl⟩ := heq
    intro h
    have h' : r2 = none := h
    subst h'
    obtain ⟨a, b⟩ := hret rfl
    exact ⟨⟨a, by rw [m1, m6]; exact hc.max, by rw [m4]; exact hc.l, by rw [m5]; exact hc.d⟩, b⟩
  · simp
  · rename_i c2 cpIndex cpNBits heq
    simp at heq
    obtain ⟨rfl, rfl, rfl⟩ := heq
    generalize (if c1.maxEncodedLen - 5 > 0xFFFF then 0xFFFF else c1.maxEncodedLen - 5) = n
    split
    · simp
    · split <;> simp
  -- someProgress
  · rename_i c2 x r2 heq
    simp at heq
    obtain ⟨rfl, rfl, rfl⟩ := heq
    intro h
    have h' : r2 = some .someProgress := h
    exact absurd rfl (hE .someProgress (by simp [h']))
  · simp
  · rename_i c2 cpIndex cpNBits heq
    simp at heq
    obtain ⟨rfl, rfl, rfl⟩ := heq
    generalize (if c1.maxEncodedLen - 5 > 0xFFFF then 0xFFFF else c1.maxEncodedLen - 5) = n
    obtain ⟨q1, q2, q3⟩ := hcp cpIndex cpNBits rfl
    split
    · simp
    · obtain ⟨c', e, w⟩ := huffTail_write c1 cpIndex cpNBits q1 (by rw [m6]; exact q2) (by rw [m2, m6]; omega)
      have hsp := writeEndCode_spec _ c' e (Nat.le_of_lt (unread_nBits_lt _)) (by simp only []; omega)
      simp only [e]
      intro _
      refine ⟨w, ?_⟩
      have hge : c.bits.pos ≤ 8 * cpIndex - cpNBits := hG cpIndex cpNBits rfl
      obtain ⟨_, _, h3, _, _⟩ := hsp
      simp only [Bitstream.unread] at h3
      have hw1 := w.nBits_le
      show c.bits.pos ≤ 8 * c'.bits.index - c'.bits.nBits
      omega

theorem BlockTotal.transport {c c' : Cutter} {r : Cutter × Option Err} (h : BlockTotal c' r)
    (h1 : c'.maxEncodedLen = c.maxEncodedLen) (h2 : c'.bits.bytes.size = c.bits.bytes.size)
    (h3 : c.bits.pos ≤ c'.bits.pos) : BlockTotal c r :=
  ⟨h.max.trans h1, h.size.trans h2, h.noPanic, h.noFuel,
    fun hr => ⟨(h.cont hr).1, Nat.le_trans h3 (h.cont hr).2⟩,
    fun hr => ⟨(h.prog hr).1, Nat.le_trans h3 (h.prog hr).2⟩⟩

theorem BlockTotal.of_err (c c' : Cutter) (e : Err) (h1 : c'.maxEncodedLen = c.maxEncodedLen)
    (h2 : c'.bits.bytes.size = c.bits.bytes.size) (hp : e ≠ .panic) (hf : e ≠ .fuel) (hs : e ≠ .someProgress) :
    BlockTotal c (c', some e) :=
  ⟨h1, h2, by simpa using hp, by simpa using hf, by simp, by intro h; simp at h; exact absurd h hs⟩

/-- **`doHuffman` never panics and never runs out of fuel**, for code lengths ≤ 15 over alphabets of
at most 288 resp. 32 symbols (what `doStaticHuffman` and `doDynamicHuffman` pass). -/
theorem doHuffman_total (c : Cutter) (hc : c.OK) (isFirst : Bool) (ll dl : Array Nat)
    (hll : ll.size ≤ 288) (hdl : dl.size ≤ 32)
    (hl15 : ∀ x ∈ ll.toList, x ≤ 15) (hd15 : ∀ x ∈ dl.toList, x ≤ 15) :
    BlockTotal c (c.doHuffman isFirst ll dl) := by
  rw [doHuffman_eq]
  have hlo := offAt16_le ll 288 hll
  have hdo := offAt16_le dl 288 (by omega)
  cases h1 : c.lHuff.construct ll with
  | error e =>
    have := construct_no_panic c.lHuff ll hl15 (by rw [hc.l.symsz]; exact hlo) (by rw [hc.l.symsz]; omega) e h1
    subst this
    exact BlockTotal.of_err c c _ rfl rfl (by simp) (by simp) (by simp)
  | ok p =>
    obtain ⟨lh, ecb, ecn⟩ := p
    have hgl := construct_good c.lHuff lh ll ecb ecn h1 hc.l.tableOK hc.l.symsz hlo (by omega)
    simp only []
    by_cases hecn : ecn = 0
    · simp only [hecn, if_true]
      exact BlockTotal.of_err c _ _ rfl rfl (by simp) (by simp) (by simp)
    · simp only [hecn, if_false]
      cases h2 : c.dHuff.construct dl with
      | error e =>
        have := construct_no_panic c.dHuff dl hd15 (by rw [hc.d.symsz]; exact hdo) (by rw [hc.d.symsz]; omega) e h2
        subst this
        exact BlockTotal.of_err c _ _ rfl rfl (by simp) (by simp) (by simp)
      | ok q =>
        obtain ⟨dh, _, _⟩ := q
        have hgd := construct_good c.dHuff dh dl _ _ h2 hc.d.tableOK hc.d.symsz hdo (by omega)
        simp only []
        obtain ⟨hu, hup⟩ := Inv.unread hc.inv
        split
        · exact BlockTotal.of_err c _ _ rfl rfl (by simp) (by simp) (by simp)
        · have hc' : (⟨c.bits.unread, c.maxEncodedLen, c.decodedLen, ecb, ecn, lh, dh⟩ : Cutter).OK :=
            ⟨hu, hc.max, hgl.shape, hgd.shape⟩
          have := huffTail_total _ hc' isFirst ll dl hll hdl hgl hgd hecn
          exact this.transport rfl rfl (by rw [hup]; exact Nat.le_refl _)

theorem staticLengths_le : ∀ x ∈ staticLengths.toList, x ≤ 9 := by
  intro x hx
  simp only [staticLengths, Array.toList_map, List.mem_map] at hx
  obtain ⟨i, _, rfl⟩ := hx
  repeat' split
  all_goals omega

theorem mem_extract_of {a : Array Nat} {i j x : Nat} (h : x ∈ (a.extract i j).toList) : x ∈ a.toList := by
  rw [Array.toList_extract] at h
  simp only [List.extract] at h
  exact List.mem_of_mem_drop (List.mem_of_mem_take h)

theorem doStaticHuffman_total (c : Cutter) (hc : c.OK) (isFirst : Bool) :
    BlockTotal c (c.doStaticHuffman isFirst) := by
  apply doHuffman_total c hc isFirst
  · simp [staticLengths]
  · simp [staticLengths]
  · intro x hx; have := staticLengths_le x (mem_extract_of hx); omega
  · intro x hx; have := staticLengths_le x (mem_extract_of hx); omega

end WuffsVerif.Flate.Cut
