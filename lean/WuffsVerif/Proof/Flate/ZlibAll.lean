/-
C16: `zlibcut.Cut` on EVERY valid zlib stream, with or without a preset dictionary.
-/
import WuffsVerif.Proof.Flate.ZlibDict

namespace WuffsVerif.Flate.ZlibCut
open WuffsVerif.Flate.Cut WuffsVerif.Gen.C16 WuffsVerif.Flate.Spec

/-- a zlib stream whose FDICT bit is clear decodes the same whatever dictionary is offered -/
theorem zlibDecode_nodict (dict s : Spec.Bytes) (hnd : ¬ ((s.getD 1 0).toNat / 32 % 2 = 1)) :
    Spec.zlibDecode dict s = Spec.zlibDecode #[] s := by
  simp only [Spec.zlibDecode, hnd, false_and, if_false]

/-- **`zlibcut.Cut` on every valid zlib stream** (RFC 1950: with or without FDICT/DICTID; `dict` is the preset
dictionary the stream was made with — it is not looked at when the FDICT bit is clear): whenever `Cut`
succeeds, the first `encodedLen` bytes of the modified buffer are a complete valid zlib stream of the same
kind that, decoded with the same dictionary, yields exactly the first `decodedLen` bytes of the original
decompression; the writer receives those bytes. -/
theorem Cut_prefix_all (dict s T : Spec.Bytes) (n : Nat) (limit : Int) (r : CutResult)
    (hz : Spec.zlibDecode dict s = some (T, n)) (hT : T.size + 32768 < 2147483648)
    (h : ZlibCut.Cut s limit = .ok r) :
    Spec.zlibDecode dict (r.encoded.extract 0 r.encodedLen) = some (T.extract 0 r.decodedLen, r.encodedLen) ∧
    r.decodedLen ≤ T.size ∧ r.written = T.extract 0 r.decodedLen := by
  by_cases hd : (s.getD 1 0).toNat / 32 % 2 = 1
  · obtain ⟨a, b, c, _⟩ := Cut_prefix_fdict dict s T n limit r hz hd hT h
    exact ⟨a, b, c⟩
  · rw [zlibDecode_nodict dict s hd] at hz
    obtain ⟨a, b, c, e1⟩ := Cut_prefix s T n limit r hz hd (by omega) h
    rw [zlibDecode_nodict dict _ (by rw [e1]; exact hd)]
    exact ⟨a, b, c⟩

end WuffsVerif.Flate.ZlibCut
