/-
C16: what the in-place modifications of `cut` do to the bits of the buffer: `writeEndCode`,
the final-block bit patch, the clearing of the unused high bits, and `extract`.
-/
import WuffsVerif.Proof.Flate.Replay

namespace WuffsVerif.Flate.Cut
open WuffsVerif.Gen.C16 WuffsVerif.Flate.Spec

theorem bitAt_testBit (s : Bytes) (i : Nat) : bitAt s i = ((s.getD (i / 8) 0).toNat.testBit (i % 8)).toNat := by
  rw [bitAt_eq_streamBit]; rfl

theorem mask_clear_table : ∀ n, n < 8 → ∀ k, k < 8 → (255 - (1 <<< n) % 256).testBit k = decide (k ≠ n) := by decide

theorem mask_set_table : ∀ n, n < 8 → ∀ k, k < 8 → ((1 <<< n) % 256).testBit k = decide (k = n) := by decide

/-- Writing one bit into a byte: `(x &^ mask) | (mask * bit)`. -/
theorem setBit_testBit (x : UInt8) (n bit k : Nat) (hn : n < 8) (hk : k < 8) (hbit : bit ≤ 1) :
    ((x.toNat &&& (255 - (1 <<< n) % 256)) ||| (((1 <<< n) * bit) % 256)).testBit k =
      if k = n then decide (bit = 1) else x.toNat.testBit k := by
  rw [Nat.testBit_or, Nat.testBit_and, mask_clear_table n hn k hk]
  have hb : bit = 0 ∨ bit = 1 := by omega
  rcases hb with rfl | rfl
  · by_cases hkn : k = n
    · simp [hkn]
    · simp [hkn]
  · rw [Nat.mul_one, mask_set_table n hn k hk]
    by_cases hkn : k = n
    · simp [hkn]
    · simp [hkn]

theorem setBit_lt (x : UInt8) (n bit : Nat) (hn : n < 8) (hbit : bit ≤ 1) :
    ((x.toNat &&& (255 - (1 <<< n) % 256)) ||| (((1 <<< n) * bit) % 256)) < 256 := by
  apply Nat.or_lt_two_pow (n := 8)
  · exact Nat.lt_of_le_of_lt Nat.and_le_left x.toNat_lt
  · omega

/-- Bit `i` of a buffer after byte `k` was replaced. -/
theorem bitAt_set (s : Bytes) (k : Nat) (v : UInt8) (i : Nat) (hk : k < s.size) :
    bitAt (s.setIfInBounds k v) i = if i / 8 = k then (v.toNat.testBit (i % 8)).toNat else bitAt s i := by
  rw [bitAt_testBit, getD_setIfInBounds]
  by_cases h : i / 8 = k
  · simp [h, hk]
  · simp only [h, false_and, if_false]
    rw [← bitAt_testBit]

theorem toNat_ofNat_lt (y : Nat) (h : y < 256) : (UInt8.ofNat y).toNat = y := by
  simp; omega

/-- `writeEndCode` writes the `j` low bits of `ecb`, most significant first, at the cursor, and leaves
every other bit alone. -/
theorem writeEndCodeLoop_bits (ecb : Nat) (j : Nat) (b b' : Bitstream)
    (h : Cutter.writeEndCodeLoop ecb j b = .ok b') (h1 : b.nBits ≤ 8 * b.index) (h8 : b.nBits ≤ 8)
    (hi : b.index ≤ b.bytes.size) :
    b'.bytes.size = b.bytes.size ∧ 8 * b'.index - b'.nBits = 8 * b.index - b.nBits + j ∧
    b'.nBits ≤ 8 * b'.index ∧ b'.nBits ≤ 8 ∧
    ∀ i, bitAt b'.bytes i =
      if 8 * b.index - b.nBits ≤ i ∧ i < 8 * b.index - b.nBits + j then
        (ecb.testBit (j - 1 - (i - (8 * b.index - b.nBits)))).toNat
      else bitAt b.bytes i := by
  induction j generalizing b with
  | zero =>
    simp only [Cutter.writeEndCodeLoop] at h
    have := Except.ok.inj h; subst this
    refine ⟨rfl, by omega, h1, h8, ?_⟩
    intro i
    have : ¬ (8 * b.index - b.nBits ≤ i ∧ i < 8 * b.index - b.nBits + 0) := by omega
    rw [if_neg this]
  | succ j ih =>
    rw [Cutter.writeEndCodeLoop] at h
    -- the cursor after the refill and the decrement
    generalize hb1 : (if b.nBits = 0 then ({ b with index := b.index + 1, nBits := 8 } : Bitstream) else b) = b1 at h
    have hb1f : b1.bytes = b.bytes ∧ 1 ≤ b1.nBits ∧ b1.nBits ≤ 8 ∧ 8 * b1.index - b1.nBits = 8 * b.index - b.nBits ∧
        b1.nBits ≤ 8 * b1.index ∧ 1 ≤ b1.index := by
      rw [← hb1]
      split
      · rename_i h0
        exact ⟨rfl, by simp, by simp, by simp only []; omega, by simp only []; omega, by simp only []; omega⟩
      · exact ⟨rfl, by omega, h8, rfl, h1, by omega⟩
    obtain ⟨y1, n1, n8, p1, w1, i1⟩ := hb1f
    simp only [] at h
    have hne : ¬ (b1.index = 0) := by omega
    rw [if_neg hne] at h
    split at h
    · simp at h
    · rename_i x hx
      have hlt : b1.index - 1 < b1.bytes.size := by
        rcases Nat.lt_or_ge (b1.index - 1) b1.bytes.size with hl | hl
        · exact hl
        · rw [Array.getElem?_eq_none hl] at hx; simp at hx
      have hxv : x = b1.bytes.getD (b1.index - 1) 0 := by
        have := getElem?_eq_getD b1.bytes (b1.index - 1) hlt
        rw [this] at hx; exact (Option.some.inj hx).symm
      have hbit : (ecb >>> j) &&& 1 ≤ 1 := by
        rw [Nat.and_one_is_mod]; omega
      have hn : 7 - (b1.nBits - 1) < 8 := by omega
      have hylt := setBit_lt x (7 - (b1.nBits - 1)) ((ecb >>> j) &&& 1) hn hbit
      have := ih _ h (by simp only []; omega) (by simp only []; omega)
        (by simp only [Array.size_setIfInBounds]; omega)
      obtain ⟨a1, a2, a3, a4, a5⟩ := this
      simp only [Array.size_setIfInBounds] at a1 a2 a5
      refine ⟨by rw [a1, y1], by omega, a3, a4, ?_⟩
      intro i
      rw [a5 i]
      have hP : 8 * b1.index - (b1.nBits - 1) = 8 * b.index - b.nBits + 1 := by omega
      rw [hP]
      by_cases hin : 8 * b.index - b.nBits + 1 ≤ i ∧ i < 8 * b.index - b.nBits + 1 + j
      · have hin' : 8 * b.index - b.nBits ≤ i ∧ i < 8 * b.index - b.nBits + (j + 1) := by omega
        rw [if_pos hin, if_pos hin']
        congr 2
        omega
      · rw [if_neg hin]
        rw [bitAt_set _ _ _ _ hlt, toNat_ofNat_lt _ hylt]
        by_cases hi0 : i = 8 * b.index - b.nBits
        · have hin' : 8 * b.index - b.nBits ≤ i ∧ i < 8 * b.index - b.nBits + (j + 1) := by omega
          rw [if_pos hin']
          have hdiv : i / 8 = b1.index - 1 := by omega
          have hmod : i % 8 = 7 - (b1.nBits - 1) := by omega
          rw [if_pos hdiv, hmod, setBit_testBit x _ _ _ hn hn hbit]
          simp only [if_true]
          have : j + 1 - 1 - (i - (8 * b.index - b.nBits)) = j := by omega
          rw [this, Nat.and_one_is_mod]
          simp only [Nat.testBit, Nat.and_one_is_mod]
          rcases Nat.mod_two_eq_zero_or_one (ecb >>> j) with hm | hm <;> simp [hm]
        · have hin' : ¬ (8 * b.index - b.nBits ≤ i ∧ i < 8 * b.index - b.nBits + (j + 1)) := by omega
          rw [if_neg hin']
          by_cases hdiv : i / 8 = b1.index - 1
          · rw [if_pos hdiv]
            have hmod : i % 8 ≠ 7 - (b1.nBits - 1) := by omega
            rw [setBit_testBit x _ _ _ hn (by omega) hbit, if_neg hmod, bitAt_testBit, hdiv, hxv, y1]
          · rw [if_neg hdiv, y1]

theorem mask_low_table : ∀ n, n < 8 → ∀ k, k < 8 → (((1 <<< (8 - n)) - 1) % 256).testBit k = decide (k < 8 - n) := by
  decide

/-- The final-block bit patch sets exactly the bit just before position `(i, n)`. -/
theorem patchFinalBit_bits (bytes b' : Bytes) (i n : Nat) (h : patchFinalBit bytes i n = .ok b') (hn : n < 8) :
    1 ≤ i ∧ i ≤ bytes.size ∧ b'.size = bytes.size ∧
    ∀ k, bitAt b' k = if k = 8 * i - n - 1 then 1 else bitAt bytes k := by
  simp only [patchFinalBit] at h
  split at h
  · simp at h
  · rename_i hi0
    split at h
    · simp at h
    · rename_i x hx
      have hlt : i - 1 < bytes.size := by
        rcases Nat.lt_or_ge (i - 1) bytes.size with hl | hl
        · exact hl
        · rw [Array.getElem?_eq_none hl] at hx; simp at hx
      have hxv : x = bytes.getD (i - 1) 0 := by
        have := getElem?_eq_getD bytes (i - 1) hlt
        rw [this] at hx; exact (Option.some.inj hx).symm
      have := Except.ok.inj h
      subst this
      refine ⟨by omega, by omega, by simp, ?_⟩
      intro k
      have hylt : x.toNat ||| (1 <<< (7 - n)) % 256 < 256 :=
        Nat.or_lt_two_pow (n := 8) x.toNat_lt (by omega)
      rw [bitAt_set _ _ _ _ hlt, toNat_ofNat_lt _ hylt]
      by_cases hdiv : k / 8 = i - 1
      · rw [if_pos hdiv, Nat.testBit_or, mask_set_table (7 - n) (by omega) (k % 8) (by omega)]
        by_cases hk : k = 8 * i - n - 1
        · have : k % 8 = 7 - n := by omega
          rw [if_pos hk]
          simp only [this, decide_true, Bool.or_true, Bool.toNat_true]
        · have : ¬ (k % 8 = 7 - n) := by omega
          rw [if_neg hk]
          simp only [this, decide_false, Bool.or_false]
          rw [bitAt_testBit, hdiv, hxv]
      · rw [if_neg hdiv]
        have : ¬ (k = 8 * i - n - 1) := by omega
        rw [if_neg this]

/-- `finish` clears the bits from the cursor to the end of its byte and returns `index`. -/
theorem finish_bits (c : Cutter) (enc : Bytes) (e d : Nat) (h : c.finish = .ok (enc, e, d))
    (hn : c.bits.nBits < 8) (hw : c.bits.nBits ≤ 8 * c.bits.index) :
    e = c.bits.index ∧ d = c.decodedLen.toNat ∧ enc.size = c.bits.bytes.size ∧
    ∀ k, bitAt enc k = if 8 * c.bits.index - c.bits.nBits ≤ k ∧ k < 8 * c.bits.index then 0 else bitAt c.bits.bytes k := by
  simp only [Cutter.finish] at h
  split at h
  · rename_i hn0
    split at h
    · simp at h
    · split at h
      · simp at h
      · rename_i hi0 x hx
        have hlt : c.bits.index - 1 < c.bits.bytes.size := by
          rcases Nat.lt_or_ge (c.bits.index - 1) c.bits.bytes.size with hl | hl
          · exact hl
          · rw [Array.getElem?_eq_none hl] at hx; simp at hx
        have hxv : x = c.bits.bytes.getD (c.bits.index - 1) 0 := by
          have := getElem?_eq_getD c.bits.bytes (c.bits.index - 1) hlt
          rw [this] at hx; exact (Option.some.inj hx).symm
        simp only [Except.ok.injEq, Prod.mk.injEq] at h
        obtain ⟨rfl, rfl, rfl⟩ := h
        refine ⟨rfl, rfl, by simp, ?_⟩
        intro k
        have hylt : x.toNat &&& ((1 <<< (8 - c.bits.nBits)) - 1) % 256 < 256 :=
          Nat.lt_of_le_of_lt Nat.and_le_left x.toNat_lt
        rw [bitAt_set _ _ _ _ hlt, toNat_ofNat_lt _ hylt]
        by_cases hdiv : k / 8 = c.bits.index - 1
        · rw [if_pos hdiv, Nat.testBit_and, mask_low_table c.bits.nBits hn (k % 8) (by omega)]
          by_cases hk : 8 * c.bits.index - c.bits.nBits ≤ k ∧ k < 8 * c.bits.index
          · have : ¬ (k % 8 < 8 - c.bits.nBits) := by omega
            rw [if_pos hk]
            simp only [this, decide_false, Bool.and_false, Bool.toNat_false]
          · have : k % 8 < 8 - c.bits.nBits := by omega
            rw [if_neg hk]
            simp only [this, decide_true, Bool.and_true]
            rw [bitAt_testBit, hdiv, hxv]
        · rw [if_neg hdiv]
          have : ¬ (8 * c.bits.index - c.bits.nBits ≤ k ∧ k < 8 * c.bits.index) := by omega
          rw [if_neg this]
  · rename_i hn0
    simp only [Except.ok.injEq, Prod.mk.injEq] at h
    obtain ⟨rfl, rfl, rfl⟩ := h
    refine ⟨rfl, rfl, rfl, ?_⟩
    intro k
    have : ¬ (8 * c.bits.index - c.bits.nBits ≤ k ∧ k < 8 * c.bits.index) := by
      have : c.bits.nBits = 0 := by simpa using hn0
      omega
    rw [if_neg this]

theorem bitAt_extract (s : Bytes) (e k : Nat) (hk : k < 8 * e) : bitAt (s.extract 0 e) k = bitAt s k := by
  simp only [bitAt]
  have := agree_extract s e 0 e (Nat.le_refl _) (k / 8) (Nat.zero_le _) (by omega)
  rw [this]

end WuffsVerif.Flate.Cut
