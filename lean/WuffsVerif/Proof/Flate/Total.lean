/-
C16: the cutter never panics and never runs out of fuel (part 3): the invariant `Cutter.OK`
and the block functions.
-/
import WuffsVerif.Proof.Flate.Safe2
import WuffsVerif.Proof.Flate.Bounds3
import WuffsVerif.Proof.Flate.TakeSpec
import WuffsVerif.Proof.Flate.StoredCut

namespace WuffsVerif.Flate.Cut
open WuffsVerif.Gen.C16

/-- The fields of a `huffman` that survive every `construct`. -/
structure Huffman.Shape (h : Huffman) : Prop where
  tableOK : h.TableOK
  symsz : h.symbols.size = 288

theorem Huffman.zero_shape : Huffman.zero.Shape :=
  ⟨Huffman.zero_tableOK, by simp [Huffman.zero, maxNumCodes]⟩

theorem Huffman.Good.shape {h : Huffman} {lengths : Array Nat} (hg : h.Good lengths) : h.Shape :=
  ⟨hg.tableOK, hg.symsz⟩

/-- The invariant of the cutter between any two steps. -/
structure Cutter.OK (c : Cutter) : Prop where
  inv : c.bits.Inv
  max : c.maxEncodedLen ≤ c.bits.bytes.size
  l : c.lHuff.Shape
  d : c.dHuff.Shape

theorem bitsLE_lt (s : Bytes) (p n : Nat) : Spec.bitsLE s p n < 2 ^ n := by
  induction n generalizing p with
  | zero => simp [Spec.bitsLE]
  | succ n ih =>
    simp only [Spec.bitsLE, Nat.pow_succ]
    have := ih (p + 1)
    have hb : Spec.bitAt s p < 2 := by
      simp only [Spec.bitAt]; omega
    omega

/-- `take` from a cursor that satisfies the invariant: either it fails (negative), or it returns
the spec's data element and keeps the invariant. -/
theorem take_ok (b : Bitstream) (hb : b.Inv) (n : Nat) (hn : n ≤ 31) :
    (b.take n).2.bytes = b.bytes ∧
    ((b.take n).1 < 0 ∨
      ((b.take n).1 = Int.ofNat (Spec.bitsLE b.bytes b.pos n) ∧ (b.take n).2.Inv ∧
        (b.take n).2.pos = b.pos + n)) := by
  obtain ⟨h1, h2⟩ := take_spec b hb n hn
  refine ⟨h1, ?_⟩
  split at h2
  · exact Or.inr h2
  · left; rw [h2]; decide

theorem Inv.unread {b : Bitstream} (hb : b.Inv) : b.unread.Inv ∧ b.unread.pos = b.pos := by
  have hle := hb.nBits_le
  have hpos : b.unread.pos = b.pos := by
    simp only [Bitstream.pos, Bitstream.unread]; omega
  refine ⟨⟨⟨by simp only [Bitstream.unread]; omega, by have := hb.index_le; simp only [Bitstream.unread]; omega⟩,
    by simp only [Bitstream.unread]; omega, ?_, ?_⟩, hpos⟩
  · intro i hi
    rw [hpos]
    simp only [Bitstream.unread] at hi ⊢
    exact hb.low i (by omega)
  · intro i h1 h2 hbit
    rw [hpos]
    simp only [Bitstream.unread] at h1 hbit ⊢
    rcases Nat.lt_or_ge i b.nBits with hlt | hge
    · rw [← hb.low i hlt]; exact hbit
    · exact hb.high i hge h2 hbit

theorem inv_fresh (bytes : Bytes) (index : Nat) (h : index ≤ bytes.size) :
    ({ bytes := bytes, index := index, bits := 0, nBits := 0 } : Bitstream).Inv :=
  ⟨⟨by simp, h⟩, by simp, fun i hi => by simp at hi, fun i _ _ hbit => by simp at hbit⟩

/-- What a block function (`doStored`, `doStaticHuffman`, `doDynamicHuffman`) guarantees. -/
structure BlockTotal (c : Cutter) (r : Cutter × Option Err) : Prop where
  max : r.1.maxEncodedLen = c.maxEncodedLen
  size : r.1.bits.bytes.size = c.bits.bytes.size
  noPanic : r.2 ≠ some .panic
  noFuel : r.2 ≠ some .fuel
  cont : r.2 = none → r.1.OK ∧ c.bits.pos ≤ r.1.bits.pos
  prog : r.2 = Option.some .someProgress → r.1.bits.WF ∧ c.bits.pos ≤ r.1.bits.pos

theorem doStored_total (c : Cutter) (hc : c.OK) : BlockTotal c c.doStored := by
  obtain ⟨s1, s2, _⟩ := doStored_spec c
  obtain ⟨hu, hup⟩ := Inv.unread hc.inv
  have hmax := hc.max
  have hule := hu.index_le
  have hpos : c.bits.unread.pos ≤ 8 * c.bits.unread.index := by simp only [Bitstream.pos]; omega
  refine ⟨s1, s2, ?_, ?_, ?_, ?_⟩
  all_goals simp only [Cutter.doStored]
  all_goals split
  all_goals first
    | (simp; done)
    | skip
  all_goals
    rename_i hfit
    have h4 : c.bits.unread.index + 3 < c.bits.bytes.size := by omega
    have hsz : c.bits.unread.bytes.size = c.bits.bytes.size := rfl
    rw [getElem?_eq_getD _ _ (by omega : c.bits.unread.index < c.bits.unread.bytes.size),
      getElem?_eq_getD _ _ (by omega : c.bits.unread.index + 1 < c.bits.unread.bytes.size),
      getElem?_eq_getD _ _ (by omega : c.bits.unread.index + 2 < c.bits.unread.bytes.size),
      getElem?_eq_getD _ _ (by omega : c.bits.unread.index + 3 < c.bits.unread.bytes.size)]
    simp only []
    repeat' split
  all_goals first
    | (simp; done)
    | skip
  · intro _
    refine ⟨⟨inv_fresh _ _ ?_, hmax, hc.l, hc.d⟩, ?_⟩
    · show _ ≤ c.bits.unread.bytes.size
      omega
    · rw [← hup]
      simp only [Bitstream.pos]
      omega
  · intro _
    refine ⟨⟨by simp, by simp; omega⟩, ?_⟩
    rw [← hup]
    simp only [Bitstream.pos]
    omega

/-! ### the tables of RFC 1951 §3.2.5 as `doHuffman` uses them -/

theorem lTable_facts : ∀ i, i < 32 → (lExtras.getD i 0 ≤ 5 ∧
    ((0 ≤ lBases.getD i 0 ∧ lBases.getD i 0 < 65536) ∨ (lBases.getD i 0 = mostNegativeInt32 ∧ lExtras.getD i 0 = 0))) := by
  decide

theorem dTable_facts : ∀ i, i < 32 → (dExtras.getD i 0 ≤ 13 ∧
    ((0 ≤ dBases.getD i 0 ∧ dBases.getD i 0 < 65536) ∨ (dBases.getD i 0 = mostNegativeInt32 ∧ dExtras.getD i 0 = 0))) := by
  decide

theorem getElem?_getD_int (a : Array Int) (i : Nat) (h : i < a.size) : a[i]? = some (a.getD i 0) := by
  simp [Array.getD, h]

theorem getElem?_getD_nat (a : Array Nat) (i : Nat) (h : i < a.size) : a[i]? = some (a.getD i 0) := by
  simp [Array.getD, h]

/-- `take`, with the reason of a failure. -/
theorem take_ok' (b : Bitstream) (hb : b.Inv) (n : Nat) (hn : n ≤ 31) :
    (b.take n).2.bytes = b.bytes ∧
    (((b.take n).1 = mostNegativeInt32 ∧ 8 * b.bytes.size < b.pos + n) ∨
      ((b.take n).1 = ((Spec.bitsLE b.bytes b.pos n : Nat) : Int) ∧ (b.take n).2.Inv ∧
        (b.take n).2.pos = b.pos + n)) := by
  obtain ⟨h1, h2⟩ := take_spec b hb n hn
  refine ⟨h1, ?_⟩
  split at h2
  · exact Or.inr h2
  · left; exact ⟨h2, by omega⟩

theorem getD_setIfInBounds_nat (s : Array Nat) (i j v : Nat) :
    (s.setIfInBounds i v).getD j 0 = if j = i ∧ i < s.size then v else s.getD j 0 := by
  simp only [Array.getD_eq_getD_getElem?, Array.getElem?_setIfInBounds]
  by_cases h : i = j
  · subst h
    by_cases h2 : i < s.size
    · simp [h2]
    · simp [h2]
  · have : ¬ (j = i ∧ i < s.size) := by omega
    simp [h, this]

theorem Inv.pos_le {b : Bitstream} (hb : b.Inv) : b.pos ≤ 8 * b.bytes.size := by
  have := hb.nBits_le; have := hb.index_le
  simp only [Bitstream.pos]; omega

/-- base + extra bits, as `doHuffman` computes `length` and `distance`. -/
theorem base_plus_take (b : Bitstream) (hb : b.Inv) (base : Int) (n : Nat) (hn : n ≤ 13)
    (hbase : (0 ≤ base ∧ base < 65536) ∨ (base = mostNegativeInt32 ∧ n = 0))
    (hnn : ¬ wrap32 (base + (b.take n).1) < 0) :
    (b.take n).2.Inv ∧ (b.take n).2.pos = b.pos + n := by
  obtain ⟨_, h⟩ := take_ok' b hb n (by omega)
  rcases h with ⟨h1, h2⟩ | ⟨h1, h2, h3⟩
  · exfalso
    rcases hbase with ⟨b0, b1⟩ | ⟨b0, b1⟩
    · rw [h1] at hnn
      simp only [wrap32, mostNegativeInt32] at hnn
      omega
    · have := Inv.pos_le hb
      omega
  · exact ⟨h2, h3⟩

end WuffsVerif.Flate.Cut
