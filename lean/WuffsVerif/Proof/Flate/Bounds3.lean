/-
C16: length bounds, part 3 — `cutSingleBlock`, `cut`, `Cut`, `zlibcut.Cut`.
-/
import WuffsVerif.Proof.Flate.Bounds2
import WuffsVerif.Model.Flate.ZlibCut

namespace WuffsVerif.Flate.Cut
open WuffsVerif.Gen.C16

theorem setB_size (a : Bytes) (i : Nat) (v : UInt8) (a' : Bytes) (h : setB a i v = .ok a') : a'.size = a.size := by
  simp only [setB] at h
  split at h <;> simp at h
  subst h; simp

theorem storedHeader_size (n : Nat) : (storedHeader n).size = 5 := rfl

theorem writeStored_size (enc buf : Bytes) (n : Nat) (h5 : 5 ≤ enc.size) (hn : n ≤ buf.size) :
    (writeStored enc buf n).size = enc.size := by
  simp only [writeStored, Array.size_append, storedHeader_size, Array.size_extract]
  split <;> omega

theorem singleStoredLen_le (m : Nat) : singleStoredLen m ≤ m - 5 := by
  simp only [singleStoredLen]; split <;> omega

theorem cutSingleBlockStored_spec (enc : Bytes) (m : Nat) (enc' : Bytes) (e d : Nat)
    (h : cutSingleBlockStored enc m = .ok (some (enc', e, d))) (_hm : m ≤ enc.size) :
    e ≤ m ∧ 2 ≤ e ∧ enc'.size = enc.size := by
  simp only [cutSingleBlockStored] at h
  have := singleStoredLen_le m
  generalize singleStoredLen m = want at h this
  generalize Spec.inflateRaw #[] enc (some want) = r at h
  repeat' split at h
  all_goals first
    | (simp at h; done)
    | skip
  all_goals
    simp at h
    obtain ⟨rfl, rfl, rfl⟩ := h
    refine ⟨by omega, by omega, ?_⟩
    apply writeStored_size <;> omega

theorem cutSingleBlock_spec (enc : Bytes) (m : Nat) (enc' : Bytes) (e d : Nat)
    (h : cutSingleBlock enc m = .ok (enc', e, d)) (hm : m ≤ enc.size) :
    e ≤ m ∧ 2 ≤ e ∧ enc'.size = enc.size := by
  simp only [cutSingleBlock] at h
  split at h
  · simp at h
  · rename_i h2
    simp only [smallestValidMaxEncodedLen] at h2
    split at h
    · simp at h
    · rename_i r hr
      simp at h
      subst h
      exact cutSingleBlockStored_spec _ _ _ _ _ hr hm
    · repeat' split at h
      all_goals first
        | (simp at h; done)
        | skip
      simp at h
      obtain ⟨rfl, rfl, rfl⟩ := h
      rename_i e1 h1 _ e2 h2'
      have s1 := setB_size _ _ _ _ h1
      have s2 := setB_size _ _ _ _ h2'
      refine ⟨by omega, by omega, by omega⟩

theorem patchFinalBit_size (bytes : Bytes) (i n : Nat) (bytes' : Bytes)
    (h : patchFinalBit bytes i n = .ok bytes') : bytes'.size = bytes.size := by
  simp only [patchFinalBit] at h
  repeat' split at h
  all_goals first
    | (simp at h; done)
    | (simp at h; subst h; simp)

theorem finish_spec (c : Cutter) (enc : Bytes) (e d : Nat) (h : c.finish = .ok (enc, e, d)) :
    e = c.bits.index ∧ enc.size = c.bits.bytes.size := by
  simp only [Cutter.finish] at h
  repeat' split at h
  all_goals first
    | (simp at h; done)
    | (simp at h; obtain ⟨rfl, rfl, rfl⟩ := h; simp)

theorem take_max (c : Cutter) (n : Nat) :
    ({ c with bits := (c.bits.take n).2 } : Cutter).maxEncodedLen = c.maxEncodedLen := rfl

/-- `cut`: on success `encodedLen ≤ maxEncodedLen` and the buffer keeps its size.
`hh` is the loop-head invariant: the cursor is byte-normalised and inside the budget. -/
theorem cutLoop_spec (fuel : Nat) (c : Cutter) (prev : Option (Nat × Nat)) (enc : Bytes) (e d : Nat)
    (h : Cutter.cutLoop fuel c prev = .ok (enc, e, d))
    (hm : c.maxEncodedLen ≤ c.bits.bytes.size)
    (hh : c.bits.nBits < 8 ∧ c.bits.index ≤ c.maxEncodedLen) :
    e ≤ c.maxEncodedLen ∧ enc.size = c.bits.bytes.size := by
  induction fuel generalizing c prev with
  | zero => simp [Cutter.cutLoop] at h
  | succ f ih =>
    simp only [Cutter.cutLoop] at h
    split at h
    · simp at h
    · rename_i hfb
      have hfb' : 0 ≤ (c.bits.take 1).1 := by omega
      have h1 := take_one c.bits hh.1 hfb'
      split at h
      · simp at h
      · split at h
        · simp at h
        · -- the block
          generalize hblk : (if (((c.bits.take 1).2).take 2).1 = 0 then
              Cutter.doStored { c with bits := ((c.bits.take 1).2.take 2).2 }
            else if (((c.bits.take 1).2).take 2).1 = 1 then
              Cutter.doStaticHuffman { c with bits := ((c.bits.take 1).2.take 2).2 } prev.isNone
            else Cutter.doDynamicHuffman { c with bits := ((c.bits.take 1).2.take 2).2 } prev.isNone) = blk at h
          have hok : BlockOK { c with bits := ((c.bits.take 1).2.take 2).2 } blk := by
            rw [← hblk]
            split
            · exact doStored_ok _
            · split
              · exact doStaticHuffman_ok _ _
              · exact doDynamicHuffman_ok _ _
          obtain ⟨c1, err⟩ := blk
          obtain ⟨k1, k2, k3⟩ := hok
          simp only [take_bytes] at k1 k2 k3
          simp only [] at h
          have hfbi : (c.bits.take 1).2.unread.index - ((c.bits.take 1).2.unread.nBits + 1) / 8 ≤ c.maxEncodedLen := by
            simp only [Bitstream.unread]
            by_cases h0 : c.bits.nBits = 0
            · have := h1.1 h0; omega
            · have := h1.2 h0; omega
          split at h
          · -- nil
            have hend := k3 (Or.inl rfl)
            split at h
            · have := ih _ _ h (by simp [unread_bytes, k1, k2, hm])
                ⟨unread_nBits_lt _, by simp [unread_index, k1, hend]⟩
              simpa [unread_bytes, k1, k2] using this
            · have := finish_spec _ _ _ _ h
              simp [unread_index, unread_bytes] at this
              omega
          · -- noProgress
            split at h
            · have := cutSingleBlock_spec _ _ _ _ _ h (by simp [unread_bytes, k1, k2, hm])
              simp [unread_bytes, k1, k2] at this
              omega
            · split at h
              · simp at h
              · rename_i bytes hp
                have hps := patchFinalBit_size _ _ _ _ hp
                have := finish_spec _ _ _ _ h
                simp [unread_bytes] at this hps
                simp only [Bitstream.unread] at this hfbi
                omega
          · -- someProgress
            have hend := k3 (Or.inr rfl)
            split at h
            · simp at h
            · rename_i bytes hp
              have hps := patchFinalBit_size _ _ _ _ hp
              have := finish_spec _ _ _ _ h
              simp [unread_bytes, unread_index] at this hps
              omega
          · have := cutSingleBlock_spec _ _ _ _ _ h (by simp [unread_bytes, k1, k2, hm])
            simp [unread_bytes, k1, k2] at this
            omega
          · simp at h

/-- The clamping of `maxEncodedLen` at the top of `Cut`. -/
def clampLimit (limit : Int) (size : Nat) : Nat :=
  let m : Nat := limit.toNat
  let m := if m > 2 ^ 30 then 2 ^ 30 else m
  if m > size then size else m

theorem clampLimit_le (limit : Int) (size : Nat) (h : 0 ≤ limit) :
    clampLimit limit size ≤ size ∧ (clampLimit limit size : Int) ≤ limit := by
  simp only [clampLimit]
  split <;> split <;> omega

theorem Cut_eq (w : Bool) (encoded : Bytes) (limit : Int) :
    Cut w encoded limit =
      if limit < smallestValidMaxEncodedLen then .error .maxEncodedLenTooSmall
      else
        if clampLimit limit encoded.size < smallestValidMaxEncodedLen then .error .notEnoughData
        else
          match ({ bits := { bytes := encoded, index := 0, bits := 0, nBits := 0 }
                   maxEncodedLen := clampLimit limit encoded.size, decodedLen := 0, endCodeBits := 0, endCodeNBits := 0
                   lHuff := Huffman.zero, dHuff := Huffman.zero } : Cutter).cut with
          | .error e => .error e
          | .ok (enc, encodedLen, decodedLen) =>
            if w then
              let r := Spec.inflateRaw #[] (enc.extract 0 encodedLen) none
              match r.status with
              | .corrupt => .error .flateCorrupt
              | .truncated => .error .flateUnexpectedEOF
              | _ =>
                if r.out.size ≠ decodedLen then .error .inconsistentDecodedLen
                else .ok ⟨enc, encodedLen, decodedLen, r.out⟩
            else .ok ⟨enc, encodedLen, decodedLen, #[]⟩ := rfl

/-- **Lengths stay inside the limit and the buffer, for arbitrary bytes and any limit**
(`flatecut.Cut`, with or without a writer): on success `encodedLen ≤ maxEncodedLen`,
`encodedLen ≤ len(encoded)`, and the buffer keeps its length. -/
theorem Cut_lengths_in_bounds (w : Bool) (encoded : Bytes) (limit : Int) (r : CutResult)
    (h : Cut w encoded limit = .ok r) :
    (r.encodedLen : Int) ≤ limit ∧ r.encodedLen ≤ encoded.size ∧ r.encoded.size = encoded.size := by
  rw [Cut_eq] at h
  split at h
  · simp at h
  · rename_i hlim
    simp only [smallestValidMaxEncodedLen] at hlim
    have hcl := clampLimit_le limit encoded.size (by omega)
    generalize clampLimit limit encoded.size = m at h hcl
    split at h
    · simp at h
    · split at h
      · simp at h
      · rename_i enc eLen dLen hc
        have hs := cutLoop_spec _ _ _ _ _ _ hc (by simp only []; omega) (by simp only []; omega)
        simp only [] at hs
        have hfin : r.encodedLen = eLen ∧ r.encoded = enc := by
          split at h
          · cases hst : (Spec.inflateRaw #[] (enc.extract 0 eLen) none).status <;> simp [hst] at h
            all_goals
              split at h <;> simp at h
              subst h
              simp
          · simp at h; subst h; simp
        rw [hfin.1, hfin.2]
        refine ⟨by omega, by omega, hs.2⟩

end WuffsVerif.Flate.Cut

namespace WuffsVerif.Flate.ZlibCut
open WuffsVerif.Flate.Cut

/-- The same for `zlibcut.Cut`. -/
theorem Cut_lengths_in_bounds (encoded : Bytes) (limit : Int) (r : CutResult)
    (h : ZlibCut.Cut encoded limit = .ok r) :
    (r.encodedLen : Int) ≤ limit ∧ r.encodedLen ≤ encoded.size ∧ r.encoded.size = encoded.size := by
  simp only [ZlibCut.Cut] at h
  repeat' split at h
  all_goals first
    | (simp at h; done)
    | skip
  all_goals
    have hb := Cut.Cut_lengths_in_bounds _ _ _ _ (by assumption)
    simp at h
    subst h
    simp [Array.size_extract] at hb ⊢
    omega

end WuffsVerif.Flate.ZlibCut
