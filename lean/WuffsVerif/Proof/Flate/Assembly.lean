/-
C16: THE property over several blocks — the block loop of `cut` against the block loop of the spec
decoder, for streams of stored and fixed-Huffman blocks (`cutLoop_walk`).
-/
import WuffsVerif.Proof.Flate.Sim
import WuffsVerif.Proof.Flate.SingleDict

namespace WuffsVerif.Flate.Cut
open WuffsVerif.Gen.C16 WuffsVerif.Flate.Spec

/-- The spec decoder on a buffer `s''` that keeps the complete blocks of `s` before bit `p` and whose
block at `p` is final and decodes (as the block of `B` at `p` does) to `o`, ending at bit `pos'`. -/
theorem good_final (D s B s'' : Bytes) (n p : Nat) (out : Bytes) (pos' : Nat) (o : Bytes)
    (hr : RReach D s n p out) (hblk : BlockAt B p out pos' o)
    (h1 : ∀ i, i < p → bitAt s'' i = bitAt s i) (h2 : bitAt s'' p = 1)
    (h3 : ∀ i, p + 1 ≤ i → i < pos' → bitAt s'' i = bitAt B i) (hsz : pos' ≤ 8 * s''.size) :
    blocks s'' none 0 (8 * s''.size + 1) 0 D = ⟨.done, pos', o⟩ := by
  obtain ⟨hp3, _, hrob⟩ := hblk
  have hn := hr.prefix
  obtain ⟨f, hf⟩ : ∃ f, 8 * s''.size + 1 = (f + 1) + n := ⟨8 * s''.size - n, by omega⟩
  rw [hf, hr.run s'' h1 (by omega) (f + 1), blocks_succ]
  have hav : ¬ (avail s'' p < 3) := by simp only [avail]; omega
  rw [if_neg hav, hrob s'' h3 hsz]
  simp only [h2, if_true]

/-- `prev` (`prevFinalBlockIndex/NBits`) against the spec's walk: it points just behind the final-block
bit of the last completed block. -/
def PrevInv (D s : Bytes) (n p : Nat) (out : Bytes) (prev : Option (Nat × Nat)) : Prop :=
  match prev with
  | none => n = 0
  | some (i, nb) => ∃ m p' out', n = m + 1 ∧ nb < 8 ∧ 8 * i - nb = p' + 1 ∧ RReach D s m p' out' ∧
      bitAt s p' = 0 ∧ BlockAt s p' out' p out

theorem good_of (D T enc : Bytes) (e d pos' : Nat) (o x : Bytes) (hT : T = o ++ x) (hd : D.size + d = o.size)
    (he : (pos' + 7) / 8 = e)
    (h : blocks (enc.extract 0 e) none 0 (8 * (enc.extract 0 e).size + 1) 0 D = ⟨.done, pos', o⟩) :
    GoodD D T enc e d := by
  refine ⟨⟨pos', ?_, he⟩, by rw [hd, hT]; simp [Array.size_append]⟩
  rw [h, hd, hT, append_extract_left]

/-- What the assembly needs to know about a dynamic block at bit `p`. -/
def DynOK (s : Bytes) (k : Nat) (p : Nat) (out : Bytes) : Prop :=
  ∀ (c : Cutter) (p1 : Nat) (out1 : Bytes) (isFirst : Bool), c.OK → c.bits.bytes = s → c.bits.pos = p + 3 →
    blockBody s none 0 p out = .next p1 out1 → c.decodedLen + (k : Int) = (out.size : Int) → 0 ≤ c.decodedLen →
    (out1.size : Int) < 2147483648 →
    BlockSim s k c p out p1 out1 (c.doDynamicHuffman isFirst) ∧ BlockAt s p out p1 out1

/-- **The block loop of `cut` against the spec decoder.**  `hdyn`: what is known about dynamic blocks
(nothing is needed when there are none, see `Cut_nodyn`; `Cut_all` supplies it for all). -/
theorem cutLoop_walk (D s T : Bytes) (pE0 : Nat)
    (hs : blocks s none 0 (8 * s.size + 1) 0 D = ⟨.done, pE0, T⟩)
    (hT : (T.size : Int) < 2147483648)
    (hdyn : ∀ n p out, RReach D s n p out → bitsLE s (p + 1) 2 = 2 → DynOK s D.size p out) (m : Nat) (hm2 : 2 ≤ m)
    (hm : m ≤ s.size) :
    ∀ (fuel n : Nat) (c : Cutter) (prev : Option (Nat × Nat)) (p : Nat) (out : Bytes) (fuelS pE : Nat)
      (enc : Bytes) (e d : Nat),
    RReach D s n p out → c.OK → c.bits.bytes = s → c.bits.pos = p → c.maxEncodedLen = m →
    c.decodedLen + (D.size : Int) = (out.size : Int) → PrevInv D s n p out prev →
    blocks s none 0 fuelS p out = ⟨.done, pE, T⟩ →
    Cutter.cutLoop fuel c prev = .ok (enc, e, d) → GoodD D T enc e d := by
  intro fuel
  induction fuel with
  | zero => intro n c prev p out fuelS pE enc e d _ _ _ _ _ _ _ _ h; simp [Cutter.cutLoop] at h
  | succ fuel ih =>
    intro n c prev p out fuelS pE enc e d hr hc hb hp hcm hcd hprev hspec h
    obtain ⟨xD, hxD⟩ := hr.extends
    have hosz : D.size ≤ out.size := by rw [hxD]; simp [Array.size_append]
    have hc0 : 0 ≤ c.decodedLen := by omega
    obtain ⟨TD, hTD⟩ := blocks_extends s _ 0 D pE0 T hs
    obtain ⟨fS, p1, out1, rfl, hav, hbody, hfin⟩ := blocks_step s _ p out pE T hspec
    obtain ⟨xT, hxT⟩ := blocks_extends s _ p out pE T hspec
    -- out1 is a prefix of T
    have hT1 : ∃ y, T = out1 ++ y := by
      rcases hfin with ⟨_, _, h3⟩ | ⟨_, h3⟩
      · exact ⟨#[], by rw [h3]; simp⟩
      · exact blocks_extends s _ _ _ _ _ h3
    obtain ⟨yT, hyT⟩ := hT1
    have hT1sz : (out1.size : Int) < 2147483648 := by
      have : T.size = out1.size + yT.size := by rw [hyT]; simp [Array.size_append]
      omega
    simp only [avail] at hav
    have hpl := Inv.pos_le hc.inv
    rw [hb, hp] at hpl
    simp only [Cutter.cutLoop] at h
    -- the final-block bit
    obtain ⟨t1, i1, q1, y1⟩ := take_avail c.bits hc.inv 1 (by omega) (by rw [hb, hp]; simp only [avail]; omega)
    generalize c.bits.take 1 = r1 at h t1 i1 q1 y1
    obtain ⟨fb, bits1⟩ := r1
    simp only [] at h t1 i1 q1 y1
    rw [hb, hp, bitsLE_one] at t1
    rw [hp] at q1
    rw [hb] at y1
    have hfb0 : ¬ (fb < 0) := by rw [t1]; omega
    simp only [hfb0, if_false] at h
    obtain ⟨iu, pu⟩ := Inv.unread i1
    have hfbn := unread_nBits_lt bits1
    have hfbp : 8 * bits1.unread.index - bits1.unread.nBits = p + 1 := by
      have : bits1.unread.pos = p + 1 := by rw [pu, q1]
      exact this
    have hfbw := iu.nBits_le
    generalize bits1.unread.index = fbi at h hfbp hfbw
    generalize bits1.unread.nBits = fbn at h hfbn hfbp hfbw
    -- the block type
    obtain ⟨t2, i2, q2, y2⟩ := take_avail bits1 i1 2 (by omega) (by rw [y1, q1]; simp only [avail]; omega)
    generalize bits1.take 2 = r2 at h t2 i2 q2 y2
    obtain ⟨bt, bits2⟩ := r2
    simp only [] at h t2 i2 q2 y2
    rw [y1, q1] at t2
    rw [q1] at q2
    have hy : bits2.bytes = s := by rw [y2, y1]
    have htlt := bitsLE_lt s (p + 1) 2
    have hbt0 : ¬ (bt < 0) := by rw [t2]; omega
    have hty3 : bitsLE s (p + 1) 2 ≠ 3 := by
      intro h3
      simp [blockBody, h3] at hbody
    have hbt3 : ¬ (bt = 3) := by rw [t2]; omega
    simp only [hbt0, hbt3, if_false] at h
    have hc2 : ({ c with bits := bits2 } : Cutter).OK :=
      ⟨i2, by show c.maxEncodedLen ≤ bits2.bytes.size; rw [hy, hcm]; exact hm, hc.l, hc.d⟩
    generalize hblk : (if bt = 0 then Cutter.doStored { c with bits := bits2 }
        else if bt = 1 then Cutter.doStaticHuffman { c with bits := bits2 } prev.isNone
        else Cutter.doDynamicHuffman { c with bits := bits2 } prev.isNone) = blk at h
    have hboth : BlockSim s D.size { c with bits := bits2 } p out p1 out1 blk ∧ BlockAt s p out p1 out1 := by
      rw [← hblk]
      have : bitsLE s (p + 1) 2 = 0 ∨ bitsLE s (p + 1) 2 = 1 ∨ bitsLE s (p + 1) 2 = 2 := by
        have : (2 : Nat) ^ 2 = 4 := by decide
        omega
      rcases this with hty | hty | hty
      · have : bt = 0 := by rw [t2, hty]; rfl
        rw [this]
        simp only [if_true]
        exact ⟨stored_blocksim s _ hc2 hy p q2 out p1 out1 hty hbody D.size hcd hc0 hT1sz, blockAt_stored s p out p1 out1 hty hbody⟩
      · have : bt = 1 := by rw [t2, hty]; rfl
        rw [this]
        have e10 : ¬ ((1 : Int) = 0) := by omega
        simp only [e10, if_false, if_true]
        exact ⟨fixed_blocksim s _ hc2 hy p q2 out p1 out1 hty hbody D.size hcd hc0 hT1sz _, blockAt_fixed s p out p1 out1 hty hbody⟩
      · have : bt = 2 := by rw [t2, hty]; rfl
        rw [this]
        have e20 : ¬ ((2 : Int) = 0) := by omega
        have e21 : ¬ ((2 : Int) = 1) := by omega
        simp only [e20, e21, if_false]
        exact hdyn n p out hr hty _ p1 out1 _ hc2 hy q2 hbody hcd hc0 hT1sz
    obtain ⟨hsim, hblkAt⟩ := hboth
    obtain ⟨c3, err⟩ := blk
    obtain ⟨k1, k2, k3, k4, k5, k6⟩ := hsim
    have hk1 : c3.bits.bytes.size = s.size := k1
    have hk2 : c3.maxEncodedLen = m := by
      have : c3.maxEncodedLen = c.maxEncodedLen := k2
      rw [this, hcm]
    try simp only [] at h
    split at h
    · -- nil
      obtain ⟨a1, a2, a3, a4, a5⟩ := k3 rfl
      have a1 : c3.bits.bytes = s := a1
      have a2 : c3.bits.pos = p1 := a2
      have a3 : c3.decodedLen + (D.size : Int) = (out1.size : Int) := a3
      have a5 : c3.OK := a5
      obtain ⟨iu3, pu3⟩ := Inv.unread a5.inv
      rcases hfin with ⟨hf1, hf2, hf3⟩ | ⟨hf0, hcont⟩
      · -- the final block: the whole stream is kept
        have hfb1 : ¬ (fb = 0) := by rw [t1, hf1]; omega
        simp only [hfb1, if_false] at h
        subst hf2; subst hf3
        obtain ⟨f1, f2, f3, f4⟩ := finish_bits _ enc e d h (unread_nBits_lt _) iu3.nBits_le
        have f1 : e = c3.bits.unread.index := f1
        have f2 : d = c3.decodedLen.toNat := f2
        have f3 : enc.size = c3.bits.unread.bytes.size := f3
        have hpos : 8 * c3.bits.unread.index - c3.bits.unread.nBits = p1 := by
          have : c3.bits.unread.pos = p1 := by rw [pu3, a2]
          exact this
        have hnb := unread_nBits_lt c3.bits
        have hesz : e ≤ enc.size := by rw [f1, f3]; exact iu3.index_le
        have hsz'' : (enc.extract 0 e).size = e := extract_size_le enc e hesz
        have hbits : ∀ i, i < p1 → bitAt (enc.extract 0 e) i = bitAt s i := by
          intro i hi
          rw [bitAt_extract _ _ _ (by omega), f4 i]
          have : ¬ (8 * c3.bits.unread.index - c3.bits.unread.nBits ≤ i ∧ i < 8 * c3.bits.unread.index) := by omega
          rw [if_neg this]
          show bitAt c3.bits.bytes i = bitAt s i
          rw [a1]
        have hp3 := hblkAt.1
        have := good_final D s s (enc.extract 0 e) n p out p1 out1 hr hblkAt (fun i hi => hbits i (by omega))
          (by rw [hbits p (by omega)]; exact hf1) (fun i _ hi => hbits i hi) (by rw [hsz'']; omega)
        have ho1sz : out.size ≤ out1.size := by
          obtain ⟨y1, hy1⟩ := hblkAt.2.1
          rw [hy1]; simp [Array.size_append]
        exact good_of D out1 enc e d p1 out1 #[] (by simp) (by rw [f2]; omega) (by omega) this
      · -- not final: go on with the next block
        have hfb0' : fb = 0 := by rw [t1, hf0]; rfl
        simp only [hfb0', if_true] at h
        refine ih (n + 1) { c3 with bits := c3.bits.unread } _ p1 out1 fS pE enc e d
          (RReach.step hr hf0 hblkAt) ⟨iu3, a5.max, a5.l, a5.d⟩ (by show c3.bits.unread.bytes = s; rw [unread_bytes, a1])
          (by show c3.bits.unread.pos = p1; rw [pu3, a2]) hk2 a3 ?_ hcont h
        exact ⟨n, p, out, rfl, hfbn, hfbp, hr, hf0, hblkAt⟩
    · -- errInternalNoProgress
      have hbs : c3.bits.bytes = s := k5 (Or.inl rfl)
      have hdl : c3.decodedLen + (D.size : Int) = (out.size : Int) := by
        have : c3.decodedLen = c.decodedLen := k6 rfl
        rw [this]; exact hcd
      simp only [unread_bytes] at h
      split at h
      · rw [hbs, hk2] at h
        rw [hTD]
        exact goodD_of_good D TD enc e d (cutSingleBlock_good_dict D s TD pE0 (by rw [← hTD]; exact hs) m enc e d hm h)
      · rename_i pi pn
        -- a previous block exists: cut before this block, mark the previous block final
        obtain ⟨mm, p', out', hnm, hpn8, hpp, hr', hf0', hblk'⟩ := hprev
        split at h
        · simp at h
        · rename_i b' hpb
          rw [hbs] at hpb
          obtain ⟨_, _, g3, g4⟩ := patchFinalBit_bits _ _ _ _ hpb hpn8
          have hwf : (({ c3.bits with index := fbi, nBits := fbn + 1 } : Bitstream).unread).nBits ≤
              8 * (({ c3.bits with index := fbi, nBits := fbn + 1 } : Bitstream).unread).index := by
            simp only [Bitstream.unread]; omega
          obtain ⟨f1, f2, f3, f4⟩ := finish_bits _ enc e d h (unread_nBits_lt _) hwf
          simp only [Bitstream.unread] at f1 f3 f4
          have f2 : d = c3.decodedLen.toNat := f2
          have hp'3 := hblk'.1
          have hposc : 8 * (fbi - (fbn + 1) / 8) - (fbn + 1) % 8 = p := by omega
          have hesz : e ≤ enc.size := by
            have : enc.size = s.size := by rw [f3, g3]
            have : 8 * (fbi - (fbn + 1) / 8) ≤ p + 7 := by omega
            omega
          have hsz'' : (enc.extract 0 e).size = e := extract_size_le enc e hesz
          have hbits : ∀ i, i < p → bitAt (enc.extract 0 e) i = if i = p' then 1 else bitAt s i := by
            intro i hi
            rw [bitAt_extract _ _ _ (by omega), f4 i]
            have : ¬ (8 * (fbi - (fbn + 1) / 8) - (fbn + 1) % 8 ≤ i ∧ i < 8 * (fbi - (fbn + 1) / 8)) := by omega
            simp only [this, if_false]
            rw [g4 i]
            have : 8 * pi - pn - 1 = p' := by omega
            rw [this]
          have := good_final D s s (enc.extract 0 e) mm p' out' p out hr' hblk'
            (fun i hi => by rw [hbits i (by omega)]; have : ¬ (i = p') := by omega
                            rw [if_neg this])
            (by rw [hbits p' (by omega)]; simp)
            (fun i h1 h2 => by rw [hbits i h2]; have : ¬ (i = p') := by omega
                               rw [if_neg this])
            (by rw [hsz'']; omega)
          exact good_of D T enc e d p out xT hxT (by rw [f2]; omega) (by omega) this
    · -- errInternalSomeProgress
      obtain ⟨pos', o, b1, b2, b3, b4, b5, ⟨x1, hx1⟩, b7, b8⟩ := k4 rfl
      have b1 : 8 * c3.bits.index - c3.bits.nBits = pos' := b1
      have b2 : c3.bits.nBits ≤ 8 * c3.bits.index := b2
      have b3 : c3.bits.nBits ≤ 8 := b3
      have b4 : pos' ≤ 8 * m := by have : pos' ≤ 8 * c.maxEncodedLen := b4
                                   rw [hcm] at this; exact this
      have b5 : c3.decodedLen + (D.size : Int) = (o.size : Int) := b5
      have b7 : ∀ i, i ≤ p → bitAt c3.bits.bytes i = bitAt s i := b7
      have b8 : BlockAt c3.bits.bytes p out pos' o := b8
      simp only [unread_bytes] at h
      split at h
      · simp at h
      · rename_i b' hpb
        obtain ⟨_, _, g3, g4⟩ := patchFinalBit_bits _ _ _ _ hpb hfbn
        have hwf : c3.bits.unread.nBits ≤ 8 * c3.bits.unread.index := by
          simp only [Bitstream.unread]; omega
        obtain ⟨f1, f2, f3, f4⟩ := finish_bits _ enc e d h (unread_nBits_lt _) hwf
        have f1 : e = c3.bits.unread.index := f1
        have f2 : d = c3.decodedLen.toNat := f2
        have f3 : enc.size = b'.size := f3
        have hpos : 8 * c3.bits.unread.index - c3.bits.unread.nBits = pos' := by
          simp only [Bitstream.unread]; omega
        have hnb := unread_nBits_lt c3.bits
        have hp3 := b8.1
        have hesz : e ≤ enc.size := by
          have : enc.size = s.size := by rw [f3, g3]; exact hk1
          have : 8 * c3.bits.unread.index ≤ pos' + 7 := by omega
          omega
        have hsz'' : (enc.extract 0 e).size = e := extract_size_le enc e hesz
        have hbits : ∀ i, i < pos' → bitAt (enc.extract 0 e) i = if i = p then 1 else bitAt c3.bits.bytes i := by
          intro i hi
          rw [bitAt_extract _ _ _ (by omega), f4 i]
          have : ¬ (8 * c3.bits.unread.index - c3.bits.unread.nBits ≤ i ∧ i < 8 * c3.bits.unread.index) := by omega
          rw [if_neg this]
          show bitAt b' i = _
          rw [g4 i]
          have : 8 * fbi - fbn - 1 = p := by omega
          rw [this]
        have := good_final D s c3.bits.bytes (enc.extract 0 e) n p out pos' o hr b8
          (fun i hi => by rw [hbits i (by omega)]; have : ¬ (i = p) := by omega
                          rw [if_neg this, b7 i (by omega)])
          (by rw [hbits p (by omega)]; simp)
          (fun i h1 h2 => by rw [hbits i h2]; have : ¬ (i = p) := by omega
                             rw [if_neg this])
          (by rw [hsz'']; omega)
        have hosz' : out.size ≤ o.size := by
          obtain ⟨y1, hy1⟩ := b8.2.1
          rw [hy1]; simp [Array.size_append]
        exact good_of D T enc e d pos' o (x1 ++ yT) (by rw [hyT, hx1, Array.append_assoc]) (by rw [f2]; omega)
          (by omega) this
    · -- errInternalReplaceWithSingleBlock
      have hbs : c3.bits.bytes = s := k5 (Or.inr rfl)
      simp only [unread_bytes] at h
      rw [hbs, hk2] at h
      rw [hTD]
      exact goodD_of_good D TD enc e d (cutSingleBlock_good_dict D s TD pE0 (by rw [← hTD]; exact hs) m enc e d hm h)
    · simp at h

/-- **THE property for every valid stream of stored and fixed-Huffman blocks** (any number of blocks, in
any order; `hnd` excludes dynamic blocks): `flatecut.Cut`, with or without a writer, any limit. -/
theorem Cut_nodyn (w : Bool) (s T : Bytes) (n0 : Nat) (limit : Int) (r : CutResult)
    (hs : Spec.inflate s = some (T, n0)) (hT : T.size < 2147483648)
    (hnd : ∀ n p out, RReach #[] s n p out → bitsLE s (p + 1) 2 ≠ 2) (h : Cut w s limit = .ok r) :
    Spec.inflate (r.encoded.extract 0 r.encodedLen) = some (T.extract 0 r.decodedLen, r.encodedLen) ∧
    r.decodedLen ≤ T.size ∧ (w = true → r.written = T.extract 0 r.decodedLen) := by
  obtain ⟨pE, hblk, _⟩ := inflate_blocks s T n0 hs
  rw [Cut_eq] at h
  split at h
  · simp at h
  · rename_i hlim
    simp only [smallestValidMaxEncodedLen] at hlim
    have hcl := clampLimit_le limit s.size (by omega)
    generalize clampLimit limit s.size = m at h hcl
    split at h
    · simp at h
    · rename_i hm2
      simp only [smallestValidMaxEncodedLen] at hm2
      split at h
      · simp at h
      · rename_i enc eLen dLen hc
        have hg := good_of_goodD T enc eLen dLen
          (cutLoop_walk #[] s T pE hblk (by omega) (fun n p out hr h2 => absurd h2 (hnd n p out hr)) m (by omega) hcl.1
            (8 * s.size + 2) 0
            ⟨⟨s, 0, 0, 0⟩, m, 0, 0, 0, Huffman.zero, Huffman.zero⟩ none 0 #[] (8 * s.size + 1) pE enc eLen dLen
            RReach.zero ⟨inv_fresh s 0 (Nat.zero_le _), hcl.1, Huffman.zero_shape, Huffman.zero_shape⟩ rfl rfl rfl
            (by simp) rfl hblk hc)
        obtain ⟨hg1, hg2⟩ := hg
        have hio := inflate_some_out _ _ _ hg1
        split at h
        · rename_i hw
          simp only [hio.1, hio.2] at h
          split at h <;> simp at h
          subst h
          exact ⟨hg1, hg2, fun _ => rfl⟩
        · rename_i hw
          simp at h
          subst h
          exact ⟨hg1, hg2, fun hw' => absurd hw' hw⟩

end WuffsVerif.Flate.Cut
