/-
C16: `huffman.construct` against the canonical code assignment of RFC 1951 §3.2.2.
Part 1: the counts, the over/under-subscription loop, and the end-of-block code.
-/
import WuffsVerif.Proof.Flate.Basic

namespace WuffsVerif.Flate.Cut
open WuffsVerif.Gen.C16

/-! ### RFC 1951 §3.2.2, steps 1–3, written down literally -/

/-- Step 1: `bl_count[L]`, the number of codes of length `L` (`bl_count[0] = 0`). -/
def rfcBlCount (lengths : Array Nat) (L : Nat) : Nat :=
  if L = 0 then 0 else (lengths.toList.filter (· = L)).length

/-- Step 2: `next_code[L]`, the smallest code of length `L`. -/
def rfcNextCode (lengths : Array Nat) : Nat → Nat
  | 0 => 0
  | L + 1 => (rfcNextCode lengths L + rfcBlCount lengths L) * 2

/-- Step 3: the code of symbol `sym` (meaningful when its length is not 0): `next_code[len]` plus
the number of earlier symbols of the same length. -/
def rfcCode (lengths : Array Nat) (sym : Nat) : Nat :=
  rfcNextCode lengths (lengths.getD sym 0) +
    ((lengths.toList.take sym).filter (· = lengths.getD sym 0)).length

/-! ### `h.counts` -/

/-- The `for _, x := range lengths { h.counts[x]++ }` loop. -/
def countsOf (lengths : List Nat) (c : Array Nat) : Array Nat :=
  lengths.foldl (fun c x => c.setIfInBounds x (c.getD x 0 + 1)) c

theorem countsOf_size (lengths : List Nat) (c : Array Nat) : (countsOf lengths c).size = c.size := by
  induction lengths generalizing c with
  | nil => rfl
  | cons x xs ih => simp [countsOf, List.foldl_cons] at *; rw [ih]; simp

theorem countsOf_getD (lengths : List Nat) (c : Array Nat) (L : Nat) (hL : L < c.size) :
    (countsOf lengths c).getD L 0 = c.getD L 0 + (lengths.filter (· = L)).length := by
  induction lengths generalizing c with
  | nil => simp [countsOf]
  | cons x xs ih =>
    simp only [countsOf, List.foldl_cons] at *
    rw [ih _ (by simp; exact hL)]
    simp only [Array.getD_eq_getD_getElem?, Array.getElem?_setIfInBounds, List.filter_cons]
    by_cases hx : x = L
    · subst hx
      simp [hL]
      omega
    · simp [hx]

/-! ### the over/under-subscription loop -/

/-- Codes still free at length `L` (`remaining` after iteration `L` of the loop):
`2^L - Σ_{j≤L} bl_count[j]·2^(L-j)`. -/
def remAt (lengths : Array Nat) : Nat → Nat
  | 0 => 1
  | L + 1 => 2 * remAt lengths L - rfcBlCount lengths (L + 1)

/-- No length up to `L` is over-subscribed. -/
def NoOver (lengths : Array Nat) (L : Nat) : Prop :=
  ∀ j, 1 ≤ j → j ≤ L → rfcBlCount lengths j ≤ 2 * remAt lengths (j - 1)

theorem remAt_le (lengths : Array Nat) (L : Nat) : remAt lengths L ≤ 2 ^ L := by
  induction L with
  | zero => simp [remAt]
  | succ L ih => simp only [remAt, Nat.pow_succ]; omega

/-- `next_code[L] + bl_count[L] + remaining_L = 2^L`: the codes of length `L` end right below the
prefixes that are still free. -/
theorem nextCode_add (lengths : Array Nat) (L : Nat) (hL : 1 ≤ L) (hno : NoOver lengths L) :
    rfcNextCode lengths L + rfcBlCount lengths L + remAt lengths L = 2 ^ L := by
  induction L with
  | zero => omega
  | succ L ih =>
    have hcur := hno (L + 1) (by omega) (Nat.le_refl _)
    simp only [Nat.add_sub_cancel] at hcur
    by_cases h0 : L = 0
    · subst h0
      simp only [rfcNextCode, rfcBlCount, remAt, if_true] at *
      simp at hcur ⊢
      omega
    · have := ih (by omega) (fun j h1 h2 => hno j h1 (by omega))
      simp only [rfcNextCode, remAt, Nat.pow_succ]
      omega

/-- The value of `extra` in `constructCheck`: symbols after 256 with the end code's length. -/
def afterEnd (lengths : Array Nat) (L : Nat) : Nat :=
  ((lengths.extract 257 lengths.size).filter (· = L)).size

/-- The `endCodeBits` the loop computes at `i = endCodeLength = L`. -/
def endBitsAt (lengths : Array Nat) (L : Nat) : Nat :=
  ((if L < 32 then 2 ^ L else 0) + 4294967296 + 4294967295 -
    (remAt lengths L + afterEnd lengths L) % 4294967296) % 4294967296

theorem constructCheck_spec (counts lengths : Array Nat) (ecl : Nat)
    (hcounts : ∀ j, 1 ≤ j → j ≤ 15 → counts.getD j 0 = rfcBlCount lengths j)
    (rem i ecb ecn : Nat) (hi : i + rem = 16) (hi1 : 1 ≤ i)
    (r' ecb' ecn' : Nat)
    (h : constructCheck counts lengths ecl rem i (remAt lengths (i - 1)) ecb ecn = some (r', ecb', ecn')) :
    r' = remAt lengths 15 ∧
    (∀ j, i ≤ j → j ≤ 15 → rfcBlCount lengths j ≤ 2 * remAt lengths (j - 1)) ∧
    (if i ≤ ecl ∧ ecl ≤ 15 then ecn' = ecl ∧ ecb' = endBitsAt lengths ecl else ecb' = ecb ∧ ecn' = ecn) := by
  induction rem generalizing i ecb ecn with
  | zero =>
    simp [constructCheck] at h
    obtain ⟨rfl, rfl, rfl⟩ := h
    have : i = 16 := by omega
    subst this
    refine ⟨rfl, fun j h1 h2 => by omega, ?_⟩
    have : ¬ (16 ≤ ecl ∧ ecl ≤ 15) := by omega
    simp [this]
  | succ rem ih =>
    simp only [constructCheck] at h
    have hpow := remAt_le lengths (i - 1)
    have hp15 : 2 ^ (i - 1) ≤ 2 ^ 15 := Nat.pow_le_pow_right (by omega) (by omega)
    have hmod : remAt lengths (i - 1) * 2 % 4294967296 = 2 * remAt lengths (i - 1) := by omega
    rw [hmod, hcounts i hi1 (by omega)] at h
    split at h
    · simp at h
    · rename_i hnover
      have hstep : 2 * remAt lengths (i - 1) - rfcBlCount lengths i = remAt lengths (i + 1 - 1) := by
        obtain ⟨k, rfl⟩ : ∃ k, i = k + 1 := ⟨i - 1, by omega⟩
        simp [remAt]
      rw [hstep] at h
      split at h
      · rename_i heq
        subst heq
        have := ih (i + 1) _ _ (by omega) (by omega) h
        obtain ⟨a1, a2, a3⟩ := this
        refine ⟨a1, ?_, ?_⟩
        · intro j h1 h2
          by_cases hj : j = i
          · subst hj; omega
          · exact a2 j (by omega) h2
        · have hc : i ≤ i ∧ i ≤ 15 := ⟨Nat.le_refl _, by omega⟩
          have hc' : ¬ (i + 1 ≤ i ∧ i ≤ 15) := by omega
          simp only [hc, and_self, if_true]
          simp only [hc', if_false] at a3
          refine ⟨a3.2, ?_⟩
          rw [a3.1]
          simp only [endBitsAt, afterEnd, Nat.add_sub_cancel]
      · rename_i hne
        have := ih (i + 1) _ _ (by omega) (by omega) h
        obtain ⟨a1, a2, a3⟩ := this
        refine ⟨a1, ?_, ?_⟩
        · intro j h1 h2
          by_cases hj : j = i
          · subst hj; omega
          · exact a2 j (by omega) h2
        · by_cases hc : i ≤ ecl ∧ ecl ≤ 15
          · have hc' : i + 1 ≤ ecl ∧ ecl ≤ 15 := by omega
            simp only [hc, and_self, if_true]
            simp only [hc', and_self, if_true] at a3
            exact a3
          · have hc' : ¬ (i + 1 ≤ ecl ∧ ecl ≤ 15) := by omega
            simp only [hc, if_false]
            simp only [hc', if_false] at a3
            exact a3

/-! ### `construct` -/

theorem afterEnd_eq (lengths : Array Nat) (L : Nat) :
    afterEnd lengths L = ((lengths.toList.drop 257).filter (· = L)).length := by
  simp only [afterEnd]
  rw [← Array.length_toList, Array.toList_filter, Array.toList_extract]
  have h2 : (lengths.toList.drop 257).take (lengths.toList.length - 257) = lengths.toList.drop 257 :=
    List.take_of_length_le (by simp)
  simp only [List.extract, Array.length_toList] at h2 ⊢
  simp [h2]

theorem blCount_split (lengths : Array Nat) (L : Nat) (hL : L ≠ 0) (h256 : 256 < lengths.size)
    (hl : lengths.getD 256 0 = L) :
    rfcBlCount lengths L =
      ((lengths.toList.take 256).filter (· = L)).length + 1 + afterEnd lengths L := by
  simp only [rfcBlCount, hL, if_false, afterEnd_eq]
  have hlen : 256 < lengths.toList.length := by simpa using h256
  have hsplit : lengths.toList = lengths.toList.take 256 ++ lengths.toList[256] :: lengths.toList.drop 257 := by
    rw [← List.drop_eq_getElem_cons hlen, List.take_append_drop]
  have hel : lengths.toList[256] = L := by
    rw [← hl]; simp [Array.getD, h256]
  conv => lhs; rw [hsplit]
  simp [List.filter_append, List.filter_cons, hel]
  omega

/-- What a successful `construct` establishes about the lengths and about its two results. -/
theorem construct_facts (h0 h : Huffman) (lengths : Array Nat) (ecb ecn : Nat)
    (hc : h0.construct lengths = .ok (h, ecb, ecn)) :
    (∀ x ∈ lengths.toList, x ≤ 15) ∧ NoOver lengths 15 ∧
    (remAt lengths 15 = 0 ∨
      ((countsOf lengths.toList (Array.replicate 16 0)).getD 0 0 + 1 = lengths.size ∧ rfcBlCount lengths 1 = 1)) ∧
    (if lengths.size > 256 ∧ lengths.getD 256 0 ≠ 0 then
        ecn = lengths.getD 256 0 ∧ ecb = endBitsAt lengths (lengths.getD 256 0)
      else ecn = 0 ∧ ecb = 0) := by
  simp only [Huffman.construct] at hc
  split at hc
  · simp at hc
  · rename_i hany
    have hle : ∀ x ∈ lengths.toList, x ≤ 15 := by
      intro x hx
      rcases Nat.lt_or_ge 15 x with hlt | hge
      · exfalso
        apply hany
        rw [Array.any_eq_true']
        exact ⟨x, by simpa using hx, by simpa [maxCodeBits] using hlt⟩
      · exact hge
    have hcounts : ∀ j, 1 ≤ j → j ≤ 15 →
        (lengths.foldl (fun c x => c.setIfInBounds x (c.getD x 0 + 1)) (Array.replicate (maxCodeBits + 1) 0)).getD j 0 =
          rfcBlCount lengths j := by
      intro j h1 h2
      rw [← Array.foldl_toList]
      have := countsOf_getD lengths.toList (Array.replicate (maxCodeBits + 1) 0) j (by simp [maxCodeBits]; omega)
      simp only [countsOf] at this
      rw [this]
      have hj : j ≠ 0 := by omega
      simp [rfcBlCount, hj, Array.getD, maxCodeBits]
    split at hc
    · simp at hc
    · split at hc
      · simp at hc
      · rename_i remaining ecb0 ecn0 hchk
        have hspec := constructCheck_spec _ lengths _ hcounts 15 1 0 0 rfl (Nat.le_refl _) remaining ecb0 ecn0 hchk
        obtain ⟨s1, s2, s3⟩ := hspec
        split at hc
        · simp at hc
        · rename_i hfin
          have hres : ecb = ecb0 ∧ ecn = ecn0 := by
            repeat' split at hc
            all_goals first
              | (simp at hc; done)
              | (simp at hc; exact ⟨hc.2.1.symm, hc.2.2.symm⟩)
          refine ⟨hle, fun j h1 h2 => s2 j h1 h2, ?_, ?_⟩
          · subst s1
            by_cases hz : remAt lengths 15 = 0
            · exact Or.inl hz
            · right
              have := hfin
              simp only [hz, ne_eq, not_false_eq_true, true_and, Decidable.not_not] at this
              rw [hcounts 1 (by omega) (by omega)] at this
              rw [← Array.foldl_toList] at this
              exact ⟨by simpa [countsOf, maxCodeBits] using this.1, this.2⟩
          · rw [hres.1, hres.2]
            by_cases hcond : lengths.size > 256 ∧ lengths.getD 256 0 ≠ 0
            · have hL15 : lengths.getD 256 0 ≤ 15 := by
                apply hle
                simp [Array.getD, hcond.1]
              have hc1 : 1 ≤ lengths.getD 256 0 ∧ lengths.getD 256 0 ≤ 15 := ⟨by omega, hL15⟩
              simp only [hcond.1, if_true, hc1, and_self] at s3
              rw [if_pos hcond]
              exact s3
            · rw [if_neg hcond]
              by_cases hsz : lengths.size > 256
              · have hz : lengths.getD 256 0 = 0 := by
                  rcases Nat.eq_zero_or_pos (lengths.getD 256 0) with hz | hp
                  · exact hz
                  · exact absurd ⟨hsz, by omega⟩ hcond
                have hc1 : ¬ (1 ≤ lengths.getD 256 0 ∧ lengths.getD 256 0 ≤ 15) := by omega
                simp only [hsz, if_true, hc1, if_false] at s3
                exact ⟨s3.2, s3.1⟩
              · have hc1 : ¬ (1 ≤ 0 ∧ 0 ≤ 15) := by omega
                simp only [hsz, if_false, hc1] at s3
                exact ⟨s3.2, s3.1⟩

/-- **The end-of-block code is canonical**: when `construct` accepts lengths that give symbol 256 a
code, the `(endCodeBits, endCodeNBits)` it returns — which `writeEndCode` later writes into the
stream — is exactly the RFC 1951 §3.2.2 code of symbol 256; otherwise `endCodeNBits = 0`
(and `doHuffman` reports errInvalidNoEndOfBlock). -/
theorem endCode_canonical (h0 h : Huffman) (lengths : Array Nat) (ecb ecn : Nat)
    (hc : h0.construct lengths = .ok (h, ecb, ecn)) :
    if lengths.size > 256 ∧ lengths.getD 256 0 ≠ 0 then
      ecn = lengths.getD 256 0 ∧ ecb = rfcCode lengths 256 ∧ ecb < 2 ^ ecn
    else ecn = 0 := by
  obtain ⟨hle, hno, _, hend⟩ := construct_facts h0 h lengths ecb ecn hc
  by_cases hcond : lengths.size > 256 ∧ lengths.getD 256 0 ≠ 0
  · rw [if_pos hcond] at hend ⊢
    obtain ⟨hn, hb⟩ := hend
    generalize hL : lengths.getD 256 0 = L at *
    have hL15 : L ≤ 15 := by
      rw [← hL]; apply hle; simp [Array.getD, hcond.1]
    have hL1 : 1 ≤ L := by omega
    have hadd := nextCode_add lengths L hL1 (fun j h1 h2 => hno j h1 (by omega))
    have hsplit := blCount_split lengths L (by omega) hcond.1 hL
    have hpow : 2 ^ L ≤ 2 ^ 15 := Nat.pow_le_pow_right (by omega) hL15
    have hpos : 0 < 2 ^ L := Nat.two_pow_pos L
    have hval : endBitsAt lengths L = rfcCode lengths 256 := by
      simp only [endBitsAt, rfcCode, hL]
      have h32 : L < 32 := by omega
      simp only [h32, if_true]
      omega
    refine ⟨hn, by rw [hb, hval], ?_⟩
    rw [hb, hval, hn]
    simp only [rfcCode, hL]
    omega
  · rw [if_neg hcond] at hend ⊢
    exact hend.1

/-! ### acceptance = complete (Kraft) or the one-code degenerate tree -/

/-- `Σ_{j=1..L} bl_count[j] · 2^(L-j)`: the Kraft sum of the lengths up to `L`, scaled by `2^L`. -/
def kraftSum (lengths : Array Nat) : Nat → Nat
  | 0 => 0
  | L + 1 => 2 * kraftSum lengths L + rfcBlCount lengths (L + 1)

theorem remAt_kraft (lengths : Array Nat) (L : Nat) (hno : NoOver lengths L) :
    remAt lengths L + kraftSum lengths L = 2 ^ L := by
  induction L with
  | zero => simp [remAt, kraftSum]
  | succ L ih =>
    have := ih (fun j h1 h2 => hno j h1 (by omega))
    have hcur := hno (L + 1) (by omega) (Nat.le_refl _)
    simp only [Nat.add_sub_cancel] at hcur
    simp only [remAt, kraftSum, Nat.pow_succ]
    omega

/-- **What `construct` accepts**: every length is at most 15, not all are zero … and the code is
complete (Kraft sum exactly 1, no length over-subscribed) or it is the degenerate tree with a
single code of length 1. -/
theorem construct_accepts (h0 h : Huffman) (lengths : Array Nat) (ecb ecn : Nat)
    (hc : h0.construct lengths = .ok (h, ecb, ecn)) :
    (∀ x ∈ lengths.toList, x ≤ 15) ∧ NoOver lengths 15 ∧
    (kraftSum lengths 15 = 2 ^ 15 ∨
      ((lengths.toList.filter (· = 0)).length + 1 = lengths.size ∧ rfcBlCount lengths 1 = 1)) := by
  obtain ⟨hle, hno, hfin, _⟩ := construct_facts h0 h lengths ecb ecn hc
  refine ⟨hle, hno, ?_⟩
  have hk := remAt_kraft lengths 15 hno
  rcases hfin with hz | hd
  · left; omega
  · right
    have := countsOf_getD lengths.toList (Array.replicate 16 0) 0 (by simp)
    rw [this] at hd
    simp at hd
    exact ⟨by omega, hd.2⟩

end WuffsVerif.Flate.Cut
