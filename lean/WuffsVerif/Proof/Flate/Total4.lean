/-
C16: the cutter never panics and never runs out of fuel (part 6): `doDynamicHuffman`.
-/
import WuffsVerif.Proof.Flate.Total3

namespace WuffsVerif.Flate.Cut
open WuffsVerif.Gen.C16

/-- base + extra bits with the value spelled out (header fields, repeat counts). -/
theorem base_take_val (b : Bitstream) (hb : b.Inv) (base : Int) (n : Nat) (hn : n ≤ 13)
    (h0 : 0 ≤ base) (h1 : base < 65536) (hnn : ¬ wrap32 (base + (b.take n).1) < 0) :
    ∃ v : Nat, v < 2 ^ n ∧ v = Spec.bitsLE b.bytes b.pos n ∧ (b.take n).1 = (v : Int) ∧
      wrap32 (base + (b.take n).1) = base + (v : Int) ∧ (b.take n).2.Inv ∧ (b.take n).2.pos = b.pos + n := by
  obtain ⟨_, h⟩ := take_ok' b hb n (by omega)
  rcases h with ⟨h2, _⟩ | ⟨h2, h3, h4⟩
  · exfalso
    rw [h2] at hnn
    simp only [wrap32, mostNegativeInt32] at hnn
    omega
  · have hlt := bitsLE_lt b.bytes b.pos n
    have hp : 2 ^ n ≤ 2 ^ 13 := Nat.pow_le_pow_right (by omega) hn
    refine ⟨_, hlt, rfl, h2, ?_, h3, h4⟩
    rw [h2]
    apply wrap32_range
    · omega
    · have : Spec.bitsLE b.bytes b.pos n < 8192 := by
        have : (2 : Nat) ^ 13 = 8192 := by decide
        omega
      omega

theorem codeOrder_facts : codeOrder.size = 19 ∧ ∀ i, i < 19 → codeOrder.getD i 0 < 19 := by decide

/-- The code-length code lengths: 3 bits each, stored at `codeOrder[i]`. -/
theorem readCodeLengthLengths_total (rem i : Nat) (b : Bitstream) (lengths : Array Nat)
    (hb : b.Inv) (hi : i + rem ≤ 19) (hsz : 19 ≤ lengths.size) (h7 : ∀ k, lengths.getD k 0 ≤ 7) :
    match Cutter.readCodeLengthLengths rem i b lengths with
    | .error e => e = .notEnoughData
    | .ok (b', l') => b'.Inv ∧ b'.bytes = b.bytes ∧ b.pos ≤ b'.pos ∧ l'.size = lengths.size ∧
        (∀ k, l'.getD k 0 ≤ 7) ∧ (∀ k, 19 ≤ k → l'.getD k 0 = lengths.getD k 0) := by
  induction rem generalizing i b lengths with
  | zero =>
    rw [Cutter.readCodeLengthLengths]
    exact ⟨hb, rfl, Nat.le_refl _, rfl, h7, fun _ _ => rfl⟩
  | succ rem ih =>
    rw [Cutter.readCodeLengthLengths]
    obtain ⟨_, htk⟩ := take_ok' b hb 3 (by omega)
    have hby := take_bytes b 3
    generalize b.take 3 = r at htk hby
    obtain ⟨x, b1⟩ := r
    simp only [] at htk hby ⊢
    rcases htk with ⟨h2, _⟩ | ⟨h2, h3, h4⟩
    · have : x < 0 := by rw [h2]; decide
      simp only [this, if_true]
    · have hlt := bitsLE_lt b.bytes b.pos 3
      have hx0 : ¬ x < 0 := by rw [h2]; omega
      simp only [hx0, if_false]
      have hco := codeOrder_facts
      rw [getElem?_getD_nat codeOrder i (by omega)]
      simp only []
      have hk := hco.2 i (by omega)
      have hklt : codeOrder.getD i 0 < lengths.size := by omega
      simp only [hklt, if_true]
      have hxn : x.toNat = Spec.bitsLE b.bytes b.pos 3 := by rw [h2]; simp
      have := ih (i + 1) b1 (lengths.setIfInBounds (codeOrder.getD i 0) x.toNat) h3 (by omega)
        (by simpa using hsz)
        (by
          intro k
          rw [getD_setIfInBounds_nat]
          split
          · rw [hxn]
            have : (2 : Nat) ^ 3 = 8 := by decide
            omega
          · exact h7 k)
      split at this
      · exact this
      · obtain ⟨a1, a2, a3, a4, a5, a6⟩ := this
        refine ⟨a1, a2.trans hby, by omega, by simpa using a4, a5, ?_⟩
        intro k hk19
        rw [a6 k hk19, getD_setIfInBounds_nat]
        have : ¬ (k = codeOrder.getD i 0 ∧ codeOrder.getD i 0 < lengths.size) := by omega
        simp only [this, if_false]

theorem fill_props (value i : Nat) (js : List Nat) (l : Array Nat) (hv : value ≤ 15)
    (hl : ∀ k, l.getD k 0 ≤ 15) :
    (js.foldl (fun l j => l.setIfInBounds (i + j) value) l).size = l.size ∧
    ∀ k, (js.foldl (fun l j => l.setIfInBounds (i + j) value) l).getD k 0 ≤ 15 := by
  induction js generalizing l with
  | nil => exact ⟨rfl, hl⟩
  | cons j js ih =>
    simp only [List.foldl_cons]
    have := ih (l.setIfInBounds (i + j) value) (by
      intro k
      rw [getD_setIfInBounds_nat]
      split
      · exact hv
      · exact hl k)
    exact ⟨by rw [this.1]; simp, this.2⟩

/-- What the run-length decoder of the code lengths guarantees. -/
def RLPost (b : Bitstream) (n : Nat) (r : Except Err (Bitstream × Array Nat)) : Prop :=
  match r with
  | .error e => e ≠ .panic ∧ e ≠ .fuel ∧ e ≠ .someProgress
  | .ok (b', l') => b'.Inv ∧ b'.bytes = b.bytes ∧ b.pos ≤ b'.pos ∧ l'.size = n ∧ ∀ k, l'.getD k 0 ≤ 15

theorem RLPost.transport {b b1 : Bitstream} {n : Nat} {r : Except Err (Bitstream × Array Nat)}
    (h : RLPost b1 n r) (hy : b1.bytes = b.bytes) (hp : b.pos ≤ b1.pos) : RLPost b n r := by
  cases r with
  | error e => exact h
  | ok p =>
    obtain ⟨b', l'⟩ := p
    obtain ⟨a1, a2, a3, a4, a5⟩ := h
    exact ⟨a1, a2.trans hy, Nat.le_trans hp a3, a4, a5⟩

/-- The `HLIT + HDIST` code lengths: no panic, no fuel, every length ≤ 15. -/
theorem readLengths_total (h : Huffman) (cl : Array Nat) (hg : h.Good cl) (hcl : offAt cl 16 ≤ 288)
    (hz : ∀ k, 19 ≤ k → cl.getD k 0 = 0) (n : Nat) :
    ∀ (fuel i : Nat) (b : Bitstream) (lengths : Array Nat), b.Inv → lengths.size = n →
      (∀ k, lengths.getD k 0 ≤ 15) → n + 1 ≤ fuel + i → i ≤ n →
      RLPost b n (Cutter.readLengths h n fuel i b lengths) := by
  intro fuel
  induction fuel with
  | zero => intro i b lengths _ _ _ hf hi; omega
  | succ fuel ih =>
    intro i b lengths hb hsz h15 hf hi
    rw [Cutter.readLengths]
    by_cases hin : i ≥ n
    · simp only [hin, if_true]
      exact ⟨hb, rfl, Nat.le_refl _, hsz, h15⟩
    · simp only [hin, if_false]
      obtain ⟨s, b1, e, y, p⟩ := hg.decode hcl b hb
      simp only [e]
      by_cases hs : s < 0
      · simp only [hs, if_true]
        exact ⟨by simp, by simp, by simp⟩
      · simp only [hs, if_false]
        obtain ⟨⟨j, hjs, hj, hjn⟩, i1, p1⟩ := p (by omega)
        have hjs' : s = (j : Int) := hjs
        subst hjs'
        have hj19 : j < 19 := by
          rcases Nat.lt_or_ge j 19 with h | h
          · exact h
          · exact absurd (hz j h) hjn
        by_cases hlit : (j : Int) ≠ 16 ∧ (j : Int) ≠ 17 ∧ (j : Int) ≠ 18
        · rw [if_pos hlit]
          have : i < lengths.size := by omega
          rw [if_pos this]
          have hjt : (j : Int).toNat = j := by simp
          rw [hjt]
          refine (ih (i + 1) b1 (lengths.setIfInBounds i j) i1 (by simpa using hsz) ?_ (by omega) (by omega)).transport
            y (by omega)
          intro k
          rw [getD_setIfInBounds_nat]
          split
          · omega
          · exact h15 k
        · rw [if_neg hlit]
          by_cases h160 : (j : Int) = 16 ∧ i = 0
          · rw [if_pos h160]
            exact ⟨by simp, by simp, by simp⟩
          · rw [if_neg h160]
            generalize hval : (if (j : Int) = 16 then lengths.getD (i - 1) 0 else 0) = value
            have hv15 : value ≤ 15 := by
              rw [← hval]; split
              · exact h15 _
              · omega
            generalize hnb : (if (j : Int) = 16 then 2 else if (j : Int) = 17 then 3 else 7) = nb
            have hnb7 : nb ≤ 7 := by
              rw [← hnb]
              split
              · omega
              · split <;> omega
            generalize hbase : (if (j : Int) = 18 then (11 : Int) else 3) = base
            have hbase2 : 0 ≤ base ∧ base < 65536 := by rw [← hbase]; split <;> omega
            have hbt := base_take_val b1 i1 base nb (by omega) hbase2.1 hbase2.2
            have hby := take_bytes b1 nb
            generalize b1.take nb = r at hbt hby
            obtain ⟨t, b2⟩ := r
            simp only [] at hbt hby ⊢
            by_cases hneg : wrap32 (base + t) < 0
            · simp only [hneg, if_true]
              exact ⟨by simp, by simp, by simp⟩
            · simp only [hneg, if_false]
              obtain ⟨v, _, _, _, hw, i2, p2⟩ := hbt hneg
              by_cases hov : i + (wrap32 (base + t)).toNat > n
              · simp only [hov, if_true]
                exact ⟨by simp, by simp, by simp⟩
              · simp only [hov, if_false]
                have : ¬ (i + (wrap32 (base + t)).toNat > lengths.size) := by omega
                simp only [this, if_false]
                have hcnt : 1 ≤ (wrap32 (base + t)).toNat := by
                  rw [hw, ← hbase]; split <;> omega
                obtain ⟨f1, f2⟩ := fill_props value i (List.range (wrap32 (base + t)).toNat) lengths hv15 h15
                exact (ih (i + (wrap32 (base + t)).toNat) b2 _ i2 (by rw [f1]; exact hsz) f2 (by omega)
                  (by omega)).transport (hby.trans y) (by omega)

theorem mem_le_of_getD {l : Array Nat} {B : Nat} (h : ∀ k, l.getD k 0 ≤ B) : ∀ x ∈ l.toList, x ≤ B := by
  intro x hx
  obtain ⟨i, hi, rfl⟩ := List.getElem_of_mem hx
  have := h i
  simp only [Array.length_toList] at hi
  simpa [Array.getD, hi] using this

/-- **`doDynamicHuffman` never panics and never runs out of fuel.** -/
theorem doDynamicHuffman_total (c : Cutter) (hc : c.OK) (isFirst : Bool) :
    BlockTotal c (c.doDynamicHuffman isFirst) := by
  rw [Cutter.doDynamicHuffman]
  -- HLIT
  have t1 := base_take_val c.bits hc.inv 257 5 (by omega) (by omega) (by omega)
  have y1 := take_bytes c.bits 5
  generalize c.bits.take 5 = r1 at t1 y1
  obtain ⟨t, bits1⟩ := r1
  simp only [] at t1 y1 ⊢
  by_cases hn1 : wrap32 (257 + t) < 0
  · rw [if_pos hn1]
    exact BlockTotal.of_err c _ _ rfl (by simp [y1]) (by simp) (by simp) (by simp)
  rw [if_neg hn1]
  obtain ⟨v1, hv1, _, _, hw1, i1, p1⟩ := t1 hn1
  rw [hw1]
  -- HDIST
  have t2 := base_take_val bits1 i1 1 5 (by omega) (by omega) (by omega)
  have y2 := take_bytes bits1 5
  generalize bits1.take 5 = r2 at t2 y2
  obtain ⟨t', bits2⟩ := r2
  simp only [] at t2 y2 ⊢
  by_cases hn2 : wrap32 (1 + t') < 0
  · rw [if_pos hn2]
    exact BlockTotal.of_err c _ _ rfl (by simp [y1, y2]) (by simp) (by simp) (by simp)
  rw [if_neg hn2]
  obtain ⟨v2, hv2, _, _, hw2, i2, p2⟩ := t2 hn2
  rw [hw2]
  -- HCLEN
  have t3 := base_take_val bits2 i2 4 4 (by omega) (by omega) (by omega)
  have y3 := take_bytes bits2 4
  generalize bits2.take 4 = r3 at t3 y3
  obtain ⟨t'', bits3⟩ := r3
  simp only [] at t3 y3 ⊢
  by_cases hn3 : wrap32 (4 + t'') < 0
  · rw [if_pos hn3]
    exact BlockTotal.of_err c _ _ rfl (by simp [y1, y2, y3]) (by simp) (by simp) (by simp)
  rw [if_neg hn3]
  obtain ⟨v3, hv3, _, _, hw3, i3, p3⟩ := t3 hn3
  rw [hw3]
  by_cases hmany : (257 + (v1 : Int) > 286 ∨ 1 + (v2 : Int) > 30)
  · rw [if_pos hmany]
    exact BlockTotal.of_err c _ _ rfl (by simp [y1, y2, y3]) (by simp) (by simp) (by simp)
  rw [if_neg hmany]
  have e1 : (257 + (v1 : Int)).toNat = 257 + v1 := by omega
  have e2 : (1 + (v2 : Int)).toNat = 1 + v2 := by omega
  have e3 : (4 + (v3 : Int)).toNat = 4 + v3 := by omega
  rw [e1, e2, e3]
  have hv3' : v3 < 16 := by simpa using hv3
  have hnle : 257 + v1 + (1 + v2) ≤ 316 := by omega
  generalize hn : 257 + v1 + (1 + v2) = n at hnle
  have hn258 : 258 ≤ n := by omega
  -- the code-length code lengths
  have hcll := readCodeLengthLengths_total (4 + v3) 0 bits3 (Array.replicate n 0) i3 (by omega)
    (by simp; omega) (by intro k; simp [Array.getD_eq_getD_getElem?, Array.getElem?_replicate]; split <;> simp)
  generalize Cutter.readCodeLengthLengths (4 + v3) 0 bits3 (Array.replicate n 0) = rc at hcll
  cases rc with
  | error e =>
    simp only [] at hcll ⊢
    subst hcll
    exact BlockTotal.of_err c _ _ rfl (by simp [y1, y2, y3]) (by simp) (by simp) (by simp)
  | ok pc =>
    obtain ⟨bits4, lengths1⟩ := pc
    simp only [] at hcll ⊢
    obtain ⟨i4, y4, p4, s4, l7, lz⟩ := hcll
    have hz : ∀ k, 19 ≤ k → lengths1.getD k 0 = 0 := by
      intro k hk
      rw [lz k hk]
      simp [Array.getD_eq_getD_getElem?, Array.getElem?_replicate]
      split <;> simp
    have hs4 : lengths1.size = n := by simpa using s4
    have hoff1 : offAt lengths1 16 ≤ 288 := Nat.le_trans (offAt_le_of_zero lengths1 19 16 hz) (by omega)
    have hle1 : ∀ x ∈ lengths1.toList, x ≤ 15 :=
      mem_le_of_getD (fun k => Nat.le_trans (l7 k) (by omega))
    cases h1 : c.lHuff.construct lengths1 with
    | error e =>
      have := construct_no_panic c.lHuff lengths1 hle1 (by rw [hc.l.symsz]; exact hoff1) (by rw [hc.l.symsz]; omega) e h1
      subst this
      exact BlockTotal.of_err c _ _ rfl (by simp [y1, y2, y3, y4]) (by simp) (by simp) (by simp)
    | ok ph =>
      obtain ⟨lh, _, _⟩ := ph
      have hgl := construct_good c.lHuff lh lengths1 _ _ h1 hc.l.tableOK hc.l.symsz hoff1 (by omega)
      simp only []
      have hrl := readLengths_total lh lengths1 hgl hoff1 hz n (n + 1) 0 bits4 lengths1 i4 hs4
        (fun k => Nat.le_trans (l7 k) (by omega)) (by omega) (by omega)
      generalize Cutter.readLengths lh n (n + 1) 0 bits4 lengths1 = rr at hrl
      cases rr with
      | error e =>
        simp only [] at hrl ⊢
        exact BlockTotal.of_err c _ _ rfl (by simp [y1, y2, y3, y4]) hrl.1 hrl.2.1 hrl.2.2
      | ok pr =>
        obtain ⟨bits5, lengths2⟩ := pr
        simp only [] at hrl ⊢
        obtain ⟨i5, y5, p5, s5, l15⟩ := hrl
        have hby : bits5.bytes = c.bits.bytes := by rw [y5, y4, y3, y2, y1]
        have hle2 := mem_le_of_getD l15
        have hfinal := doHuffman_total ⟨bits5, c.maxEncodedLen, c.decodedLen, c.endCodeBits, c.endCodeNBits, lh, c.dHuff⟩
          ⟨i5, by show c.maxEncodedLen ≤ bits5.bytes.size; rw [hby]; exact hc.max, hgl.shape, hc.d⟩ isFirst
          (lengths2.extract 0 (257 + v1)) (lengths2.extract (257 + v1) n) (by simp; omega) (by simp; omega)
          (by intro x hx; exact hle2 x (mem_extract_of hx)) (by intro x hx; exact hle2 x (mem_extract_of hx))
        exact hfinal.transport rfl (by show bits5.bytes.size = c.bits.bytes.size; rw [hby])
          (by show c.bits.pos ≤ bits5.pos; omega)

end WuffsVerif.Flate.Cut
