/-
C16: decoder agreement, part 2 — the loop of `slowDecode` (in its abstract form `absLoop`) and the
loop of the spec decoder `Spec.decodeGo` run in lock-step.
-/
import WuffsVerif.Proof.Flate.Agree

namespace WuffsVerif.Flate.Cut
open WuffsVerif.Gen.C16

theorem even_or_bit (x : Nat) (b : Bool) : (2 * x) ||| b.toNat = 2 * x + b.toNat := by
  cases b
  · simp
  · have := or_one_even x
    simp only [Bool.toNat_true]
    rw [Nat.mul_comm 2 x]; exact this

/-- Past the longest code no code can end: the loop runs to its end and fails. -/
theorem absLoop_fail_zero (h : Huffman) (bit : Nat → Bool) (avail : Nat) :
    ∀ (rem i code first symIndex k : Nat), (∀ L, i ≤ L → L ≤ 15 → h.counts.getD L 0 = 0) → first ≤ code →
      code < 2 ^ i → i + rem = 16 → 1 ≤ i → absLoop h bit avail rem i code first symIndex k = .fail := by
  intro rem
  induction rem with
  | zero => intros; rfl
  | succ rem ih =>
    intro i code first symIndex k hz hfc hc hi hi1
    rw [absLoop]
    by_cases hav : avail ≤ k
    · rw [if_pos hav]
    · rw [if_neg hav]
      simp only []
      have hi15 : i ≤ 15 := by omega
      have hp := pow_le_32768 i hi15
      have hbit : (bit k).toNat < 2 ^ i := by
        have : (bit k).toNat ≤ 1 := by cases bit k <;> simp
        have : 2 ≤ 2 ^ i := by
          calc 2 = 2 ^ 1 := rfl
            _ ≤ 2 ^ i := Nat.pow_le_pow_right (by omega) hi1
        omega
      have hc' : code ||| (bit k).toNat < 2 ^ i := Nat.or_lt_two_pow hc hbit
      have hge : code ≤ code ||| (bit k).toNat := Nat.left_le_or
      generalize code ||| (bit k).toNat = code' at hc' hge
      rw [hz i (Nat.le_refl _) hi15]
      have : ¬ (code' < 0 + first) := by omega
      rw [if_neg this]
      have e1 : (code' <<< 1) % 4294967296 = 2 * code' := by rw [Nat.shiftLeft_eq]; omega
      have e2 : ((first + 0) <<< 1) % 4294967296 = 2 * first := by rw [Nat.shiftLeft_eq]; omega
      rw [e1, e2]
      exact ih (i + 1) _ _ _ _ (fun L h1 h2 => hz L (by omega) h2) (by omega) (by rw [Nat.pow_succ]; omega) (by omega) (by omega)

/-- What the abstract `slowDecode` loop returns, given what the spec's loop returns. -/
def AbsOfSpec (lens : Array Nat) (p : Nat) (r : Spec.SymResult) (a : AbsRes) : Prop :=
  match r with
  | .sym v p1 => a = .sym (Int.ofNat v) (p1 - p) ∧ p < p1 ∧ v < lens.size ∧ lens.getD v 0 = p1 - p
  | .truncated => a = .fail
  | .corrupt => a = .fail

/-- **Lock-step of the two canonical decoders.** -/
theorem lockstep (h : Huffman) (lens : Array Nat) (H : Spec.Huff) (hcan : Canon h lens)
    (hcount : ∀ L, 1 ≤ L → L ≤ 15 → H.count.getD L 0 = rfcBlCount lens L)
    (hsyms : H.syms = ((List.range' 1 15).flatMap (Spec.symsOfLen lens)).toArray)
    (hoff : offAt lens 16 < 2147483648) (s : Bytes) (p : Nat) :
    ∀ (rem len code first : Nat), len + rem ≤ 15 → first ≤ 2 * code → code < 2 ^ len →
      (∀ L, len + rem < L → L ≤ 15 → rfcBlCount lens L = 0) →
      AbsOfSpec lens p (Spec.decodeGo H s p rem len code first (offAt lens (len + 1)))
        (absLoop h (fun j => streamBit s (p + j)) (8 * s.size - p) (15 - len) (len + 1) (2 * code) first
          (offAt lens (len + 1)) len) := by
  intro rem
  induction rem with
  | zero =>
    intro len code first hlen hfc hc hz
    simp only [Spec.decodeGo, AbsOfSpec]
    apply absLoop_fail_zero
    · intro L h1 h2
      rw [hcan.counts L (by omega) h2]
      exact hz L (by omega) h2
    · exact hfc
    · rw [Nat.pow_succ]; omega
    · omega
    · omega
  | succ rem ih =>
    intro len code first hlen hfc hc hz
    have hrem : 15 - len = (15 - (len + 1)) + 1 := by omega
    rw [Spec.decodeGo, hrem, absLoop]
    by_cases hav : p + len ≥ 8 * s.size
    · have : 8 * s.size - p ≤ len := by omega
      rw [if_pos hav, if_pos this]
      simp only [AbsOfSpec]
    · have : ¬ (8 * s.size - p ≤ len) := by omega
      rw [if_neg hav, if_neg this]
      simp only []
      rw [even_or_bit, bitAt_eq_streamBit, hcount (len + 1) (by omega) (by omega),
        hcan.counts (len + 1) (by omega) (by omega)]
      have hb : (streamBit s (p + len)).toNat ≤ 1 := by cases streamBit s (p + len) <;> simp
      generalize hcode' : 2 * code + (streamBit s (p + len)).toNat = code'
      have hc' : code' < 2 ^ (len + 1) := by rw [Nat.pow_succ]; omega
      have hp := pow_le_32768 (len + 1) (by omega)
      have h16 := offAt_succ_le_16 lens (len + 1) (by omega)
      by_cases hlt : code' < first + rfcBlCount lens (len + 1)
      · have hlt' : code' < rfcBlCount lens (len + 1) + first := by omega
        rw [if_pos hlt, if_pos hlt']
        have hidx : (offAt lens (len + 1) + code' + 4294967296 - first) % 4294967296 =
            offAt lens (len + 1) + (code' - first) := by omega
        rw [hidx]
        obtain ⟨j, j1, j2, j3, j4⟩ := specSyms_get lens (len + 1) (code' - first) (by omega) (by omega) (by omega)
        have hsy := hcan.symbols j j2 (by omega)
        rw [j3, j4] at hsy
        rw [hsy]
        simp only [AbsOfSpec]
        have hget : H.syms.getD (offAt lens (len + 1) + (code' - first)) 0 = j := by
          rw [hsyms, Array.getD_eq_getD_getElem?]
          simp only [List.getElem?_toArray, j1, Option.getD_some]
        rw [hget]
        refine ⟨?_, by omega, j2, ?_⟩
        · have : p + len + 1 - p = len + 1 := by omega
          rw [this]
        · rw [j3]; omega
      · have hlt' : ¬ (code' < rfcBlCount lens (len + 1) + first) := by omega
        rw [if_neg hlt, if_neg hlt']
        have e1 : (code' <<< 1) % 4294967296 = 2 * code' := by rw [Nat.shiftLeft_eq]; omega
        have e2 : ((first + rfcBlCount lens (len + 1)) <<< 1) % 4294967296 =
            2 * (first + rfcBlCount lens (len + 1)) := by rw [Nat.shiftLeft_eq]; omega
        rw [e1, e2]
        have e3 : offAt lens (len + 1) + rfcBlCount lens (len + 1) = offAt lens (len + 1 + 1) := rfl
        rw [e3]
        exact ih (len + 1) code' (2 * (first + rfcBlCount lens (len + 1))) (by omega) (by omega) hc'
          (fun L h1 h2 => hz L (by omega) h2)

theorem construct_nz (h0 h : Huffman) (lengths : Array Nat) (ecb ecn : Nat)
    (hc : h0.construct lengths = .ok (h, ecb, ecn)) : ∃ x ∈ lengths.toList, x ≠ 0 := by
  apply Classical.byContradiction
  intro hno
  have hall : ∀ x ∈ lengths.toList, x = 0 := by
    intro x hx
    apply Classical.byContradiction
    intro hx0
    exact hno ⟨x, hx, hx0⟩
  have hbl : ∀ L, rfcBlCount lengths L = 0 := by
    intro L
    simp only [rfcBlCount]
    split
    · rfl
    · rename_i hL
      rw [List.length_eq_zero_iff, List.filter_eq_nil_iff]
      intro y hy
      have := hall y hy
      simp; omega
  have hk : ∀ n, kraftSum lengths n = 0 := by
    intro n
    induction n with
    | zero => rfl
    | succ n ih => simp [kraftSum, ih, hbl]
  obtain ⟨_, _, h3⟩ := construct_accepts h0 h lengths ecb ecn hc
  rcases h3 with h3 | h3
  · rw [hk] at h3; simp at h3
  · rw [hbl] at h3; simp at h3

/-- The spec decoder's result as a result of the cutter's `decode`. -/
def CutOfSpec (lens : Array Nat) (b : Bitstream) (r : Spec.SymResult) (c : Except Err (Int × Bitstream)) : Prop :=
  match r with
  | .sym v p1 => ∃ b', c = .ok (Int.ofNat v, b') ∧ b'.Inv ∧ b'.pos = p1 ∧ b'.bytes = b.bytes ∧
      b.pos < p1 ∧ v < lens.size ∧ lens.getD v 0 = p1 - b.pos
  | _ => ∃ b', c = .ok (mostNegativeInt32, b') ∧ b'.bytes = b.bytes

/-- **The cutter's Huffman decoder agrees with the RFC 1951 spec decoder**: for code lengths `lens`
that both `huffman.construct` and `Spec.mkHuff` accept, and any cursor that satisfies the invariant,
`decode` (8-bit table, 64-bit refill, `slowDecode`) returns the symbol the spec decoder `decodeGo`
returns and stops at the same bit; when the spec decoder fails (input exhausted, or no code matches)
`decode` returns `mostNegativeInt32`.  The decoded symbol's code length is the number of bits consumed. -/
theorem decode_agrees (h : Huffman) (lens : Array Nat) (hg : h.Good lens) (hnz : ∃ x ∈ lens.toList, x ≠ 0)
    (H : Spec.Huff) (hH : Spec.mkHuff lens = some H) (hoff : offAt lens 16 ≤ 288)
    (b : Bitstream) (hb : b.Inv) :
    CutOfSpec lens b (Spec.decodeGo H b.bytes b.pos H.maxLen 0 0 0 0) (h.decode b) := by
  obtain ⟨hcount, hsyms, hm1, hm15, hzero⟩ := mkHuff_spec lens H hH hnz
  have hls := lockstep h lens H hg.canon hcount hsyms (by omega) b.bytes b.pos H.maxLen 0 0 0
    (by omega) (by omega) (by simp) (fun L h1 _ => hzero L (by omega))
  have e0 : offAt lens (0 + 1) = 0 := by simp [offAt, rfcBlCount]
  rw [e0] at hls
  simp only [Nat.sub_zero, Nat.zero_add, Nat.mul_zero] at hls
  have href := slowDecodeLoop_refines h maxCodeBits 1 0 0 0 0 b.pos b hb rfl
  have e1 : maxCodeBits = 15 := rfl
  rw [e1] at href
  have hsame := hg.same b hb
  simp only [Huffman.slowDecode, e1] at hsame
  generalize Spec.decodeGo H b.bytes b.pos H.maxLen 0 0 0 0 = r at hls
  generalize absLoop h (fun j => streamBit b.bytes (b.pos + j)) (8 * b.bytes.size - b.pos) 15 1 0 0 0 0 = a
    at hls href
  have hdb : ∀ s b', h.decode b = .ok (s, b') → b'.bytes = b.bytes := fun s b' hd => decode_bytes h b s b' hd
  cases r with
  | sym v p1 =>
    obtain ⟨rfl, k1, k2, k3⟩ := hls
    obtain ⟨b2, r1, r2, r3, r4⟩ := href
    rw [r1] at hsame
    cases hd : h.decode b with
    | error e => rw [hd] at hsame; exact hsame.elim
    | ok q =>
      obtain ⟨s1, b1⟩ := q
      rw [hd] at hsame
      obtain ⟨hs1, hrest⟩ := hsame
      subst hs1
      obtain ⟨q1, q2, _, q4, _⟩ := hrest (Int.natCast_nonneg _)
      exact ⟨b1, rfl, q4, by rw [q1, r3]; omega, q2, k1, k2, k3⟩
  | truncated =>
    simp only [AbsOfSpec] at hls
    subst hls
    obtain ⟨b2, r1⟩ := href
    rw [r1] at hsame
    cases hd : h.decode b with
    | error e => rw [hd] at hsame; exact hsame.elim
    | ok q =>
      obtain ⟨s1, b1⟩ := q
      rw [hd] at hsame
      exact ⟨b1, by rw [hsame.1], hdb _ _ hd⟩
  | corrupt =>
    simp only [AbsOfSpec] at hls
    subst hls
    obtain ⟨b2, r1⟩ := href
    rw [r1] at hsame
    cases hd : h.decode b with
    | error e => rw [hd] at hsame; exact hsame.elim
    | ok q =>
      obtain ⟨s1, b1⟩ := q
      rw [hd] at hsame
      exact ⟨b1, by rw [hsame.1], hdb _ _ hd⟩

end WuffsVerif.Flate.Cut
