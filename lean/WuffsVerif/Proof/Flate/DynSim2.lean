/-
C16: a dynamic-Huffman block of `cut` against the spec decoder (`dynamic_blocksim`).
-/
import WuffsVerif.Proof.Flate.DynHdr2

namespace WuffsVerif.Flate.Cut
open WuffsVerif.Gen.C16 WuffsVerif.Flate.Spec

/-- A dynamic-Huffman block. -/
theorem dynamic_blocksim (s : Bytes) (c : Cutter) (hc : c.OK) (hb : c.bits.bytes = s) (p : Nat)
    (hp : c.bits.pos = p + 3) (out : Bytes) (p1 : Nat) (out1 : Bytes) (hty : bitsLE s (p + 1) 2 = 2)
    (hbody : blockBody s none 0 p out = .next p1 out1) (k : Nat)
    (hcd : c.decodedLen + (k : Int) = (out.size : Int)) (hc0 : 0 ≤ c.decodedLen)
    (hT : (out1.size : Int) < 2147483648) (isFirst : Bool) :
    BlockSim s k c p out p1 out1 (c.doDynamicHuffman isFirst) := by
  have e0 : ¬ ((2 : Nat) = 0) := by omega
  have e1 : ¬ ((2 : Nat) = 1) := by omega
  simp only [blockBody, hty, e0, e1, if_false, if_true] at hbody
  obtain ⟨k1, k2, _⟩ := doDynamicHuffman_ok c isFirst
  have htot := doDynamicHuffman_total c hc isFirst
  cases hdh : dynamicHeader s (p + 3) with
  | truncated => rw [hdh] at hbody; simp at hbody
  | corrupt => rw [hdh] at hbody; simp at hbody
  | ok hl hd minL ph =>
    rw [hdh] at hbody
    simp only [] at hbody
    obtain ⟨lens, hcH, d⟩ := dynamicHeader_ok s (p + 3) hl hd minL ph hdh
    -- the end-of-block code
    obtain ⟨qE, hrE, heobE⟩ := spec_reach hl hd minL hd.minLen 0 s _ _ _ _ _ hbody
    have hsymE := huffTok_eob _ _ _ _ _ _ _ _ heobE
    obtain ⟨hp1E, hminL, hminL0⟩ := dyn_eob_len s (p + 3) hl hd minL ph lens hcH d s qE p1 hsymE
    have hphle := (dynamicHeader_local s s (p + 3) hl hd minL ph hdh (fun _ _ _ => rfl) (by
      have := decodeSym_bounds hl s qE minL 256 p1 hsymE; have := hrE.le; omega)).2
    have hminD : ∀ q dv p2, decodeSym hd s q hd.minLen = .sym dv p2 → q + hd.minLen ≤ p2 :=
      fun q dv p2 hq => decodeSym_minlen _ hd d.hdE s q hd.minLen dv p2 hq
    rcases doDynamicHuffman_eq s c hc hb (p + 3) hp hl hd minL ph lens hcH d isFirst with
      ⟨c', e, he, hee⟩ | ⟨bits5, lh, he, i5, y5, q5, shl, hlsz⟩
    · -- the code-length code was rejected
      rw [he] at k1 k2 ⊢
      refine ⟨by rw [k2, hb], k1, ?_, ?_, ?_, ?_⟩ <;>
        (intro h; rcases hee with rfl | rfl <;> first | (simp at h; done) | (rcases h with h | h <;> simp at h))
    · generalize hnl : bitsLE s (p + 3) 5 + 257 = nlit at *
      generalize hnd : bitsLE s (p + 3 + 5) 5 + 1 = ndist at *
      have hnlit := d.nlit
      have hndist := d.ndist
      rw [hnl] at hnlit
      rw [hnd] at hndist
      have hc5 : (⟨bits5, c.maxEncodedLen, c.decodedLen, c.endCodeBits, c.endCodeNBits, lh, c.dHuff⟩ : Cutter).OK :=
        ⟨i5, by show c.maxEncodedLen ≤ bits5.bytes.size; rw [y5]; have := hc.max; rw [hb] at this; exact this, shl, hc.d⟩
      have hll256 : (lens.extract 0 nlit).getD 256 0 = lens.getD 256 0 := getD_extract_nat lens nlit 256 (by omega)
      have hHl := d.hlE
      have hHd := d.hdE
      rw [hnl] at hHl hHd
      rw [hnd] at hHd
      have hsim := doHuffman_sim _ hc5 (lens.extract 0 nlit) (lens.extract nlit (nlit + ndist)) hl hd hHl hHd
        (by simp [Array.size_extract]; omega) (by simp [Array.size_extract]; omega)
        (by simp [Array.size_extract]; omega) minL hd.minLen (8 * s.size + 1) p1 out out1 (by rw [hll256]; exact hminL)
        (by show huffBlock hl hd minL hd.minLen bits5.bytes none 0 (8 * s.size + 1) bits5.pos out = .next p1 out1
            rw [y5, q5]; exact hbody)
        k hcd hc0 hT isFirst
      rw [he] at k1 k2 htot ⊢
      obtain ⟨s1, s2, s3, s4, s5, s6⟩ := hsim
      refine ⟨by rw [k2, hb], k1, ?_, ?_, fun h => by rw [s5 h]; exact y5, s6⟩
      · intro h
        obtain ⟨a1, a2, a3, a4, _⟩ := s3 h
        exact ⟨by rw [a1]; exact y5, a2, a3, a4, (htot.cont h).1⟩
      · intro h
        obtain ⟨q, o, a1, a2, a3, a4, a5, a6, a7, ⟨gh, hgl⟩, hnzl, hL0, a8⟩ := s4 h
        have a1 : Reach hl hd minL hd.minLen s ph out q o := by
          have : Reach hl hd minL hd.minLen bits5.bytes bits5.pos out q o := a1
          rw [y5, q5] at this; exact this
        have a2 : ph < q := by have : bits5.pos < q := a2
                               rw [q5] at this; exact this
        rw [hll256, ← hminL] at a4 a5 a8 hL0
        have a4 : q + minL ≤ 8 * c.maxEncodedLen := a4
        have a8 : ∀ i, bitAt (Cutter.doHuffman ⟨bits5, c.maxEncodedLen, c.decodedLen, c.endCodeBits, c.endCodeNBits, lh, c.dHuff⟩
            isFirst (lens.extract 0 nlit) (lens.extract nlit (nlit + ndist))).1.bits.bytes i =
            if q ≤ i ∧ i < q + minL then ((rfcCode (lens.extract 0 nlit) 256).testBit (minL - 1 - (i - q))).toNat
            else bitAt s i := by
          intro i; rw [a8 i]; show _ = if _ then _ else bitAt s i
          have : bitAt (⟨bits5, c.maxEncodedLen, c.decodedLen, c.endCodeBits, c.endCodeNBits, lh, c.dHuff⟩ : Cutter).bits.bytes i = bitAt s i := by
            show bitAt bits5.bytes i = bitAt s i; rw [y5]
          rw [this]
        have hmax := hc.max
        rw [hb] at hmax
        obtain ⟨x, hx⟩ := reach_prefix hl hd minL hd.minLen s hminD a1 (by omega) _ p1 out1 (by
          have := hrE.le; omega) hbody
        refine ⟨q + minL, o, a5, a6, a7, a4, a3, ⟨x, hx⟩, ?_, ?_⟩
        · intro i hi
          rw [a8 i]
          have : ¬ (q ≤ i ∧ i < q + minL) := by omega
          rw [if_neg this]
        · refine ⟨by omega, reach_extends a1, ?_⟩
          intro s'' hag hsz
          have hbit : ∀ i, p + 1 ≤ i → i < q + minL → bitAt s'' i =
              if q ≤ i then ((rfcCode (lens.extract 0 nlit) 256).testBit (minL - 1 - (i - q))).toNat else bitAt s i := by
            intro i h1 h2
            rw [hag i h1 h2, a8 i]
            by_cases hq : q ≤ i
            · rw [if_pos ⟨hq, h2⟩, if_pos hq]
            · have : ¬ (q ≤ i ∧ i < q + minL) := by omega
              rw [if_neg this, if_neg hq]
          have hagS : ∀ i, p + 1 ≤ i → i < q → bitAt s'' i = bitAt s i := by
            intro i h1 h2
            rw [hbit i h1 (by omega)]
            have : ¬ (q ≤ i) := by omega
            rw [if_neg this]
          have hty'' : bitsLE s'' (p + 1) 2 = 2 := by
            rw [bitsLE_local s s'' (p + 1) 2 (fun i h1 h2 => hagS i h1 (by omega))]
            exact hty
          obtain ⟨hdh'', _⟩ := dynamicHeader_local s s'' (p + 3) hl hd minL ph hdh (fun i h1 h2 => hagS i (by omega) (by omega))
            (by omega)
          simp only [blockBody, hty'', e0, e1, if_false, if_true, hdh'']
          have heob'' : huffTok hl hd minL hd.minLen s'' q o.size = .eob (q + minL) := by
            have hdec := eob_decodes gh (lens.extract 0 nlit) hgl hnzl hl hHl
              (offAt16_le _ 288 (by simp [Array.size_extract]; omega)) (by simp [Array.size_extract]; omega)
              (by rw [hll256, ← hminL]; exact hL0) s'' q
              (by
                intro k hk
                rw [hll256, ← hminL] at hk ⊢
                rw [hbit (q + k) (by omega) (by omega)]
                have : q + k - q = k := by omega
                rw [if_pos (by omega), this])
              (by rw [hll256, ← hminL]; omega)
            rw [hll256, ← hminL] at hdec
            simp only [huffTok, decodeSym]
            have hav : ¬ (avail s'' q < minL) := by simp only [avail]; omega
            rw [if_neg hav, hdec]
            simp
          exact replay_eob hl hd minL hd.minLen 0 s s'' hminD a1 (fun i h1 h2 => hagS i (by omega) h2)
            (by omega) heob'' _ (by omega)

end WuffsVerif.Flate.Cut
