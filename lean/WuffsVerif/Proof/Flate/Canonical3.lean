/-
C16: `construct_canonical`, decoding part.  Part 2b: `constructOffsets`/`constructSymbols` lay the
symbols out sorted by (length, symbol), hence `Canon`; and the theorem.
-/
import WuffsVerif.Proof.Flate.Canonical2

namespace WuffsVerif.Flate.Cut
open WuffsVerif.Gen.C16

/-- Number of symbols below `t` whose length is `L`. -/
def cntBelow (lengths : Array Nat) (t L : Nat) : Nat := ((lengths.toList.take t).filter (· = L)).length

theorem cntBelow_succ (lengths : Array Nat) (t L : Nat) (ht : t < lengths.size) :
    cntBelow lengths (t + 1) L = cntBelow lengths t L + (if lengths.getD t 0 = L then 1 else 0) := by
  simp only [cntBelow]
  have hlen : t < lengths.toList.length := by simpa using ht
  rw [List.take_succ_eq_append_getElem hlen, List.filter_append, List.length_append]
  have hel : lengths.toList[t] = lengths.getD t 0 := by simp [Array.getD, ht]
  simp only [hel, List.filter_cons, List.filter_nil]
  split <;> simp_all

theorem cntBelow_rank (lengths : Array Nat) (t : Nat) : cntBelow lengths t (lengths.getD t 0) = rankOf lengths t := rfl

theorem cntBelow_le (lengths : Array Nat) (t L : Nat) (hL : L ≠ 0) : cntBelow lengths t L ≤ rfcBlCount lengths L := by
  simp only [cntBelow, rfcBlCount, hL, if_false]
  have : (lengths.toList.take t).Sublist lengths.toList := List.take_sublist _ _
  exact (this.filter _).length_le

theorem offAt_mono (lengths : Array Nat) (a b : Nat) (h : a < b) :
    offAt lengths a + rfcBlCount lengths a ≤ offAt lengths b := by
  induction b with
  | zero => omega
  | succ b ih =>
    rcases Nat.lt_or_ge a b with h1 | h1
    · have := ih h1; simp only [offAt]; omega
    · have : a = b := by omega
      subst this; simp [offAt]

/-- `constructOffsets`: `offsets[L] = offAt L`. -/
theorem constructOffsets_spec (counts lengths : Array Nat)
    (hcounts : ∀ j, 1 ≤ j → j ≤ 15 → counts.getD j 0 = rfcBlCount lengths j) :
    (constructOffsets counts).size = 16 ∧
    ∀ L, 1 ≤ L → L ≤ 15 → (constructOffsets counts).getD L 0 = offAt lengths L := by
  simp only [constructOffsets, maxCodeBits]
  -- generalise the fold over `range' 1 14`
  have key : ∀ (n : Nat) (offs : Array Nat) (s : Nat), s + n = 15 → 1 ≤ s → offs.size = 16 →
      (∀ L, 1 ≤ L → L ≤ s → offs.getD L 0 = offAt lengths L) →
      ((List.range' s n).foldl (fun offs i => offs.setIfInBounds (i + 1) (offs.getD i 0 + counts.getD i 0)) offs).size = 16 ∧
      ∀ L, 1 ≤ L → L ≤ 15 →
        ((List.range' s n).foldl (fun offs i => offs.setIfInBounds (i + 1) (offs.getD i 0 + counts.getD i 0)) offs).getD L 0
          = offAt lengths L := by
    intro n
    induction n with
    | zero =>
      intro offs s hs _ hsz hinv
      simp only [List.range'_zero, List.foldl_nil]
      exact ⟨hsz, fun L h1 h2 => hinv L h1 (by omega)⟩
    | succ n ih =>
      intro offs s hs hs1 hsz hinv
      simp only [List.range'_succ, List.foldl_cons]
      apply ih _ (s + 1) (by omega) (by omega) (by simp [hsz])
      intro L h1 h2
      simp only [Array.getD_eq_getD_getElem?, Array.getElem?_setIfInBounds]
      by_cases hL : s + 1 = L
      · subst hL
        have := hinv s hs1 (Nat.le_refl _)
        simp only [Array.getD_eq_getD_getElem?] at this
        have hc := hcounts s hs1 (by omega)
        simp only [Array.getD_eq_getD_getElem?] at hc
        have hlt : s + 1 < 16 := by omega
        simp [hsz, this, hc, offAt, hlt]
      · have := hinv L h1 (by omega)
        simp only [Array.getD_eq_getD_getElem?] at this
        simp [hL, this]
  have := key 14 (Array.replicate 16 0) 1 rfl (Nat.le_refl _) (by simp) (by
    intro L h1 h2
    have : L = 1 := by omega
    subst this
    simp [offAt, rfcBlCount])
  exact this

theorem cntBelow_mono (lengths : Array Nat) (a b L : Nat) (h : a ≤ b) :
    cntBelow lengths a L ≤ cntBelow lengths b L := by
  simp only [cntBelow]
  have : (lengths.toList.take a).Sublist (lengths.toList.take b) := by
    have := List.take_sublist a (lengths.toList.take b)
    rwa [List.take_take, Nat.min_eq_left h] at this
  exact (this.filter _).length_le

/-- Where the counting sort puts symbol `j`. -/
def slot (lengths : Array Nat) (j : Nat) : Nat := offAt lengths (lengths.getD j 0) + rankOf lengths j

theorem slot_ne (lengths : Array Nat) (j t : Nat) (hj : j < t) (ht : t < lengths.size)
    (hlj : lengths.getD j 0 ≠ 0) (hlt : lengths.getD t 0 ≠ 0) : slot lengths j ≠ slot lengths t := by
  simp only [slot]
  have r1 := rank_lt lengths j (by omega) hlj
  have r2 := rank_lt lengths t ht hlt
  rcases Nat.lt_trichotomy (lengths.getD j 0) (lengths.getD t 0) with h | h | h
  · have := offAt_mono lengths _ _ h; omega
  · have h1 := cntBelow_mono lengths (j + 1) t (lengths.getD t 0) (by omega)
    have h2 := cntBelow_succ lengths j (lengths.getD t 0) (by omega)
    simp only [h, if_true] at h2
    have e1 : rankOf lengths j = cntBelow lengths j (lengths.getD t 0) := by rw [← h]; rfl
    have e2 : rankOf lengths t = cntBelow lengths t (lengths.getD t 0) := rfl
    rw [h]; omega
  · have := offAt_mono lengths _ _ h; omega

/-- The counting-sort loop of `construct`. -/
theorem constructSymbols_spec (lengths : Array Nat) (hle : ∀ x ∈ lengths.toList, x ≤ 15)
    (rem t : Nat) (offs : Array Nat) (syms syms' : Array Int)
    (h : constructSymbols lengths rem t offs syms = .ok syms') (ht : t + rem = lengths.size)
    (hoffsz : offs.size = 16)
    (ha : ∀ L, 1 ≤ L → L ≤ 15 → offs.getD L 0 = offAt lengths L + cntBelow lengths t L)
    (hb : ∀ j, j < t → lengths.getD j 0 ≠ 0 → syms[slot lengths j]? = some (Int.ofNat j)) :
    ∀ j, j < lengths.size → lengths.getD j 0 ≠ 0 → syms'[slot lengths j]? = some (Int.ofNat j) := by
  induction rem generalizing t offs syms with
  | zero =>
    simp [constructSymbols] at h
    subst h
    intro j hj; exact hb j (by omega)
  | succ rem ih =>
    have htlt : t < lengths.size := by omega
    have hL15 : lengths.getD t 0 ≤ 15 := by
      apply hle; simp [Array.getD, htlt]
    rw [constructSymbols] at h
    generalize hLdef : lengths.getD t 0 = L at h hL15
    by_cases hL0 : L ≠ 0
    · rw [if_pos hL0] at h
      have ho : offs.getD L 0 = slot lengths t := by
        rw [ha _ (by omega) hL15, ← hLdef]; rfl
      rw [ho] at h
      by_cases hosz : slot lengths t < syms.size
      · rw [if_pos hosz] at h
        apply ih (t + 1) _ _ h (by omega) (by simp [hoffsz])
        · intro L' h1 h2
          rw [cntBelow_succ lengths t L' htlt, hLdef]
          simp only [Array.getD_eq_getD_getElem?, Array.getElem?_setIfInBounds]
          by_cases hLL : L = L'
          · subst hLL
            have hlt16 : L < offs.size := by omega
            simp only [if_true, hlt16, Option.getD_some, slot, hLdef]
            have : rankOf lengths t = cntBelow lengths t L := by rw [← hLdef]; rfl
            omega
          · have := ha L' h1 h2
            simp only [Array.getD_eq_getD_getElem?] at this
            simp [hLL, this]
        · intro j hj hlj
          rcases Nat.lt_or_ge j t with hjt | hjt
          · rw [Array.getElem?_setIfInBounds_ne (Ne.symm (slot_ne lengths j t hjt htlt hlj (by rw [hLdef]; exact hL0)))]
            exact hb j hjt hlj
          · have : j = t := by omega
            subst this
            simp [hosz]
      · rw [if_neg hosz] at h; simp at h
    · have hz : L = 0 := by omega
      rw [if_neg hL0] at h
      apply ih (t + 1) _ _ h (by omega) hoffsz
      · intro L' h1 h2
        rw [cntBelow_succ lengths t L' htlt, ha L' h1 h2, hLdef]
        have : ¬ (L = L') := by omega
        simp [this]
      · intro j hj hlj
        rcases Nat.lt_or_ge j t with hjt | hjt
        · exact hb j hjt hlj
        · have : j = t := by omega
          subst this
          exact absurd (hLdef.trans hz) hlj

/-- A successful `construct` yields the canonical decoder table of its lengths. -/
theorem construct_canon (h0 h : Huffman) (lengths : Array Nat) (ecb ecn : Nat)
    (hc : h0.construct lengths = .ok (h, ecb, ecn)) : Canon h lengths := by
  obtain ⟨hle, _, _, _⟩ := construct_facts h0 h lengths ecb ecn hc
  simp only [Huffman.construct] at hc
  split at hc
  · simp at hc
  · have hcounts : ∀ j, 1 ≤ j → j ≤ 15 →
        (lengths.foldl (fun c x => c.setIfInBounds x (c.getD x 0 + 1)) (Array.replicate (maxCodeBits + 1) 0)).getD j 0 =
          rfcBlCount lengths j := by
      intro j h1 h2
      rw [← Array.foldl_toList]
      have := countsOf_getD lengths.toList (Array.replicate (maxCodeBits + 1) 0) j (by simp [maxCodeBits]; omega)
      simp only [countsOf] at this
      rw [this]
      have hj : j ≠ 0 := by omega
      simp [rfcBlCount, hj, Array.getD, maxCodeBits]
    repeat' split at hc
    all_goals first
      | (simp at hc; done)
      | skip
    rename_i syms hsyms _ hh hlut
    simp at hc
    obtain ⟨rfl, _, _⟩ := hc
    obtain ⟨hosz, hoff⟩ := constructOffsets_spec _ lengths hcounts
    have hsorted := constructSymbols_spec lengths hle lengths.size 0 _ _ syms hsyms (by omega) hosz
      (by intro L h1 h2; rw [hoff L h1 h2]; simp [cntBelow])
      (by intro j hj; omega)
    -- the table step keeps counts and symbols
    have hkeep : hh.counts = (lengths.foldl (fun c x => c.setIfInBounds x (c.getD x 0 + 1))
        (Array.replicate (maxCodeBits + 1) 0)) ∧ hh.symbols = syms := by
      simp only [Huffman.constructLookUpTable] at hlut
      split at hlut
      · simp at hlut
      · have := Except.ok.inj hlut; subst this; exact ⟨rfl, rfl⟩
    refine ⟨?_, ?_⟩
    · intro j h1 h2; rw [hkeep.1]; exact hcounts j h1 h2
    · intro sym hs hL; rw [hkeep.2]; exact hsorted sym hs hL

/-- **`construct_canonical`** (decoding part): when `construct` accepts `lengths`, `slowDecode` maps
the RFC 1951 §3.2.2 code of every symbol with a non-zero length (sent most significant bit first, as
§3.1.1 prescribes) back to that symbol and consumes exactly its length. -/
theorem construct_canonical (h0 h : Huffman) (lengths : Array Nat) (ecb ecn : Nat)
    (hc : h0.construct lengths = .ok (h, ecb, ecn))
    (sym L : Nat) (hs : sym < lengths.size) (hLd : lengths.getD sym 0 = L) (hL0 : L ≠ 0)
    (b : Bitstream) (hb : b.Inv) (hfit : b.pos + L ≤ 8 * b.bytes.size)
    (hbits : ∀ k, k < L → streamBit b.bytes (b.pos + k) = (rfcCode lengths sym).testBit (L - 1 - k)) :
    ∃ b', h.slowDecode b = .ok (Int.ofNat sym, b') ∧ b'.pos = b.pos + L ∧ b'.Inv ∧ b'.bytes = b.bytes := by
  obtain ⟨hle, hno, _, _⟩ := construct_facts h0 h lengths ecb ecn hc
  have hcan := construct_canon h0 h lengths ecb ecn hc
  have hL15 : L ≤ 15 := by rw [← hLd]; apply hle; simp [Array.getD, hs]
  have hstep := absLoop_canonical_step h lengths hcan hno (fun j => streamBit b.bytes (b.pos + j))
    (8 * b.bytes.size - b.pos) 0 sym L hs hLd (by omega) hL15
    (by intro k hk; simpa using hbits k hk) (by omega) (L - 1) 1 (Nat.le_refl _) (by omega)
  have hC := (rfcCode_lt lengths sym hs (by omega) (by omega) hno).2
  rw [hLd] at hC
  have e0 : (rfcCode lengths sym >>> (L - 1 + 1)) * 2 = 0 := by
    have : L - 1 + 1 = L := by omega
    rw [this, Nat.shiftRight_eq_div_pow, Nat.div_eq_of_lt hC]
  have e1 : rfcNextCode lengths 1 = 0 := by simp [rfcNextCode, rfcBlCount]
  have e2 : offAt lengths 1 = 0 := by simp [offAt, rfcBlCount]
  rw [e0, e1, e2] at hstep
  have href := slowDecodeLoop_refines h maxCodeBits 1 0 0 0 0 b.pos b hb rfl
  have e3 : (16 - 1 : Nat) = maxCodeBits := rfl
  rw [e3] at hstep
  simp only [Nat.zero_add, Nat.add_sub_cancel] at hstep
  rw [hstep] at href
  obtain ⟨b', r1, r2, r3, r4⟩ := href
  exact ⟨b', r1, r3, r2, r4⟩

end WuffsVerif.Flate.Cut
