/-
C16: THE property for a cut inside a Huffman block — `doHuffman`'s tail (symbol loop, checkpoint,
end-of-block code) against the spec decoder, and the end-to-end theorem for streams that consist of
one fixed-Huffman block.
-/
import WuffsVerif.Proof.Flate.BitOps
import WuffsVerif.Proof.Flate.Single

namespace WuffsVerif.Flate.Cut
open WuffsVerif.Gen.C16 WuffsVerif.Flate.Spec

/-- What the tail of `doHuffman` does on a block that the spec decoder decodes completely (from output
`out`, with `decodedLen + k = out.size` — `k` = length of a preset dictionary in front of the output, 0
without one —, to output `T` at bit `pE`). -/
structure TailSim (hl hd : Huff) (minL minD : Nat) (k : Nat) (c : Cutter) (out : Bytes) (pE : Nat) (T : Bytes)
    (r : Cutter × Option Err) : Prop where
  size : r.1.bits.bytes.size = c.bits.bytes.size
  max : r.1.maxEncodedLen = c.maxEncodedLen
  nil : r.2 = none → r.1.bits.bytes = c.bits.bytes ∧ r.1.bits.pos = pE ∧ r.1.decodedLen + (k : Int) = (T.size : Int) ∧
      pE ≤ 8 * c.maxEncodedLen ∧ r.1.bits.Inv
  prog : r.2 = some .someProgress → ∃ q o, Reach hl hd minL minD c.bits.bytes c.bits.pos out q o ∧
      c.bits.pos < q ∧ r.1.decodedLen + (k : Int) = (o.size : Int) ∧ q + c.endCodeNBits ≤ 8 * c.maxEncodedLen ∧
      8 * r.1.bits.index - r.1.bits.nBits = q + c.endCodeNBits ∧ r.1.bits.nBits ≤ 8 * r.1.bits.index ∧
      r.1.bits.nBits ≤ 8 ∧
      ∀ i, bitAt r.1.bits.bytes i =
        if q ≤ i ∧ i < q + c.endCodeNBits then (c.endCodeBits.testBit (c.endCodeNBits - 1 - (i - q))).toNat
        else bitAt c.bits.bytes i
  keep : r.2 = some .noProgress ∨ r.2 = some .replaceWithSingleBlock → r.1.bits.bytes = c.bits.bytes
  keepD : r.2 = some .noProgress → r.1.decodedLen = c.decodedLen
  errs : ∀ e, r.2 = some e → e = .someProgress ∨ e = .noProgress ∨ e = .replaceWithSingleBlock

theorem huffTail_sim (c : Cutter) (hc : c.OK) (ll dl : Array Nat) (hl hd : Huff) (ctx : BlockCtx c ll dl hl hd)
    (minL minD fuelS pE : Nat) (out T : Bytes)
    (hspec : huffBlock hl hd minL minD c.bits.bytes none 0 fuelS c.bits.pos out = .next pE T)
    (k : Nat) (hcd : c.decodedLen + (k : Int) = (out.size : Int)) (hc0 : 0 ≤ c.decodedLen)
    (hT : (T.size : Int) < 2147483648) (hecn : c.endCodeNBits ≠ 0) (hecn' : c.endCodeNBits = ll.getD 256 0) (isFirst : Bool) :
    TailSim hl hd minL minD k c out pE T (c.huffTail isFirst) := by
  obtain ⟨k1, k2, _⟩ := huffTail_ok c isFirst hecn
  have hext := (huffBlock_cap hl hd minL minD c.bits.bytes 0 0 _ _ _ _ _ hspec).1
  have hTo : out.size ≤ T.size := by
    obtain ⟨x, hx⟩ := hext
    rw [hx]; simp [Array.size_append]
  have htr := huffLoop_tracks hl hd minL minD 0 ll dl fuelS (8 * c.bits.bytes.size + 2) c none c.decodedLen out pE T
    hc ctx rfl hecn' (by intro h; exact absurd rfl h) hspec hc0 (by omega) (by omega)
  have hpost := huffLoop_total ll dl ctx.szl ctx.szd (8 * c.bits.bytes.size + 2) c none c.decodedLen hc ctx.gl ctx.gd
    (by omega) (by intro i n h; simp at h)
  simp only [Cutter.huffTail] at k1 k2 ⊢
  generalize Cutter.huffLoop (8 * c.bits.bytes.size + 2) c none c.decodedLen = res at htr hpost k1 k2
  obtain ⟨c1, cp, r⟩ := res
  obtain ⟨t1, t2, t3, t4, _⟩ := htr
  obtain ⟨m1, m2, m3, m4, m5, m6, np, nf, hcp, hret⟩ := hpost
  simp only [] at t1 t2 t3 t4 m1 m2 m3 m4 m5 m6 np nf hcp hret k1 k2 ⊢
  cases r with
  | some r =>
    simp only [] at k1 k2 ⊢
    cases r with
    | none =>
      obtain ⟨a1, a2, a3⟩ := t2 rfl
      obtain ⟨i1, _⟩ := hret rfl
      have a2 : c1.decodedLen + (out.size : Int) = c.decodedLen + (T.size : Int) := a2
      refine ⟨k2, k1, fun _ => ⟨t1, a1, by show c1.decodedLen + (k : Int) = (T.size : Int); omega, a3, i1⟩, by intro h; simp at h, by intro h; simp at h,
        by intro h; simp at h, by intro e h; simp at h⟩
    | some e =>
      obtain ⟨this, hdl⟩ := t4 e rfl
      subst this
      exact ⟨k2, k1, by intro h; simp at h, by intro h; simp at h, fun _ => t1, fun _ => hdl, by intro e h; simp at h; simp [← h]⟩
  | none =>
    cases cp with
    | none =>
      simp only [] at k1 k2 ⊢
      have hdl : c1.decodedLen = c.decodedLen := by
        rcases t3 rfl with ⟨_, a2⟩ | ⟨ci', cn', q, o, a1, _⟩
        · exact a2
        · simp at a1
      exact ⟨k2, k1, by intro h; simp at h, by intro h; simp at h, fun _ => t1, fun _ => hdl, by intro e h; simp at h; simp [← h]⟩
    | some cpv =>
      obtain ⟨ci, cn⟩ := cpv
      simp only [] at k1 k2 ⊢
      rcases t3 rfl with ⟨a1, _⟩ | ⟨ci', cn', q, o, a1, a2, a3, a4, a5, a6, a7⟩
      · simp at a1
      · simp only [Option.some.injEq, Prod.mk.injEq] at a1
        obtain ⟨rfl, rfl⟩ := a1
        generalize (if c1.maxEncodedLen - 5 > 0xFFFF then 0xFFFF else c1.maxEncodedLen - 5) = n at k1 k2 ⊢
        split
        · rename_i hrep
          simp only [hrep, if_true] at k1 k2
          exact ⟨k2, k1, by intro h; simp at h, by intro h; simp at h, fun _ => t1, by intro h; simp at h, by intro e h; simp at h; simp [← h]⟩
        · rename_i hrep
          simp only [hrep, if_false] at k1 k2
          obtain ⟨q1, q2, q3⟩ := hcp ci cn rfl
          obtain ⟨c', ew, _⟩ := huffTail_write c1 ci cn q1 (by rw [m6]; exact q2)
            (by rw [m2, m6]; have := hc.max; omega)
          rw [ew] at k1 k2 ⊢
          simp only [] at k1 k2 ⊢
          refine ⟨k2, k1, by intro h; simp at h, ?_, by intro h; rcases h with h | h <;> simp at h,
            by intro h; simp at h, by intro e h; simp at h; simp [← h]⟩
          intro _
          -- the bits written by writeEndCode
          simp only [Cutter.writeEndCode] at ew
          split at ew
          · simp at ew
          · rename_i b' hb'
            have ew := Except.ok.inj ew
            subst ew
            have hu : (({ c1.bits with index := ci, nBits := cn } : Bitstream).unread).nBits < 8 := unread_nBits_lt _
            obtain ⟨w1, w2, w3, w4, w5⟩ := writeEndCodeLoop_bits c1.endCodeBits c1.endCodeNBits _ b' hb'
              (by simp only [Bitstream.unread]; omega) (Nat.le_of_lt (unread_nBits_lt _)) (by simp only [Bitstream.unread, m6]; omega)
            have hP : 8 * (({ c1.bits with index := ci, nBits := cn } : Bitstream).unread).index -
                (({ c1.bits with index := ci, nBits := cn } : Bitstream).unread).nBits = q := by
              simp only [Bitstream.unread]; omega
            rw [hP] at w2 w5
            simp only [Bitstream.unread] at w5
            have a6 : c1.decodedLen + (out.size : Int) = c.decodedLen + (o.size : Int) := a6
            refine ⟨q, o, a4, a5, by show c1.decodedLen + (k : Int) = (o.size : Int); omega, a7, by rw [← m2]; exact w2, w3, w4, ?_⟩
            intro i
            rw [w5 i, m2, m3, m6]

end WuffsVerif.Flate.Cut
