/-
C16: THE property for a cut inside a Huffman block — `doHuffman`'s tail (symbol loop, checkpoint,
end-of-block code) against the spec decoder, and the end-to-end theorem for streams that consist of
one fixed-Huffman block.
-/
import WuffsVerif.Proof.Flate.BitOps
import WuffsVerif.Proof.Flate.Single

namespace WuffsVerif.Flate.Cut
open WuffsVerif.Gen.C16 WuffsVerif.Flate.Spec

/-- What the tail of `doHuffman` does on a block that the spec decoder decodes completely, started at
the beginning of the output (`out = #[]`, `decodedLen = 0`). -/
structure TailSim (hl hd : Huff) (minL minD : Nat) (c : Cutter) (pE : Nat) (T : Bytes)
    (r : Cutter × Option Err) : Prop where
  size : r.1.bits.bytes.size = c.bits.bytes.size
  max : r.1.maxEncodedLen = c.maxEncodedLen
  nil : r.2 = none → r.1.bits.bytes = c.bits.bytes ∧ r.1.bits.pos = pE ∧ r.1.decodedLen = (T.size : Int) ∧
      pE ≤ 8 * c.maxEncodedLen ∧ r.1.bits.Inv
  prog : r.2 = some .someProgress → ∃ q o, Reach hl hd minL minD c.bits.bytes c.bits.pos #[] q o ∧
      c.bits.pos < q ∧ r.1.decodedLen = (o.size : Int) ∧ q + c.endCodeNBits ≤ 8 * c.maxEncodedLen ∧
      8 * r.1.bits.index - r.1.bits.nBits = q + c.endCodeNBits ∧ r.1.bits.nBits ≤ 8 * r.1.bits.index ∧
      r.1.bits.nBits ≤ 8 ∧
      ∀ i, bitAt r.1.bits.bytes i =
        if q ≤ i ∧ i < q + c.endCodeNBits then (c.endCodeBits.testBit (c.endCodeNBits - 1 - (i - q))).toNat
        else bitAt c.bits.bytes i
  keep : r.2 = some .noProgress ∨ r.2 = some .replaceWithSingleBlock → r.1.bits.bytes = c.bits.bytes
  errs : ∀ e, r.2 = some e → e = .someProgress ∨ e = .noProgress ∨ e = .replaceWithSingleBlock

theorem huffTail_sim (c : Cutter) (hc : c.OK) (ll dl : Array Nat) (hl hd : Huff) (ctx : BlockCtx c ll dl hl hd)
    (minL minD fuelS pE : Nat) (T : Bytes)
    (hspec : huffBlock hl hd minL minD c.bits.bytes none 0 fuelS c.bits.pos #[] = .next pE T)
    (hcd : c.decodedLen = 0) (hT : (T.size : Int) < 2147483648) (hecn : c.endCodeNBits ≠ 0) (isFirst : Bool) :
    TailSim hl hd minL minD c pE T (c.huffTail isFirst) := by
  obtain ⟨k1, k2, _⟩ := huffTail_ok c isFirst hecn
  have htr := huffLoop_tracks hl hd minL minD 0 ll dl fuelS (8 * c.bits.bytes.size + 2) c none 0 #[] pE T hc ctx hcd
    (by rw [← hcd] at *; exact hspec) (by omega) (by simp; omega) (by omega)
  have hpost := huffLoop_total ll dl ctx.szl ctx.szd (8 * c.bits.bytes.size + 2) c none 0 hc ctx.gl ctx.gd
    (by omega) (by intro i n h; simp at h)
  simp only [Cutter.huffTail] at k1 k2 ⊢
  rw [hcd] at k1 k2 ⊢
  generalize Cutter.huffLoop (8 * c.bits.bytes.size + 2) c none 0 = res at htr hpost k1 k2
  obtain ⟨c1, cp, r⟩ := res
  obtain ⟨t1, t2, t3, t4⟩ := htr
  obtain ⟨m1, m2, m3, m4, m5, m6, np, nf, hcp, hret⟩ := hpost
  simp only [] at t1 t2 t3 t4 m1 m2 m3 m4 m5 m6 np nf hcp hret k1 k2 ⊢
  cases r with
  | some r =>
    simp only [] at k1 k2 ⊢
    cases r with
    | none =>
      obtain ⟨a1, a2, a3⟩ := t2 rfl
      obtain ⟨i1, _⟩ := hret rfl
      refine ⟨k2, k1, fun _ => ⟨t1, a1, by simp at a2; exact a2, a3, i1⟩, by intro h; simp at h, by intro h; simp at h,
        by intro e h; simp at h⟩
    | some e =>
      have := t4 e rfl
      subst this
      exact ⟨k2, k1, by intro h; simp at h, by intro h; simp at h, fun _ => t1, by intro e h; simp at h; simp [← h]⟩
  | none =>
    cases cp with
    | none =>
      simp only [] at k1 k2 ⊢
      exact ⟨k2, k1, by intro h; simp at h, by intro h; simp at h, fun _ => t1, by intro e h; simp at h; simp [← h]⟩
    | some cpv =>
      obtain ⟨ci, cn⟩ := cpv
      simp only [] at k1 k2 ⊢
      rcases t3 rfl with ⟨a1, _⟩ | ⟨ci', cn', q, o, a1, a2, a3, a4, a5, a6, a7⟩
      · simp at a1
      · simp only [Option.some.injEq, Prod.mk.injEq] at a1
        obtain ⟨rfl, rfl⟩ := a1
        generalize (if c1.maxEncodedLen - 5 > 0xFFFF then 0xFFFF else c1.maxEncodedLen - 5) = n at k1 k2 ⊢
        split
        · rename_i hrep
          simp only [hrep, if_true] at k1 k2
          exact ⟨k2, k1, by intro h; simp at h, by intro h; simp at h, fun _ => t1, by intro e h; simp at h; simp [← h]⟩
        · rename_i hrep
          simp only [hrep, if_false] at k1 k2
          obtain ⟨q1, q2, q3⟩ := hcp ci cn rfl
          obtain ⟨c', ew, _⟩ := huffTail_write c1 ci cn q1 (by rw [m6]; exact q2)
            (by rw [m2, m6]; have := hc.max; omega)
          rw [ew] at k1 k2 ⊢
          simp only [] at k1 k2 ⊢
          refine ⟨k2, k1, by intro h; simp at h, ?_, by intro h; rcases h with h | h <;> simp at h,
            by intro e h; simp at h; simp [← h]⟩
          intro _
          -- the bits written by writeEndCode
          simp only [Cutter.writeEndCode] at ew
          split at ew
          · simp at ew
          · rename_i b' hb'
            have ew := Except.ok.inj ew
            subst ew
            have hu : (({ c1.bits with index := ci, nBits := cn } : Bitstream).unread).nBits < 8 := unread_nBits_lt _
            obtain ⟨w1, w2, w3, w4, w5⟩ := writeEndCodeLoop_bits c1.endCodeBits c1.endCodeNBits _ b' hb'
              (by simp only [Bitstream.unread]; omega) (Nat.le_of_lt (unread_nBits_lt _)) (by simp only [Bitstream.unread, m6]; omega)
            have hP : 8 * (({ c1.bits with index := ci, nBits := cn } : Bitstream).unread).index -
                (({ c1.bits with index := ci, nBits := cn } : Bitstream).unread).nBits = q := by
              simp only [Bitstream.unread]; omega
            rw [hP] at w2 w5
            simp only [Bitstream.unread] at w5
            refine ⟨q, o, a4, a5, by simp at a6; exact a6, a7, by rw [← m2]; exact w2, w3, w4, ?_⟩
            intro i
            rw [w5 i, m2, m3, m6]

end WuffsVerif.Flate.Cut
