/-
C16: robust block decoding — a block of the spec decoder depends only on its own bits (the final-block
bit excluded), so a walk over complete blocks can be replayed on any buffer that keeps those bits.
-/
import WuffsVerif.Proof.Flate.FixedCut2

namespace WuffsVerif.Flate.Cut
open WuffsVerif.Gen.C16 WuffsVerif.Flate.Spec

attribute [local irreducible] Spec.fixedLitLens Spec.fixedDistLens Spec.fixedLit Spec.fixedDist

/-- The block of `b` that starts at bit `p` (its final-block bit excluded) decodes, from output `out`,
to output `out1` and ends at bit `p1` — and so does the block at `p` of every buffer that has the same
bits in `(p, p1)` and is long enough. -/
def BlockAt (b : Bytes) (p : Nat) (out : Bytes) (p1 : Nat) (out1 : Bytes) : Prop :=
  p + 3 ≤ p1 ∧ (∃ x, out1 = out ++ x) ∧
  ∀ s'' : Bytes, (∀ i, p + 1 ≤ i → i < p1 → bitAt s'' i = bitAt b i) → p1 ≤ 8 * s''.size →
    blockBody s'' none 0 p out = .next p1 out1

theorem byte_eq_of_bits (s s' : Bytes) (j : Nat) (h : ∀ k, k < 8 → bitAt s' (8 * j + k) = bitAt s (8 * j + k)) :
    s'.getD j 0 = s.getD j 0 := by
  apply UInt8.toNat_inj.mp
  apply Nat.eq_of_testBit_eq
  intro k
  by_cases hk : k < 8
  · have := h k hk
    rw [bitAt_testBit, bitAt_testBit] at this
    have e1 : (8 * j + k) / 8 = j := by omega
    have e2 : (8 * j + k) % 8 = k := by omega
    rw [e1, e2] at this
    cases h1 : (s'.getD j 0).toNat.testBit k <;> cases h2 : (s.getD j 0).toNat.testBit k <;> simp_all
  · rw [byte_testBit_ge _ _ (by omega), byte_testBit_ge _ _ (by omega)]

theorem typ_bits_local (s s'' : Bytes) (p p1 : Nat) (hp : p + 3 ≤ p1)
    (hag : ∀ i, p + 1 ≤ i → i < p1 → bitAt s'' i = bitAt s i) : bitsLE s'' (p + 1) 2 = bitsLE s (p + 1) 2 :=
  bitsLE_local s s'' (p + 1) 2 (fun i h1 h2 => hag i h1 (by omega))

/-- A stored block. -/
theorem blockAt_stored (s : Bytes) (p : Nat) (out : Bytes) (p1 : Nat) (out1 : Bytes)
    (hty : bitsLE s (p + 1) 2 = 0) (h : blockBody s none 0 p out = .next p1 out1) :
    BlockAt s p out p1 out1 := by
  simp only [blockBody, hty, if_true, storedBlock] at h
  split at h
  · simp at h
  · rename_i hq
    split at h
    · simp at h
    · rename_i hlen
      split at h
      · simp at h
      · rename_i hfit
        simp only [BlockResult.next.injEq] at h
        obtain ⟨hp1, hout1⟩ := h
        generalize hqd : (p + 3 + 7) / 8 = q at *
        generalize hld : (s.getD q 0).toNat + 256 * (s.getD (q + 1) 0).toNat = len at *
        refine ⟨by omega, ⟨_, hout1.symm⟩, ?_⟩
        intro s'' hag hsz
        have hbyte : ∀ j, q ≤ j → j < q + 4 + len → s''.getD j 0 = s.getD j 0 := by
          intro j h1 h2
          apply byte_eq_of_bits
          intro k hk
          exact hag _ (by omega) (by omega)
        simp only [blockBody, typ_bits_local s s'' p p1 (by omega) hag, hty, if_true, storedBlock, hqd]
        rw [hbyte q (by omega) (by omega), hbyte (q + 1) (by omega) (by omega), hbyte (q + 2) (by omega) (by omega),
          hbyte (q + 3) (by omega) (by omega), hld]
        have c1 : ¬ (q + 4 > s''.size) := by omega
        have c3 : ¬ (q + 4 + len > s''.size) := by omega
        simp only [c1, if_false, hlen, c3]
        rw [← hp1, ← hout1]
        congr 2
        exact extract_eq_of_agree s s'' (q + 4) (q + 4 + len) (fun j h1 h2 => hbyte j (by omega) h2) (by omega) (by omega)

/-- A fixed-Huffman block. -/
theorem blockAt_fixed (s : Bytes) (p : Nat) (out : Bytes) (p1 : Nat) (out1 : Bytes)
    (hty : bitsLE s (p + 1) 2 = 1) (h : blockBody s none 0 p out = .next p1 out1) :
    BlockAt s p out p1 out1 := by
  have e1 : ¬ ((1 : Nat) = 0) := by omega
  simp only [blockBody, hty, e1, if_false, if_true] at h
  obtain ⟨qE, hr, heob⟩ := spec_reach fixedLit fixedDist 7 5 0 s _ _ _ _ _ h
  have hsym := huffTok_eob _ _ _ _ _ _ _ _ heob
  obtain ⟨_, hlen, _⟩ := decodeSym_len fixedLitLens fixedLit fixedLit_some fixedLit_nz s qE 7 256 p1 hsym
  rw [fixedLit_256.2] at hlen
  have hb := decodeSym_bounds fixedLit s qE 7 256 p1 hsym
  have hle := hr.le
  refine ⟨by omega, (huffBlock_cap fixedLit fixedDist 7 5 s 0 0 _ _ _ _ _ h).1, ?_⟩
  intro s'' hag hsz
  simp only [blockBody, typ_bits_local s s'' p p1 (by omega) hag, hty, e1, if_false, if_true]
  apply replay_eob fixedLit fixedDist 7 5 0 s s'' (hminD_fixed s) hr (fun i h1 h2 => hag i (by omega) (by omega))
    (by omega) _ _ (by omega)
  have hloc := huffTok_local fixedLit fixedDist 7 5 s s'' qE out1.size (by rw [heob]; trivial)
    (by rw [heob]; simp only [Tok.endPos]; intro i h1 h2; exact hag i (by omega) h2)
    (by rw [heob]; simp only [Tok.endPos]; exact hsz) (by omega) (hminD_fixed s)
  rw [hloc.1]; exact heob

/-- After `n` complete non-final blocks, the spec's block loop on `s` — started with the output `D` (a
preset dictionary; `#[]` without one) — stands at `(p, out)`, robustly. -/
inductive RReach (D s : Bytes) : Nat → Nat → Bytes → Prop
  | zero : RReach D s 0 0 D
  | step {n p' : Nat} {out' : Bytes} {p : Nat} {out : Bytes} :
      RReach D s n p' out' → bitAt s p' = 0 → BlockAt s p' out' p out → RReach D s (n + 1) p out

theorem RReach.run {D s : Bytes} {n p : Nat} {out : Bytes} (h : RReach D s n p out) :
    ∀ s'' : Bytes, (∀ i, i < p → bitAt s'' i = bitAt s i) → p ≤ 8 * s''.size →
      ∀ fuel, blocks s'' none 0 (fuel + n) 0 D = blocks s'' none 0 fuel p out := by
  induction h with
  | zero => intro s'' _ _ fuel; rfl
  | @step n p' out' p out hr hfin hblk ih =>
    intro s'' hag hsz fuel
    obtain ⟨h3, _, hrob⟩ := hblk
    have e : fuel + (n + 1) = (fuel + 1) + n := by omega
    rw [e, ih s'' (fun i hi => hag i (by omega)) (by omega) (fuel + 1), blocks_succ]
    have hav : ¬ (avail s'' p' < 3) := by simp only [avail]; omega
    rw [if_neg hav, hrob s'' (fun i h1 h2 => hag i h2) hsz]
    simp only [hag p' (by omega), hfin, capReached]
    simp

theorem RReach.prefix {D s : Bytes} {n p : Nat} {out : Bytes} (h : RReach D s n p out) : 3 * n ≤ p := by
  induction h with
  | zero => omega
  | step _ _ hblk ih => have := hblk.1; omega

/-- the output reached extends the dictionary -/
theorem RReach.extends {D s : Bytes} {n p : Nat} {out : Bytes} (h : RReach D s n p out) : ∃ x, out = D ++ x := by
  induction h with
  | zero => exact ⟨#[], by simp⟩
  | step _ _ hblk ih =>
    obtain ⟨x, hx⟩ := ih
    obtain ⟨y, hy⟩ := hblk.2.1
    exact ⟨x ++ y, by rw [hy, hx, Array.append_assoc]⟩

/-- The output of a successful run of the block loop extends the output it started with. -/
theorem blocks_extends (s : Bytes) : ∀ (fuel p : Nat) (out : Bytes) (pE : Nat) (T : Bytes),
    blocks s none 0 fuel p out = ⟨.done, pE, T⟩ → ∃ x, T = out ++ x := by
  intro fuel p out pE T h
  obtain ⟨o, rest, _, e2, _⟩ := blocks_cap s 0 0 fuel p out pE T h
  exact ⟨o ++ rest, by rw [e2, Array.append_assoc]⟩

/-- One step of a successful run of the block loop. -/
theorem blocks_step (s : Bytes) (fuel p : Nat) (out : Bytes) (pE : Nat) (T : Bytes)
    (h : blocks s none 0 fuel p out = ⟨.done, pE, T⟩) :
    ∃ f p1 out1, fuel = f + 1 ∧ ¬ (avail s p < 3) ∧ blockBody s none 0 p out = .next p1 out1 ∧
      ((bitAt s p = 1 ∧ p1 = pE ∧ out1 = T) ∨ (bitAt s p = 0 ∧ blocks s none 0 f p1 out1 = ⟨.done, pE, T⟩)) := by
  cases fuel with
  | zero => simp [blocks] at h
  | succ f =>
    rw [blocks_succ] at h
    split at h
    · simp at h
    · rename_i hav
      cases hb : blockBody s none 0 p out with
      | stop st p' out' =>
        rw [hb] at h; simp at h
        exact absurd h.1 (blockBody_stop _ _ _ _ _ _ _ _ hb)
      | next p1 out1 =>
        rw [hb] at h
        simp only [capReached, Bool.false_eq_true, if_false] at h
        refine ⟨f, p1, out1, rfl, hav, rfl, ?_⟩
        split at h
        · rename_i h1
          simp at h
          exact Or.inl ⟨h1, h.1, h.2⟩
        · rename_i h1
          have : bitAt s p = 0 := by
            have : bitAt s p < 2 := by simp only [bitAt]; omega
            omega
          exact Or.inr ⟨this, h⟩

end WuffsVerif.Flate.Cut
