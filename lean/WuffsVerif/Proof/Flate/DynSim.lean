/-
C16: `doHuffman` for arbitrary code lengths against the spec decoder (`doHuffman_sim`), the generic
version of `doStaticHuffman_sim`.
-/
import WuffsVerif.Proof.Flate.DynBlockAt

namespace WuffsVerif.Flate.Cut
open WuffsVerif.Gen.C16 WuffsVerif.Flate.Spec

/-- What `doHuffman` does on a Huffman block (code lengths `ll`, `dl`) that the spec decodes from `out`
to `T`, ending at `pE`. -/
structure HuffSim (hl hd : Huff) (minL minD : Nat) (ll : Array Nat) (k : Nat) (c : Cutter) (out : Bytes) (pE : Nat)
    (T : Bytes) (r : Cutter × Option Err) : Prop where
  size : r.1.bits.bytes.size = c.bits.bytes.size
  max : r.1.maxEncodedLen = c.maxEncodedLen
  nil : r.2 = none → r.1.bits.bytes = c.bits.bytes ∧ r.1.bits.pos = pE ∧ r.1.decodedLen + (k : Int) = (T.size : Int) ∧
      pE ≤ 8 * c.maxEncodedLen ∧ r.1.bits.Inv
  prog : r.2 = some .someProgress → ∃ q o, Reach hl hd minL minD c.bits.bytes c.bits.pos out q o ∧
      c.bits.pos < q ∧ r.1.decodedLen + (k : Int) = (o.size : Int) ∧ q + ll.getD 256 0 ≤ 8 * c.maxEncodedLen ∧
      8 * r.1.bits.index - r.1.bits.nBits = q + ll.getD 256 0 ∧ r.1.bits.nBits ≤ 8 * r.1.bits.index ∧
      r.1.bits.nBits ≤ 8 ∧ (∃ h : Huffman, h.Good ll) ∧ (∃ x ∈ ll.toList, x ≠ 0) ∧ ll.getD 256 0 ≠ 0 ∧
      ∀ i, bitAt r.1.bits.bytes i =
        if q ≤ i ∧ i < q + ll.getD 256 0 then
          ((rfcCode ll 256).testBit (ll.getD 256 0 - 1 - (i - q))).toNat
        else bitAt c.bits.bytes i
  keep : r.2 = some .noProgress ∨ r.2 = some .replaceWithSingleBlock → r.1.bits.bytes = c.bits.bytes
  keepD : r.2 = some .noProgress → r.1.decodedLen = c.decodedLen

theorem doHuffman_sim (c : Cutter) (hc : c.OK) (ll dl : Array Nat) (hl hd : Huff)
    (hHl : mkHuff ll = some hl) (hHd : mkHuff dl = some hd) (hll : ll.size ≤ 288) (hdl : dl.size ≤ 32)
    (h256 : 256 < ll.size) (minL minD fuelS pE : Nat) (out T : Bytes) (hminL : minL = ll.getD 256 0)
    (hspec : huffBlock hl hd minL minD c.bits.bytes none 0 fuelS c.bits.pos out = .next pE T)
    (k : Nat) (hcd : c.decodedLen + (k : Int) = (out.size : Int)) (hc0 : 0 ≤ c.decodedLen)
    (hT : (T.size : Int) < 2147483648) (isFirst : Bool) :
    HuffSim hl hd minL minD ll k c out pE T (c.doHuffman isFirst ll dl) := by
  obtain ⟨k1, k2, _⟩ := doHuffman_ok c isFirst ll dl
  rw [doHuffman_eq] at k1 k2 ⊢
  have hlo := offAt16_le ll 288 hll
  have hdo : offAt dl 16 ≤ 288 := offAt16_le dl 288 (by omega)
  cases h1 : c.lHuff.construct ll with
  | error e =>
    rw [h1] at k1 k2
    simp only [] at k1 k2 ⊢
    rcases construct_err _ _ _ h1 with rfl | rfl <;>
      exact ⟨rfl, rfl, by intro h; simp at h, by intro h; simp at h, by intro h; rcases h with h | h <;> simp at h, by intro h; simp at h⟩
  | ok p =>
    obtain ⟨lh, ecb, ecn⟩ := p
    rw [h1] at k1 k2
    simp only [] at k1 k2 ⊢
    have hgl := construct_good c.lHuff lh ll ecb ecn h1 hc.l.tableOK hc.l.symsz hlo (by omega)
    have hnzl := construct_nz c.lHuff lh ll ecb ecn h1
    have hend := endCode_canonical c.lHuff lh ll ecb ecn h1
    by_cases hecn : ecn = 0
    · simp only [hecn, if_true] at k1 k2 ⊢
      exact ⟨rfl, rfl, by intro h; simp at h, by intro h; simp at h, by intro h; rcases h with h | h <;> simp at h, by intro h; simp at h⟩
    · have hcond : ll.size > 256 ∧ ll.getD 256 0 ≠ 0 := by
        by_cases hc' : ll.size > 256 ∧ ll.getD 256 0 ≠ 0
        · exact hc'
        · rw [if_neg hc'] at hend; exact absurd hend hecn
      rw [if_pos hcond] at hend
      obtain ⟨rfl, rfl, _⟩ := hend
      have hL0 := hcond.2
      generalize hL : ll.getD 256 0 = L at *
      simp only [hecn, if_false] at k1 k2 ⊢
      cases h2 : c.dHuff.construct dl with
      | error e =>
        rw [h2] at k1 k2
        simp only [] at k1 k2 ⊢
        rcases construct_err _ _ _ h2 with rfl | rfl <;>
          exact ⟨rfl, rfl, by intro h; simp at h, by intro h; simp at h, by intro h; rcases h with h | h <;> simp at h, by intro h; simp at h⟩
      | ok p2 =>
        obtain ⟨dh, decb, decn⟩ := p2
        rw [h2] at k1 k2
        simp only [] at k1 k2 ⊢
        have hgd := construct_good c.dHuff dh dl _ _ h2 hc.d.tableOK hc.d.symsz hdo (by omega)
        have hnzd := construct_nz c.dHuff dh dl _ _ h2
        obtain ⟨hu, hup⟩ := Inv.unread hc.inv
        split
        · rename_i hidx
          simp only [hidx, if_true] at k1 k2
          exact ⟨rfl, rfl, by intro h; simp at h, by intro h; simp at h, fun _ => rfl, fun _ => rfl⟩
        · rename_i hidx
          simp only [hidx, if_false] at k1 k2
          have hc3 : (⟨c.bits.unread, c.maxEncodedLen, c.decodedLen, rfcCode ll 256, L, lh, dh⟩ : Cutter).OK :=
            ⟨hu, hc.max, hgl.shape, hgd.shape⟩
          have ctx : BlockCtx (⟨c.bits.unread, c.maxEncodedLen, c.decodedLen, rfcCode ll 256, L, lh, dh⟩ : Cutter)
              ll dl hl hd := ⟨hgl, hgd, hnzl, hnzd, hHl, hHd, hll, hdl⟩
          have hsim := huffTail_sim _ hc3 ll dl hl hd ctx minL minD fuelS pE out T
            (by show huffBlock hl hd minL minD c.bits.unread.bytes none 0 fuelS c.bits.unread.pos out = .next pE T
                rw [hup]; exact hspec)
            k hcd hc0 hT hL0 hL.symm isFirst
          obtain ⟨s1, s2, s3, s4, s5, s6, _⟩ := hsim
          subst hL
          refine ⟨k2, k1, s3, ?_, s5, s6⟩
          intro hp
          obtain ⟨q, o, a1, a2, a3, a4, a5, a6, a7, a8⟩ := s4 hp
          exact ⟨q, o, by rw [← hup]; exact a1, by rw [← hup]; exact a2, a3, a4, a5, a6, a7, ⟨lh, hgl⟩, hnzl, hL0, a8⟩

end WuffsVerif.Flate.Cut
