/-
C16/C07: the RFC 1951 spec decoder only looks at the bits it consumes (locality), in token form:
a run of tokens of a Huffman block can be replayed on any buffer that agrees on those bits.
-/
import WuffsVerif.Proof.Flate.SpecTok

namespace WuffsVerif.Flate.Spec

theorem bitsLE_local (s s' : Bytes) (p n : Nat) (h : ∀ i, p ≤ i → i < p + n → bitAt s' i = bitAt s i) :
    bitsLE s' p n = bitsLE s p n := by
  induction n generalizing p with
  | zero => rfl
  | succ n ih =>
    simp only [bitsLE]
    rw [h p (Nat.le_refl _) (by omega), ih (p + 1) (fun i h1 h2 => h i (by omega) (by omega))]

theorem decodeGo_local (H : Huff) (s s' : Bytes) (p : Nat) :
    ∀ (rem len code first index v p1 : Nat), decodeGo H s p rem len code first index = .sym v p1 →
      (∀ i, p + len ≤ i → i < p1 → bitAt s' i = bitAt s i) → p1 ≤ 8 * s'.size →
      decodeGo H s' p rem len code first index = .sym v p1 ∧ p + len < p1 := by
  intro rem
  induction rem with
  | zero => intro len code first index v p1 h; simp [decodeGo] at h
  | succ rem ih =>
    intro len code first index v p1 h hag hsz
    rw [decodeGo] at h ⊢
    split at h
    · simp at h
    · simp only [] at h
      split at h
      · rename_i hlt
        simp only [SymResult.sym.injEq] at h
        obtain ⟨hv, hp1⟩ := h
        have hb : bitAt s' (p + len) = bitAt s (p + len) := hag _ (Nat.le_refl _) (by omega)
        have : ¬ (p + len ≥ 8 * s'.size) := by omega
        rw [if_neg this]
        simp only [hb, hlt, if_true, hv, hp1]
        exact ⟨trivial, by omega⟩
      · rename_i hlt
        obtain ⟨e1, e2⟩ := ih _ _ _ _ _ _ h (fun i h1 h2 => hag i (by omega) h2) hsz
        have hb : bitAt s' (p + len) = bitAt s (p + len) := hag _ (Nat.le_refl _) (by omega)
        have : ¬ (p + len ≥ 8 * s'.size) := by omega
        rw [if_neg this]
        simp only [hb, hlt, if_false]
        exact ⟨e1, by omega⟩

theorem decodeGo_bounds (H : Huff) (s : Bytes) (p : Nat) :
    ∀ (rem len code first index v p1 : Nat), decodeGo H s p rem len code first index = .sym v p1 →
      p + len < p1 ∧ p1 ≤ 8 * s.size := by
  intro rem
  induction rem with
  | zero => intro len code first index v p1 h; simp [decodeGo] at h
  | succ rem ih =>
    intro len code first index v p1 h
    rw [decodeGo] at h
    split at h
    · simp at h
    · simp only [] at h
      split at h
      · simp only [SymResult.sym.injEq] at h
        omega
      · have := ih _ _ _ _ _ _ h
        omega

theorem decodeSym_bounds (H : Huff) (s : Bytes) (p m v p1 : Nat) (h : decodeSym H s p m = .sym v p1) :
    p < p1 ∧ p1 ≤ 8 * s.size := by
  simp only [decodeSym] at h
  split at h
  · simp at h
  · have := decodeGo_bounds H s p _ 0 0 0 0 v p1 h
    omega

theorem decodeSym_local (H : Huff) (s s' : Bytes) (p m v p1 : Nat) (h : decodeSym H s p m = .sym v p1)
    (hag : ∀ i, p ≤ i → i < p1 → bitAt s' i = bitAt s i) (hsz : p1 ≤ 8 * s'.size) (hm : p + m ≤ 8 * s'.size) :
    decodeSym H s' p m = .sym v p1 ∧ p < p1 := by
  simp only [decodeSym] at h ⊢
  split at h
  · simp at h
  · have : ¬ (avail s' p < m) := by simp only [avail]; omega
    rw [if_neg this]
    have := decodeGo_local H s s' p _ 0 0 0 0 v p1 h (fun i h1 h2 => hag i (by omega) h2) hsz
    exact ⟨this.1, by omega⟩

/-- The end position of a token. -/
def Tok.endPos : Tok → Nat
  | .lit _ p1 => p1
  | .eob p1 => p1
  | .copy _ _ p1 => p1
  | .bad _ => 0

def Tok.good : Tok → Prop
  | .bad _ => False
  | _ => True

/-- **Locality of one token**: a good token of `s` at bit `p` is the token of `s'` at `p` when `s'` has
the same bits from `p` to the token's end, the token fits in `s'`, `minL` bits are left at `p`, and
every distance code is at least `minD` bits long (`hminD`). -/
theorem huffTok_local (hl hd : Huff) (minL minD : Nat) (s s' : Bytes) (p sz : Nat)
    (hgood : (huffTok hl hd minL minD s p sz).good)
    (hag : ∀ i, p ≤ i → i < (huffTok hl hd minL minD s p sz).endPos → bitAt s' i = bitAt s i)
    (hsz : (huffTok hl hd minL minD s p sz).endPos ≤ 8 * s'.size) (hm : p + minL ≤ 8 * s'.size)
    (hminD : ∀ q dv p2, decodeSym hd s q minD = .sym dv p2 → q + minD ≤ p2) :
    huffTok hl hd minL minD s' p sz = huffTok hl hd minL minD s p sz ∧
      p < (huffTok hl hd minL minD s p sz).endPos := by
  simp only [huffTok] at hgood hag hsz ⊢
  cases h1 : decodeSym hl s p minL with
  | truncated => rw [h1] at hgood; exact hgood.elim
  | corrupt => rw [h1] at hgood; exact hgood.elim
  | sym v p1 =>
    rw [h1] at hgood hag hsz
    simp only [] at hgood hag hsz ⊢
    by_cases hv : v < 256
    · simp only [hv, if_true, Tok.endPos] at hag hsz ⊢
      obtain ⟨e, lt⟩ := decodeSym_local hl s s' p minL v p1 h1 hag hsz hm
      rw [e]
      simp only [hv, if_true]
      exact ⟨trivial, lt⟩
    · simp only [hv, if_false] at hgood hag hsz ⊢
      by_cases hv2 : v = 256
      · simp only [hv2, if_true, Tok.endPos] at hag hsz ⊢
        subst hv2
        obtain ⟨e, lt⟩ := decodeSym_local hl s s' p minL 256 p1 h1 hag hsz hm
        rw [e]
        exact ⟨by simp, lt⟩
      · simp only [hv2, if_false] at hgood hag hsz ⊢
        by_cases hv3 : v ≥ 286
        · simp only [hv3, if_true, Tok.good] at hgood
        · simp only [hv3, if_false] at hgood hag hsz ⊢
          generalize hebdef : lenExtra.getD (v - 257) 0 = eb at hgood hag hsz ⊢
          by_cases ha : avail s p1 < eb
          · simp only [ha, if_true, Tok.good] at hgood
          · simp only [ha, if_false] at hgood hag hsz ⊢
            cases h2 : decodeSym hd s (p1 + eb) minD with
            | truncated => rw [h2] at hgood; exact hgood.elim
            | corrupt => rw [h2] at hgood; exact hgood.elim
            | sym dv p2 =>
              rw [h2] at hgood hag hsz
              simp only [] at hgood hag hsz ⊢
              by_cases hd1 : dv ≥ 30
              · simp only [hd1, if_true, Tok.good] at hgood
              · simp only [hd1, if_false] at hgood hag hsz ⊢
                generalize hdedef : distExtra.getD dv 0 = de at hgood hag hsz ⊢
                by_cases ha2 : avail s p2 < de
                · simp only [ha2, if_true, Tok.good] at hgood
                · simp only [ha2, if_false] at hgood hag hsz ⊢
                  by_cases hdist : distBase.getD dv 0 + bitsLE s p2 de > sz ∨
                      distBase.getD dv 0 + bitsLE s p2 de > windowSize
                  · simp only [hdist, if_true, Tok.good] at hgood
                  · simp only [hdist, if_false, Tok.endPos] at hag hsz ⊢
                    -- positions: p < p1, p1 + eb + minD ≤ p2, end = p2 + de
                    have hlo := hminD (p1 + eb) dv p2 h2
                    have hp1 := (decodeSym_bounds hl s p minL v p1 h1).1
                    obtain ⟨e1, _⟩ := decodeSym_local hl s s' p minL v p1 h1
                      (fun i a b => hag i a (by omega)) (by omega) hm
                    obtain ⟨e2, _⟩ := decodeSym_local hd s s' (p1 + eb) minD dv p2 h2
                      (fun i a b => hag i (by omega) (by omega)) (by omega) (by omega)
                    have b1 : bitsLE s' p1 eb = bitsLE s p1 eb :=
                      bitsLE_local s s' p1 eb (fun i a b => hag i (by omega) (by omega))
                    have b2 : bitsLE s' p2 de = bitsLE s p2 de :=
                      bitsLE_local s s' p2 de (fun i a b => hag i (by omega) (by omega))
                    have a1 : ¬ (avail s' p1 < eb) := by simp only [avail]; omega
                    have a2 : ¬ (avail s' p2 < de) := by simp only [avail]; omega
                    rw [e1]
                    simp only [hv, hv2, hv3, if_false, hebdef, a1, e2, hd1, hdedef, a2, b1, b2, hdist]
                    exact ⟨trivial, by omega⟩

end WuffsVerif.Flate.Spec
