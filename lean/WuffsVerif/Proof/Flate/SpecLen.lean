/-
C16: the spec decoder consumes exactly the code length of the symbol it returns, and `minLen` is
a lower bound of every code length (pure facts about `Spec.mkHuff` / `Spec.decodeGo`).
-/
import WuffsVerif.Proof.Flate.Agree2

namespace WuffsVerif.Flate.Cut
open WuffsVerif.Gen.C16 WuffsVerif.Flate.Spec

theorem decodeGo_len (lens : Array Nat) (H : Huff)
    (hcount : ∀ L, 1 ≤ L → L ≤ 15 → H.count.getD L 0 = rfcBlCount lens L)
    (hsyms : H.syms = ((List.range' 1 15).flatMap (symsOfLen lens)).toArray) (s : Bytes) (p : Nat) :
    ∀ (rem len code first : Nat), len + rem ≤ 15 → first ≤ 2 * code →
      ∀ v p1, decodeGo H s p rem len code first (offAt lens (len + 1)) = .sym v p1 →
        v < lens.size ∧ lens.getD v 0 = p1 - p ∧ p < p1 := by
  intro rem
  induction rem with
  | zero => intro len code first _ _ v p1 h; simp [decodeGo] at h
  | succ rem ih =>
    intro len code first hlen hfc v p1 h
    rw [decodeGo] at h
    split at h
    · simp at h
    · simp only [] at h
      rw [hcount (len + 1) (by omega) (by omega)] at h
      generalize hc' : 2 * code + bitAt s (p + len) = code' at h
      have hge : first ≤ code' := by omega
      split at h
      · rename_i hlt
        simp only [SymResult.sym.injEq] at h
        obtain ⟨hv, hp1⟩ := h
        obtain ⟨j, j1, j2, j3, _⟩ := specSyms_get lens (len + 1) (code' - first) (by omega) (by omega) (by omega)
        have hget : H.syms.getD (offAt lens (len + 1) + (code' - first)) 0 = j := by
          rw [hsyms, Array.getD_eq_getD_getElem?]
          simp only [List.getElem?_toArray, j1, Option.getD_some]
        rw [hget] at hv
        subst hv
        exact ⟨j2, by rw [j3]; omega, by omega⟩
      · have e3 : offAt lens (len + 1) + rfcBlCount lens (len + 1) = offAt lens (len + 1 + 1) := rfl
        rw [e3] at h
        have := ih (len + 1) code' (2 * (first + rfcBlCount lens (len + 1))) (by omega) (by omega) v p1 h
        exact ⟨this.1, this.2.1, by omega⟩

/-- **The spec decoder consumes exactly the code length of the symbol it returns.** -/
theorem decodeSym_len (lens : Array Nat) (H : Huff) (hH : mkHuff lens = some H) (hnz : ∃ x ∈ lens.toList, x ≠ 0)
    (s : Bytes) (q m v p2 : Nat) (h : decodeSym H s q m = .sym v p2) :
    v < lens.size ∧ lens.getD v 0 = p2 - q ∧ q < p2 := by
  obtain ⟨hcount, hsyms, _, hm15, _⟩ := mkHuff_spec lens H hH hnz
  simp only [decodeSym] at h
  split at h
  · simp at h
  · have e0 : offAt lens (0 + 1) = 0 := by simp [offAt, rfcBlCount]
    have := decodeGo_len lens H hcount hsyms s q H.maxLen 0 0 0 (by omega) (by omega) v p2 (by rw [e0]; exact h)
    exact this

theorem foldl_min (l : List Nat) (acc : Nat) :
    (acc ≠ 0 → l.foldl (fun m x => if x ≠ 0 ∧ (m = 0 ∨ x < m) then x else m) acc ≤ acc) ∧
    ∀ x ∈ l, x ≠ 0 → l.foldl (fun m x => if x ≠ 0 ∧ (m = 0 ∨ x < m) then x else m) acc ≤ x := by
  induction l generalizing acc with
  | nil => simp
  | cons y l ih =>
    simp only [List.foldl_cons, List.mem_cons]
    obtain ⟨h1, h2⟩ := ih (if y ≠ 0 ∧ (acc = 0 ∨ y < acc) then y else acc)
    by_cases hy : y ≠ 0 ∧ (acc = 0 ∨ y < acc)
    · rw [if_pos hy] at h1 h2 ⊢
      have := h1 hy.1
      refine ⟨by intro ha; rcases hy.2 with h | h <;> omega, ?_⟩
      intro x hx hx0
      rcases hx with rfl | hx
      · exact this
      · exact h2 x hx hx0
    · rw [if_neg hy] at h1 h2 ⊢
      refine ⟨h1, ?_⟩
      intro x hx hx0
      rcases hx with rfl | hx
      · have hacc : acc ≠ 0 ∧ acc ≤ x := by
          constructor
          · intro h0; exact hy ⟨hx0, Or.inl h0⟩
          · rcases Nat.lt_or_ge x acc with h | h
            · exact absurd ⟨hx0, Or.inr h⟩ hy
            · exact h
        have := h1 hacc.1
        omega
      · exact h2 x hx hx0

/-- `minLen` of the spec's code is at most every code length. -/
theorem mkHuff_minLen (lens : Array Nat) (H : Huff) (hH : mkHuff lens = some H) (hnz : ∃ x ∈ lens.toList, x ≠ 0)
    (j : Nat) (hj : j < lens.size) (hl : lens.getD j 0 ≠ 0) : H.minLen ≤ lens.getD j 0 := by
  have hmem : lens.getD j 0 ∈ lens.toList := by simp [Array.getD, hj]
  have hmin := (foldl_min lens.toList 0).2 _ hmem hl
  obtain ⟨m1, m2⟩ := foldl_max lens.toList 0
  obtain ⟨x, hx, hx0⟩ := hnz
  simp only [mkHuff] at hH
  have hmb : maxBits = 15 := rfl
  by_cases hM15 : lens.toList.foldl (fun m l => if l > m then l else m) 0 > maxBits
  · rw [if_pos hM15] at hH; simp at hH
  · rw [if_neg hM15] at hH
    have hM0 : ¬ (lens.toList.foldl (fun m l => if l > m then l else m) 0 = 0) := by
      have := m2 x hx; omega
    rw [if_neg hM0, Option.ite_none_right_eq_some] at hH
    obtain ⟨_, hH⟩ := hH
    have hH := Option.some.inj hH
    subst hH
    exact hmin

end WuffsVerif.Flate.Cut
