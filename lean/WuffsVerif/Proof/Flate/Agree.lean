/-
C16: the cutter's Huffman decoder (`huffman.decode`: table, 64-bit refill, `slowDecode`) and the
RFC 1951 spec decoder (`Spec.decodeSym` over `Spec.mkHuff`) agree, for every code-length vector.
Part 1: the spec's symbol table `Huff.syms` lists the coded symbols by (length, symbol).
-/
import WuffsVerif.Proof.Flate.Safe2
import WuffsVerif.Proof.Flate.TakeSpec

namespace WuffsVerif.Flate.Cut
open WuffsVerif.Gen.C16

/-- The indices (offset by `k`) of the entries of `l` that equal `L`. -/
def idxOf (L : Nat) : List Nat → Nat → List Nat
  | [], _ => []
  | x :: l, k => if x = L then k :: idxOf L l (k + 1) else idxOf L l (k + 1)

theorem symsOfLen_eq_idxOf (L : Nat) (l : List Nat) (k : Nat) :
    ((l.zipIdx k).filter (fun p => p.1 = L)).map (·.2) = idxOf L l k := by
  induction l generalizing k with
  | nil => rfl
  | cons x l ih =>
    simp only [List.zipIdx_cons, List.filter_cons, idxOf]
    by_cases hx : x = L
    · simp [hx, ih]
    · simp [hx, ih]

theorem idxOf_length (L : Nat) (l : List Nat) (k : Nat) : (idxOf L l k).length = (l.filter (· = L)).length := by
  induction l generalizing k with
  | nil => rfl
  | cons x l ih =>
    simp only [idxOf, List.filter_cons]
    by_cases hx : x = L
    · simp [hx, ih]
    · simp [hx, ih]

/-- The `r`-th index of an `L`: it is an `L`, and exactly `r` earlier entries are `L`. -/
theorem idxOf_get (L : Nat) : ∀ (l : List Nat) (k r : Nat) (hr : r < (idxOf L l k).length),
    k ≤ (idxOf L l k)[r] ∧ (idxOf L l k)[r] < k + l.length ∧
    l[(idxOf L l k)[r] - k]? = some L ∧ ((l.take ((idxOf L l k)[r] - k)).filter (· = L)).length = r := by
  intro l
  induction l with
  | nil => intro k r hr; simp [idxOf] at hr
  | cons x l ih =>
    intro k r hr
    by_cases hx : x = L
    · have e : idxOf L (x :: l) k = k :: idxOf L l (k + 1) := by simp [idxOf, hx]
      cases r with
      | zero =>
        simp only [e, List.getElem_cons_zero, Nat.sub_self, List.take_zero, List.filter_nil, List.length_nil,
          List.length_cons, Nat.le_refl, true_and]
        exact ⟨by omega, by simp [hx], trivial⟩
      | succ r =>
        have hr' : r < (idxOf L l (k + 1)).length := by rw [e] at hr; simpa using hr
        obtain ⟨a1, a2, a3, a4⟩ := ih (k + 1) r hr'
        have eg : (idxOf L (x :: l) k)[r + 1] = (idxOf L l (k + 1))[r] := by simp [e]
        rw [eg]
        generalize (idxOf L l (k + 1))[r] = j at a1 a2 a3 a4
        have ej : j - k = (j - (k + 1)) + 1 := by omega
        refine ⟨by omega, by simp only [List.length_cons]; omega, ?_, ?_⟩
        · rw [ej, List.getElem?_cons_succ]; exact a3
        · rw [ej, List.take_succ_cons, List.filter_cons]
          simp [hx, a4]
    · have e : idxOf L (x :: l) k = idxOf L l (k + 1) := by simp [idxOf, hx]
      have hr' : r < (idxOf L l (k + 1)).length := by rw [e] at hr; exact hr
      obtain ⟨a1, a2, a3, a4⟩ := ih (k + 1) r hr'
      have eg : (idxOf L (x :: l) k)[r] = (idxOf L l (k + 1))[r] := by simp [e]
      rw [eg]
      generalize (idxOf L l (k + 1))[r] = j at a1 a2 a3 a4
      have ej : j - k = (j - (k + 1)) + 1 := by omega
      refine ⟨by omega, by simp only [List.length_cons]; omega, ?_, ?_⟩
      · rw [ej, List.getElem?_cons_succ]; exact a3
      · rw [ej, List.take_succ_cons, List.filter_cons]
        simp [hx, a4]

/-! ### indexing into `flatMap` -/

/-- Total length of `f a, f (a+1), …, f (a+d-1)`. -/
def sumLen (f : Nat → List Nat) (a : Nat) : Nat → Nat
  | 0 => 0
  | d + 1 => (f a).length + sumLen f (a + 1) d

theorem sumLen_succ (f : Nat → List Nat) (a d : Nat) :
    sumLen f a (d + 1) = sumLen f a d + (f (a + d)).length := by
  induction d generalizing a with
  | zero => simp [sumLen]
  | succ d ih =>
    have e : a + 1 + d = a + (d + 1) := by omega
    rw [sumLen, ih (a + 1), e]
    conv => rhs; rw [sumLen]
    omega

theorem flatMap_get (f : Nat → List Nat) : ∀ (n a d r : Nat), d < n → r < (f (a + d)).length →
    ((List.range' a n).flatMap f)[sumLen f a d + r]? = (f (a + d))[r]? := by
  intro n
  induction n with
  | zero => intro a d r hd; omega
  | succ n ih =>
    intro a d r hd hr
    rw [List.range'_succ, List.flatMap_cons]
    cases d with
    | zero =>
      simp only [sumLen, Nat.zero_add, Nat.add_zero] at hr ⊢
      rw [List.getElem?_append_left hr]
    | succ d =>
      have e : a + 1 + d = a + (d + 1) := by omega
      rw [sumLen, List.getElem?_append_right (by omega)]
      have : (f a).length + sumLen f (a + 1) d + r - (f a).length = sumLen f (a + 1) d + r := by omega
      rw [this, ih (a + 1) d r (by omega) (by rw [e]; exact hr), e]

/-! ### what `Spec.mkHuff` builds -/

theorem countLen_eq (lens : Array Nat) (L : Nat) : Spec.countLen lens L = (lens.toList.filter (· = L)).length := by
  simp only [Spec.countLen]
  have : ∀ (l : List Nat) (acc : Nat),
      l.foldl (fun acc x => if x = L then acc + 1 else acc) acc = acc + (l.filter (· = L)).length := by
    intro l
    induction l with
    | nil => intro acc; simp
    | cons x l ih =>
      intro acc
      simp only [List.foldl_cons, List.filter_cons, ih]
      by_cases hx : x = L
      · simp [hx]; omega
      · simp [hx]
  rw [this]; simp

theorem symsOfLen_eq (lens : Array Nat) (L : Nat) : Spec.symsOfLen lens L = idxOf L lens.toList 0 := by
  simp only [Spec.symsOfLen]
  exact symsOfLen_eq_idxOf L lens.toList 0

theorem symsOfLen_length (lens : Array Nat) (L : Nat) (hL : L ≠ 0) :
    (Spec.symsOfLen lens L).length = rfcBlCount lens L := by
  rw [symsOfLen_eq, idxOf_length]
  simp [rfcBlCount, hL]

theorem offAt_eq_sumLen (lens : Array Nat) (d : Nat) : offAt lens (1 + d) = sumLen (Spec.symsOfLen lens) 1 d := by
  induction d with
  | zero => simp [offAt, sumLen, rfcBlCount]
  | succ d ih =>
    rw [sumLen_succ, ← ih, symsOfLen_length lens (1 + d) (by omega)]
    rfl

/-- The `r`-th symbol of length `L` in the spec's symbol table. -/
theorem specSyms_get (lens : Array Nat) (L r : Nat) (hL1 : 1 ≤ L) (hL15 : L ≤ 15) (hr : r < rfcBlCount lens L) :
    ∃ j, ((List.range' 1 15).flatMap (Spec.symsOfLen lens))[offAt lens L + r]? = some j ∧
      j < lens.size ∧ lens.getD j 0 = L ∧ rankOf lens j = r := by
  have hlen := symsOfLen_length lens L (by omega)
  have hr' : r < (Spec.symsOfLen lens (1 + (L - 1))).length := by
    have : 1 + (L - 1) = L := by omega
    rw [this, hlen]; exact hr
  have hget := flatMap_get (Spec.symsOfLen lens) 15 1 (L - 1) r (by omega) hr'
  have e1 : 1 + (L - 1) = L := by omega
  rw [← offAt_eq_sumLen, e1] at hget
  rw [e1] at hr'
  rw [hget, List.getElem?_eq_getElem hr']
  have hr2 : r < (idxOf L lens.toList 0).length := by rw [← symsOfLen_eq]; exact hr'
  obtain ⟨_, a2, a3, a4⟩ := idxOf_get L lens.toList 0 r hr2
  have ej : (Spec.symsOfLen lens L)[r] = (idxOf L lens.toList 0)[r] := by simp [symsOfLen_eq]
  refine ⟨_, rfl, ?_, ?_, ?_⟩
  · rw [ej]; simpa using a2
  · rw [ej]
    simp only [Nat.sub_zero] at a3
    simp only [Array.getD_eq_getD_getElem?, ← Array.getElem?_toList, a3, Option.getD_some]
  · rw [ej]
    simp only [Nat.sub_zero] at a3 a4
    have hj : lens.getD (idxOf L lens.toList 0)[r] 0 = L := by
      simp only [Array.getD_eq_getD_getElem?, ← Array.getElem?_toList, a3, Option.getD_some]
    simp only [rankOf, hj, a4]

theorem foldl_max (l : List Nat) (acc : Nat) :
    acc ≤ l.foldl (fun m x => if x > m then x else m) acc ∧
    ∀ x ∈ l, x ≤ l.foldl (fun m x => if x > m then x else m) acc := by
  induction l generalizing acc with
  | nil => simp
  | cons y l ih =>
    simp only [List.foldl_cons, List.mem_cons]
    obtain ⟨h1, h2⟩ := ih (if y > acc then y else acc)
    by_cases hy : y > acc
    · simp only [hy, if_true] at h1 h2 ⊢
      refine ⟨by omega, ?_⟩
      intro x hx
      rcases hx with rfl | hx
      · exact h1
      · exact h2 x hx
    · simp only [hy, if_false] at h1 h2 ⊢
      refine ⟨h1, ?_⟩
      intro x hx
      rcases hx with rfl | hx
      · omega
      · exact h2 x hx

/-- What a successful `Spec.mkHuff` returns, for lengths that are not all zero. -/
theorem mkHuff_spec (lens : Array Nat) (H : Spec.Huff) (h : Spec.mkHuff lens = some H)
    (hnz : ∃ x ∈ lens.toList, x ≠ 0) :
    (∀ L, 1 ≤ L → L ≤ 15 → H.count.getD L 0 = rfcBlCount lens L) ∧
    H.syms = ((List.range' 1 15).flatMap (Spec.symsOfLen lens)).toArray ∧
    1 ≤ H.maxLen ∧ H.maxLen ≤ 15 ∧ (∀ L, H.maxLen < L → rfcBlCount lens L = 0) := by
  simp only [Spec.mkHuff] at h
  have hmb : Spec.maxBits = 15 := rfl
  obtain ⟨m1, m2⟩ := foldl_max lens.toList 0
  obtain ⟨x, hx, hx0⟩ := hnz
  have hM1 : 1 ≤ lens.toList.foldl (fun m l => if l > m then l else m) 0 := by have := m2 x hx; omega
  have hzero : ∀ L, lens.toList.foldl (fun m l => if l > m then l else m) 0 < L → rfcBlCount lens L = 0 := by
    intro L hL
    simp only [rfcBlCount]
    split
    · rfl
    · rw [List.length_eq_zero_iff, List.filter_eq_nil_iff]
      intro y hy
      have := m2 y hy
      simp; omega
  have hcount : ∀ L, 1 ≤ L → L ≤ 15 →
      (((List.range (Spec.maxBits + 1)).map (fun L => if L = 0 then 0 else Spec.countLen lens L)).toArray).getD L 0 =
        rfcBlCount lens L := by
    intro L h1 h2
    have hL0 : L ≠ 0 := by omega
    simp [Array.getD, Spec.maxBits, Nat.lt_succ_of_le h2, hL0, countLen_eq, rfcBlCount]
  by_cases hM15 : lens.toList.foldl (fun m l => if l > m then l else m) 0 > Spec.maxBits
  · rw [if_pos hM15] at h; simp at h
  · rw [if_neg hM15] at h
    have hM0 : ¬ (lens.toList.foldl (fun m l => if l > m then l else m) 0 = 0) := by omega
    rw [if_neg hM0, Option.ite_none_right_eq_some] at h
    obtain ⟨_, h⟩ := h
    have h := Option.some.inj h
    subst h
    exact ⟨hcount, rfl, hM1, by simp only []; omega, hzero⟩

end WuffsVerif.Flate.Cut
