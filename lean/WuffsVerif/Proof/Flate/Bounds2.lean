/-
C16: length bounds, part 2 — `doHuffman`, `doDynamicHuffman`, `cutSingleBlock`, `cut`, `Cut`.
-/
import WuffsVerif.Proof.Flate.Bounds

namespace WuffsVerif.Flate.Cut
open WuffsVerif.Gen.C16

/-- What the block functions guarantee to `cut`: `maxEncodedLen` and the buffer size are kept, and
when the block reports `nil` or `errInternalSomeProgress` the cursor (rounded up to a byte) is
inside the budget. -/
def BlockOK (c : Cutter) (r : Cutter × Option Err) : Prop :=
  r.1.maxEncodedLen = c.maxEncodedLen ∧
  r.1.bits.bytes.size = c.bits.bytes.size ∧
  (r.2 = none ∨ r.2 = some .someProgress → r.1.bits.endIdx ≤ c.maxEncodedLen)

theorem doStored_ok (c : Cutter) : BlockOK c c.doStored := doStored_spec c

theorem writeEndCode_spec (c c' : Cutter) (h : c.writeEndCode = .ok c') (hn : c.bits.nBits ≤ 8)
    (hj : 1 ≤ c.endCodeNBits) :
    c'.maxEncodedLen = c.maxEncodedLen ∧ c'.bits.bytes.size = c.bits.bytes.size ∧
    8 * c'.bits.index + 8 - c'.bits.nBits = 8 * c.bits.index + 8 - c.bits.nBits + c.endCodeNBits ∧
    1 ≤ c'.bits.index ∧ c'.bits.nBits ≤ 7 := by
  simp only [Cutter.writeEndCode] at h
  split at h
  · simp at h
  · rename_i b hb
    simp at h; subst h
    have h1 := writeEndCodeLoop_spec _ _ _ _ hb hn
    have h2 := writeEndCodeLoop_pos _ _ _ _ hb hj hn
    exact ⟨rfl, h1.1, h1.2.2, h2⟩

/-- The part of `doHuffman` after the two `construct` calls and the un-read. -/
def Cutter.huffTail (c : Cutter) (isFirstBlock : Bool) : Cutter × Option Err :=
  match Cutter.huffLoop (8 * c.bits.bytes.size + 2) c none c.decodedLen with
  | (c, _, some r) => (c, r)
  | (c, none, none) => (c, some .noProgress)
  | (c, some (cpIndex, cpNBits), none) =>
    let n := if c.maxEncodedLen - 5 > 0xFFFF then 0xFFFF else c.maxEncodedLen - 5
    if isFirstBlock ∧ c.maxEncodedLen > 5 ∧ c.decodedLen < Int.ofNat n then
      (c, some .replaceWithSingleBlock)
    else
      let c := { c with bits := ({ c.bits with index := cpIndex, nBits := cpNBits } : Bitstream).unread }
      match c.writeEndCode with
      | .error e => (c, some e)
      | .ok c => (c, some .someProgress)

theorem writeEndCodeLoop_err (ecb j : Nat) (b : Bitstream) (e : Err)
    (he : Cutter.writeEndCodeLoop ecb j b = .error e) : e = .panic := by
  induction j generalizing b with
  | zero => simp [Cutter.writeEndCodeLoop] at he
  | succ j ih =>
    simp only [Cutter.writeEndCodeLoop] at he
    repeat' split at he
    all_goals first
      | (simp at he; exact he.symm)
      | exact ih _ he

theorem writeEndCode_err (c : Cutter) (e : Err) (h : c.writeEndCode = .error e) : e = .panic := by
  simp only [Cutter.writeEndCode] at h
  split at h
  all_goals first
    | (simp at h; done)
    | (simp at h; subst h; exact writeEndCodeLoop_err _ _ _ _ (by assumption))

theorem huffTail_ok (c : Cutter) (isFirst : Bool) (hecn : c.endCodeNBits ≠ 0) :
    BlockOK c (c.huffTail isFirst) := by
  have hL := huffLoop_spec (8 * c.bits.bytes.size + 2) c none c.decodedLen (by intro i n h; simp at h)
  have hE := huffLoop_err (8 * c.bits.bytes.size + 2) c none c.decodedLen
  simp only [Cutter.huffTail, BlockOK]
  generalize Cutter.huffLoop (8 * c.bits.bytes.size + 2) c none c.decodedLen = res at hL hE
  obtain ⟨c1, cp, r⟩ := res
  simp only [] at hL hE
  obtain ⟨h1, h2, h3, h4, h5, h6⟩ := hL
  split
  · rename_i c2 x r2 heq
    simp at heq
    obtain ⟨rfl, rfl, rfl⟩ := heq
    refine ⟨h1, by rw [h4], ?_⟩
    intro hr
    rcases hr with hr | hr
    · have hr' : r2 = none := hr
      have := h6 (by simp [hr'])
      simp only [Bitstream.endIdx]
      omega
    · have hr' : r2 = some .someProgress := hr
      exact absurd rfl (hE .someProgress (by simp [hr']))
  · rename_i c2 heq
    simp at heq
    obtain ⟨rfl, rfl, rfl⟩ := heq
    simp [h1, h4]
  · rename_i c2 cpIndex cpNBits heq
    simp at heq
    obtain ⟨rfl, rfl, rfl⟩ := heq
    generalize (if c1.maxEncodedLen - 5 > 0xFFFF then 0xFFFF else c1.maxEncodedLen - 5) = n
    split
    · simp [h1, h4]
    · split
      · rename_i e he
        have := writeEndCode_err _ _ he
        subst this
        simp [h1, h4, unread_bytes]
      · rename_i c3 hw
        have hw' := writeEndCode_spec _ _ hw
          (Nat.le_of_lt (unread_nBits_lt _)) (by simp only []; omega)
        obtain ⟨w1, w2, w3, w4, w5⟩ := hw'
        have hcp := h5 cpIndex cpNBits rfl
        refine ⟨by rw [w1]; exact h1, by rw [w2]; simp [unread_bytes, h4], ?_⟩
        intro _
        simp only [Bitstream.endIdx]
        simp only [Bitstream.unread] at w3
        simp only [h2] at w3
        omega

theorem doHuffman_eq (c : Cutter) (isFirst : Bool) (ll dl : Array Nat) :
    c.doHuffman isFirst ll dl =
      match c.lHuff.construct ll with
      | .error e => (c, some e)
      | .ok (lHuff, ecb, ecn) =>
        let c := { c with lHuff := lHuff, endCodeBits := ecb, endCodeNBits := ecn }
        if c.endCodeNBits = 0 then (c, some .noEndOfBlock)
        else
          match c.dHuff.construct dl with
          | .error e => (c, some e)
          | .ok (dHuff, _, _) =>
            let c := { c with dHuff := dHuff, bits := c.bits.unread }
            if c.bits.index > c.maxEncodedLen then (c, some .noProgress)
            else c.huffTail isFirst := by
  simp only [Cutter.doHuffman, Cutter.huffTail]
  rfl

theorem doHuffman_ok (c : Cutter) (isFirst : Bool) (ll dl : Array Nat) :
    BlockOK c (c.doHuffman isFirst ll dl) := by
  rw [doHuffman_eq]
  simp only [BlockOK]
  split
  · rename_i e he
    have := construct_err _ _ _ he
    rcases this with rfl | rfl <;> simp
  · split
    · simp
    · split
      · rename_i e he
        have := construct_err _ _ _ he
        rcases this with rfl | rfl <;> simp
      · split
        · simp [unread_bytes]
        · rename_i lHuff ecb ecn _ hecn _ dHuff _ _ _ hidx
          have := huffTail_ok ({ bits := c.bits.unread, maxEncodedLen := c.maxEncodedLen, decodedLen := c.decodedLen, endCodeBits := ecb, endCodeNBits := ecn, lHuff := lHuff, dHuff := dHuff } : Cutter) isFirst hecn
          simpa [BlockOK, unread_bytes] using this

theorem doStaticHuffman_ok (c : Cutter) (isFirst : Bool) : BlockOK c (c.doStaticHuffman isFirst) :=
  doHuffman_ok c isFirst _ _

theorem readCodeLengthLengths_bytes (rem i : Nat) (b : Bitstream) (ls : Array Nat) (b' : Bitstream) (ls' : Array Nat)
    (h : Cutter.readCodeLengthLengths rem i b ls = .ok (b', ls')) : b'.bytes = b.bytes := by
  induction rem generalizing i b ls with
  | zero => simp [Cutter.readCodeLengthLengths] at h; rw [h.1]
  | succ r ih =>
    simp only [Cutter.readCodeLengthLengths] at h
    repeat' split at h
    all_goals first
      | (simp at h; done)
      | (have := ih _ _ _ h; rw [this, take_bytes])

theorem readCodeLengthLengths_err (rem i : Nat) (b : Bitstream) (ls : Array Nat) (e : Err)
    (h : Cutter.readCodeLengthLengths rem i b ls = .error e) : e ≠ .someProgress := by
  induction rem generalizing i b ls with
  | zero => simp [Cutter.readCodeLengthLengths] at h
  | succ r ih =>
    simp only [Cutter.readCodeLengthLengths] at h
    repeat' split at h
    all_goals first
      | (simp at h; subst h; simp; done)
      | exact ih _ _ _ h

theorem readLengths_bytes (hf : Huffman) (n fuel i : Nat) (b : Bitstream) (ls : Array Nat) (b' : Bitstream) (ls' : Array Nat)
    (h : Cutter.readLengths hf n fuel i b ls = .ok (b', ls')) : b'.bytes = b.bytes := by
  induction fuel generalizing i b ls with
  | zero => simp [Cutter.readLengths] at h
  | succ f ih =>
    simp only [Cutter.readLengths] at h
    repeat' split at h
    all_goals first
      | (simp at h; done)
      | (simp at h; rw [h.1]; done)
      | (have := ih _ _ _ h; rw [this]; exact decode_bytes _ _ _ _ (by assumption))
      | (have := ih _ _ _ h; rw [this, take_bytes]; exact decode_bytes _ _ _ _ (by assumption))

theorem readLengths_err (hf : Huffman) (n fuel i : Nat) (b : Bitstream) (ls : Array Nat) (e : Err)
    (h : Cutter.readLengths hf n fuel i b ls = .error e) : e ≠ .someProgress := by
  induction fuel generalizing i b ls with
  | zero => simp [Cutter.readLengths] at h; subst h; simp
  | succ f ih =>
    simp only [Cutter.readLengths] at h
    repeat' split at h
    all_goals first
      | (simp at h; done)
      | (simp at h; subst h; simp; done)
      | (simp at h; subst h; have := decode_err _ _ _ (by assumption); simp [this]; done)
      | exact ih _ _ _ h

theorem BlockOK.transport {c c' : Cutter} {r : Cutter × Option Err} (h : BlockOK c' r)
    (hm : c'.maxEncodedLen = c.maxEncodedLen) (hb : c'.bits.bytes.size = c.bits.bytes.size) : BlockOK c r :=
  ⟨h.1.trans hm, h.2.1.trans hb, fun hr => hm ▸ h.2.2 hr⟩

theorem BlockOK.err {c c' : Cutter} {e : Err} (hm : c'.maxEncodedLen = c.maxEncodedLen)
    (hb : c'.bits.bytes.size = c.bits.bytes.size) (he : e ≠ .someProgress) : BlockOK c (c', some e) :=
  ⟨hm, hb, fun hr => by rcases hr with hr | hr <;> simp_all⟩

theorem doDynamicHuffman_ok (c : Cutter) (isFirst : Bool) : BlockOK c (c.doDynamicHuffman isFirst) := by
  simp only [Cutter.doDynamicHuffman]
  repeat' split
  all_goals first
    | (apply BlockOK.err <;> simp [take_bytes]; done)
    | skip
  · -- readCodeLengthLengths failed
    apply BlockOK.err
    · simp
    · simp [take_bytes]
    · exact readCodeLengthLengths_err _ _ _ _ _ (by assumption)
  · -- construct failed
    rename_i hrc _ e he
    apply BlockOK.err
    · simp
    · simp; rw [readCodeLengthLengths_bytes _ _ _ _ _ _ hrc]; simp [take_bytes]
    · have := construct_err _ _ _ he
      rcases this with rfl | rfl <;> simp
  · -- readLengths failed
    rename_i hrc _ _ _ _ _ _ e he
    apply BlockOK.err
    · simp
    · simp; rw [readCodeLengthLengths_bytes _ _ _ _ _ _ hrc]; simp [take_bytes]
    · exact readLengths_err _ _ _ _ _ _ _ he
  · rename_i hrc _ _ _ _ _ _ _ _ hrl
    apply BlockOK.transport (doHuffman_ok _ _ _ _)
    · simp
    · simp
      rw [readLengths_bytes _ _ _ _ _ _ _ _ hrl]
      rw [readCodeLengthLengths_bytes _ _ _ _ _ _ hrc]; simp [take_bytes]

end WuffsVerif.Flate.Cut
