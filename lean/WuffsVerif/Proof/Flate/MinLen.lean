/-
C16: a complete DEFLATE stream has at least 2 bytes, a complete zlib stream at least 8 — so what a
successful `Cut` of a valid stream returns is never shorter than the documented minimum
(`SmallestValidMaxEncodedLen`).
-/
import WuffsVerif.Proof.Flate.Whole2

namespace WuffsVerif.Flate.Cut
open WuffsVerif.Gen.C16 WuffsVerif.Flate.Spec

attribute [local irreducible] Spec.fixedLitLens Spec.fixedDistLens Spec.fixedLit Spec.fixedDist

/-- Every block the spec decoder completes is at least 10 bits long (3 header bits and an end-of-block
code of at least 7 bits, or a stored header). -/
theorem body_end_ge (s : Bytes) (p : Nat) (out : Bytes) (p1 : Nat) (out1 : Bytes)
    (h : blockBody s none 0 p out = .next p1 out1) : p + 10 ≤ p1 := by
  have htlt := bitsLE_lt s (p + 1) 2
  have : (2 : Nat) ^ 2 = 4 := by decide
  have hty3 : bitsLE s (p + 1) 2 ≠ 3 := by
    intro h3
    simp [blockBody, h3] at h
  have : bitsLE s (p + 1) 2 = 0 ∨ bitsLE s (p + 1) 2 = 1 ∨ bitsLE s (p + 1) 2 = 2 := by omega
  rcases this with hty | hty | hty
  · obtain ⟨_, _, g3, g4, _⟩ := stored_body s p out p1 out1 hty h
    omega
  · have e1 : ¬ ((1 : Nat) = 0) := by omega
    simp only [blockBody, hty, e1, if_false, if_true] at h
    have := block_end_ge fixedLit fixedDist 7 5 fixedLitLens fixedLit_some fixedLit_nz s _ (p + 3) out p1 out1 h
    rw [fixedLit_256.2] at this
    omega
  · have e0 : ¬ ((2 : Nat) = 0) := by omega
    have e1 : ¬ ((2 : Nat) = 1) := by omega
    simp only [blockBody, hty, e0, e1, if_false, if_true] at h
    cases hdh : dynamicHeader s (p + 3) with
    | truncated => rw [hdh] at h; simp at h
    | corrupt => rw [hdh] at h; simp at h
    | ok hl hd minL ph =>
      rw [hdh] at h
      simp only [] at h
      obtain ⟨qE, hrE, heob⟩ := spec_reach hl hd minL hd.minLen 0 s _ _ _ _ _ h
      have hb := decodeSym_bounds hl s qE minL 256 p1 (huffTok_eob _ _ _ _ _ _ _ _ heob)
      have hle := hrE.le
      have := (dynamicHeader_local s s (p + 3) hl hd minL ph hdh (fun _ _ _ => rfl) (by omega)).2
      omega

/-- A complete run of the block loop ends at least 10 bits behind its start. -/
theorem blocks_end_ge (s : Bytes) : ∀ (fuel p : Nat) (out : Bytes) (pE : Nat) (T : Bytes),
    blocks s none 0 fuel p out = ⟨.done, pE, T⟩ → p + 10 ≤ pE := by
  intro fuel
  induction fuel with
  | zero => intro p out pE T h; simp [blocks] at h
  | succ fuel ih =>
    intro p out pE T h
    obtain ⟨fS, p1, out1, hf, _, hbody, hfin⟩ := blocks_step s _ p out pE T h
    have hge := body_end_ge s p out p1 out1 hbody
    have hfS : fS = fuel := by omega
    subst hfS
    rcases hfin with ⟨_, h2, _⟩ | ⟨_, hcont⟩
    · omega
    · have := ih p1 out1 pE T hcont
      omega

/-- **A complete DEFLATE stream occupies at least 2 bytes** (with or without a preset dictionary). -/
theorem inflateDict_min (dict s T : Bytes) (n : Nat) (h : Spec.inflateDict dict s = some (T, n)) : 2 ≤ n := by
  obtain ⟨pE, hb, hn⟩ := (inflateDict_blocks dict s T n).mp h
  have := blocks_end_ge s _ _ _ _ _ hb
  omega

/-- **A complete zlib stream occupies at least 8 bytes.** -/
theorem zlibDecode_min (dict s T : Bytes) (n : Nat) (h : Spec.zlibDecode dict s = some (T, n)) : 8 ≤ n := by
  simp only [Spec.zlibDecode] at h
  repeat' split at h
  all_goals first
    | (simp at h; done)
    | skip
  all_goals
    rename_i out n1 hinf _ _
    simp only [Option.some.injEq, Prod.mk.injEq] at h
    have := inflateDict_min _ _ _ _ hinf
    omega

end WuffsVerif.Flate.Cut
