/-
C16: cut_prefix for streams of stored blocks, part 2 — the shortened block, the single-block
fallback, and the walk.
-/
import WuffsVerif.Proof.Flate.StoredCut
import WuffsVerif.Proof.Flate.SpecEmptyFixed

namespace WuffsVerif.Flate.Cut
open WuffsVerif.Gen.C16 WuffsVerif.Flate.Spec

theorem rewriteHdr_size (s : Bytes) (q r : Nat) : (rewriteHdr s q r).size = s.size := by
  simp [rewriteHdr]

theorem rewriteHdr_getD (s : Bytes) (q r j : Nat) (hq : q + 4 < s.size) :
    (rewriteHdr s q r).getD j 0 =
      if j = q + 1 then UInt8.ofNat (r % 256)
      else if j = q + 2 then UInt8.ofNat (r / 256 % 256)
      else if j = q + 3 then UInt8.ofNat ((65535 - r) % 256)
      else if j = q + 4 then UInt8.ofNat ((65535 - r) / 256 % 256)
      else s.getD j 0 := by
  simp only [rewriteHdr, getD_setIfInBounds, Array.size_setIfInBounds]
  repeat' split
  all_goals first
    | rfl
    | omega

theorem extract_mid (a d t : Bytes) (r : Nat) (h : r ≤ d.size) :
    (a ++ d ++ t).extract 0 (a.size + r) = a ++ d.extract 0 r := by
  apply Array.ext
  · simp [Array.size_extract]; omega
  · intro i h1 h2
    simp only [Array.size_extract, Array.size_append] at h1 h2
    simp only [Array.getElem_extract, Array.getElem_append, Nat.zero_add]
    by_cases hi : i < a.size
    · have : i < a.size + d.size := by omega
      simp [hi, this]
    · have h3 : i < a.size + d.size := by omega
      simp [hi, h3]

set_option maxHeartbeats 1000000 in
/-- `errInternalSomeProgress` from `doStored`: the block is shortened to `r` bytes and marked final. -/
theorem good_shorten (s : Bytes) (pre : List Bytes) (d tail b : Bytes) (fin : Bool) (r : Nat)
    (hr : Run s 0 pre) (hb : BlkAt s (endOf 0 pre) d fin) (hr0 : 0 < r) (hrd : r < d.size)
    (hp : patchFinalBit (rewriteHdr s (endOf 0 pre) r) (endOf 0 pre + 1) 7 = .ok b) :
    Good (flat pre ++ d ++ tail) b (endOf 0 pre + 5 + r) ((flat pre).size + r) := by
  have hf := hb.fits
  have hle := hb.le
  generalize hq0 : endOf 0 pre = q at *
  have hs1 := rewriteHdr_size s q r
  rw [patchFinalBit_bit0 _ q (by omega)] at hp
  have hp' := Except.ok.inj hp
  subst hp'
  have hx0 : (rewriteHdr s q r).getD q 0 = s.getD q 0 := by
    rw [rewriteHdr_getD s q r q (by omega)]
    have : ¬ q = q + 1 ∧ ¬ q = q + 2 ∧ ¬ q = q + 3 ∧ ¬ q = q + 4 := by omega
    simp [this]
  rw [hx0]
  generalize hx : UInt8.ofNat ((s.getD q 0).toNat ||| 1) = x
  generalize he : q + 5 + r = e
  generalize hs2 : (rewriteHdr s q r).setIfInBounds q x = s2
  have hsz2 : s2.size = s.size := by rw [← hs2]; simp [hs1]
  have hsz : (s2.extract 0 e).size = e := by simp [Array.size_extract]; omega
  have hag : AgreeOn s2 (s2.extract 0 e) 0 e := agree_extract _ _ _ _ (Nat.le_refl _)
  -- bytes of s2
  have g2 : ∀ j, s2.getD j 0 = if j = q then x else (rewriteHdr s q r).getD j 0 := by
    intro j
    rw [← hs2, getD_setIfInBounds]
    by_cases hj : j = q
    · have : j = q ∧ q < (rewriteHdr s q r).size := ⟨hj, by omega⟩
      simp [hj, hs1]; omega
    · simp [hj]
  have h1 : Run (s2.extract 0 e) 0 pre := by
    apply hr.transport
    · rw [hq0]
      intro j hj1 hj2
      rw [hag j (by omega) (by omega), g2 j, rewriteHdr_getD s q r j (by omega)]
      have : ¬ j = q ∧ ¬ j = q + 1 ∧ ¬ j = q + 2 ∧ ¬ j = q + 3 ∧ ¬ j = q + 4 := by omega
      simp [this]
    · rw [hq0]; omega
  have hxb : x.toNat % 8 = 1 := by
    rw [← hx]
    apply toNat_ofNat_or1
    have := hb.hdr
    split at this <;> omega
  have hdsz : (d.extract 0 r).size = r := by simp [Array.size_extract]; omega
  have gq : ∀ k, 1 ≤ k → k ≤ 4 → (s2.extract 0 e).getD (q + k) 0 = (rewriteHdr s q r).getD (q + k) 0 := by
    intro k hk1 hk2
    rw [hag (q + k) (by omega) (by omega), g2 (q + k)]
    have : ¬ (q + k = q) := by omega
    rw [if_neg this]
  have h2 : BlkAt (s2.extract 0 e) q (d.extract 0 r) true := by
    refine ⟨?_, ?_, ?_, by rw [hdsz]; omega, by rw [hdsz, hsz]; omega, ?_⟩
    · rw [hag q (by omega) (by omega), g2 q]; simpa using hxb
    · rw [gq 1 (by omega) (by omega), gq 2 (by omega) (by omega),
        rewriteHdr_getD s q r (q + 1) (by omega), rewriteHdr_getD s q r (q + 2) (by omega), hdsz]
      have : ¬ (q + 2 = q + 1) := by omega
      simp [this]
      omega
    · rw [gq 3 (by omega) (by omega), gq 4 (by omega) (by omega),
        rewriteHdr_getD s q r (q + 3) (by omega), rewriteHdr_getD s q r (q + 4) (by omega), hdsz]
      have : ¬ (q + 3 = q + 1) ∧ ¬ (q + 3 = q + 2) ∧ ¬ (q + 4 = q + 1) ∧ ¬ (q + 4 = q + 2) ∧ ¬ (q + 4 = q + 3) := by omega
      simp [this]
      omega
    · rw [hdsz]
      have hag' : AgreeOn s (s2.extract 0 e) (q + 5) (q + 5 + r) := by
        intro j hj1 hj2
        rw [hag j (by omega) (by omega), g2 j, rewriteHdr_getD s q r j (by omega)]
        have : ¬ j = q ∧ ¬ j = q + 1 ∧ ¬ j = q + 2 ∧ ¬ j = q + 3 ∧ ¬ j = q + 4 := by omega
        simp [this]
      rw [extract_eq_of_agree s _ (q + 5) (q + 5 + r) hag' (by omega) (by omega)]
      have hdd : d.extract 0 r = (s.extract (q + 5) (q + 5 + d.size)).extract 0 r := by rw [hb.data]
      rw [hdd, Array.extract_extract, Nat.add_zero, Nat.min_eq_left (by omega)]
  refine ⟨?_, by simp [Array.size_append]; omega⟩
  have := inflate_stored _ pre (d.extract 0 r) h1 (by rw [hq0]; exact h2)
  rw [hq0, hdsz, he] at this
  rw [this, extract_mid _ _ _ _ (by omega)]

/-! ### the single-block fallback -/

theorem extract_prefix_of_append (o rest : Bytes) (n : Nat) (h : n ≤ o.size) :
    (o ++ rest).extract 0 n = o.extract 0 n := by
  rw [Array.extract_append]
  have : n - o.size = 0 := by omega
  simp [this]

/-- A final stored block written by `writeStored`, read back. -/
theorem blkAt_header (A : Bytes) (n : Nat) (hn : A.size = n) (h16 : n ≤ 65535) :
    BlkAt (storedHeader n ++ A) 0 A true := by
  have h5 : (storedHeader n).size = 5 := rfl
  have g : ∀ i, i < 5 → (storedHeader n ++ A).getD i 0 = (storedHeader n).getD i 0 := by
    intro i hi
    simp only [Array.getD_eq_getD_getElem?]
    rw [Array.getElem?_append_left (by omega)]
  refine ⟨?_, ?_, ?_, by omega, by simp [h5, hn], ?_⟩
  · rw [g 0 (by omega)]; simp [storedHeader]
  · rw [g 1 (by omega), g 2 (by omega)]; simp [storedHeader]; omega
  · rw [g 3 (by omega), g 4 (by omega)]; simp [storedHeader]; omega
  · rw [Array.extract_append]
    simp [h5]

end WuffsVerif.Flate.Cut
