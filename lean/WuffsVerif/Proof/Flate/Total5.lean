/-
C16: the cutter never panics and never runs out of fuel (part 7): `cut`, `cutSingleBlock`, `Cut`,
`zlibcut.Cut`.
-/
import WuffsVerif.Proof.Flate.Total4

namespace WuffsVerif.Flate.Cut
open WuffsVerif.Gen.C16

theorem finish_total (c : Cutter) (hwf : c.bits.WF) : ∃ r, c.finish = .ok r := by
  have h1 := hwf.nBits_le
  have h2 := hwf.index_le
  simp only [Cutter.finish]
  split
  · rename_i hn
    have hi : ¬ (c.bits.index = 0) := by omega
    simp only [hi, if_false]
    rw [getElem?_eq_getD _ _ (by omega : c.bits.index - 1 < c.bits.bytes.size)]
    exact ⟨_, rfl⟩
  · exact ⟨_, rfl⟩

theorem patchFinalBit_total (bytes : Bytes) (i n : Nat) (h1 : 1 ≤ i) (h2 : i ≤ bytes.size) :
    ∃ b', patchFinalBit bytes i n = .ok b' := by
  simp only [patchFinalBit]
  have hi : ¬ (i = 0) := by omega
  simp only [hi, if_false]
  rw [getElem?_eq_getD _ _ (by omega : i - 1 < bytes.size)]
  exact ⟨_, rfl⟩

theorem cutSingleBlock_total (enc : Bytes) (m : Nat) (h2 : 2 ≤ m) (hm : m ≤ enc.size) (e : Err)
    (h : cutSingleBlock enc m = .error e) : e = .flateCorrupt := by
  simp only [cutSingleBlock, smallestValidMaxEncodedLen] at h
  have : ¬ (m < 2) := by omega
  simp only [this, if_false] at h
  split at h
  · rename_i e' he
    simp at h; subst h
    simp only [cutSingleBlockStored] at he
    repeat' split at he
    all_goals first
      | (simp at he; done)
      | (simp at he; exact he.symm)
      | omega
  · simp at h
  · simp only [setB] at h
    have h0 : 0 < enc.size := by omega
    simp only [h0, if_true] at h
    have h1 : 1 < (enc.setIfInBounds 0 3).size := by simp; omega
    simp only [h1, if_true] at h
    simp at h

/-- "no run-time panic and no fuel exhaustion" of a result. -/
def NoPanic {α : Type} (r : Except Err α) : Prop := ∀ e, r = .error e → e ≠ .panic ∧ e ≠ .fuel

theorem NoPanic.ok {α : Type} (a : α) : NoPanic (.ok a : Except Err α) := by
  intro e h; cases h

theorem NoPanic.of_exists {α : Type} {r : Except Err α} (h : ∃ a, r = .ok a) : NoPanic r := by
  obtain ⟨a, rfl⟩ := h; exact NoPanic.ok a

/-- a previous final-block position is a byte inside the buffer -/
def PrevWF (size : Nat) (prev : Option (Nat × Nat)) : Prop :=
  ∀ i n, prev = some (i, n) → 1 ≤ i ∧ i ≤ size

end WuffsVerif.Flate.Cut
