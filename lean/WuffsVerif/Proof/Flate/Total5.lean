/-
C16: the cutter never panics and never runs out of fuel (part 7): `cut`, `cutSingleBlock`, `Cut`,
`zlibcut.Cut`.
-/
import WuffsVerif.Proof.Flate.Total4
import WuffsVerif.Proof.Flate.Bounds3

namespace WuffsVerif.Flate.Cut
open WuffsVerif.Gen.C16

theorem finish_total (c : Cutter) (hwf : c.bits.WF) : ∃ r, c.finish = .ok r := by
  have h1 := hwf.nBits_le
  have h2 := hwf.index_le
  simp only [Cutter.finish]
  split
  · rename_i hn
    have hi : ¬ (c.bits.index = 0) := by omega
    simp only [hi, if_false]
    rw [getElem?_eq_getD _ _ (by omega : c.bits.index - 1 < c.bits.bytes.size)]
    exact ⟨_, rfl⟩
  · exact ⟨_, rfl⟩

theorem patchFinalBit_total (bytes : Bytes) (i n : Nat) (h1 : 1 ≤ i) (h2 : i ≤ bytes.size) :
    ∃ b', patchFinalBit bytes i n = .ok b' := by
  simp only [patchFinalBit]
  have hi : ¬ (i = 0) := by omega
  simp only [hi, if_false]
  rw [getElem?_eq_getD _ _ (by omega : i - 1 < bytes.size)]
  exact ⟨_, rfl⟩

theorem cutSingleBlock_total (enc : Bytes) (m : Nat) (h2 : 2 ≤ m) (hm : m ≤ enc.size) (e : Err)
    (h : cutSingleBlock enc m = .error e) : e = .flateCorrupt := by
  simp only [cutSingleBlock, smallestValidMaxEncodedLen] at h
  have : ¬ (m < 2) := by omega
  simp only [this, if_false] at h
  split at h
  · rename_i e' he
    simp at h; subst h
    simp only [cutSingleBlockStored] at he
    repeat' split at he
    all_goals first
      | (simp at he; done)
      | (simp at he; exact he.symm)
      | omega
  · simp at h
  · simp only [setB] at h
    have h0 : 0 < enc.size := by omega
    simp only [h0, if_true] at h
    have h1 : 1 < (enc.setIfInBounds 0 3).size := by simp; omega
    simp only [h1, if_true] at h
    simp at h

/-- "no run-time panic and no fuel exhaustion" of a result. -/
def NoPanic {α : Type} (r : Except Err α) : Prop := ∀ e, r = .error e → e ≠ .panic ∧ e ≠ .fuel

theorem NoPanic.ok {α : Type} (a : α) : NoPanic (.ok a : Except Err α) := by
  intro e h; cases h

theorem NoPanic.of_exists {α : Type} {r : Except Err α} (h : ∃ a, r = .ok a) : NoPanic r := by
  obtain ⟨a, rfl⟩ := h; exact NoPanic.ok a

/-- a previous final-block position is a byte inside the buffer -/
def PrevWF (size : Nat) (prev : Option (Nat × Nat)) : Prop :=
  ∀ i n, prev = some (i, n) → 1 ≤ i ∧ i ≤ size

theorem unread_wf {b : Bitstream} (h : b.WF) : b.unread.WF := by
  have h1 := h.nBits_le; have h2 := h.index_le
  exact ⟨by simp only [Bitstream.unread]; omega, by simp only [Bitstream.unread]; omega⟩

theorem unread_patch_wf (bytes b' : Bytes) (bits : UInt64) (i n : Nat) (hn : n < 8) (h1 : 1 ≤ i)
    (h2 : i ≤ b'.size) :
    ({ (({ bytes := bytes, index := i, bits := bits, nBits := n + 1 } : Bitstream).unread) with bytes := b' } : Bitstream).WF := by
  constructor
  · simp only [Bitstream.unread]; omega
  · simp only [Bitstream.unread]; omega

/-- **The block loop of `cut` never panics and never runs out of fuel.** -/
theorem cutLoop_total : ∀ (fuel : Nat) (c : Cutter) (prev : Option (Nat × Nat)),
    c.OK → 2 ≤ c.maxEncodedLen → 8 * c.bits.bytes.size + 2 ≤ fuel + c.bits.pos →
    PrevWF c.bits.bytes.size prev → NoPanic (Cutter.cutLoop fuel c prev) := by
  intro fuel
  induction fuel with
  | zero =>
    intro c prev hc _ hf _
    have := Inv.pos_le hc.inv
    omega
  | succ fuel ih =>
    intro c prev hc h2m hf hprev e h
    simp only [Cutter.cutLoop] at h
    -- the final-block bit
    obtain ⟨y1, t1⟩ := take_ok' c.bits hc.inv 1 (by omega)
    generalize c.bits.take 1 = r1 at h y1 t1
    obtain ⟨fb, bits1⟩ := r1
    simp only [] at h y1 t1
    split at h
    · simp at h; subst h; simp
    rename_i hfb
    rcases t1 with ⟨t1a, _⟩ | ⟨_, i1, p1⟩
    · exfalso; rw [t1a] at hfb; exact hfb (by decide)
    obtain ⟨iu, pu⟩ := Inv.unread i1
    have hfbi1 : 1 ≤ bits1.unread.index := by
      have := iu.nBits_le
      simp only [Bitstream.pos] at pu p1
      omega
    have hfbi2 : bits1.unread.index ≤ c.bits.bytes.size := by rw [← y1]; exact iu.index_le
    have hfbn := unread_nBits_lt bits1
    -- the block type
    obtain ⟨y2, t2⟩ := take_ok' bits1 i1 2 (by omega)
    generalize bits1.take 2 = r2 at h y2 t2
    obtain ⟨bt, bits2⟩ := r2
    simp only [] at h y2 t2
    split at h
    · simp at h; subst h; simp
    rename_i hbt
    rcases t2 with ⟨t2a, _⟩ | ⟨_, i2, p2⟩
    · exfalso; rw [t2a] at hbt; exact hbt (by decide)
    split at h
    · simp at h; subst h; simp
    have hc2 : ({ c with bits := bits2 } : Cutter).OK :=
      ⟨i2, by show c.maxEncodedLen ≤ bits2.bytes.size; rw [y2, y1]; exact hc.max, hc.l, hc.d⟩
    generalize hblk : (if bt = 0 then Cutter.doStored { c with bits := bits2 }
        else if bt = 1 then Cutter.doStaticHuffman { c with bits := bits2 } prev.isNone
        else Cutter.doDynamicHuffman { c with bits := bits2 } prev.isNone) = blk at h
    have hbtot : BlockTotal { c with bits := bits2 } blk := by
      rw [← hblk]
      split
      · exact doStored_total _ hc2
      · split
        · exact doStaticHuffman_total _ hc2 _
        · exact doDynamicHuffman_total _ hc2 _
    obtain ⟨c3, err⟩ := blk
    obtain ⟨k1, k2, k3, k4, k5, k6⟩ := hbtot
    have k1 : c3.maxEncodedLen = c.maxEncodedLen := k1
    have k2 : c3.bits.bytes.size = c.bits.bytes.size := by
      have : c3.bits.bytes.size = bits2.bytes.size := k2
      rw [this, y2, y1]
    have k3 : err ≠ some .panic := k3
    have k4 : err ≠ some .fuel := k4
    simp only [] at h
    have hm3 : c3.maxEncodedLen ≤ c3.bits.bytes.size := by have := hc.max; omega
    have h2m3 : 2 ≤ c3.maxEncodedLen := by omega
    split at h
    · -- nil
      obtain ⟨hc3, hp3⟩ := k5 rfl
      have hp3 : bits2.pos ≤ c3.bits.pos := hp3
      have hc3 : c3.OK := hc3
      obtain ⟨iu3, pu3⟩ := Inv.unread hc3.inv
      split at h
      · have hc3' : ({ c3 with bits := c3.bits.unread } : Cutter).OK := ⟨iu3, hc3.max, hc3.l, hc3.d⟩
        have hfuel : 8 * ({ c3 with bits := c3.bits.unread } : Cutter).bits.bytes.size + 2 ≤
            fuel + ({ c3 with bits := c3.bits.unread } : Cutter).bits.pos := by
          show 8 * c3.bits.bytes.size + 2 ≤ fuel + c3.bits.unread.pos
          omega
        have hprev' : PrevWF ({ c3 with bits := c3.bits.unread } : Cutter).bits.bytes.size
            (some (bits1.unread.index, bits1.unread.nBits)) := by
          intro i n hin
          simp only [Option.some.injEq, Prod.mk.injEq] at hin
          obtain ⟨rfl, rfl⟩ := hin
          show 1 ≤ bits1.unread.index ∧ bits1.unread.index ≤ c3.bits.bytes.size
          exact ⟨hfbi1, by omega⟩
        exact ih _ _ hc3' h2m3 hfuel hprev' e h
      · exact NoPanic.of_exists (finish_total _ ⟨iu3.nBits_le, iu3.index_le⟩) e h
    · -- errInternalNoProgress
      split at h
      · have := cutSingleBlock_total _ _ h2m3 hm3 e h
        subst this; simp
      · rename_i pi pn
        obtain ⟨q1, q2⟩ := hprev pi pn rfl
        obtain ⟨b', eb⟩ := patchFinalBit_total c3.bits.bytes pi pn q1 (by omega)
        have hps := patchFinalBit_size _ _ _ _ eb
        simp only [unread_bytes] at h
        rw [eb] at h
        simp only [] at h
        exact NoPanic.of_exists (finish_total _
          (unread_patch_wf _ b' _ bits1.unread.index bits1.unread.nBits hfbn hfbi1 (by omega))) e h
    · -- errInternalSomeProgress
      have hwf := unread_wf (k6 rfl).1
      obtain ⟨b', eb⟩ := patchFinalBit_total c3.bits.bytes bits1.unread.index bits1.unread.nBits hfbi1
        (by omega)
      have hps := patchFinalBit_size _ _ _ _ eb
      simp only [unread_bytes] at h
      rw [eb] at h
      simp only [] at h
      refine NoPanic.of_exists (finish_total _ ⟨hwf.nBits_le, ?_⟩) e h
      show c3.bits.unread.index ≤ b'.size
      rw [hps]; exact hwf.index_le
    · -- errInternalReplaceWithSingleBlock
      have := cutSingleBlock_total _ _ h2m3 hm3 e h
      subst this; simp
    · -- any other error of the block
      rename_i e' _ _ _
      simp at h
      subst h
      exact ⟨fun h => k3 (by rw [h]), fun h => k4 (by rw [h])⟩

/-- **`flatecut.Cut` never panics (no out-of-range index anywhere in the model) and the model's loops
never run out of fuel, for ARBITRARY bytes and any limit.** -/
theorem Cut_total (w : Bool) (encoded : Bytes) (limit : Int) : NoPanic (Cut w encoded limit) := by
  intro e h
  rw [Cut_eq] at h
  split at h
  · simp at h; subst h; simp
  · rename_i hlim
    simp only [smallestValidMaxEncodedLen] at hlim
    have hcl := clampLimit_le limit encoded.size (by omega)
    generalize clampLimit limit encoded.size = m at h hcl
    split at h
    · simp at h; subst h; simp
    · rename_i hm2
      simp only [smallestValidMaxEncodedLen] at hm2
      split at h
      · rename_i e' hc
        simp at h; subst h
        exact cutLoop_total _ _ none
          ⟨inv_fresh encoded 0 (Nat.zero_le _), hcl.1, Huffman.zero_shape, Huffman.zero_shape⟩
          (by show 2 ≤ m; omega) (by simp only [Bitstream.pos]; omega) (by intro i n hin; simp at hin) _ hc
      · rename_i enc eLen dLen hc
        split at h
        · cases hst : (Spec.inflateRaw #[] (enc.extract 0 eLen) none).status <;> simp [hst] at h
          all_goals first
            | (subst h; simp; done)
            | (split at h <;> simp at h; subst h; simp)
        · simp at h

end WuffsVerif.Flate.Cut

namespace WuffsVerif.Flate.ZlibCut
open WuffsVerif.Flate.Cut

/-- **`zlibcut.Cut` never panics either.** -/
theorem Cut_total (encoded : Bytes) (limit : Int) : NoPanic (ZlibCut.Cut encoded limit) := by
  intro e h
  simp only [ZlibCut.Cut] at h
  repeat' split at h
  all_goals first
    | (simp at h; subst h; simp; done)
    | (simp at h; done)
    | (rename_i e' hc; simp at h; subst h; exact Cut.Cut_total _ _ _ _ hc)
    | (rename_i r hc hov
       have hb := Cut.Cut_lengths_in_bounds _ _ _ _ hc
       simp [Array.size_extract] at hb hov
       omega)

end WuffsVerif.Flate.ZlibCut
