/-
C16: `doDynamicHuffman`'s header parser against `Spec.dynamicHeader` (part 1: the code-length code).
-/
import WuffsVerif.Proof.Flate.DynPad

namespace WuffsVerif.Flate.Cut
open WuffsVerif.Gen.C16 WuffsVerif.Flate.Spec

theorem order_agree : ∀ i, i < 19 → codeOrder.getD i 0 = clOrder.getD i 0 := by decide

theorem clOf_succ (s : Bytes) (p n : Nat) :
    clOf s p (n + 1) = (clOf s p n).setIfInBounds (clOrder.getD n 0) (bitsLE s (p + 14 + 3 * n) 3) := by
  simp [clOf, List.range_succ, List.foldl_append]

theorem clOf_size (s : Bytes) (p n : Nat) : (clOf s p n).size = 19 := by
  induction n with
  | zero => simp [clOf]
  | succ n ih => rw [clOf_succ]; simpa using ih

/-- The loop that reads the code-length code lengths computes `clOf` (padded). -/
theorem readCLL_sim (s : Bytes) (p0 : Nat) :
    ∀ (rem i : Nat) (b : Bitstream) (L : Array Nat), b.Inv → b.bytes = s → b.pos = p0 + 14 + 3 * i →
      i + rem ≤ 19 → 19 ≤ L.size → p0 + 14 + 3 * (i + rem) ≤ 8 * s.size →
      (∀ k, L.getD k 0 = (clOf s p0 i).getD k 0) →
      ∃ b' L', Cutter.readCodeLengthLengths rem i b L = .ok (b', L') ∧ b'.Inv ∧ b'.bytes = s ∧
        b'.pos = p0 + 14 + 3 * (i + rem) ∧ L'.size = L.size ∧ ∀ k, L'.getD k 0 = (clOf s p0 (i + rem)).getD k 0 := by
  intro rem
  induction rem with
  | zero =>
    intro i b L hb hy hp _ _ _ hL
    exact ⟨b, L, rfl, hb, hy, by simpa using hp, rfl, by simpa using hL⟩
  | succ rem ih =>
    intro i b L hb hy hp hi hsz hfit hL
    rw [Cutter.readCodeLengthLengths]
    obtain ⟨t1, i1, q1, y1⟩ := take_avail b hb 3 (by omega) (by rw [hy, hp]; simp only [avail]; omega)
    generalize b.take 3 = r at t1 i1 q1 y1
    obtain ⟨x, b1⟩ := r
    simp only [] at t1 i1 q1 y1 ⊢
    rw [hy, hp] at t1
    have hx0 : ¬ (x < 0) := by rw [t1]; omega
    simp only [hx0, if_false]
    have hco := codeOrder_facts
    rw [getElem?_getD_nat codeOrder i (by omega)]
    simp only []
    have hk := hco.2 i (by omega)
    have hklt : codeOrder.getD i 0 < L.size := by omega
    simp only [hklt, if_true]
    have hxn : x.toNat = bitsLE s (p0 + 14 + 3 * i) 3 := by rw [t1]; simp
    obtain ⟨b', L', e, a1, a2, a3, a4, a5⟩ := ih (i + 1) b1 (L.setIfInBounds (codeOrder.getD i 0) x.toNat) i1
      (by rw [y1, hy]) (by rw [q1, hp]; omega) (by omega) (by simpa using hsz) (by
        have : i + 1 + rem = i + (rem + 1) := by omega
        rw [this]; exact hfit)
      (by
        intro k
        rw [clOf_succ, getD_setIfInBounds_nat, getD_setIfInBounds_nat, hL k, order_agree i (by omega), hxn, clOf_size]
        have : clOrder.getD i 0 < 19 := by rw [← order_agree i (by omega)]; exact hk
        by_cases hkk : k = clOrder.getD i 0
        · have c1 : k = clOrder.getD i 0 ∧ clOrder.getD i 0 < L.size := ⟨hkk, by omega⟩
          have c2 : k = clOrder.getD i 0 ∧ clOrder.getD i 0 < 19 := ⟨hkk, this⟩
          rw [if_pos c1, if_pos c2]
        · have c1 : ¬ (k = clOrder.getD i 0 ∧ clOrder.getD i 0 < L.size) := by intro h; exact hkk h.1
          have c2 : ¬ (k = clOrder.getD i 0 ∧ clOrder.getD i 0 < 19) := by intro h; exact hkk h.1
          rw [if_neg c1, if_neg c2])
    have e2 : i + 1 + rem = i + (rem + 1) := by omega
    rw [e2] at a3 a5
    exact ⟨b', L', e, a1, a2, a3, by simpa using a4, a5⟩

/-! ### the run-length coded code lengths: array fill (cutter) against push (spec) -/

theorem extract_set_push (a : Array Nat) (i v : Nat) (hi : i < a.size) :
    (a.setIfInBounds i v).extract 0 (i + 1) = (a.extract 0 i).push v := by
  apply Array.ext
  · simp [Array.size_extract]; omega
  · intro k h1 h2
    simp only [Array.size_extract, Array.size_setIfInBounds] at h1
    simp only [Array.getElem_extract, Nat.zero_add, Array.getElem_push, Array.size_extract]
    by_cases hk : k < min i a.size - 0
    · have : k ≠ i := by omega
      simp only [hk, dite_true]
      rw [Array.getElem_setIfInBounds_ne (by omega) (by omega)]
    · have : k = i := by omega
      subst this
      simp [hk]
      intro h; omega

theorem fill_extract (a : Array Nat) (i val : Nat) : ∀ rep, i + rep ≤ a.size →
    ((List.range rep).foldl (fun l j => l.setIfInBounds (i + j) val) a).extract 0 (i + rep) =
      a.extract 0 i ++ Array.replicate rep val ∧
    ((List.range rep).foldl (fun l j => l.setIfInBounds (i + j) val) a).size = a.size := by
  intro rep
  induction rep with
  | zero => intro _; simp
  | succ rep ih =>
    intro h
    obtain ⟨e1, e2⟩ := ih (by omega)
    rw [List.range_succ, List.foldl_append]
    simp only [List.foldl_cons, List.foldl_nil]
    refine ⟨?_, by simp [e2]⟩
    have : i + (rep + 1) = (i + rep) + 1 := by omega
    rw [this, extract_set_push _ _ _ (by omega), e1]
    apply Array.ext'
    simp [List.replicate_succ']

/-- **`doDynamicHuffman`'s code-length decoder computes what `Spec.readLens` computes.** -/
theorem readLengths_sim (lh : Huffman) (cl1 : Array Nat) (hg : lh.Good cl1) (hnz : ∃ x ∈ cl1.toList, x ≠ 0)
    (hc : Huff) (hH : mkHuff cl1 = some hc) (hoff : offAt cl1 16 ≤ 288)
    (hz : ∀ k, 19 ≤ k → cl1.getD k 0 = 0) (s : Bytes) (n : Nat) :
    ∀ (fuelS fuelC i : Nat) (b : Bitstream) (lengths L : Array Nat) (ph : Nat), b.Inv → b.bytes = s →
      lengths.size = n → i ≤ n → n + 1 ≤ fuelC + i →
      readLens hc s n fuelS b.pos (lengths.extract 0 i) = .ok L ph →
      ∃ b', Cutter.readLengths lh n fuelC i b lengths = .ok (b', L) ∧ b'.Inv ∧ b'.bytes = s ∧ b'.pos = ph ∧
        L.size = n := by
  intro fuelS
  induction fuelS with
  | zero => intro fuelC i b lengths L ph _ _ _ _ _ h; simp [readLens] at h
  | succ fuelS ih =>
    intro fuelC i b lengths L ph hb hy hsz hi hf h
    obtain ⟨fC, rfl⟩ : ∃ f, fuelC = f + 1 := ⟨fuelC - 1, by omega⟩
    have hesz : (lengths.extract 0 i).size = i := by simp [Array.size_extract]; omega
    rw [readLens] at h
    rw [Cutter.readLengths]
    rw [hesz] at h
    by_cases hin : i ≥ n
    · rw [if_pos hin] at h
      rw [if_pos hin]
      simp only [LensResult.ok.injEq] at h
      have hin' : i = n := by omega
      have : lengths.extract 0 i = lengths := by
        rw [hin', ← hsz]; exact Array.extract_eq_self_of_le (Nat.le_refl _)
      rw [this] at h
      exact ⟨b, by rw [h.1], hb, hy, h.2, by rw [← h.1]; exact hsz⟩
    · rw [if_neg hin] at h
      rw [if_neg hin]
      cases h1 : decodeSym hc s b.pos hc.minLen with
      | truncated => rw [h1] at h; simp at h
      | corrupt => rw [h1] at h; simp at h
      | sym v p1 =>
        rw [h1] at h
        simp only [] at h
        obtain ⟨b1, e1, i1, q1, y1, lt1, v1, vlen⟩ :=
          decodeSym_cut lh cl1 hg hnz hc hH hoff b hb hc.minLen v p1 (by rw [hy]; exact h1)
        have hv19 : v < 19 := by
          rcases Nat.lt_or_ge v 19 with hlt | hge
          · exact hlt
          · have := hz v hge; omega
        simp only [e1]
        have hvcast : Int.ofNat v = (v : Int) := rfl
        have n0 : ¬ (Int.ofNat v < 0) := by rw [hvcast]; omega
        simp only [n0, if_false]
        by_cases hv : v < 16
        · simp only [hv, if_true] at h
          have hlit : Int.ofNat v ≠ 16 ∧ Int.ofNat v ≠ 17 ∧ Int.ofNat v ≠ 18 := by
            rw [hvcast]; omega
          rw [if_pos hlit]
          have hilt : i < lengths.size := by omega
          rw [if_pos hilt]
          have hvt : (Int.ofNat v).toNat = v := by simp
          rw [hvt]
          rw [← extract_set_push lengths i v hilt] at h
          exact ih fC (i + 1) b1 (lengths.setIfInBounds i v) L ph i1 (by rw [y1, hy]) (by simpa using hsz)
            (by omega) (by omega) (by rw [q1]; exact h)
        · simp only [hv, if_false] at h
          have hlit : ¬ (Int.ofNat v ≠ 16 ∧ Int.ofNat v ≠ 17 ∧ Int.ofNat v ≠ 18) := by
            rw [hvcast]; omega
          rw [if_neg hlit]
          generalize hbn : (if v = 16 then ((3 : Nat), (2 : Nat)) else if v = 17 then (3, 3) else (11, 7)) = bn at h
          obtain ⟨base, nb⟩ := bn
          simp only [] at h
          split at h
          · simp at h
          · rename_i h16
            split at h
            · simp at h
            · rename_i hav
              split at h
              · simp at h
              · rename_i hov
                have h160 : ¬ (Int.ofNat v = 16 ∧ i = 0) := by
                  rw [hvcast]; intro hh; exact h16 ⟨by omega, hh.2⟩
                rw [if_neg h160]
                -- the repeat count
                have hnbv : nb = (if Int.ofNat v = 16 then 2 else if Int.ofNat v = 17 then 3 else 7) ∧
                    (base : Int) = (if Int.ofNat v = 18 then (11 : Int) else 3) ∧ nb ≤ 7 ∧ base ≤ 11 := by
                  have hv' : v = 16 ∨ v = 17 ∨ v = 18 := by omega
                  rcases hv' with c | c | c
                  · subst c
                    simp at hbn
                    obtain ⟨rfl, rfl⟩ := hbn
                    exact ⟨by decide, by decide, by omega, by omega⟩
                  · subst c
                    simp at hbn
                    obtain ⟨rfl, rfl⟩ := hbn
                    exact ⟨by decide, by decide, by omega, by omega⟩
                  · subst c
                    simp at hbn
                    obtain ⟨rfl, rfl⟩ := hbn
                    exact ⟨by decide, by decide, by omega, by omega⟩
                obtain ⟨enb, ebase, hnb7, hb11⟩ := hnbv
                rw [← enb, ← ebase]
                obtain ⟨t1, i2, q2, y2⟩ := take_avail b1 i1 nb (by omega) (by rw [y1, hy, q1]; exact hav)
                generalize b1.take nb = r at t1 i2 q2 y2
                obtain ⟨t, b2⟩ := r
                simp only [] at t1 i2 q2 y2 ⊢
                rw [y1, hy, q1] at t1
                have hlt := bitsLE_lt s p1 nb
                have hpow : 2 ^ nb ≤ 128 := by
                  calc 2 ^ nb ≤ 2 ^ 7 := Nat.pow_le_pow_right (by omega) hnb7
                    _ = 128 := by decide
                have hw : wrap32 ((base : Int) + t) = ((base + bitsLE s p1 nb : Nat) : Int) := by
                  rw [t1]; rw [wrap32_range] <;> omega
                rw [hw]
                have nn : ¬ (((base + bitsLE s p1 nb : Nat) : Int) < 0) := by omega
                rw [if_neg nn]
                have htn : ((base + bitsLE s p1 nb : Nat) : Int).toNat = base + bitsLE s p1 nb := Int.toNat_natCast _
                rw [htn]
                have c1 : ¬ (i + (base + bitsLE s p1 nb) > n) := by omega
                have c2 : ¬ (i + (base + bitsLE s p1 nb) > lengths.size) := by omega
                rw [if_neg c1, if_neg c2]
                -- the value that is repeated
                have hval : (if Int.ofNat v = 16 then lengths.getD (i - 1) 0 else 0) =
                    (if v = 16 then (lengths.extract 0 i).getD (i - 1) 0 else 0) := by
                  rw [hvcast]
                  by_cases c16 : v = 16
                  · have : i ≠ 0 := by intro hh; exact h16 ⟨c16, hh⟩
                    have e16 : ((v : Nat) : Int) = 16 := by omega
                    rw [if_pos e16, if_pos c16, getD_extract_nat lengths i (i - 1) (by omega)]
                  · have : ¬ ((v : Int) = 16) := by omega
                    simp [c16, this]
                rw [hval]
                obtain ⟨f1, f2⟩ := fill_extract lengths i (if v = 16 then (lengths.extract 0 i).getD (i - 1) 0 else 0)
                  (base + bitsLE s p1 nb) (by omega)
                rw [← f1] at h
                exact ih fC (i + (base + bitsLE s p1 nb)) b2 _ L ph i2 (by rw [y2, y1, hy]) (by rw [f2]; exact hsz)
                  (by omega) (by omega) (by rw [q2, q1]; exact h)

end WuffsVerif.Flate.Cut
