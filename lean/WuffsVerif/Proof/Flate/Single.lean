/-
C16: `cutSingleBlock` (the fallback re-encoding as one stored block or an empty fixed block) is
correct for EVERY valid DEFLATE stream — stored, fixed and dynamic Huffman blocks alike.
-/
import WuffsVerif.Proof.Flate.StoredCut3
import WuffsVerif.Proof.Flate.SpecTok

namespace WuffsVerif.Flate.Cut
open WuffsVerif.Gen.C16 WuffsVerif.Flate.Spec

/-- `inflate s = some (T, n)` in terms of the block loop. -/
theorem inflate_blocks (s T : Bytes) (n0 : Nat) (hs : Spec.inflate s = some (T, n0)) :
    ∃ pE, blocks s none 0 (8 * s.size + 1) 0 #[] = ⟨.done, pE, T⟩ ∧ n0 = (pE + 7) / 8 := by
  simp only [Spec.inflate, Spec.inflateDict, inflateRaw_nodict] at hs
  split at hs
  · rename_i hst
    simp only [Option.some.injEq, Prod.mk.injEq] at hs
    generalize blocks s none 0 (8 * s.size + 1) 0 #[] = R at hs hst
    obtain ⟨st, pos, out⟩ := R
    simp only [] at hs hst
    rw [Array.extract_eq_self_of_le (Nat.le_refl _)] at hs
    exact ⟨pos, by rw [hst, hs.1], hs.2.symm⟩
  · simp at hs

/-- **`cutSingleBlock` on any valid stream**: the first `encodedLen` bytes of the result are a
complete DEFLATE stream (one stored block, or the empty fixed block `03 00`) that decodes to the
first `decodedLen` bytes of the original's decompression. -/
theorem cutSingleBlock_good (s T : Bytes) (n0 : Nat) (hs : Spec.inflate s = some (T, n0))
    (m : Nat) (enc : Bytes) (e dLen : Nat) (hm : m ≤ s.size)
    (h : cutSingleBlock s m = .ok (enc, e, dLen)) : Good T enc e dLen := by
  obtain ⟨pE, hblk, _⟩ := inflate_blocks s T n0 hs
  simp only [cutSingleBlock] at h
  split at h
  · simp at h
  · rename_i hm2
    simp only [smallestValidMaxEncodedLen] at hm2
    split at h
    · simp at h
    · -- re-encoded as one stored block
      rename_i r hst
      simp at h
      subst h
      simp only [cutSingleBlockStored] at hst
      split at hst
      · rename_i hm5
        have hwant := singleStoredLen_le m
        have hwant16 : singleStoredLen m ≤ 65535 := by simp only [singleStoredLen]; split <;> omega
        generalize singleStoredLen m = want at hst hwant hwant16
        obtain ⟨o, rest, h1, h2, h3⟩ := blocks_cap s want 0 (8 * s.size + 1) 0 #[] pE T hblk
        rw [inflateRaw_nodict] at hst
        simp only [Array.empty_append] at h1 h2 h3
        generalize blocks s (some want) 0 (8 * s.size + 1) 0 #[] = R at hst h1 h3
        simp only [Array.extract_eq_self_of_le (Nat.le_refl _)] at hst
        rw [h1] at hst
        have hn : (if o.size < want then o.size else want) ≤ o.size ∧
            (if o.size < want then o.size else want) ≤ want := by split <;> omega
        generalize (if o.size < want then o.size else want) = n at hst hn
        repeat' split at hst
        all_goals first
          | (simp at hst; done)
          | skip
        rename_i hn0 hs5
        simp at hst
        obtain ⟨rfl, rfl, rfl⟩ := hst
        have hA : (o.extract 0 n).size = n := by simp [Array.size_extract]; omega
        have hk : (if s.size - 5 < n then s.size - 5 else n) = n := by split <;> omega
        have henc : (writeStored s o n).extract 0 (n + 5) = storedHeader n ++ o.extract 0 n := by
          simp only [writeStored, hk]
          have : n + 5 = (storedHeader n ++ o.extract 0 n).size := by
            simp [Array.size_append, hA, storedHeader_size]; omega
          rw [this, extract_prefix_append]
        refine ⟨?_, by rw [h2]; simp [Array.size_append]; omega⟩
        rw [henc, h2, extract_prefix_of_append _ _ _ hn.1]
        have hb := blkAt_header (o.extract 0 n) n hA (by omega)
        have := inflate_stored _ [] (o.extract 0 n) trivial (by simpa [endOf] using hb)
        simp only [flat, endOf, hA] at this
        rw [this]
        simp
        omega
      · simp at hst
    · -- nothing fits: `03 00`
      repeat' split at h
      all_goals first
        | (simp at h; done)
        | skip
      rename_i e1 h1 _ e2 h2
      simp at h
      obtain ⟨rfl, rfl, rfl⟩ := h
      simp only [setB] at h1 h2
      split at h1 <;> simp at h1
      split at h2 <;> simp at h2
      subst h1
      subst h2
      rename_i hs0 hs1
      simp at hs1
      have henc : ((s.setIfInBounds 0 3).setIfInBounds 1 0).extract 0 2 = #[3, 0] := by
        apply Array.ext
        · simp [Array.size_extract]; omega
        · intro i hi1 hi2
          simp at hi2
          have : i = 0 ∨ i = 1 := by omega
          rcases this with rfl | rfl
          · simp only [Array.getElem_extract, Nat.zero_add]
            rw [Array.getElem_setIfInBounds_ne (by simp; omega) (by omega)]
            simp
          · simp [Array.getElem_extract]
      refine ⟨?_, Nat.zero_le _⟩
      rw [henc, inflate_0300]
      simp

end WuffsVerif.Flate.Cut
