/-
C16: `zlibcut.Cut` on zlib streams WITH a preset dictionary (FDICT): the cut stream is a valid zlib stream
(header and DICTID kept, DEFLATE data cut by `flatecut.Cut`, Adler-32 of the prefix) that, decoded with the
same dictionary, yields a prefix.  `flatecut.Cut` re-decodes without the dictionary; when that fails
(`corrupt`: the kept part refers to the dictionary) `zlibcut.Cut` returns the error.
-/
import WuffsVerif.Proof.Flate.ZlibPrefix

namespace WuffsVerif.Flate.ZlibCut
open WuffsVerif.Flate.Cut WuffsVerif.Gen.C16 WuffsVerif.Flate.Spec

/-- **`zlibcut.Cut` on a valid zlib stream with a preset dictionary** (`hd`: the FDICT bit is set; `dict`
is the dictionary, its Adler-32 is the stream's DICTID): the first `encodedLen` bytes of the result are a
complete valid zlib stream (same header and DICTID, DEFLATE data cut by `flatecut.Cut`, Adler-32 of the
decoded prefix) that, decoded with the same dictionary, yields exactly the first `decodedLen` bytes of the
original decompression, and the writer receives those bytes. -/
theorem Cut_prefix_fdict (dict s T : Spec.Bytes) (n : Nat) (limit : Int) (r : CutResult)
    (hz : Spec.zlibDecode dict s = some (T, n)) (hd : (s.getD 1 0).toNat / 32 % 2 = 1)
    (hT : T.size + 32768 < 2147483648) (h : ZlibCut.Cut s limit = .ok r) :
    Spec.zlibDecode dict (r.encoded.extract 0 r.encodedLen) = some (T.extract 0 r.decodedLen, r.encodedLen) ∧
    r.decodedLen ≤ T.size ∧ r.written = T.extract 0 r.decodedLen ∧
    (r.encoded.extract 0 r.encodedLen).getD 1 0 = s.getD 1 0 := by
  -- the original stream
  simp only [Spec.zlibDecode] at hz
  split at hz
  · simp at hz
  rename_i hsz2
  split at hz
  · simp at hz
  rename_i hhdr
  simp only [hd, if_true, true_and] at hz
  split at hz
  · simp at hz
  rename_i hsz6
  split at hz
  · simp at hz
  rename_i hdid
  split at hz
  · simp at hz
  · rename_i out n1 hinf
    split at hz
    · simp at hz
    rename_i hszn
    split at hz
    · simp at hz
    simp only [Option.some.injEq, Prod.mk.injEq] at hz
    obtain ⟨rfl, _⟩ := hz
    have hinf' : Spec.inflateDict dict (s.extract 6 s.size) = some (out, n1) := hinf
    have hpay : Spec.inflateDict dict (s.extract 6 (s.size - 4)) = some (out, n1) := by
      apply inflateDict_local _ _ _ _ _ hinf'
      · intro j hj
        rw [getD_extract_bytes s 6 (s.size - 4) j (by omega) (by omega),
          getD_extract_bytes s 6 s.size j (by omega) (by omega)]
      · simp [Array.size_extract]; omega
    -- the cut
    simp only [ZlibCut.Cut] at h
    have c1 : ¬ (s.size < 2) := hsz2
    rw [if_neg c1] at h
    split at h
    · simp at h
    split at h
    · simp at h
    simp only [hd, true_and, if_true] at h
    split at h
    · simp at h
    split at h
    · simp at h
    split at h
    · simp at h
    rename_i hlim
    split at h
    · simp at h
    rename_i r' hcut
    split at h
    · simp at h
    rename_i hov
    simp only [Except.ok.injEq] at h
    subst h
    obtain ⟨g1, g2, g3⟩ := Cut.Cut_all_dict true dict _ out n1 _ r' hpay hT hcut
    obtain ⟨b1, b2, b3⟩ := Cut.Cut_lengths_in_bounds true _ _ r' hcut
    have hpsz : (s.extract 6 (s.size - 4)).size = s.size - 10 := by simp [Array.size_extract]; omega
    rw [hpsz] at b2 b3
    have g3 := g3 rfl
    simp only []
    suffices hmain : _ ∧ _ from ⟨hmain.1, g2, g3, hmain.2⟩
    generalize hH : adler32 r'.written = H
    have hHlt : H < 4294967296 := by rw [← hH]; exact adler32_lt _
    generalize hE0 : s.extract 0 6 ++ r'.encoded ++ s.extract (s.size - 4) s.size = E0
    have hE0sz : E0.size = s.size := by rw [← hE0]; simp [Array.size_extract, b3]; omega
    -- bytes of the buffer before the hash is written
    have hE0lo : ∀ j, j < 6 → E0.getD j 0 = s.getD j 0 := by
      intro j hj
      rw [← hE0]
      simp only [Array.getD_eq_getD_getElem?]
      rw [Array.getElem?_append_left (by simp [Array.size_extract]; omega),
        Array.getElem?_append_left (by simp [Array.size_extract]; omega), Array.getElem?_extract]
      have : j < min 6 s.size := by omega
      simp [this]
    have hE0mid : ∀ j, j < r'.encoded.size → E0.getD (6 + j) 0 = r'.encoded.getD j 0 := by
      intro j hj
      rw [← hE0]
      simp only [Array.getD_eq_getD_getElem?]
      have hs2 : (s.extract 0 6).size = 6 := by simp [Array.size_extract]; omega
      rw [Array.getElem?_append_left (by simp [Array.size_extract]; omega),
        Array.getElem?_append_right (by rw [hs2]; omega), hs2]
      congr 2; omega
    generalize hE4 : (((E0.setIfInBounds (6 + r'.encodedLen) (UInt8.ofNat (H / 2 ^ 24 % 256))).setIfInBounds
      (6 + r'.encodedLen + 1) (UInt8.ofNat (H / 2 ^ 16 % 256))).setIfInBounds (6 + r'.encodedLen + 2)
      (UInt8.ofNat (H / 2 ^ 8 % 256))).setIfInBounds (6 + r'.encodedLen + 3) (UInt8.ofNat (H % 256)) = E4
    have hE4get : ∀ j, E4.getD j 0 =
        if j = 6 + r'.encodedLen then UInt8.ofNat (H / 2 ^ 24 % 256)
        else if j = 6 + r'.encodedLen + 1 then UInt8.ofNat (H / 2 ^ 16 % 256)
        else if j = 6 + r'.encodedLen + 2 then UInt8.ofNat (H / 2 ^ 8 % 256)
        else if j = 6 + r'.encodedLen + 3 then UInt8.ofNat (H % 256) else E0.getD j 0 := by
      intro j
      rw [← hE4]
      simp only [getD_setIfInBounds, Array.size_setIfInBounds]
      repeat' split
      all_goals first
        | rfl
        | omega
    have hE4sz : E4.size = s.size := by rw [← hE4]; simpa using hE0sz
    generalize hEd : E4.extract 0 (6 + r'.encodedLen + 4) = E
    have hEsz : E.size = 6 + r'.encodedLen + 4 := by rw [← hEd]; simp [Array.size_extract]; omega
    have hEget : ∀ j, j < 6 + r'.encodedLen + 4 → E.getD j 0 = E4.getD j 0 := by
      intro j hj
      rw [← hEd]
      have := getD_extract_bytes E4 0 (6 + r'.encodedLen + 4) j (by omega) (by omega)
      simpa using this
    have e1' : E.getD 1 0 = s.getD 1 0 := by
      rw [hEget 1 (by omega), hE4get 1]
      have : ¬ (1 = 6 + r'.encodedLen) := by omega
      have : ¬ (1 = 6 + r'.encodedLen + 1) := by omega
      have : ¬ (1 = 6 + r'.encodedLen + 2) := by omega
      have : ¬ (1 = 6 + r'.encodedLen + 3) := by omega
      simp only [*, if_false]
      exact hE0lo 1 (by omega)
    refine ⟨?_, e1'⟩
    -- decode the result
    simp only [Spec.zlibDecode]
    have d1 : ¬ (E.size < 2) := by omega
    rw [if_neg d1]
    have e0 : E.getD 0 0 = s.getD 0 0 := by
      rw [hEget 0 (by omega), hE4get 0]
      have : ¬ (0 = 6 + r'.encodedLen) := by omega
      have : ¬ (0 = 6 + r'.encodedLen + 1) := by omega
      have : ¬ (0 = 6 + r'.encodedLen + 2) := by omega
      have : ¬ (0 = 6 + r'.encodedLen + 3) := by omega
      simp only [*, if_false]
      exact hE0lo 0 (by omega)
    have e1 : E.getD 1 0 = s.getD 1 0 := by
      rw [hEget 1 (by omega), hE4get 1]
      have : ¬ (1 = 6 + r'.encodedLen) := by omega
      have : ¬ (1 = 6 + r'.encodedLen + 1) := by omega
      have : ¬ (1 = 6 + r'.encodedLen + 2) := by omega
      have : ¬ (1 = 6 + r'.encodedLen + 3) := by omega
      simp only [*, if_false]
      exact hE0lo 1 (by omega)
    rw [e0, e1, if_neg hhdr]
    simp only [hd, if_true, true_and]
    have d2 : ¬ (E.size < 6) := by omega
    rw [if_neg d2]
    have hbe2 : be32 E 2 = be32 s 2 := by
      simp only [be32]
      have eb : ∀ j, j < 6 → E.getD j 0 = s.getD j 0 := by
        intro j hj
        rw [hEget j (by omega), hE4get j]
        have : ¬ (j = 6 + r'.encodedLen) := by omega
        have : ¬ (j = 6 + r'.encodedLen + 1) := by omega
        have : ¬ (j = 6 + r'.encodedLen + 2) := by omega
        have : ¬ (j = 6 + r'.encodedLen + 3) := by omega
        simp only [*, if_false]
      rw [eb 2 (by omega), eb 3 (by omega), eb 4 (by omega), eb 5 (by omega)]
    rw [hbe2, if_neg hdid]
    have hinfE : inflateDict dict (E.extract 6 E.size) = some (out.extract 0 r'.decodedLen, r'.encodedLen) := by
      apply inflateDict_local _ _ _ _ _ g1
      · intro j hj
        rw [getD_extract_bytes E 6 E.size j (by omega) (Nat.le_refl _), hEget (6 + j) (by omega), hE4get (6 + j)]
        have : ¬ (6 + j = 6 + r'.encodedLen) := by omega
        have : ¬ (6 + j = 6 + r'.encodedLen + 1) := by omega
        have : ¬ (6 + j = 6 + r'.encodedLen + 2) := by omega
        have : ¬ (6 + j = 6 + r'.encodedLen + 3) := by omega
        simp only [*, if_false]
        rw [hE0mid j (by omega)]
        have := getD_extract_bytes r'.encoded 0 r'.encodedLen j (by omega) (by omega)
        simp only [Nat.zero_add] at this
        rw [this]
      · simp [Array.size_extract]; omega
    rw [hinfE]
    simp only []
    have d3 : ¬ (E.size < 6 + r'.encodedLen + 4) := by omega
    rw [if_neg d3]
    have hbe : be32 E (6 + r'.encodedLen) = adler32 (out.extract 0 r'.decodedLen) := by
      rw [← g3, hH]
      apply be32_bytes E _ H hHlt
      · rw [hEget _ (by omega), hE4get]; simp
      · rw [hEget _ (by omega), hE4get]
        have : ¬ (6 + r'.encodedLen + 1 = 6 + r'.encodedLen) := by omega
        simp [this]
      · rw [hEget _ (by omega), hE4get]
        have : ¬ (6 + r'.encodedLen + 2 = 6 + r'.encodedLen) := by omega
        have : ¬ (6 + r'.encodedLen + 2 = 6 + r'.encodedLen + 1) := by omega
        simp [*]
      · rw [hEget _ (by omega), hE4get]
        have : ¬ (6 + r'.encodedLen + 3 = 6 + r'.encodedLen) := by omega
        have : ¬ (6 + r'.encodedLen + 3 = 6 + r'.encodedLen + 1) := by omega
        have : ¬ (6 + r'.encodedLen + 3 = 6 + r'.encodedLen + 2) := by omega
        simp [*]
    have d4 : ¬ (be32 E (6 + r'.encodedLen) ≠ adler32 (out.extract 0 r'.decodedLen)) := by
      intro hne; exact hne hbe
    rw [if_neg d4]

end WuffsVerif.Flate.ZlibCut
