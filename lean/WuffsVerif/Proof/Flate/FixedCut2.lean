/-
C16: THE property, end to end, for streams that consist of one fixed-Huffman block (part 2: `cut`).
-/
import WuffsVerif.Proof.Flate.FixedCut

namespace WuffsVerif.Flate.Cut
open WuffsVerif.Gen.C16 WuffsVerif.Flate.Spec

attribute [local irreducible] Spec.fixedLitLens Spec.fixedDistLens Spec.fixedLit Spec.fixedDist

theorem bitsLE_one (s : Bytes) (p : Nat) : bitsLE s p 1 = bitAt s p := by simp [bitsLE]

theorem extract_size_le (s : Bytes) (e : Nat) (h : e ≤ s.size) : (s.extract 0 e).size = e := by
  simp [Array.size_extract]; omega

theorem append_extract_left (o x : Bytes) : (o ++ x).extract 0 o.size = o := extract_prefix_append o x

/-- The block loop of `cut` on a stream whose first block is a final fixed-Huffman block. -/
theorem cutLoop_fixed (s T : Bytes) (n0 : Nat) (hs : Spec.inflate s = some (T, n0)) (pE : Nat)
    (h0 : bitAt s 0 = 1) (h12 : bitsLE s 1 2 = 1)
    (hspec : huffBlock fixedLit fixedDist 7 5 s none 0 (8 * s.size + 1) 3 #[] = .next pE T)
    (hT : (T.size : Int) < 2147483648) (m : Nat) (hm2 : 2 ≤ m) (hm : m ≤ s.size)
    (fuel : Nat) (enc : Bytes) (e d : Nat)
    (h : Cutter.cutLoop (fuel + 1) ⟨⟨s, 0, 0, 0⟩, m, 0, 0, 0, Huffman.zero, Huffman.zero⟩ none = .ok (enc, e, d)) :
    Good T enc e d := by
  simp only [Cutter.cutLoop] at h
  have hinv0 : (⟨s, 0, 0, 0⟩ : Bitstream).Inv := inv_fresh s 0 (Nat.zero_le _)
  -- the final-block bit
  obtain ⟨t1, i1, p1, y1⟩ := take_avail ⟨s, 0, 0, 0⟩ hinv0 1 (by omega) (by simp [avail, Bitstream.pos]; omega)
  generalize (⟨s, 0, 0, 0⟩ : Bitstream).take 1 = r1 at h t1 i1 p1 y1
  obtain ⟨fb, bits1⟩ := r1
  simp only [] at h t1 i1 p1 y1
  have hp0 : (⟨s, 0, 0, 0⟩ : Bitstream).pos = 0 := rfl
  rw [hp0, bitsLE_one, h0] at t1
  rw [hp0] at p1
  have t1 : fb = 1 := by rw [t1]; rfl
  subst t1
  have nfb : ¬ ((1 : Int) < 0) := by omega
  simp only [nfb, if_false] at h
  obtain ⟨iu, pu⟩ := Inv.unread i1
  have hfbn := unread_nBits_lt bits1
  have hfbi : 8 * bits1.unread.index - bits1.unread.nBits - 1 = 0 := by
    have := iu.nBits_le
    simp only [Bitstream.pos] at pu p1
    omega
  have hfbi1 : 1 ≤ bits1.unread.index := by
    have := iu.nBits_le
    simp only [Bitstream.pos] at pu p1
    omega
  -- the block type
  obtain ⟨t2, i2, p2, y2⟩ := take_avail bits1 i1 2 (by omega) (by rw [y1, p1]; simp [avail]; omega)
  generalize bits1.take 2 = r2 at h t2 i2 p2 y2
  obtain ⟨bt, bits2⟩ := r2
  simp only [] at h t2 i2 p2 y2
  rw [y1, p1, h12] at t2
  rw [p1] at p2
  have t2 : bt = 1 := by rw [t2]; rfl
  subst t2
  have e1 : ¬ ((1 : Int) = 3) := by omega
  have e2 : ¬ ((1 : Int) = 0) := by omega
  simp only [nfb, e1, e2, if_false, if_true, Option.isNone_none] at h
  have hy : bits2.bytes = s := by rw [y2, y1]
  have hc2 : (⟨bits2, m, 0, 0, 0, Huffman.zero, Huffman.zero⟩ : Cutter).OK :=
    ⟨i2, by show m ≤ bits2.bytes.size; rw [hy]; exact hm, Huffman.zero_shape, Huffman.zero_shape⟩
  have hsim := doStaticHuffman_sim ⟨bits2, m, 0, 0, 0, Huffman.zero, Huffman.zero⟩ hc2 (8 * s.size + 1) pE #[] T
    (by show huffBlock fixedLit fixedDist 7 5 bits2.bytes none 0 (8 * s.size + 1) bits2.pos #[] = .next pE T
        rw [hy, p2]; exact hspec) 0 (by simp) (by simp) hT true
  generalize Cutter.doStaticHuffman ⟨bits2, m, 0, 0, 0, Huffman.zero, Huffman.zero⟩ true = blk at h hsim
  obtain ⟨c3, err⟩ := blk
  obtain ⟨k1, k2, k3, k4, k5, _⟩ := hsim
  have hk1 : c3.bits.bytes.size = s.size := by
    have : c3.bits.bytes.size = bits2.bytes.size := k1
    rw [this, hy]
  have hk2 : c3.maxEncodedLen = m := k2
  try simp only [] at h
  obtain ⟨qE, hrE, heobE⟩ := spec_reach fixedLit fixedDist 7 5 0 s _ _ _ _ _ hspec
  have hsymE := huffTok_eob _ _ _ _ _ _ _ _ heobE
  obtain ⟨_, hlenE, _⟩ := decodeSym_len fixedLitLens fixedLit fixedLit_some fixedLit_nz s qE 7 256 pE hsymE
  rw [fixedLit_256.2] at hlenE
  have hbE := decodeSym_bounds fixedLit s qE 7 256 pE hsymE
  have hqE3 := hrE.le
  split at h
  · -- nil: the whole block fits
    obtain ⟨a1, a2, a3, a4, a5⟩ := k3 rfl
    have a3 : c3.decodedLen = (T.size : Int) := by
      have h' : c3.decodedLen + ((0 : Nat) : Int) = (T.size : Int) := a3
      omega
    have a1 : c3.bits.bytes = s := by rw [a1]; exact hy
    obtain ⟨iu3, pu3⟩ := Inv.unread a5
    try simp only [e2, if_false] at h
    obtain ⟨f1, f2, f3, f4⟩ := finish_bits _ enc e d h (unread_nBits_lt _) iu3.nBits_le
    simp only [] at f1 f2 f3 f4
    have hpos : 8 * c3.bits.unread.index - c3.bits.unread.nBits = pE := by
      have : c3.bits.unread.pos = pE := by rw [pu3]; exact a2
      exact this
    have hnb := unread_nBits_lt c3.bits
    have hesz : e ≤ enc.size := by rw [f1, f3]; exact iu3.index_le
    have hd : d = T.size := by rw [f2]; show c3.decodedLen.toNat = T.size; rw [a3]; simp
    rw [hd]
    refine ⟨?_, Nat.le_refl _⟩
    have hbits : ∀ i, i < pE → bitAt (enc.extract 0 e) i = bitAt s i := by
      intro i hi
      rw [bitAt_extract _ _ _ (by omega), f4 i]
      have : ¬ (8 * c3.bits.unread.index - c3.bits.unread.nBits ≤ i ∧ i < 8 * c3.bits.unread.index) := by omega
      rw [if_neg this]
      show bitAt c3.bits.bytes i = bitAt s i
      rw [a1]
    have hsz'' : (enc.extract 0 e).size = e := extract_size_le enc e hesz
    have := inflate_fixed_single s (enc.extract 0 e) qE pE T hrE (fun i _ hi => hbits i (by omega))
      (by rw [hbits 0 (by omega)]; exact h0)
      (by rw [bitsLE_local s (enc.extract 0 e) 1 2 (fun i _ hi => hbits i (by omega))]; exact h12)
      (by
        have hloc := huffTok_local fixedLit fixedDist 7 5 s (enc.extract 0 e) qE T.size (by rw [heobE]; trivial)
          (by rw [heobE]; simp only [Tok.endPos]; intro i _ hi; exact hbits i hi)
          (by rw [heobE]; simp only [Tok.endPos]; rw [hsz'']; omega) (by rw [hsz'']; omega) (hminD_fixed s)
        rw [hloc.1]; exact heobE)
      (by rw [hsz'']; omega)
    rw [this]
    have : (pE + 7) / 8 = e := by omega
    rw [this, Array.extract_eq_self_of_le (Nat.le_refl _)]
  · -- errInternalNoProgress on the first block: cutSingleBlock
    have hb : c3.bits.bytes = s := by rw [k5 (Or.inl rfl)]; exact hy
    simp only [unread_bytes] at h
    rw [hb, hk2] at h
    exact cutSingleBlock_good s T n0 hs m enc e d hm h
  · -- errInternalSomeProgress: cut inside the block
    obtain ⟨q, o, a1, a2, a3, a4, a5, a6, a7, ⟨lh, hgl⟩, a8⟩ := k4 rfl
    have a1 : Reach fixedLit fixedDist 7 5 s 3 #[] q o := by
      have : Reach fixedLit fixedDist 7 5 bits2.bytes bits2.pos #[] q o := a1
      rw [hy, p2] at this; exact this
    have a2 : 3 < q := by have : bits2.pos < q := a2; omega
    have a4 : q + 7 ≤ 8 * m := a4
    have a5 : 8 * c3.bits.index - c3.bits.nBits = q + 7 := a5
    have a6 : c3.bits.nBits ≤ 8 * c3.bits.index := a6
    have a7 : c3.bits.nBits ≤ 8 := a7
    have a3 : c3.decodedLen = (o.size : Int) := by
      have h' : c3.decodedLen + ((0 : Nat) : Int) = (o.size : Int) := a3
      omega
    have a8 : ∀ i, bitAt c3.bits.bytes i =
        if q ≤ i ∧ i < q + 7 then ((rfcCode fixedLitLens 256).testBit (7 - 1 - (i - q))).toNat else bitAt s i := by
      intro i; rw [a8 i]; show _ = if _ then _ else bitAt s i
      have : bitAt (⟨bits2, m, 0, 0, 0, Huffman.zero, Huffman.zero⟩ : Cutter).bits.bytes i = bitAt s i := by
        show bitAt bits2.bytes i = bitAt s i; rw [hy]
      rw [this]
    simp only [unread_bytes] at h
    split at h
    · simp at h
    · rename_i b' hp
      obtain ⟨_, _, g3, g4⟩ := patchFinalBit_bits _ _ _ _ hp hfbn
      have hwf : c3.bits.unread.nBits ≤ 8 * c3.bits.unread.index := by
        simp only [Bitstream.unread]; omega
      obtain ⟨f1, f2, f3, f4⟩ := finish_bits _ enc e d h (unread_nBits_lt _) hwf
      simp only [] at f1 f2 f3 f4
      have hpos : 8 * c3.bits.unread.index - c3.bits.unread.nBits = q + 7 := by
        simp only [Bitstream.unread]; omega
      have hnb := unread_nBits_lt c3.bits
      have hidx : c3.bits.unread.index ≤ s.size := by
        have : 8 * c3.bits.unread.index ≤ q + 7 + 7 := by omega
        omega
      have hencsz : enc.size = s.size := by
        have e1 : enc.size = b'.size := f3
        have e2 : b'.size = c3.bits.bytes.size := g3
        rw [e1, e2, hk1]
      have f1 : e = c3.bits.unread.index := f1
      have hesz : e ≤ enc.size := by rw [hencsz, f1]; exact hidx
      have hsz'' : (enc.extract 0 e).size = e := extract_size_le enc e hesz
      have hd : d = o.size := by rw [f2]; show c3.decodedLen.toNat = o.size; rw [a3]; simp
      -- bits of the result
      have hbits : ∀ i, i < q + 7 → bitAt (enc.extract 0 e) i =
          if i = 0 then 1 else if q ≤ i then ((rfcCode fixedLitLens 256).testBit (7 - 1 - (i - q))).toNat
          else bitAt s i := by
        intro i hi
        rw [bitAt_extract _ _ _ (by omega), f4 i]
        have : ¬ (8 * c3.bits.unread.index - c3.bits.unread.nBits ≤ i ∧ i < 8 * c3.bits.unread.index) := by omega
        rw [if_neg this]
        show bitAt b' i = _
        rw [g4 i, hfbi]
        by_cases hi0 : i = 0
        · rw [if_pos hi0, if_pos hi0]
        · rw [if_neg hi0, if_neg hi0, a8 i]
          by_cases hqi : q ≤ i
          · rw [if_pos ⟨hqi, hi⟩, if_pos hqi]
          · have : ¬ (q ≤ i ∧ i < q + 7) := by omega
            rw [if_neg this, if_neg hqi]
      obtain ⟨x, hx⟩ := reach_prefix fixedLit fixedDist 7 5 s (hminD_fixed s) a1 (by omega) _ pE T (by omega) hspec
      rw [hd]
      refine ⟨?_, by rw [hx]; simp [Array.size_append]⟩
      have heob'' : huffTok fixedLit fixedDist 7 5 (enc.extract 0 e) q o.size = .eob (q + 7) := by
        have hdec := eob_decodes lh fixedLitLens hgl fixedLit_nz fixedLit fixedLit_some
          (offAt16_le fixedLitLens 288 (by rw [fixedLit_256.1]; omega)) (by rw [fixedLit_256.1]; omega)
          (by rw [fixedLit_256.2]; omega) (enc.extract 0 e) q
          (by
            intro k hk
            rw [fixedLit_256.2] at hk ⊢
            rw [hbits (q + k) (by omega)]
            have n0 : ¬ (q + k = 0) := by omega
            have : q + k - q = k := by omega
            rw [if_neg n0, if_pos (by omega), this])
          (by rw [fixedLit_256.2, hsz'']; omega)
        rw [fixedLit_256.2] at hdec
        simp only [huffTok, decodeSym]
        have hav : ¬ (avail (enc.extract 0 e) q < 7) := by simp only [avail]; rw [hsz'']; omega
        rw [if_neg hav, hdec]
        simp
      have := inflate_fixed_single s (enc.extract 0 e) q (q + 7) o a1
        (fun i h3 hi => by
          rw [hbits i (by omega)]
          have n0 : ¬ (i = 0) := by omega
          have nq : ¬ (q ≤ i) := by omega
          rw [if_neg n0, if_neg nq])
        (by rw [hbits 0 (by omega)]; simp)
        (by
          rw [bitsLE_local s (enc.extract 0 e) 1 2 (fun i h1 hi => by
            rw [hbits i (by omega)]
            have n0 : ¬ (i = 0) := by omega
            have nq : ¬ (q ≤ i) := by omega
            rw [if_neg n0, if_neg nq])]
          exact h12)
        heob'' (by rw [hsz'']; omega)
      rw [this]
      have he : (q + 7 + 7) / 8 = e := by omega
      rw [he, hx, append_extract_left]
  · -- errInternalReplaceWithSingleBlock
    have hb : c3.bits.bytes = s := by rw [k5 (Or.inr rfl)]; exact hy
    simp only [unread_bytes] at h
    rw [hb, hk2] at h
    exact cutSingleBlock_good s T n0 hs m enc e d hm h
  · simp at h

/-- The spec's view of a stream that is one final fixed-Huffman block. -/
theorem fixed_block_spec (s T : Bytes) (n0 : Nat) (hs : Spec.inflate s = some (T, n0))
    (h0 : bitAt s 0 = 1) (h12 : bitsLE s 1 2 = 1) :
    ∃ pE, huffBlock fixedLit fixedDist 7 5 s none 0 (8 * s.size + 1) 3 #[] = .next pE T := by
  obtain ⟨pE, hblk, _⟩ := inflate_blocks s T n0 hs
  rw [blocks_succ] at hblk
  split at hblk
  · simp at hblk
  · simp only [blockBody, Nat.zero_add, h12] at hblk
    have e1 : ¬ ((1 : Nat) = 0) := by omega
    simp only [e1, if_false, if_true] at hblk
    cases hb : huffBlock fixedLit fixedDist 7 5 s none 0 (8 * s.size + 1) 3 #[] with
    | stop st p' out' =>
      rw [hb] at hblk
      simp at hblk
      exact absurd hblk.1 (huffBlock_stop _ _ _ _ _ _ _ _ _ _ _ _ _ hb)
    | next p1 out1 =>
      rw [hb] at hblk
      simp only [h0, if_true] at hblk
      simp at hblk
      exact ⟨p1, by rw [hblk.2]⟩

/-- **THE property for a stream that is one final fixed-Huffman block** (`flatecut.Cut`, with or without
a writer, any limit): the cut stream is a complete DEFLATE stream that decodes to exactly the first
`decodedLen` bytes of the original output, and the writer receives those bytes. -/
theorem Cut_fixed_block (w : Bool) (s T : Bytes) (n0 : Nat) (limit : Int) (r : CutResult)
    (hs : Spec.inflate s = some (T, n0)) (h0 : bitAt s 0 = 1) (h12 : bitsLE s 1 2 = 1)
    (hT : T.size < 2147483648) (h : Cut w s limit = .ok r) :
    Spec.inflate (r.encoded.extract 0 r.encodedLen) = some (T.extract 0 r.decodedLen, r.encodedLen) ∧
    r.decodedLen ≤ T.size ∧ (w = true → r.written = T.extract 0 r.decodedLen) := by
  obtain ⟨pE, hspec⟩ := fixed_block_spec s T n0 hs h0 h12
  rw [Cut_eq] at h
  split at h
  · simp at h
  · rename_i hlim
    simp only [smallestValidMaxEncodedLen] at hlim
    have hcl := clampLimit_le limit s.size (by omega)
    generalize clampLimit limit s.size = m at h hcl
    split at h
    · simp at h
    · rename_i hm2
      simp only [smallestValidMaxEncodedLen] at hm2
      split at h
      · simp at h
      · rename_i enc eLen dLen hc
        have hg := cutLoop_fixed s T n0 hs pE h0 h12 hspec (by omega) m (by omega) hcl.1 (8 * s.size + 1)
          enc eLen dLen hc
        obtain ⟨hg1, hg2⟩ := hg
        have hio := inflate_some_out _ _ _ hg1
        split at h
        · rename_i hw
          simp only [hio.1, hio.2] at h
          split at h <;> simp at h
          subst h
          exact ⟨hg1, hg2, fun _ => rfl⟩
        · rename_i hw
          simp at h
          subst h
          exact ⟨hg1, hg2, fun hw' => absurd hw' hw⟩

end WuffsVerif.Flate.Cut
